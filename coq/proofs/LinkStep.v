(* L1, brick 7: one accepted event.  Simulation between an instance of model/AbftRun.v and the
   reference's table at event boundaries (Sim), and the Process step: an event that the reference
   accepts is accepted by the model (guard, index Add, frame check, AddRoot), the blocks it emits are
   exactly the reference's new decisions with the reference's cheaters, and Sim holds afterwards. *)
From Coq Require Import NArith ZArith List Lia Bool ZifyBool ZifyN ZifyNat.
From LV Require Import lib.Bytes lib.VecListFacts model.Codec model.VecIndex spec.FcSpec model.Abft model.AbftRun spec.ElectionSpec
  lib.WSumBft proofs.FcSpecFacts proofs.VecInv proofs.VecStep proofs.VecMain
  proofs.AbftFrame proofs.AbftCount proofs.AbftIds proofs.AbftBuild proofs.AbftInvLemmas
  proofs.BftCore proofs.BftElection proofs.BftMono proofs.BftGraph proofs.BftMain proofs.BftRun proofs.BftFcSpec proofs.BftAccept
  proofs.LinkVals proofs.LinkDefs proofs.LinkSim proofs.LinkFrame proofs.LinkTally proofs.LinkVote proofs.LinkCheat
  proofs.LinkElect proofs.LinkMono.
Import ListNotations.
Local Open Scope N_scope.

(* ---------- AddRoot keeps the table duplicate-free ---------- *)
Lemma root_insert_nodup r l : ~ In r l -> NoDup l -> NoDup (root_insert r l).
Proof.
  induction l as [|x t IH]; intros Hn ND; cbn [root_insert]; [constructor; [intros []|constructor]|].
  destruct (root_eqb r x) eqn:E; [exact ND|].
  destruct (root_lt r x); [constructor; auto|].
  apply NoDup_cons_iff in ND as [Hx ND]. constructor.
  - rewrite root_insert_iff. intros [->|H]; [apply Hn; left; reflexivity | contradiction].
  - apply IH; [intros H; apply Hn; right; exact H | exact ND].
Qed.
Lemma add_roots_loop_nodup e : forall fuel rs f, NoDup rs ->
  (forall r, In r rs -> r_id r = a_id e -> r_frame r < f) -> NoDup (add_roots_loop fuel rs e f).
Proof.
  induction fuel as [|fu IH]; intros rs f ND H; cbn [add_roots_loop]; [exact ND|].
  destruct (a_frame e <? f); [exact ND|].
  apply IH.
  - apply root_insert_nodup; [|exact ND]. intros Hin. specialize (H _ Hin eq_refl). unfold r_frame in H. cbn in H. lia.
  - intros r Hr Eid. apply root_insert_iff in Hr as [->|Hr]; [unfold r_frame; cbn; lia | specialize (H r Hr Eid); lia].
Qed.

Lemma mem_true x l : AbftRun.mem x l = true <-> In x l.
Proof.
  unfold AbftRun.mem. rewrite existsb_exists. split; [intros [y [Hy E]]; apply N.eqb_eq in E; subst; exact Hy|].
  intros H. exists x. split; [exact H | apply N.eqb_refl].
Qed.

Section Step.
Variable cap : nat.
Variable ep : N.
Variable lam : fev -> N.
Variable vals : list (N * N).
Hypothesis Hvals : vals_ok vals.

Notation ws := (map snd vals).
Notation nv := (length vals).
Notation q := (ElectionSpec.quorum_of ws).
Notation fcn := (fc_n ws q).
Notation ae := (to_aevent ep lam vals).
Notation slot := (slot vals).
Notation Core := (Core ep lam vals).
Notation cache_inv := (cache_inv vals).

Lemma Seg_in T L B L1 f a : Seg vals T L B L1 -> In (f, a) B ->
  decide node nd_id nd_cr nd_fr nd_spf fcn ws q (canon_order vals) T f (max_frame node nd_fr T) = Atropos a.
Proof.
  induction 1 as [|L a0 t L1 Hd Hs IH]; intros Hin; [destruct Hin|].
  destruct Hin as [E|Hin]; [inversion E; subst; exact Hd | apply IH; exact Hin].
Qed.

Lemma Seg_frames T L B L1 f a : Seg vals T L B L1 -> In (f, a) B -> L < f <= L1.
Proof.
  induction 1 as [|L a0 t L1 Hd Hs IH]; intros Hin; [destruct Hin|]. pose proof (Seg_le vals T _ _ _ Hs).
  destruct Hin as [E|Hin]; [inversion E; subst; lia | specialize (IH Hin); lia].
Qed.
Lemma Seg_last T L B L1 : Seg vals T L B L1 -> L < L1 -> exists a, In (L1, a) B.
Proof.
  induction 1 as [|L a0 t L1 Hd Hs IH]; intros Lt; [lia|].
  destruct (N.eq_dec (L + 1) L1) as [<-|NE]; [exists a0; left; reflexivity|].
  pose proof (Seg_le vals T _ _ _ Hs). destruct IH as [a Ha]; [lia|]. exists a. right. exact Ha.
Qed.

Lemma vev_ae e : (ecr (fe e) < nv)%nat -> vev vals (ae e) = fe e.
Proof.
  intros H. unfold vev, to_aevent. cbn [a_id a_creator a_seq a_parents].
  rewrite (v_idx_vid vals _ (vals_nodup vals Hvals) H). destruct (fe e); reflexivity.
Qed.

(* an event accepted by the reference is well-formed for the vector index *)
Lemma accepted_wf_new st es T Dr R e : Core st es T Dr R ->
  parents_known T e -> nlookup (eid (fe e)) T = None -> (ecr (fe e) < nv)%nat -> ev_wf T e ->
  wf_new nv (l_idx st) (fe e).
Proof.
  intros C PK NL CR [S1 S2]. pose proof (co_wf _ _ _ _ _ _ _ _ C) as W.
  unfold wf_new, evt. rewrite (co_evs _ _ _ _ _ _ _ _ C).
  split; [apply (link_none vals T Dr _ W NL)|]. split; [exact CR|]. split; [exact S1|]. split.
  - intros p Hp. destruct (PK p Hp) as [n L]. apply nlookup_some in L as [Hn En].
    destruct (link_node vals T Dr n W Hn) as [ev [E _]]. exists ev. rewrite <- En. exact E.
  - destruct (self_parent (fe e)) as [sp|] eqn:SP.
    + assert (Hs : 1 < eseq (fe e)).
      { unfold self_parent in SP. destruct (eseq (fe e) <=? 1) eqn:L; [discriminate|]. lia. }
      destruct (S2 Hs) as [sp' [n [SP' [L [Cn Sn]]]]]. assert (sp' = sp) by congruence. subst sp'.
      apply nlookup_some in L as [Hn En].
      destruct (link_node vals T Dr n W Hn) as [ev [E [Ce Se]]]. exists ev. rewrite <- En. split; [exact E|]. split; [congruence | lia].
    + destruct (N.le_gt_cases (eseq (fe e)) 1) as [L|L]; [lia|].
      destruct (S2 L) as [sp' [n [SP' _]]]. congruence.
Qed.

(* ---------- registering the roots of the accepted event ---------- *)
Lemma Core_add_roots st es1 T Dr e : let n := mk_node nv T e in
  Core st es1 (n :: T) (e :: Dr) T -> nlookup (eid (fe e)) T = None -> nd_spf n <= ffr e ->
  get_event es1 (eid (fe e)) = Some (ae e) ->
  Core (if nd_spf n =? ffr e then st else add_roots st (nd_spf n) (ae e)) es1 (n :: T) (e :: Dr) (n :: T).
Proof.
  intros n C NL Lspf Hes. destruct C as [A B Cc D E F G H I].
  assert (Hslot : forall g, (g, a_creator (ae e), a_id (ae e)) = slot n g) by reflexivity.
  assert (Fresh : forall r, In r (l_roots st) -> r_id r <> eid (fe e)).
  { intros r Hr Eid. apply I in Hr as [m [g [Hm [_ ->]]]]. rewrite slot_id in Eid.
    exact (nlookup_none _ _ NL m Hm Eid). }
  set (st2 := if nd_spf n =? ffr e then st else add_roots st (nd_spf n) (ae e)).
  assert (Rts : forall r, In r (l_roots st2) <-> In r (l_roots st) \/ exists g, nd_spf n < g <= ffr e /\ r = slot n g).
  { intros r. unfold st2. destruct (nd_spf n =? ffr e) eqn:Q.
    - apply N.eqb_eq in Q. split; [auto | intros [Hr|[g [Hg _]]]; [exact Hr | lia]].
    - rewrite (add_roots_iff st (nd_spf n) (ae e) r Lspf). cbn [to_aevent a_frame]. reflexivity. }
  constructor; auto.
  - unfold st2. destruct (nd_spf n =? ffr e); exact B.
  - unfold st2. destruct (nd_spf n =? ffr e); exact Cc.
  - unfold st2. destruct (nd_spf n =? ffr e); exact D.
  - unfold st2. destruct (nd_spf n =? ffr e); exact E.
  - intros e0 [<-|He0] _; [exact Hes|]. apply F; [right; exact He0|].
    destruct (event_node vals T Dr e0) as [m [Hm [Em _]]]; [inversion A; assumption | exact He0 | exists m; auto].
  - apply incl_refl.
  - unfold st2. destruct (nd_spf n =? ffr e); [exact H|]. unfold add_roots. cbn [l_roots set_roots].
    apply add_roots_loop_nodup; [exact H|]. intros r Hr Eid. exfalso. exact (Fresh r Hr Eid).
  - intros r. rewrite Rts. split.
    + intros [Hr|[g [Hg ->]]].
      * apply I in Hr as [m [g [Hm [Hroot ->]]]]. exists m, g. split; [right; exact Hm | auto].
      * exists n, g. split; [left; reflexivity|]. split; [|reflexivity]. unfold is_root_at. change (nd_fr n) with (ffr e). lia.
    + intros [m [g [[<-|Hm] [Hroot ->]]]].
      * right. exists g. split; [|reflexivity]. unfold is_root_at in Hroot. change (nd_fr n) with (ffr e) in Hroot. lia.
      * left. apply I. exists m, g. auto.
Qed.

Variable J : N -> Prop.        (* ids of events whose Process was rejected (their cache entries may be stale) *)
Variable K : N.                (* bound on the Build counter during the run *)

(* simulation at event boundaries; B = the blocks (frame, Atropos, cheaters) emitted so far *)
Record Sim (i : inst) (T : list node) (Dr : list fev) (B : list (N * N * list N)) : Prop := {
  sm_wf : wfTD vals T Dr;
  sm_done : Done ep lam vals T Dr (i_es i) (stale J (l_ctr (i_st i))) (i_st i);
  sm_fresh : forall e, In e Dr -> id_fresh K (eid (fe e)) /\ ~ J (eid (fe e));
  sm_ctr : l_ctr (i_st i) <= K;
  sm_proc : forall id, In id (i_proc i) <-> In id (ids_of Dr);
  sm_seg : Seg vals T 0 (map fst B) (l_ldf (i_st i));
  sm_cheat : forall b, In b B -> snd b = ElectionSpec.cheaters_of vals T (snd (fst b)) }.

Variable pol : policy.         (* the application's sealing policy *)
Variable sf : N -> option Abft.vals.   (* ... in the current epoch: seal at frame f with validators sf f *)
Hypothesis Hsf : forall f a ch dl, policy_fn pol ep f a ch dl = sf f.

(* ---------- Process of an event the reference accepts ---------- *)
Lemma process_step_gen i T Dr B e : Sim i T Dr B -> id_fresh K (eid (fe e)) -> ~ J (eid (fe e)) ->
  parents_known T e -> nlookup (eid (fe e)) T = None -> (ecr (fe e) < nv)%nat -> ev_wf T e ->
  r_frame_ok vals T (mk_node nv T e) = true -> few_forkers vals (mk_node nv T e :: T) ->
  let T' := mk_node nv T e :: T in
  exists bl i' L, step cap pol sample i (OpP (ae e)) = (ObsP None bl (l_ldf (i_st i')) (l_epoch (i_st i')), i', false) /\
    Seg vals T' 0 (map fst (B ++ map blk_obs bl)) L /\
    (forall b, In b (B ++ map blk_obs bl) -> snd b = ElectionSpec.cheaters_of vals T' (snd (fst b))) /\
    (forall b, In b bl -> b_seal b = sf (b_frame b)) /\
    ((Sim i' T' (e :: Dr) (B ++ map blk_obs bl) /\ l_ctr (i_st i') = l_ctr (i_st i) /\ l_epoch (i_st i') = ep /\
      L = l_ldf (i_st i') /\ NoSeal sf (l_ldf (i_st i)) L) \/
     (exists nv', l_ldf (i_st i) < L /\ NoSeal sf (l_ldf (i_st i)) (L - 1) /\ sf L = Some nv' /\
        i' = {| i_st := sealed_state ep nv' (l_ctr (i_st i)); i_es := aput (eid (fe e)) (ae e) (i_es i); i_proc := [] |})).
Proof.
  intros [W [S [ES0 AV]] FR CT PR SG CH] Fe Je PK NL CR EW FO Hff'.
  set (n := mk_node nv T e). set (st := i_st i) in *. set (es := i_es i) in *.
  destruct ES0 as [C CI I0 N0].
  pose proof (wfTD_wfT vals T Dr W) as HwfT.
  assert (W' : wfTD vals (n :: T) (e :: Dr)) by (constructor; assumption).
  pose proof (wfTD_wfT vals _ _ W') as HwfT'.
  (* the guard *)
  assert (Hnotin : ~ In (eid (fe e)) (ids_of Dr)).
  { intros Hin. destruct (in_ids_lookup vals T Dr _ W Hin) as [m L]. congruence. }
  assert (G : guard i (ae e) true = None).
  { unfold guard. fold st. cbn [andb to_aevent a_id a_epoch a_parents a_creator].
    replace (AbftRun.mem (eid (fe e)) (i_proc i)) with false.
    2:{ symmetry. destruct (AbftRun.mem (eid (fe e)) (i_proc i)) eqn:M; [|reflexivity]. exfalso. apply Hnotin, PR, mem_true, M. }
    rewrite (co_epoch _ _ _ _ _ _ _ _ C), N.eqb_refl. cbn [negb].
    replace (forallb (fun p => AbftRun.mem p (i_proc i)) (epar (fe e))) with true.
    2:{ symmetry. apply forallb_forall. intros p Hp. apply mem_true, PR. destruct (PK p Hp) as [m L].
        apply nlookup_some in L as [Hm Em]. destruct (node_event vals T Dr m W Hm) as [e0 [He0 [E0 _]]].
        unfold ids_of. apply in_map_iff. exists e0. split; [congruence | exact He0]. }
    cbn [negb]. rewrite (co_vals _ _ _ _ _ _ _ _ C), (v_exists_vid vals _ (vals_nodup vals Hvals) CR). reflexivity. }
  cbn [step]. rewrite G. fold st es.
  set (es1 := aput (a_id (ae e)) (ae e) es).
  (* index Add *)
  pose proof (accepted_wf_new st es T Dr T e C PK NL CR EW) as WN.
  destruct (add_preserves nv (l_idx st) (fe e) (co_vinv _ _ _ _ _ _ _ _ C) WN) as [s' [Hadd [I' Ev']]].
  unfold process. rewrite (co_vals _ _ _ _ _ _ _ _ C), (vev_ae e CR), Hadd.
  (* the state in which the frame is checked *)
  assert (Hes1 : get_event es1 (eid (fe e)) = Some (ae e)).
  { unfold es1, get_event. cbn [to_aevent a_id]. apply alookup_aput_eq. }
  assert (Hes1' : forall e0, In e0 Dr -> get_event es1 (eid (fe e0)) = Some (ae e0)).
  { intros e0 He0. unfold es1, get_event. cbn [to_aevent a_id]. rewrite alookup_aput_neq.
    - apply (co_es _ _ _ _ _ _ _ _ C); [exact He0|]. destruct (event_node vals T Dr e0 W He0) as [m [Hm [Em _]]]. exists m. auto.
    - intros E0. apply Hnotin. rewrite <- E0. unfold ids_of. apply in_map_iff. exists e0. auto. }
  assert (C1 : Core (set_idx st s') es1 (n :: T) (e :: Dr) T).
  { destruct C as [A Bv Cc D E F Gs H Ir]. constructor; auto.
    - cbn [l_idx set_idx]. rewrite Ev', E. reflexivity.
    - intros e0 [<-|He0] _; [exact Hes1 | apply Hes1'; exact He0].
    - intros x Hx. right. exact Hx. }
  assert (NTn : ~ stale J (l_ctr st) (nd_id n)).
  { intros [Tm|Jn]; [exact (id_fresh_not_temp K _ _ CT Fe Tm) | exact (Je Jn)]. }
  assert (CIa : cache_inv (stale J (l_ctr st)) (set_idx st s') (n :: T) T).
  { intros a b r Hc. destruct (CI a b r Hc) as [Tm|(na & nb & Ia & Ib & R)]; [left; exact Tm|].
    right. exists na, nb. split; [right; exact Ia | auto]. }
  destruct (calc_frame_sim cap ep lam vals Hvals (set_idx st s') es1 (n :: T) (e :: Dr) T (stale J (l_ctr st)) (n :: T) n (ae e) true
              C1 (incl_refl _) (or_introl eq_refl) NTn eq_refl CIa) as [c1 [ECF CI1]].
  rewrite ECF.
  rewrite (frame_check_sim ep lam vals Hvals (set_idx st s') es1 T Dr e (ae e) C1 eq_refl eq_refl eq_refl).
  cbn [to_aevent a_frame]. rewrite N.eqb_refl. cbn [negb].
  change (a_frame (to_aevent ep lam vals e)) with (ffr e).
  set (st1 := set_fcc (set_idx st s') c1).
  assert (Lspf : nd_spf n <= ffr e) by (apply (spf_le_fr vals (n :: T) n HwfT' (or_introl eq_refl))).
  pose proof (Core_add_roots st1 es1 T Dr e (Core_fcc _ _ _ _ _ _ _ _ c1 C1) NL Lspf Hes1) as C2.
  cbn zeta in C2. fold n in C2.
  set (st2 := if nd_spf n =? ffr e then st1 else add_roots st1 (nd_spf n) (ae e)) in *.
  assert (F2 : l_ldf st2 = l_ldf st /\ l_el st2 = l_el st /\ l_ctr st2 = l_ctr st /\ l_fcc st2 = c1).
  { unfold st2. destruct (nd_spf n =? ffr e); repeat split. }
  destruct F2 as (L2 & El2 & Ct2 & Fc2).
  (* the election over the new table *)
  assert (NT' : forall m, In m (n :: T) -> ~ stale J (l_ctr st) (nd_id m)).
  { intros m [<-|Hm]; [exact NTn|]. destruct (node_event vals T Dr m W Hm) as [e0 [He0 [E0 _]]].
    rewrite <- E0. destruct (FR e0 He0) as [F0 J0]. intros [Tm|Jn]; [exact (id_fresh_not_temp K _ _ CT F0 Tm) | exact (J0 Jn)]. }
  pose (Sold := fun r => S r /\ exists m g, In m T /\ r = slot m g).
  assert (E2 : ES ep lam vals (n :: T) (e :: Dr) es1 (stale J (l_ctr st)) st2 Sold).
  { constructor.
    - exact C2.
    - intros a b r Hc. rewrite Fc2 in Hc. destruct (CI1 a b r Hc) as [Tm|(na & nb & Ia & Ib & R)]; [left; exact Tm|].
      right. exists na, nb. split; [exact Ia|]. split; [right; exact Ib | exact R].
    - rewrite L2, El2. apply (EI_mono vals T (n :: T) HwfT HwfT' (fun x Hx => or_intror Hx)). exact I0.
    - rewrite El2. exact N0. }
  destruct (handle_sim cap ep lam vals Hvals (n :: T) (e :: Dr) es1 (stale J (l_ctr st)) Hff' NT' W' (policy_fn pol) sf Hsf
              (ae e) n eq_refl eq_refl eq_refl
              (or_introl eq_refl) (Datatypes.S (Datatypes.S (N.to_nat (ffr e - nd_spf n)))) st2 Sold (nd_spf n + 1) [] E2)
    as [bl [st' [L [EH [SG' [BO EN]]]]]].
  { lia. }
  { change (nd_fr n) with (ffr e). lia. }
  { rewrite L2. intros m g Hg Hm Hor.
    assert (HmT : In m T).
    { pose proof (roots_in _ _ _ _ _ _ Hm) as [<-|HmT]; [|exact HmT]. exfalso.
      unfold roots_at in Hm. apply filter_In in Hm as [_ Hm]. unfold is_root_at in Hm. destruct Hor as [Hor|Hor]; [congruence | lia]. }
    split; [|exists m, g; auto]. apply AV; [exact Hg|].
    unfold roots_at in *. apply filter_In in Hm as [_ Hm]. apply filter_In. auto. }
  cbn [app] in EH. cbn zeta. change (mk_node nv T e) with n. fold st2. rewrite EH. rewrite L2 in SG'.
  (* all blocks so far *)
  assert (SGall : Seg vals (n :: T) 0 (map fst (B ++ map blk_obs bl)) L).
  { rewrite map_app. eapply Seg_app.
    - apply (Seg_mono vals T (n :: T) HwfT HwfT' Hff' (fun x Hx => or_intror Hx)). exact SG.
    - rewrite map_map. exact SG'. }
  assert (CHall : forall b, In b (B ++ map blk_obs bl) -> snd b = ElectionSpec.cheaters_of vals (n :: T) (snd (fst b))).
  { intros b Hb. apply in_app_or in Hb as [Hb|Hb].
    - rewrite (CH b Hb).
      assert (Hd := Seg_in T 0 (map fst B) (l_ldf st) (fst (fst b)) (snd (fst b)) SG).
      destruct (atropos_in vals T Dr W (fst (fst b)) (snd (fst b))) as [x [Ix Ex]].
      { apply Hd. apply in_map_iff. exists b. split; [destruct b as [[? ?] ?]; reflexivity | exact Hb]. }
      rewrite <- Ex. symmetry. apply (cheaters_stable vals T (n :: T) x HwfT' (fun y Hy => or_intror Hy)).
      eapply roots_in; exact Ix.
    - apply in_map_iff in Hb as [blk [<- Hblk]]. destruct (BO blk Hblk) as [Chh _]. exact Chh. }
  assert (Hsl : forall b, In b bl -> b_seal b = sf (b_frame b) /\ l_ldf st < b_frame b <= L).
  { intros b Hb. split; [apply (BO b Hb)|]. apply (Seg_frames (n :: T) _ _ _ (b_frame b) (b_atropos b) SG').
    apply in_map_iff. exists b. auto. }
  destruct EN as [(D' & EL & NS & RR & CC)|(nv' & Lt & NS & Sf & ES')].
  - (* the epoch goes on *)
    rewrite L2 in NS.
    assert (Hseal : sealed_in bl = false).
    { unfold sealed_in. destruct (existsb _ bl) eqn:X; [|reflexivity]. apply existsb_exists in X as [b [Hb X]].
      destruct (Hsl b Hb) as [Sl Fr]. rewrite Sl, (NS _ Fr) in X. discriminate. }
    rewrite Hseal.
    assert (Ep' : l_epoch st' = ep).
    { destruct D' as [S' [[C' _ _ _] _]]. apply (co_epoch _ _ _ _ _ _ _ _ C'). }
    exists bl, {| i_st := st'; i_es := es1; i_proc := a_id (ae e) :: i_proc i |}, L. split; [reflexivity|].
    split; [exact SGall|]. split; [exact CHall|]. split; [intros b Hb; apply (Hsl b Hb)|]. left. cbn [i_st i_es i_proc].
    split; [|split; [rewrite CC, Ct2; reflexivity | split; [exact Ep' | split; [exact EL | exact NS]]]].
    constructor; cbn [i_st i_es i_proc].
    + exact W'.
    + rewrite CC, Ct2. exact D'.
    + intros e0 [<-|He0]; [split; [exact Fe | exact Je] | apply FR; exact He0].
    + rewrite CC, Ct2. exact CT.
    + intros id. cbn [to_aevent a_id ids_of map In]. rewrite PR. reflexivity.
    + rewrite <- EL. exact SGall.
    + exact CHall.
  - (* the last block seals the epoch *)
    rewrite L2 in Lt, NS.
    assert (Hseal : sealed_in bl = true).
    { destruct (Seg_last (n :: T) _ _ _ SG' Lt) as [a Ha]. apply in_map_iff in Ha as [b [Eb Hb]].
      unfold sealed_in. apply existsb_exists. exists b. split; [exact Hb|]. destruct (Hsl b Hb) as [Sl _].
      unfold fa in Eb. inversion Eb as [[Ef Ea]]. rewrite Sl, Ef, Sf. reflexivity. }
    rewrite Hseal. subst st'. rewrite Ct2.
    exists bl, {| i_st := sealed_state ep nv' (l_ctr st); i_es := es1; i_proc := [] |}, L. split; [reflexivity|]. split; [exact SGall|]. split; [exact CHall|]. split; [intros b Hb; apply (Hsl b Hb)|].
    right. exists nv'. split; [exact Lt|]. split; [exact NS|]. split; [exact Sf | reflexivity].
Qed.

End Step.

(* the same without a sealing policy *)
Lemma process_step cap ep lam vals (Hvals : vals_ok vals) J K i T Dr B e : Sim ep lam vals J K i T Dr B ->
  id_fresh K (eid (fe e)) -> ~ J (eid (fe e)) ->
  parents_known T e -> nlookup (eid (fe e)) T = None -> (ecr (fe e) < length vals)%nat -> ev_wf T e ->
  r_frame_ok vals T (mk_node (length vals) T e) = true -> few_forkers vals (mk_node (length vals) T e :: T) ->
  exists bl i', step cap [] sample i (OpP (to_aevent ep lam vals e)) = (ObsP None bl (l_ldf (i_st i')) ep, i', false) /\
    Sim ep lam vals J K i' (mk_node (length vals) T e :: T) (e :: Dr) (B ++ map blk_obs bl) /\ l_ctr (i_st i') = l_ctr (i_st i).
Proof.
  intros HS Fe Je PK NL CR EW FO Hff.
  destruct (process_step_gen cap ep lam vals Hvals J K [] (fun _ => None) (fun _ _ _ _ => eq_refl) i T Dr B e HS Fe Je PK NL CR EW FO Hff)
    as [bl [i' [L [E [_ [_ [_ [(HS' & C & Ep & _)|(nv' & _ & _ & Sf & _)]]]]]]]]; [|discriminate].
  exists bl, i'. rewrite Ep in E. auto.
Qed.

