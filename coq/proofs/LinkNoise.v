(* L1 extended to arbitrary interleavings (C07 at full strength, any forkless-cause cache capacity):
   between / inside the (Build, Process) pairs of the valid events any number of
     - extra speculative Builds of arbitrary events (temporary ids from the build counter),
     - Process calls that are rejected with ErrWrongFrame (or skipped by the application's guard),
     - restarts (Bootstrap), and probes (merged clock, frame roots, ForklessCause queries)
   may occur; they keep the simulation with the SAME reference table.  What they leave behind are
   forkless-cause cache entries under keys that are never asked again for an event of the table:
   temporary ids and the ids of the rejected events (cache_inv with the stale-key predicate). *)
From Coq Require Import NArith ZArith List Lia Bool ZifyBool ZifyN ZifyNat.
From LV Require Import lib.Bytes lib.VecListFacts model.Codec model.VecIndex model.Abft model.AbftRun spec.ElectionSpec
  proofs.VecInv proofs.AbftFrame proofs.AbftIds proofs.AbftBuild proofs.AbftErrors proofs.AbftInvStep
  proofs.BftCore proofs.BftGraph proofs.BftMain proofs.BftRun proofs.BftAccept proofs.BftProps
  proofs.LinkVals proofs.LinkDefs proofs.LinkSim proofs.LinkVote proofs.LinkElect proofs.LinkStep proofs.LinkBuild
  proofs.LinkRun proofs.LinkRestart.
Import ListNotations.
Local Open Scope N_scope.

(* ---------- what a frame computation can do to the cache ---------- *)
Definition keeps (a0 : N) (c c' : fccache) : Prop :=
  forall a b r, cache_get (a, b) c' = Some r -> a = a0 \/ cache_get (a, b) c = Some r.
Lemma keeps_refl a0 c : keeps a0 c c.
Proof. intros a b r H. right. exact H. Qed.
Lemma keeps_trans a0 c1 c2 c3 : keeps a0 c1 c2 -> keeps a0 c2 c3 -> keeps a0 c1 c3.
Proof. intros H12 H23 a b r H. destruct (H23 _ _ _ H) as [->|H']; auto. Qed.

Section Keep.
Variable cap : nat.

Lemma fc_cached_keep a0 st b0 : exists c', snd (fc_cached cap st a0 b0) = set_fcc st c' /\ keeps a0 (l_fcc st) c'.
Proof.
  unfold fc_cached. destruct (cache_get (a0, b0) (l_fcc st)) as [r0|] eqn:E; cbn [snd]; eexists; (split; [reflexivity|]);
    intros a b r H; [|unfold cache_add in H; apply cache_get_firstn in H]; rewrite cache_get_touch in H;
    (destruct (pair_eqb (a, b) (a0, b0)) eqn:E2; [apply pair_eqb_eq in E2; inversion E2; auto | right; exact H]).
Qed.

Lemma fcq_loop_keep a0 : forall frs st c, exists c', snd (fcq_loop cap st a0 frs c) = set_fcc st c' /\ keeps a0 (l_fcc st) c'.
Proof.
  induction frs as [|r t IH]; intros st c; cbn [fcq_loop].
  - exists (l_fcc st). split; [destruct st; reflexivity | apply keeps_refl].
  - destruct (fc_cached_keep a0 st (r_id r)) as [c1 [S1 K1]].
    destruct (fc_cached cap st a0 (r_id r)) as [bb st1]. cbn [snd] in S1. subst st1. cbn [l_vals set_fcc].
    destruct (has_quorum _ _).
    + exists c1. split; auto.
    + destruct (IH (set_fcc st c1) (if bb then snd (count_id (l_vals st) c (r_val r)) else c)) as [c2 [S2 K2]].
      exists c2. split; [rewrite S2; reflexivity|]. eapply keeps_trans; [exact K1 | exact K2].
Qed.

Lemma calc_loop_keep e maxf : forall fuel st f,
  exists c', snd (calc_loop cap fuel st e f maxf) = set_fcc st c' /\ keeps (a_id e) (l_fcc st) c'.
Proof.
  induction fuel as [|fu IH]; intros st f; cbn [calc_loop].
  - exists (l_fcc st). split; [destruct st; reflexivity | apply keeps_refl].
  - destruct (negb (f <? maxf)).
    + exists (l_fcc st). split; [destruct st; reflexivity | apply keeps_refl].
    + unfold fc_by_quorum_on.
      destruct (fcq_loop_keep (a_id e) (get_frame_roots st f) st (new_counter (l_vals st))) as [c1 [S1 K1]].
      destruct (fcq_loop cap st (a_id e) (get_frame_roots st f) (new_counter (l_vals st))) as [bb st1]. cbn [snd] in S1. subst st1.
      destruct bb.
      * destruct (IH (set_fcc st c1) (f + 1)) as [c2 [S2 K2]]. exists c2. split; [rewrite S2; reflexivity|].
        eapply keeps_trans; [exact K1 | exact K2].
      * exists c1. split; auto.
Qed.

Lemma calc_frame_keep es st e co :
  exists c', snd (calc_frame cap es st e co) = set_fcc st c' /\ keeps (a_id e) (l_fcc st) c'.
Proof.
  unfold calc_frame.
  assert (D : exists c', st = set_fcc st c' /\ keeps (a_id e) (l_fcc st) c').
  { exists (l_fcc st). split; [destruct st; reflexivity | apply keeps_refl]. }
  destruct (match a_self_parent e with
            | Some sp => match get_event es sp with Some pe => Ok (a_frame pe) | None => Err EPanic end
            | None => Ok 0 end) as [spf|x]; [|exact D].
  destruct (calc_loop_keep e (if co then a_frame e else spf + 100) (roots_fuel st) st spf) as [c1 [S1 K1]].
  destruct (calc_loop cap (roots_fuel st) st e spf (if co then a_frame e else spf + 100)) as [o st1]. cbn [snd] in S1. subst st1.
  destruct o; exists c1; split; auto.
Qed.

(* a rejected Process *)
Lemma process_reject_cache eb es st e bl st' : process cap eb es st e = (Err EWrongFrame, bl, st') ->
  bl = [] /\ exists c', st' = set_fcc st c' /\ keeps (a_id e) (l_fcc st) c'.
Proof.
  intros E. unfold process in E.
  destruct (add (l_idx st) (vev (l_vals st) e)) as [s'|]; [|inversion E].
  destruct (calc_frame_keep es (set_idx st s') e true) as [c1 [S1 K1]].
  destruct (calc_frame cap es (set_idx st s') e true) as [[[spf fr]|x] st1]; cbn [snd] in S1; subst st1.
  - destruct (negb (a_frame e =? fr)).
    { inversion E; subst. split; auto. exists c1. split; [destruct st; reflexivity | exact K1]. }
    exfalso.
    match type of E with context [handle_election cap eb ?fu es ?s2 e ?f0 []] =>
      pose proof (handle_election_nwf cap eb es e fu s2 f0 []) as N0;
      destruct (handle_election cap eb fu es s2 e f0 []) as [[r2 bl2] st3] end.
    cbn [fst] in N0. destruct r2; inversion E; subst. apply N0. reflexivity.
  - inversion E; subst. split; auto. exists c1. split; [destruct st; reflexivity | exact K1].
Qed.

(* any Build *)
Lemma build_cache es st e : exists c', snd (build_with cap sample es st e) = set_fcc (set_ctr st (l_ctr st + 1)) c' /\
  forall a b r, cache_get (a, b) c' = Some r -> cache_get (a, b) (l_fcc st) = Some r \/ is_temp (l_ctr st + 1) a.
Proof.
  unfold build_with.
  assert (D : exists c', set_ctr st (l_ctr st + 1) = set_fcc (set_ctr st (l_ctr st + 1)) c' /\
              forall a b r, cache_get (a, b) c' = Some r -> cache_get (a, b) (l_fcc st) = Some r \/ is_temp (l_ctr st + 1) a).
  { exists (l_fcc st). split; [destruct st; reflexivity | auto]. }
  destruct (sample (l_ctr st + 1)) as [tail|] eqn:Sc; [|exact D].
  destruct (add _ _) as [s'|]; [|exact D].
  destruct (negb _ || negb _); [exact D|].
  match goal with |- context [calc_frame cap es ?stw ?ee false] =>
    destruct (calc_frame_keep es stw ee false) as [c1 [S1 K1]];
    destruct (calc_frame cap es stw ee false) as [[[spf fr]|x] st1] end;
    cbn [snd] in *; subst st1; exists c1; (split; [destruct st; reflexivity|]);
    intros a b r H; destruct (K1 a b r H) as [->|H']; auto; right;
    exists (a_epoch e), (a_lamport e), (l_ctr st + 1), tail; (split; [lia | split; [exact Sc | reflexivity]]).
Qed.

(* ---------- a Build of any event that passes the application's guard does not crash ---------- *)
Lemma fill_branch_hb s e : hb (snd (fill_branch s e)) = hb s.
Proof.
  unfold fill_branch. destruct (self_parent e) as [sp|].
  - destruct (alookup sp (ebr s)) as [b|]; [destruct (_ =? _)|]; reflexivity.
  - destruct (_ =? _); reflexivity.
Qed.
Lemma add_some s e : (forall p, In p (epar e) -> exists v, alookup p (hb s) = Some v) -> exists s', add s e = Some s'.
Proof.
  intros H. unfold add. pose proof (fill_branch_hb s e) as Hb. destruct (fill_branch s e) as [me s1]. cbn [snd] in Hb.
  destruct (existsb _ (map (fun p => alookup p (hb s1)) (epar e))) eqn:X; [|eexists; reflexivity]. exfalso.
  apply existsb_exists in X as [o [Ho Hn]]. apply in_map_iff in Ho as [p [<- Hp]]. rewrite Hb in Hn.
  destruct (H p Hp) as [v Hv]. rewrite Hv in Hn. discriminate.
Qed.

Lemma fcq_loop_nil st a c : fcq_loop cap st a [] c = (has_quorum (l_vals st) c, st).
Proof. reflexivity. Qed.
Lemma calc_loop_fuel e maxf : forall fuel st f, (cnt_from (l_roots st) f < fuel)%nat ->
  fst (calc_loop cap fuel st e f maxf) <> None.
Proof.
  induction fuel as [|fu IH]; intros st f H; [lia|]. cbn [calc_loop].
  destruct (negb (f <? maxf)); [discriminate|]. unfold fc_by_quorum_on.
  destruct (fcq_loop_keep (a_id e) (get_frame_roots st f) st (new_counter (l_vals st))) as [c1 [S1 _]].
  destruct (fcq_loop cap st (a_id e) (get_frame_roots st f) (new_counter (l_vals st))) as [bb st1] eqn:FQ. cbn [snd] in S1. subst st1.
  destruct bb; [|discriminate]. apply IH. cbn [l_roots set_fcc].
  assert (Hne : exists r, In r (l_roots st) /\ r_frame r = f).
  { destruct (get_frame_roots st f) as [|r t] eqn:G.
    - rewrite fcq_loop_nil in FQ. rewrite empty_no_quorum in FQ. discriminate.
    - exists r. assert (Hin : In r (get_frame_roots st f)) by (rewrite G; left; reflexivity).
      unfold get_frame_roots in Hin. apply filter_In in Hin as [Hin Hf]. apply N.eqb_eq in Hf. auto. }
  pose proof (cnt_from_step (l_roots st) f Hne). lia.
Qed.
Lemma calc_frame_ok es st e co :
  (forall sp, a_self_parent e = Some sp -> exists pe, get_event es sp = Some pe) ->
  exists r, fst (calc_frame cap es st e co) = Ok r.
Proof.
  intros Hsp. unfold calc_frame.
  assert (S : exists spf, (match a_self_parent e with
            | Some sp => match get_event es sp with Some pe => Ok (a_frame pe) | None => Err EPanic end
            | None => Ok 0 end) = Ok spf).
  { destruct (a_self_parent e) as [sp|]; [|eauto]. destruct (Hsp sp eq_refl) as [pe ->]. eauto. }
  destruct S as [spf ->].
  pose proof (calc_loop_fuel e (if co then a_frame e else spf + 100) (roots_fuel st) st spf) as F.
  destruct (calc_loop cap (roots_fuel st) st e spf (if co then a_frame e else spf + 100)) as [[f|] st1]; cbn [fst] in *; [eauto|].
  exfalso. apply F; [|reflexivity]. unfold roots_fuel. pose proof (cnt_from_le (l_roots st) spf). lia.
Qed.
End Keep.

(* ================= noise steps ================= *)
Section Noise.
Variable cap : nat.
Variable pol : policy.
Variable ep : N.
Variable lam : fev -> N.
Variable vals : list (N * N).
Hypothesis Hvals : vals_ok vals.
Variable J : N -> Prop.        (* ids of the events whose Process is rejected *)
Variable K : N.                (* bound on the Build counter *)
Hypothesis HJ : forall a, J a -> id_fresh K a.
Hypothesis HK : K < 2 ^ 192.

Notation nv := (length vals).
Notation Sim := (Sim ep lam vals J K).
Notation Core := (Core ep lam vals).
Notation cache_inv := (cache_inv vals).

Definition is_build (o : op) : bool := match o with OpB _ => true | _ => false end.

(* what the theorem asks of an operation that is not the Build / Process of a valid event *)
Definition noise_ok_p (i : inst) (o : op) : Prop :=
  match o with
  | OpB _ => True                                                   (* any speculative Build *)
  | OpP x => J (a_id x) /\
             match fst (fst (step cap pol sample i o)) with
             | ObsSkip _ => True | ObsP (Some EWrongFrame) _ _ _ => True | _ => False end
  | OpR | OpM _ | OpG _ | OpQ _ _ | OpV => True
  | OpReset _ _ => False
  end.

Lemma stale_mono c c' a : c <= c' -> stale J c a -> stale J c' a.
Proof. intros L [(ep0 & lm & c2 & t2 & Bc & S2 & E2)|Ja]; [left | right; exact Ja]. exists ep0, lm, c2, t2. split; [lia | auto]. Qed.

Lemma Sim_update i T Dr B c c' es' : Sim i T Dr B -> l_ctr (i_st i) <= c -> c <= K ->
  cache_inv (stale J c) (set_fcc (set_ctr (i_st i) c) c') T T ->
  (forall e, In e Dr -> get_event es' (eid (fe e)) = get_event (i_es i) (eid (fe e))) ->
  Sim {| i_st := set_fcc (set_ctr (i_st i) c) c'; i_es := es'; i_proc := i_proc i |} T Dr B.
Proof.
  intros [W [S [[C CI I0 N0] AV]] FR CT PR SG CH] Lc LK CI' Hes.
  constructor; cbn [i_st i_es i_proc l_ctr set_fcc set_ctr l_ldf]; auto.
  exists S. split; [|exact AV]. constructor; auto.
  destruct C as [A Bv Cc D E F G H Ir]. constructor; auto.
  intros e He Hn. rewrite (Hes e He). apply F; assumption.
Qed.

Lemma keeps_cache_inv i T Dr B c c' (P : N -> Prop) : Sim i T Dr B -> l_ctr (i_st i) <= c ->
  (forall a b r, cache_get (a, b) c' = Some r -> cache_get (a, b) (l_fcc (i_st i)) = Some r \/ stale J c a) ->
  cache_inv (stale J c) (set_fcc (set_ctr (i_st i) c) c') T T.
Proof.
  intros [W [S [[C CI I0 N0] AV]] FR CT PR SG CH] Lc Hk a b r Hc. cbn [l_fcc set_fcc] in Hc.
  destruct (Hk a b r Hc) as [Old|St]; [|left; exact St].
  destruct (CI a b r Old) as [St|Real]; [left; eapply stale_mono; eauto | right; exact Real].
Qed.

Lemma set_ctr_same st : set_ctr st (l_ctr st) = st.
Proof. destruct st; reflexivity. Qed.

Lemma build_alive i T Dr B x : Sim i T Dr B -> l_ctr (i_st i) + 1 <= K -> snd (step cap pol sample i (OpB x)) = false.
Proof.
  intros [W [S [[C CI I0 N0] AV]] FR CT PR SG CH] Hc. cbn [step].
  destruct (guard i x false) as [w|] eqn:G; [reflexivity|].
  unfold guard in G. cbn [andb] in G.
  destruct (negb (a_epoch x =? l_epoch (i_st i))) eqn:G1; [discriminate|].
  destruct (negb (forallb (fun p => AbftRun.mem p (i_proc i)) (a_parents x))) eqn:G2; [discriminate|].
  destruct (negb (v_exists (l_vals (i_st i)) (a_creator x))) eqn:G3; [discriminate|]. clear G.
  apply negb_false_iff in G2. rewrite forallb_forall in G2.
  assert (Hpar : forall p, In p (a_parents x) -> exists e0, In e0 Dr /\ eid (fe e0) = p).
  { intros p Hp. specialize (G2 p Hp). apply mem_true, PR in G2. unfold ids_of in G2. apply in_map_iff in G2 as [e0 [E0 He0]]. eauto. }
  destruct (build_with cap sample (i_es i) (i_st i) x) as [r st'] eqn:BE. cbn [snd].
  unfold build_with in BE.
  assert (Sc : sample (l_ctr (i_st i) + 1) = Some (be 24 (l_ctr (i_st i) + 1))).
  { unfold sample. replace (2 ^ 192 <=? l_ctr (i_st i) + 1) with false by (symmetry; apply N.leb_gt; lia). reflexivity. }
  rewrite Sc in BE. cbn [l_idx l_vals l_epoch set_ctr] in BE.
  set (x' := set_id x (mk_id_bytes (a_epoch x) (a_lamport x) (be 24 (l_ctr (i_st i) + 1)))) in *.
  destruct (add_some (l_idx (i_st i)) (vev (l_vals (i_st i)) x')) as [s' Ha].
  { intros p Hp. cbn [vev epar x' set_id a_parents] in Hp. destruct (Hpar p Hp) as [e0 [He0 <-]].
    destruct (event_node vals T Dr e0 W He0) as [n0 [Hn0 [En0 _]]].
    destruct (node_evt ep lam vals _ _ _ _ _ n0 C Hn0) as [ev Ev]. rewrite <- En0 in Ev.
    destruct (v_keys_hbla _ _ (co_vinv _ _ _ _ _ _ _ _ C) _ _ Ev) as [Hh _]. exact Hh. }
  rewrite Ha in BE.
  change (a_epoch x') with (a_epoch x) in BE. change (a_creator x') with (a_creator x) in BE.
  rewrite G1, G3 in BE. cbn [orb] in BE.
  destruct (calc_frame_ok cap (i_es i) (set_idx (set_ctr (i_st i) (l_ctr (i_st i) + 1)) s') x' false) as [[spf fr] Hr].
  { intros sp Hsp. change (a_self_parent x') with (a_self_parent x) in Hsp.
    destruct (Hpar sp (self_parent_in_parents x sp Hsp)) as [e0 [He0 <-]].
    exists (to_aevent ep lam vals e0). apply (co_es _ _ _ _ _ _ _ _ C); [exact He0|].
    destruct (event_node vals T Dr e0 W He0) as [n0 [Hn0 [En0 _]]]. exists n0. auto. }
  destruct (calc_frame cap (i_es i) (set_idx (set_ctr (i_st i) (l_ctr (i_st i) + 1)) s') x' false) as [rr st1]. cbn [fst] in Hr. subst rr.
  inversion BE; subst. reflexivity.
Qed.

Lemma noise_step i T Dr B o : Sim i T Dr B -> few_forkers vals T -> noise_ok_p i o ->
  (is_build o = true -> l_ctr (i_st i) + 1 <= K) ->
  exists ob i', step cap pol sample i o = (ob, i', false) /\ Sim i' T Dr B /\
    l_ctr (i_st i') <= l_ctr (i_st i) + (if is_build o then 1 else 0).
Proof.
  intros HS Hff OK HB. destruct o as [x|x| |ep1 raw|id|f|a b|]; cbn [noise_ok_p is_build] in OK, HB |- *.
  - (* rejected / skipped Process *)
    destruct OK as [Jx OK]. cbn [step] in OK |- *.
    destruct (guard i x true) as [w|]; [exists (ObsSkip w), i; split; [reflexivity | split; [exact HS | lia]]|].
    destruct (process cap (policy_fn pol) (aput (a_id x) x (i_es i)) (i_st i) x) as [[rr bl] st'] eqn:PE.
    destruct rr as [u|err]; cbn [fst] in OK; [destruct OK|].
    destruct err; try destruct OK.
    destruct (process_reject_cache cap _ _ _ _ _ _ PE) as [-> [c' [-> Kp]]].
    eexists _, _. split; [reflexivity|]. cbn [i_st l_ctr set_fcc]. split; [|lia].
    rewrite <- (set_ctr_same (i_st i)) at 1.
    apply (Sim_update i T Dr B (l_ctr (i_st i)) c' _ HS); [lia | apply (sm_ctr _ _ _ _ _ _ _ _ _ HS) | |].
    + apply (keeps_cache_inv i T Dr B _ c' J HS); [lia|]. intros a b r H. destruct (Kp a b r H) as [->|Old]; [right; right; exact Jx | left; exact Old].
    + intros e He. apply es_remove_other. intros E. apply (proj2 (sm_fresh _ _ _ _ _ _ _ _ _ HS e He)). rewrite E. exact Jx.
  - (* any speculative Build *)
    cbn [step].
    destruct (guard i x false) as [w|] eqn:GD; [exists (ObsSkip w), i; split; [reflexivity | split; [exact HS | lia]]|].
    destruct (build_cache cap (i_es i) (i_st i) x) as [c' [Sh Kp]].
    destruct (build_with cap sample (i_es i) (i_st i) x) as [r st'] eqn:BE. cbn [snd] in Sh. subst st'.
    pose proof (build_alive i T Dr B x HS (HB eq_refl)) as AL. cbn [step] in AL. rewrite GD, BE in AL. cbn [snd] in AL.
    eexists _, _. split; [rewrite AL; reflexivity|]. cbn [i_st l_ctr set_fcc set_ctr]. split; [|lia].
    apply (Sim_update i T Dr B (l_ctr (i_st i) + 1) c' _ HS); [lia | apply HB; reflexivity | | auto].
    apply (keeps_cache_inv i T Dr B _ c' J HS); [lia|]. intros a b r0 H. destruct (Kp a b r0 H) as [Old|Tm]; [left; exact Old | right; left; exact Tm].
  - (* restart *)
    destruct (restart_step cap ep lam vals Hvals J K HJ pol (fun f => policy_fn pol ep f 0 [] []) (fun _ _ _ _ => eq_refl) i T Dr B HS Hff) as [i' [E [HS' C0]]].
    eexists _, i'. split; [exact E|]. split; [exact HS' | lia].
  - destruct OK.
  - (* merged clock probe *)
    cbn [step]. destruct (AbftRun.mem id (i_proc i)); eexists _, i; (split; [reflexivity | split; [exact HS | lia]]).
  - (* frame roots probe *)
    cbn [step]. eexists _, i. split; [reflexivity | split; [exact HS | lia]].
  - (* ForklessCause probe *)
    cbn [step]. destruct (AbftRun.mem a (i_proc i) && AbftRun.mem b (i_proc i)) eqn:M;
      [|eexists _, i; split; [reflexivity | split; [exact HS | lia]]].
    apply andb_prop in M as [Ma Mb]. apply mem_true in Ma, Mb.
    pose proof HS as [W [S [[C CI I0 N0] AV]] FR CT PR SG CH].
    assert (Nd : forall z, In z (i_proc i) -> exists nz, In nz T /\ nd_id nz = z /\ ~ stale J (l_ctr (i_st i)) z).
    { intros z Hz. apply PR in Hz. unfold ids_of in Hz. apply in_map_iff in Hz as [e [<- He]].
      destruct (event_node vals T Dr e W He) as [nz [Hnz [Ez _]]]. exists nz. split; [exact Hnz|]. split; [auto|].
      destruct (FR e He) as [F0 J0]. intros [Tm|Jn]; [exact (id_fresh_not_temp K _ _ CT F0 Tm) | exact (J0 Jn)]. }
    destruct (Nd a Ma) as [na [Hna [Ea Sa]]]. destruct (Nd b Mb) as [nb [Hnb [Eb _]]]. subst a b.
    destruct (fc_cached_sim cap ep lam vals Hvals (i_st i) (i_es i) T Dr T _ T T na nb C CI (incl_refl _) (incl_refl _) Hna Hnb Sa) as [c' [E CI']].
    rewrite E. eexists _, _. split; [reflexivity|]. cbn [i_st l_ctr set_fcc]. split; [|lia].
    rewrite <- (set_ctr_same (i_st i)) at 1.
    apply (Sim_update i T Dr B (l_ctr (i_st i)) c' _ HS); [lia | exact CT | rewrite set_ctr_same; exact CI' | auto].
  - (* validators probe *)
    cbn [step]. eexists _, i. split; [reflexivity | split; [exact HS | lia]].
Qed.
End Noise.
Definition noise_ok (cap : nat) (J : N -> Prop) := noise_ok_p cap [] J.

(* ================= runs with noise ================= *)
Record slot := { s_pre : list op; s_ev : fev; s_mid : list op }.

Definition sched_ops_ep (ep : N) (lam : fev -> N) (vals : list (N * N)) (sc : list slot) (tl : list op) : list op :=
  flat_map (fun s => s_pre s ++ OpB (to_aevent ep lam vals (s_ev s)) :: s_mid s ++ [OpP (to_aevent ep lam vals (s_ev s))]) sc ++ tl.
Definition sched_ops := sched_ops_ep 1.
(* true = the Build / Process of a valid event *)
Definition sched_mask (sc : list slot) (tl : list op) : list bool :=
  flat_map (fun s => repeat false (length (s_pre s)) ++ true :: repeat false (length (s_mid s)) ++ [true]) sc ++ repeat false (length tl).
Definition pick (mask : list bool) (os : list AbftRun.obs) : list AbftRun.obs := map snd (filter fst (combine mask os)).
Definition count_builds (ops : list op) : nat := length (filter is_build ops).

Lemma pick_false n : forall os m os', length os = n -> pick (repeat false n ++ m) (os ++ os') = pick m os'.
Proof.
  induction n as [|n IH]; intros [|o os] m os' L; cbn [length] in L; try discriminate; [reflexivity|].
  cbn [repeat app]. unfold pick in *. cbn [combine filter fst]. apply IH. lia.
Qed.
Lemma pick_true m o os : pick (true :: m) (o :: os) = o :: pick m os.
Proof. reflexivity. Qed.
Lemma pick_all_false n os : pick (repeat false n) os = [].
Proof. revert os. induction n as [|n IH]; intros [|o os]; cbn [repeat]; try reflexivity. unfold pick in *. cbn [combine filter fst]. apply IH. Qed.
Lemma count_builds_app a b : count_builds (a ++ b) = (count_builds a + count_builds b)%nat.
Proof. unfold count_builds. rewrite filter_app, app_length. reflexivity. Qed.

Section NoiseRun.
Variable cap : nat.
Variable pol : policy.
Variable ep : N.
Variable lam : fev -> N.
Variable vals : list (N * N).
Hypothesis Hvals : vals_ok vals.
Variable J : N -> Prop.
Variable K : N.
Hypothesis HJ : forall a, J a -> id_fresh K a.
Hypothesis HK : K < 2 ^ 192.

Notation nv := (length vals).
Notation Sim := (Sim ep lam vals J K).
Notation ae := (to_aevent ep lam vals).

(* every operation outside the mask is acceptable noise in the state in which it is executed *)
Fixpoint ok_from_p (i : inst) (ops : list op) (mask : list bool) : Prop :=
  match ops, mask with
  | o :: t, m :: mt => (m = false -> noise_ok_p cap pol J i o) /\ ok_from_p (snd (fst (step cap pol sample i o))) t mt
  | _, _ => True
  end.

Lemma noise_list T Dr B : few_forkers vals T -> forall ns i rest mrest, Sim i T Dr B ->
  ok_from_p i (ns ++ rest) (repeat false (length ns) ++ mrest) ->
  l_ctr (i_st i) + N.of_nat (count_builds ns) <= K ->
  exists i' os, run cap pol sample i (ns ++ rest) = os ++ run cap pol sample i' rest /\ length os = length ns /\
    Sim i' T Dr B /\ ok_from_p i' rest mrest /\ l_ctr (i_st i') <= l_ctr (i_st i) + N.of_nat (count_builds ns).
Proof.
  intros Hff. induction ns as [|o ns IH]; intros i rest mrest HS OK HB.
  - exists i, []. cbn [app length repeat] in *. split; [reflexivity|]. split; [reflexivity|]. split; [exact HS|]. split; [exact OK|].
    unfold count_builds. cbn [filter length]. lia.
  - cbn [app length repeat ok_from_p] in OK. destruct OK as [OK1 OK2].
    assert (HBo : is_build o = true -> l_ctr (i_st i) + 1 <= K).
    { intros Eb. unfold count_builds in HB. cbn [filter] in HB. rewrite Eb in HB. cbn [length] in HB. lia. }
    destruct (noise_step cap pol ep lam vals Hvals J K HJ HK i T Dr B o HS Hff (OK1 eq_refl) HBo) as [ob [i1 [E [HS1 C1]]]].
    rewrite E in OK2. cbn [fst snd] in OK2.
    assert (HB1 : l_ctr (i_st i1) + N.of_nat (count_builds ns) <= K).
    { unfold count_builds in HB |- *. cbn [filter] in HB. destruct (is_build o); cbn [length] in HB; lia. }
    destruct (IH i1 rest mrest HS1 OK2 HB1) as [i' [os [ER [L [HS' [OK' C']]]]]].
    exists i', (ob :: os). cbn [app run]. rewrite E, ER. split; [reflexivity|]. split; [cbn [length]; lia|].
    split; [exact HS'|]. split; [exact OK'|].
    unfold count_builds in *. cbn [filter]. destruct (is_build o); cbn [length]; lia.
Qed.

End NoiseRun.
Definition ok_from (cap : nat) (J : N -> Prop) := ok_from_p cap [] J.

Section NoiseRun0.
Variable cap : nat.
Variable ep : N.
Variable lam : fev -> N.
Variable vals : list (N * N).
Hypothesis Hvals : vals_ok vals.
Variable J : N -> Prop.
Variable K : N.
Hypothesis HJ : forall a, J a -> id_fresh K a.
Hypothesis HK : K < 2 ^ 192.

Notation nv := (length vals).
Notation Sim := (Sim ep lam vals J K).
Notation ae := (to_aevent ep lam vals).
Notation noise_list := (noise_list cap [] ep lam vals Hvals J K HJ HK).

Lemma sched_sim : forall sc i T Dr B tl, Sim i T Dr B ->
  codes_ok (snd (add_events vals T (map s_ev sc))) ->
  (forall e, In e (map s_ev sc) -> id_fresh K (eid (fe e)) /\ ~ J (eid (fe e))) ->
  few_forkers vals (fst (add_events vals T (map s_ev sc))) ->
  l_ctr (i_st i) + N.of_nat (count_builds (sched_ops_ep ep lam vals sc tl)) <= K ->
  ok_from_p cap [] J i (sched_ops_ep ep lam vals sc tl) (sched_mask sc tl) ->
  exists i' B', render (pick (sched_mask sc tl) (run cap [] sample i (sched_ops_ep ep lam vals sc tl))) = (snd (add_events vals T (map s_ev sc)), B') /\
    Sim i' (fst (add_events vals T (map s_ev sc))) (rev (map s_ev sc) ++ Dr) (B ++ B').
Proof.
  induction sc as [|s sc IH]; intros i T Dr B tl HS Hc Hf Hff HB OK.
  - cbn [map add_events fst snd rev app]. unfold sched_ops_ep, sched_mask in *. cbn [flat_map app] in *. cbn [map add_events fst] in Hff.
    pose proof (noise_list T Dr B Hff tl i [] [] HS) as NL. rewrite !app_nil_r in NL.
    destruct (NL OK HB) as [i' [os [ER [L [HS' _]]]]].
    rewrite ER. cbn [run]. rewrite app_nil_r, pick_all_false. exists i', []. rewrite app_nil_r. split; [reflexivity | exact HS'].
  - set (e := s_ev s). cbn [map add_events] in *. fold e in Hc, Hf, Hff |- *.
    destruct (add_event vals T e) as [T1 r] eqn:AE.
    pose proof (add_events_incl vals (map s_ev sc) T1) as Inc.
    destruct (add_events vals T1 (map s_ev sc)) as [T2 rs] eqn:AEs. cbn [fst snd] in *.
    assert (Hr : fst r = 0) by (apply Hc; left; reflexivity).
    destruct r as [c h]. cbn [fst] in Hr. subst c.
    pose proof (add_event_high vals T e T1 h AE) as Hh.
    destruct (add_event_accept vals T e T1 h AE) as (-> & PK & NL & CR & EW & FO).
    assert (HffT : few_forkers vals T).
    { eapply few_forkers_sub; [|exact Hff]. intros x Hx. apply Inc. right. exact Hx. }
    assert (Hff1 : few_forkers vals (mk_node nv T e :: T)) by (eapply few_forkers_sub; [exact Inc | exact Hff]).
    (* shape of the operation list *)
    set (rest := sched_ops_ep ep lam vals sc tl). set (mrest := sched_mask sc tl).
    assert (Eops : sched_ops_ep ep lam vals (s :: sc) tl = s_pre s ++ (OpB (ae e) :: s_mid s ++ (OpP (ae e) :: rest))).
    { unfold sched_ops_ep, rest. cbn [flat_map]. fold e. rewrite <- !app_assoc. cbn [app]. rewrite <- app_assoc. reflexivity. }
    assert (Emask : sched_mask (s :: sc) tl = repeat false (length (s_pre s)) ++ (true :: repeat false (length (s_mid s)) ++ (true :: mrest))).
    { unfold sched_mask, mrest. cbn [flat_map]. rewrite <- !app_assoc. cbn [app]. rewrite <- app_assoc. reflexivity. }
    rewrite Eops, Emask in *.
    assert (CB : count_builds (s_pre s ++ OpB (ae e) :: s_mid s ++ OpP (ae e) :: rest)
                 = (count_builds (s_pre s) + (1 + (count_builds (s_mid s) + count_builds rest)))%nat).
    { rewrite count_builds_app. f_equal.
      change (OpB (ae e) :: s_mid s ++ OpP (ae e) :: rest) with ([OpB (ae e)] ++ s_mid s ++ [OpP (ae e)] ++ rest).
      rewrite !count_builds_app. reflexivity. }
    rewrite CB in HB.
    (* noise before the Build *)
    destruct (noise_list T Dr B HffT (s_pre s) i _ _ HS OK ltac:(lia)) as [i0 [os0 [ER0 [L0 [HS0 [OK0 C0]]]]]].
    (* the Build *)
    cbn [ok_from_p] in OK0. destruct OK0 as [_ OK0].
    destruct (build_step cap ep lam vals Hvals J K HJ i0 T Dr B e HS0 PK CR EW NL FO ltac:(lia) ltac:(lia)) as [i1 [EB [HS1 Ct1]]].
    rewrite EB in OK0. cbn [fst snd] in OK0.
    (* noise between the Build and the Process *)
    destruct (noise_list T Dr B HffT (s_mid s) i1 _ _ HS1 OK0 ltac:(lia)) as [i2 [os2 [ER2 [L2 [HS2 [OK2 C2]]]]]].
    (* the Process *)
    cbn [ok_from_p] in OK2. destruct OK2 as [_ OK2].
    destruct (process_step cap ep lam vals Hvals J K i2 T Dr B e HS2 (proj1 (Hf e (or_introl eq_refl))) (proj2 (Hf e (or_introl eq_refl))) PK NL CR EW FO Hff1)
      as [bl [i3 [EP [HS3 Ct3]]]].
    rewrite EP in OK2. cbn [fst snd] in OK2.
    destruct (IH i3 (mk_node nv T e :: T) (e :: Dr) (B ++ map blk_obs bl) tl HS3) as [i' [B' [ER HS']]].
    { rewrite AEs. cbn [snd]. intros r0 Hr0. apply Hc. right. exact Hr0. }
    { intros e0 He0. apply Hf. right. exact He0. }
    { rewrite AEs. exact Hff. }
    { fold rest. lia. }
    { exact OK2. }
    rewrite AEs in ER, HS'. cbn [fst snd] in ER, HS'. fold rest mrest in ER.
    exists i', (map blk_obs bl ++ B'). split.
    + rewrite ER0. cbn [run]. rewrite EB. rewrite ER2. cbn [run]. rewrite EP.
      rewrite (pick_false _ os0 _ _ L0), pick_true, (pick_false _ os2 _ _ L2), pick_true.
      cbn [render]. rewrite ER, Hh. reflexivity.
    + cbn [rev]. rewrite <- !app_assoc. cbn [app]. rewrite <- app_assoc in HS'. exact HS'.
Qed.
End NoiseRun0.

(* ================= the theorem ================= *)
Definition noise_side (D : list fev) (J : N -> Prop) (K : N) (ops : list op) : Prop :=
  (forall e, In e D -> id_fresh K (eid (fe e)) /\ ~ J (eid (fe e))) /\ (forall a, J a -> id_fresh K a) /\
  N.of_nat (count_builds ops) <= K /\ K < 2 ^ 192.

Lemma final_blocks (cap : nat) ep lam vals J K (Hvals : vals_ok vals) i T Dr B : Sim ep lam vals J K i T Dr B -> few_forkers vals T ->
  B = map (fun b : N * N => (fst b, snd b, ElectionSpec.cheaters_of vals T (snd b))) (r_blocks vals T).
Proof.
  intros [W Dn _ _ _ SG CH] Hff. rewrite (cheat_map vals T B CH). f_equal.
  unfold r_blocks, blocks_spec. symmetry.
  destruct (seg_bound vals T 0 (map fst B) _ SG) as [EL BD].
  apply (blocks_of_seg cap vals T (map fst B) 0 _ _ SG).
  - apply (Done_undecided ep lam vals Hvals T Dr _ _ Hff W _ Dn).
  - destruct BD as [->|BD]; [cbn; lia | lia].
Qed.

Theorem link_noise (cap : nat) lam vals (sc : list slot) (tl : list op) J K :
  let D := map s_ev sc in let ops := sched_ops lam vals sc tl in let mask := sched_mask sc tl in
  vals_ok vals -> noise_side D J K ops -> valid_run vals D ->
  ok_from cap J (start 1 vals) ops mask ->
  render (pick mask (run cap [] sample (start 1 vals) ops)) = reference vals D.
Proof.
  intros D ops mask Hvals (Hf & HJ & HB & HK) [Hacc Hff] OK. unfold sched_ops in ops.
  destruct sc as [|s0 sc0].
  - unfold mask, sched_mask. cbn [flat_map app]. rewrite pick_all_false. reflexivity.
  - assert (Hnv : (0 < length vals)%nat).
    { unfold all_accepted, D in Hacc. cbn [map add_events] in Hacc.
      destruct (add_event vals [] (s_ev s0)) as [T1 r] eqn:AE. destruct (add_events vals T1 (map s_ev sc0)) as [T2 rs].
      cbn [snd] in Hacc. assert (Hr : fst r = 0) by (apply Hacc; left; reflexivity). destruct r as [c h]. cbn in Hr. subst c.
      destruct (add_event_accept vals [] (s_ev s0) T1 h AE) as (_ & _ & _ & CR & _). lia. }
    destruct (sched_sim cap 1 lam vals Hvals J K HJ HK (s0 :: sc0) (start 1 vals) [] [] [] tl
                (Sim_start 1 lam vals Hvals J K HJ Hnv) Hacc Hf Hff) as [i' [B' [ER HS]]].
    { cbn [start i_st genesis l_ctr]. fold ops. lia. }
    { exact OK. }
    fold D ops mask in ER, HS. rewrite ER. unfold reference. unfold table in Hff.
    destruct (add_events vals [] D) as [T rs] eqn:AEs. cbn [fst snd] in *. f_equal.
    cbn [app] in HS. apply (final_blocks cap 1 lam vals J K Hvals i' T _ B' HS Hff).
Qed.
