(* C25 — lemmas about model/CrashBase.v: association maps, durable operations, CheckDBsSynced,
   oracle orders, and the order-free form [safe] of the crash-consistency property. *)
From Coq Require Import NArith List Bool Lia Permutation.
From LV Require Import lib.Bytes lib.BytesFacts model.CrashBase.
Import ListNotations.
Local Open Scope N_scope.

(* ------------------------------------------------------------------ byte strings *)
Lemma beqb_refl a : bytes_eqb a a = true.
Proof. apply bytes_eqb_eq; reflexivity. Qed.
Lemma beqb_neq a b : a <> b -> bytes_eqb a b = false.
Proof. intros H. destruct (bytes_eqb a b) eqn:E; auto. apply bytes_eqb_eq in E; contradiction. Qed.
Lemma beqb_false a b : bytes_eqb a b = false -> a <> b.
Proof. intros E ->. rewrite beqb_refl in E; discriminate. Qed.

(* ------------------------------------------------------------------ one database *)
Lemma dget_dremove_eq k c : dget k (dremove k c) = None.
Proof.
  induction c as [|[k' v] t IH]; cbn; auto.
  destruct (bytes_eqb k' k) eqn:E; cbn; auto. rewrite E; auto.
Qed.
Lemma dget_dremove_neq k k' c : k <> k' -> dget k' (dremove k c) = dget k' c.
Proof.
  intros H. induction c as [|[k0 v] t IH]; cbn; auto.
  destruct (bytes_eqb k0 k) eqn:E; cbn.
  - apply bytes_eqb_eq in E; subst. rewrite (beqb_neq _ _ H); auto.
  - destruct (bytes_eqb k0 k'); auto.
Qed.
Lemma dget_dput_eq k v c : dget k (dput k v c) = Some v.
Proof. unfold dput; cbn. rewrite beqb_refl; auto. Qed.
Lemma dget_dput_neq k k' v c : k <> k' -> dget k' (dput k v c) = dget k' c.
Proof. intros H. unfold dput; cbn. rewrite (beqb_neq _ _ H). apply dget_dremove_neq; auto. Qed.
Lemma dget_ddel_eq k c : dget k (ddel k c) = None.
Proof. apply dget_dremove_eq. Qed.
Lemma dget_ddel_neq k k' c : k <> k' -> dget k' (ddel k c) = dget k' c.
Proof. apply dget_dremove_neq. Qed.

Lemma dget_apply_write_eq c w : dget (fst w) (apply_write c w) = snd w.
Proof. unfold apply_write. destruct (snd w); [apply dget_dput_eq|apply dget_ddel_eq]. Qed.
Lemma dget_apply_write_neq c w k : fst w <> k -> dget k (apply_write c w) = dget k c.
Proof. intros H. unfold apply_write. destruct (snd w); [apply dget_dput_neq|apply dget_ddel_neq]; auto. Qed.

Lemma apply_writes_app a b c : apply_writes (a ++ b) c = apply_writes b (apply_writes a c).
Proof. unfold apply_writes. apply fold_left_app. Qed.

Lemma dget_apply_writes_avoid fk ws c :
  writes_avoid fk ws = true -> dget fk (apply_writes ws c) = dget fk c.
Proof.
  revert c; induction ws as [|w t IH]; intros c H; cbn; auto.
  cbn in H. apply andb_true_iff in H. destruct H as [H1 H2].
  unfold apply_writes in *. cbn. rewrite IH; auto.
  apply dget_apply_write_neq. apply negb_true_iff in H1. apply beqb_false; auto.
Qed.

Lemma db_eq_refl a : db_eq a a.
Proof. intros k; reflexivity. Qed.
Lemma db_empty_nil : db_empty [].
Proof. intros k; reflexivity. Qed.

(* ------------------------------------------------------------------ the world *)
Lemma wget_wset_eq n c w : wget n (wset n c w) = Some c.
Proof.
  induction w as [|[n' c'] t IH]; cbn; [rewrite N.eqb_refl; auto|].
  destruct (n' =? n) eqn:E; cbn; [rewrite N.eqb_refl; auto|rewrite E; auto].
Qed.
Lemma wget_wset_neq n n' c w : n <> n' -> wget n' (wset n c w) = wget n' w.
Proof.
  intros H. induction w as [|[n0 c0] t IH]; cbn.
  - destruct (n =? n') eqn:E; auto. apply N.eqb_eq in E; contradiction.
  - destruct (n0 =? n) eqn:E; cbn.
    + apply N.eqb_eq in E; subst. destruct (n =? n') eqn:E'; auto. apply N.eqb_eq in E'; contradiction.
    + destruct (n0 =? n'); auto.
Qed.
Lemma wget_wdel_eq n w : wget n (wdel n w) = None.
Proof.
  induction w as [|[n' c'] t IH]; cbn; auto.
  destruct (n' =? n) eqn:E; cbn; auto. rewrite E; auto.
Qed.
Lemma wget_wdel_neq n n' w : n <> n' -> wget n' (wdel n w) = wget n' w.
Proof.
  intros H. induction w as [|[n0 c0] t IH]; cbn; auto.
  destruct (n0 =? n) eqn:E; cbn.
  - apply N.eqb_eq in E; subst. destruct (n =? n') eqn:E'; auto. apply N.eqb_eq in E'; contradiction.
  - destruct (n0 =? n'); auto.
Qed.

Definition dop_name (o : dop) : name :=
  match o with DOpen n | DDrop n | DPut n _ _ | DDel n _ | DBatch n _ => n end.

Lemma wget_on_db_eq n f w : wget n (on_db n f w) = option_map f (wget n w).
Proof. unfold on_db. destruct (wget n w) eqn:E; cbn; [apply wget_wset_eq|auto]. Qed.
Lemma wget_on_db_neq n n' f w : n <> n' -> wget n' (on_db n f w) = wget n' w.
Proof. intros H. unfold on_db. destruct (wget n w); auto. apply wget_wset_neq; auto. Qed.

Lemma apply_dop_other w o n : dop_name o <> n -> wget n (apply_dop w o) = wget n w.
Proof.
  destruct o; cbn; intros H.
  - destruct (wget n0 w); auto. apply wget_wset_neq; auto.
  - apply wget_wdel_neq; auto.
  - apply wget_on_db_neq; auto.
  - apply wget_on_db_neq; auto.
  - apply wget_on_db_neq; auto.
Qed.

Lemma apply_dops_app a b w : apply_dops (a ++ b) w = apply_dops b (apply_dops a w).
Proof. unfold apply_dops. apply fold_left_app. Qed.

Lemma apply_dops_other ops w n :
  (forall o, In o ops -> dop_name o <> n) -> wget n (apply_dops ops w) = wget n w.
Proof.
  revert w; induction ops as [|o t IH]; intros w H; cbn; auto.
  unfold apply_dops in *. cbn. rewrite IH; [apply apply_dop_other; apply H; left; auto|].
  intros o' Ho'. apply H; right; auto.
Qed.

(* per-database decomposition of a phase that visits distinct names *)
Lemma apply_concat_get (f : name -> list dop) ns n w :
  NoDup ns -> (forall m o, In o (f m) -> dop_name o = m) ->
  wget n (apply_dops (concat (map f ns)) w) =
  if nmem n ns then wget n (apply_dops (f n) w) else wget n w.
Proof.
  intros ND Hf. revert w. induction ns as [|m t IH]; intros w; cbn; auto.
  inversion ND as [|? ? Hn ND']; subst.
  rewrite apply_dops_app. rewrite IH; auto.
  destruct (m =? n) eqn:E; cbn.
  - apply N.eqb_eq in E; subst m.
    assert (X : nmem n t = false).
    { clear -Hn. induction t as [|y t IH]; cbn; auto.
      destruct (y =? n) eqn:E; cbn; [apply N.eqb_eq in E; subst; exfalso; apply Hn; left; auto|].
      apply IH. intros H; apply Hn; right; auto. }
    rewrite X. reflexivity.
  - assert (Hm : m <> n) by (intros ->; rewrite N.eqb_refl in E; discriminate).
    destruct (nmem n t).
    + (* f n acts on n only; f m does not touch n *)
      assert (G : forall w1 w2, wget n w1 = wget n w2 ->
                  wget n (apply_dops (f n) w1) = wget n (apply_dops (f n) w2)).
      { generalize (Hf n). generalize (f n). clear.
        induction l as [|o t IH]; intros H w1 w2 E; cbn; auto.
        unfold apply_dops in *. cbn. apply IH; [intros o' Ho'; apply H; right; auto|].
        assert (Ho : dop_name o = n) by (apply H; left; auto).
        destruct o; cbn in Ho; subst; cbn.
        - destruct (wget n w1) eqn:E1, (wget n w2) eqn:E2; try discriminate; try congruence.
          rewrite !wget_wset_eq; auto.
        - rewrite !wget_wdel_eq; auto.
        - rewrite !wget_on_db_eq, E; auto.
        - rewrite !wget_on_db_eq, E; auto.
        - rewrite !wget_on_db_eq, E; auto. }
      apply G. apply apply_dops_other. intros o Ho. rewrite (Hf _ _ Ho). auto.
    + apply apply_dops_other. intros o Ho. rewrite (Hf _ _ Ho). auto.
Qed.

(* ------------------------------------------------------------------ names *)
Lemma nmem_in n l : nmem n l = true <-> In n l.
Proof.
  induction l as [|x t IH]; cbn; [split; [discriminate|tauto]|].
  rewrite orb_true_iff, N.eqb_eq, IH. tauto.
Qed.
Lemma nmem_false n l : nmem n l = false <-> ~ In n l.
Proof. rewrite <- nmem_in. destruct (nmem n l); split; congruence. Qed.

Lemma pick_in o s seen n : In n (pick o s seen) -> In n s /\ ~ In n seen.
Proof.
  revert seen; induction o as [|x t IH]; intros seen; cbn; [tauto|].
  destruct (nmem x s && negb (nmem x seen)) eqn:E.
  - apply andb_true_iff in E. destruct E as [E1 E2]. apply negb_true_iff in E2.
    intros [->|H]; [split; [apply nmem_in; auto|apply nmem_false; auto]|].
    destruct (IH _ H) as [A B]. split; auto. intros X; apply B; right; auto.
  - apply IH.
Qed.
Lemma pick_nodup o s seen : NoDup (pick o s seen).
Proof.
  revert seen; induction o as [|x t IH]; intros seen; cbn; [constructor|].
  destruct (nmem x s && negb (nmem x seen)); auto.
  constructor; auto. intros H. apply pick_in in H. destruct H as [_ H]. apply H; left; auto.
Qed.

Lemma arrange_in o s n : In n (arrange o s) <-> In n s.
Proof.
  unfold arrange. rewrite in_app_iff, filter_In. split.
  - intros [H|[H _]]; auto. apply pick_in in H; tauto.
  - intros H. destruct (nmem n (pick o s [])) eqn:E; [left; apply nmem_in; auto|right; split; auto; apply negb_true_iff; exact E].
Qed.
Lemma arrange_nodup o s : NoDup s -> NoDup (arrange o s).
Proof.
  intros ND. unfold arrange.
  assert (F : forall l, NoDup l -> NoDup (filter (fun n => negb (nmem n (pick o s []))) l)).
  { induction l as [|x t IH]; cbn; intros H; [constructor|]. inversion H; subst.
    destruct (negb (nmem x (pick o s []))); auto. constructor; auto.
    intros X. apply filter_In in X. tauto. }
  assert (A : forall a b : list name, NoDup a -> NoDup b -> (forall x, In x a -> ~ In x b) -> NoDup (a ++ b)).
  { induction a as [|x a IH]; cbn; intros b Ha Hb Hd; auto. inversion Ha; subst.
    constructor; [rewrite in_app_iff; intros [X|X]; [contradiction|eapply Hd; eauto]|].
    apply IH; auto. }
  apply A; [apply pick_nodup|apply F; auto|].
  intros x Hx Hf. apply filter_In in Hf. destruct Hf as [_ Hf].
  apply negb_true_iff in Hf. apply nmem_false in Hf. contradiction.
Qed.
Lemma arrange_perm o s : NoDup s -> Permutation (arrange o s) s.
Proof.
  intros ND. apply NoDup_Permutation; auto; [apply arrange_nodup; auto|]. intros x. apply arrange_in.
Qed.

(* ------------------------------------------------------------------ CheckDBsSynced *)
Lemma check_loop_some_not_none fk l f ni : check_loop fk l (Some f) ni <> COk None.
Proof.
  revert f ni; induction l as [|[n c] t IH]; intros f ni; cbn [check_loop]; cbv zeta.
  - destruct ni; discriminate.
  - destruct (dget fk c) as [m|]; [|apply IH].
    destruct (is_dirty m); [discriminate|]. destruct (bytes_eqb m f); [apply IH|discriminate].
Qed.

Lemma check_loop_none fk l ni :
  check_loop fk l None ni = COk None -> forall n c, In (n, c) l -> dget fk c = None.
Proof.
  revert ni; induction l as [|[n c] t IH]; intros ni H n' c' Hin; [destruct Hin|].
  cbn [check_loop] in H; cbv zeta in H. destruct (dget fk c) as [m|] eqn:E.
  - destruct (is_dirty m); [discriminate|]. rewrite beqb_refl in H.
    exfalso. eapply check_loop_some_not_none; eauto.
  - destruct Hin as [X|X]; [inversion X; subst; auto|eapply IH; eauto].
Qed.

Lemma check_loop_some fk l fid ni m :
  check_loop fk l fid ni = COk (Some m) ->
  ni = false /\ (forall n c, In (n, c) l -> dget fk c = Some m /\ is_dirty m = false) /\
  (forall f, fid = Some f -> f = m) /\ (fid = None -> l <> []).
Proof.
  revert fid ni; induction l as [|[n c] t IH]; intros fid ni H; cbn [check_loop] in H; cbv zeta in H.
  - destruct fid as [f|]; [|discriminate]. destruct ni; [discriminate|].
    inversion H; subst. split; [reflexivity|]. split; [intros n c []|]. split; [intros f0 E; inversion E; auto|discriminate].
  - destruct (dget fk c) as [mk|] eqn:E.
    + destruct (is_dirty mk) eqn:Ed; [discriminate|].
      match type of H with (if ?b then _ else _) = _ => destruct b eqn:Eb end; [|discriminate].
      apply bytes_eqb_eq in Eb.
      destruct (IH _ _ H) as [A [B [C D]]].
      assert (Em : match fid with None => mk | Some f => f end = m) by (apply C; auto).
      split; [auto|]. split; [|split].
      * intros n' c' [X|X]; [|apply (B _ _ X)]. injection X as <- <-.
        rewrite E. split; [congruence|]. rewrite <- Em, <- Eb. exact Ed.
      * intros f Ef; subst fid. exact Em.
      * discriminate.
    + destruct (IH _ _ H) as [A _]. discriminate.
Qed.

(* ------------------------------------------------------------------ the order-free property *)
Definition safe (fk : bytes) (recs : list flush_rec) (k : nat) (w : world) : Prop :=
  (forall n c, wget n w = Some c -> dget fk c = None -> db_empty c) /\
  (forall m, (exists n c, wget n w = Some c) ->
             (forall n c, wget n w = Some c -> dget fk c = Some m) -> is_dirty m = false ->
     exists rc, In rc recs /\ (r_pos rc <= k)%nat /\ m = mark_of CLEAN (r_id rc) /\
       forall n c, wget n w = Some c ->
         match wget n (r_snap rc) with Some s => db_eq c s | None => db_empty c end).

Lemma safe_consistent fk recs k w l :
  safe fk recs k w -> lists_world l w -> crash_consistent fk recs k w l.
Proof.
  intros [S1 S2] L. unfold crash_consistent, check_synced.
  destruct (check_loop fk l None false) as [[m|]| | |] eqn:E; auto.
  - destruct (check_loop_some _ _ _ _ _ E) as [_ [B [_ D]]].
    assert (Hne : l <> []) by auto.
    apply S2.
    + destruct l as [|[n c] t]; [contradiction|]. exists n, c. apply L. left; auto.
    + intros n c G. apply L in G. apply (B _ _ G).
    + destruct l as [|[n c] t]; [contradiction|]. apply (B n c (or_introl eq_refl)).
  - intros n c G. apply (S1 _ _ G). eapply check_loop_none; [exact E|]. apply L; exact G.
Qed.

Lemma safe_mono fk recs recs' k k' w :
  (forall rc, In rc recs -> In rc recs') -> (k <= k')%nat -> safe fk recs k w -> safe fk recs' k' w.
Proof.
  intros Hr Hk [S1 S2]. split; auto. intros m He Ha Hd.
  destruct (S2 m He Ha Hd) as [rc [A [B [C D]]]]. exists rc. repeat split; auto. lia.
Qed.

(* sufficient conditions *)
Definition dirty_at (fk : bytes) (w : world) (n : name) : Prop :=
  exists c m, wget n w = Some c /\ dget fk c = Some m /\ is_dirty m = true.
Definition dirtyw (fk : bytes) (w : world) : Prop := exists n, dirty_at fk w n.

(* every surviving database is empty or agrees with the record [orc] *)
Definition agrees (fk : bytes) (orc : option flush_rec) (w : world) : Prop :=
  forall n c, wget n w = Some c ->
    db_empty c \/
    exists rc s, orc = Some rc /\ dget fk c = Some (mark_of CLEAN (r_id rc)) /\
                 wget n (r_snap rc) = Some s /\ db_eq c s.

Lemma safe_of_dirty fk recs k w :
  (forall n c, wget n w = Some c -> dget fk c = None -> db_empty c) -> dirtyw fk w -> safe fk recs k w.
Proof.
  intros S1 [n [c [m [G [E D]]]]]. split; auto.
  intros m' _ Ha Hd. specialize (Ha _ _ G). rewrite E in Ha. inversion Ha; subst. congruence.
Qed.

Lemma safe_of_mixed fk recs k w n1 c1 n2 c2 :
  (forall n c, wget n w = Some c -> dget fk c = None -> db_empty c) ->
  wget n1 w = Some c1 -> wget n2 w = Some c2 -> dget fk c1 <> dget fk c2 -> safe fk recs k w.
Proof.
  intros S1 G1 G2 Hne. split; auto.
  intros m _ Ha _. rewrite (Ha _ _ G1), (Ha _ _ G2) in Hne. contradiction.
Qed.

Lemma safe_of_agrees fk recs k w orc :
  (forall rc, orc = Some rc -> In rc recs /\ (r_pos rc <= k)%nat) -> agrees fk orc w -> safe fk recs k w.
Proof.
  intros Ho Ha. split.
  - intros n c G E. destruct (Ha _ _ G) as [H|[rc [s [_ [M _]]]]]; auto. congruence.
  - intros m [n [c G]] Hall Hd.
    destruct (Ha _ _ G) as [H|[rc [s [Eo [M [Gs Es]]]]]].
    + pose proof (Hall _ _ G) as X. rewrite (H fk) in X. discriminate.
    + destruct (Ho _ Eo) as [I P]. exists rc. repeat split; auto.
      * rewrite (Hall _ _ G) in M. inversion M; auto.
      * intros n' c' G'. destruct (Ha _ _ G') as [H|[rc' [s' [Eo' [M' [Gs' Es']]]]]].
        -- pose proof (Hall _ _ G') as X. rewrite (H fk) in X. discriminate.
        -- rewrite Eo in Eo'. inversion Eo'; subst rc'. rewrite Gs'. exact Es'.
Qed.

(* ------------------------------------------------------------------ every prefix of an operation list *)
Fixpoint all_prefixes (P : world -> Prop) (ops : list dop) (w : world) : Prop :=
  P w /\ match ops with [] => True | o :: r => all_prefixes P r (apply_dop w o) end.
(* all prefixes but the complete list *)
Fixpoint strict_prefixes (P : world -> Prop) (ops : list dop) (w : world) : Prop :=
  match ops with [] => True | o :: r => P w /\ strict_prefixes P r (apply_dop w o) end.

Lemma all_prefixes_split P ops w :
  all_prefixes P ops w <-> strict_prefixes P ops w /\ P (apply_dops ops w).
Proof.
  revert w; induction ops as [|o r IH]; intros w; cbn; [tauto|].
  rewrite IH. unfold apply_dops; cbn. tauto.
Qed.
Lemma strict_prefixes_app P a b w :
  strict_prefixes P (a ++ b) w <-> strict_prefixes P a w /\ strict_prefixes P b (apply_dops a w).
Proof.
  revert w; induction a as [|o r IH]; intros w; cbn; [tauto|].
  rewrite IH. unfold apply_dops; cbn. tauto.
Qed.
Lemma all_prefixes_app P a b w :
  all_prefixes P a w -> all_prefixes P b (apply_dops a w) -> all_prefixes P (a ++ b) w.
Proof.
  intros Ha Hb. apply all_prefixes_split in Ha, Hb. apply all_prefixes_split.
  rewrite strict_prefixes_app, apply_dops_app. tauto.
Qed.
Lemma all_prefixes_strict P ops w : all_prefixes P ops w -> strict_prefixes P ops w.
Proof. intros H; apply all_prefixes_split in H; tauto. Qed.
Lemma strict_prefixes_impl (P Q : world -> Prop) ops w :
  (forall w, P w -> Q w) -> strict_prefixes P ops w -> strict_prefixes Q ops w.
Proof. intros H. revert w; induction ops as [|o r IH]; intros w; cbn; auto. intros [A B]; auto. Qed.

Lemma strict_prefixes_firstn P ops w j :
  strict_prefixes P ops w -> (j < length ops)%nat -> P (apply_dops (firstn j ops) w).
Proof.
  revert w j; induction ops as [|o r IH]; intros w j H Hj; cbn in Hj; [lia|].
  destruct H as [A B]. destruct j as [|j]; cbn; auto.
  unfold apply_dops; cbn. apply IH; auto. lia.
Qed.

(* an invariant preserved by every operation of a list holds at every prefix *)
Lemma all_prefixes_preserved (P : world -> Prop) ops w :
  P w -> (forall o w, In o ops -> P w -> P (apply_dop w o)) -> all_prefixes P ops w.
Proof.
  revert w; induction ops as [|o r IH]; intros w H Hp; cbn; auto.
  split; auto. apply IH; [apply Hp; [left|]; auto|]. intros o' w' Ho'. apply Hp; right; auto.
Qed.

Lemma check_ok_some fk l m :
  check_synced fk l = COk (Some m) ->
  l <> [] /\ forall n c, In (n, c) l -> dget fk c = Some m /\ is_dirty m = false.
Proof.
  intros H. destruct (check_loop_some fk l None false m H) as [_ [B [_ D]]]. split; auto.
Qed.
Lemma check_ok_none fk l :
  check_synced fk l = COk None -> forall n c, In (n, c) l -> dget fk c = None.
Proof. intros H. exact (check_loop_none fk l false H). Qed.

(* completeness of the OK verdicts, hence independence of the visiting order *)
Lemma check_loop_complete_some fk m l : forall fid,
  (forall n c, In (n, c) l -> dget fk c = Some m) -> is_dirty m = false ->
  (fid = None \/ fid = Some m) -> (l <> [] \/ fid = Some m) ->
  check_loop fk l fid false = COk (Some m).
Proof.
  induction l as [|[n c] t IH]; intros fid Hall Hd Hf Hne; cbn [check_loop].
  - destruct Hne as [H|H]; [contradiction|rewrite H; reflexivity].
  - rewrite (Hall n c (or_introl eq_refl)), Hd. cbv zeta.
    assert (E : match fid with Some f => f | None => m end = m) by (destruct Hf as [Hf|Hf]; rewrite Hf; reflexivity).
    rewrite E, beqb_refl. apply IH; auto. intros n' c' H. apply (Hall n' c'). right; auto.
Qed.
Lemma check_loop_complete_none fk l : forall ni,
  (forall n c, In (n, c) l -> dget fk c = None) -> check_loop fk l None ni = COk None.
Proof.
  induction l as [|[n c] t IH]; intros ni Hall; cbn [check_loop]; auto.
  rewrite (Hall n c (or_introl eq_refl)). apply IH. intros n' c' H. apply (Hall n' c'). right; auto.
Qed.

Lemma check_synced_perm fk l1 l2 x :
  Permutation l1 l2 -> check_synced fk l1 = COk x -> check_synced fk l2 = COk x.
Proof.
  intros P H. destruct x as [m|].
  - destruct (check_ok_some fk l1 m H) as [Hne Hall]. unfold check_synced.
    assert (Hd : is_dirty m = false).
    { destruct l1 as [|[n c] t]; [contradiction|]. apply (Hall n c). left; auto. }
    apply check_loop_complete_some; auto.
    + intros n c Hin. apply (Hall n c). eapply Permutation_in; [symmetry; exact P|exact Hin].
    + left. intros E. subst l2. apply Permutation_sym, Permutation_nil in P. contradiction.
  - unfold check_synced. apply check_loop_complete_none. intros n c Hin.
    eapply (check_ok_none fk l1 H). eapply Permutation_in; [symmetry; exact P|exact Hin].
Qed.

(* the example history of props/C25.v: two flushes, a queued drop *)
Module C25Ex.
  Definition fk : bytes := [255].
  Definition h : list hop :=
    [HPut 1 [97] [1]; HPut 2 [98] [7]; HFlush [1] []; HPut 1 [97] [2]; HDrop 2; HFlush [2] []].
End C25Ex.

(* ------------------------------------------------------------------ the world right after a completed flush *)
Definition agrees_all (fk : bytes) (rc : flush_rec) (w : world) : Prop :=
  forall n c, wget n w = Some c ->
    exists s, dget fk c = Some (mark_of CLEAN (r_id rc)) /\ wget n (r_snap rc) = Some s /\ db_eq c s.

Lemma agrees_all_agrees fk rc w : agrees_all fk rc w -> agrees fk (Some rc) w.
Proof. intros A n c G. destruct (A n c G) as [s [M [Gs E]]]. right. exists rc, s. auto. Qed.

Lemma agrees_all_verdict fk rc w l :
  agrees_all fk rc w -> lists_world l w -> l <> [] ->
  check_synced fk l = COk (Some (mark_of CLEAN (r_id rc))).
Proof.
  intros A L Hne. unfold check_synced. apply check_loop_complete_some; auto.
  intros n c Hin. apply L in Hin. destruct (A n c Hin) as [s [M _]]. exact M.
Qed.

(* Initialize(names, expected flush ID): an OK verdict reports the expected mark and means the same *)
Lemma safe_consistent_expected fk recs k w l f m :
  safe fk recs k w -> lists_world l w -> l <> [] ->
  check_loop fk l (Some f) false = COk (Some m) ->
  m = f /\
  exists rc, In rc recs /\ (r_pos rc <= k)%nat /\ m = mark_of CLEAN (r_id rc) /\
    forall n c, wget n w = Some c ->
      match wget n (r_snap rc) with Some s => db_eq c s | None => db_empty c end.
Proof.
  intros [S1 S2] L Hne E. destruct (check_loop_some _ _ _ _ _ E) as [_ [B [C _]]].
  split; [symmetry; apply C; reflexivity|].
  apply S2.
  - destruct l as [|[n c] t]; [contradiction|]. exists n, c. apply L. left; auto.
  - intros n c G. apply L in G. apply (B _ _ G).
  - destruct l as [|[n c] t]; [contradiction|]. apply (B n c (or_introl eq_refl)).
Qed.
Lemma check_expected_not_none fk l f : check_loop fk l (Some f) false <> COk None.
Proof. apply check_loop_some_not_none. Qed.
