(* C30, round 4: the acceptor accepts everything the model's replay scheduler does, for every
   well-formed script (C30_model_meets_spec). *)
From Coq Require Import NArith ZArith List Bool Lia ZifyBool ZifyNat ZifyN Permutation.
From LV Require Import model.Semaphore spec.SemaphoreSpec model.SemaphoreStream proofs.SemaphoreProofs.
Import ListNotations.

(* ---------- draining, with the observation buffer and "the grants fit the capacity" ---------- *)

Definition rets_lists (granted refused : list waiter) : list (N * bool) :=
  map (fun x => (wid x, true)) granted ++ map (fun x => (wid x, false)) refused.

Lemma rets_of_app a b : rets_of (a ++ b) = rets_of a ++ rets_of b.
Proof. unfold rets_of. apply flat_map_app. Qed.

Lemma drain_full c prefer now fuel : forall s,
  inv c (fst (fst s)) -> (length (woken (fst (fst s))) <= fuel)%nat ->
  let s' := drain true prefer fuel s now in
  inv c (fst (fst s')) /\
  exists kept granted refused delta,
    drained c now (fst (fst s)) (fst (fst s')) kept granted refused /\
    snd s' = delta ++ snd s /\ Permutation (rets_of delta) (rets_lists granted refused) /\
    (granted <> [] -> mle (held (fst (fst s'))) (cap (fst (fst s)))).
Proof.
  induction fuel as [|f IH]; intros s Hinv Hlen; cbn [drain].
  - assert (E : woken (fst (fst s)) = []) by (destruct (woken (fst (fst s))); [reflexivity | cbn in Hlen; lia]).
    split; [exact Hinv|]. exists [], [], [], []. split; [|split; [reflexivity | split; [constructor | intros H; now contradiction H]]].
    constructor; cbn [app]; auto.
    + now rewrite app_nil_r. + rewrite E. constructor. + destruct Hinv as (_ & H & _). exact H.
    + intros x []. + intros x [].
  - destruct (pick prefer (woken (fst (fst s)))) as [id|] eqn:P.
    2:{ assert (E : woken (fst (fst s)) = []).
        { unfold pick in P. destruct (find _ _); [discriminate|]. destruct (woken (fst (fst s))); [reflexivity | discriminate]. }
        split; [exact Hinv|]. exists [], [], [], []. split; [|split; [reflexivity | split; [constructor | intros H; now contradiction H]]].
        constructor; cbn [app]; auto.
        + now rewrite app_nil_r. + rewrite E. constructor. + destruct Hinv as (_ & H & _). exact H.
        + intros x []. + intros x []. }
    destruct (pick_in _ _ _ P) as (x0 & Hx0 & Hid).
    destruct s as [[st tr] ob]. cbn [fst snd] in *.
    destruct (take_waiter id (woken st)) as [[y r]|] eqn:T.
    2:{ exfalso. exact (take_waiter_none _ _ T x0 Hx0 Hid). }
    destruct (take_waiter_some _ _ _ _ T) as (Hy1 & Hy2 & Hy3 & Hy4 & Hy5).
    pose proof (take_waiter_perm _ _ _ _ T) as Hp.
    pose proof (Permutation_length Hp) as Hl. cbn [length] in Hl.
    assert (Hinv0 : inv c (mkS (held st) (cap st) (waiting st) r)).
    { eapply inv_sub; [exact Hinv | reflexivity | reflexivity |].
      intros z Hz. apply in_pending_app in Hz. cbn [waiting woken] in Hz. apply in_pending_app. destruct Hz; auto. }
    assert (Hwy : m_wf (ww y)) by (destruct Hinv as (_ & _ & _ & Hwf & _); apply Hwf, in_pending_app; auto).
    pose proof (inv_step c st now (EWake id) Hinv I) as Hinv1.
    unfold sim_step. cbn [step] in *. rewrite T in *.
    rewrite (loop_body_decide c _ _ _ Hinv0 Hwy) in *. cbn [held cap waiting woken] in *.
    unfold decide in *.
    destruct (fitsb (held st) (ww y) (cap st)) eqn:Ef.
    + cbn [fst snd] in *.
      set (st1 := mkS (mplus (held st) (ww y)) (cap st) (waiting st) r) in *.
      specialize (IH (st1, (now, EWake id) :: tr, rev (flat_map (obs_of now) [ORet (wid y) true]) ++ ob)). cbn [fst snd] in IH.
      destruct (IH Hinv1 ltac:(unfold st1; cbn; lia)) as (Hi' & kept & granted & refused & delta & D & Eob & Pob & Hfit).
      split; [exact Hi'|].
      destruct D as [D1 D2 D3 D4 D5 D6 D7 D8]. unfold st1 in *. cbn [held cap waiting woken] in *.
      exists kept, (y :: granted), refused, (delta ++ [BRet (wid y) true now]).
      split; [constructor; auto|split; [|split]].
      * eapply perm_trans; [|apply Permutation_sym, Hp].
        eapply perm_trans; [apply Permutation_sym, Permutation_middle|]. apply perm_skip. exact D4.
      * rewrite Eob. cbn. now rewrite <- app_assoc.
      * rewrite rets_of_app. cbn [rets_of flat_map app rets_lists map]. unfold rets_lists in Pob.
        eapply perm_trans; [apply Permutation_app_tail, Pob|].
        eapply perm_trans; [apply Permutation_app_comm|]. cbn [app]. apply Permutation_refl.
      * intros _. destruct granted as [|g gs].
        -- unfold msum in D5. cbn [fold_left] in D5. rewrite D5. apply fitsb_spec in Ef. destruct Ef. unfold mle, mplus. cbn. lia.
        -- apply Hfit. discriminate.
    + destruct (exceedsb (ww y) (cap st) || (wdl y <=? now)%Z) eqn:Ee.
      * cbn [fst snd] in *.
        set (st1 := mkS (held st) (cap st) (waiting st) r) in *.
        specialize (IH (st1, (now, EWake id) :: tr, rev (flat_map (obs_of now) [ORet (wid y) false]) ++ ob)). cbn [fst snd] in IH.
        destruct (IH Hinv1 ltac:(unfold st1; cbn; lia)) as (Hi' & kept & granted & refused & delta & D & Eob & Pob & Hfit).
        split; [exact Hi'|].
        destruct D as [D1 D2 D3 D4 D5 D6 D7 D8]. unfold st1 in *. cbn [held cap waiting woken] in *.
        exists kept, granted, (y :: refused), (delta ++ [BRet (wid y) false now]).
        split; [constructor; auto|split; [|split; [|exact Hfit]]].
        -- eapply perm_trans; [|apply Permutation_sym, Hp].
           rewrite app_assoc. eapply perm_trans; [apply Permutation_sym, Permutation_middle|]. apply perm_skip.
           rewrite <- app_assoc. exact D4.
        -- intros z [<-|Hz]; [|auto]. split.
           ++ eapply fitsb_false_mono; [|exact Ef]. rewrite D5. apply msum_mle.
           ++ apply orb_true_iff in Ee. destruct Ee as [Ee|Ee]; [left; exact Ee | right; lia].
        -- rewrite Eob. cbn. now rewrite <- app_assoc.
        -- rewrite rets_of_app. cbn [rets_of flat_map app]. unfold rets_lists in *. cbn [map].
           eapply perm_trans; [apply Permutation_app_tail, Pob|].
           rewrite <- app_assoc. apply Permutation_app_head.
           eapply perm_trans; [apply Permutation_app_comm|]. apply Permutation_refl.
      * cbn [fst snd] in *.
        set (st1 := mkS (held st) (cap st) (waiting st ++ [y]) r) in *.
        specialize (IH (st1, (now, EWake id) :: tr, rev (flat_map (obs_of now) [OBlock (wid y)]) ++ ob)). cbn [fst snd] in IH.
        destruct (IH Hinv1 ltac:(unfold st1; cbn; lia)) as (Hi' & kept & granted & refused & delta & D & Eob & Pob & Hfit).
        split; [exact Hi'|].
        destruct D as [D1 D2 D3 D4 D5 D6 D7 D8]. unfold st1 in *. cbn [held cap waiting woken] in *.
        exists (y :: kept), granted, refused, delta.
        split; [constructor; auto|split; [|split; [exact Pob | exact Hfit]]].
        -- rewrite D2, <- app_assoc. reflexivity.
        -- cbn [app]. eapply perm_trans; [apply perm_skip, D4 | apply Permutation_sym, Hp].
        -- apply orb_false_iff in Ee. destruct Ee as [Ee1 Ee2].
           intros z [<-|Hz]; [|auto]. split; [|split; [exact Ee1 | lia]].
           eapply fitsb_false_mono; [|exact Ef]. rewrite D5. apply msum_mle.
        -- rewrite Eob. cbn. reflexivity.
Qed.

(* ---------- list facts ---------- *)

Lemma memNb_in x l : memNb x l = true <-> In x l.
Proof.
  unfold memNb. rewrite existsb_exists. split.
  - intros (y & Hy & E). apply N.eqb_eq in E. now subst.
  - intros H. exists x. split; [assumption | apply N.eqb_refl].
Qed.

Lemma nodupNb_nodup l : NoDup l -> nodupNb l = true.
Proof.
  induction 1 as [|x l Hn _ IH]; cbn; [reflexivity|]. rewrite IH, andb_true_r.
  apply negb_true_iff. destruct (memNb x l) eqn:E; [apply memNb_in in E; contradiction | reflexivity].
Qed.

Lemma ret_of_in id b rets : NoDup (map fst rets) -> In (id, b) rets -> ret_of id rets = Some b.
Proof.
  induction rets as [|[i c] r IH]; cbn; intros Hn Hin; [contradiction|].
  inversion Hn as [|? ? Hni Hn']; subst.
  destruct (i =? id)%N eqn:E.
  - apply N.eqb_eq in E. subst. destruct Hin as [H|H]; [now inversion H|].
    exfalso. apply Hni. change id with (fst (id, b)). now apply in_map.
  - destruct Hin as [H|H]; [inversion H; subst; rewrite N.eqb_refl in E; discriminate | auto].
Qed.

Lemma ret_of_notin id rets : ~ In id (map fst rets) -> ret_of id rets = None.
Proof.
  induction rets as [|[i c] r IH]; cbn; intros H; [reflexivity|].
  destruct (i =? id)%N eqn:E; [apply N.eqb_eq in E; subst; exfalso; apply H; auto | apply IH; tauto].
Qed.

Lemma filter_perm {A} (f : A -> bool) l l' : Permutation l l' -> Permutation (filter f l) (filter f l').
Proof.
  induction 1; cbn; auto.
  - destruct (f x); auto.
  - destruct (f x), (f y); auto. apply perm_swap.
  - eapply perm_trans; eauto.
Qed.

Lemma filter_all {A} (f : A -> bool) l : (forall x, In x l -> f x = true) -> filter f l = l.
Proof. induction l as [|a l IH]; cbn; intros H; [reflexivity|]. rewrite H by auto. f_equal. apply IH. auto. Qed.
Lemma filter_none {A} (f : A -> bool) l : (forall x, In x l -> f x = false) -> filter f l = [].
Proof. induction l as [|a l IH]; cbn; intros H; [reflexivity|]. rewrite H by auto. apply IH. auto. Qed.

Lemma filter_split {A} (f : A -> bool) L A1 B1 :
  Permutation L (A1 ++ B1) -> (forall x, In x A1 -> f x = true) -> (forall x, In x B1 -> f x = false) ->
  Permutation (filter f L) A1.
Proof.
  intros P Ha Hb. eapply perm_trans; [apply filter_perm, P|].
  rewrite filter_app, (filter_all f A1 Ha), (filter_none f B1 Hb), app_nil_r. apply Permutation_refl.
Qed.

Lemma forallb_perm {A} (f : A -> bool) l l' : Permutation l l' -> forallb f l = true -> forallb f l' = true.
Proof.
  intros P H. rewrite forallb_forall in *. intros x Hx. apply H. eapply Permutation_in; [apply Permutation_sym, P | exact Hx].
Qed.

Lemma mplus_lcomm a b c : mplus a (mplus b c) = mplus b (mplus a c).
Proof. destruct a, b, c. unfold mplus. cbn. f_equal; lia. Qed.
Lemma mplus_zero_r h : mplus h mzero = h.
Proof. destruct h. unfold mplus, mzero. cbn. f_equal; lia. Qed.
Lemma mplus_assoc a b c : mplus (mplus a b) c = mplus a (mplus b c).
Proof. destruct a, b, c. unfold mplus. cbn. f_equal; lia. Qed.

Lemma sum_w_perm l l' : Permutation l l' -> sum_w l = sum_w l'.
Proof.
  induction 1; cbn [sum_w fold_right]; auto; try congruence.
  - fold (sum_w l). fold (sum_w l'). now rewrite IHPermutation.
  - apply mplus_lcomm.
Qed.

Lemma msum_sum_w h l : msum h l = mplus h (sum_w l).
Proof.
  revert h. induction l as [|x l IH]; intros h.
  - cbn. now rewrite mplus_zero_r.
  - change (msum h (x :: l)) with (msum (mplus h (ww x)) l). rewrite IH.
    change (sum_w (x :: l)) with (mplus (ww x) (sum_w l)). apply mplus_assoc.
Qed.

(* ---------- the returns of one instant are accepted ---------- *)

Definition cls (rets : list (N * bool)) (want : option bool) (p : waiter) : bool :=
  match ret_of (wid p) rets, want with
  | Some b, Some b' => Bool.eqb b b'
  | None, None => true
  | _, _ => false
  end.

Lemma nodup_map_perm {A B} (f : A -> B) l l' : Permutation l l' -> NoDup (map f l) -> NoDup (map f l').
Proof. intros P. apply Permutation_NoDup. now apply Permutation_map. Qed.

Lemma nodup_app_inv {A} (a b : list A) : NoDup (a ++ b) -> NoDup a /\ NoDup b /\ forall x, In x a -> ~ In x b.
Proof.
  induction a as [|x a IH]; cbn [app]; intros H; [split; [constructor | split; [exact H | intros ? []]]|].
  inversion H as [|? ? Hni Hn]; subst. destruct (IH Hn) as (H1 & H2 & H3). split; [|split; [exact H2|]].
  - constructor; [intros Hx; apply Hni, in_app_iff; auto | exact H1].
  - intros y [<-|Hy] Hb; [apply Hni, in_app_iff; auto | exact (H3 y Hy Hb)].
Qed.

Lemma accept_returns_ok c a t s1 s' kept granted refused rets :
  a_held a = held s1 -> a_cap a = cap s1 -> a_cap0 a = c ->
  Permutation (a_pend a) (waiting s1 ++ woken s1) -> NoDup (map wid (a_pend a)) ->
  (forall x, In x (waiting s1) ->
     fitsb (held s1) (ww x) (cap s1) = false /\ exceedsb (ww x) (cap s1) = false /\ (t < wdl x)%Z) ->
  drained c t s1 s' kept granted refused -> Permutation rets (rets_lists granted refused) ->
  (granted <> [] -> mle (held s') (cap s1)) ->
  exists a', accept_returns a t rets = Some a' /\ a_held a' = held s' /\ a_cap a' = cap s' /\ a_cap0 a' = c /\
             Permutation (a_pend a') (waiting s') /\ a_last a' = Some t /\ NoDup (map wid (a_pend a')).
Proof.
  intros Eh Ec Ec0 Pp Hnd Hw [D1 D2 D3 D4 D5 D6 D7 D8] Pr Hfit.
  set (W := waiting s1) in *.
  (* the pending list, rearranged *)
  assert (PL : Permutation (a_pend a) (W ++ kept ++ granted ++ refused)).
  { eapply perm_trans; [exact Pp|]. apply Permutation_app_head, Permutation_sym, D4. }
  pose proof (nodup_map_perm wid _ _ PL Hnd) as HndL. rewrite !map_app in HndL.
  destruct (nodup_app_inv _ _ HndL) as (HnW & HnKGF & HdW).
  destruct (nodup_app_inv _ _ HnKGF) as (HnK & HnGF & HdK).
  destruct (nodup_app_inv _ _ HnGF) as (HnG & HnF & HdG).
  assert (Hids : map fst rets = map fst rets) by reflexivity.
  assert (Pids : Permutation (map fst rets) (map wid granted ++ map wid refused)).
  { eapply perm_trans; [apply Permutation_map, Pr|]. unfold rets_lists. rewrite map_app, !map_map. cbn [fst]. apply Permutation_refl. }
  assert (Hnr : NoDup (map fst rets)) by (eapply Permutation_NoDup; [apply Permutation_sym, Pids | exact HnGF]).
  (* classification of every pending caller *)
  assert (CG : forall p, In p granted -> ret_of (wid p) rets = Some true).
  { intros p Hp. apply ret_of_in; [exact Hnr|]. eapply Permutation_in; [apply Permutation_sym, Pr|].
    unfold rets_lists. apply in_app_iff. left. apply in_map_iff. eauto. }
  assert (CF : forall p, In p refused -> ret_of (wid p) rets = Some false).
  { intros p Hp. apply ret_of_in; [exact Hnr|]. eapply Permutation_in; [apply Permutation_sym, Pr|].
    unfold rets_lists. apply in_app_iff. right. apply in_map_iff. eauto. }
  assert (CN : forall p, In p (W ++ kept) -> ret_of (wid p) rets = None).
  { intros p Hp. apply ret_of_notin. intros Hin. apply (Permutation_in _ Pids) in Hin.
    apply in_app_iff in Hp. destruct Hp as [Hp|Hp].
    - apply (HdW (wid p)); [now apply in_map|]. rewrite in_app_iff. right. exact Hin.
    - apply (HdK (wid p)); [now apply in_map | exact Hin]. }
  assert (PG : Permutation (filter (cls rets (Some true)) (a_pend a)) granted).
  { apply filter_split with (B1 := W ++ kept ++ refused).
    - eapply perm_trans; [exact PL|]. rewrite (app_assoc W kept).
      eapply perm_trans; [apply Permutation_app_swap_app|]. rewrite <- app_assoc. apply Permutation_refl.
    - intros p Hp. unfold cls. now rewrite (CG p Hp).
    - intros p Hp. unfold cls. rewrite app_assoc in Hp. apply in_app_iff in Hp. destruct Hp as [Hp|Hp];
        [now rewrite (CN p Hp) | now rewrite (CF p Hp)]. }
  assert (PF : Permutation (filter (cls rets (Some false)) (a_pend a)) refused).
  { apply filter_split with (B1 := W ++ kept ++ granted).
    - eapply perm_trans; [exact PL|]. rewrite (app_assoc kept granted), (app_assoc W).
      eapply perm_trans; [apply Permutation_app_comm|]. apply Permutation_refl.
    - intros p Hp. unfold cls. now rewrite (CF p Hp).
    - intros p Hp. unfold cls. rewrite app_assoc in Hp. apply in_app_iff in Hp. destruct Hp as [Hp|Hp];
        [now rewrite (CN p Hp) | now rewrite (CG p Hp)]. }
  assert (PN : Permutation (filter (cls rets None) (a_pend a)) (W ++ kept)).
  { apply filter_split with (B1 := granted ++ refused).
    - eapply perm_trans; [exact PL|]. rewrite (app_assoc W kept). apply Permutation_refl.
    - intros p Hp. unfold cls. now rewrite (CN p Hp).
    - intros p Hp. unfold cls. apply in_app_iff in Hp. destruct Hp as [Hp|Hp];
        [now rewrite (CG p Hp) | now rewrite (CF p Hp)]. }
  (* the ghost account after the instant *)
  assert (Eend : mplus (a_held a) (sum_w (filter (cls rets (Some true)) (a_pend a))) = held s').
  { rewrite (sum_w_perm _ _ PG), Eh, D5. symmetry. apply msum_sum_w. }
  assert (Hle1 : mle (held s1) (held s')) by (rewrite D5; apply msum_mle).
  unfold accept_returns. fold (cls rets (Some true)) (cls rets (Some false)) (cls rets None).
  change (fun p : waiter => match ret_of (wid p) rets with Some b => Bool.eqb b true | None => false end)
    with (cls rets (Some true)).
  change (fun p : waiter => match ret_of (wid p) rets with Some b => Bool.eqb b false | None => false end)
    with (cls rets (Some false)).
  change (fun p : waiter => match ret_of (wid p) rets with Some _ => false | None => true end)
    with (cls rets None).
  rewrite Eend, Ec, Ec0.
  rewrite (nodupNb_nodup _ Hnr). cbn [negb].
  replace (forallb (fun i => memNb i (map wid (a_pend a))) (map fst rets)) with true.
  2:{ symmetry. apply forallb_forall. intros i Hi. apply memNb_in. apply (Permutation_in _ Pids) in Hi.
      apply (Permutation_in (l := map wid (W ++ kept ++ granted ++ refused))); [apply Permutation_sym, Permutation_map, PL|].
      rewrite !map_app, !in_app_iff. rewrite in_app_iff in Hi. tauto. }
  cbn [negb].
  replace (fitsb (held s') mzero c) with true by (symmetry; unfold fitsb, mzero, mle in *; cbn; lia).
  cbn [negb].
  replace (match filter (cls rets (Some true)) (a_pend a) with [] => true | _ :: _ => fitsb (held s') mzero (cap s1) end) with true.
  2:{ destruct (filter (cls rets (Some true)) (a_pend a)) as [|g gs] eqn:Eg; [reflexivity|].
      assert (Hg : granted <> []) by (intros ->; apply Permutation_sym, Permutation_nil in PG; discriminate).
      specialize (Hfit Hg). symmetry. unfold fitsb, mzero, mle in *. cbn. lia. }
  cbn [negb].
  replace (forallb (fun p => negb (fitsb (held s') (ww p) (cap s1)) && (exceedsb (ww p) (cap s1) || (wdl p <=? t)%Z))
             (filter (cls rets (Some false)) (a_pend a))) with true.
  2:{ symmetry. apply (forallb_perm _ refused); [apply Permutation_sym, PF|]. apply forallb_forall.
      intros p Hp. destruct (D7 p Hp) as [H1 H2]. rewrite H1. cbn [negb andb]. destruct H2 as [H2|H2]; [rewrite H2; reflexivity | lia]. }
  cbn [negb].
  replace (forallb (fun p => negb (fitsb (held s') (ww p) (cap s1)) && negb (exceedsb (ww p) (cap s1)) && (t <? wdl p)%Z)
             (filter (cls rets None) (a_pend a))) with true.
  2:{ symmetry. apply (forallb_perm _ (W ++ kept)); [apply Permutation_sym, PN|]. apply forallb_forall.
      intros p Hp. apply in_app_iff in Hp. destruct Hp as [Hp|Hp].
      - destruct (Hw p Hp) as (H1 & H2 & H3). rewrite (fitsb_false_mono _ _ _ _ Hle1 H1), H2. cbn. lia.
      - destruct (D8 p Hp) as (H1 & H2 & H3). rewrite H1, H2. cbn. lia. }
  cbn [negb].
  eexists. split; [reflexivity|]. cbn [a_held a_cap a_cap0 a_pend a_last].
  split; [reflexivity|]. split; [now rewrite D3|]. split; [reflexivity|]. split; [|split; [reflexivity|]].
  - rewrite D2. exact PN.
  - eapply Permutation_NoDup; [apply Permutation_sym, Permutation_map, PN|]. rewrite map_app.
    clear - HnW HnK HdW. induction (map wid W) as [|x l IH]; cbn [app]; [exact HnK|].
    inversion HnW as [|? ? Hni Hn']; subst. constructor.
    + rewrite in_app_iff. intros [H|H]; [contradiction|]. apply (HdW x); [left; reflexivity|]. rewrite in_app_iff. auto.
    + apply IH; [exact Hn'|]. intros y Hy. apply HdW. right. exact Hy.
Qed.

(* ---------- the simulation relation at quiet points ---------- *)

Record rel (c : metric) (used : list N) (dls : list Z) (a : ast) (st : state) (tau : Z) : Prop := {
  r_held : a_held a = held st;
  r_cap : a_cap a = cap st;
  r_cap0 : a_cap0 a = c;
  r_pend : Permutation (a_pend a) (waiting st);
  r_woken : woken st = [];
  r_inv : inv c st;
  r_nodup : NoDup (map wid (waiting st));
  r_nofit : no_fit st;
  r_quiet : forall x, In x (waiting st) -> (tau < wdl x)%Z;
  r_last : match a_last a with Some t0 => (t0 <= tau)%Z | None => True end;
  r_used : forall x, In x (waiting st) -> In (wid x) used /\ In (wdl x) dls
}.

(* the generic instant: acceptor and model agree after the scripted call's own effect ([a1] / [s1]),
   the model's drain is summarised by [drained]; then the record is accepted and the relation holds
   again at time t *)
Lemma instant_rel c used used' dls a st tau t o a1 s1 s' kept granted refused rets :
  rel c used dls a st tau -> (tau < t)%Z ->
  accept_op a t o = Some a1 -> a_held a1 = held s1 -> a_cap a1 = cap s1 -> a_cap0 a1 = c ->
  Permutation (a_pend a1) (waiting s1 ++ woken s1) -> NoDup (map wid (a_pend a1)) ->
  (forall x, In x (waiting s1) ->
     fitsb (held s1) (ww x) (cap s1) = false /\ exceedsb (ww x) (cap s1) = false /\ (t < wdl x)%Z) ->
  (forall x, In x (waiting st) -> (t <= wdl x)%Z) ->
  drained c t s1 s' kept granted refused -> Permutation rets (rets_lists granted refused) ->
  (granted <> [] -> mle (held s') (cap s1)) -> inv c s' ->
  (forall x, In x (waiting s1 ++ kept) -> In (wid x) used' /\ In (wdl x) dls) ->
  exists a', accept_step a (mkIR t o rets) = Some a' /\ rel c used' dls a' s' t.
Proof.
  intros R Ht Eop Eh Ec Ec0 Pp Hnd Hw Hov D Pr Hfit Hinv' Hused.
  destruct (accept_returns_ok c a1 t s1 s' kept granted refused rets Eh Ec Ec0 Pp Hnd Hw D Pr Hfit)
    as (a' & Ea & Eh' & Ec' & Ec0' & Pp' & El' & Hnd').
  exists a'. split.
  - unfold accept_step. cbn [ir_t ir_op ir_rets].
    replace (match a_last a with Some t0 => negb (t0 <? t)%Z | None => false end) with false.
    2:{ pose proof (r_last _ _ _ _ _ _ R) as Hl. destruct (a_last a); [lia | reflexivity]. }
    replace (existsb (fun p => (wdl p <? t)%Z) (a_pend a)) with false.
    2:{ symmetry. apply not_true_is_false. intros H. apply existsb_exists in H. destruct H as (p & Hp & Hlt).
        apply (Permutation_in _ (r_pend _ _ _ _ _ _ R)) in Hp. specialize (Hov p Hp). lia. }
    rewrite Eop. exact Ea.
  - destruct D as [D1 D2 D3 D4 D5 D6 D7 D8].
    assert (Hle1 : mle (held s1) (held s')) by (rewrite D5; apply msum_mle).
    constructor; try assumption.
    + eapply Permutation_NoDup; [apply Permutation_map, Pp' | exact Hnd'].
    + intros x Hx. rewrite D2 in Hx. rewrite D3. apply in_app_iff in Hx. destruct Hx as [Hx|Hx].
      * destruct (Hw x Hx) as (H1 & H2 & _). split; [eapply fitsb_false_mono; eauto | exact H2].
      * destruct (D8 x Hx) as (H1 & H2 & _). auto.
    + intros x Hx. rewrite D2 in Hx. apply in_app_iff in Hx. destruct Hx as [Hx|Hx]; [apply Hw, Hx | apply D8, Hx].
    + rewrite El'. lia.
    + intros x Hx. apply Hused. rewrite D2 in Hx. exact Hx.
Qed.

(* ---------- timer instants ---------- *)

Lemma timer_instant c used dls prefer a s tau x :
  rel c used dls a (fst (fst s)) tau -> min_waiter (waiting (fst (fst s))) = Some x ->
  let s1 := drain_all true prefer (sim_step true (clear_ob s) (wdl x) (ETimer (wid x))) (wdl x) in
  exists a', accept_step a (mkIR (wdl x) None (rets_of (snd s1))) = Some a' /\
             rel c used dls a' (fst (fst s1)) (wdl x) /\
             (length (waiting (fst (fst s1))) < length (waiting (fst (fst s))))%nat.
Proof.
  intros R M. destruct s as [[st tr] ob]. cbn [fst] in *.
  destruct (min_waiter_spec _ _ M) as [Hx Hmin].
  unfold clear_ob, sim_step. cbn [fst snd step flat_map rev app].
  set (s0 := (broadcast st, (wdl x, ETimer (wid x)) :: tr, @nil sobs)).
  assert (Hinv0 : inv c (fst (fst s0))).
  { unfold s0. cbn [fst]. exact (inv_step c st (wdl x) (ETimer (wid x)) (r_inv _ _ _ _ _ _ R) I). }
  unfold drain_all.
  destruct (drain_full c prefer (wdl x) (length (woken (fst (fst s0)))) s0 Hinv0 (le_n _))
    as (Hinv' & kept & granted & refused & delta & D & Eob & Pob & Hfit).
  set (s1 := drain true prefer (length (woken (fst (fst s0)))) s0 (wdl x)) in *.
  cbn zeta. unfold s0 in Eob. cbn [snd] in Eob. rewrite app_nil_r in Eob.
  assert (Ew : woken (fst (fst s0)) = waiting st).
  { unfold s0, broadcast. cbn. now rewrite (r_woken _ _ _ _ _ _ R). }
  assert (Ewt : waiting (fst (fst s0)) = []) by reflexivity.
  assert (P1 : (tau < wdl x)%Z) by (apply (r_quiet _ _ _ _ _ _ R); exact Hx).
  assert (P2 : accept_op a (wdl x) None = Some a) by reflexivity.
  assert (P3 : a_held a = held (fst (fst s0))) by (unfold s0; cbn; apply (r_held _ _ _ _ _ _ R)).
  assert (P4 : a_cap a = cap (fst (fst s0))) by (unfold s0; cbn; apply (r_cap _ _ _ _ _ _ R)).
  assert (P5 : Permutation (a_pend a) (waiting (fst (fst s0)) ++ woken (fst (fst s0))))
    by (rewrite Ewt, Ew; cbn [app]; apply (r_pend _ _ _ _ _ _ R)).
  assert (P6 : NoDup (map wid (a_pend a)))
    by (eapply Permutation_NoDup; [apply Permutation_sym, Permutation_map, (r_pend _ _ _ _ _ _ R) | apply (r_nodup _ _ _ _ _ _ R)]).
  assert (P7 : forall y, In y (waiting (fst (fst s0))) ->
     fitsb (held (fst (fst s0))) (ww y) (cap (fst (fst s0))) = false /\ exceedsb (ww y) (cap (fst (fst s0))) = false /\ (wdl x < wdl y)%Z)
    by (rewrite Ewt; intros y []).
  assert (P8 : forall y, In y (waiting st) -> (wdl x <= wdl y)%Z) by (intros y Hy; apply Hmin, Hy).
  assert (P9 : Permutation (rets_of (snd s1)) (rets_lists granted refused)) by (rewrite Eob; exact Pob).
  assert (P10 : forall y, In y (waiting (fst (fst s0)) ++ kept) -> In (wid y) used /\ In (wdl y) dls).
  { rewrite Ewt. cbn [app]. intros y Hy. apply (r_used _ _ _ _ _ _ R). rewrite <- Ew.
    eapply Permutation_in; [exact (dr_perm _ _ _ _ _ _ _ D)|]. apply in_app_iff. left. exact Hy. }
  destruct (instant_rel c used used dls a st tau (wdl x) None a (fst (fst s0)) (fst (fst s1)) kept granted refused (rets_of (snd s1))
              R P1 P2 P3 P4 (r_cap0 _ _ _ _ _ _ R) P5 P6 P7 P8 D P9 Hfit Hinv' P10) as (a' & Ea & R').
  exists a'. split; [exact Ea|]. split; [exact R'|].
    destruct D as [D1 D2 D3 D4 D5 D6 D7 D8]. rewrite D2, Ewt. cbn [app].
    rewrite Ew in D4. pose proof (Permutation_length D4) as Hl. rewrite !app_length in Hl.
    assert (Hg : (length granted + length refused <> 0)%nat).
    { intros H0. destruct granted; [|cbn in H0; lia]. destruct refused; [|cbn in H0; lia].
      rewrite !app_nil_r in D4. apply Permutation_sym in D4.
      pose proof (Permutation_in _ D4 Hx) as Hk. destruct (D8 x Hk) as (_ & _ & H). lia. }
    lia.
Qed.

Lemma timers_accept c used dls prefer upto fuel : forall s a tau,
  rel c used dls a (fst (fst s)) tau -> (length (waiting (fst (fst s))) < fuel)%nat ->
  let '(s2, l) := fire_timers_s prefer fuel s upto in
  exists a2 tau2, accept_run a l = Some a2 /\ rel c used dls a2 (fst (fst s2)) tau2 /\
    match upto with
    | Some T => forall x, In x (waiting (fst (fst s2))) -> (T < wdl x)%Z
    | None => waiting (fst (fst s2)) = []
    end /\
    (match upto with Some T => (tau < T)%Z -> (forall d, In d dls -> d <> T) -> (tau2 < T)%Z /\ (tau <= tau2)%Z | None => True end).
Proof.
  induction fuel as [|f IH]; intros s a tau R Hlen; [lia|]. cbn [fire_timers_s].
  destruct (min_waiter (waiting (fst (fst s)))) as [x|] eqn:M.
  2:{ exists a, tau. split; [reflexivity|]. split; [exact R|]. rewrite (min_waiter_none _ M).
      split; [destruct upto; [intros y [] | reflexivity] | destruct upto; [intros; lia | exact I]]. }
  destruct (min_waiter_spec _ _ M) as [Hx Hmin].
  destruct (match upto with Some T => (wdl x <=? T)%Z | None => true end) eqn:Edue.
  2:{ exists a, tau. split; [reflexivity|]. split; [exact R|]. destruct upto as [T|]; [|discriminate].
      split; [intros y Hy; specialize (Hmin y Hy); lia | intros; lia]. }
  destruct (timer_instant c used dls prefer a s tau x R M) as (a' & Ea & R' & Hdec). cbn zeta in *.
  set (s1 := drain_all true prefer (sim_step true (clear_ob s) (wdl x) (ETimer (wid x))) (wdl x)) in *.
  specialize (IH s1 a' (wdl x) R' ltac:(lia)).
  destruct (fire_timers_s prefer f s1 upto) as [s2 l].
  destruct IH as (a2 & tau2 & Er & R2 & Hq & Hb).
  exists a2, tau2. split; [cbn [accept_run]; rewrite Ea; exact Er|]. split; [exact R2|]. split; [exact Hq|].
  destruct upto as [T|]; [|exact I]. intros HT Hgrid.
  assert (HxT : (wdl x < T)%Z).
  { assert (Hd : In (wdl x) dls) by (apply (r_used _ _ _ _ _ _ R); exact Hx). specialize (Hgrid _ Hd). lia. }
  assert (Hxq : (tau < wdl x)%Z) by (apply (r_quiet _ _ _ _ _ _ R); exact Hx).
  destruct (Hb HxT Hgrid). lia.
Qed.

(* ---------- scripted-call instants ---------- *)

Lemma nodup_snoc {A} (l : list A) x : NoDup l -> ~ In x l -> NoDup (l ++ [x]).
Proof.
  induction l as [|a l IH]; cbn [app]; intros Hn Hx.
  - constructor; [intros [] | constructor].
  - inversion Hn as [|? ? Hni Hn']; subst. constructor.
    + rewrite in_app_iff. intros [H | [H | []]]; [contradiction | subst; apply Hx; left; reflexivity].
    + apply IH; [exact Hn' | intros H; apply Hx; right; exact H].
Qed.

Lemma drain_all_nil prefer s now : woken (fst (fst s)) = [] -> drain_all true prefer s now = s.
Proof. intros H. unfold drain_all. rewrite H. reflexivity. Qed.

Lemma trivial_drained c t st : inv c st -> woken st = [] -> drained c t st st [] [] [].
Proof.
  intros Hinv Hw. constructor; cbn [app]; auto.
  - now rewrite app_nil_r.
  - rewrite Hw. constructor.
  - destruct Hinv as (_ & H & _). exact H.
  - intros x [].
  - intros x [].
Qed.

Lemma meqb_refl m : meqb m m = true.
Proof. unfold meqb. rewrite !N.eqb_refl. reflexivity. Qed.

Lemma rel_weaken_used c used used' dls a st tau :
  (forall i, In i used -> In i used') -> rel c used dls a st tau -> rel c used' dls a st tau.
Proof.
  intros H R. destruct R. constructor; auto. intros x Hx. destruct (r_used0 x Hx). auto.
Qed.

Lemma sim_step_eq s now ev st' o :
  step true (fst (fst s)) now ev = (st', o) ->
  sim_step true (clear_ob s) now ev = (st', (now, ev) :: snd (fst s), rev (flat_map (obs_of now) o)).
Proof.
  destruct s as [[st tr] ob]. unfold clear_ob. cbn [fst snd]. intros E. unfold sim_step. rewrite E. now rewrite app_nil_r.
Qed.

Lemma broadcast_instant c used dls prefer a s tau now ev st1 o opo a1 :
  rel c used dls a (fst (fst s)) tau -> (tau < now)%Z ->
  (forall x, In x (waiting (fst (fst s))) -> (now < wdl x)%Z) ->
  step true (fst (fst s)) now ev = (st1, o) -> inv c st1 ->
  waiting st1 = [] -> woken st1 = waiting (fst (fst s)) -> rets_of (rev (flat_map (obs_of now) o)) = [] ->
  accept_op a now opo = Some a1 -> a_held a1 = held st1 -> a_cap a1 = cap st1 -> a_cap0 a1 = c -> a_pend a1 = a_pend a ->
  let s2 := drain_all true prefer (sim_step true (clear_ob s) now ev) now in
  exists a', accept_step a (mkIR now opo (rets_of (snd s2))) = Some a' /\ rel c used dls a' (fst (fst s2)) now.
Proof.
  intros R Ht Hq Estep Hinv1 Ew1 Ek1 Eo Pop Ph Pc Pc0 Ppend. cbn zeta.
  rewrite (sim_step_eq s now ev st1 o Estep).
  set (s0 := (st1, (now, ev) :: snd (fst s), rev (flat_map (obs_of now) o))).
  unfold drain_all.
  destruct (drain_full c prefer now (length (woken (fst (fst s0)))) s0 Hinv1 (le_n _))
    as (Hinv' & kept & granted & refused & delta & D & Eob & Pob & Hfit).
  set (s2 := drain true prefer (length (woken (fst (fst s0)))) s0 now) in *.
  unfold s0 in Eob, D, Hfit. cbn [fst snd] in Eob, D, Hfit.
  assert (Prets : Permutation (rets_of (snd s2)) (rets_lists granted refused))
    by (rewrite Eob, rets_of_app, Eo, app_nil_r; exact Pob).
  assert (Pp : Permutation (a_pend a1) (waiting st1 ++ woken st1))
    by (rewrite Ppend, Ew1, Ek1; cbn [app]; apply R).
  assert (Pnd : NoDup (map wid (a_pend a1))).
  { rewrite Ppend. eapply Permutation_NoDup; [apply Permutation_sym, Permutation_map, (r_pend _ _ _ _ _ _ R) | apply (r_nodup _ _ _ _ _ _ R)]. }
  assert (PW : forall y, In y (waiting st1) ->
            fitsb (held st1) (ww y) (cap st1) = false /\ exceedsb (ww y) (cap st1) = false /\ (now < wdl y)%Z)
    by (rewrite Ew1; intros y []).
  assert (Hov : forall x, In x (waiting (fst (fst s))) -> (now <= wdl x)%Z) by (intros x Hx; specialize (Hq x Hx); lia).
  assert (Pu : forall y, In y (waiting st1 ++ kept) -> In (wid y) used /\ In (wdl y) dls).
  { rewrite Ew1. cbn [app]. intros y Hy. apply (r_used _ _ _ _ _ _ R). rewrite <- Ek1.
    eapply Permutation_in; [exact (dr_perm _ _ _ _ _ _ _ D)|]. apply in_app_iff. left. exact Hy. }
  exact (instant_rel c used used dls a (fst (fst s)) tau now opo a1 st1 (fst (fst s2)) kept granted refused (rets_of (snd s2))
           R Ht Pop Ph Pc Pc0 Pp Pnd PW Hov D Prets Hfit Hinv' Pu).
Qed.

Lemma op_instant c used dls prefer a s tau now op :
  rel c used dls a (fst (fst s)) tau -> (tau < now)%Z ->
  (forall x, In x (waiting (fst (fst s))) -> (now < wdl x)%Z) ->
  sop_wf op ->
  match op with SAcq id w timeout => ~ In id used /\ ((0 < timeout)%Z -> In (now + timeout)%Z dls) | _ => True end ->
  let used' := match op with SAcq id _ _ => id :: used | _ => used end in
  let st := fst (fst s) in
  match op_event now op with
  | None => exists a', accept_step a (mkIR now (Some (op, OProcB (held st))) []) = Some a' /\ rel c used' dls a' st now
  | Some ev =>
    let o := snd (step true st now ev) in
    let s2 := drain_all true prefer (sim_step true (clear_ob s) now ev) now in
    exists a', accept_step a (mkIR now (Some (op, op_obs op o)) (rets_of (snd s2))) = Some a' /\
               rel c used' dls a' (fst (fst s2)) now
  end.
Proof.
  intros R Ht Hq Hwf Hfresh. cbn zeta. set (st := fst (fst s)) in *.
  pose proof (r_inv _ _ _ _ _ _ R) as Hinv. pose proof (r_woken _ _ _ _ _ _ R) as Hwk.
  pose proof (cap_wf _ _ Hinv) as Hcw.
  assert (Hhw : m_wf (held st)) by (destruct Hinv as (Hc & Hle & _); exact (mle_wf _ _ Hc Hle)).
  assert (Hnd0 : NoDup (map wid (a_pend a)))
    by (eapply Permutation_NoDup; [apply Permutation_sym, Permutation_map, (r_pend _ _ _ _ _ _ R) | apply (r_nodup _ _ _ _ _ _ R)]).
  assert (Hov : forall x, In x (waiting st) -> (now <= wdl x)%Z) by (intros x Hx; specialize (Hq x Hx); lia).
  assert (HW : forall h, mle (held st) h -> forall x, In x (waiting st) ->
            fitsb h (ww x) (cap st) = false /\ exceedsb (ww x) (cap st) = false /\ (now < wdl x)%Z).
  { intros h Hle x Hx. destruct (r_nofit _ _ _ _ _ _ R x Hx) as [H1 H2].
    split; [eapply fitsb_false_mono; eauto | split; [exact H2 | apply Hq, Hx]]. }
  assert (Hu : forall x, In x (waiting st) -> In (wid x) used /\ In (wdl x) dls) by apply (r_used _ _ _ _ _ _ R).
  (* the shape of an instant whose first event wakes nobody *)
  assert (Hquiet : forall ev st' o, step true st now ev = (st', o) -> woken st' = [] ->
            drain_all true prefer (sim_step true (clear_ob s) now ev) now
            = (st', (now, ev) :: snd (fst s), rev (flat_map (obs_of now) o))).
  { intros ev st' o E Hw'. rewrite (sim_step_eq s now ev st' o E). apply drain_all_nil. exact Hw'. }
  destruct op as [id w timeout | w | w | | ]; cbn [op_event op_obs].
  - (* Acquire *)
    cbn [sop_wf] in Hwf. destruct Hfresh as [Hfr Hdl].
    set (x := mkW id w (now + timeout)%Z).
    assert (Hx : m_wf (ww x)) by exact Hwf.
    assert (Estep : step true st now (ECall id w now timeout) = loop_body true st now x) by reflexivity.
    rewrite (loop_body_decide c st now x Hinv Hx) in Estep. unfold decide in Estep. cbn [ww wdl wid x] in Estep.
    set (s1 := mkS (held st) (cap st) (waiting st) [x]).
    assert (Ha1 : accept_op a now (Some (SAcq id w timeout, ONoObs)) =
                  Some (mkAS (a_held a) (a_cap0 a) (a_cap a) (a_pend a ++ [x]) (a_last a))) by reflexivity.
    assert (Pp1 : Permutation (a_pend a ++ [x]) (waiting s1 ++ woken s1))
      by (unfold s1; cbn [waiting woken]; apply Permutation_app_tail, (r_pend _ _ _ _ _ _ R)).
    assert (Hnd1 : NoDup (map wid (a_pend a ++ [x]))).
    { rewrite map_app. cbn [map wid x]. apply nodup_snoc; [exact Hnd0|]. intros Hin.
      apply Hfr. apply in_map_iff in Hin. destruct Hin as (y & Hy1 & Hy2).
      apply (Permutation_in _ (r_pend _ _ _ _ _ _ R)) in Hy2. rewrite <- Hy1. apply Hu, Hy2. }
    assert (Hinv' : inv c (fst (step true st now (ECall id w now timeout)))) by (apply inv_step; assumption).
    assert (HW1 : forall y, In y (waiting s1) ->
              fitsb (held s1) (ww y) (cap s1) = false /\ exceedsb (ww y) (cap s1) = false /\ (now < wdl y)%Z)
      by (unfold s1; cbn [waiting held cap]; apply HW, mle_refl).
    assert (Hused1 : forall kept, (forall y, In y kept -> y = x /\ (now < wdl x)%Z) ->
               forall y, In y (waiting s1 ++ kept) -> In (wid y) (id :: used) /\ In (wdl y) dls).
    { intros kept Hk y Hy. unfold s1 in Hy. cbn [waiting] in Hy. apply in_app_iff in Hy. destruct Hy as [Hy|Hy].
      - destruct (Hu y Hy). split; [right|]; assumption.
      - destruct (Hk y Hy) as [-> Hlt]. split; [left; reflexivity|]. apply Hdl. cbn [wdl x] in Hlt. lia. }
    destruct (fitsb (held st) w (cap st)) eqn:Ef; [|destruct (exceedsb w (cap st) || (now + timeout <=? now)%Z) eqn:Ee];
      rewrite Estep in Hinv'; cbn [fst snd] in Hinv';
      (rewrite (Hquiet _ _ _ Estep) by (cbn [woken]; exact Hwk)); cbn [fst snd rets_of flat_map obs_of rev app].
    + eapply (instant_rel c used (id :: used) dls a st tau now _ _ s1 _ [] [x] [] [(id, true)] R Ht Ha1);
        cbn [a_held a_cap a_cap0 a_pend]; try (apply R); try assumption.
      * constructor; cbn [woken waiting held cap app s1]; auto.
        -- now rewrite app_nil_r.
        -- destruct Hinv' as (_ & H & _). exact H.
        -- intros y []. -- intros y [].
      * apply Permutation_refl.
      * intros _. cbn [held cap s1]. apply fitsb_spec in Ef. destruct Ef. unfold mle, mplus. cbn. lia.
      * apply Hused1. intros y [].
    + eapply (instant_rel c used (id :: used) dls a st tau now _ _ s1 _ [] [] [x] [(id, false)] R Ht Ha1);
        cbn [a_held a_cap a_cap0 a_pend]; try (apply R); try assumption.
      * constructor; cbn [woken waiting held cap app s1]; auto.
        -- now rewrite app_nil_r.
        -- destruct Hinv' as (_ & H & _). exact H.
        -- intros y [<-|[]]. cbn [ww wdl x]. split; [exact Ef|]. apply orb_true_iff in Ee. destruct Ee as [Ee|Ee]; [left; exact Ee | right; lia].
        -- intros y [].
      * apply Permutation_refl.
      * intros H. now contradiction H.
      * apply Hused1. intros y [].
    + apply orb_false_iff in Ee. destruct Ee as [Ee1 Ee2].
      eapply (instant_rel c used (id :: used) dls a st tau now _ _ s1 _ [x] [] [] [] R Ht Ha1);
        cbn [a_held a_cap a_cap0 a_pend]; try (apply R); try assumption.
      * constructor; cbn [woken waiting held cap app s1]; auto.
        -- destruct Hinv' as (_ & H & _). exact H.
        -- intros y [].
        -- intros y [<-|[]]. cbn [ww wdl x]. split; [exact Ef|]. split; [exact Ee1 | lia].
      * apply Permutation_refl.
      * intros H. now contradiction H.
      * apply Hused1. intros y [<-|[]]. split; [reflexivity | cbn [wdl x]; lia].
  - (* TryAcquire *)
    cbn [sop_wf] in Hwf.
    assert (Estep : step true st now (ETry w) =
              if fitsb (held st) w (cap st)
              then (mkS (mplus (held st) w) (cap st) (waiting st) (woken st), [OTry true]) else (st, [OTry false])).
    { cbn [step]. rewrite (try_acquire_exact _ _ _ Hhw Hwf Hcw). destruct (fitsb (held st) w (cap st)); reflexivity. }
    assert (Hinv1 : inv c (fst (step true st now (ETry w)))) by (apply inv_step; assumption).
    destruct (fitsb (held st) w (cap st)) eqn:Ef; rewrite Estep in Hinv1 |- *; cbn [fst snd] in Hinv1 |- *;
      (rewrite (Hquiet _ _ _ Estep) by (cbn [woken]; exact Hwk)); cbn [fst snd rets_of flat_map obs_of rev app].
    + set (s1 := mkS (mplus (held st) w) (cap st) (waiting st) (woken st)) in *.
      assert (Pop : accept_op a now (Some (STry w, OTryB true)) =
                    Some (mkAS (mplus (a_held a) w) (a_cap0 a) (a_cap a) (a_pend a) (a_last a)))
        by (cbn [accept_op]; rewrite (r_held _ _ _ _ _ _ R), (r_cap _ _ _ _ _ _ R), Ef; reflexivity).
      assert (Pp : Permutation (a_pend a) (waiting s1 ++ woken s1))
        by (unfold s1; cbn [waiting woken]; rewrite Hwk, app_nil_r; apply R).
      assert (PW : forall y, In y (waiting s1) ->
                fitsb (held s1) (ww y) (cap s1) = false /\ exceedsb (ww y) (cap s1) = false /\ (now < wdl y)%Z)
        by (unfold s1; cbn [waiting held cap]; apply HW, mle_mplus).
      assert (Pu : forall y, In y (waiting s1 ++ []) -> In (wid y) used /\ In (wdl y) dls)
        by (unfold s1; cbn [waiting]; rewrite app_nil_r; exact Hu).
      refine (instant_rel c used used dls a st tau now _ _ s1 s1 [] [] [] [] R Ht Pop _ _ (r_cap0 _ _ _ _ _ _ R)
                Pp Hnd0 PW Hov (trivial_drained c now s1 Hinv1 Hwk) (Permutation_refl _) _ Hinv1 Pu).
      * cbn [a_held]. unfold s1. cbn [held]. now rewrite (r_held _ _ _ _ _ _ R).
      * cbn [a_cap]. apply R.
      * intros H. now contradiction H.
    + assert (Pop : accept_op a now (Some (STry w, OTryB false)) =
                    Some (mkAS (a_held a) (a_cap0 a) (a_cap a) (a_pend a) (a_last a)))
        by (cbn [accept_op]; rewrite (r_held _ _ _ _ _ _ R), (r_cap _ _ _ _ _ _ R), Ef; reflexivity).
      assert (Pp : Permutation (a_pend a) (waiting st ++ woken st)) by (rewrite Hwk, app_nil_r; apply R).
      assert (Pu : forall y, In y (waiting st ++ []) -> In (wid y) used /\ In (wdl y) dls) by (rewrite app_nil_r; exact Hu).
      refine (instant_rel c used used dls a st tau now _ _ st st [] [] [] [] R Ht Pop (r_held _ _ _ _ _ _ R) (r_cap _ _ _ _ _ _ R)
                (r_cap0 _ _ _ _ _ _ R) Pp Hnd0 (HW _ (mle_refl _)) Hov (trivial_drained c now st Hinv Hwk) (Permutation_refl _) _ Hinv Pu).
      intros H. now contradiction H.
  - (* Release *)
    cbn [sop_wf] in Hwf.
    assert (Hinv1 : inv c (fst (step true st now (ERelease w)))) by (apply inv_step; assumption).
    cbn [step] in Hinv1 |- *. unfold release in Hinv1 |- *.
    destruct (mlt_any (held st) w) eqn:El; cbn [fst snd] in Hinv1 |- *.
    + eapply (broadcast_instant c used dls prefer a s tau now (ERelease w) _ [OWarn (held st) w]
                (Some (SRel w, ORelB (Some (held st, w)))) (mkAS mzero (a_cap0 a) (a_cap a) (a_pend a) (a_last a)) R Ht Hq).
      * cbn [step]. unfold release. fold st. rewrite El. reflexivity.
      * exact Hinv1.
      * reflexivity.
      * cbn [broadcast woken waiting]. fold st. now rewrite Hwk.
      * reflexivity.
      * cbn [accept_op]. rewrite (r_held _ _ _ _ _ _ R). fold st. rewrite El, !meqb_refl. reflexivity.
      * reflexivity.
      * cbn [a_cap broadcast cap]. apply R.
      * apply R.
      * reflexivity.
    + eapply (broadcast_instant c used dls prefer a s tau now (ERelease w) _ []
                (Some (SRel w, ORelB None)) (mkAS (msub (a_held a) w) (a_cap0 a) (a_cap a) (a_pend a) (a_last a)) R Ht Hq).
      * cbn [step]. unfold release. fold st. rewrite El. reflexivity.
      * exact Hinv1.
      * reflexivity.
      * cbn [broadcast woken waiting]. fold st. now rewrite Hwk.
      * reflexivity.
      * cbn [accept_op]. rewrite (r_held _ _ _ _ _ _ R). fold st. rewrite El. reflexivity.
      * cbn [a_held broadcast held]. now rewrite (r_held _ _ _ _ _ _ R).
      * cbn [a_cap broadcast cap]. apply R.
      * apply R.
      * reflexivity.
  - (* Terminate *)
    assert (Hinv1 : inv c (fst (step true st now ETerminate))) by (apply inv_step; [assumption | exact I]).
    eapply (broadcast_instant c used dls prefer a s tau now ETerminate _ []
              (Some (STerm, ONoObs)) (mkAS (a_held a) (a_cap0 a) mzero (a_pend a) (a_last a)) R Ht Hq).
    + reflexivity.
    + exact Hinv1.
    + reflexivity.
    + cbn [broadcast woken waiting]. fold st. now rewrite Hwk.
    + reflexivity.
    + reflexivity.
    + cbn [a_held broadcast held]. apply R.
    + reflexivity.
    + apply R.
    + reflexivity.
  - (* Processing *)
    assert (Pop : accept_op a now (Some (SProc, OProcB (held st))) = Some a)
      by (cbn [accept_op]; rewrite (r_held _ _ _ _ _ _ R), meqb_refl; reflexivity).
    assert (Pp : Permutation (a_pend a) (waiting st ++ woken st)) by (rewrite Hwk, app_nil_r; apply R).
    assert (Pu : forall y, In y (waiting st ++ []) -> In (wid y) used /\ In (wdl y) dls) by (rewrite app_nil_r; exact Hu).
    refine (instant_rel c used used dls a st tau now _ _ st st [] [] [] [] R Ht Pop (r_held _ _ _ _ _ _ R) (r_cap _ _ _ _ _ _ R)
              (r_cap0 _ _ _ _ _ _ R) Pp Hnd0 (HW _ (mle_refl _)) Hov (trivial_drained c now st Hinv Hwk) (Permutation_refl _) _ Hinv Pu).
    intros H. now contradiction H.
Qed.

(* ---------- whole scripts ---------- *)

Lemma accept_run_app l1 : forall a l2,
  accept_run a (l1 ++ l2) = match accept_run a l1 with Some a' => accept_run a' l2 | None => None end.
Proof.
  induction l1 as [|r l1 IH]; intros a l2; cbn [app accept_run]; [reflexivity|].
  destruct (accept_step a r); [apply IH | reflexivity].
Qed.

Lemma instant_s_accept c used dls prefer a s tau now op :
  rel c used dls a (fst (fst s)) tau -> (tau < now)%Z -> (forall d, In d dls -> d <> now) ->
  sop_wf op ->
  match op with SAcq id w timeout => ~ In id used /\ ((0 < timeout)%Z -> In (now + timeout)%Z dls) | _ => True end ->
  let used' := match op with SAcq id _ _ => id :: used | _ => used end in
  let '(s1, l) := sim_instant_s prefer s now op in
  exists a1, accept_run a l = Some a1 /\ rel c used' dls a1 (fst (fst s1)) now.
Proof.
  intros R Ht Hgrid Hwf Hfresh. cbn zeta. unfold sim_instant_s.
  pose proof (timers_accept c used dls prefer (Some now) (S (length (waiting (fst (fst s))))) s a tau R (Nat.lt_succ_diag_r _)) as HT.
  destruct (fire_timers_s prefer (S (length (waiting (fst (fst s))))) s (Some now)) as [s1 l].
  destruct HT as (a2 & tau2 & Er & R2 & Hq & Hb). destruct (Hb Ht Hgrid) as [Ht2 _].
  pose proof (op_instant c used dls prefer a2 s1 tau2 now op R2 Ht2 Hq Hwf Hfresh) as Hop. cbn zeta in Hop.
  destruct (op_event now op) as [ev|].
  - destruct Hop as (a' & Ea & R'). exists a'. split; [|exact R'].
    rewrite accept_run_app, Er. cbn [accept_run]. now rewrite Ea.
  - destruct Hop as (a' & Ea & R'). exists a'. split; [|exact R'].
    rewrite accept_run_app, Er. cbn [accept_run]. now rewrite Ea.
Qed.

Lemma script_accept c dls prefer sc : forall s a tau used,
  rel c used dls a (fst (fst s)) tau -> times_inc tau sc ->
  NoDup (acq_ids sc) -> (forall i, In i (acq_ids sc) -> ~ In i used) ->
  (forall x, In x sc -> sop_wf (snd x)) ->
  (forall t id w timeout, In (t, SAcq id w timeout) sc -> (0 < timeout)%Z -> In (t + timeout)%Z dls) ->
  (forall d x, In d dls -> In x sc -> fst x <> d) ->
  exists a', accept_run a (sim_script_s prefer s sc) = Some a' /\ a_pend a' = [].
Proof.
  induction sc as [|[now op] sc IH]; intros s a tau used R Hinc Hnd Hfr Hwf Hdl Hgrid; cbn [sim_script_s].
  - pose proof (timers_accept c used dls prefer None (S (length (waiting (fst (fst s))))) s a tau R (Nat.lt_succ_diag_r _)) as HT.
    destruct (fire_timers_s prefer (S (length (waiting (fst (fst s))))) s None) as [s2 l]. cbn [snd].
    destruct HT as (a2 & tau2 & Er & R2 & Hq & _). exists a2. split; [exact Er|].
    pose proof (r_pend _ _ _ _ _ _ R2) as P. rewrite Hq in P. apply Permutation_sym in P. now apply Permutation_nil in P.
  - destruct Hinc as [Ht Hinc'].
    assert (Hfresh : match op with SAcq id w timeout => ~ In id used /\ ((0 < timeout)%Z -> In (now + timeout)%Z dls) | _ => True end).
    { destruct op as [id w timeout| | | |]; try exact I. split.
      - apply Hfr. cbn [acq_ids flat_map snd]. left. reflexivity.
      - intros Hpos. eapply Hdl; [left; reflexivity | exact Hpos]. }
    pose proof (instant_s_accept c used dls prefer a s tau now op R Ht
                  (fun d Hd => not_eq_sym (Hgrid d (now, op) Hd (or_introl eq_refl)))
                  (Hwf (now, op) (or_introl eq_refl)) Hfresh) as HI. cbn zeta in HI.
    destruct (sim_instant_s prefer s now op) as [s1 l].
    destruct HI as (a1 & Er & R1).
    set (used' := match op with SAcq id _ _ => id :: used | _ => used end) in *.
    assert (Hnd' : NoDup (acq_ids sc) /\ forall i, In i (acq_ids sc) -> ~ In i used').
    { cbn [acq_ids flat_map snd] in Hnd, Hfr. fold (acq_ids sc) in Hnd, Hfr.
      destruct op as [id w timeout| | | |]; cbn [app] in Hnd, Hfr; unfold used';
        try (split; [exact Hnd | intros i Hi; apply Hfr; exact Hi]).
      inversion Hnd as [|? ? Hni Hnd']; subst. split; [exact Hnd'|].
      intros i Hi [E|Hu]; [subst; contradiction | exact (Hfr i (or_intror Hi) Hu)]. }
    destruct Hnd' as [Hnd' Hfr'].
    destruct (IH s1 a1 now used' R1 Hinc' Hnd' Hfr' (fun x Hx => Hwf x (or_intror Hx))
                (fun t id w timeout Hx => Hdl t id w timeout (or_intror Hx))
                (fun d x Hd Hx => Hgrid d x Hd (or_intror Hx))) as (a' & Er' & Hp').
    exists a'. split; [|exact Hp']. rewrite accept_run_app, Er. exact Er'.
Qed.

Lemma pos_deadlines_in t id w timeout sc :
  In (t, SAcq id w timeout) sc -> (0 < timeout)%Z -> In (t + timeout)%Z (pos_deadlines sc).
Proof.
  intros Hin Hpos. unfold pos_deadlines. apply in_flat_map. exists (t, SAcq id w timeout). split; [exact Hin|].
  cbn [snd fst]. replace (0 <? timeout)%Z with true by lia. left. reflexivity.
Qed.

(* The acceptor accepts everything the model's replay scheduler does, for every well-formed script and
   every order in which woken callers get the mutex. *)
Theorem model_meets_spec c prefer t0 sc :
  m_wf c -> script_wf t0 sc -> accept c (simulate_stream c prefer sc) = true.
Proof.
  intros Hc (Hinc & Hnd & Hwf & Hgrid). unfold accept, simulate_stream.
  assert (R0 : rel c [] (pos_deadlines sc) (mkAS mzero c c [] None) (fst (fst (init c, @nil (Z * event), @nil sobs))) t0).
  { cbn [fst]. constructor; cbn; auto.
    - now apply inv_init. - constructor. - intros x []. - intros x []. - intros x []. }
  destruct (script_accept c (pos_deadlines sc) prefer sc (init c, [], []) _ t0 [] R0 Hinc Hnd (fun i _ H => H) Hwf
              (fun t id w timeout => pos_deadlines_in t id w timeout sc)
              (fun d x Hd Hx => Hgrid d x Hd Hx)) as (a' & Er & Hp).
  rewrite Er, Hp. reflexivity.
Qed.
