(* C14: invariants of the (repaired) ordering-buffer model, part 3: PushEvent, spill, Clear,
   and the invariant over every operation sequence. *)
From Coq Require Import NArith List Bool Lia Arith.
From LV Require Import model.Buffer spec.BufferSpec proofs.BufferInv proofs.BufferPush.
Import ListNotations.
Local Open Scope N_scope.

Lemma NoDup_app_remove_l : forall {A} (a b : list A), NoDup (a ++ b) -> NoDup b.
Proof. intros A a b; induction a as [|x a IH]; simpl; auto. intros H; inversion H; auto. Qed.
Lemma NoDup_app_snoc : forall {A} (l : list A) x, NoDup l -> ~ In x l -> NoDup (l ++ [x]).
Proof.
  intros A l x; induction l as [|a l IH]; simpl; intros H N.
  - constructor; auto.
  - inversion H; subst. constructor.
    + intros Hi. apply in_app_or in Hi. destruct Hi as [Hi|[Hi|[]]]; [auto | subst; apply N; left; auto].
    + apply IH; auto.
Qed.

Section WithOracles.
  Variable fc fp : list out -> entry -> bool.
  Variable limN limS : N.

  (* ---------- spill *)
  Lemma over_nil : over limN limS [] = false.
  Proof. unfold over, total_num, total_size; simpl. destruct limN, limS; reflexivity. Qed.
  Lemma spill_split_app : forall l sp k, spill_split limN limS l = (sp, k) ->
    l = sp ++ k /\ over limN limS k = false.
  Proof.
    induction l as [|y r IH]; simpl; intros sp k H.
    - inversion H; subst. split; auto using over_nil.
    - destruct (over limN limS (y :: r)) eqn:O.
      + destruct (spill_split limN limS r) as [sp' k'] eqn:E. inversion H; subst.
        destruct (IH sp' k eq_refl) as [A B]. split; [simpl; f_equal; auto | auto].
      + inversion H; subst. split; auto.
  Qed.

  Lemma released_release : forall s x, In (cid x) (released (release s x)).
  Proof.
    intros s x. unfold release. destruct (memN (cid x) (released s)) eqn:M.
    - apply memN_In; auto.
    - simpl; auto.
  Qed.
  Lemma release_proj : forall s x,
    inc (release s x) = inc s /\ next (release s x) = next s /\ oof (release s x) = oof s
    /\ connected (release s x) = connected s.
  Proof. intros s x. unfold release. destruct (memN (cid x) (released s)); simpl; auto. Qed.

  Lemma spill_fold : forall cs, wf_cs cs -> forall sp sa,
    Inv cs [] sa -> (forall y, In y sp -> In y cs /\ ~ In y (inc sa)) ->
    let sb := fold_left spill_one sp sa in
    Inv cs [] sb /\ evolves sa sb /\ inc sb = inc sa /\ oof sb = oof sa
    /\ connected sb = connected sa
    /\ forall y, In y sp -> In (cid y) (released sb).
  Proof.
    intros cs W sp. induction sp as [|y sp IH]; intros sa I H; simpl.
    - split; auto. split; [apply evolves_refl|]. split; auto. split; auto. split; auto. intros y [].
    - destruct (H y (or_introl eq_refl)) as [Hy Ny].
      assert (I1 : Inv cs [] (spill_one sa y)).
      { unfold spill_one. apply Inv_release with (p := []); auto using incl_refl.
        - eapply Inv_same_core; [apply same_core_drop | auto].
        - destruct (drop_core sa (cid y) 4) as [E1 _]. rewrite E1. intros; contradiction. }
      assert (E1 : evolves sa (spill_one sa y)).
      { unfold spill_one. eapply evolves_trans; [apply evolves_same_core, same_core_drop | apply evolves_release]. }
      assert (P1 : inc (spill_one sa y) = inc sa /\ oof (spill_one sa y) = oof sa
                   /\ connected (spill_one sa y) = connected sa).
      { unfold spill_one. destruct (release_proj (drop sa (cid y) 4) y) as [A [_ [B C]]].
        destruct (drop_core sa (cid y) 4) as [D1 [D2 [_ [_ [_ D6]]]]]. rewrite A, B, C. auto. }
      destruct P1 as [P1 [P2 P3]].
      destruct (IH (spill_one sa y) I1) as [I2 [E2 [Q1 [Q2 [Q3 Q4]]]]].
      { intros z Hz. rewrite P1. apply H; right; auto. }
      split; auto. split; [eapply evolves_trans; eauto|].
      split; [congruence|]. split; [congruence|]. split; [congruence|].
      intros z [Hz|Hz]; auto. subst. apply E2. unfold spill_one. apply released_release.
  Qed.

  Lemma spill_ok : forall cs s, wf_cs cs -> Inv cs [] s -> Cover cs s ->
    let s' := spill limN limS s in
    Inv cs [] s' /\ Cover cs s' /\ over limN limS (inc s') = false /\ oof s' = oof s
    /\ connected s' = connected s /\ incl (inc s') (inc s).
  Proof.
    intros cs s W I C. unfold spill. destruct (spill_split limN limS (inc s)) as [sp k] eqn:E.
    destruct (spill_split_app _ _ _ E) as [A B].
    assert (Nd : NoDup (inc s)).
    { apply NoDup_map_inv with (f := eid). apply (inv_nodup _ _ _ I). }
    rewrite A in Nd.
    assert (I0 : Inv cs [] (set_inc s k)).
    { destruct I. constructor; simpl; auto.
      - intros y Hy. apply inv_inc_cs. rewrite A. apply in_or_app; auto.
      - rewrite A, map_app in inv_nodup. apply NoDup_app_remove_l in inv_nodup. auto.
      - intros y Hy. apply inv_pend. rewrite A. apply in_or_app; auto. }
    destruct (spill_fold cs W sp (set_inc s k) I0) as [I1 [E1 [P1 [P2 [P3 P4]]]]].
    { intros y Hy. split.
      - apply (inv_inc_cs _ _ _ I). rewrite A. apply in_or_app; auto.
      - simpl. intros Hk. revert Hy Hk. clear -Nd. induction sp as [|a sp IH]; simpl in *; [tauto|].
        inversion Nd; subst. intros [Hy|Hy] Hk.
        + subst. apply H1. apply in_or_app; auto.
        + apply IH; auto. }
    split; auto. split; [|split; [rewrite P1; exact B | split; [rewrite P2; reflexivity|]]].
    - intros x Hx. destruct (C x Hx) as [Hi|Hr].
      + rewrite A in Hi. apply in_app_or in Hi. destruct Hi as [Hi|Hi].
        * right. apply P4; auto.
        * left. rewrite P1. simpl. auto.
      + right. apply E1. simpl. auto.
    - split; [rewrite P3; reflexivity|]. rewrite P1. simpl. rewrite A. apply incl_appr, incl_refl.
  Qed.

  (* ---------- the outermost pushEvent call of a PushEvent *)
  Lemma push_top_ok : forall cs s x0,
    wf_cs cs -> Inv cs [] s -> In x0 cs -> ~ In (cid x0) (released s) ->
    (forall y, In y (inc s) -> eid y <> eid x0) ->
    forall cs0, Cover cs0 s ->
    let s1 := fst (push_rec fc fp true (S (length (inc s))) s x0 None false) in
    Inv cs [] s1 /\ Cover (x0 :: cs0) s1 /\ oof s1 = oof s /\ next s1 = next s.
  Proof.
    intros cs s x0 W I Hx Nr Hfresh cs0 C. cbv zeta. rewrite push_rec_S.
    assert (Nx : ~ In x0 (inc s)) by (intros H; apply (Hfresh _ H); reflexivity).
    destruct (is_connected s (eid x0)) eqn:Ec.
    - cbn [fst].
      set (s1 := drop (remove_inc s (eid x0)) (cid x0) 1).
      assert (I1 : Inv cs [] s1).
      { eapply Inv_same_core; [apply same_core_drop|]. apply Inv_remove_inc'; auto. }
      assert (E01 : evolves s s1).
      { eapply evolves_trans; [|apply evolves_same_core, same_core_drop].
        unfold evolves; simpl. repeat split; auto using incl_refl.
        - intros y Hy. apply filter_In in Hy; tauto.
        - intros y Hy. left. apply filter_In. split; auto.
          destruct (eid y =? eid x0) eqn:E; auto. apply N.eqb_eq in E. exfalso. eapply Hfresh; eauto. }
      assert (P : inc s1 = inc (remove_inc s (eid x0)) /\ next s1 = next s /\ oof s1 = oof s).
      { unfold s1. destruct (drop_core (remove_inc s (eid x0)) (cid x0) 1) as [D1 [_ [_ [_ [D5 D6]]]]].
        rewrite D1, D5, D6. simpl. auto. }
      destruct P as [P1 [P2 P3]]. destruct (release_proj s1 x0) as [R1 [R2 [R3 _]]].
      split; [|split; [|split; congruence]].
      + apply Inv_release with (p := []); auto using incl_refl.
        rewrite P1. simpl. intros H. apply filter_In in H. tauto.
      + intros x [Hx0|Hx0].
        * subst. right. apply released_release.
        * eapply Cover_evolves; [exact C | | exact Hx0].
          eapply evolves_trans; [exact E01 | apply evolves_release].
    - destruct (negb (complete s x0)) eqn:Ecm.
      + (* incomplete: Add *)
        cbn [fst]. split; [|split; [|split; reflexivity]].
        * destruct I as [Inx Iic Ind Irel Ird Irc Icn Ipr Ipend Ilog]. constructor; simpl; auto.
          -- intros y Hy. apply in_app_or in Hy. destruct Hy as [Hy|[Hy|[]]]; subst; auto.
          -- rewrite map_app. simpl. apply NoDup_app_snoc; auto.
             intros H. apply in_map_iff in H. destruct H as [y [E Hy]]. eapply Hfresh; eauto.
          -- intros y Hy Hr. apply in_app_or in Hy. destruct Hy as [Hy|[Hy|[]]].
             ++ apply (Ipend y); auto.
             ++ subst y. exfalso. apply Nr. exact Hr.
        * intros x [Hx0|Hx0].
          -- subst. left. simpl. apply in_or_app; right; left; auto.
          -- destruct (C x Hx0) as [H|H]; [left; simpl; apply in_or_app; auto | right; auto].
      + apply negb_false_iff in Ecm.
        destruct (process_release fc fp cs [] [] s x0 W I Hx Nr Ecm) as [I2 [Ei [Er [En Eo]]]];
          [apply incl_refl | intros H; contradiction |].
        destruct (process_complete fc fp s x0) as [sp ok] eqn:Epc. cbn [fst] in *.
        set (s2 := release sp x0) in *.
        assert (E02 : evolves s s2).
        { unfold evolves. rewrite Ei, Er, En. repeat split; auto using incl_refl, incl_tl. }
        assert (L : let s3 := if ok then fold_left (body fc fp (length (inc s)) x0 (inc s2)) (inc s2) s2 else s2 in
                    Inv cs [] s3 /\ evolves s2 s3 /\ oof s3 = oof s2).
        { destruct ok.
          - apply loop_ok; auto using incl_refl, repush_ok.
            + intros y Hy; left; auto.
            + rewrite <- Ei. apply unrel_le_len.
          - split; auto. split; auto using evolves_refl. }
        cbv zeta in L. destruct L as [I3 [E23 O3]].
        change (fold_left
                  (fun sa child =>
                     if memN (eid x0) (pars child) && negb (true && memN (cid child) (released sa))
                     then fst (push_rec fc fp true (length (inc s)) sa child (Some (inc s2)) true) else sa)
                  (inc s2) s2)
          with (fold_left (body fc fp (length (inc s)) x0 (inc s2)) (inc s2) s2).
        set (s3 := if ok then fold_left (body fc fp (length (inc s)) x0 (inc s2)) (inc s2) s2 else s2) in *.
        assert (E34 : evolves s3 (remove_inc s3 (eid x0))).
        { unfold evolves; simpl. repeat split; auto using incl_refl.
          - intros y Hy. apply filter_In in Hy; tauto.
          - intros y Hy. left. apply filter_In. split; auto.
            destruct (eid y =? eid x0) eqn:E; auto. apply N.eqb_eq in E. exfalso.
            eapply Hfresh; [|exact E]. rewrite <- Ei. apply E23. exact Hy. }
        split; [apply Inv_remove_inc'; auto|]. split; [|split; simpl].
        * intros x [Hx0|Hx0].
          -- subst. right. simpl. apply E23. rewrite Er. left; auto.
          -- eapply Cover_evolves; [exact C | | exact Hx0].
             eapply evolves_trans; [exact E02|]. eapply evolves_trans; [exact E23 | exact E34].
        * congruence.
        * destruct E23 as [_ [_ [_ E]]]. rewrite E. exact En.
  Qed.
End WithOracles.

(* ---------- whole operations and operation sequences *)
Lemma copies_from_app : forall a b n,
  copies_from n (a ++ b) = copies_from n a ++ copies_from (n + N.of_nat (length (copies_from n a))) b.
Proof.
  induction a as [|o a IH]; intros b n.
  - simpl. rewrite N.add_0_r. reflexivity.
  - destruct o; simpl; rewrite IH; auto. f_equal. f_equal. f_equal.
    change (N.pos (Pos.of_succ_nat (length (copies_from (n + 1) a))))
      with (N.of_nat (S (length (copies_from (n + 1) a)))).
    rewrite Nat2N.inj_succ. rewrite <- N.add_1_l. rewrite N.add_assoc. reflexivity.
Qed.

Lemma over_false : forall limN limS l, over limN limS l = false ->
  total_num l <= limN /\ total_size l <= limS.
Proof.
  intros limN limS l H. unfold over in H. apply orb_false_iff in H. destruct H as [A B].
  apply N.ltb_ge in A. apply N.ltb_ge in B. auto.
Qed.
Lemma over00_nil : forall l, over 0 0 l = false -> l = [].
Proof.
  intros [|y r] H; auto. apply over_false in H. destruct H as [A _].
  unfold total_num in A. simpl length in A. lia.
Qed.

Section Run.
  Variable fc fp : list out -> entry -> bool.
  Variable limN limS : N.

  Definition RunInv (cs : list entry) (s : st) : Prop :=
    wf_cs cs /\ Inv cs [] s /\ Cover cs s /\ oof s = false /\ over limN limS (inc s) = false.

  Lemma Inv_bump_snoc : forall cs s x0, Inv cs [] s -> Inv (cs ++ [x0]) [] (bump s).
  Proof.
    intros cs s x0 [Inx Iic Ind Irel Ird Irc Icn Ipr Ipend Ilog]. constructor; simpl; auto.
    - rewrite app_length. simpl. lia.
    - intros y Hy. apply in_or_app; auto.
    - intros c Hc. destruct (Irc c Hc) as [x [A B]]. exists x; split; auto. apply in_or_app; auto.
    - apply log_wf_snoc; auto.
  Qed.

  Lemma push_event_ok : forall cs s e ps sz,
    RunInv cs s ->
    RunInv (cs ++ [mkEntry (next s) e ps sz]) (push_event fc fp true limN limS s e ps sz).
  Proof.
    intros cs s e ps sz [W [I [C [O V]]]]. set (x0 := mkEntry (next s) e ps sz).
    assert (Ecid : cid x0 = N.of_nat (length cs)) by (simpl; apply (inv_next _ _ _ I)).
    pose proof (inv_next _ _ _ I) as Enx.
    assert (W' : wf_cs (cs ++ [x0])) by (apply wf_cs_snoc; auto).
    assert (I' : Inv (cs ++ [x0]) [] (bump s)) by (apply Inv_bump_snoc; auto).
    assert (Hx : In x0 (cs ++ [x0])) by (apply in_or_app; right; left; auto).
    assert (Nr : ~ In (cid x0) (released (bump s))).
    { simpl. intros H. destruct (inv_rel_cs _ _ _ I _ H) as [x [A B]].
      pose proof (wf_cs_bound cs x W A). simpl in *. lia. }
    assert (Nx : ~ In x0 (inc (bump s))).
    { simpl. intros H. pose proof (wf_cs_bound cs x0 W (inv_inc_cs _ _ _ I _ H)). simpl in *. lia. }
    assert (C' : Cover cs (bump s)) by exact C.
    unfold push_event. fold x0.
    destruct (existsb (fun y => eid y =? e) (inc (bump s))) eqn:Dup.
    - (* duplicate *)
      set (s1 := drop (bump s) (cid x0) 5).
      destruct (drop_core (bump s) (cid x0) 5) as [D1 [D2 [D3 [D4 [D5 D6]]]]]. fold s1 in D1, D2, D3, D4, D5, D6.
      assert (I1 : Inv (cs ++ [x0]) [] s1) by (eapply Inv_same_core; [apply same_core_drop | auto]).
      destruct (release_proj s1 x0) as [R1 [R2 [R3 R4]]].
      split; auto. split; [|split; [|split]].
      + apply Inv_emit_quiet; simpl; auto.
        apply Inv_release with (p := []); auto using incl_refl. rewrite D1. intros H; contradiction.
      + intros x Hx'. apply in_app_or in Hx'. destruct Hx' as [Hx'|[Hx'|[]]].
        * assert (Cover cs (release s1 x0)).
          { eapply Cover_evolves; [exact C'|].
            eapply evolves_trans; [apply evolves_same_core, same_core_drop | apply evolves_release]. }
          destruct (H x Hx'); [left | right]; simpl; auto.
        * subst x. right. exact (released_release s1 x0).
      + simpl. rewrite R3, D6. exact O.
      + simpl. rewrite R1, D1. exact V.
    - (* not a duplicate: pushEvent, spill *)
      assert (Hfresh : forall y, In y (inc (bump s)) -> eid y <> eid x0).
      { intros y Hy E. assert (existsb (fun y => eid y =? e) (inc (bump s)) = true); [|congruence].
        apply existsb_exists. exists y; split; auto. simpl in E. rewrite E. apply N.eqb_refl. }
      destruct (push_top_ok fc fp (cs ++ [x0]) (bump s) x0 W' I' Hx Nr Hfresh cs C') as [I1 [C1 [O1 N1]]].
      destruct (push_rec fc fp true (S (length (inc (bump s)))) (bump s) x0 None false) as [s1 ok] eqn:Epr.
      cbn [fst] in *.
      assert (C1' : Cover (cs ++ [x0]) s1).
      { intros x Hx'. apply C1. apply in_app_or in Hx'. destruct Hx' as [Hx'|[Hx'|[]]]; [right|left]; auto. }
      destruct (spill_ok limN limS (cs ++ [x0]) s1 W' I1 C1') as [I2 [C2 [V2 [O2 _]]]].
      split; auto. split; [|split; [|split]].
      + apply Inv_emit_quiet; simpl; auto.
      + intros x Hx'. destruct (C2 x Hx'); [left|right]; simpl; auto.
      + simpl. rewrite O2, O1. exact O.
      + simpl. exact V2.
  Qed.

  Lemma clear_buf_ok : forall cs s, RunInv cs s ->
    RunInv cs (clear_buf s) /\ inc (clear_buf s) = [].
  Proof.
    intros cs s [W [I [C [O V]]]]. unfold clear_buf.
    destruct (spill_ok 0 0 cs s W I C) as [I2 [C2 [V2 [O2 _]]]].
    apply over00_nil in V2.
    split; [|simpl; auto]. split; auto. split; [|split; [|split]].
    - apply Inv_emit_quiet; simpl; auto.
    - intros x Hx. destruct (C2 x Hx); [left|right]; simpl; auto.
    - simpl. congruence.
    - simpl. rewrite V2. apply over_nil.
  Qed.

  Lemma connect_ext_ok : forall cs s e, RunInv cs s -> RunInv cs (connect_ext s e).
  Proof.
    intros cs s e [W [I [C [O V]]]].
    assert (I' : Inv cs [] (connect_ext s e)).
    { destruct I as [Inx Iic Ind Irel Ird Irc Icn Ipr Ipend Ilog].
      constructor; simpl; auto; try (rewrite Icn; reflexivity). }
    unfold RunInv. tauto.
  Qed.

  Lemma run_snoc : forall ops o,
    run fc fp true limN limS (ops ++ [o]) = step fc fp true limN limS (run fc fp true limN limS ops) o.
  Proof. intros. unfold run, run_from. rewrite fold_left_app. reflexivity. Qed.

  Lemma copies_of_snoc : forall ops o,
    copies_of (ops ++ [o]) =
    copies_of ops ++ match o with
                     | OpPush e ps sz => [mkEntry (N.of_nat (length (copies_of ops))) e ps sz]
                     | _ => []
                     end.
  Proof.
    intros ops o. unfold copies_of. rewrite copies_from_app.
    destruct o; simpl; auto.
  Qed.

  Theorem run_inv : forall ops, RunInv (copies_of ops) (run fc fp true limN limS ops).
  Proof.
    induction ops as [|o ops IH] using rev_ind.
    - unfold RunInv, run, run_from, copies_of; simpl.
      split; [intros i x H; destruct i; discriminate|].
      split; [constructor; simpl; auto; try constructor; intros; contradiction|].
      split; [intros x []|]. split; [reflexivity | apply over_nil].
    - rewrite run_snoc, copies_of_snoc. destruct o as [e ps sz| |e]; simpl step.
      + assert (E : N.of_nat (length (copies_of ops)) = next (run fc fp true limN limS ops)).
        { destruct IH as [_ [I _]]. symmetry. apply (inv_next _ _ _ I). }
        rewrite E. apply push_event_ok; auto.
      + rewrite app_nil_r. apply clear_buf_ok; auto.
      + rewrite app_nil_r. apply connect_ext_ok; auto.
  Qed.
End Run.
