(* Facts about the graph specification (spec/FcSpec.v): the fuelled DFS [anc] is exactly the
   ancestor-or-self closure [reach]; [sees_fork] / [fc_spec] / [merged_spec] as propositions;
   stability of ancestry when a new event is appended to a parents-closed DAG. *)
From Coq Require Import List Arith NArith Bool Lia.
From LV Require Import model.VecIndex spec.FcSpec lib.VecListFacts.
Import ListNotations.
Open Scope N_scope.

(* ---------- ancestry as an inductive relation ---------- *)
Inductive reach (E : list (N * event)) : N -> N -> Prop :=
| reach_refl x e : alookup x E = Some e -> reach E x x
| reach_step x e p y : alookup x E = Some e -> In p (epar e) -> reach E p y -> reach E x y.

Lemma reach_trans E a x y : reach E a x -> reach E x y -> reach E a y.
Proof. intros H; induction H as [x e Hx|x e p z Hx Hp _ IH]; intros Hy; [exact Hy|]. eapply reach_step; eauto. Qed.
Lemma reach_in_l E x y : reach E x y -> exists e, alookup x E = Some e.
Proof. intros H; destruct H; eauto. Qed.
Lemma reach_in_r E x y : reach E x y -> exists e, alookup y E = Some e.
Proof. intros H; induction H; eauto. Qed.
Lemma reach_parent E x e p ep : alookup x E = Some e -> In p (epar e) -> alookup p E = Some ep -> reach E x p.
Proof. intros. eapply reach_step; eauto. eapply reach_refl; eauto. Qed.
(* last step form: x reaches y properly iff through a parent of some z *)
Lemma reach_inv E x y : reach E x y -> x = y \/ exists e p, alookup x E = Some e /\ In p (epar e) /\ reach E p y.
Proof. intros H; destruct H; [left; reflexivity|right; eauto]. Qed.

(* ---------- the DFS computes it ---------- *)
Definition cost_of (L : list (N * event)) (acc : list N) : nat :=
  fold_right (fun p c => if existsb (N.eqb (fst p)) acc then c else (length (epar (snd p)) + c)%nat) 0%nat L.
Lemma cost_cons p L acc : cost_of (p :: L) acc =
  if existsb (N.eqb (fst p)) acc then cost_of L acc else (length (epar (snd p)) + cost_of L acc)%nat.
Proof. reflexivity. Qed.
Lemma total_parents_cons p L : total_parents (p :: L) = (length (epar (snd p)) + total_parents L)%nat.
Proof. reflexivity. Qed.
Lemma cost_nil L : cost_of L [] = total_parents L.
Proof. induction L as [|p L IH]; [reflexivity|]. rewrite cost_cons, total_parents_cons, IH. reflexivity. Qed.
Lemma cost_mono L x acc : (cost_of L (x :: acc) <= cost_of L acc)%nat.
Proof.
  induction L as [|p L IH]; [cbn; lia|]. rewrite !cost_cons. cbn [existsb].
  destruct (fst p =? x); cbn [orb]; destruct (existsb (N.eqb (fst p)) acc); lia.
Qed.
Lemma cost_step L x ev acc : alookup x L = Some ev -> existsb (N.eqb x) acc = false ->
  (cost_of L (x :: acc) + length (epar ev) <= cost_of L acc)%nat.
Proof.
  induction L as [|[k e] L IH]; cbn [alookup]; [discriminate|]. intros Hl Ha.
  rewrite !cost_cons. cbn [existsb fst snd].
  destruct (N.eqb_spec x k) as [->|Hne].
  - injection Hl as ->. rewrite N.eqb_refl. cbn [orb]. rewrite Ha. pose proof (cost_mono L k acc). lia.
  - destruct (N.eqb_spec k x); [congruence|]. cbn [orb]. specialize (IH Hl Ha).
    destruct (existsb (N.eqb k) acc); lia.
Qed.

Lemma anc_list_post E : forall fuel stack acc, (length stack + cost_of E acc <= fuel)%nat ->
  let r := anc_list fuel E stack acc in
  incl acc r /\
  (forall x e, In x stack -> alookup x E = Some e -> In x r) /\
  (forall x, In x r -> ~ In x acc -> forall e p ep, alookup x E = Some e -> In p (epar e) -> alookup p E = Some ep -> In p r) /\
  (forall x, In x r -> In x acc \/ exists p, In p stack /\ reach E p x).
Proof.
  induction fuel as [|f IH]; intros stack acc Hf; cbn zeta.
  - destruct stack; [|cbn in Hf; lia]. cbn [anc_list].
    repeat split; [apply incl_refl|intros x e []|tauto|intros x Hx; left; exact Hx].
  - destruct stack as [|x rest]; cbn [anc_list].
    { repeat split; [apply incl_refl|intros x e []|tauto|intros x Hx; left; exact Hx]. }
    cbn [length] in Hf.
    destruct (existsb (N.eqb x) acc) eqn:Hacc.
    + destruct (IH rest acc ltac:(lia)) as (A & B & C & D). cbn zeta in *.
      repeat split; [exact A| |exact C|].
      * intros y e [<-|Hy] He; [apply A; apply existsb_N_mem; exact Hacc|eapply B; eauto].
      * intros y Hy. destruct (D y Hy) as [|(p & Hp & Hr)]; [left; assumption|right; exists p; split; [right; exact Hp|exact Hr]].
    + destruct (alookup x E) as [ev|] eqn:Hx.
      * pose proof (cost_step E x ev acc Hx Hacc) as Hc.
        destruct (IH (epar ev ++ rest) (x :: acc)) as (A & B & C & D); [rewrite app_length; lia|]. cbn zeta in *.
        repeat split.
        -- intros y Hy. apply A. right. exact Hy.
        -- intros y e [<-|Hy] He; [apply A; left; reflexivity|]. eapply B; [apply in_or_app; right; exact Hy|exact He].
        -- intros y Hy Hny e p ep He Hp Hep.
           destruct (N.eq_dec y x) as [->|Hne].
           ++ rewrite Hx in He. injection He as <-. eapply B; [apply in_or_app; left; exact Hp|exact Hep].
           ++ eapply C; eauto. intros [Heq|Hin]; [congruence|contradiction].
        -- intros y Hy. destruct (D y Hy) as [[<-|Hin]|(p & Hp & Hr)].
           ++ right. exists x. split; [left; reflexivity|eapply reach_refl; exact Hx].
           ++ left. exact Hin.
           ++ apply in_app_or in Hp. destruct Hp as [Hp|Hp].
              ** right. exists x. split; [left; reflexivity|]. eapply reach_step; eauto.
              ** right. exists p. split; [right; exact Hp|exact Hr].
      * destruct (IH rest acc ltac:(lia)) as (A & B & C & D). cbn zeta in *.
        repeat split; [exact A| |exact C|].
        -- intros y e [<-|Hy] He; [congruence|eapply B; eauto].
        -- intros y Hy. destruct (D y Hy) as [|(p & Hp & Hr)]; [left; assumption|right; exists p; split; [right; exact Hp|exact Hr]].
Qed.

Theorem anc_iff E a x : In x (anc E a) <-> reach E a x.
Proof.
  unfold anc.
  destruct (anc_list_post E (S (S (total_parents E))) [a] []) as (A & B & C & D).
  { cbn [length]. rewrite cost_nil. lia. }
  cbn zeta in *. split.
  - intros H. destruct (D x H) as [[]|(p & [<-|[]] & Hr)]. exact Hr.
  - intros H.
    set (r := anc_list (S (S (total_parents E))) E [a] []) in *.
    assert (Hcl : forall u y, reach E u y -> In u r -> In y r).
    { intros u y Hr. induction Hr as [u e Hu|u e p z Hu Hp Hr IH]; intros Hin; [exact Hin|].
      apply IH. destruct (reach_in_l _ _ _ Hr) as [ep Hep]. eapply C; eauto. }
    apply (Hcl a x H). destruct (reach_in_l _ _ _ H) as [e He]. eapply B; [left; reflexivity|exact He].
Qed.

(* ---------- forks and the two specifications as propositions ---------- *)
Definition fork_pair E (v : nat) (x y : N) : Prop :=
  x <> y /\ exists ex ey, alookup x E = Some ex /\ alookup y E = Some ey /\
                          ecr ex = v /\ ecr ey = v /\ eseq ex = eseq ey.
Definition SeesFork E (a : N) (v : nat) : Prop := exists x y, reach E a x /\ reach E a y /\ fork_pair E v x y.

Lemma sees_fork_true E A v : sees_fork E A v = true <-> exists x y, In x A /\ In y A /\ fork_pair E v x y.
Proof.
  unfold sees_fork, fork_pair. rewrite existsb_exists. split.
  - intros (x & Hx & H). rewrite existsb_exists in H. destruct H as (y & Hy & H).
    apply andb_true_iff in H. destruct H as [Hne H].
    destruct (alookup x E) as [ex|] eqn:Ex; [|discriminate]. destruct (alookup y E) as [ey|] eqn:Ey; [|discriminate].
    apply andb_true_iff in H. destruct H as [H Hs]. apply andb_true_iff in H. destruct H as [H1 H2].
    apply Nat.eqb_eq in H1, H2. apply N.eqb_eq in Hs.
    exists x, y. repeat split; auto. { intros ->. rewrite N.eqb_refl in Hne. discriminate. }
    exists ex, ey. auto.
  - intros (x & y & Hx & Hy & Hne & ex & ey & Ex & Ey & C1 & C2 & Hs).
    exists x. split; [exact Hx|]. rewrite existsb_exists. exists y. split; [exact Hy|].
    rewrite Ex, Ey. destruct (N.eqb_spec x y); [contradiction|]. cbn [negb andb].
    rewrite C1, C2, Hs, Nat.eqb_refl, N.eqb_refl. reflexivity.
Qed.
Lemma sees_fork_anc E a v : sees_fork E (anc E a) v = true <-> SeesFork E a v.
Proof.
  rewrite sees_fork_true. unfold SeesFork.
  split; intros (x & y & Hx & Hy & H); exists x, y; (split; [|split]); auto; apply anc_iff; auto.
Qed.

(* a validator v is counted for (a, b): no fork of v visible from a, and some event of v lies
   between b and a *)
Definition Between E (a b : N) (v : nat) : Prop :=
  exists x ex, reach E a x /\ alookup x E = Some ex /\ ecr ex = v /\ reach E x b.
Lemma fc_spec_counted E a b v :
  (negb (sees_fork E (anc E a) v) &&
   existsb (fun x => match alookup x E with Some ex => Nat.eqb (ecr ex) v && existsb (N.eqb b) (anc E x) | None => false end) (anc E a)) = true
  <-> (~ SeesFork E a v /\ Between E a b v).
Proof.
  rewrite andb_true_iff, negb_true_iff, existsb_exists. split.
  - intros (Hf & x & Hx & H). split.
    + intros HS. apply sees_fork_anc in HS. congruence.
    + destruct (alookup x E) as [ex|] eqn:Ex; [|discriminate]. apply andb_true_iff in H. destruct H as [Hc Hb].
      apply Nat.eqb_eq in Hc. apply existsb_N_mem in Hb. apply anc_iff in Hb, Hx. exists x, ex. auto.
  - intros (Hf & x & ex & Hx & Ex & Hc & Hb). split.
    + destruct (sees_fork E (anc E a) v) eqn:HS; [|reflexivity]. exfalso. apply Hf, sees_fork_anc, HS.
    + exists x. split; [apply anc_iff; exact Hx|]. rewrite Ex, Hc, Nat.eqb_refl. cbn [andb].
      apply existsb_N_mem, anc_iff, Hb.
Qed.

(* ---------- appending a new event to a parents-closed DAG ---------- *)
Definition closed (E : list (N * event)) : Prop :=
  forall x e p, alookup x E = Some e -> In p (epar e) -> exists ep, alookup p E = Some ep.

Lemma reach_ext_old E k e a x : closed E -> alookup k E = None -> (exists ea, alookup a E = Some ea) ->
  (reach ((k, e) :: E) a x <-> reach E a x).
Proof.
  intros Hc Hk Ha. split.
  - intros H. induction H as [y e0 Hy|y e0 p z Hy Hp Hr IH].
    + destruct Ha as [ea Ha]. eapply reach_refl; exact Ha.
    + destruct Ha as [ea Ha]. assert (y <> k) by (intros ->; congruence).
      cbn [alookup] in Hy. destruct (N.eqb_spec y k); [contradiction|].
      eapply reach_step; [exact Hy|exact Hp|]. apply IH. eapply Hc; eauto.
  - intros H. clear Ha. induction H as [y e0 Hy|y e0 p z Hy Hp Hr IH].
    + eapply reach_refl. cbn [alookup]. destruct (N.eqb_spec y k) as [->|]; [congruence|exact Hy].
    + eapply reach_step; [|exact Hp|exact IH]. cbn [alookup]. destruct (N.eqb_spec y k) as [->|]; [congruence|exact Hy].
Qed.

Lemma reach_ext_new E k e x : closed E -> alookup k E = None ->
  (forall p, In p (epar e) -> exists ep, alookup p E = Some ep) ->
  (reach ((k, e) :: E) k x <-> x = k \/ exists p, In p (epar e) /\ reach E p x).
Proof.
  intros Hc Hk Hp. split.
  - intros H. apply reach_inv in H. destruct H as [->|(e0 & p & He0 & Hin & Hr)]; [left; reflexivity|].
    cbn [alookup] in He0. rewrite N.eqb_refl in He0. injection He0 as <-.
    right. exists p. split; [exact Hin|]. apply (reach_ext_old E k e p x Hc Hk (Hp p Hin)). exact Hr.
  - intros [->|(p & Hin & Hr)].
    + eapply reach_refl. cbn [alookup]. rewrite N.eqb_refl. reflexivity.
    + eapply reach_step; [cbn [alookup]; rewrite N.eqb_refl; reflexivity|exact Hin|].
      apply (reach_ext_old E k e p x Hc Hk (Hp p Hin)). exact Hr.
Qed.

Lemma reach_closed_in E a x : reach E a x -> exists ex, alookup x E = Some ex.
Proof. apply reach_in_r. Qed.

(* ---------- the specification only depends on the sub-DAG below a (and b) ---------- *)
Definition submap (E1 E2 : list (N * event)) : Prop := forall x ex, alookup x E1 = Some ex -> alookup x E2 = Some ex.

Lemma reach_submap E1 E2 a x : submap E1 E2 -> closed E1 -> (exists ea, alookup a E1 = Some ea) ->
  (reach E2 a x <-> reach E1 a x).
Proof.
  intros Hs Hc Ha. split.
  - intros H. induction H as [y e0 Hy|y e0 p z Hy Hp Hr IH].
    + destruct Ha as [ea Ha]. eapply reach_refl; exact Ha.
    + destruct Ha as [ea Ha]. pose proof (Hs y ea Ha) as Hy2. rewrite Hy in Hy2. injection Hy2 as ->.
      eapply reach_step; [exact Ha|exact Hp|]. apply IH. eapply Hc; eauto.
  - intros H. clear Ha. induction H as [y e0 Hy|y e0 p z Hy Hp Hr IH].
    + eapply reach_refl. apply Hs. exact Hy.
    + eapply reach_step; [apply Hs; exact Hy|exact Hp|exact IH].
Qed.
Lemma fork_pair_submap E1 E2 v x y : submap E1 E2 ->
  (exists ex, alookup x E1 = Some ex) -> (exists ey, alookup y E1 = Some ey) ->
  (fork_pair E2 v x y <-> fork_pair E1 v x y).
Proof.
  intros Hs [ex0 Hx] [ey0 Hy]. unfold fork_pair. rewrite (Hs x ex0 Hx), (Hs y ey0 Hy), Hx, Hy. reflexivity.
Qed.
Lemma SeesFork_submap E1 E2 a v : submap E1 E2 -> closed E1 -> (exists ea, alookup a E1 = Some ea) ->
  (SeesFork E2 a v <-> SeesFork E1 a v).
Proof.
  intros Hs Hc Ha. unfold SeesFork. split; intros (x & y & Rx & Ry & Hf).
  - apply (reach_submap E1 E2 a x Hs Hc Ha) in Rx. apply (reach_submap E1 E2 a y Hs Hc Ha) in Ry.
    exists x, y. split; [exact Rx|]. split; [exact Ry|].
    apply (fork_pair_submap E1 E2 v x y Hs); eauto using reach_in_r.
  - exists x, y. split; [apply (reach_submap E1 E2 a x Hs Hc Ha); exact Rx|].
    split; [apply (reach_submap E1 E2 a y Hs Hc Ha); exact Ry|].
    apply (fork_pair_submap E1 E2 v x y Hs); eauto using reach_in_r.
Qed.
Lemma Between_submap E1 E2 a b v : submap E1 E2 -> closed E1 -> (exists ea, alookup a E1 = Some ea) ->
  (Between E2 a b v <-> Between E1 a b v).
Proof.
  intros Hs Hc Ha. unfold Between. split; intros (x & ex & Rx & Ex & Cx & Rb).
  - apply (reach_submap E1 E2 a x Hs Hc Ha) in Rx. destruct (reach_in_r _ _ _ Rx) as [ex1 Ex1].
    pose proof (Hs x ex1 Ex1) as Ex2. rewrite Ex in Ex2. injection Ex2 as ->.
    exists x, ex1. split; [exact Rx|]. split; [exact Ex1|]. split; [exact Cx|].
    apply (reach_submap E1 E2 x b Hs Hc); eauto.
  - exists x, ex. split; [apply (reach_submap E1 E2 a x Hs Hc Ha); exact Rx|]. split; [apply Hs; exact Ex|].
    split; [exact Cx|]. apply (reach_submap E1 E2 x b Hs Hc); eauto.
Qed.

Theorem fc_spec_submap ws q n E1 E2 a b : submap E1 E2 -> closed E1 ->
  (exists ea, alookup a E1 = Some ea) -> (exists eb, alookup b E1 = Some eb) ->
  fc_spec ws q n E2 a b = fc_spec ws q n E1 a b.
Proof.
  intros Hs Hc Ha [eb Hb]. unfold fc_spec. rewrite (Hs b eb Hb), Hb. f_equal.
  - f_equal. apply eq_true_iff_eq. rewrite !sees_fork_anc. apply SeesFork_submap; assumption.
  - f_equal. f_equal. apply map_ext. intros v. apply eq_true_iff_eq. rewrite !fc_spec_counted.
    rewrite (SeesFork_submap E1 E2 a v Hs Hc Ha), (Between_submap E1 E2 a b v Hs Hc Ha). reflexivity.
Qed.
