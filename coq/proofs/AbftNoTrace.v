(* C07 over whole runs (forkless-cause cache disabled: ForklessCausePairs = 0):
   deleting from an operation sequence every Build and every Process that ended with ErrWrongFrame
   (of an event the event store had never held) changes no observation of the remaining operations. *)
From Coq Require Import NArith ZArith List Lia Bool ZifyBool ZifyN ZifyNat.
From LV Require Import model.VecIndex model.Abft model.AbftRun
  proofs.AbftFrame proofs.AbftBuild proofs.AbftProcess proofs.AbftTransparent proofs.AbftNoCache.
Import ListNotations.
Local Open Scope N_scope.

Definition has_key (id : N) (es : estore) : bool := existsb (fun p => fst p =? id) es.
Lemma es_remove_nokey id es : has_key id es = false -> es_remove id es = es.
Proof.
  unfold has_key, es_remove. induction es as [|[k e] t IH]; cbn [existsb filter fst]; auto.
  intros H. apply orb_false_iff in H as [H1 H2]. rewrite H1. cbn [negb]. rewrite IH; auto.
Qed.

Section NoTrace.
Variable pol : policy.
Variable smp : N -> option (list N).
Notation step0 := (step 0 pol smp).

(* an operation of the main run that is deleted in the clean run *)
Definition dropped (i : inst) (o : op) (ob : obs) : bool :=
  match o, ob with
  | OpB _, _ => true
  | OpP e, ObsP (Some EWrongFrame) _ _ _ => negb (has_key (a_id e) (i_es i))
  | _, _ => false end.

(* the kept operations and their observations in the main run; deleted operations must not be fatal *)
Fixpoint kept (i : inst) (ops : list op) : list op * list obs :=
  match ops with
  | [] => ([], [])
  | o :: t =>
    let '(ob, i', dead) := step0 i o in
    let rest := if dead then ([], []) else kept i' t in
    if dropped i o ob then rest else (o :: fst rest, ob :: snd rest)
  end.
Fixpoint drops_alive (i : inst) (ops : list op) : Prop :=
  match ops with
  | [] => True
  | o :: t => let '(ob, i', dead) := step0 i o in
              (dropped i o ob = true -> dead = false) /\ (dead = false -> drops_alive i' t)
  end.

(* main instance i, clean instance i' *)
Definition Rc (i i' : inst) : Prop :=
  i_es i = i_es i' /\ i_proc i = i_proc i' /\ R (i_st i') (i_st i) /\ nilc (i_st i) /\ nilc (i_st i').

Lemma R_guard i i' e d : Rc i i' -> guard i e d = guard i' e d.
Proof.
  intros (E1 & E2 & [c [n E3]] & _). unfold guard. rewrite E2, E3. reflexivity.
Qed.

Lemma step_kept_same i i' o : Rc i i' -> (forall e, o <> OpB e) ->
  fst (fst (step0 i o)) = fst (fst (step0 i' o)) /\ snd (step0 i o) = snd (step0 i' o) /\
  (snd (step0 i o) = false -> Rc (snd (fst (step0 i o))) (snd (fst (step0 i' o)))).
Proof.
  intros HR Hnb. pose proof HR as (E1 & E2 & HRst & N1 & N2). pose proof HRst as [c [n E3]].
  destruct o as [e|e| |ep raw|id|f|a b|]; cbn [step].
  - rewrite <- (R_guard i i' e true HR). destruct (guard i e true) as [w|]; cbn [fst snd].
    { repeat split; auto. }
    rewrite E1.
    destruct (add (l_idx (i_st i')) (vev (l_vals (i_st i')) e)) as [s'|] eqn:Hadd.
    + pose proof (process_cache_transparent 0 (policy_fn pol) (aput (a_id e) e (i_es i')) (i_st i') c n e s' Hadd
                    (coh_nil (set_idx (i_st i') s') N2)
                    (coh_nil (set_idx (set_fcc (set_ctr (i_st i') n) c) s') ltac:(rewrite <- E3; exact N1))) as T. cbn zeta in T. rewrite <- E3 in T.
      pose proof (process0 (policy_fn pol) (aput (a_id e) e (i_es i')) (i_st i) e N1) as P1.
      pose proof (process0 (policy_fn pol) (aput (a_id e) e (i_es i')) (i_st i') e N2) as P2.
      destruct (process 0 (policy_fn pol) (aput (a_id e) e (i_es i')) (i_st i) e) as [[r bl] st1].
      destruct (process 0 (policy_fn pol) (aput (a_id e) e (i_es i')) (i_st i') e) as [[r' bl'] st1'].
      cbn [fst snd] in *. destruct T as (T1 & T2 & T3). subst r bl.
      assert (Fs : l_ldf st1 = l_ldf st1' /\ l_epoch st1 = l_epoch st1').
      { destruct T3 as [c1 [n1 ->]]. cbn. auto. }
      destruct Fs as [F1 F2].
      destruct r' as [u|x]; cbn [fst snd]; rewrite F1, F2; repeat split; auto; try (rewrite E1; reflexivity); try (rewrite E2; reflexivity).
      all: unfold Rc; cbn [i_st i_es i_proc]; repeat split; auto; try (rewrite E1; reflexivity); try (rewrite E2; reflexivity).
    + assert (Hx : l_idx (i_st i) = l_idx (i_st i') /\ l_vals (i_st i) = l_vals (i_st i') /\
                   l_ldf (i_st i) = l_ldf (i_st i') /\ l_epoch (i_st i) = l_epoch (i_st i')) by (rewrite E3; cbn; auto).
      destruct Hx as (X1 & X2 & X3 & X4).
      unfold process. rewrite X1, X2, Hadd. cbn [fst snd]. rewrite X3, X4. repeat split; auto; intros H; discriminate H.
  - elim (Hnb e). reflexivity.
  - assert (Hp : persist (i_st i) = persist (i_st i')) by (rewrite E3; reflexivity).
    rewrite Hp, E1.
    pose proof (bootstrap_election0 (policy_fn pol) (i_es i')) as B0.
    unfold bootstrap.
    match goal with |- context [bootstrap_election 0 _ ?fu _ ?st0 []] =>
      pose proof (B0 fu st0 [] eq_refl) as Nb; destruct (bootstrap_election 0 (policy_fn pol) fu (i_es i') st0 []) as [[r bl] st1] end.
    cbn [snd] in Nb. destruct r as [u|x]; cbn [fst snd]; (split; [reflexivity|]); (split; [reflexivity|]); intros Hd; [|discriminate Hd].
    unfold Rc. cbn [i_st i_es i_proc]. rewrite E2. repeat split; auto. apply R_refl.
  - cbn [fst snd]. rewrite E3. cbn [reset l_ldf l_epoch]. split; [reflexivity|]. split; [reflexivity|].
    intros _. unfold Rc. cbn [i_st i_es i_proc]. repeat split; auto.
    exists [], n. reflexivity.
  - rewrite E2. destruct (mem id (i_proc i')); cbn [fst snd].
    + rewrite E3. cbn [l_idx set_fcc set_ctr]. split; [reflexivity|]. split; [reflexivity|]. intros _. exact HR.
    + split; [reflexivity|]. split; [reflexivity|]. intros _. exact HR.
  - cbn [fst snd]. unfold get_frame_roots. rewrite E3. cbn [l_roots set_fcc set_ctr].
    split; [reflexivity|]. split; [reflexivity|]. intros _. exact HR.
  - rewrite E2. destruct (mem a (i_proc i') && mem b (i_proc i')); cbn [fst snd].
    2:{ split; [reflexivity|]. split; [reflexivity|]. intros _. exact HR. }
    pose proof (fc_cached_agree 0 (i_st i') (i_st i) a b HRst (coh_nil _ N2) (coh_nil _ N1)) as A.
    pose proof (fc_cached0 (i_st i) a b N1) as Q1. pose proof (fc_cached0 (i_st i') a b N2) as Q2.
    destruct (fc_cached 0 (i_st i) a b) as [r st1]. destruct (fc_cached 0 (i_st i') a b) as [r' st1'].
    destruct A as (A1 & A2 & _). cbn [fst snd] in *. subst r'. split; [reflexivity|]. split; [reflexivity|].
    intros _. unfold Rc. cbn [i_st i_es i_proc]. repeat split; auto.
  - cbn [fst snd]. rewrite E3. cbn [l_vals set_fcc set_ctr]. split; [reflexivity|]. split; [reflexivity|]. intros _. exact HR.
Qed.

Lemma step_dropped i i' o : Rc i i' -> dropped i o (fst (fst (step0 i o))) = true -> snd (step0 i o) = false ->
  Rc (snd (fst (step0 i o))) i'.
Proof.
  intros HR Hd Ha. pose proof HR as (E1 & E2 & HRst & N1 & N2). pose proof HRst as [c [n E3]].
  destruct o as [e|e| |ep raw|id|f|a b|]; cbn [step dropped] in *; try discriminate.
  - destruct (guard i e true) as [w|] eqn:G; cbn [fst snd] in *; [discriminate|].
    pose proof (process0 (policy_fn pol) (aput (a_id e) e (i_es i)) (i_st i) e N1) as P1.
    destruct (process 0 (policy_fn pol) (aput (a_id e) e (i_es i)) (i_st i) e) as [[r bl] st1] eqn:EP.
    destruct r as [u|x]; cbn [fst snd] in *; [discriminate|]. destruct x; try discriminate.
    destruct (process_early_exit 0 _ _ _ _ _ _ _ EP eq_refl) as [-> [c' ->]].
    apply negb_true_iff in Hd. rewrite (es_remove_nokey _ _ Hd).
    unfold Rc. cbn [i_st i_es i_proc]. repeat split; auto.
    rewrite E3. exists c', n. reflexivity.
  - destruct (guard i e false); cbn [fst snd] in *; [exact HR|].
    pose proof (build_with0 smp (i_es i) (i_st i) e N1) as B1.
    destruct (build_with_shape 0 smp (i_es i) (i_st i) e) as [c' Hsh].
    destruct (build_with 0 smp (i_es i) (i_st i) e) as [r st1]. cbn [fst snd] in *. subst st1.
    unfold Rc. cbn [i_st i_es i_proc]. repeat split; auto.
    rewrite E3. exists c', (l_ctr (set_fcc (set_ctr (i_st i') n) c) + 1). reflexivity.
Qed.

(* the clean run reproduces every observation of the operations that were not deleted *)
Theorem no_trace_run : forall ops i i', Rc i i' -> drops_alive i ops ->
  run 0 pol smp i' (fst (kept i ops)) = snd (kept i ops).
Proof.
  induction ops as [|o t IH]; intros i i' HR HA; cbn [kept run fst snd]; [reflexivity|].
  cbn [drops_alive] in HA.
  destruct (step0 i o) as [[ob i1] dead] eqn:ST. destruct HA as [HA1 HA2].
  destruct (dropped i o ob) eqn:D.
  - specialize (HA1 eq_refl). subst dead.
    pose proof (step_dropped i i' o HR) as SD. rewrite ST in SD. cbn [fst snd] in SD.
    apply IH; auto.
  - assert (Hnb : forall e, o <> OpB e) by (intros e ->; cbn in D; discriminate).
    destruct (step_kept_same i i' o HR Hnb) as (S1 & S2 & S3). rewrite ST in *. cbn [fst snd] in *.
    cbn [run fst snd]. destruct (step0 i' o) as [[ob' i1'] dead'] eqn:ST'. cbn [fst snd] in *. subst ob' dead'.
    f_equal. destruct dead; [reflexivity|]. apply IH; auto.
Qed.

End NoTrace.
