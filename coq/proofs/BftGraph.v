(* (i) The hypotheses of the BFT core (proofs/BftCore.v) discharged for the ancestry tables of
   spec/ElectionSpec.v, from DAG well-formedness (parents known, unique ids, self-parent =
   first parent with the same creator and seq+1: the C13 facts) and the frame rule of the spec:
     xid_inj, fc_char, leb_trans, sf_mono, honest_chain, roots_fork, roots_quorum. *)
From Coq Require Import List Arith NArith Bool Lia ZArith.
From Coq Require Import ZifyBool ZifyNat ZifyN.
From LV Require Import model.VecIndex lib.WSumBft spec.ElectionSpec proofs.BftCore proofs.BftElection.
Import ListNotations.
Open Scope N_scope.

(* ---------- sets as lists ---------- *)
Lemma mem_In x l : mem x l = true <-> In x l.
Proof.
  unfold mem. rewrite existsb_exists. split.
  - intros [y [Hy E]]. apply N.eqb_eq in E. subst y. exact Hy.
  - intros H. exists x. split; [exact H|apply N.eqb_refl].
Qed.

Lemma umerge_nil_l b : umerge [] b = b.
Proof. destruct b; reflexivity. Qed.
Lemma umerge_nil_r a : umerge a [] = a.
Proof. destruct a; reflexivity. Qed.
Lemma umerge_cons x a y b : umerge (x :: a) (y :: b) =
  match x ?= y with Lt => x :: umerge a (y :: b) | Eq => x :: umerge a b | Gt => y :: umerge (x :: a) b end.
Proof. reflexivity. Qed.

Lemma umerge_in a : forall b x, In x (umerge a b) <-> In x a \/ In x b.
Proof.
  induction a as [|h a IHa]; intros b x.
  - rewrite umerge_nil_l. cbn [In]. tauto.
  - induction b as [|y b IHb].
    + rewrite umerge_nil_r. cbn [In]. tauto.
    + rewrite umerge_cons. destruct (h ?= y) eqn:E.
      * apply N.compare_eq in E. subst y. cbn [In]. rewrite IHa. tauto.
      * cbn [In]. rewrite IHa. cbn [In]. tauto.
      * cbn [In]. rewrite IHb. cbn [In]. tauto.
Qed.

Lemma nlookup_some x T n : nlookup x T = Some n -> In n T /\ nd_id n = x.
Proof. unfold nlookup. intros H. apply find_some in H as [H1 H2]. apply N.eqb_eq in H2. auto. Qed.
Lemma nlookup_none x T : nlookup x T = None -> forall n, In n T -> nd_id n <> x.
Proof. unfold nlookup. intros H n Hn E. apply (find_none _ _ H) in Hn. apply N.eqb_neq in Hn. contradiction. Qed.
Lemma nlookup_cons x n T : nlookup x (n :: T) = if nd_id n =? x then Some n else nlookup x T.
Proof. reflexivity. Qed.

Lemma fold_anc_in (T : list node) ps : forall acc x,
  In x (fold_left (fun acc p => match nlookup p T with Some n => umerge acc (nd_anc n) | None => acc end) ps acc)
  <-> In x acc \/ exists p n, In p ps /\ nlookup p T = Some n /\ In x (nd_anc n).
Proof.
  induction ps as [|p ps IH]; intros acc x; cbn [fold_left].
  - split; [auto|]. intros [H|[p [n [[] _]]]]. exact H.
  - rewrite IH. destruct (nlookup p T) as [n|] eqn:E.
    + rewrite umerge_in. split.
      * intros [[H|H]|[p' [n' [H1 H2]]]]; [left; exact H| |].
        -- right. exists p, n. cbn [In]. auto.
        -- right. exists p', n'. cbn [In]. tauto.
      * intros [H|[p' [n' [[<-|H1] [H2 H3]]]]]; [tauto| |].
        -- rewrite E in H2. injection H2 as <-. tauto.
        -- right. exists p', n'. tauto.
    + split.
      * intros [H|[p' [n' [H1 H2]]]]; [left; exact H|]. right. exists p', n'. cbn [In]. tauto.
      * intros [H|[p' [n' [[<-|H1] [H2 H3]]]]]; [tauto| |].
        -- rewrite E in H2. discriminate.
        -- right. exists p', n'. tauto.
Qed.

Lemma fold_reach_in (v : nat) (l : list node) : forall acc x,
  In x (fold_left (fun acc n => if Nat.eqb (nd_cr n) v then umerge acc (nd_anc n) else acc) l acc)
  <-> In x acc \/ exists n, In n l /\ nd_cr n = v /\ In x (nd_anc n).
Proof.
  induction l as [|n l IH]; intros acc x; cbn [fold_left].
  - split; [auto|]. intros [H|[n [[] _]]]. exact H.
  - rewrite IH. destruct (Nat.eqb (nd_cr n) v) eqn:E.
    + apply Nat.eqb_eq in E. rewrite umerge_in. split.
      * intros [[H|H]|[n' [H1 H2]]]; [left; exact H| |].
        -- right. exists n. cbn [In]. auto.
        -- right. exists n'. cbn [In]. tauto.
      * intros [H|[n' [[<-|H1] [H2 H3]]]]; [tauto|tauto|]. right. exists n'. tauto.
    + apply Nat.eqb_neq in E. split.
      * intros [H|[n' [H1 H2]]]; [left; exact H|]. right. exists n'. cbn [In]. tauto.
      * intros [H|[n' [[<-|H1] [H2 H3]]]]; [tauto|contradiction|]. right. exists n'. tauto.
Qed.

Lemma nth_seq_map_false (h : nat -> bool) (n v : nat) : nth v (map h (seq 0 n)) false = true -> (v < n)%nat /\ h v = true.
Proof.
  intros H. destruct (Nat.lt_ge_cases v n) as [Hv|Hv].
  - rewrite nth_map_seq in H by exact Hv. auto.
  - rewrite nth_map_seq_none in H by exact Hv. discriminate.
Qed.

Section Graph.
Variable vals : list (N * N).
Notation ws := (map snd vals).
Notation nv := (length vals).
Notation q := (quorum_of ws).
Notation fcn := (fc_n ws q).

(* ---------- well-formed tables ---------- *)
Definition parents_known (T : list node) (e : fev) : Prop :=
  forall p, In p (epar (fe e)) -> exists n, nlookup p T = Some n.
(* the C13 facts the consensus relies on: seq >= 1; seq > 1 => the first parent is the self-parent,
   by the same creator, with seq - 1 *)
Definition ev_wf (T : list node) (e : fev) : Prop :=
  1 <= eseq (fe e) /\
  (1 < eseq (fe e) -> exists sp n, self_parent (fe e) = Some sp /\ nlookup sp T = Some n /\
                                   nd_cr n = ecr (fe e) /\ nd_seq n + 1 = eseq (fe e)).

Inductive wfT : list node -> Prop :=
| wfT_nil : wfT []
| wfT_cons T e : wfT T -> parents_known T e -> nlookup (eid (fe e)) T = None ->
    (ecr (fe e) < nv)%nat -> ev_wf T e -> r_frame_ok vals T (mk_node nv T e) = true ->
    wfT (mk_node nv T e :: T).

Lemma mk_id T e : nd_id (mk_node nv T e) = eid (fe e). Proof. reflexivity. Qed.
Lemma mk_cr T e : nd_cr (mk_node nv T e) = ecr (fe e). Proof. reflexivity. Qed.
Lemma mk_seq T e : nd_seq (mk_node nv T e) = eseq (fe e). Proof. reflexivity. Qed.
Lemma mk_fr T e : nd_fr (mk_node nv T e) = ffr e. Proof. reflexivity. Qed.

(* G1: ids are unique *)
Lemma wf_lookup T : wfT T -> forall n, In n T -> nlookup (nd_id n) T = Some n.
Proof.
  induction 1 as [|T e Hwf IH Hpk Hfresh Hcr Hev Hfr]; intros n Hn; [destruct Hn|].
  rewrite nlookup_cons. destruct Hn as [<-|Hn].
  - rewrite N.eqb_refl. reflexivity.
  - rewrite mk_id. destruct (eid (fe e) =? nd_id n) eqn:E.
    + apply N.eqb_eq in E. exfalso. eapply nlookup_none; eauto.
    + apply IH. exact Hn.
Qed.

Lemma wf_inj T : wfT T -> forall x y, In x T -> In y T -> nd_id x = nd_id y -> x = y.
Proof.
  intros Hwf x y Hx Hy E. pose proof (wf_lookup T Hwf x Hx) as H1. pose proof (wf_lookup T Hwf y Hy) as H2.
  rewrite E in H1. rewrite H1 in H2. injection H2. auto.
Qed.

(* ancestors of a fresh node *)
Lemma mk_anc_in T e x : In x (nd_anc (mk_node nv T e)) <->
  x = eid (fe e) \/ exists p n, In p (epar (fe e)) /\ nlookup p T = Some n /\ In x (nd_anc n).
Proof.
  cbn [mk_node nd_anc]. rewrite umerge_in. rewrite fold_anc_in. cbn [In]. split.
  - intros [[H|[]]|[[]|H]]; [left; auto|right; exact H].
  - intros [H|H]; [left; left; auto|right; right; exact H].
Qed.

(* G2: ancestor sets contain the node itself, only known ids, and are transitively closed *)
Definition anc_ok (T : list node) : Prop :=
  (forall n, In n T -> In (nd_id n) (nd_anc n)) /\
  (forall n x, In n T -> In x (nd_anc n) -> exists m, In m T /\ nd_id m = x) /\
  (forall n m, In n T -> In m T -> In (nd_id m) (nd_anc n) -> incl (nd_anc m) (nd_anc n)).

Lemma wf_anc T : wfT T -> anc_ok T.
Proof.
  induction 1 as [|T e Hwf [IH1 [IH2 IH3]] Hpk Hfresh Hcr Hev Hfr].
  - split; [|split]; intros; contradiction.
  - set (n0 := mk_node nv T e).
    assert (Hknown : forall x, In x (nd_anc n0) -> exists m, In m (n0 :: T) /\ nd_id m = x).
    { intros x Hx. apply mk_anc_in in Hx as [->|[p [n [Hp [Hl Hx]]]]].
      - exists n0. split; [left; reflexivity|reflexivity].
      - apply nlookup_some in Hl as [Hn _]. destruct (IH2 n x Hn Hx) as [m [Hm E]].
        exists m. split; [right; exact Hm|exact E]. }
    split; [|split].
    + intros n [<-|Hn]; [apply mk_anc_in; left; reflexivity|apply IH1; exact Hn].
    + intros n x [<-|Hn] Hx; [apply Hknown; exact Hx|].
      destruct (IH2 n x Hn Hx) as [m [Hm E]]. exists m. split; [right; exact Hm|exact E].
    + intros n m [<-|Hn] [<-|Hm] Hin.
      * apply incl_refl.
      * (* old m below the fresh node *)
        apply mk_anc_in in Hin as [E|[p [np [Hp [Hl Hin]]]]].
        { exfalso. eapply nlookup_none; eauto. }
        intros x Hx. apply mk_anc_in. right. exists p, np. split; [exact Hp|]. split; [exact Hl|].
        apply nlookup_some in Hl as [Hnp _]. apply (IH3 np m Hnp Hm Hin). exact Hx.
      * (* the fresh node is not an ancestor of an old one *)
        exfalso. destruct (IH2 n _ Hn Hin) as [m [Hm E]]. eapply nlookup_none; eauto.
      * apply IH3; assumption.
Qed.

(* G3: every node was built from the table below it *)
Lemma wf_origin T : wfT T -> forall n, In n T ->
  exists T' e pre, T = pre ++ n :: T' /\ wfT T' /\ n = mk_node nv T' e /\ parents_known T' e /\
    nlookup (eid (fe e)) T' = None /\ (ecr (fe e) < nv)%nat /\ ev_wf T' e /\ r_frame_ok vals T' n = true.
Proof.
  induction 1 as [|T e Hwf IH Hpk Hfresh Hcr Hev Hfr]; intros n Hn; [destruct Hn|].
  destruct Hn as [<-|Hn].
  - exists T, e, []. split; [reflexivity|]. split; [exact Hwf|]. split; [reflexivity|].
    split; [exact Hpk|]. split; [exact Hfresh|]. split; [exact Hcr|]. split; [exact Hev|exact Hfr].
  - destruct (IH n Hn) as [T' [e' [pre [-> H]]]]. exists T', e', (mk_node nv (pre ++ n :: T') e :: pre).
    split; [reflexivity|exact H].
Qed.

Lemma incl_suffix {A} (pre : list A) n T' : incl T' (pre ++ n :: T').
Proof. intros x Hx. apply in_or_app. right. right. exact Hx. Qed.

(* ---------- what a node sees ---------- *)
Definition trip (m : node) : N * nat * N := (nd_id m, nd_cr m, nd_seq m).
Definition forks_bit (l : list (N * nat * N)) (v : nat) : bool :=
  let l' := filter (fun p : N * nat * N => Nat.eqb (snd (fst p)) v) l in
  existsb (fun x => existsb (fun y => negb (fst (fst x) =? fst (fst y)) && (snd x =? snd y)) l') l'.

Lemma forks_bit_char (L : list node) v : forks_bit (map trip L) v = true <->
  exists x y, In x L /\ In y L /\ nd_cr x = v /\ nd_cr y = v /\ nd_id x <> nd_id y /\ nd_seq x = nd_seq y.
Proof.
  unfold forks_bit. split.
  - intros H. apply existsb_exists in H as [px [Hx H]]. apply existsb_exists in H as [py [Hy H]].
    apply filter_In in Hx as [Hx Cx]. apply filter_In in Hy as [Hy Cy].
    apply in_map_iff in Hx as [x [<- Hx]]. apply in_map_iff in Hy as [y [<- Hy]].
    cbn [trip fst snd] in *. apply andb_prop in H as [H1 H2].
    apply Nat.eqb_eq in Cx, Cy. apply N.eqb_eq in H2. apply negb_true_iff in H1. apply N.eqb_neq in H1.
    exists x, y. auto 10.
  - intros [x [y [Hx [Hy [Cx [Cy [Hne Hs]]]]]]].
    apply existsb_exists. exists (trip x). split.
    { apply filter_In. split; [apply in_map; exact Hx|]. cbn [trip fst snd]. apply Nat.eqb_eq. exact Cx. }
    apply existsb_exists. exists (trip y). split.
    { apply filter_In. split; [apply in_map; exact Hy|]. cbn [trip fst snd]. apply Nat.eqb_eq. exact Cy. }
    cbn [trip fst snd]. apply andb_true_intro. split.
    + apply negb_true_iff. apply N.eqb_neq. exact Hne.
    + apply N.eqb_eq. exact Hs.
Qed.

Definition below_of (T : list node) (A : list N) : list node :=
  flat_map (fun x => match nlookup x T with Some n => [n] | None => [] end) A.

Lemma below_in T A m : wfT T -> (In m (below_of T A) <-> In m T /\ In (nd_id m) A).
Proof.
  intros Hwf. unfold below_of. rewrite in_flat_map. split.
  - intros [x [Hx H]]. destruct (nlookup x T) as [n|] eqn:E; [|destruct H].
    destruct H as [<-|[]]. apply nlookup_some in E as [Hn <-]. auto.
  - intros [Hm Hx]. exists (nd_id m). split; [exact Hx|]. rewrite (wf_lookup T Hwf m Hm). left. reflexivity.
Qed.

Lemma mk_forks T e v : nth v (nd_forks (mk_node nv T e)) false =
  nth v (map (forks_bit (map trip (mk_node nv T e :: below_of T (nd_anc (mk_node nv T e))))) (seq 0 nv)) false.
Proof. reflexivity. Qed.

Lemma mk_reach T e v : nth v (nd_reach (mk_node nv T e)) [] =
  nth v (map (fun v => fold_left (fun acc n => if Nat.eqb (nd_cr n) v then umerge acc (nd_anc n) else acc)
                         (below_of T (nd_anc (mk_node nv T e)))
                         (if Nat.eqb (ecr (fe e)) v then nd_anc (mk_node nv T e) else [])) (seq 0 nv)) [].
Proof. reflexivity. Qed.

(* the nodes visible from a: members of the table whose id is an ancestor of a *)
Definition visible (T : list node) (a x : node) : Prop := In x T /\ In (nd_id x) (nd_anc a).

Lemma visible_origin pre a T' e x : wfT (pre ++ a :: T') -> wfT T' -> a = mk_node nv T' e ->
  nlookup (eid (fe e)) T' = None -> wfT (a :: T') ->
  (visible (pre ++ a :: T') a x <-> In x (a :: below_of T' (nd_anc a))).
Proof.
  intros Hwf Hwf' Ha Hfresh Hwfa. unfold visible. split.
  - intros [Hx Hin].
    destruct (wf_anc _ Hwfa) as [_ [Hk _]].
    destruct (Hk a _ (or_introl eq_refl) Hin) as [m [Hm E]].
    assert (x = m).
    { apply (wf_inj _ Hwf); auto. apply in_or_app. right. exact Hm. }
    subst m. destruct Hm as [<-|Hm]; [left; reflexivity|]. right. apply below_in; auto.
  - intros [<-|Hx].
    + split; [apply in_or_app; right; left; reflexivity|].
      destruct (wf_anc _ Hwfa) as [Hs _]. apply Hs. left. reflexivity.
    + apply below_in in Hx as [Hx Hin]; [|exact Hwf']. split; [|exact Hin].
      apply in_or_app. right. right. exact Hx.
Qed.

Lemma origin_wf_cons T' e : wfT T' -> parents_known T' e -> nlookup (eid (fe e)) T' = None ->
  (ecr (fe e) < nv)%nat -> ev_wf T' e -> r_frame_ok vals T' (mk_node nv T' e) = true -> wfT (mk_node nv T' e :: T').
Proof. intros. apply wfT_cons; assumption. Qed.

(* sees-fork bit = two different visible events of v with equal seq *)
Lemma sf_char T a v : wfT T -> In a T ->
  (sees_fork_n a v = true <-> (v < nv)%nat /\ exists x y, visible T a x /\ visible T a y /\
      nd_cr x = v /\ nd_cr y = v /\ nd_id x <> nd_id y /\ nd_seq x = nd_seq y).
Proof.
  intros Hwf Ha. destruct (wf_origin T Hwf a Ha) as [T' [e [pre [ET [Hwf' [Ea [Hpk [Hfresh [Hcr [Hev Hfr]]]]]]]]]].
  assert (Hwfa : wfT (a :: T')) by (rewrite Ea in *; apply origin_wf_cons; assumption).
  subst T.
  assert (Hvis : forall x, visible (pre ++ a :: T') a x <-> In x (a :: below_of T' (nd_anc a))).
  { intros x. eapply visible_origin; eauto. }
  unfold sees_fork_n. rewrite Ea at 1. rewrite mk_forks. rewrite <- Ea. split.
  - intros H. apply nth_seq_map_false in H as [Hv H]. split; [exact Hv|].
    apply forks_bit_char in H as [x [y [Hx [Hy H]]]]. exists x, y.
    split; [apply Hvis; exact Hx|]. split; [apply Hvis; exact Hy|exact H].
  - intros [Hv [x [y [Hx [Hy H]]]]]. rewrite nth_map_seq by exact Hv.
    apply forks_bit_char. exists x, y. split; [apply Hvis; exact Hx|]. split; [apply Hvis; exact Hy|exact H].
Qed.

(* reach: b is below an event of v that a sees *)
Lemma reach_char T a v z : wfT T -> In a T -> In z (nth v (nd_reach a) []) ->
  exists x, visible T a x /\ nd_cr x = v /\ In z (nd_anc x).
Proof.
  intros Hwf Ha. destruct (wf_origin T Hwf a Ha) as [T' [e [pre [ET [Hwf' [Ea [Hpk [Hfresh [Hcr [Hev Hfr]]]]]]]]]].
  assert (Hwfa : wfT (a :: T')) by (rewrite Ea in *; apply origin_wf_cons; assumption).
  subst T.
  assert (Hvis : forall x, visible (pre ++ a :: T') a x <-> In x (a :: below_of T' (nd_anc a))).
  { intros x. eapply visible_origin; eauto. }
  rewrite Ea at 1. rewrite mk_reach. rewrite <- Ea. intros H.
  destruct (Nat.lt_ge_cases v nv) as [Hv|Hv]; [|rewrite nth_map_seq_none in H by exact Hv; destruct H].
  rewrite nth_map_seq in H by exact Hv. apply fold_reach_in in H as [H|[m [Hm [Hc Hz]]]].
  - destruct (Nat.eqb (ecr (fe e)) v) eqn:E; [|destruct H]. apply Nat.eqb_eq in E.
    exists a. split; [apply Hvis; left; reflexivity|]. split; [rewrite Ea; exact E|exact H].
  - exists m. split; [apply Hvis; right; exact Hm|]. split; [exact Hc|exact Hz].
Qed.

(* ---------- the relations of the BFT core ---------- *)
Definition lebn (x y : node) : bool := mem (nd_id x) (nd_anc y).

Lemma lebn_trans T : wfT T -> forall x y z, In x T -> In y T -> In z T ->
  lebn x y = true -> lebn y z = true -> lebn x z = true.
Proof.
  intros Hwf x y z Hx Hy Hz H1 H2. unfold lebn in *. apply mem_In in H1, H2. apply mem_In.
  destruct (wf_anc T Hwf) as [_ [_ Hc]]. apply (Hc z y Hz Hy H2). exact H1.
Qed.

Lemma sfn_mono T : wfT T -> forall a a' v, In a T -> In a' T -> lebn a a' = true ->
  sees_fork_n a v = true -> sees_fork_n a' v = true.
Proof.
  intros Hwf a a' v Ha Ha' Hle H. apply mem_In in Hle.
  destruct (wf_anc T Hwf) as [_ [_ Hc]]. pose proof (Hc a' a Ha' Ha Hle) as Hincl.
  apply (sf_char T a v Hwf Ha) in H as [Hv [x [y [[Hx1 Hx2] [[Hy1 Hy2] H]]]]].
  apply (sf_char T a' v Hwf Ha'). split; [exact Hv|]. exists x, y.
  split; [split; [exact Hx1|apply Hincl; exact Hx2]|]. split; [split; [exact Hy1|apply Hincl; exact Hy2]|exact H].
Qed.

Lemma ws_len : length ws = nv.
Proof. apply map_length. Qed.

Lemma fcn_char T : wfT T -> forall a b, In a T -> In b T -> fcn a b = true ->
  sees_fork_n a (nd_cr b) = false /\
  q <= wsP ws (fun v => negb (sees_fork_n a v) && between node nd_cr T lebn b a v).
Proof.
  intros Hwf a b Ha Hb H. unfold fc_n in H. apply andb_prop in H as [H1 H2].
  apply negb_true_iff in H1. split; [exact H1|]. apply N.leb_le in H2.
  etransitivity; [exact H2|]. change (wsum ws (map ?P (seq 0 (length ws)))) with (wsP ws P).
  apply wsP_mono. intros v _ Hv. apply andb_prop in Hv as [Hv1 Hv2]. rewrite Hv1. cbn [andb].
  apply mem_In in Hv2. destruct (reach_char T a v _ Hwf Ha Hv2) as [x [[Hx1 Hx2] [Hc Hz]]].
  unfold between. apply existsb_exists. exists x. split; [exact Hx1|].
  apply andb_true_intro. split; [apply andb_true_intro; split|].
  - apply Nat.eqb_eq. exact Hc.
  - apply mem_In. exact Hz.
  - apply mem_In. exact Hx2.
Qed.

(* ---------- self-parent chains and frames ---------- *)
Lemma self_parent_in ev p : self_parent ev = Some p -> In p (epar ev).
Proof.
  unfold self_parent. destruct (eseq ev <=? 1); [discriminate|].
  destruct (epar ev) as [|p' ps]; [discriminate|]. intros H. injection H as <-. left. reflexivity.
Qed.

Lemma sp_facts T n : wfT T -> In n T ->
  1 <= nd_seq n /\
  (1 < nd_seq n -> exists sp, In sp T /\ nd_cr sp = nd_cr n /\ nd_seq sp + 1 = nd_seq n /\
                            In (nd_id sp) (nd_anc n) /\ nd_spf n = nd_fr sp /\ nd_hassp n = true) /\
  (nd_seq n <= 1 -> nd_hassp n = false /\ nd_spf n = 0).
Proof.
  intros Hwf Hn. destruct (wf_origin T Hwf n Hn) as [T' [e [pre [ET [Hwf' [En [Hpk [Hfresh [Hcr [[Hs1 Hs2] Hfr]]]]]]]]]].
  subst T. rewrite En. rewrite mk_seq. split; [exact Hs1|]. split.
  - intros Hs. destruct (Hs2 Hs) as [sp [m [Hsp [Hl [Hc Hq]]]]].
    pose proof Hl as Hl'. apply nlookup_some in Hl' as [Hm Hid].
    exists m. split; [apply incl_suffix; exact Hm|]. split; [rewrite mk_cr; exact Hc|]. split; [exact Hq|].
    split; [|split].
    + apply mk_anc_in. right. exists sp, m. split; [apply self_parent_in; exact Hsp|]. split; [exact Hl|].
      destruct (wf_anc T' Hwf') as [Hself _]. apply Hself. exact Hm.
    + cbn [mk_node nd_spf]. rewrite Hsp, Hl. reflexivity.
    + cbn [mk_node nd_hassp]. rewrite Hsp. reflexivity.
  - intros Hs. assert (Hnone : self_parent (fe e) = None).
    { unfold self_parent. apply N.leb_le in Hs. rewrite Hs. reflexivity. }
    cbn [mk_node nd_hassp nd_spf]. rewrite Hnone. auto.
Qed.

Notation qon := (quorum_on node nd_cr nd_fr nd_spf fcn ws q).

Lemma climb_ge (T : list node) e : forall fuel g F, F <= climb node nd_cr nd_fr nd_spf fcn ws q T fuel e g ->
  forall h, g <= h < F -> qon T e h = true.
Proof.
  induction fuel as [|k IH]; intros g F HF h Hh; cbn [climb] in HF; [lia|].
  destruct (qon T e g) eqn:E; [|lia].
  destruct (N.eq_dec h g) as [->|Hne]; [exact E|]. apply (IH (g + 1) F HF). lia.
Qed.

Lemma frame_facts T n : wfT T -> In n T ->
  (if nd_hassp n then nd_spf n <= nd_fr n else nd_fr n = 1) /\
  exists T' pre, T = pre ++ n :: T' /\ forall g, nd_hassp n = true -> nd_spf n <= g < nd_fr n -> qon T' n g = true.
Proof.
  intros Hwf Hn. destruct (wf_origin T Hwf n Hn) as [T' [e [pre [ET [Hwf' [En [Hpk [Hfresh [Hcr [Hev Hfr]]]]]]]]]].
  unfold r_frame_ok, frame_ok in Hfr. destruct (nd_hassp n) eqn:Hsp.
  - apply andb_prop in Hfr as [H1 H2]. apply N.leb_le in H1, H2. split; [exact H1|].
    exists T', pre. split; [exact ET|]. intros g _ Hg. eapply climb_ge; eauto.
  - apply N.eqb_eq in Hfr. split; [exact Hfr|]. exists T', pre. split; [exact ET|]. intros g Hc. discriminate.
Qed.

Lemma spf_le_fr T n : wfT T -> In n T -> nd_spf n <= nd_fr n.
Proof.
  intros Hwf Hn. destruct (frame_facts T n Hwf Hn) as [H _]. destruct (nd_hassp n) eqn:E; [exact H|].
  destruct (sp_facts T n Hwf Hn) as [Hs [H2 H3]].
  destruct (N.le_gt_cases (nd_seq n) 1) as [Hle|Hgt].
  - destruct (H3 Hle) as [_ ->]. lia.
  - destruct (H2 Hgt) as [sp [_ [_ [_ [_ [_ Hh]]]]]]. congruence.
Qed.

(* walking down the self-parent chain of y to the event with seq s *)
Lemma chain_down T : wfT T -> forall d y s, In y T -> 1 <= s -> nd_seq y = s + N.of_nat d ->
  exists z, In z T /\ nd_cr z = nd_cr y /\ nd_seq z = s /\ In (nd_id z) (nd_anc y) /\ (z = y \/ nd_fr z <= nd_spf y).
Proof.
  intros Hwf. destruct (wf_anc T Hwf) as [Hself [_ Hclosed]].
  induction d as [|d IH]; intros y s Hy Hs Hseq.
  - exists y. split; [exact Hy|]. split; [reflexivity|]. split; [lia|]. split; [apply Hself; exact Hy|left; reflexivity].
  - destruct (sp_facts T y Hwf Hy) as [_ [H2 _]].
    destruct H2 as [sp [Hsp [Hc [Hq [Hin [Hspf Hh]]]]]]; [lia|].
    destruct (IH sp s Hsp Hs ltac:(lia)) as [z [Hz [Hcz [Hsz [Hinz Hor]]]]].
    exists z. split; [exact Hz|]. split; [congruence|]. split; [exact Hsz|]. split.
    + apply (Hclosed y sp Hy Hsp Hin). exact Hinz.
    + right. rewrite Hspf. destruct Hor as [->|Hle]; [lia|].
      pose proof (spf_le_fr T sp Hwf Hsp). lia.
Qed.

(* validators with two different events of equal seq *)
Definition forker (T : list node) (v : nat) : bool :=
  existsb (fun x => existsb (fun y => Nat.eqb (nd_cr x) v && Nat.eqb (nd_cr y) v &&
                                      negb (nd_id x =? nd_id y) && (nd_seq x =? nd_seq y)) T) T.

Lemma forker_false T v x y : forker T v = false -> In x T -> In y T -> nd_cr x = v -> nd_cr y = v ->
  nd_seq x = nd_seq y -> nd_id x = nd_id y.
Proof.
  intros Hf Hx Hy Cx Cy Hs. destruct (N.eq_dec (nd_id x) (nd_id y)) as [E|Hne]; [exact E|]. exfalso.
  assert (forker T v = true); [|congruence].
  unfold forker. apply existsb_exists. exists x. split; [exact Hx|]. apply existsb_exists. exists y. split; [exact Hy|].
  repeat (apply andb_true_intro; split).
  - apply Nat.eqb_eq. exact Cx.
  - apply Nat.eqb_eq. exact Cy.
  - apply negb_true_iff. apply N.eqb_neq. exact Hne.
  - apply N.eqb_eq. exact Hs.
Qed.

Lemma honest_chain_n T : wfT T -> forall v x y, forker T v = false -> In x T -> In y T ->
  nd_cr x = v -> nd_cr y = v -> lebn x y = true \/ lebn y x = true.
Proof.
  intros Hwf v x y Hf Hx Hy Cx Cy.
  assert (Hgen : forall a b, In a T -> In b T -> nd_cr a = v -> nd_cr b = v -> nd_seq a <= nd_seq b -> lebn a b = true).
  { intros a b Ha Hb Ca Cb Hle. destruct (sp_facts T a Hwf Ha) as [Hs _].
    destruct (chain_down T Hwf (N.to_nat (nd_seq b - nd_seq a)) b (nd_seq a) Hb Hs ltac:(lia))
      as [z [Hz [Hcz [Hsz [Hinz _]]]]].
    assert (z = a).
    { apply (wf_inj T Hwf); auto. apply (forker_false T v); auto. congruence. }
    subst z. apply mem_In. exact Hinz. }
  destruct (N.le_ge_cases (nd_seq x) (nd_seq y)) as [H|H].
  - left. apply Hgen; auto.
  - right. apply Hgen; auto.
Qed.

Lemma cr_lt T n : wfT T -> In n T -> (nd_cr n < nv)%nat.
Proof.
  intros Hwf Hn. destruct (wf_origin T Hwf n Hn) as [T' [e [pre [_ [_ [En [_ [_ [Hcr _]]]]]]]]].
  rewrite En, mk_cr. exact Hcr.
Qed.

(* two different roots of one slot: whoever sees both sees a fork *)
Lemma roots_fork_n T : wfT T -> forall f r1 r2,
  In r1 (roots_at node nd_fr nd_spf T f) -> In r2 (roots_at node nd_fr nd_spf T f) ->
  nd_id r1 <> nd_id r2 -> nd_cr r1 = nd_cr r2 -> forkpair node nd_cr T lebn sees_fork_n r1 r2.
Proof.
  intros Hwf f r1 r2 H1 H2 Hne Hc.
  unfold roots_at in H1, H2. apply filter_In in H1 as [I1 R1]. apply filter_In in H2 as [I2 R2].
  unfold is_root_at in R1, R2. apply andb_prop in R1 as [R1a R1b]. apply andb_prop in R2 as [R2a R2b].
  apply N.ltb_lt in R1a, R2a. apply N.leb_le in R1b, R2b.
  destruct (wf_anc T Hwf) as [_ [_ Hclosed]].
  (* generic: seq a <= seq b gives a twin of a below b *)
  assert (Hgen : forall a b, In a T -> In b T -> nd_id a <> nd_id b -> nd_cr a = nd_cr b ->
            nd_spf a < f -> f <= nd_fr a -> nd_spf b < f -> f <= nd_fr b -> nd_seq a <= nd_seq b ->
            forall c, In c T -> lebn a c = true -> lebn b c = true -> sees_fork_n c (nd_cr a) = true).
  { intros a b Ha Hb Hab Hcab Sa Fa Sb Fb Hle c Hcin La Lb.
    destruct (sp_facts T a Hwf Ha) as [Hs _].
    destruct (chain_down T Hwf (N.to_nat (nd_seq b - nd_seq a)) b (nd_seq a) Hb Hs ltac:(lia))
      as [z [Hz [Hcz [Hsz [Hinz Hor]]]]].
    assert (Hza : nd_id z <> nd_id a).
    { intros E. assert (z = a) by (apply (wf_inj T Hwf); auto). subst z.
      destruct Hor as [->|Hfr]; [contradiction|lia]. }
    apply mem_In in La, Lb.
    apply (sf_char T c (nd_cr a) Hwf Hcin). split; [apply (cr_lt T a Hwf Ha)|].
    exists a, z. split; [split; [exact Ha|exact La]|]. split.
    { split; [exact Hz|]. apply (Hclosed c b Hcin Hb Lb). exact Hinz. }
    split; [reflexivity|]. split; [congruence|]. split; [auto|congruence]. }
  split; [exact Hc|]. intros c Hcin L1 L2.
  destruct (N.le_ge_cases (nd_seq r1) (nd_seq r2)) as [H|H].
  - apply (Hgen r1 r2); auto.
  - rewrite Hc. apply (Hgen r2 r1); auto.
Qed.

(* the frame rule: a root of frame f+1 is forkless-caused by a quorum of roots of frame f *)
Lemma qon_mono T' T e g : incl T' T -> qon T' e g = true -> qon T e g = true.
Proof.
  intros Hincl H. unfold quorum_on in *. apply N.leb_le in H. apply N.leb_le.
  etransitivity; [exact H|]. rewrite !wsumP_wsP. apply wsP_mono. intros v _ Hv.
  unfold by_cr in *. apply existsb_exists in Hv as [r [Hr Hp]]. apply existsb_exists. exists r. split; [|exact Hp].
  unfold obs, roots_at in *. apply filter_In in Hr as [Hr Hfc]. apply filter_In in Hr as [Hr Hroot].
  apply filter_In. split; [|exact Hfc]. apply filter_In. split; [apply Hincl; exact Hr|exact Hroot].
Qed.

Lemma roots_quorum_n T : wfT T -> forall f r, 1 <= f -> In r (roots_at node nd_fr nd_spf T (f + 1)) ->
  qon T r f = true.
Proof.
  intros Hwf f r Hf Hr. unfold roots_at in Hr. apply filter_In in Hr as [Hin Hroot].
  unfold is_root_at in Hroot. apply andb_prop in Hroot as [Ha Hb]. apply N.ltb_lt in Ha. apply N.leb_le in Hb.
  destruct (frame_facts T r Hwf Hin) as [H1 [T' [pre [ET Hq]]]].
  destruct (nd_hassp r) eqn:E.
  - apply (qon_mono T' T); [rewrite ET; apply incl_suffix|]. apply Hq; [reflexivity|lia].
  - lia.
Qed.
End Graph.
