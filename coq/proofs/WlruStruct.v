(* Structural facts about model/Wlru.v that hold for EVERY cache, whatever the bounds and the
   weights (no arithmetic assumption, wrap-around included): which entries an operation can
   leave in the cache.  Used by C33 (the roots cache must be correct for every configuration)
   and available to the other users of the LRU model. *)
From Coq Require Import NArith ZArith List Bool Permutation.
From LV Require Import model.Wlru proofs.WlruProofs.
Import ListNotations.
Local Open Scope N_scope.

Section Struct.
  Context {K V : Type}.
  Variable keqb : K -> K -> bool.
  Hypothesis keqb_spec : forall a b, keqb a b = true <-> a = b.
  Notation entry := (entry K V).
  Notation cache := (cache K V).

  Lemma evict_loop_split mw ms (old : list entry) w :
    ev_log (evict_loop mw ms old w) ++ ev_kept (evict_loop mw ms old w) = old.
  Proof.
    revert w. induction old as [|e rest IH]; intros w; cbn [evict_loop]; [reflexivity|].
    destruct (over mw ms (length (e :: rest)) w); cbn [ev_log ev_kept app]; [f_equal; apply IH | reflexivity].
  Qed.

  (* normalize keeps a prefix (the newest part) of the entries *)
  Lemma normalize_entries (c c' : cache) lg n :
    normalize c = (c', lg, n) -> exists ev, c_entries c = c_entries c' ++ ev.
  Proof.
    unfold normalize. intros [= <- <- <-]. cbn [c_entries].
    exists (rev (ev_log (evict_loop (c_max_weight c) (c_max_size c) (rev (c_entries c)) (c_weight c)))).
    rewrite <- rev_app_distr, evict_loop_split, rev_involutive. reflexivity.
  Qed.

  Definition nodup_keys (c : cache) : Prop := NoDup (map e_key (c_entries c)).

  Lemma normalize_nodup (c c' : cache) lg n : normalize c = (c', lg, n) -> nodup_keys c -> nodup_keys c'.
  Proof.
    intros H. destruct (normalize_entries _ _ _ _ H) as [ev E]. unfold nodup_keys. rewrite E, map_app.
    apply nodup_app_l.
  Qed.

  (* Get: same entries (reordered); a hit returns the value stored under exactly this key *)
  Lemma get_struct k (c c' : cache) r :
    get keqb k c = (c', r) -> nodup_keys c ->
    nodup_keys c' /\ (forall e, In e (c_entries c') <-> In e (c_entries c)) /\
    match r with
    | Some v => exists e, In e (c_entries c) /\ e_key e = k /\ e_val e = v
    | None => forall e, In e (c_entries c) -> e_key e <> k
    end.
  Proof.
    unfold get, nodup_keys. destruct (find_entry keqb k (c_entries c)) as [e|] eqn:F; intros [= <- <-] Hd.
    - cbn [c_entries]. destruct (find_split keqb keqb_spec _ _ _ F) as (a & b & Hl & Hr & Hn).
      destruct (find_entry_some keqb keqb_spec _ _ _ F) as [Hi Hk].
      destruct (nodup_remove_key keqb keqb_spec k _ Hd) as [N1 N2].
      split; [|split].
      + cbn [map]. rewrite Hk. constructor; assumption.
      + intros x. rewrite Hr, Hl. cbn [In]. rewrite !in_app_iff. cbn [In]. tauto.
      + exists e. repeat split; assumption.
    - split; [exact Hd | split; [tauto|]]. intros e He Hk.
      apply (find_entry_none keqb keqb_spec) in F. apply F. unfold ekeys. apply in_map_iff. exists e. split; [exact Hk | exact He].
  Qed.

  (* Add: afterwards every entry is the new one or an old one under another key *)
  Lemma add_struct k v w (c c' : cache) lg n :
    add keqb k v w c = (c', lg, n) -> nodup_keys c ->
    nodup_keys c' /\
    forall e, In e (c_entries c') -> e = mkEntry k v w \/ (In e (c_entries c) /\ e_key e <> k).
  Proof.
    rewrite (add_unfold keqb). intros Hn Hd. unfold nodup_keys in *.
    destruct (nodup_remove_key keqb keqb_spec k _ Hd) as [N1 N2].
    assert (Hmid : c_entries (add_mid keqb k v w c) = mkEntry k v w :: remove_key keqb k (c_entries c)).
    { unfold add_mid. destruct (find_entry keqb k (c_entries c)) eqn:F; [reflexivity|].
      cbn [c_entries]. apply (find_entry_none keqb keqb_spec) in F. rewrite (remove_key_notin keqb keqb_spec) by exact F. reflexivity. }
    assert (Hdm : nodup_keys (add_mid keqb k v w c)).
    { unfold nodup_keys. rewrite Hmid. cbn [map e_key]. constructor; assumption. }
    split; [exact (normalize_nodup _ _ _ _ Hn Hdm)|].
    destruct (normalize_entries _ _ _ _ Hn) as [ev E]. rewrite Hmid in E.
    intros e He. assert (He' : In e (mkEntry k v w :: remove_key keqb k (c_entries c))) by (rewrite E; apply in_or_app; left; exact He).
    destruct He' as [<-|He']; [left; reflexivity | right].
    split.
    - destruct (find_entry keqb k (c_entries c)) as [old|] eqn:F.
      + destruct (find_split keqb keqb_spec _ _ _ F) as (a & b & Hl & Hr & _). rewrite Hr in He'. rewrite Hl.
        apply in_app_iff in He'. apply in_app_iff. cbn [In]. tauto.
      + apply (find_entry_none keqb keqb_spec) in F. rewrite (remove_key_notin keqb keqb_spec) in He' by exact F. exact He'.
    - intros Hk. apply N2. unfold ekeys. apply in_map_iff. exists e. split; [exact Hk | exact He'].
  Qed.

  Lemma purge_struct (c : cache) : c_entries (fst (purge c)) = [].
  Proof. reflexivity. Qed.

  Lemma new_struct mw ms (c : cache) : new mw ms = Some c -> c_entries c = [].
  Proof. unfold new. destruct (z_neg ms); [discriminate|]. intros [= <-]. reflexivity. Qed.
End Struct.
