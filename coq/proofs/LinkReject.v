(* L1, the REJECTION direction.  An event that the reference rejects with code 1 (every other check passes,
   the claimed frame is not allowed: r_frame_ok = false) is rejected by the model with ErrWrongFrame, and
   nothing but forkless-cause cache entries under its id is left behind (reject_step); the Build of such an
   event still returns the reference's frame_high (build_step_g).  An event that the reference does not
   offer (code 2: duplicate id or unknown parent) is stopped by the application's guard (skip_step).
   The set J of "spent" ids (ids of the events rejected so far) GROWS along the run: Sim_J_mono. *)
From Coq Require Import NArith ZArith List Lia Bool ZifyBool ZifyN ZifyNat.
From LV Require Import lib.Bytes lib.VecListFacts model.Codec model.VecIndex spec.FcSpec model.Abft model.AbftRun spec.ElectionSpec
  lib.WSumBft proofs.FcSpecFacts proofs.VecInv proofs.VecStep proofs.VecMain
  proofs.AbftFrame proofs.AbftCount proofs.AbftIds proofs.AbftBuild proofs.AbftInvLemmas
  proofs.BftCore proofs.BftElection proofs.BftMono proofs.BftGraph proofs.BftMain proofs.BftRun proofs.BftFcSpec proofs.BftAccept
  proofs.LinkVals proofs.LinkDefs proofs.LinkSim proofs.LinkFrame proofs.LinkTally proofs.LinkVote proofs.LinkCheat
  proofs.LinkElect proofs.LinkMono proofs.LinkStep proofs.LinkRename proofs.LinkBuild proofs.LinkNoise.
Import ListNotations.
Local Open Scope N_scope.

Definition with_fr (e : fev) (f : N) : fev := {| fe := fe e; ffr := f |}.

(* the highest allowed frame is allowed *)
Lemma frame_high_ok vals T m : nd_fr m = r_frame_high vals T m -> r_frame_ok vals T m = true.
Proof.
  unfold r_frame_ok, frame_ok, r_frame_high, frame_high. destruct (nd_hassp m); intros H; [|rewrite H; reflexivity].
  pose proof (climb_ge_start vals T m 100 (nd_spf m)) as L. rewrite <- H in L.
  rewrite (climb_char vals T m (N.to_nat (nd_fr m - nd_spf m)) (nd_spf m) (nd_fr m)).
  - apply andb_true_iff. split; apply N.leb_le; lia.
  - exact L.
  - intros h Hh. apply (climb_ge vals T m 100 (nd_spf m) (nd_fr m)); [rewrite <- H; lia | exact Hh].
  - left. lia.
Qed.

Section Reject.
Variable cap : nat.
Variable pol : policy.
Variable ep : N.
Variable lam : fev -> N.
Variable vals : list (N * N).
Hypothesis Hvals : vals_ok vals.
Variable K : N.
Hypothesis HK : K < 2 ^ 192.

Notation ws := (map snd vals).
Notation nv := (length vals).
Notation ae := (to_aevent ep lam vals).
Notation Core := (Core ep lam vals).
Notation cache_inv := (cache_inv vals).

(* ---------- the set of spent ids may grow ---------- *)
Lemma Sim_J_mono (J J' : N -> Prop) i T Dr B : (forall a, J a -> J' a) -> (forall e, In e Dr -> ~ J' (eid (fe e))) ->
  Sim ep lam vals J K i T Dr B -> Sim ep lam vals J' K i T Dr B.
Proof.
  intros Sub NJ [W [S [[C CI I0 N0] AV]] FR CT PR SG CH]. constructor; auto.
  - exists S. split; [|exact AV]. constructor; auto.
    intros a b r Hc. destruct (CI a b r Hc) as [[Tm|Ja]|Real]; [left; left; exact Tm | left; right; apply Sub; exact Ja | right; exact Real].
  - intros e He. split; [apply (FR e He) | apply NJ; exact He].
Qed.

Section WithJ.
Variable J : N -> Prop.
Hypothesis HJ : forall a, J a -> id_fresh K a.
Notation Sim := (Sim ep lam vals J K).

(* ---------- Build of an event whose claimed frame may be wrong ---------- *)
Lemma build_step_g i T Dr B e : Sim i T Dr B ->
  parents_known T e -> (ecr (fe e) < nv)%nat -> ev_wf T e -> nlookup (eid (fe e)) T = None ->
  l_ctr (i_st i) + 1 <= K ->
  exists i', step cap pol sample i (OpB (ae e)) = (ObsB (Ok (r_frame_high vals T (mk_node nv T e))), i', false) /\
    Sim i' T Dr B /\ l_ctr (i_st i') = l_ctr (i_st i) + 1.
Proof.
  intros [W [S [ES0 AV]] FR CT PR SG CH] PK CR EW NL HKc.
  assert (Hctr : l_ctr (i_st i) + 1 < 2 ^ 192) by lia.
  set (st := i_st i) in *. set (es := i_es i) in *.
  destruct ES0 as [C CI I0 N0].
  pose proof (wfTD_wfT vals T Dr W) as HwfT.
  assert (G : guard i (ae e) false = None).
  { unfold guard. fold st. cbn [andb to_aevent a_id a_epoch a_parents a_creator].
    rewrite (co_epoch _ _ _ _ _ _ _ _ C), N.eqb_refl. cbn [negb].
    replace (forallb (fun p => AbftRun.mem p (i_proc i)) (epar (fe e))) with true.
    2:{ symmetry. apply forallb_forall. intros p Hp. apply mem_true, PR. destruct (PK p Hp) as [m L].
        apply nlookup_some in L as [Hm Em]. destruct (node_event vals T Dr m W Hm) as [e0 [He0 [E0 _]]].
        unfold ids_of. apply in_map_iff. exists e0. split; [congruence | exact He0]. }
    cbn [negb]. rewrite (co_vals _ _ _ _ _ _ _ _ C), (v_exists_vid vals _ (vals_nodup vals Hvals) CR). reflexivity. }
  cbn [step]. rewrite G. fold st es.
  unfold build_with. set (c := l_ctr st + 1).
  assert (Sc : sample c = Some (be 24 c)).
  { unfold sample. replace (2 ^ 192 <=? c) with false by (symmetry; apply N.leb_gt; exact Hctr). reflexivity. }
  rewrite Sc. cbn [to_aevent a_epoch a_lamport].
  set (tmp := mk_id_bytes ep (lam e) (be 24 c)).
  set (h := r_frame_high vals T (mk_node nv T e)).
  set (e' := {| fe := {| eid := tmp; ecr := ecr (fe e); eseq := eseq (fe e); epar := epar (fe e) |}; ffr := h |}).
  set (x := set_id (ae e) tmp).
  assert (NLt : nlookup tmp T = None).
  { destruct (nlookup tmp T) as [m|] eqn:L; [|reflexivity]. exfalso. apply nlookup_some in L as [Hm Em].
    destruct (node_event vals T Dr m W Hm) as [e0 [He0 [E0 _]]].
    apply (proj1 (FR e0 He0)). exists ep, (lam e), c, (be 24 c). split; [unfold c; lia|]. split; [exact Sc|]. rewrite E0, Em. reflexivity. }
  assert (NTt : ~ stale J (l_ctr st) tmp).
  { intros [(ep0 & lm & c2 & t2 & Bc & S2 & E2)|Jt].
    - apply (temp_id_inj _ _ _ _ _ _ _ _ Sc S2) in E2. unfold c in E2. lia.
    - apply (HJ _ Jt). exists ep, (lam e), c, (be 24 c). split; [unfold c; lia|]. split; [exact Sc | reflexivity]. }
  cbn [l_vals l_idx l_epoch set_ctr].
  rewrite (co_vals _ _ _ _ _ _ _ _ C).
  assert (Vx : vev vals x = fe e').
  { unfold vev, x, set_id, to_aevent. cbn [a_id a_creator a_seq a_parents].
    rewrite (v_idx_vid vals _ (vals_nodup vals Hvals) CR). reflexivity. }
  rewrite Vx.
  assert (EW' : ev_wf T e') by exact EW.
  assert (PK' : parents_known T e') by exact PK.
  pose proof (accepted_wf_new ep lam vals st es T Dr T e' C PK' NLt CR EW') as WN.
  destruct (add_preserves nv (l_idx st) (fe e') (co_vinv _ _ _ _ _ _ _ _ C) WN) as [s' [Hadd [I' Ev']]].
  rewrite Hadd.
  replace (a_epoch x =? l_epoch st) with true by (symmetry; rewrite (co_epoch _ _ _ _ _ _ _ _ C); apply N.eqb_refl).
  replace (v_exists vals (a_creator x)) with true by (symmetry; apply (v_exists_vid vals _ (vals_nodup vals Hvals) CR)).
  cbn [negb orb].
  set (st0 := set_ctr st c).
  set (n' := mk_node nv T e').
  assert (Eh : r_frame_high vals T n' = h).
  { unfold n'. rewrite (frame_high_rename vals T HwfT (with_fr e h) e' eq_refl eq_refl eq_refl eq_refl NL NLt).
    apply (frame_high_fr vals T e (with_fr e h) eq_refl). }
  assert (FO' : r_frame_ok vals T n' = true) by (apply frame_high_ok; rewrite Eh; reflexivity).
  assert (W' : wfTD vals (n' :: T) (e' :: Dr)) by (constructor; assumption).
  assert (C1 : Core (set_idx st0 s') es (n' :: T) (e' :: Dr) T).
  { destruct C as [A Bv Cc D E F Gs H Ir]. constructor; auto.
    - cbn [l_idx set_idx]. rewrite Ev', E. reflexivity.
    - intros e0 [<-|He0] [m [Hm Em]].
      + exfalso. exact (nlookup_none _ _ NLt m Hm Em).
      + apply F; [exact He0 | exists m; auto].
    - intros y Hy. right. exact Hy. }
  assert (CIa : cache_inv (stale J (l_ctr st)) (set_idx st0 s') (n' :: T) T).
  { intros a b r Hc. destruct (CI a b r Hc) as [Tm|(na & nb & Ia & Ib & R)]; [left; exact Tm|].
    right. exists na, nb. split; [right; exact Ia | auto]. }
  destruct (calc_frame_sim cap ep lam vals Hvals (set_idx st0 s') es (n' :: T) (e' :: Dr) T (stale J (l_ctr st)) (n' :: T) n' x false
              C1 (incl_refl _) (or_introl eq_refl) NTt eq_refl CIa) as [c1 [ECF CI1]].
  rewrite ECF.
  rewrite (frame_build_sim ep lam vals Hvals (set_idx st0 s') es T Dr e' x C1 eq_refl eq_refl).
  fold n'. rewrite Eh.
  set (st' := set_idx (set_fcc (set_idx st0 s') c1) (l_idx st0)).
  exists {| i_st := st'; i_es := es; i_proc := i_proc i |}. split; [reflexivity|]. split; [|reflexivity].
  assert (Est : st' = set_fcc (set_ctr st c) c1) by (unfold st', st0; destruct st; reflexivity).
  constructor; cbn [i_st i_es i_proc]; auto.
  - rewrite Est. cbn [l_ctr set_fcc set_ctr]. exists S. split; [|exact AV]. constructor.
    + apply Core_fcc, Core_ctr. exact C.
    + intros a b r Hc. cbn [l_fcc set_fcc] in Hc.
      destruct (CI1 a b r Hc) as [Tm|(na & nb & [<-|Ia] & Ib & Ea & Eb & R)].
      * left. destruct Tm as [(ep0 & lm & c2 & t2 & Bc & S2 & E2)|Jn]; [left | right; exact Jn].
        exists ep0, lm, c2, t2. split; [unfold c; lia | auto].
      * left. left. rewrite <- Ea. exists ep, (lam e), c, (be 24 c). split; [unfold c; lia|]. split; [exact Sc | reflexivity].
      * right. exists na, nb. auto.
    + exact I0.
    + exact N0.
Qed.

(* ---------- the outcome of Process on an event whose claimed frame is not allowed ---------- *)
Lemma reject_obs i T Dr B e : Sim i T Dr B ->
  parents_known T e -> nlookup (eid (fe e)) T = None -> (ecr (fe e) < nv)%nat -> ev_wf T e ->
  r_frame_ok vals T (mk_node nv T e) = false -> id_fresh K (eid (fe e)) -> ~ J (eid (fe e)) ->
  exists c1, step cap pol sample i (OpP (ae e)) =
    (ObsP (Some EWrongFrame) [] (l_ldf (i_st i)) (l_epoch (i_st i)),
     {| i_st := set_fcc (i_st i) c1; i_es := es_remove (eid (fe e)) (i_es i); i_proc := i_proc i |}, false).
Proof.
  intros [W [S [ES0 AV]] FR CT PR SG CH] PK NL CR EW FO Fe Je.
  set (st := i_st i) in *. set (es := i_es i) in *.
  destruct ES0 as [C CI I0 N0].
  pose proof (wfTD_wfT vals T Dr W) as HwfT.
  set (h := r_frame_high vals T (mk_node nv T e)).
  set (e2 := with_fr e h). set (n2 := mk_node nv T e2).
  assert (FO2 : r_frame_ok vals T n2 = true).
  { apply frame_high_ok. unfold n2. rewrite (frame_high_fr vals T e e2 eq_refl). reflexivity. }
  assert (W' : wfTD vals (n2 :: T) (e2 :: Dr)) by (constructor; assumption).
  assert (Hnotin : ~ In (eid (fe e)) (ids_of Dr)).
  { intros Hin. destruct (in_ids_lookup vals T Dr _ W Hin) as [m L]. congruence. }
  assert (G : guard i (ae e) true = None).
  { unfold guard. fold st. cbn [andb to_aevent a_id a_epoch a_parents a_creator].
    replace (AbftRun.mem (eid (fe e)) (i_proc i)) with false.
    2:{ symmetry. destruct (AbftRun.mem (eid (fe e)) (i_proc i)) eqn:M; [|reflexivity]. exfalso. apply Hnotin, PR, mem_true, M. }
    rewrite (co_epoch _ _ _ _ _ _ _ _ C), N.eqb_refl. cbn [negb].
    replace (forallb (fun p => AbftRun.mem p (i_proc i)) (epar (fe e))) with true.
    2:{ symmetry. apply forallb_forall. intros p Hp. apply mem_true, PR. destruct (PK p Hp) as [m L].
        apply nlookup_some in L as [Hm Em]. destruct (node_event vals T Dr m W Hm) as [e0 [He0 [E0 _]]].
        unfold ids_of. apply in_map_iff. exists e0. split; [congruence | exact He0]. }
    cbn [negb]. rewrite (co_vals _ _ _ _ _ _ _ _ C), (v_exists_vid vals _ (vals_nodup vals Hvals) CR). reflexivity. }
  cbn [step]. rewrite G. fold st es.
  set (es1 := aput (a_id (ae e)) (ae e) es).
  pose proof (accepted_wf_new ep lam vals st es T Dr T e2 C PK NL CR EW) as WN.
  destruct (add_preserves nv (l_idx st) (fe e2) (co_vinv _ _ _ _ _ _ _ _ C) WN) as [s' [Hadd [I' Ev']]].
  unfold process. rewrite (co_vals _ _ _ _ _ _ _ _ C), (vev_ae ep lam vals Hvals e CR).
  change (fe e) with (fe e2). rewrite Hadd.
  assert (Hes1' : forall e0, In e0 Dr -> get_event es1 (eid (fe e0)) = Some (ae e0)).
  { intros e0 He0. unfold es1, get_event. cbn [to_aevent a_id]. rewrite alookup_aput_neq.
    - apply (co_es _ _ _ _ _ _ _ _ C); [exact He0|]. destruct (event_node vals T Dr e0 W He0) as [m [Hm [Em _]]]. exists m. auto.
    - intros E0. apply Hnotin. rewrite <- E0. unfold ids_of. apply in_map_iff. exists e0. auto. }
  assert (C1 : Core (set_idx st s') es1 (n2 :: T) (e2 :: Dr) T).
  { destruct C as [A Bv Cc D E F Gs H Ir]. constructor; auto.
    - cbn [l_idx set_idx]. rewrite Ev', E. reflexivity.
    - intros e0 [<-|He0] [m [Hm Em]]; [exfalso; exact (nlookup_none _ _ NL m Hm Em) | apply Hes1'; exact He0].
    - intros y Hy. right. exact Hy. }
  assert (NTn : ~ stale J (l_ctr st) (nd_id n2)).
  { intros [Tm|Jn]; [exact (id_fresh_not_temp K _ _ CT Fe Tm) | exact (Je Jn)]. }
  assert (CIa : cache_inv (stale J (l_ctr st)) (set_idx st s') (n2 :: T) T).
  { intros a b r Hc. destruct (CI a b r Hc) as [Tm|(na & nb & Ia & Ib & R)]; [left; exact Tm|].
    right. exists na, nb. split; [right; exact Ia | auto]. }
  destruct (calc_frame_sim cap ep lam vals Hvals (set_idx st s') es1 (n2 :: T) (e2 :: Dr) T (stale J (l_ctr st)) (n2 :: T) n2 (ae e) true
              C1 (incl_refl _) (or_introl eq_refl) NTn eq_refl CIa) as [c1 [ECF CI1]].
  rewrite ECF.
  destruct (frame_check_rej ep lam vals Hvals (set_idx st s') es1 T Dr e2 (ae e) C1 eq_refl eq_refl e eq_refl eq_refl FO) as [fr [FP NE]].
  rewrite FP.
  replace (a_frame (ae e) =? fr) with false by (symmetry; apply N.eqb_neq; intros E; apply NE; symmetry; exact E).
  cbn [negb]. exists c1. cbn [fatal].
  replace (set_idx (set_fcc (set_idx st s') c1) (l_idx st)) with (set_fcc st c1) by (destruct st; reflexivity).
  reflexivity.
Qed.

End WithJ.

(* ---------- Process of an event that the reference rejects with code 1 ---------- *)
Lemma reject_step (J : N -> Prop) (HJ : forall a, J a -> id_fresh K a) i T Dr B e : Sim ep lam vals J K i T Dr B -> few_forkers vals T ->
  parents_known T e -> nlookup (eid (fe e)) T = None -> (ecr (fe e) < nv)%nat -> ev_wf T e ->
  r_frame_ok vals T (mk_node nv T e) = false -> id_fresh K (eid (fe e)) -> ~ J (eid (fe e)) ->
  exists i', step cap pol sample i (OpP (ae e)) = (ObsP (Some EWrongFrame) [] (l_ldf (i_st i)) (l_epoch (i_st i)), i', false) /\
    Sim ep lam vals (fun a => J a \/ a = eid (fe e)) K i' T Dr B /\ l_ctr (i_st i') = l_ctr (i_st i).
Proof.
  intros HS Hff PK NL CR EW FO Fe Je.
  destruct (reject_obs J i T Dr B e HS PK NL CR EW FO Fe Je) as [c1 E].
  set (J' := fun a => J a \/ a = eid (fe e)).
  assert (HJ' : forall a, J' a -> id_fresh K a) by (intros a [Ja| ->]; [apply HJ; exact Ja | exact Fe]).
  assert (Hnotin : ~ In (eid (fe e)) (ids_of Dr)).
  { intros Hin. destruct (in_ids_lookup vals T Dr _ (sm_wf _ _ _ _ _ _ _ _ _ HS) Hin) as [m L]. congruence. }
  assert (HS' : Sim ep lam vals J' K i T Dr B).
  { apply (Sim_J_mono J J'); [intros a Ja; left; exact Ja | | exact HS].
    intros e0 He0 [Ja|Ea]; [exact (proj2 (sm_fresh _ _ _ _ _ _ _ _ _ HS e0 He0) Ja)|].
    apply Hnotin. rewrite <- Ea. unfold ids_of. apply in_map_iff. exists e0. auto. }
  destruct (noise_step cap pol ep lam vals Hvals J' K HJ' HK i T Dr B (OpP (ae e)) HS' Hff) as [ob [i' [E' [HS2 C2]]]].
  { cbn [noise_ok_p]. split; [right; reflexivity|]. rewrite E. cbn [fst]. exact I. }
  { cbn [is_build]. discriminate. }
  rewrite E in E'. inversion E'; subst ob i'. eexists. split; [exact E|]. split; [exact HS2 | reflexivity].
Qed.
End Reject.

(* ================= the application's guard, as a function of the input ================= *)
Definition guard_in (ep : N) (vals : list (N * N)) (ids : list N) (x : aevent) (check_dup : bool) : option N :=
  if check_dup && AbftRun.mem (a_id x) ids then Some 1
  else if negb (a_epoch x =? ep) then Some 2
  else if negb (forallb (fun p => AbftRun.mem p ids) (a_parents x)) then Some 3
  else if negb (v_exists vals (a_creator x)) then Some 4
  else None.

(* noise that needs no look at the outcome: any Build, a Process that the guard stops, restarts, probes *)
Definition noise_in (ep : N) (vals : list (N * N)) (ids : list N) (o : op) : Prop :=
  match o with
  | OpP x => guard_in ep vals ids x true <> None
  | OpReset _ _ => False
  | _ => True
  end.

Lemma mem_ext a l l' : (forall x, In x l <-> In x l') -> AbftRun.mem a l = AbftRun.mem a l'.
Proof.
  intros H. apply eq_true_iff_eq. rewrite !mem_true. apply H.
Qed.

Section Guard.
Variable cap : nat.
Variable pol : policy.
Variable ep : N.
Variable lam : fev -> N.
Variable vals : list (N * N).
Hypothesis Hvals : vals_ok vals.
Variable J : N -> Prop.
Variable K : N.
Hypothesis HJ : forall a, J a -> id_fresh K a.
Hypothesis HK : K < 2 ^ 192.
Notation nv := (length vals).
Notation ae := (to_aevent ep lam vals).
Notation Sim := (Sim ep lam vals J K).

Lemma guard_in_eq i T Dr B x b : Sim i T Dr B -> guard i x b = guard_in ep vals (ids_of Dr) x b.
Proof.
  intros [W [S [[C CI I0 N0] AV]] FR CT PR SG CH]. unfold guard, guard_in.
  rewrite (co_epoch _ _ _ _ _ _ _ _ C), (co_vals _ _ _ _ _ _ _ _ C), (mem_ext (a_id x) _ _ PR).
  replace (forallb (fun p => AbftRun.mem p (i_proc i)) (a_parents x)) with (forallb (fun p => AbftRun.mem p (ids_of Dr)) (a_parents x)); [reflexivity|].
  induction (a_parents x) as [|p t IH]; cbn [forallb]; [reflexivity|]. rewrite IH, (mem_ext p _ _ PR). reflexivity.
Qed.

(* an operation that the guard stops *)
Lemma skip_step i T Dr B x b : Sim i T Dr B -> guard_in ep vals (ids_of Dr) x b <> None ->
  exists w, guard_in ep vals (ids_of Dr) x b = Some w /\
    step cap pol sample i (if b then OpP x else OpB x) = (ObsSkip w, i, false).
Proof.
  intros HS G. destruct (guard_in ep vals (ids_of Dr) x b) as [w|] eqn:E; [|congruence].
  exists w. split; [reflexivity|]. rewrite <- (guard_in_eq i T Dr B x b HS) in E.
  destruct b; cbn [step]; rewrite E; reflexivity.
Qed.

(* an event that the reference does not offer (code 2) because its id is known or a parent is not *)
Lemma code2_guard T Dr e : wfTD vals T Dr -> fst (snd (add_event vals T e)) = 2 -> (ecr (fe e) < nv)%nat ->
  exists w, guard_in ep vals (ids_of Dr) (ae e) true = Some w /\ w <> 2.
Proof.
  intros W C2 CR. unfold add_event in C2.
  destruct (existsb (fun p => match nlookup p T with None => true | Some _ => false end) (epar (fe e))) eqn:E1.
  - (* unknown parent *)
    apply existsb_exists in E1 as [p [Hp Hn]]. destruct (nlookup p T) as [m|] eqn:L; [discriminate|].
    assert (Np : AbftRun.mem p (ids_of Dr) = false).
    { destruct (AbftRun.mem p (ids_of Dr)) eqn:M; [|reflexivity]. apply mem_true in M.
      destruct (in_ids_lookup vals T Dr p W M) as [m L']. congruence. }
    unfold guard_in. cbn [to_aevent a_id a_epoch a_parents a_creator andb]. rewrite N.eqb_refl. cbn [negb].
    destruct (AbftRun.mem (eid (fe e)) (ids_of Dr)); [exists 1; split; [reflexivity | lia]|].
    replace (forallb (fun p0 => AbftRun.mem p0 (ids_of Dr)) (epar (fe e))) with false.
    + exists 3. split; [reflexivity | lia].
    + symmetry. apply not_true_is_false. intros F. rewrite forallb_forall in F. rewrite (F p Hp) in Np. discriminate.
  - cbn [orb] in C2. destruct (nlookup (eid (fe e)) T) as [m|] eqn:L.
    + (* known id *)
      assert (M : AbftRun.mem (eid (fe e)) (ids_of Dr) = true).
      { apply mem_true. destruct (in_dec N.eq_dec (eid (fe e)) (ids_of Dr)) as [H|H]; [exact H|].
        rewrite (not_in_ids_lookup vals T Dr _ W H) in L. discriminate. }
      unfold guard_in. cbn [to_aevent a_id andb]. rewrite M. exists 1. split; [reflexivity | lia].
    + cbn [orb] in C2. replace (Nat.ltb (ecr (fe e)) nv) with true in C2 by (symmetry; apply Nat.ltb_lt; exact CR).
      cbn [negb] in C2. destruct (negb (ev_wf_b T e)); [cbn in C2; lia|].
      destruct (r_frame_ok vals T (mk_node nv T e)); cbn in C2; lia.
Qed.

(* noise that is judged by the input alone keeps the simulation *)
Lemma noise_in_step i T Dr B o : Sim i T Dr B -> few_forkers vals T -> noise_in ep vals (ids_of Dr) o ->
  (is_build o = true -> l_ctr (i_st i) + 1 <= K) ->
  exists ob i', step cap pol sample i o = (ob, i', false) /\ Sim i' T Dr B /\
    l_ctr (i_st i') <= l_ctr (i_st i) + (if is_build o then 1 else 0).
Proof.
  intros HS Hff NI HB.
  destruct o as [x|x| |ep1 raw|id|f|a b|]; cbn [noise_in] in NI;
    try (match goal with |- context [step _ _ _ _ ?o] => apply (noise_step cap pol ep lam vals Hvals J K HJ HK i T Dr B o HS Hff I HB) end).
  - destruct (skip_step i T Dr B x true HS NI) as [w [_ E]]. cbn [is_build].
    exists (ObsSkip w), i. split; [exact E|]. split; [exact HS | lia].
  - destruct NI.
Qed.
End Guard.
