(* audit-F F4: the fuel the model gives to its loops is always enough: no call of Process, Build or
   Bootstrap returns EFuel (given the invariants elinv and V, which hold in every reachable state). *)
From Coq Require Import NArith ZArith List Lia Bool ZifyBool ZifyN ZifyNat.
From LV Require Import model.VecIndex model.Abft proofs.AbftStruct proofs.AbftFrame proofs.AbftSeal
  proofs.AbftDfsFuel proofs.AbftRoots proofs.AbftRooted proofs.AbftBuild.
Import ListNotations.
Local Open Scope N_scope.

Definition nofuel {A} (r : result A) : Prop := r <> Err EFuel.

Section Fuel.
Variable cap : nat.
Variable eb : N -> N -> N -> list N -> list N -> option vals.

(* the election functions without own fuel never produce EFuel *)
Lemma choose_atropos_loop_nf ids dec f : nofuel (choose_atropos_loop ids dec f).
Proof.
  induction ids as [|v t IH]; cbn [choose_atropos_loop]; [discriminate|].
  destruct (alookup v dec) as [vt|]; [|discriminate]. destruct (vt_yes vt); [discriminate | exact IH].
Qed.
Lemma tally_nf ev votes subj : forall obs sh yes no all, nofuel (tally ev votes subj obs sh yes no all).
Proof.
  induction obs as [|r t IH]; intros sh yes no all; cbn [tally]; [discriminate|].
  destruct (votes_get (r, subj) votes) as [vt|]; [|discriminate].
  destruct (vt_yes vt && _); [discriminate|].
  destruct (count_id ev all (r_val r)) as [fresh all']. destruct (negb fresh); [discriminate | apply IH].
Qed.
Lemma vote_subjects_nf r1 obs nr : forall subjects el, fst (vote_subjects r1 obs nr subjects el) <> Some EFuel.
Proof.
  induction subjects as [|s t IH]; intros el; cbn [vote_subjects fst]; [discriminate|].
  destruct r1.
  - destruct (observed_map_get obs s); apply IH.
  - pose proof (tally_nf (el_vals el) (el_votes el) s obs None (new_counter (el_vals el)) (new_counter (el_vals el)) (new_counter (el_vals el))) as T.
    destruct (tally _ _ _ _ _ _ _ _) as [[[[sh yes] no] all]|x].
    + destruct (negb (has_quorum (el_vals el) all)); [cbn; discriminate | apply IH].
    + cbn [fst]. intros H; inversion H; subst. apply T. reflexivity.
Qed.
Lemma process_root_nf st nr : nofuel (fst (process_root cap st nr)).
Proof.
  unfold process_root.
  pose proof (choose_atropos_loop_nf (v_ids (el_vals (l_el st))) (el_decided (l_el st)) (el_frame (l_el st))) as C.
  unfold choose_atropos at 1.
  destruct (choose_atropos_loop _ _ _) as [[r|]|x]; cbn [fst]; [discriminate| |exact C].
  destruct (r_frame nr <=? el_frame (l_el st)); cbn [fst]; [discriminate|].
  destruct (observed_roots cap st (r_id nr) (r_frame nr - 1)) as [obs st1].
  pose proof (vote_subjects_nf (r_frame nr - el_frame (l_el st) =? 1) obs nr (not_decided (l_el st)) (l_el st)) as V0.
  destruct (vote_subjects _ _ _ _ _) as [e el']. cbn [fst] in V0.
  destruct e as [x|]; cbn [fst].
  - intros H; inversion H; subst. apply V0. reflexivity.
  - apply choose_atropos_loop_nf.
Qed.
Lemma pkr_frame_nf : forall frs st, nofuel (fst (pkr_frame cap st frs)).
Proof.
  induction frs as [|r t IH]; intros st; cbn [pkr_frame fst]; [discriminate|].
  pose proof (process_root_nf st r) as P.
  destruct (process_root cap st r) as [[[d|]|x] st1]; cbn [fst] in *; [discriminate | apply IH | exact P].
Qed.

(* processKnownRoots: it moves to frame f+1 only when frame f has a stored root *)
Lemma process_known_roots_nf : forall fuel st f, (cnt_from (l_roots st) f < fuel)%nat ->
  nofuel (fst (process_known_roots cap fuel st f)).
Proof.
  induction fuel as [|fu IH]; intros st f Hlt; [lia|]. cbn [process_known_roots].
  pose proof (pkr_frame_nf (get_frame_roots st f) st) as P.
  destruct (pkr_frame_core cap (get_frame_roots st f) st) as [SC _].
  destruct (pkr_frame cap st (get_frame_roots st f)) as [[[d|]|x] st1]; cbn [fst snd] in *; [discriminate| |exact P].
  destruct (get_frame_roots st f) as [|r0 t] eqn:G; cbn [fst]; [discriminate|].
  apply IH. destruct SC as (_&_&_&A4&_). rewrite A4.
  assert (Hr : exists r, In r (l_roots st) /\ r_frame r = f).
  { exists r0. assert (Hin : In r0 (get_frame_roots st f)) by (rewrite G; left; reflexivity).
    unfold get_frame_roots in Hin. apply filter_In in Hin as [H1 H2]. apply N.eqb_eq in H2. auto. }
  pose proof (cnt_from_step (l_roots st) f Hr). lia.
Qed.

Lemma on_frame_decided_nf es st f atr : f <> 0 -> nofuel (fst (on_frame_decided eb es st f atr)).
Proof.
  intros Hf. unfold on_frame_decided, apply_atropos.
  pose proof (confirm_never_out_of_fuel es f atr (l_conf st) Hf) as D.
  destruct (dfs_confirm _ _ _ _ _ _) as [[dl conf']|x]; cbn [fst].
  - destruct (b_seal _); cbn; discriminate.
  - intros H; inversion H; subst. apply D. reflexivity.
Qed.

(* bootstrapElection: every decided frame has a stored root (V), so the number of stored roots at frames
   above LastDecidedFrame strictly decreases *)
Lemma bootstrap_election_nf es : forall fuel st bl, V st -> elinv st ->
  (cnt_from (l_roots st) (l_ldf st + 1) < fuel)%nat ->
  nofuel (fst (fst (bootstrap_election cap eb fuel es st bl))).
Proof.
  induction fuel as [|fu IH]; intros st bl HV I Hlt; [lia|]. cbn [bootstrap_election].
  pose proof (process_known_roots_nf (roots_fuel st) st (l_ldf st + 1)) as P.
  assert (Hrf : (cnt_from (l_roots st) (l_ldf st + 1) < roots_fuel st)%nat).
  { unfold roots_fuel. pose proof (cnt_from_le (l_roots st) (l_ldf st + 1)). lia. }
  specialize (P Hrf).
  destruct (process_known_roots_V cap (roots_fuel st) st (l_ldf st + 1) HV) as [V1 N1].
  destruct (process_known_roots_core cap (roots_fuel st) st (l_ldf st + 1)) as [SC DF].
  destruct (process_known_roots cap (roots_fuel st) st (l_ldf st + 1)) as [[[[df atr]|]|x] st1]; cbn [fst snd] in *;
    [|discriminate|intros H; inversion H; subst; apply P; reflexivity].
  specialize (DF _ _ eq_refl). specialize (N1 _ _ eq_refl). pose proof (elinv_core _ _ SC I) as I1.
  assert (Hdf : df = l_ldf st + 1) by (unfold elinv in I; congruence).
  pose proof (on_frame_decided_nf es st1 df atr ltac:(lia)) as O.
  destruct (on_frame_decided eb es st1 df atr) as [[[sealed blk]|x] st2] eqn:OF; cbn [fst] in *;
    [|intros H; inversion H; subst; apply O; reflexivity].
  destruct sealed; [cbn; discriminate|].
  apply no_seal_state in OF as (S&Bf&Ba&L&El&Ep&Vv&R&X&Fc&C).
  apply IH.
  - eapply V_after_decision; eauto.
  - unfold elinv. rewrite El, L. cbn. lia.
  - destruct SC as (A1&A2&A3&A4&A5&A6&A7&A8&A9). rewrite R, A4, L, Hdf.
    destruct N1 as [r [Hr [Hf _]]].
    assert (Hr' : exists r, In r (l_roots st) /\ r_frame r = l_ldf st + 1) by (exists r; split; auto; unfold elinv in I; congruence).
    pose proof (cnt_from_step (l_roots st) (l_ldf st + 1) Hr'). lia.
Qed.

Lemma bootstrap_election_roots_fuel es st bl : V st -> elinv st ->
  nofuel (fst (fst (bootstrap_election cap eb (roots_fuel st) es st bl))).
Proof.
  intros HV I. apply bootstrap_election_nf; auto. unfold roots_fuel.
  pose proof (cnt_from_le (l_roots st) (l_ldf st + 1)). lia.
Qed.

Lemma handle_election_nf es e : forall fuel st f bl, V st -> elinv st ->
  (N.to_nat (a_frame e + 1 - f) < fuel)%nat ->
  nofuel (fst (fst (handle_election cap eb fuel es st e f bl))).
Proof.
  induction fuel as [|fu IH]; intros st f bl HV I Hlt; [lia|]. cbn [handle_election].
  destruct (a_frame e <? f) eqn:L; [cbn; discriminate|].
  pose proof (process_root_nf st (f, a_creator e, a_id e)) as P.
  destruct (process_root_V cap st (f, a_creator e, a_id e) HV) as [V1 N1].
  destruct (process_root_core cap st (f, a_creator e, a_id e)) as [SC DF].
  destruct (process_root cap st (f, a_creator e, a_id e)) as [[[[df atr]|]|x] st1]; cbn [fst snd] in *.
  - specialize (DF _ _ eq_refl). pose proof (elinv_core _ _ SC I) as I1.
    assert (Hdf : df = l_ldf st + 1) by (unfold elinv in I; congruence).
    pose proof (on_frame_decided_nf es st1 df atr ltac:(lia)) as O.
    destruct (on_frame_decided eb es st1 df atr) as [[[sealed blk]|x] st2] eqn:OF; cbn [fst] in *;
      [|intros H; inversion H; subst; apply O; reflexivity].
    destruct sealed; [cbn; discriminate|].
    apply no_seal_state in OF as (S&Bf&Ba&L2&El&Ep&Vv&R&X&Fc&C).
    assert (V2 : V st2) by (eapply V_after_decision; eauto).
    assert (I2 : elinv st2) by (unfold elinv; rewrite El, L2; cbn; lia).
    pose proof (bootstrap_election_roots_fuel es st2 (bl ++ [blk]) V2 I2) as B.
    rewrite bootstrap_election_app in *.
    destruct (bootstrap_election cap eb (roots_fuel st2) es st2 []) as [[r2 new] st3] eqn:E2. cbn [fst] in *.
    destruct r2 as [s2|x]; [|intros H; inversion H; subst; apply B; reflexivity].
    destruct s2; [cbn; discriminate|].
    destruct (bootstrap_election_rooted cap eb es _ _ _ _ _ V2 I2 E2) as [_ VV].
    destruct (bootstrap_election_post cap eb es _ _ _ _ _ I2 E2) as [[F2 [I3 P2]] [Q1 Q2]].
    apply IH; [apply VV; apply Q2; reflexivity | exact I3 | lia].
  - apply IH; [exact V1 | eapply elinv_core; eauto | lia].
  - intros H; inversion H; subst. apply P. reflexivity.
Qed.

(* the frame loop (stateful version): it advances only over frames that have a stored root *)
Lemma fcq_loop_nil st a c : fst (fcq_loop cap st a [] c) = has_quorum (l_vals st) c.
Proof. reflexivity. Qed.
Lemma calc_loop_nf e maxf : forall fuel st f, (cnt_from (l_roots st) f < fuel)%nat ->
  fst (calc_loop cap fuel st e f maxf) <> None.
Proof.
  induction fuel as [|fu IH]; intros st f Hlt; [lia|]. cbn [calc_loop].
  destruct (negb (f <? maxf)); [cbn; discriminate|].
  unfold fc_by_quorum_on.
  destruct (fcq_loop_keys cap (a_id e) (get_frame_roots st f) st (new_counter (l_vals st))) as [c1 [S1 _]].
  destruct (fcq_loop cap st (a_id e) (get_frame_roots st f) (new_counter (l_vals st))) as [b st1] eqn:FQ. cbn [snd] in S1. subst st1.
  destruct b; [|cbn; discriminate].
  apply IH. cbn [l_roots set_fcc].
  assert (Hr : exists r, In r (l_roots st) /\ r_frame r = f).
  { destruct (get_frame_roots st f) as [|r0 t] eqn:G.
    - cbn in FQ. inversion FQ as [[Hq Hs]]. rewrite empty_no_quorum in Hq. discriminate.
    - exists r0. assert (Hin : In r0 (get_frame_roots st f)) by (rewrite G; left; reflexivity).
      unfold get_frame_roots in Hin. apply filter_In in Hin as [H1 H2]. apply N.eqb_eq in H2. auto. }
  pose proof (cnt_from_step (l_roots st) f Hr). lia.
Qed.
Lemma calc_frame_nf es st e co : nofuel (fst (calc_frame cap es st e co)).
Proof.
  unfold calc_frame.
  destruct (match a_self_parent e with
            | Some sp => match get_event es sp with Some pe => Ok (a_frame pe) | None => Err EPanic end
            | None => Ok 0 end) as [spf|x] eqn:S; cbn [fst].
  - pose proof (calc_loop_nf e (if co then a_frame e else spf + 100) (roots_fuel st) st spf) as C.
    destruct (calc_loop cap (roots_fuel st) st e spf (if co then a_frame e else spf + 100)) as [[f|] st1]; cbn [fst] in *; [discriminate|].
    exfalso. apply C; auto. unfold roots_fuel. pose proof (cnt_from_le (l_roots st) spf). lia.
  - destruct (a_self_parent e); [destruct (get_event es n)|]; inversion S; discriminate.
Qed.

(* Process, Build and Bootstrap never run out of fuel *)
Theorem process_never_out_of_fuel es st e : V st -> elinv st -> nofuel (fst (fst (process cap eb es st e))).
Proof.
  intros HV I. unfold process. destruct (add (l_idx st) (vev (l_vals st) e)) as [s'|]; [|cbn; discriminate].
  pose proof (calc_frame_nf es (set_idx st s') e true) as CF.
  destruct (calc_frame_keys cap es (set_idx st s') e true) as [c1 [S1 _]].
  destruct (calc_frame cap es (set_idx st s') e true) as [[[spf fr]|x] st1]; cbn [fst snd] in *; subst st1.
  2:{ intros H; inversion H; subst. apply CF. reflexivity. }
  destruct (negb (a_frame e =? fr)); [cbn; discriminate|].
  set (st2 := if spf =? fr then set_fcc (set_idx st s') c1 else add_roots (set_fcc (set_idx st s') c1) spf e).
  assert (F : l_ldf st2 = l_ldf st /\ l_el st2 = l_el st /\ (forall r0, In r0 (l_roots st) -> In r0 (l_roots st2))).
  { unfold st2. destruct (spf =? fr); [cbn; auto|]. unfold add_roots. cbn [l_ldf l_el l_roots set_roots set_fcc set_idx].
    repeat split; auto. intros r0 H. apply add_roots_loop_in. exact H. }
  destruct F as (L2 & El2 & Sub).
  assert (I2 : elinv st2) by (unfold elinv in *; congruence).
  assert (V2 : V st2).
  { destruct HV as [H1 H2]. unfold V, goodv, names_root in *. rewrite El2.
    split; intros k vt Hin Y; [destruct (H1 _ _ Hin Y) as [r0 [A B]] | destruct (H2 _ _ Hin Y) as [r0 [A B]]];
      exists r0; split; auto. }
  pose proof (handle_election_nf es e (S (S (N.to_nat (a_frame e - spf)))) st2 (spf + 1) [] V2 I2 ltac:(lia)) as H.
  destruct (handle_election cap eb _ es st2 e (spf + 1) []) as [[r2 bl2] st3]. cbn [fst] in *.
  destruct r2; cbn [fst]; [discriminate|]. exact H.
Qed.

Theorem build_never_out_of_fuel smp es st e : nofuel (fst (build_with cap smp es st e)).
Proof.
  unfold build_with. destruct (smp (l_ctr st + 1)); [|cbn; discriminate].
  destruct (add _ _) as [s'|]; [|cbn; discriminate]. destruct (negb _ || negb _); [cbn; discriminate|].
  match goal with |- context [calc_frame cap es ?stw ?ee false] =>
    pose proof (calc_frame_nf es stw ee false) as CF; destruct (calc_frame cap es stw ee false) as [[[spf fr]|x] st1] end;
    cbn [fst] in *; [discriminate|]. intros H; inversion H; subst. apply CF. reflexivity.
Qed.

Theorem bootstrap_never_out_of_fuel es p : nofuel (fst (fst (bootstrap cap eb es p))).
Proof.
  unfold bootstrap. apply bootstrap_election_roots_fuel.
  - unfold V. cbn. apply (V_reset (p_vals p) (p_ldf p + 1)).
  - unfold elinv. cbn. reflexivity.
Qed.

End Fuel.
