(* C14: the property statements T1..T4 about the history (callback log, oldest first) of the
   repaired ordering-buffer model, for every operation sequence, every limit and every failure
   oracle.  Derived from the invariant [run_inv] of BufferRun.v. *)
From Coq Require Import NArith List Bool Lia Arith.
From LV Require Import model.Buffer spec.BufferSpec proofs.BufferInv proofs.BufferPush proofs.BufferRun.
Import ListNotations.
Local Open Scope N_scope.

(* ---------- reading a history *)
Lemma flat_map_rev_small : forall {A B} (f : A -> list B) l,
  (forall a, (length (f a) <= 1)%nat) -> flat_map f (rev l) = rev (flat_map f l).
Proof.
  intros A B f l H. induction l as [|a l IH]; simpl; auto.
  rewrite flat_map_app, IH, rev_app_distr. simpl. rewrite app_nil_r. f_equal.
  specialize (H a). destruct (f a) as [|b [|c r]]; simpl in *; auto. lia.
Qed.
Lemma rel_cids_rev : forall l, rel_cids (rev l) = rev (rel_cids l).
Proof. intros; apply flat_map_rev_small. intros [] ; simpl; lia. Qed.
Lemma proc_cids_rev : forall l, proc_cids (rev l) = rev (proc_cids l).
Proof. intros; apply flat_map_rev_small. intros [] ; simpl; lia. Qed.
Lemma conn_of_rev : forall l, conn_of (rev l) = rev (conn_of l).
Proof. intros; apply flat_map_rev_small. intros [| ? ? [] | | | |] ; simpl; lia. Qed.

(* event p counts as connected after the callbacks [pre]: a Process of it succeeded, or it was
   connected by another route *)
Definition connected_by (pre : list out) (p : N) : Prop :=
  (exists c, In (OProcess c p true) pre) \/ In (OConnect p) pre.
Lemma conn_of_spec : forall l p, In p (conn_of l) <-> connected_by l p.
Proof.
  intros l p. unfold conn_of, connected_by. rewrite in_flat_map. split.
  - intros [o [Ho Hp]]. destruct o as [| c e [] | | e | |]; simpl in Hp; try contradiction.
    + destruct Hp as [Hp|[]]; subst. left; exists c; auto.
    + destruct Hp as [Hp|[]]; subst. right; auto.
  - intros [[c H]|H]; [exists (OProcess c p true) | exists (OConnect p)]; simpl; auto.
Qed.
Definition released_in (pre : list out) (c : N) : Prop := exists e err, In (OReleased c e err) pre.
Lemma rel_cids_spec : forall l c, In c (rel_cids l) <-> released_in l c.
Proof.
  intros l c. unfold rel_cids, released_in. rewrite in_flat_map. split.
  - intros [o [Ho Hp]]. destruct o; simpl in Hp; try contradiction.
    destruct Hp as [Hp|[]]; subst. eauto.
  - intros [e [err H]]. exists (OReleased c e err); simpl; auto.
Qed.
Definition processed_in (pre : list out) (c : N) : Prop := exists e ok, In (OProcess c e ok) pre.
Lemma proc_cids_spec : forall l c, In c (proc_cids l) <-> processed_in l c.
Proof.
  intros l c. unfold proc_cids, processed_in. rewrite in_flat_map. split.
  - intros [o [Ho Hp]]. destruct o; simpl in Hp; try contradiction.
    destruct Hp as [Hp|[]]; subst. eauto.
  - intros [e [ok H]]. exists (OProcess c e ok); simpl; auto.
Qed.

Lemma log_wf_app : forall cs a b, log_wf cs (a ++ b) -> log_wf cs b.
Proof. intros cs a b; induction a; simpl; auto. intros [_ H]; auto. Qed.
Lemma log_wf_nodup_proc : forall cs l, log_wf cs l -> NoDup (proc_cids l).
Proof.
  intros cs l; induction l as [|o r IH]; simpl; [constructor|].
  intros [S W]. destruct o; simpl in *; auto. constructor; [tauto | auto].
Qed.

Section Theorems.
  Variable fc fp : list out -> entry -> bool.
  Variable limN limS : N.

  Definition final (ops : list op) : st := run fc fp true limN limS ops.
  (* the history: every callback the buffer made, oldest first *)
  Definition hist (ops : list op) : list out := rev (log (final ops)).

  Lemma hist_split : forall ops pre o post, hist ops = pre ++ o :: post ->
    step_ok (copies_of ops) (rev pre) o.
  Proof.
    intros ops pre o post H. unfold hist in H.
    assert (E : log (final ops) = rev post ++ o :: rev pre).
    { rewrite <- (rev_involutive (log (final ops))), H, rev_app_distr. simpl.
      rewrite <- app_assoc. reflexivity. }
    destruct (run_inv fc fp limN limS ops) as [_ [I _]]. pose proof (inv_log _ _ _ I) as L.
    fold (final ops) in L. rewrite E in L. apply log_wf_app in L. simpl in L. tauto.
  Qed.

  (* T1: an event is handed to Process only after all its parents are connected *)
  Theorem T1_parents_first : forall ops pre c e ok post,
    hist ops = pre ++ OProcess c e ok :: post ->
    exists x, lookup (copies_of ops) c = Some x /\ eid x = e /\
              forall p, In p (pars x) -> connected_by pre p.
  Proof.
    intros ops pre c e ok post H. apply hist_split in H. simpl in H.
    destruct H as [[x [L [E P]]] _]. exists x. repeat split; auto.
    intros p Hp. apply conn_of_spec. apply P in Hp. rewrite conn_of_rev in Hp.
    apply in_rev in Hp. exact Hp.
  Qed.

  (* T2: each pushed copy is handed to Process at most once ... *)
  Theorem T2_process_once : forall ops, NoDup (proc_cids (hist ops)).
  Proof.
    intros ops. unfold hist, final. rewrite proc_cids_rev. apply NoDup_rev.
    destruct (run_inv fc fp limN limS ops) as [_ [I _]]. eapply log_wf_nodup_proc, (inv_log _ _ _ I).
  Qed.
  (* ... and never after that copy was reported released *)
  Theorem T2_not_after_released : forall ops pre c e ok post,
    hist ops = pre ++ OProcess c e ok :: post -> ~ released_in pre c.
  Proof.
    intros ops pre c e ok post H. apply hist_split in H. simpl in H. destruct H as [_ [H _]].
    intros R. apply H. rewrite rel_cids_rev. apply -> in_rev. apply rel_cids_spec; exact R.
  Qed.

  (* T3: no copy is released twice, only pushed copies are released ... *)
  Theorem T3_released_at_most_once : forall ops, NoDup (rel_cids (hist ops)).
  Proof.
    intros ops. unfold hist, final. rewrite rel_cids_rev. apply NoDup_rev.
    destruct (run_inv fc fp limN limS ops) as [_ [I _]].
    rewrite <- (inv_rel _ _ _ I). apply (inv_rel_nodup _ _ _ I).
  Qed.
  Theorem T3_only_pushed_released : forall ops c, released_in (hist ops) c ->
    exists x, In x (copies_of ops) /\ cid x = c.
  Proof.
    intros ops c H. apply rel_cids_spec in H. unfold hist, final in H. rewrite rel_cids_rev in H.
    apply in_rev in H. destruct (run_inv fc fp limN limS ops) as [_ [I _]].
    rewrite <- (inv_rel _ _ _ I) in H. apply (inv_rel_cs _ _ _ I); auto.
  Qed.
  (* ... at any time every pushed copy is either still buffered or released ... *)
  Theorem T3_buffered_or_released : forall ops x, In x (copies_of ops) ->
    In x (inc (final ops)) \/ released_in (hist ops) (cid x).
  Proof.
    intros ops x Hx. destruct (run_inv fc fp limN limS ops) as [_ [I [C _]]].
    unfold final. destruct (C x Hx) as [H|H]; [left; exact H | right].
    apply rel_cids_spec. unfold hist, final. rewrite rel_cids_rev. apply -> in_rev.
    rewrite <- (inv_rel _ _ _ I). exact H.
  Qed.
  (* ... and once Clear has returned every pushed copy has been released exactly once *)
  Theorem T3_cleared_exactly_once : forall ops x, In x (copies_of (ops ++ [OpClear])) ->
    count_occ N.eq_dec (rel_cids (hist (ops ++ [OpClear]))) (cid x) = 1%nat
    /\ inc (final (ops ++ [OpClear])) = [].
  Proof.
    intros ops x Hx.
    assert (E : inc (final (ops ++ [OpClear])) = []).
    { unfold final. rewrite run_snoc. simpl step.
      apply (clear_buf_ok limN limS (copies_of ops)). apply run_inv. }
    split; auto. apply NoDup_count_occ'; [apply T3_released_at_most_once|].
    destruct (T3_buffered_or_released _ x Hx) as [H|H].
    - rewrite E in H. contradiction.
    - apply rel_cids_spec; exact H.
  Qed.

  (* T4: after every operation (in particular after every push) the buffer is within its limits;
     the Total() reported after a push is that content *)
  Theorem T4_within_limits : forall ops,
    total_num (inc (final ops)) <= limN /\ total_size (inc (final ops)) <= limS.
  Proof.
    intros ops. destruct (run_inv fc fp limN limS ops) as [_ [_ [_ [_ V]]]]. apply over_false; auto.
  Qed.
  Theorem T4_push_reports_total : forall ops e ps sz,
    exists c ok n z rest, log (final (ops ++ [OpPush e ps sz])) = OPushed c ok n z :: rest
                          /\ n = total_num (inc (final (ops ++ [OpPush e ps sz])))
                          /\ z = total_size (inc (final (ops ++ [OpPush e ps sz])))
                          /\ n <= limN /\ z <= limS.
  Proof.
    intros ops e ps sz. pose proof (T4_within_limits (ops ++ [OpPush e ps sz])) as [A B].
    assert (H : exists c ok rest, log (final (ops ++ [OpPush e ps sz])) =
              OPushed c ok (total_num (inc (final (ops ++ [OpPush e ps sz]))))
                      (total_size (inc (final (ops ++ [OpPush e ps sz])))) :: rest).
    { unfold final. rewrite run_snoc. simpl step. unfold push_event.
      match goal with |- context [let '(a, b) := ?t in _] => destruct t as [s' ok] end.
      simpl. eauto. }
    destruct H as [c [ok [rest H]]]. do 5 eexists. split; [exact H|]. auto.
  Qed.

  (* the fuel PushEvent gives its recursion (1 + number of buffered events) is always enough *)
  Theorem fuel_suffices : forall ops, oof (final ops) = false.
  Proof. intros ops. destruct (run_inv fc fp limN limS ops) as [_ [_ [_ [O _]]]]. exact O. Qed.
End Theorems.
