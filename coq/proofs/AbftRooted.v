(* C02: every block's Atropos is a stored root of the block's frame (threading the invariant V of
   proofs/AbftRoots.v through processKnownRoots / bootstrapElection / handleElection / Process). *)
From Coq Require Import NArith ZArith List Lia Bool ZifyBool ZifyN ZifyNat.
From LV Require Import model.VecIndex model.Abft proofs.AbftStruct proofs.AbftSeal proofs.AbftRoots
  proofs.AbftBuild proofs.AbftProcess.
Import ListNotations.
Local Open Scope N_scope.

Definition all_rooted (R : list root) (bl : list block) : Prop :=
  forall b, In b bl -> names_root R (b_frame b) (b_atropos b).

Section Rooted.
Variable cap : nat.
Variable end_block : N -> N -> N -> list N -> list N -> option vals.
Variable es : estore.

Lemma V_same st st' : same_core st st' -> V st -> (l_el st' = l_el st -> V st').
Proof. intros SC H E. eapply V_core; eauto. Qed.

Lemma pkr_frame_V : forall frs st, V st ->
  V (snd (pkr_frame cap st frs)) /\
  (forall df atr, fst (pkr_frame cap st frs) = Ok (Some (df, atr)) -> names_root (l_roots st) (el_frame (l_el st)) atr).
Proof.
  induction frs as [|r t IH]; intros st HV; cbn [pkr_frame fst snd]; [split; [exact HV | discriminate]|].
  destruct (process_root_V cap st r HV) as [V1 N1]. destruct (process_root_core cap st r) as [SC _].
  destruct (process_root cap st r) as [[[d|]|x] st1]; cbn [fst snd] in *.
  - split; [exact V1|]. intros df atr H. inversion H; subst. apply (N1 df atr). reflexivity.
  - destruct (IH st1 V1) as [V2 N2]. split; [exact V2|]. intros df atr H.
    destruct SC as (A1&A2&A3&A4&A5&A6&A7&A8&A9). rewrite <- A4, <- A8. exact (N2 _ _ H).
  - split; [exact V1 | discriminate].
Qed.

Lemma process_known_roots_V : forall fuel st f, V st ->
  V (snd (process_known_roots cap fuel st f)) /\
  (forall df atr, fst (process_known_roots cap fuel st f) = Ok (Some (df, atr)) ->
                  names_root (l_roots st) (el_frame (l_el st)) atr).
Proof.
  induction fuel as [|fu IH]; intros st f HV; cbn [process_known_roots fst snd]; [split; [exact HV | discriminate]|].
  destruct (pkr_frame_V (get_frame_roots st f) st HV) as [V1 N1]. destruct (pkr_frame_core cap (get_frame_roots st f) st) as [SC _].
  destruct (pkr_frame cap st (get_frame_roots st f)) as [[[d|]|x] st1]; cbn [fst snd] in *.
  - split; [exact V1|]. intros df atr H. inversion H; subst. apply (N1 df atr). reflexivity.
  - destruct (get_frame_roots st f); cbn [fst snd]; [split; [exact V1 | discriminate]|].
    destruct (IH st1 (f + 1) V1) as [V2 N2]. split; [exact V2|]. intros df atr H.
    destruct SC as (A1&A2&A3&A4&A5&A6&A7&A8&A9). rewrite <- A4, <- A8. exact (N2 _ _ H).
  - split; [exact V1 | discriminate].
Qed.

Lemma V_after_decision st2 st1 f : l_el st2 = el_reset (l_vals st1) (f + 1) -> V st2.
Proof. intros E. unfold V. rewrite E. apply V_reset. Qed.

Lemma bootstrap_election_rooted : forall fuel st r bl st',
  V st -> elinv st -> bootstrap_election cap end_block fuel es st [] = (r, bl, st') ->
  all_rooted (l_roots st) bl /\ (sealed_last bl = false -> V st').
Proof.
  induction fuel as [|fu IH]; intros st r bl st' HV I E; cbn [bootstrap_election] in E.
  - inversion E; subst. split; [intros b [] | auto].
  - destruct (process_known_roots_V (roots_fuel st) st (l_ldf st + 1) HV) as [V1 N1].
    destruct (process_known_roots_core cap (roots_fuel st) st (l_ldf st + 1)) as [SC DF].
    destruct (process_known_roots cap (roots_fuel st) st (l_ldf st + 1)) as [[[[df atr]|]|x] st1]; cbn [fst snd] in *.
    + specialize (DF _ _ eq_refl). specialize (N1 _ _ eq_refl). pose proof (elinv_core _ _ SC I) as I1.
      destruct (on_frame_decided end_block es st1 df atr) as [[[sealed blk]|x] st2] eqn:OF.
      * destruct sealed.
        -- inversion E; subst r bl st'. apply seal_state in OF as [nv [S [Bf [Ba _]]]].
           split; [|cbn; unfold is_sealed; rewrite S; discriminate].
           intros b [<-|[]]. rewrite Bf, Ba, DF. exact N1.
        -- rewrite bootstrap_election_app in E.
           destruct (bootstrap_election cap end_block fu es st2 []) as [[r2 new] st3] eqn:E2.
           inversion E; subst r bl st'. cbn [app].
           apply no_seal_state in OF as (S&Bf&Ba&L&El&Ep&Vv&R&X&Fc&C).
           assert (I2 : elinv st2) by (unfold elinv; rewrite El, L; cbn; lia).
           destruct (IH _ _ _ _ (V_after_decision _ _ _ El) I2 E2) as [AR VV].
           destruct SC as (A1&A2&A3&A4&A5&A6&A7&A8&A9).
           split.
           ++ intros b [<-|Hb]; [rewrite Bf, Ba, DF; exact N1|]. rewrite <- A4, <- R. exact (AR b Hb).
           ++ cbn [sealed_last existsb]. unfold is_sealed at 1. rewrite S. cbn [orb]. exact VV.
      * inversion E; subst. apply on_frame_decided_err in OF. subst. split; [intros b [] | auto].
    + inversion E; subst. split; [intros b [] | auto].
    + inversion E; subst. split; [intros b [] | auto].
Qed.

Lemma handle_election_rooted e : forall fuel st f r bl st',
  V st -> elinv st -> handle_election cap end_block fuel es st e f [] = (r, bl, st') ->
  all_rooted (l_roots st) bl /\ (sealed_last bl = false -> V st').
Proof.
  induction fuel as [|fu IH]; intros st f r bl st' HV I E; cbn [handle_election] in E.
  - inversion E; subst. split; [intros b [] | auto].
  - destruct (a_frame e <? f). { inversion E; subst. split; [intros b [] | auto]. }
    destruct (process_root_V cap st (f, a_creator e, a_id e) HV) as [V1 N1].
    destruct (process_root_core cap st (f, a_creator e, a_id e)) as [SC DF].
    destruct (process_root cap st (f, a_creator e, a_id e)) as [[[[df atr]|]|x] st1]; cbn [fst snd] in *.
    + specialize (DF _ _ eq_refl). specialize (N1 _ _ eq_refl). pose proof (elinv_core _ _ SC I) as I1.
      destruct (on_frame_decided end_block es st1 df atr) as [[[sealed blk]|x] st2] eqn:OF.
      * destruct sealed.
        -- inversion E; subst r bl st'. apply seal_state in OF as [nv [S [Bf [Ba _]]]].
           split; [|cbn; unfold is_sealed; rewrite S; discriminate].
           intros b [<-|[]]. rewrite Bf, Ba, DF. exact N1.
        -- apply no_seal_state in OF as (S&Bf&Ba&L&El&Ep&Vv&R&X&Fc&C).
           assert (I2 : elinv st2) by (unfold elinv; rewrite El, L; cbn; lia).
           rewrite bootstrap_election_app in E.
           destruct (bootstrap_election cap end_block (roots_fuel st2) es st2 []) as [[r2 new] st3] eqn:E2.
           destruct (bootstrap_election_rooted _ _ _ _ _ (V_after_decision _ _ _ El) I2 E2) as [AR2 VV2].
           destruct (bootstrap_election_post cap end_block es _ _ _ _ _ I2 E2) as [[F2 [I3 P2]] [Q1 Q2]].
           destruct SC as (A1&A2&A3&A4&A5&A6&A7&A8&A9).
           assert (Hb : names_root (l_roots st) (b_frame blk) (b_atropos blk)) by (rewrite Bf, Ba, DF; exact N1).
           assert (AR2' : all_rooted (l_roots st) new) by (intros b Hin; rewrite <- A4, <- R; exact (AR2 b Hin)).
           cbn [app] in E.
           destruct r2 as [s2|x].
           ++ destruct s2.
              ** inversion E; subst. split; [intros b [<-|Hin]; auto|].
                 pose proof (Q1 eq_refl) as SS. unfold sealed_last in *. cbn [existsb]. rewrite SS, orb_true_r. discriminate.
              ** rewrite handle_election_app in E.
                 destruct (handle_election cap end_block fu es st3 e (f + 1) []) as [[r3 new3] st4] eqn:E3.
                 inversion E; subst r bl st'.
                 pose proof (Q2 eq_refl) as NS. rewrite NS in P2. destruct P2 as (P1&P2'&P3&P4&P5&P6).
                 destruct (IH _ _ _ _ _ (VV2 NS) I3 E3) as [AR3 VV3].
                 split.
                 --- intros b [<-|Hin]; auto. apply in_app_or in Hin as [Hin|Hin]; auto.
                     rewrite <- A4, <- R, <- P4. exact (AR3 b Hin).
                 --- cbn [sealed_last existsb]. unfold is_sealed at 1. rewrite S. cbn [orb].
                     rewrite existsb_app. unfold sealed_last in NS. rewrite NS. cbn [orb]. exact VV3.
           ++ inversion E; subst. split; [intros b [<-|Hin]; auto|].
              cbn [sealed_last existsb]. unfold is_sealed at 1. rewrite S. cbn [orb]. exact VV2.
      * inversion E; subst. apply on_frame_decided_err in OF. subst. split; [intros b [] | auto].
    + destruct (IH _ _ _ _ _ V1 (elinv_core _ _ SC I) E) as [AR VV].
      destruct SC as (A1&A2&A3&A4&A5&A6&A7&A8&A9). split; [rewrite <- A4; exact AR | exact VV].
    + inversion E; subst. split; [intros b [] | auto].
Qed.

(* Process: every block's Atropos is a root stored for the block's frame; R = the root table right after
   the event's own roots were registered (it does not change until a seal, which ends the call) *)
Theorem process_atropos_rooted st e r bl st' :
  V st -> elinv st -> process cap end_block es st e = (r, bl, st') ->
  exists R, (forall r0, In r0 (l_roots st) -> In r0 R) /\ all_rooted R bl /\ (sealed_last bl = false -> V st').
Proof.
  intros HV I E. unfold process in E.
  destruct (add (l_idx st) (vev (l_vals st) e)) as [s'|].
  2:{ inversion E; subst r bl st'. exists (l_roots st). split; auto. split; [intros b [] | auto]. }
  destruct (calc_frame_keys cap es (set_idx st s') e true) as [c1 [S1 _]].
  destruct (calc_frame cap es (set_idx st s') e true) as [[[spf fr]|x] st1]; cbn [snd] in S1; subst st1.
  - destruct (negb (a_frame e =? fr)).
    { inversion E; subst r bl st'. exists (l_roots st). split; auto. split; [intros b [] | intros _; exact HV]. }
    set (st2 := if spf =? fr then set_fcc (set_idx st s') c1 else add_roots (set_fcc (set_idx st s') c1) spf e) in *.
    assert (H2 : l_ldf st2 = l_ldf st /\ l_el st2 = l_el st /\ (forall r0, In r0 (l_roots st) -> In r0 (l_roots st2))).
    { unfold st2. destruct (spf =? fr); [cbn; auto|].
      unfold add_roots. cbn [l_ldf l_el l_roots set_roots set_fcc set_idx]. repeat split; auto.
      intros r0 H. apply add_roots_loop_in. exact H. }
    destruct H2 as (L2&El2&Sub).
    assert (I2 : elinv st2) by (unfold elinv in *; congruence).
    assert (V2 : V st2).
    { destruct HV as [H1 H2]. unfold V, goodv, names_root in *. rewrite El2.
      split; intros k vt Hin Y; [destruct (H1 _ _ Hin Y) as [r0 [A B]] | destruct (H2 _ _ Hin Y) as [r0 [A B]]];
        exists r0; split; auto. }
    destruct (handle_election cap end_block (S (S (N.to_nat (a_frame e - spf)))) es st2 e (spf + 1) []) as [[r2 bl2] st3] eqn:HE.
    destruct (handle_election_rooted e _ _ _ _ _ _ V2 I2 HE) as [AR VV].
    assert (bl = bl2 /\ st' = st3) as [-> ->] by (destruct r2; inversion E; auto).
    exists (l_roots st2). split; auto.
  - inversion E; subst r bl st'. exists (l_roots st). split; auto. split; [intros b [] | auto].
Qed.

End Rooted.

(* the invariant holds initially and after Reset / sealing (fresh election) *)
Lemma V_genesis ep v : V (genesis ep v).
Proof. unfold V. cbn. apply (V_reset v 1 []). Qed.
Lemma V_reset_state st ep v : V (reset st ep v).
Proof. unfold V. cbn. apply (V_reset v 1 []). Qed.
