(* L1, brick 3a (model level, no reference yet): what Election.ProcessRoot's inner loops compute.
     tally_spec          the loop over the observed roots for one subject never errs when every observed
                         root has voted, the yes-votes name one root and the observed roots belong to
                         different validators; its three counters then hold the weights of the yes / no /
                         all voters (count_all of proofs/AbftCount.v);
     vote_subjects_spec  the loop over the not-decided subjects: one new vote per subject, decisions
                         recorded, everything else untouched. *)
From Coq Require Import NArith ZArith List Lia Bool ZifyBool ZifyN ZifyNat.
From LV Require Import model.VecIndex model.Abft proofs.AbftFrame proofs.AbftCount proofs.AbftInvLemmas.
Import ListNotations.
Local Open Scope N_scope.

Definition yes_of (votes : list ((root * N) * vote)) (subj : N) (r : root) : bool :=
  match votes_get (r, subj) votes with Some vt => vt_yes vt | None => false end.

Lemma root_eqb_refl r : root_eqb r r = true.
Proof. apply root_eqb_eq. reflexivity. Qed.

Lemma votes_get_cons r s nr s1 vt l :
  votes_get (r, s) (((nr, s1), vt) :: l) = if root_eqb r nr && (s =? s1) then Some vt else votes_get (r, s) l.
Proof. reflexivity. Qed.

Section Tally.
Variable v : vals.
Hypothesis ids_nodup : NoDup (v_ids v).

Lemma tally_spec votes subj h0 : forall obs sh yes no all,
  cwf v yes -> cwf v no -> cwf v all ->
  (forall r, In r obs -> v_exists v (r_val r) = true) ->
  NoDup (map (fun r => v_idx v (r_val r)) obs) ->
  (forall r, In r obs -> nth (v_idx v (r_val r)) (c_already all) false = false) ->
  (forall r, In r obs -> exists vt, votes_get (r, subj) votes = Some vt /\ (vt_yes vt = true -> vt_obs vt = h0)) ->
  (sh = None \/ sh = Some h0) ->
  tally v votes subj obs sh yes no all =
    Ok (if existsb (yes_of votes subj) obs then Some h0 else sh,
        count_all v yes (map r_val (filter (yes_of votes subj) obs)),
        count_all v no (map r_val (filter (fun r => negb (yes_of votes subj r)) obs)),
        count_all v all (map r_val obs)).
Proof.
  induction obs as [|r t IH]; intros sh yes no all Wy Wn Wa Hex ND Hfresh Hv Hsh; cbn [tally existsb filter map count_all].
  - reflexivity.
  - destruct (Hv r (or_introl eq_refl)) as [vt [G Ho]]. rewrite G.
    assert (Yr : yes_of votes subj r = vt_yes vt) by (unfold yes_of; rewrite G; reflexivity).
    rewrite Yr.
    assert (Hi : (v_idx v (r_val r) < length v)%nat) by (apply v_idx_lt, Hex; left; reflexivity).
    cbn [map] in ND. apply NoDup_cons_iff in ND as [Hnin ND].
    assert (Fr : fst (count_id v all (r_val r)) = true).
    { unfold count_id, count_idx. rewrite (Hfresh r (or_introl eq_refl)). reflexivity. }
    destruct (count_id v all (r_val r)) as [fresh all'] eqn:CA. cbn [fst] in Fr. subst fresh. cbn [negb].
    assert (Wa' : cwf v all' /\ forall j, nth j (c_already all') false =
                                     if Nat.eqb (v_idx v (r_val r)) j then true else nth j (c_already all) false).
    { destruct (count_idx_wf v all (v_idx v (r_val r)) Wa Hi) as [W [_ F]]. unfold count_id in CA. rewrite CA in W, F. cbn [snd] in W, F. auto. }
    destruct Wa' as [Wa' Fl].
    assert (Hfresh' : forall r', In r' t -> nth (v_idx v (r_val r')) (c_already all') false = false).
    { intros r' Hr'. rewrite Fl. destruct (Nat.eqb_spec (v_idx v (r_val r)) (v_idx v (r_val r'))) as [E|NE].
      - exfalso. apply Hnin. rewrite E. apply (in_map (fun r0 => v_idx v (r_val r0))). exact Hr'.
      - apply Hfresh. right. exact Hr'. }
    assert (all' = snd (count_id v all (r_val r))) as -> by (rewrite CA; reflexivity).
    destruct (vt_yes vt) eqn:Y.
    + assert (NoF : (match sh with Some h => negb (h =? vt_obs vt) | None => false end) = false).
      { destruct Hsh as [->| ->]; [reflexivity|]. rewrite (Ho eq_refl), N.eqb_refl. reflexivity. }
      rewrite NoF. cbn [andb negb map count_all].
      rewrite (IH (Some (vt_obs vt)) (snd (count_id v yes (r_val r))) no (snd (count_id v all (r_val r)))); auto.
      * rewrite (Ho eq_refl). cbn [orb]. destruct (existsb (yes_of votes subj) t); reflexivity.
      * apply (count_idx_wf v yes (v_idx v (r_val r)) Wy Hi).
      * intros r' Hr'. apply Hex. right. exact Hr'.
      * intros r' Hr'. apply Hv. right. exact Hr'.
      * right. rewrite (Ho eq_refl). reflexivity.
    + cbn [andb negb map count_all orb].
      rewrite (IH sh yes (snd (count_id v no (r_val r))) (snd (count_id v all (r_val r)))); auto.
      * apply (count_idx_wf v no (v_idx v (r_val r)) Wn Hi).
      * intros r' Hr'. apply Hex. right. exact Hr'.
      * intros r' Hr'. apply Hv. right. exact Hr'.
Qed.

(* the weight held by a counter filled from a list of validator ids *)
Lemma count_all_sum_filter (P : root -> bool) obs : (forall r, In r obs -> v_exists v (r_val r) = true) ->
  c_sum (count_all v (new_counter v) (map r_val (filter P obs))) =
  vsum v (fun id => existsb (fun r => (r_val r =? id) && P r) obs).
Proof.
  intros Hex. rewrite (count_all_sum v ids_nodup).
  2:{ intros id Hin. apply in_map_iff in Hin as [r [<- Hr]]. apply filter_In in Hr as [Hr _]. apply Hex. exact Hr. }
  assert (X : forall l Q1 Q2, (forall id, Q1 id = Q2 id) -> vsum l Q1 = vsum l Q2).
  { induction l as [|[x w] t IH]; intros Q1 Q2 H; cbn; auto. rewrite H, (IH Q1 Q2 H). reflexivity. }
  apply X. intros id. induction obs as [|r t IH]; cbn [filter map existsb]; [reflexivity|].
  destruct (P r); cbn [map existsb].
  - rewrite IH by (intros r' Hr'; apply Hex; right; exact Hr'). rewrite andb_true_r, (N.eqb_sym id). reflexivity.
  - rewrite IH by (intros r' Hr'; apply Hex; right; exact Hr'). rewrite andb_false_r. reflexivity.
Qed.
End Tally.

(* ---------- the vote of one root on one subject (the body of the loop over notDecidedRoots) ---------- *)
Definition subject_vote (round1 : bool) (ev : vals) (votes : list ((root * N) * vote)) (obs : list root) (s : N)
  : result (vote * bool) :=
  if round1 then
    match observed_map_get obs s with
    | Some r => Ok ({| vt_decided := false; vt_yes := true; vt_obs := r_id r |}, false)
    | None => Ok ({| vt_decided := false; vt_yes := false; vt_obs := 0 |}, false) end
  else
    match tally ev votes s obs None (new_counter ev) (new_counter ev) (new_counter ev) with
    | Err x => Err x
    | Ok (sh, yes, no, all) =>
      if negb (has_quorum ev all) then Err ENoQuorumPrev else
      let y := c_sum no <=? c_sum yes in
      let o := match sh with Some h => if y then h else 0 | None => 0 end in
      let d := has_quorum ev yes || has_quorum ev no in
      Ok ({| vt_decided := d; vt_yes := y; vt_obs := o |}, d)
    end.

Definition el_step (el : election) (nr : root) (s : N) (vt : vote) (dec : bool) : election :=
  {| el_frame := el_frame el; el_vals := el_vals el;
     el_decided := if dec then aput s vt (el_decided el) else el_decided el;
     el_votes := ((nr, s), vt) :: el_votes el |}.

Lemma vote_subjects_cons round1 obs nr s t el :
  vote_subjects round1 obs nr (s :: t) el =
  match subject_vote round1 (el_vals el) (el_votes el) obs s with
  | Err x => (Some x, el)
  | Ok (vt, dec) => vote_subjects round1 obs nr t (el_step el nr s vt dec)
  end.
Proof.
  cbn [vote_subjects]. unfold subject_vote, el_step. destruct round1.
  - destruct (observed_map_get obs s); reflexivity.
  - destruct (tally _ _ _ _ _ _ _ _) as [[[[sh yes] no] all]|x]; [|reflexivity].
    destruct (negb (has_quorum (el_vals el) all)); reflexivity.
Qed.

(* P s vt dec: what is known about the vote computed for subject s *)
Lemma vote_subjects_spec round1 obs nr (P : N -> vote -> bool -> Prop) : forall subjects el,
  NoDup subjects ->
  (forall s, In s subjects -> forall votes',
     (forall r, votes_get (r, s) votes' = votes_get (r, s) (el_votes el)) ->
     exists vt dec, subject_vote round1 (el_vals el) votes' obs s = Ok (vt, dec) /\ P s vt dec) ->
  exists el', vote_subjects round1 obs nr subjects el = (None, el') /\
    el_frame el' = el_frame el /\ el_vals el' = el_vals el /\
    (forall s, In s subjects -> exists vt dec, P s vt dec /\ votes_get (nr, s) (el_votes el') = Some vt /\
        alookup s (el_decided el') = if dec then Some vt else alookup s (el_decided el)) /\
    (forall s, ~ In s subjects -> alookup s (el_decided el') = alookup s (el_decided el)) /\
    (forall r s, ~ (r = nr /\ In s subjects) -> votes_get (r, s) (el_votes el') = votes_get (r, s) (el_votes el)).
Proof.
  induction subjects as [|s t IH]; intros el ND H.
  - exists el. cbn [vote_subjects]. repeat split; auto. intros s [].
  - rewrite vote_subjects_cons. apply NoDup_cons_iff in ND as [Hnin ND].
    destruct (H s (or_introl eq_refl) (el_votes el) (fun r => eq_refl)) as [vt [dec [E Ps]]]. rewrite E.
    set (el1 := el_step el nr s vt dec).
    assert (Vst : forall r s', s' <> s -> votes_get (r, s') (el_votes el1) = votes_get (r, s') (el_votes el)).
    { intros r s' Hne. unfold el1, el_step. cbn [el_votes]. rewrite votes_get_cons.
      replace (s' =? s) with false by (symmetry; apply N.eqb_neq; exact Hne). rewrite andb_false_r. reflexivity. }
    destruct (IH el1 ND) as [el' [E' [F' [V' [A [B C]]]]]].
    { intros s' Hs' votes' Hv. assert (Hne : s' <> s) by (intros ->; contradiction).
      apply (H s' (or_intror Hs') votes'). intros r. rewrite Hv. apply Vst. exact Hne. }
    exists el'. split; [exact E'|]. split; [exact F'|]. split; [exact V'|]. split; [|split].
    + intros s' [<-|Hs'].
      * exists vt, dec. split; [exact Ps|]. split.
        -- rewrite (C nr s) by (intros [_ X]; contradiction). unfold el1, el_step. cbn [el_votes].
           rewrite votes_get_cons, root_eqb_refl, N.eqb_refl. reflexivity.
        -- rewrite (B s Hnin). unfold el1, el_step. cbn [el_decided]. destruct dec; [|reflexivity].
           unfold aput. cbn [alookup]. rewrite N.eqb_refl. reflexivity.
      * destruct (A s' Hs') as [vt' [dec' [P' [G' D']]]]. exists vt', dec'. split; [exact P'|]. split; [exact G'|].
        rewrite D'. destruct dec'; [reflexivity|]. unfold el1, el_step. cbn [el_decided].
        destruct dec; [|reflexivity]. unfold aput. cbn [alookup].
        assert (Hne : s' <> s) by (intros ->; contradiction).
        replace (s' =? s) with false by (symmetry; apply N.eqb_neq; exact Hne). reflexivity.
    + intros s' Hs'. rewrite (B s') by (intros X; apply Hs'; right; exact X).
      unfold el1, el_step. cbn [el_decided]. destruct dec; [|reflexivity]. unfold aput. cbn [alookup].
      replace (s' =? s) with false; [reflexivity|]. symmetry. apply N.eqb_neq. intros ->. apply Hs'. left. reflexivity.
    + intros r s' Hn. rewrite (C r s') by (intros [X Y]; apply Hn; split; [exact X | right; exact Y]).
      unfold el1, el_step. cbn [el_votes]. rewrite votes_get_cons.
      destruct (root_eqb r nr && (s' =? s)) eqn:E2; [|reflexivity].
      apply andb_prop in E2 as [E2 E3]. apply root_eqb_eq in E2. apply N.eqb_eq in E3. subst. exfalso. apply Hn. split; [reflexivity | left; reflexivity].
Qed.

(* not_decided: the undecided validator ids, without repetition *)
Lemma not_decided_iff el s : In s (not_decided el) <-> In s (v_ids (el_vals el)) /\ alookup s (el_decided el) = None.
Proof.
  unfold not_decided. rewrite filter_In. split; intros [A B]; split; auto.
  - destruct (alookup s (el_decided el)); [discriminate | reflexivity].
  - rewrite B. reflexivity.
Qed.
Lemma not_decided_nodup el : NoDup (v_ids (el_vals el)) -> NoDup (not_decided el).
Proof. intros H. unfold not_decided. apply NoDup_filter. exact H. Qed.
