(* C16: the end-to-end bounded-response theorem (round 3).  Environment hypotheses only:
   nondecreasing clock, timer fairness, cache capacity not exceeded, the item stays interesting and is
   not received, its announcements are younger than ForgetTimeout. *)
From Coq Require Import NArith ZArith List Bool Lia ZifyBool ZifyNat ZifyN.
From LV Require Import model.Fetcher spec.FetcherSpec proofs.FetcherProofs.
Import ListNotations.

(* ---------- capacity accounting: no eviction while 2 * (announcements so far) <= HashLimit ---------- *)

Notation size := table_size.

Definition entries_ok (l : lru) : Prop :=
  forall e, In e l -> (e_weight e <= N.of_nat (length (e_val e)))%N /\ e_val e <> [].

Lemma weight_le_size l : entries_ok l -> (lru_weight l <= N.of_nat (size l))%N.
Proof.
  unfold lru_weight, table_size. induction l as [|a l IH]; intros H; cbn [fold_right]; [lia|].
  assert (H1 := proj1 (H a (or_introl eq_refl))).
  assert (H2 : entries_ok l) by (intros e He; apply H; right; exact He).
  specialize (IH H2). lia.
Qed.

Lemma len_le_size l : entries_ok l -> (length l <= size l)%nat.
Proof.
  unfold table_size. induction l as [|a l IH]; intros H; cbn [fold_right length]; [lia|].
  assert (H1 := proj2 (H a (or_introl eq_refl))).
  assert (H2 : entries_ok l) by (intros e He; apply H; right; exact He).
  specialize (IH H2). destruct (e_val a); [contradiction | cbn [length]; lia].
Qed.

Lemma normalize_id fuel limit l :
  (lru_weight l <= limit)%N -> (lru_len l <= limit)%N -> lru_normalize fuel limit l = (l, []).
Proof.
  intros H1 H2. destruct fuel; cbn; [reflexivity|].
  replace ((limit <? lru_weight l)%N || (limit <? lru_len l)%N) with false by lia. reflexivity.
Qed.

Lemma size_del_found k l e : lru_find k l = Some e -> size l = (length (e_val e) + size (lru_del k l))%nat.
Proof.
  induction l as [|a l IH]; cbn [lru_find lru_del]; [discriminate|].
  destruct (e_key a =? k)%N; [intros H; inversion H; subst; reflexivity|].
  intros H. specialize (IH H). unfold table_size in *. cbn [fold_right]. lia.
Qed.

Lemma del_notfound k l : lru_find k l = None -> lru_del k l = l.
Proof.
  induction l as [|a l IH]; cbn; [reflexivity|].
  destruct (e_key a =? k)%N; [discriminate|]. intros H. now rewrite IH.
Qed.

Lemma entries_ok_incl l l' : (forall e, In e l' -> In e l) -> entries_ok l -> entries_ok l'.
Proof. intros H Ho e He. apply Ho, H, He. Qed.

(* one iteration of processNotification's loop, within capacity: nothing is evicted, the size grows
   by two, every other key keeps its entry, the key itself keeps its first announce *)
Lemma notify_one_acct c now d susp st tf i :
  entries_ok (ann st) ->
  (N.of_nat (size (ann st) + 2) <= c_hash_limit c)%N ->
  let st' := fst (notify_one c now d susp (st, tf) i) in
  entries_ok (ann st') /\ (size (ann st') <= size (ann st) + 2)%nat /\
  (forall k, k <> i -> lru_find k (ann st') = lru_find k (ann st)) /\
  (exists e', lru_find i (ann st') = Some e' /\
     (forall e, In e (ann st') -> e = e' \/ In e (ann st)) /\
     (forall a, In a (e_val e') -> a = d \/ exists e, In e (ann st) /\ e_key e = i /\ In a (e_val e))).
Proof.
  intros Hok Hcap. unfold notify_one.
  assert (Hget : lru_get i (ann st) =
                 match lru_find i (ann st) with
                 | Some e => (Some (e_val e), e :: lru_del i (ann st))
                 | None => (None, ann st) end) by (unfold lru_get; destruct (lru_find i (ann st)); reflexivity).
  destruct (lru_get i (ann st)) as [got l1].
  set (old := match got with Some v => v | None => [] end).
  set (anns := old ++ [d]).
  set (l1' := mkE i (anns ++ [d]) (N.of_nat (length anns)) :: lru_del i l1).
  assert (Hdel : lru_del i l1 = lru_del i (ann st) /\
                 (size (lru_del i (ann st)) + length old = size (ann st))%nat /\
                 match lru_find i (ann st) with Some e => old = e_val e | None => old = [] end).
  { destruct (lru_find i (ann st)) as [e|] eqn:F; inversion Hget; subst.
    - destruct (lru_find_some _ _ _ F) as [_ Hk]. cbn [lru_del]. rewrite Hk, N.eqb_refl.
      split; [reflexivity|]. split; [rewrite (size_del_found _ _ _ F); unfold old; lia | reflexivity].
    - rewrite (del_notfound _ _ F). split; [reflexivity|]. split; [unfold old; cbn; lia | reflexivity]. }
  destruct Hdel as (Hd1 & Hd2 & Hd3).
  assert (Hok1 : entries_ok l1').
  { intros e [<-|He]; cbn [e_weight e_val].
    - split; [rewrite app_length; cbn; lia | unfold anns; destruct old; discriminate].
    - apply Hok. rewrite Hd1 in He. eapply lru_del_incl; eauto. }
  assert (Hsz1 : size l1' = (size (ann st) + 2)%nat).
  { unfold l1'. cbn [size fold_right e_val]. fold (size (lru_del i l1)). rewrite Hd1.
    unfold anns. rewrite !app_length. cbn [length]. lia. }
  assert (Hnorm : lru_add (c_hash_limit c) i (anns ++ [d]) (N.of_nat (length anns)) l1 = (l1', [])).
  { unfold lru_add. fold l1'. apply normalize_id.
    - pose proof (weight_le_size _ Hok1). lia.
    - pose proof (len_le_size _ Hok1). unfold lru_len. lia. }
  rewrite Hnorm.
  assert (Hres : forall f, let st' := mkSt l1' f (tm st) in
     entries_ok (ann st') /\ (size (ann st') <= size (ann st) + 2)%nat /\
     (forall k, k <> i -> lru_find k (ann st') = lru_find k (ann st)) /\
     (exists e', lru_find i (ann st') = Some e' /\
        (forall e, In e (ann st') -> e = e' \/ In e (ann st)) /\
        (forall a, In a (e_val e') -> a = d \/ exists e, In e (ann st) /\ e_key e = i /\ In a (e_val e)))).
  { intros f. cbn [ann]. split; [exact Hok1|]. split; [lia|]. split.
    - intros k Hk. unfold l1'. cbn [lru_find e_key].
      destruct (i =? k)%N eqn:E; [apply N.eqb_eq in E; congruence|].
      rewrite Hd1. now rewrite lru_find_del_other by assumption.
    - exists (mkE i (anns ++ [d]) (N.of_nat (length anns))). unfold l1'. cbn [lru_find e_key]. rewrite N.eqb_refl.
      split; [reflexivity|]. split.
      + intros e [<-|He]; [left; reflexivity | right]. rewrite Hd1 in He. eapply lru_del_incl; eauto.
      + cbn [e_val]. unfold anns. intros a Ha. rewrite !in_app_iff in Ha.
        destruct Ha as [[Ha | [<- | []]] | [<- | []]]; auto. right.
        destruct (lru_find i (ann st)) as [e0|] eqn:F0; [|rewrite Hd3 in Ha; contradiction].
        destruct (lru_find_some _ _ _ F0) as [Hi Hk]. exists e0. rewrite <- Hd3. auto. }
  cbn [f_del_all fold_left].
  destruct susp; [apply Hres|]. destruct (f_find i (fetching st)); apply Hres.
Qed.


(* all stored announces of the item are young with respect to Tend *)
Definition young_inv (c : cfg) (id : N) (Tend : Z) (st : state) : Prop :=
  forall e a, In e (ann st) -> e_key e = id -> In a (e_val e) -> (Tend - a_time a <= c_forget c)%Z.

Definition held (id : N) (st : state) : Prop := lru_find id (ann st) <> None.

Lemma notify_fold_acct c now d susp id Tend l : forall st tf,
  entries_ok (ann st) ->
  (N.of_nat (size (ann st) + 2 * length l) <= c_hash_limit c)%N ->
  (In id l -> (Tend - a_time d <= c_forget c)%Z) ->
  young_inv c id Tend st ->
  let st' := fst (fold_left (notify_one c now d susp) l (st, tf)) in
  entries_ok (ann st') /\ (size (ann st') <= size (ann st) + 2 * length l)%nat /\
  young_inv c id Tend st' /\ (held id st -> held id st') /\ (In id l -> held id st').
Proof.
  induction l as [|i l IH]; intros st tf Hok Hcap Hd Hy; cbn [fold_left fst length].
  - split; [assumption|]. split; [lia|]. split; [assumption|]. split; [auto | intros []].
  - assert (Hcap1 : (N.of_nat (size (ann st) + 2) <= c_hash_limit c)%N) by (cbn [length] in Hcap; lia).
    pose proof (notify_one_acct c now d susp st tf i Hok Hcap1) as H1. cbn zeta in H1.
    destruct (notify_one c now d susp (st, tf) i) as [st1 tf1]. cbn [fst] in H1.
    destruct H1 as (Hok1 & Hsz1 & Hoth & (e' & Hf' & Hin' & Hv')).
    assert (Hy1 : young_inv c id Tend st1).
    { intros e a He Hk Ha. destruct (Hin' e He) as [->|Ho]; [|eapply Hy; eauto].
      destruct (lru_find_some _ _ _ Hf') as [_ Hk']. rewrite Hk' in Hk. subst i.
      destruct (Hv' a Ha) as [->|(e0 & H1 & H2 & H3)]; [apply Hd; left; reflexivity | eapply Hy; eauto]. }
    assert (Hcap2 : (N.of_nat (size (ann st1) + 2 * length l) <= c_hash_limit c)%N) by (cbn [length] in Hcap; lia).
    specialize (IH st1 tf1 Hok1 Hcap2 (fun H => Hd (or_intror H)) Hy1). cbn zeta in IH.
    destruct IH as (H2 & H3 & H4 & H5 & H6).
    split; [exact H2|]. split; [cbn [length]; lia|]. split; [exact H4|].
    assert (Hh1 : held id st -> held id st1).
    { unfold held. intros Hh. destruct (N.eq_dec id i) as [->|Hne]; [rewrite Hf'; discriminate | now rewrite (Hoth id Hne)]. }
    split; [auto|].
    intros [->|Hin]; [apply H5; unfold held; rewrite Hf'; discriminate | auto].
Qed.

(* ---------- the other steps do not grow the table ---------- *)

Lemma size_del_le k l : (size (lru_del k l) <= size l)%nat.
Proof.
  destruct (lru_find k l) as [e|] eqn:F; [rewrite (size_del_found _ _ _ F); lia | now rewrite del_notfound].
Qed.

Lemma size_get k l : size (snd (lru_get k l)) = size l.
Proof.
  unfold lru_get. destruct (lru_find k l) as [e|] eqn:F; cbn [snd]; [|reflexivity].
  rewrite (size_del_found _ _ _ F). unfold table_size. reflexivity.
Qed.

Definition shrinks (st st' : state) : Prop :=
  (forall e, In e (ann st') -> In e (ann st)) /\ (size (ann st') <= size (ann st))%nat.

Lemma shrinks_refl st : shrinks st st.
Proof. split; auto. Qed.
Lemma shrinks_trans a b c : shrinks a b -> shrinks b c -> shrinks a c.
Proof. intros (H1 & H2) (H4 & H5). split; [auto | lia]. Qed.
Lemma shrinks_ann a b : ann b = ann a -> shrinks a b.
Proof. intros E. unfold shrinks. rewrite E. auto. Qed.

Lemma shrinks_forget k st : shrinks st (forget k st).
Proof.
  unfold forget. destruct (lru_find k (ann st)) eqn:F; [|apply shrinks_refl].
  split; cbn [ann]; [intros e'; apply lru_del_incl | apply size_del_le].
Qed.

Lemma shrinks_pass_one c now ch st rq i : shrinks st (fst (pass_one c now ch (st, rq) i)).
Proof.
  unfold pass_one.
  pose proof (lru_get_incl i (ann st)) as Hg. pose proof (size_get i (ann st)) as Hs.
  destruct (lru_get i (ann st)) as [got l1]. cbn [snd] in Hg, Hs.
  assert (H1 : forall f t, shrinks st (mkSt l1 f t)) by (intros f t; split; cbn [ann]; [exact Hg | lia]).
  destruct got as [[|oldest more]|]; cbn [fst]; [apply H1 | | apply shrinks_refl].
  destruct (c_forget c <? now - a_time oldest)%Z; [eapply shrinks_trans; [apply H1 | apply shrinks_forget]|].
  match goal with |- context [if ?b then _ else _] => destruct b end; apply H1.
Qed.

Lemma shrinks_fold {A} (f : state * A -> N -> state * A) l :
  (forall acc i, shrinks (fst acc) (fst (f acc i))) -> forall acc, shrinks (fst acc) (fst (fold_left f l acc)).
Proof.
  intros Hf. induction l as [|i l IH]; intros acc; cbn [fold_left]; [apply shrinks_refl|].
  eapply shrinks_trans; [apply Hf | apply IH].
Qed.

Lemma shrinks_step c st now ev :
  match ev with ENotify _ _ _ _ _ _ => False | _ => True end -> shrinks st (fst (step true c st now ev)).
Proof.
  destruct ev as [peer ids atime interested susp scan | ids | | interested ch scan]; intros H; [contradiction| | |]; cbn [step].
  - cbn [fst]. revert st. induction ids as [|i ids IH]; intros st; cbn [fold_left]; [apply shrinks_refl|].
    eapply shrinks_trans; [apply shrinks_forget | apply IH].
  - destruct (t_armed (tm st)) as [due|]; [destruct (due <=? now)%Z|]; cbn [fst]; apply shrinks_ann; reflexivity.
  - destruct (t_chan (tm st)); [|apply shrinks_refl]. unfold timer_pass.
    set (st0 := mkSt (ann st) (fetching st) (mkT (t_armed (tm st)) false)).
    pose proof (shrinks_fold (pass_one c now ch) interested (fun acc i => let '(s, r) := acc in shrinks_pass_one c now ch s r i) (st0, [])) as H1.
    destruct (fold_left (pass_one c now ch) interested (st0, [])) as [st1 rq]. cbn [fst] in *.
    eapply shrinks_trans; [exact H1|].
    eapply shrinks_trans; [|apply shrinks_ann; apply reschedule_ann].
    generalize (lru_keys (ann st0)). intros l. generalize st1. clear.
    induction l as [|x l IH]; intros st1; cbn [fold_left]; [apply shrinks_refl|].
    destruct (memN x interested); [apply IH | eapply shrinks_trans; [apply shrinks_forget | apply IH]].
Qed.

(* entries_ok alone is preserved by every step within capacity (no hypothesis about announce times) *)
Lemma notify_fold_entries c now d susp l : forall st tf,
  entries_ok (ann st) -> (N.of_nat (size (ann st) + 2 * length l) <= c_hash_limit c)%N ->
  entries_ok (ann (fst (fold_left (notify_one c now d susp) l (st, tf)))).
Proof.
  induction l as [|i l IH]; intros st tf Hok Hcap; cbn [fold_left fst length]; [exact Hok|].
  assert (Hcap1 : (N.of_nat (size (ann st) + 2) <= c_hash_limit c)%N) by (cbn [length] in Hcap; lia).
  pose proof (notify_one_acct c now d susp st tf i Hok Hcap1) as H1. cbn zeta in H1.
  destruct (notify_one c now d susp (st, tf) i) as [st1 tf1]. cbn [fst] in H1.
  destruct H1 as (Hok1 & Hsz1 & _). apply IH; [exact Hok1 | cbn [length] in Hcap; lia].
Qed.

Lemma step_entries_ok c st now ev : entries_ok (ann st) -> ev_cap c st ev -> entries_ok (ann (fst (step true c st now ev))).
Proof.
  intros Ho Hcap. destruct ev as [peer ids atime interested susp scan | ids | | interested ch scan].
  2: (eapply entries_ok_incl; [apply (proj1 (shrinks_step c st now (EReceived ids) I)) | exact Ho]).
  2: (eapply entries_ok_incl; [apply (proj1 (shrinks_step c st now ETick I)) | exact Ho]).
  2: (eapply entries_ok_incl; [apply (proj1 (shrinks_step c st now (ETimer interested ch scan) I)) | exact Ho]).
  cbn [step]. unfold process_notification. cbn [ev_cap] in Hcap.
  destruct interested as [|i0 rest]; [exact Ho|]. remember (i0 :: rest) as interested eqn:EI. clear EI.
  pose proof (notify_fold_entries c now (mkA atime peer) susp interested st [] Ho Hcap) as H.
  destruct (fold_left (notify_one c now (mkA atime peer) susp) interested (st, [])) as [st1 tf]. cbn [fst] in *.
  destruct (_ && _); [rewrite reschedule_ann; exact H | exact H].
Qed.

(* ---------- the invariant of the whole run ---------- *)

Definition genv (c : cfg) (id : N) (Tend : Z) (st : state) : Prop :=
  entries_ok (ann st) /\ young_inv c id Tend st.

Definition ev_young (c : cfg) (id : N) (Tend : Z) (ev : event) : Prop :=
  match ev with
  | ENotify _ _ atime interested _ _ => In id interested -> (Tend - atime <= c_forget c)%Z
  | _ => True
  end.

Lemma genv_shrinks c id Tend st st' : shrinks st st' -> genv c id Tend st -> genv c id Tend st'.
Proof.
  intros [H1 H2] (Ho & Hy). split; [eapply entries_ok_incl; eauto|].
  intros e a He. apply Hy, H1, He.
Qed.

Lemma step_genv c id Tend st now ev :
  genv c id Tend st -> ev_cap c st ev -> ev_young c id Tend ev ->
  genv c id Tend (fst (step true c st now ev)) /\
  (held id st -> match ev with ENotify _ _ _ _ _ _ => held id (fst (step true c st now ev)) | _ => True end) /\
  (match ev with ENotify _ _ _ interested _ _ => In id interested -> held id (fst (step true c st now ev)) | _ => True end).
Proof.
  intros Hg Hcap Hyg.
  destruct ev as [peer ids atime interested susp scan | ids | | interested ch scan].
  2-4: (split; [|split; [intros _; exact I | exact I]]);
       (eapply genv_shrinks; [apply shrinks_step; exact I | exact Hg]).
  cbn [step]. unfold process_notification. cbn [ev_cap] in Hcap.
  destruct interested as [|i0 rest].
  { cbn [fst]. split; [exact Hg|]. split; [auto | intros []]. }
  remember (i0 :: rest) as interested eqn:EI. clear EI.
  destruct Hg as (Ho & Hy).
  pose proof (notify_fold_acct c now (mkA atime peer) susp id Tend interested st [] Ho Hcap Hyg Hy) as H.
  cbn zeta in H.
  destruct (fold_left (notify_one c now (mkA atime peer) susp) interested (st, [])) as [st1 tf]. cbn [fst] in *.
  destruct H as (H1 & H2 & H3 & H4 & H5).
  assert (Hr : forall b : bool, ann (if b then reschedule c st1 now scan else st1) = ann st1)
    by (intros b; destruct b; [apply reschedule_ann | reflexivity]).
  unfold genv, held, young_inv. rewrite Hr. auto.
Qed.

Lemma received_keeps_held c st now ids id : ~ In id ids -> held id st -> held id (fst (step true c st now (EReceived ids))).
Proof.
  cbn [step fst]. unfold held. revert st. induction ids as [|i ids IH]; intros st Hn Hh; cbn [fold_left]; [exact Hh|].
  apply IH; [intros H; apply Hn; right; exact H|].
  assert (Hne : id <> i) by (intros ->; apply Hn; left; reflexivity).
  now rewrite (proj1 (forget_other id i st Hne)).
Qed.

Lemma pass_keeps_held c id Tend st now interested ch scan :
  (c_slack c <= c_arrive c)%Z -> genv c id Tend st -> (now <= Tend)%Z ->
  timer_chan st = true -> In id interested -> held id st ->
  let st' := fst (step true c st now (ETimer interested ch scan)) in
  held id st' /\ exists p ft, f_find id (fetching st') = Some (p, ft) /\ (now - ft <= c_arrive c - c_slack c)%Z.
Proof.
  intros Hs (Ho & Hy) Hnow Hc Hin Hh. unfold held in Hh.
  destruct (lru_find id (ann st)) as [e|] eqn:F; [|contradiction].
  destruct (lru_find_some _ _ _ F) as [He Hk].
  destruct (e_val e) as [|oldest more] eqn:Ev; [exfalso; exact (proj2 (Ho e He) Ev)|].
  assert (Hage : (now - a_time oldest <= c_forget c)%Z).
  { assert (H := Hy e oldest He Hk). rewrite Ev in H. specialize (H (or_introl eq_refl)). lia. }
  destruct (fetcher_pass_leaves_recent c st now interested ch scan id e oldest more Hs Hc Hin F Ev Hage) as [H1 H2].
  split; [unfold held; rewrite H1; discriminate | exact H2].
Qed.

(* ---------- timer state after a taken pass ---------- *)
Lemma pass_one_tm c now ch acc i : tm (fst (pass_one c now ch acc i)) = tm (fst acc).
Proof.
  destruct acc as [st rq]. unfold pass_one. destruct (lru_get i (ann st)) as [got l1].
  destruct got as [[|oldest more]|]; cbn [fst tm]; try reflexivity.
  destruct (c_forget c <? now - a_time oldest)%Z; [cbn [fst]; rewrite forget_tm; reflexivity|].
  match goal with |- context [if ?b then _ else _] => destruct b end; reflexivity.
Qed.

Lemma pass_fold_tm c now ch l : forall acc, tm (fst (fold_left (pass_one c now ch) l acc)) = tm (fst acc).
Proof. induction l as [|i l IH]; intros acc; cbn [fold_left]; [reflexivity | rewrite IH; apply pass_one_tm]. Qed.

Lemma pass_rearms c st now interested ch scan :
  cfg_wf c -> timer_chan st = true ->
  let st' := fst (step true c st now (ETimer interested ch scan)) in
  ann st' <> [] -> timer_chan st' = false /\ exists due, timer_due st' = Some due /\ (due <= now + c_arrive c)%Z.
Proof.
  unfold timer_chan, timer_due. intros Hwf Hc. cbn [step]. rewrite Hc. unfold timer_pass.
  set (st0 := mkSt (ann st) (fetching st) (mkT (t_armed (tm st)) false)).
  pose proof (pass_fold_tm c now ch interested (st0, [])) as Ht.
  destruct (fold_left (pass_one c now ch) interested (st0, [])) as [st1 rq]. cbn [fst] in *.
  destruct (forget_fold_tm (fun x => memN x interested) (fun x => x) (lru_keys (ann st0)) st1) as [Ht2 _].
  set (st2 := fold_left (fun s x => if memN x interested then s else forget x s) (lru_keys (ann st0)) st1) in *.
  intros Hne. rewrite reschedule_ann in Hne.
  destruct (reschedule_pending c st2 now scan Hwf Hne) as (due & Hd & Hb).
  split; [|exists due; split; assumption].
  unfold reschedule. destruct (ann st2); [contradiction|]. cbn [tm t_chan]. rewrite Ht2, Ht. reflexivity.
Qed.

Lemma held_ann_ne id st : held id st -> ann st <> [].
Proof. apply lru_find_ann_ne. Qed.

(* ---------- chasing the first pass at or after T0 ---------- *)
Section Chase.
Variables (c : cfg) (lat : Z) (k : nat) (id : N) (T0 : Z).
Hypothesis Hwf : cfg_wf c.
Hypothesis Hsl : (c_slack c <= c_arrive c)%Z.
Hypothesis Hlat : (0 <= lat)%Z.
Let Bmax := (T0 + c_arrive c)%Z.
Let Tend := (T0 + c_arrive c + (Z.of_nat k + 2) * lat)%Z.

(* a pass is pending: its value is in the channel (n events have overtaken it so far), or the timer is
   armed and due by Bmax *)
Definition resp_inv_k (st : state) (tprev : Z) (n : nat) : Prop :=
  (timer_chan st = true /\ (tprev <= Bmax + lat + Z.of_nat n * lat)%Z /\ (n <= k)%nat) \/
  (timer_chan st = false /\ exists due, timer_due st = Some due /\ (due <= Bmax)%Z).

Lemma chase : forall post st tprev n,
  resp_inv_k st tprev n -> fair_run_k c lat k st tprev n post ->
  genv c id Tend st -> cap_ok c st post ->
  (forall now ev, In (now, ev) post -> ev_young c id Tend ev) ->
  held id st ->
  (forall now i ch sc, In (now, ETimer i ch sc) post -> (now <= Tend)%Z -> In id i) ->
  (forall now l, In (now, EReceived l) post -> (now <= Tend)%Z -> ~ In id l) ->
  (exists now ev, In (now, ev) post /\ (Tend < now)%Z) ->
  exists p1 now_p i ch sc p2,
    post = p1 ++ (now_p, ETimer i ch sc) :: p2 /\ (T0 <= now_p <= Tend)%Z /\
    exists p ft, f_find id (fetching (fst (step true c (fst (run true c st p1)) now_p (ETimer i ch sc)))) = Some (p, ft) /\
                 (now_p - ft <= c_arrive c - c_slack c)%Z.
Proof.
  induction post as [|[now ev] post IH]; intros st tprev n Hinv Hfair Hg Hcap Hy Hh Hint Hrec (nl & el & Hl & Hlate); [contradiction|].
  cbn [fair_run_k] in Hfair. destruct Hfair as (Hf1 & Hf2 & Hf3).
  cbn [cap_ok] in Hcap. destruct Hcap as [Hcap1 Hcap2].
  destruct (step_genv c id Tend st now ev Hg Hcap1 (Hy now ev (or_introl eq_refl))) as (Hg1 & Hk1 & _).
  assert (Hy' : forall n0 e, In (n0, e) post -> ev_young c id Tend e) by (intros n0 e H; eapply Hy; right; exact H).
  assert (Hint' : forall n0 i ch sc, In (n0, ETimer i ch sc) post -> (n0 <= Tend)%Z -> In id i) by (intros n0 i ch sc H; eapply Hint; right; exact H).
  assert (Hrec' : forall n0 l, In (n0, EReceived l) post -> (n0 <= Tend)%Z -> ~ In id l) by (intros n0 l H; eapply Hrec; right; exact H).
  assert (Hcont : forall n', (now <= Tend)%Z ->
    n' = (if timer_chan st && negb (takes_pass st ev) then S n else 0%nat) ->
    resp_inv_k (fst (step true c st now ev)) now n' -> held id (fst (step true c st now ev)) ->
    exists p1 now_p i ch sc p2,
      (now, ev) :: post = p1 ++ (now_p, ETimer i ch sc) :: p2 /\ (T0 <= now_p <= Tend)%Z /\
      exists p ft, f_find id (fetching (fst (step true c (fst (run true c st p1)) now_p (ETimer i ch sc)))) = Some (p, ft) /\
                   (now_p - ft <= c_arrive c - c_slack c)%Z).
  { intros n' Hnow En' Hinv1 Hh1. subst n'.
    assert (Hl' : exists n0 e, In (n0, e) post /\ (Tend < n0)%Z).
    { destruct Hl as [E|Hl]; [inversion E; subst; lia | eauto]. }
    destruct (IH _ now _ Hinv1 Hf3 Hg1 Hcap2 Hy' Hh1 Hint' Hrec' Hl') as (p1 & now_p & i & ch & sc & p2 & E & Hb & Hr).
    exists ((now, ev) :: p1), now_p, i, ch, sc, p2. cbn [app run]. rewrite E. split; [reflexivity|]. split; [exact Hb|].
    destruct (step true c st now ev) as [st1 o]. cbn [fst] in *.
    destruct (run true c st1 p1) as [st2 lg]. cbn [fst] in *. exact Hr. }
  unfold resp_inv_k in Hinv. destruct Hinv as [(Hc & Ht & Hn) | [Hc (due & Hd & Hdb)]].
  - destruct (Hf2 Hc) as [Hn1 Hp].
    assert (Hnow : (now <= Tend)%Z) by (unfold Tend, Bmax in *; nia).
    destruct ev as [peer ids atime interested susp scan | ids | | i ch sc].
    4:{ (* the pass *)
        assert (Hin : In id i) by (exact (Hint now i ch sc (or_introl eq_refl) Hnow)).
        destruct (pass_keeps_held c id Tend st now i ch sc Hsl Hg Hnow Hc Hin Hh) as [Hh1 Hr].
        destruct (Z_le_gt_dec T0 now) as [Hge|Hlt].
        - exists [], now, i, ch, sc, post. cbn [app run fst]. split; [reflexivity|]. split; [lia | exact Hr].
        - apply (Hcont 0%nat); [exact Hnow | cbn [takes_pass]; rewrite Hc; reflexivity | | exact Hh1].
          destruct (pass_rearms c st now i ch sc Hwf Hc (held_ann_ne _ _ Hh1)) as (Hc1 & due & Hd & Hb).
          right. split; [exact Hc1|]. exists due. split; [exact Hd | unfold Bmax; lia]. }
    all: cbn [takes_pass] in Hp; destruct Hp as [Hp|Hp]; [discriminate|].
    all: assert (Hb2 : (now <= Bmax + lat + Z.of_nat (S n) * lat)%Z) by (rewrite Nat2Z.inj_succ; nia).
    + apply (Hcont (S n)); [exact Hnow | cbn [takes_pass]; rewrite Hc; reflexivity | | exact (Hk1 Hh)].
      left. unfold timer_chan in *. rewrite notify_keeps_timer by (now apply held_ann_ne with id). split; [exact Hc|]. split; [exact Hb2 | lia].
    + apply (Hcont (S n)); [exact Hnow | cbn [takes_pass]; rewrite Hc; reflexivity | | apply received_keeps_held; [exact (Hrec now ids (or_introl eq_refl) Hnow) | exact Hh]].
      left. unfold timer_chan in *. rewrite received_keeps_timer. split; [exact Hc|]. split; [exact Hb2 | lia].
    + apply (Hcont (S n)); [exact Hnow | cbn [takes_pass]; rewrite Hc; reflexivity | | ].
      * left. unfold timer_chan in *. cbn [step].
        destruct (t_armed (tm st)) as [due|]; [destruct (due <=? now)%Z|]; cbn [fst tm t_chan]; (split; [try exact Hc; reflexivity|]); split; try exact Hb2; lia.
      * unfold held. cbn [step]. destruct (t_armed (tm st)) as [due|]; [destruct (due <=? now)%Z|]; exact Hh.
  - assert (Hnow' : (now <= Bmax + lat)%Z) by (specialize (Hf1 due Hd); lia).
    assert (Hnow : (now <= Tend)%Z) by (unfold Tend in *; fold Bmax; nia).
    assert (Htp : takes_pass st ev = false) by (destruct ev; cbn; auto).
    assert (En : (if timer_chan st && negb (takes_pass st ev) then S n else 0%nat) = 0%nat) by (rewrite Hc; reflexivity).
    unfold timer_chan, timer_due in *.
    destruct ev as [peer ids atime interested susp scan | ids | | interested ch scan].
    + apply (Hcont 0%nat); [exact Hnow | now rewrite En | | exact (Hk1 Hh)].
      right. unfold timer_chan, timer_due. rewrite notify_keeps_timer by (now apply held_ann_ne with id). eauto.
    + apply (Hcont 0%nat); [exact Hnow | now rewrite En | | apply received_keeps_held; [exact (Hrec now ids (or_introl eq_refl) Hnow) | exact Hh]].
      right. unfold timer_chan, timer_due. rewrite received_keeps_timer. eauto.
    + apply (Hcont 0%nat); [exact Hnow | now rewrite En | | ].
      * unfold resp_inv_k, timer_chan, timer_due. cbn [step]. rewrite Hd.
        destruct (due <=? now)%Z; cbn [fst tm t_chan t_armed]; [left; split; [reflexivity|]; split; [cbn; lia | lia] | right; eauto].
      * unfold held. cbn [step]. rewrite Hd. destruct (due <=? now)%Z; exact Hh.
    + apply (Hcont 0%nat); [exact Hnow | now rewrite En | | ].
      * unfold resp_inv_k, timer_chan, timer_due. cbn [step]. rewrite Hc. right. eauto.
      * unfold held. cbn [step]. rewrite Hc. exact Hh.
Qed.
End Chase.

(* ---------- prefixes ---------- *)
Fixpoint last_time (t : Z) (tr : list (Z * event)) : Z :=
  match tr with [] => t | (now, _) :: r => last_time now r end.

Lemma run_app_fst c tr1 : forall st tr2,
  fst (run true c st (tr1 ++ tr2)) = fst (run true c (fst (run true c st tr1)) tr2).
Proof.
  induction tr1 as [|[now ev] tr1 IH]; intros st tr2; cbn [app run]; [reflexivity|].
  destruct (step true c st now ev) as [st1 o]. specialize (IH st1 tr2).
  destruct (run true c st1 (tr1 ++ tr2)). destruct (run true c st1 tr1). cbn [fst] in *. exact IH.
Qed.

Lemma run_app_snd c tr1 : forall st tr2,
  snd (run true c st (tr1 ++ tr2)) = snd (run true c st tr1) ++ snd (run true c (fst (run true c st tr1)) tr2).
Proof.
  induction tr1 as [|[now ev] tr1 IH]; intros st tr2; cbn [app run]; [reflexivity|].
  destruct (step true c st now ev) as [st1 o]. specialize (IH st1 tr2).
  destruct (run true c st1 (tr1 ++ tr2)). destruct (run true c st1 tr1). cbn [fst snd] in *.
  rewrite IH. now rewrite app_assoc.
Qed.

Lemma run_reachT c t0 tr : forall t st, reachT c t0 t st -> clock_ok t tr ->
  reachT c t0 (last_time t tr) (fst (run true c st tr)).
Proof.
  induction tr as [|[now ev] tr IH]; intros t st H Hc; cbn [run last_time]; [exact H|].
  destruct Hc as [H1 H2]. pose proof (reachT_step c t0 t st now ev H H1) as Hr.
  destruct (step true c st now ev) as [st1 o]. cbn [fst] in Hr. specialize (IH now st1 Hr H2).
  destruct (run true c st1 tr). exact IH.
Qed.

Lemma clock_ok_app t pre post : clock_ok t (pre ++ post) -> clock_ok t pre /\ clock_ok (last_time t pre) post.
Proof.
  revert t. induction pre as [|[now ev] pre IH]; intros t H; cbn [app clock_ok last_time] in *; [auto|].
  destruct H as [H1 H2]. destruct (IH now H2). auto.
Qed.

Lemma clock_ok_le t tr : clock_ok t tr -> (t <= last_time t tr)%Z /\ forall n e, In (n, e) tr -> (n <= last_time t tr)%Z.
Proof.
  revert t. induction tr as [|[now ev] tr IH]; intros t H; cbn [clock_ok last_time] in *; [split; [lia | intros ? ? []]|].
  destruct H as [H1 H2]. destruct (IH now H2) as [H3 H4]. split; [lia|].
  intros n e [E|Hin]; [inversion E; subst; exact H3 | eauto].
Qed.

Lemma fair_run_app c lat pre : forall st tp post,
  fair_run c lat st tp (pre ++ post) -> fair_run c lat (fst (run true c st pre)) (last_time tp pre) post.
Proof.
  induction pre as [|[now ev] pre IH]; intros st tp post H; cbn [app run last_time]; [exact H|].
  cbn [fair_run] in H. destruct H as (_ & _ & H).
  destruct (step true c st now ev) as [st1 o]. cbn [fst] in H. specialize (IH st1 now post H).
  destruct (run true c st1 pre). exact IH.
Qed.

Lemma fair_run_k_app c lat k pre : forall st tp n post,
  (n <= k)%nat -> fair_run_k c lat k st tp n (pre ++ post) ->
  exists n', (n' <= k)%nat /\ fair_run_k c lat k (fst (run true c st pre)) (last_time tp pre) n' post.
Proof.
  induction pre as [|[now ev] pre IH]; intros st tp n post Hn H; cbn [app run last_time]; [eauto|].
  cbn [fair_run_k] in H. destruct H as (_ & H2 & H).
  assert (Hn' : ((if timer_chan st && negb (takes_pass st ev) then S n else 0) <= k)%nat).
  { destruct (timer_chan st) eqn:Ec; cbn [andb]; [|lia]. destruct (takes_pass st ev) eqn:Et; cbn [negb]; [lia|].
    destruct (H2 eq_refl) as [_ [Hp|Hp]]; [discriminate | lia]. }
  destruct (step true c st now ev) as [st1 o]. cbn [fst] in H.
  destruct (IH st1 now _ post Hn' H) as (n' & H1 & H3). exists n'. split; [exact H1|].
  destruct (run true c st1 pre). exact H3.
Qed.

Lemma cap_ok_app c pre : forall st post,
  cap_ok c st (pre ++ post) -> cap_ok c st pre /\ cap_ok c (fst (run true c st pre)) post.
Proof.
  induction pre as [|[now ev] pre IH]; intros st post H; cbn [app cap_ok run] in *; [auto|].
  destruct H as [H1 H2]. destruct (step true c st now ev) as [st1 o]. cbn [fst] in *.
  destruct (IH st1 post H2) as [H3 H4]. destruct (run true c st1 pre). cbn [fst] in *. auto.
Qed.

Lemma run_genv c id Tend tr : forall st,
  genv c id Tend st -> cap_ok c st tr ->
  (forall now ev, In (now, ev) tr -> ev_young c id Tend ev) ->
  genv c id Tend (fst (run true c st tr)).
Proof.
  induction tr as [|[now ev] tr IH]; intros st Hg Hcap Hy; cbn [run]; [exact Hg|].
  cbn [cap_ok] in Hcap. destruct Hcap as [Hc1 Hc2].
  destruct (step_genv c id Tend st now ev Hg Hc1 (Hy now ev (or_introl eq_refl))) as (Hg1 & _).
  destruct (step true c st now ev) as [st1 o]. cbn [fst] in *.
  specialize (IH st1 Hg1 Hc2 (fun n e H => Hy n e (or_intror H))).
  destruct (run true c st1 tr). exact IH.
Qed.

Lemma genv_init c id Tend t0 : genv c id Tend (init t0).
Proof. split; [intros e [] | intros e a []]. Qed.

Lemma run_log_times c tr : forall st t' rq, In (t', rq) (snd (run true c st tr)) -> exists ev, In (t', ev) tr.
Proof.
  induction tr as [|[now ev] tr IH]; intros st t' rq H; cbn [run] in H; [contradiction|].
  destruct (step true c st now ev) as [st1 o]. pose proof (IH st1 t' rq) as IH1.
  destruct (run true c st1 tr) as [st2 lg]. cbn [snd] in *.
  apply in_app_iff in H. destruct H as [H|H].
  - apply in_map_iff in H. destruct H as (x & E & _). inversion E; subst. exists ev. left. reflexivity.
  - destruct (IH1 H) as (e & He). exists e. right. exact He.
Qed.

Lemma run_single c st now ev : fst (run true c st [(now, ev)]) = fst (step true c st now ev).
Proof. cbn [run]. destruct (step true c st now ev). reflexivity. Qed.

Lemma run_entries_ok c tr : forall s, entries_ok (ann s) -> cap_ok c s tr -> entries_ok (ann (fst (run true c s tr))).
Proof.
  induction tr as [|[now ev] tr IH]; intros s Hs Hc; cbn [run]; [exact Hs|].
  cbn [cap_ok] in Hc. destruct Hc as [Hc1 Hc2].
  pose proof (step_entries_ok c s now ev Hs Hc1) as H1. destruct (step true c s now ev) as [s1 o]. cbn [fst] in *.
  specialize (IH s1 H1 Hc2). destruct (run true c s1 tr). exact IH.
Qed.

(* ====================== the end-to-end theorem ====================== *)
Theorem fetcher_liveness c lat k t0 pre t peer ids atime interested susp scan post id :
  cfg_wf c -> (c_slack c <= c_arrive c)%Z -> (0 <= lat)%Z ->
  let tr := pre ++ (t, ENotify peer ids atime interested susp scan) :: post in
  let Tend := (t + 2 * c_arrive c - c_slack c + (Z.of_nat k + 2) * lat)%Z in
  clock_ok t0 tr ->
  fair_run_k c lat k (init t0) t0 0 tr ->
  In id interested ->
  cap_ok c (init t0) tr ->
  young_inv c id Tend (fst (run true c (init t0) pre)) ->
  (Tend - atime <= c_forget c)%Z ->
  (forall now p i a int su sc, In (now, ENotify p i a int su sc) post -> In id int -> (Tend - a <= c_forget c)%Z) ->
  (forall now i ch sc, In (now, ETimer i ch sc) post -> (now <= Tend)%Z -> In id i) ->
  (forall now l, In (now, EReceived l) post -> (now <= Tend)%Z -> ~ In id l) ->
  (exists now ev, In (now, ev) post /\ (Tend < now)%Z) ->
  exists t' p l, In (t', (p, l)) (snd (run true c (init t0) tr)) /\ In id l /\ (t <= t' <= Tend)%Z.
Proof.
  intros Hwf Hsl Hlat tr Tend Hclk Hfair Hin Hcap Hyst Hynew Hyoung Hint Hrec Hlate.
  set (Nev := (t, ENotify peer ids atime interested susp scan)) in *.
  set (T0 := (t + (c_arrive c - c_slack c))%Z).
  assert (ETend : Tend = (T0 + c_arrive c + (Z.of_nat k + 2) * lat)%Z) by (unfold Tend, T0; lia).
  assert (Hy : forall now ev, In (now, ev) post -> ev_young c id Tend ev).
  { intros now ev Hev. destruct ev; try exact I. cbn. intros Hi. eapply Hyoung; eauto. }
  replace tr with ((pre ++ [Nev]) ++ post) in * by (unfold tr; now rewrite <- app_assoc).
  destruct (clock_ok_app _ _ _ Hclk) as [Hclk1 Hclk2].
  assert (Elast : last_time t0 (pre ++ [Nev]) = t).
  { clear. revert t0. induction pre as [|[n e] pre IH]; intros t0; cbn [app last_time]; [reflexivity | apply IH]. }
  rewrite Elast in Hclk2.
  pose proof (run_reachT c t0 (pre ++ [Nev]) t0 (init t0) (reachT_init c t0) Hclk1) as Hreach. rewrite Elast in Hreach.
  destruct (fair_run_k_app c lat k (pre ++ [Nev]) (init t0) t0 0 post (Nat.le_0_l _) Hfair) as (n1 & Hn1 & Hfair2).
  rewrite Elast in Hfair2.
  destruct (cap_ok_app c (pre ++ [Nev]) (init t0) post Hcap) as [Hcap1 Hcap2].
  destruct (cap_ok_app c pre (init t0) [Nev] Hcap1) as [Hcap0 HcapN].
  set (st0 := fst (run true c (init t0) pre)) in *.
  (* the table before the announcement: entries well-formed (from the run), records of the item young (hypothesis) *)
  assert (Hok0 : entries_ok (ann st0)).
  { unfold st0. apply run_entries_ok; [intros e [] | exact Hcap0]. }
  assert (Hg0 : genv c id Tend st0) by (split; assumption).
  unfold Nev in HcapN. cbn [cap_ok] in HcapN. destruct HcapN as [HcapN _].
  destruct (step_genv c id Tend st0 t (snd Nev) Hg0 HcapN (fun _ => Hynew)) as (Hg1' & _ & H3).
  cbn [snd Nev] in H3, Hg1'. specialize (H3 Hin).
  set (st1 := fst (run true c (init t0) (pre ++ [Nev]))) in *.
  assert (Est1 : st1 = fst (step true c st0 t (ENotify peer ids atime interested susp scan))).
  { unfold st1. rewrite run_app_fst. unfold Nev. now rewrite run_single. }
  assert (Hg1 : genv c id Tend st1) by (rewrite Est1; exact Hg1').
  assert (Hheld : held id st1) by (rewrite Est1; exact H3).
  assert (Hinv : resp_inv_k c lat k T0 st1 t n1).
  { unfold resp_inv_k.
    destruct (fetcher_pass_pending c t0 t st1 Hwf Hreach (held_ann_ne _ _ Hheld)) as [Hc | (due & Hd & Hb)].
    - left. split; [exact Hc|]. split; [destruct Hwf; unfold T0; nia | exact Hn1].
    - destruct (timer_chan st1) eqn:Ec; [left; split; [reflexivity | split; [destruct Hwf; unfold T0; nia | exact Hn1]] | right].
      split; [reflexivity|]. exists due. split; [exact Hd | unfold T0; lia]. }
  rewrite ETend in *.
  destruct (chase c lat k id T0 Hwf Hsl Hlat post st1 t n1 Hinv Hfair2 Hg1 Hcap2 Hy Hheld Hint Hrec Hlate)
    as (p1 & now_p & i & ch & sc & p2 & Epost & Hb & (p & ft & Hft & Hrec')).
  set (trA := (pre ++ [Nev]) ++ p1 ++ [(now_p, ETimer i ch sc)]).
  assert (EA : fst (run true c (init t0) trA) = fst (step true c (fst (run true c st1 p1)) now_p (ETimer i ch sc))).
  { unfold trA. rewrite run_app_fst. fold st1. rewrite run_app_fst. cbn [run].
    destruct (step true c (fst (run true c st1 p1)) now_p (ETimer i ch sc)). reflexivity. }
  rewrite <- EA in Hft.
  destruct (fetcher_fetching_was_requested c t0 trA id p ft Hft) as (l & Hl1 & Hl2).
  exists ft, p, l. split; [|split; [exact Hl2|]].
  - assert (Etr : (pre ++ [Nev]) ++ post = trA ++ p2).
    { unfold trA. rewrite Epost. rewrite <- !app_assoc. reflexivity. }
    rewrite Etr, run_app_snd. apply in_app_iff. left. exact Hl1.
  - split; [unfold T0 in *; lia|].
    destruct (run_log_times c trA (init t0) ft (p, l) Hl1) as (e & He).
    assert (HclkA : clock_ok t0 trA).
    { assert (Etr : (pre ++ [Nev]) ++ post = trA ++ p2) by (unfold trA; rewrite Epost, <- !app_assoc; reflexivity).
      rewrite Etr in Hclk. exact (proj1 (clock_ok_app _ _ _ Hclk)). }
    destruct (clock_ok_le t0 trA HclkA) as [_ Hle]. specialize (Hle ft e He).
    assert (ElastA : last_time t0 trA = now_p).
    { unfold trA. rewrite app_assoc. generalize ((pre ++ [Nev]) ++ p1). clear. intros l. revert t0.
      induction l as [|[n e] l IH]; intros t0; cbn [app last_time]; [reflexivity | apply IH]. }
    lia.
Qed.

Theorem fetcher_liveness_unsuspend c lat k t0 pre t peer ids atime interested susp scan post id t_u :
  cfg_wf c -> (c_slack c <= c_arrive c)%Z -> (0 <= lat)%Z ->
  let tr := pre ++ (t, ENotify peer ids atime interested susp scan) :: post in
  let Tend := (t + 2 * c_arrive c - c_slack c + (Z.of_nat k + 2) * lat)%Z in
  clock_ok t0 tr -> fair_run_k c lat k (init t0) t0 0 tr -> In id interested ->
  cap_ok c (init t0) tr ->
  young_inv c id Tend (fst (run true c (init t0) pre)) ->
  (Tend - atime <= c_forget c)%Z ->
  (forall now p i a int su sc, In (now, ENotify p i a int su sc) post -> In id int -> (Tend - a <= c_forget c)%Z) ->
  (forall now i ch sc, In (now, ETimer i ch sc) post -> (now <= Tend)%Z -> In id i) ->
  (forall now l, In (now, EReceived l) post -> (now <= Tend)%Z -> ~ In id l) ->
  (exists now ev, In (now, ev) post /\ (Tend < now)%Z) ->
  exists t' p l, In (t', (p, l)) (snd (run true c (init t0) tr)) /\ In id l /\
    (t <= t' <= Z.max t t_u + 2 * c_arrive c - c_slack c + (Z.of_nat k + 2) * lat)%Z.
Proof.
  intros Hwf Hsl Hlat tr Tend H1 H2 H3 H4 H5 H5' H5'' H6 H7 H8.
  destruct (fetcher_liveness c lat k t0 pre t peer ids atime interested susp scan post id Hwf Hsl Hlat H1 H2 H3 H4 H5 H5' H5'' H6 H7 H8)
    as (t' & p & l & Ha & Hb & Hc).
  exists t', p, l. split; [exact Ha|]. split; [exact Hb|]. unfold Tend in Hc. lia.
Qed.

(* non-vacuity: the theorem APPLIED to a concrete trace, every hypothesis discharged: the item is announced
   while the fetcher is suspended, a notification of another item overtakes the pass once (k = 1) *)
Definition ex_live_pre : list (Z * event) := [(0, ETick); (0, ETimer [] [] [])]%Z.
Definition ex_live_post : list (Z * event) :=
  [(400, ETick); (400, ENotify 2%N [9%N] 400 [9%N] false []); (400, ETimer [7%N; 9%N] [] []);
   (720, ETick); (720, ETimer [7%N; 9%N] [] []); (1040, ETick)]%Z.

Example fetcher_liveness_applied :
  exists t' p l,
    In (t', (p, l)) (snd (run true cfg_ex (init 0%Z) (ex_live_pre ++ (80%Z, ENotify 1%N [7%N] 80%Z [7%N] true []) :: ex_live_post))) /\
    In 7%N l /\ (80 <= t' <= 80 + 2 * 320 - 60 + (Z.of_nat 1 + 2) * 0)%Z.
Proof.
  apply (fetcher_liveness cfg_ex 0%Z 1%nat 0%Z ex_live_pre 80%Z 1%N [7%N] 80%Z [7%N] true [] ex_live_post 7%N).
  - unfold cfg_wf, cfg_ex; cbn; lia.
  - cbn; lia.
  - lia.
  - cbn; lia.
  - cbn [fair_run_k ex_live_pre ex_live_post app].
    repeat match goal with |- _ /\ _ => split end; try exact I;
      first [ intros due Hd; vm_compute in Hd; first [discriminate | inversion Hd; lia]
            | intros Hc; vm_compute in Hc; discriminate
            | intros _; split; [lia | first [left; vm_compute; reflexivity | right; vm_compute; lia]] ].
  - left. reflexivity.
  - cbn [cap_ok ex_live_pre ex_live_post app ev_cap]. repeat match goal with |- _ /\ _ => split end; try exact I; vm_compute; discriminate.
  - intros e a He. vm_compute in He. contradiction.
  - cbn; lia.
  - intros now p i a int su sc Hin Hi. cbn in Hin.
    repeat (destruct Hin as [E|Hin]; [inversion E; subst; try (cbn in Hi; intuition discriminate); cbn; lia|]). contradiction.
  - intros now i ch sc Hin _. cbn in Hin.
    repeat (destruct Hin as [E|Hin]; [inversion E; subst; cbn; auto|]). contradiction.
  - intros now l Hin _. cbn in Hin. repeat (destruct Hin as [E|Hin]; [discriminate|]). contradiction.
  - exists 720%Z, ETick. split; [cbn; auto | cbn; lia].
Qed.

(* ====================== the C16 replay scheduler only produces runs of [step] ====================== *)
From LV Require Import model.FetcherSim.

Definition fsim_ok (c : cfg) (s : fsim) : Prop :=
  fs_st s = fst (run true c (init 0%Z) (rev (fs_tr s))) /\ answers_sublist (fs_tr s).

Lemma run_snoc c tr st now ev :
  fst (run true c st (tr ++ [(now, ev)])) = fst (step true c (fst (run true c st tr)) now ev).
Proof. rewrite run_app_fst. apply run_single. Qed.

Lemma filter_sub {A} (f : A -> bool) l x : In x (filter f l) -> In x l.
Proof. intros H. apply filter_In in H. tauto. Qed.

Lemma fire_passes_ok c fuel T : forall s, fsim_ok c s -> fsim_ok c (fire_passes c fuel s T).
Proof.
  induction fuel as [|f IH]; intros s H; cbn [fire_passes]; [exact H|].
  destruct (timer_due (fs_st s)) as [due|]; [|exact H].
  destruct (due <=? T)%Z; [|exact H].
  destruct (step true c (fs_st s) due ETick) as [st1 o1] eqn:E1.
  destruct (step true c st1 due (ETimer (interesting s (keys_now st1)) [] [])) as [st2 rq] eqn:E2.
  apply IH. destruct H as [H1 H2]. split; cbn [fs_st fs_tr].
  - cbn [rev]. rewrite run_snoc, run_snoc, <- H1, E1. cbn [fst]. now rewrite E2.
  - intros now p i a int su sc [E|[E|Hin]]; [discriminate | discriminate | eapply H2; eauto].
Qed.

Lemma sim_fop_ok c fuel s T op : fsim_ok c s -> fsim_ok c (sim_fop c fuel s T op).
Proof.
  intros H. unfold sim_fop. pose proof (fire_passes_ok c fuel T s H) as H'.
  set (s1 := fire_passes c fuel s T) in *. destruct H' as [H1 H2].
  destruct op as [peer ids atime | ids | id b | b | ].
  - destruct (step true c (fs_st s1) T (ENotify peer ids atime (interesting s1 ids) (fs_susp s1) [])) as [st1 rq] eqn:E.
    split; cbn [fs_st fs_tr].
    + cbn [rev]. rewrite run_snoc, <- H1, E. reflexivity.
    + intros now p i a int su sc [E'|Hin]; [|eapply H2; eauto]. inversion E'; subst.
      intros x Hx. unfold interesting in Hx. eapply filter_sub; eauto.
  - destruct (step true c (fs_st s1) T (EReceived ids)) as [st1 rq] eqn:E. split; cbn [fs_st fs_tr].
    + cbn [rev]. rewrite run_snoc, <- H1, E. reflexivity.
    + intros now p i a int su sc [E'|Hin]; [discriminate | eapply H2; eauto].
  - destruct b; split; assumption.
  - split; assumption.
  - split; assumption.
Qed.

(* the state the C16 replay scheduler ends in is the state [run] reaches on the event trace it chose,
   and on that trace OnlyInterested always answers with ids of the batch: C16_safety applies to it *)
Lemma fsim_ok_init c : fsim_ok c (mkFS (init 0%Z) [] false [] []).
Proof. split; [reflexivity | intros now p i a int su sc0 []]. Qed.

Lemma sim_fold_ok c fuel sc : forall s, fsim_ok c s ->
  fsim_ok c (fold_left (fun s x => sim_fop c fuel s (fst x) (snd x)) sc s).
Proof. induction sc as [|[T op] sc IH]; intros s Hs; cbn [fold_left]; [exact Hs | apply IH, sim_fop_ok, Hs]. Qed.

Theorem sim_fetcher_is_run c fuel sc :
  let s := sim_fetcher c fuel sc in
  fs_st s = fst (run true c (init 0%Z) (rev (fs_tr s))) /\ answers_sublist (rev (fs_tr s)).
Proof.
  destruct (sim_fold_ok c fuel sc _ (fsim_ok_init c)) as [H1 H2]. split; [exact H1|].
  intros now p i a int su sc0 Hin. apply in_rev in Hin. eapply H2; eauto.
Qed.

(* the state hypothesis of fetcher_liveness holds trivially when the item is not in the table (never
   announced, or received / forgotten since) *)
Lemma young_inv_absent c id Tend st : ~ In id (map e_key (ann st)) -> young_inv c id Tend st.
Proof. intros H e a He Hk _. exfalso. apply H. rewrite <- Hk. now apply in_map. Qed.
