(* L1 over one epoch with a sealing policy (canonical validator list): the model processes the
   events of the epoch up to and including the event whose Process emits the sealing block; the
   remaining events of the epoch are skipped by the application's epoch guard.  epoch_sim describes
   the rendered observations and the instance after the epoch's operations in terms of the
   reference's tables of the prefixes. *)
From Coq Require Import NArith ZArith List Lia Bool ZifyBool ZifyN ZifyNat.
From LV Require Import lib.Bytes lib.VecListFacts model.Codec model.VecIndex model.Abft model.AbftRun spec.ElectionSpec
  proofs.VecInv proofs.VecMain proofs.AbftFrame proofs.AbftBuild
  proofs.BftCore proofs.BftElection proofs.BftMono proofs.BftGraph proofs.BftMain proofs.BftRun proofs.BftAccept proofs.BftProps
  proofs.LinkVals proofs.LinkDefs proofs.LinkSim proofs.LinkVote proofs.LinkElect proofs.LinkStep proofs.LinkBuild
  proofs.LinkRun proofs.LinkNoise.
Import ListNotations.
Local Open Scope N_scope.

(* rendering of a multi-epoch run: an event that the application did not feed because its epoch is
   closed (guard code 2) is reported with the reference's code 7 *)
Fixpoint render_ep (os : list AbftRun.obs) : obs_t :=
  match os with
  | ObsB b :: ObsP r bl _ _ :: rest =>
    let '(cs, bs) := render_ep rest in
    ((code_of r, match b with Ok f => f | Err _ => 0 end) :: cs, map blk_obs bl ++ bs)
  | ObsSkip w :: ObsSkip _ :: rest =>
    let '(cs, bs) := render_ep rest in ((if w =? 2 then 7 else 2, 0) :: cs, bs)
  | ObsB _ :: ObsSkip _ :: rest =>
    let '(cs, bs) := render_ep rest in ((2, 0) :: cs, bs)
  | _ => ([], [])
  end.

Lemma run_inst_cons cap pol smp i o t : run_inst cap pol smp i (o :: t) =
  (let '(_, i', dead) := step cap pol smp i o in if dead then i' else run_inst cap pol smp i' t).
Proof. reflexivity. Qed.

Lemma add_events_firstn_cons vals T e D j T1 r : add_event vals T e = (T1, r) ->
  fst (add_events vals T (firstn (S j) (e :: D))) = fst (add_events vals T1 (firstn j D)).
Proof. intros E. cbn [firstn add_events]. rewrite E. destruct (add_events vals T1 (firstn j D)). reflexivity. Qed.

Section Epoch.
Variable cap : nat.
Variable ep : N.
Variable lam : fev -> N.
Variable vals : list (N * N).
Hypothesis Hvals : vals_ok vals.
Variable J : N -> Prop.
Variable K : N.
Hypothesis HJ : forall a, J a -> id_fresh K a.
Variable pol : policy.
Notation sf := (fun f => policy_fn pol ep f 0 [] []).
Notation nv := (length vals).
Notation Sim := (Sim ep lam vals J K).
Notation ae := (to_aevent ep lam vals).

Lemma Hsf : forall f a ch dl, policy_fn pol ep f a ch dl = sf f.
Proof. reflexivity. Qed.

(* a freshly reset instance (genesis, Reset, or the state after a sealing block) *)
Lemma Sim_fresh conf c es : c <= K -> (0 < nv)%nat ->
  Sim {| i_st := {| l_epoch := ep; l_vals := vals; l_ldf := 0; l_roots := []; l_conf := conf; l_idx := init nv;
                    l_fcc := []; l_el := el_reset vals 1; l_ctr := c |}; i_es := es; i_proc := [] |} [] [] [].
Proof.
  intros Hc Hnv. constructor; cbn [i_st i_es i_proc l_ctr l_ldf].
  - constructor.
  - exists (fun _ => False). split.
    + constructor; cbn [l_ldf l_el l_fcc].
      * constructor; cbn [l_vals l_epoch l_idx l_roots]; try reflexivity.
        -- constructor.
        -- apply vinv_init.
        -- intros e [].
        -- intros x [].
        -- constructor.
        -- intros r. split; [intros [] | intros [n [f [[] _]]]].
      * intros a b r H. discriminate.
      * apply EI_reset.
      * unfold choose_atropos, el_reset. cbn [el_vals el_decided el_frame]. destruct vals as [|[x w] t]; [cbn in Hnv; lia | reflexivity].
    + intros m g _ Hm. destruct Hm.
  - intros e [].
  - exact Hc.
  - intros id. reflexivity.
  - constructor.
  - intros b [].
Qed.

(* the blocks of a table contain no sealing frame *)
Definition unsealed (T : list node) : Prop := forall b, In b (r_blocks vals T) -> sf (fst b) = None.

Lemma Sim_unsealed i T Dr B : Sim i T Dr B -> few_forkers vals T -> NoSeal sf 0 (l_ldf (i_st i)) -> unsealed T.
Proof.
  intros HS Hff NS b Hb.
  pose proof (final_blocks cap ep lam vals J K Hvals i T Dr B HS Hff) as EB.
  destruct HS as [W Dn _ _ _ SG CH].
  assert (Hin : In b (map fst B)).
  { rewrite EB, map_map. cbn [fst]. rewrite <- (map_id (r_blocks vals T)) in Hb.
    apply in_map_iff in Hb as [b0 [E0 H0]]. apply in_map_iff. exists b0. split; [rewrite <- E0; destruct b0; reflexivity | exact H0]. }
  destruct b as [f a]. apply NS. apply (Seg_frames vals T _ _ _ f a SG Hin).
Qed.

(* events of a closed epoch are not fed *)
Lemma skip_run i : l_epoch (i_st i) <> ep -> i_proc i = [] -> forall D,
  run cap pol sample i (abft_ops ep lam vals D) = flat_map (fun _ => [ObsSkip 2; ObsSkip 2]) D /\
  run_inst cap pol sample i (abft_ops ep lam vals D) = i.
Proof.
  intros He Hp. induction D as [|e D [IH1 IH2]]; [split; reflexivity|].
  assert (G : forall b, guard i (ae e) b = Some 2).
  { intros b. unfold guard. rewrite Hp. cbn [AbftRun.mem existsb andb]. rewrite andb_false_r.
    cbn [to_aevent a_epoch]. replace (ep =? l_epoch (i_st i)) with false by (symmetry; apply N.eqb_neq; congruence). reflexivity. }
  change (abft_ops ep lam vals (e :: D)) with (OpB (ae e) :: OpP (ae e) :: abft_ops ep lam vals D).
  assert (SB : step cap pol sample i (OpB (ae e)) = (ObsSkip 2, i, false)) by (cbn [step]; rewrite (G false); reflexivity).
  assert (SP : step cap pol sample i (OpP (ae e)) = (ObsSkip 2, i, false)) by (cbn [step]; rewrite (G true); reflexivity).
  split.
  - cbn [run]. rewrite SB. cbn [run]. rewrite SP. rewrite IH1. reflexivity.
  - rewrite run_inst_cons, SB, run_inst_cons, SP. exact IH2.
Qed.
Lemma render_skips (D : list fev) : render_ep (flat_map (fun _ => [ObsSkip 2; ObsSkip 2]) D) = (repeat (7, 0) (length D), []).
Proof. induction D as [|e D IH]; [reflexivity|]. cbn [flat_map app length repeat render_ep]. rewrite IH. reflexivity. Qed.

Lemma step_build_pol i x : step cap pol sample i (OpB x) = step cap [] sample i (OpB x).
Proof. reflexivity. Qed.

(* ---------- one epoch ---------- *)
Lemma epoch_sim : forall D i T Dr B, Sim i T Dr B -> codes_ok (snd (add_events vals T D)) ->
  (forall e, In e D -> id_fresh K (eid (fe e)) /\ ~ J (eid (fe e))) -> few_forkers vals (fst (add_events vals T D)) ->
  l_ctr (i_st i) + N.of_nat (length D) < 2 ^ 192 -> l_ctr (i_st i) + N.of_nat (length D) <= K ->
  NoSeal sf 0 (l_ldf (i_st i)) ->
  let ops := abft_ops ep lam vals D in let rs := snd (add_events vals T D) in
  (exists i' B', render_ep (run cap pol sample i ops) = (rs, B') /\ run_inst cap pol sample i ops = i' /\
     Sim i' (fst (add_events vals T D)) (rev D ++ Dr) (B ++ B') /\ NoSeal sf 0 (l_ldf (i_st i')) /\
     l_ctr (i_st i') <= l_ctr (i_st i) + N.of_nat (length D) /\
     (forall j, (j <= length D)%nat -> unsealed (fst (add_events vals T (firstn j D))))) \/
  (exists m B' L nv' es' c', (1 <= m <= length D)%nat /\
     render_ep (run cap pol sample i ops) = (firstn m rs ++ repeat (7, 0) (length D - m), B') /\
     run_inst cap pol sample i ops = {| i_st := sealed_state ep nv' c'; i_es := es'; i_proc := [] |} /\
     c' <= l_ctr (i_st i) + N.of_nat (length D) /\
     Seg vals (fst (add_events vals T (firstn m D))) 0 (map fst (B ++ B')) L /\
     (forall b, In b (B ++ B') -> snd b = ElectionSpec.cheaters_of vals (fst (add_events vals T (firstn m D))) (snd (fst b))) /\
     sf L = Some nv' /\ NoSeal sf 0 (L - 1) /\ 0 < L /\
     (forall j, (j < m)%nat -> unsealed (fst (add_events vals T (firstn j D))))).
Proof.
  induction D as [|e D IH]; intros i T Dr B HS Hc Hf Hff Hctr HK NS; cbn zeta.
  - left. exists i, []. cbn [abft_ops flat_map run run_inst render_ep add_events fst snd rev app length] in *. rewrite app_nil_r.
    split; [reflexivity|]. split; [reflexivity|]. split; [exact HS|]. split; [exact NS|]. split; [lia|].
    intros j Hj. assert (j = 0%nat) by lia. subst j. cbn [firstn add_events fst].
    apply (Sim_unsealed i T Dr B HS Hff NS).
  - pose proof (Sim_unsealed i T Dr B HS) as U0.
    cbn [add_events] in *. destruct (add_event vals T e) as [T1 r] eqn:AE.
    pose proof (add_events_incl vals D T1) as Inc.
    destruct (add_events vals T1 D) as [T2 rs] eqn:AEs. cbn [fst snd] in *.
    assert (Hr : fst r = 0) by (apply Hc; left; reflexivity).
    destruct r as [c h]. cbn [fst] in Hr. subst c.
    pose proof (add_event_high vals T e T1 h AE) as Hh.
    pose proof AE as AE'.
    destruct (add_event_accept vals T e T1 h AE) as (-> & PK & NL & CR & EW & FO).
    assert (HffT : few_forkers vals T).
    { eapply few_forkers_sub; [|exact Hff]. intros x Hx. apply Inc. right. exact Hx. }
    specialize (U0 HffT NS).
    assert (Hff1 : few_forkers vals (mk_node nv T e :: T)) by (eapply few_forkers_sub; [exact Inc | exact Hff]).
    change (abft_ops ep lam vals (e :: D)) with (OpB (ae e) :: OpP (ae e) :: abft_ops ep lam vals D).
    (* Build *)
    destruct (build_step cap ep lam vals Hvals J K HJ i T Dr B e HS PK CR EW NL FO ltac:(cbn [length] in Hctr; lia) ltac:(cbn [length] in HK; lia))
      as [i1 [EB [HS1 Ct1]]].
    rewrite <- (step_build_pol i (ae e)) in EB.
    assert (L1 : l_ldf (i_st i1) = l_ldf (i_st i)).
    { destruct HS as [_ _ _ _ _ SG0 _]. destruct HS1 as [_ _ _ _ _ SG1 _].
      pose proof (seg_bound vals T 0 _ _ SG0) as [A _]. pose proof (seg_bound vals T 0 _ _ SG1) as [A1 _]. lia. }
    (* Process *)
    destruct (process_step_gen cap ep lam vals Hvals J K pol sf Hsf i1 T Dr B e HS1 (proj1 (Hf e (or_introl eq_refl))) (proj2 (Hf e (or_introl eq_refl))) PK NL CR EW FO Hff1)
      as [bl [i2 [L [EP [SGall [CHall [_ [(HS2 & Ct2 & Ep2 & EL & NS2)|(nv' & Lt & NS2 & Sf & Ei2)]]]]]]]].
    + (* the epoch goes on *)
      assert (NS2' : NoSeal sf 0 (l_ldf (i_st i2))).
      { rewrite <- EL. intros f Hfr. destruct (N.le_gt_cases f (l_ldf (i_st i))) as [Le|Gt]; [apply NS; lia | apply NS2; lia]. }
      specialize (IH i2 (mk_node nv T e :: T) (e :: Dr) (B ++ map blk_obs bl) HS2).
      rewrite AEs in IH. cbn [fst snd] in IH.
      destruct IH as [(i' & B' & ER & ERI & HS' & NS' & Ct' & Un)|(m & B' & L' & nv' & es' & c' & Hm & ER & ERI & Hc' & SG' & CH' & Sf' & NS' & Lp & Un)].
      { intros r0 Hr0. apply Hc. right. exact Hr0. }
      { intros e0 He0. apply Hf. right. exact He0. }
      { exact Hff. }
      { cbn [length] in Hctr. lia. }
      { cbn [length] in HK. lia. }
      { exact NS2'. }
      * left. exists i', (map blk_obs bl ++ B'). split.
        { cbn [run]. rewrite EB. cbn [run]. rewrite EP. cbn [render_ep]. rewrite ER, Hh. reflexivity. }
        split; [rewrite !run_inst_cons, EB, run_inst_cons, EP; exact ERI|].
        split; [cbn [rev]; rewrite <- !app_assoc; cbn [app]; rewrite <- app_assoc in HS'; exact HS'|].
        split; [exact NS'|]. split; [cbn [length]; lia|].
        intros [|j] Hj; [cbn [firstn add_events fst]; exact U0|].
        rewrite (add_events_firstn_cons vals T e D j _ _ AE'). apply Un. cbn [length] in Hj. lia.
      * right. exists (S m), (map blk_obs bl ++ B'), L', nv', es', c'. split; [cbn [length]; lia|].
        split.
        { cbn [run]. rewrite EB. cbn [run]. rewrite EP. cbn [render_ep]. rewrite ER, Hh. cbn [firstn app length]. reflexivity. }
        split; [rewrite !run_inst_cons, EB, run_inst_cons, EP; exact ERI|].
        split; [cbn [length]; lia|].
        rewrite (add_events_firstn_cons vals T e D m _ _ AE'). rewrite <- app_assoc in SG', CH'.
        split; [exact SG'|]. split; [exact CH'|]. split; [exact Sf'|]. split; [exact NS'|]. split; [exact Lp|].
        intros [|j] Hj; [cbn [firstn add_events fst]; exact U0|].
        rewrite (add_events_firstn_cons vals T e D j _ _ AE'). apply Un. lia.
    + (* this event seals the epoch: the rest is not fed *)
      right. subst i2.
      destruct (skip_run {| i_st := sealed_state ep nv' (l_ctr (i_st i1)); i_es := aput (eid (fe e)) (ae e) (i_es i1); i_proc := [] |}) with (D := D) as [SR SRI].
      { cbn [i_st sealed_state l_epoch]. lia. }
      { reflexivity. }
      exists 1%nat, (map blk_obs bl), L, nv', (aput (eid (fe e)) (ae e) (i_es i1)), (l_ctr (i_st i1)).
      split; [cbn [length]; lia|]. split.
      { cbn [run]. rewrite EB. cbn [run]. rewrite EP. cbn [render_ep]. rewrite SR, render_skips, Hh.
        cbn [firstn app length Nat.sub]. rewrite Nat.sub_0_r, app_nil_r. reflexivity. }
      split; [rewrite !run_inst_cons, EB, run_inst_cons, EP; exact SRI|].
      split; [cbn [length]; lia|].
      assert (E1 : fst (add_events vals T (firstn 1 (e :: D))) = mk_node nv T e :: T).
      { cbn [firstn add_events]. rewrite AE'. reflexivity. }
      rewrite E1. split; [exact SGall|]. split; [exact CHall|]. split; [exact Sf|].
      split; [intros f Hfr; destruct (N.le_gt_cases f (l_ldf (i_st i))) as [Le|Gt]; [apply NS; lia | apply NS2; rewrite L1; lia]|].
      split; [lia|].
      intros j Hj. assert (j = 0%nat) by lia. subst j. cbn [firstn add_events fst]. exact U0.
Qed.
End Epoch.
