(* C03: the cheater list of a block = the validators, in canonical order, whose entry of the merged
   highest-before clock of the Atropos is the fork marker; with the index theorem C06 (merged clock
   = graph specification) these are exactly the validators having two different events with equal
   seq among the ancestors-or-self of the Atropos. *)
From Coq Require Import NArith ZArith List Lia Bool ZifyBool ZifyN ZifyNat.
From LV Require Import model.VecIndex spec.FcSpec model.Abft.
Import ListNotations.
Local Open Scope N_scope.

Lemma apply_atropos_cheaters eb es st f atr blk st1 :
  apply_atropos eb es st f atr = (Ok blk, st1) -> b_cheaters blk = cheaters_of st atr.
Proof.
  unfold apply_atropos. destruct (dfs_confirm _ _ _ _ _ _) as [[dl conf']|x]; [|discriminate].
  intros E; inversion E; subst. reflexivity.
Qed.

Lemma filter_ext_in' {A} (f g : A -> bool) l : (forall x, In x l -> f x = g x) -> filter f l = filter g l.
Proof.
  induction l as [|x t IH]; intros H; cbn; auto.
  rewrite (H x (or_introl eq_refl)), IH; auto. intros y Hy. apply H. right. exact Hy.
Qed.

Lemma in_combine_seq {A} (l : list A) n p : In p (combine l (seq 0 n)) -> (snd p < n)%nat.
Proof.
  destruct p as [a i]. intros H. apply in_combine_r in H. apply in_seq in H. cbn. lia.
Qed.

(* the list is determined by the fork flags of the merged clock; F = any description of those flags *)
Theorem cheaters_by_flags st atr (F : nat -> bool) :
  (forall i, (i < length (l_vals st))%nat -> is_fork (hb_get (merged (l_idx st) atr) i) = F i) ->
  cheaters_of st atr =
  map fst (filter (fun p => F (snd p)) (combine (v_ids (l_vals st)) (seq 0 (length (l_vals st))))).
Proof.
  intros H. unfold cheaters_of. f_equal. apply filter_ext_in'. intros p Hp. apply H.
  eapply in_combine_seq. exact Hp.
Qed.

(* from the conclusion of C06 to the flags *)
Lemma flags_of_merged_spec n E s a :
  map (fun x => (is_fork x, fst x)) (merged s a) = merged_spec n E a ->
  forall i, (i < n)%nat -> is_fork (hb_get (merged s a) i) = sees_fork E (anc E a) i.
Proof.
  intros H i Hi. unfold hb_get.
  assert (E1 : nth i (map (fun x => (is_fork x, fst x)) (merged s a)) (false, 0) =
               (is_fork (nth i (merged s a) (0, 0)), fst (nth i (merged s a) (0, 0)))).
  { change (false, 0) with ((fun x : hbs => (is_fork x, fst x)) (0, 0)). apply map_nth. }
  rewrite H in E1. unfold merged_spec in E1.
  set (g := fun v : nat => if sees_fork E (anc E a) v then (true, 0)
                           else (false, fold_left (fun m x => match alookup x E with
                                   | Some ex => if Nat.eqb (ecr ex) v then N.max m (eseq ex) else m
                                   | None => m end) (anc E a) 0)) in *.
  assert (E2 : nth i (map g (seq 0 n)) (false, 0) = g i).
  { rewrite (nth_indep _ (false, 0) (g 0%nat)) by (rewrite map_length, seq_length; exact Hi).
    rewrite map_nth, seq_nth by exact Hi. reflexivity. }
  rewrite E2 in E1. unfold g in E1. destruct (sees_fork E (anc E a) i); inversion E1; auto.
Qed.

(* C03 given C06 *)
Theorem cheaters_are_visible_forkers st atr E :
  map (fun x => (is_fork x, fst x)) (merged (l_idx st) atr) = merged_spec (length (l_vals st)) E atr ->
  cheaters_of st atr =
  map fst (filter (fun p => sees_fork E (anc E atr) (snd p))
                  (combine (v_ids (l_vals st)) (seq 0 (length (l_vals st))))).
Proof.
  intros H. apply cheaters_by_flags. intros i Hi. eapply flags_of_merged_spec; eauto.
Qed.

(* listed => visible forker at its canonical position; visible forker => listed; an honest validator
   (no fork visible) with a unique id is never listed *)
Lemma in_filter_combine {A} (l : list A) (F : nat -> bool) x :
  In x (map fst (filter (fun p => F (snd p)) (combine l (seq 0 (length l))))) <->
  exists i, nth_error l i = Some x /\ F i = true.
Proof.
  assert (G : forall k, In x (map fst (filter (fun p => F (snd p)) (combine l (seq k (length l))))) <->
                        exists i, nth_error l i = Some x /\ F (k + i)%nat = true).
  { induction l as [|y t IH]; intros k; cbn [length seq combine filter map].
    - split; [intros [] | intros [i [H _]]; destruct i; discriminate].
    - cbn [snd]. destruct (F k) eqn:Fk; cbn [map In fst].
      + rewrite IH. split.
        * intros [->|[i [H1 H2]]]; [exists 0%nat; split; auto; rewrite Nat.add_0_r; auto|].
          exists (S i). split; auto. rewrite <- Nat.add_succ_comm. exact H2.
        * intros [[|i] [H1 H2]]; [left; inversion H1; auto|]. right. exists i. split; auto.
          rewrite Nat.add_succ_comm. exact H2.
      + rewrite IH. split.
        * intros [i [H1 H2]]. exists (S i). split; auto. rewrite <- Nat.add_succ_comm. exact H2.
        * intros [[|i] [H1 H2]]; [rewrite Nat.add_0_r in H2; congruence|]. exists i. split; auto.
          rewrite Nat.add_succ_comm. exact H2. }
  apply (G 0%nat).
Qed.

Theorem cheater_iff_visible_forker st atr E id :
  map (fun x => (is_fork x, fst x)) (merged (l_idx st) atr) = merged_spec (length (l_vals st)) E atr ->
  (In id (cheaters_of st atr) <->
   exists i, nth_error (v_ids (l_vals st)) i = Some id /\ sees_fork E (anc E atr) i = true).
Proof.
  intros H. rewrite (cheaters_are_visible_forkers _ _ _ H).
  replace (length (l_vals st)) with (length (v_ids (l_vals st))) by (unfold v_ids; apply map_length).
  apply in_filter_combine.
Qed.
