(* C14: invariants of the (repaired) ordering-buffer model, part 1: log predicates, the state
   invariant and its preservation by the primitive actions. *)
From Coq Require Import NArith List Bool Lia Arith.
From LV Require Import model.Buffer spec.BufferSpec.
Import ListNotations.
Local Open Scope N_scope.

(* ---------- small list facts *)
Lemma memN_In : forall x l, memN x l = true <-> In x l.
Proof.
  intros x l; unfold memN; rewrite existsb_exists; split.
  - intros [y [Hy He]]. apply N.eqb_eq in He. subst; exact Hy.
  - intros H; exists x; split; [exact H | apply N.eqb_refl].
Qed.
Lemma memN_false : forall x l, memN x l = false <-> ~ In x l.
Proof.
  intros x l. rewrite <- memN_In. destruct (memN x l); split; intros H; try discriminate; auto.
  exfalso; apply H; reflexivity.
Qed.

Lemma NoDup_map_filter : forall {A B} (f : A -> B) (p : A -> bool) l,
  NoDup (map f l) -> NoDup (map f (filter p l)).
Proof.
  intros A B f p l; induction l as [|a l IH]; simpl; intros H; [constructor|].
  inversion H as [|? ? Hn Hd]; subst.
  destruct (p a); simpl; [constructor|]; auto.
  intros Hi; apply Hn. apply in_map_iff in Hi. destruct Hi as [y [Hy Hi]].
  apply filter_In in Hi. apply in_map_iff. exists y; tauto.
Qed.

(* ---------- what a log says *)
Definition rel_cids (l : list out) : list N :=
  flat_map (fun o => match o with OReleased c _ _ => [c] | _ => [] end) l.
Definition proc_cids (l : list out) : list N :=
  flat_map (fun o => match o with OProcess c _ _ => [c] | _ => [] end) l.
(* events connected according to the log: successful Process, or connected from outside *)
Definition conn_of (l : list out) : list N :=
  flat_map (fun o => match o with OProcess _ e true => [e] | OConnect e => [e] | _ => [] end) l.

(* [step_ok cs r o]: callback o is legitimate after the (newest-first) log r.
   This is T1 + T2 + the "at most once / only pushed copies" half of T3, per callback. *)
Definition step_ok (cs : list entry) (r : list out) (o : out) : Prop :=
  match o with
  | OProcess c e _ =>
    (exists x, lookup cs c = Some x /\ eid x = e /\ forall p, In p (pars x) -> In p (conn_of r))
    /\ ~ In c (rel_cids r) /\ ~ In c (proc_cids r)
  | OReleased c e _ =>
    ~ In c (rel_cids r) /\ exists x, lookup cs c = Some x /\ eid x = e
  | _ => True
  end.
Fixpoint log_wf (cs : list entry) (l : list out) : Prop :=
  match l with
  | [] => True
  | o :: r => step_ok cs r o /\ log_wf cs r
  end.

(* ---------- the copies table *)
Definition wf_cs (cs : list entry) : Prop :=
  forall i x, nth_error cs i = Some x -> cid x = N.of_nat i.

Lemma wf_cs_bound : forall cs x, wf_cs cs -> In x cs -> cid x < N.of_nat (length cs).
Proof.
  intros cs x W H. apply In_nth_error in H. destruct H as [i Hi].
  rewrite (W _ _ Hi). assert (i < length cs)%nat by (apply nth_error_Some; congruence). lia.
Qed.
Lemma wf_cs_inj : forall cs x y, wf_cs cs -> In x cs -> In y cs -> cid x = cid y -> x = y.
Proof.
  intros cs x y W Hx Hy E. apply In_nth_error in Hx, Hy. destruct Hx as [i Hi], Hy as [j Hj].
  rewrite (W _ _ Hi), (W _ _ Hj) in E. apply Nat2N.inj in E. subst. congruence.
Qed.
Lemma lookup_in : forall cs x, wf_cs cs -> In x cs -> lookup cs (cid x) = Some x.
Proof.
  intros cs x W H. unfold lookup.
  destruct (find (fun x0 => cid x0 =? cid x) cs) eqn:F.
  - apply find_some in F. destruct F as [Hi He]. apply N.eqb_eq in He.
    f_equal. apply (wf_cs_inj cs); auto.
  - exfalso. apply (find_none _ _ F) in H. rewrite N.eqb_refl in H. discriminate.
Qed.
Lemma lookup_some_in : forall cs c x, lookup cs c = Some x -> In x cs /\ cid x = c.
Proof.
  intros cs c x H. unfold lookup in H. apply find_some in H. destruct H as [H1 H2].
  apply N.eqb_eq in H2. auto.
Qed.
Lemma wf_cs_snoc : forall cs x, wf_cs cs -> cid x = N.of_nat (length cs) -> wf_cs (cs ++ [x]).
Proof.
  intros cs x W E i y H. destruct (Nat.lt_ge_cases i (length cs)) as [L|L].
  - rewrite nth_error_app1 in H by exact L. apply W; exact H.
  - rewrite nth_error_app2 in H by exact L.
    destruct (i - length cs)%nat eqn:D; simpl in H.
    + inversion H; subst. rewrite E. f_equal. lia.
    + destruct n; discriminate.
Qed.
Lemma lookup_snoc : forall cs x0 c x, lookup cs c = Some x -> lookup (cs ++ [x0]) c = Some x.
Proof.
  intros cs x0 c x H. unfold lookup in *. induction cs as [|a cs IH]; simpl in *; [discriminate|].
  destruct (cid a =? c); auto.
Qed.
Lemma step_ok_snoc : forall cs x0 r o, step_ok cs r o -> step_ok (cs ++ [x0]) r o.
Proof.
  intros cs x0 r o H. destruct o; simpl in *; auto.
  - destruct H as [[x [L R]] H2]. split; auto. exists x; split; auto. apply lookup_snoc; auto.
  - destruct H as [H1 [x [L R]]]. split; auto. exists x; split; auto. apply lookup_snoc; auto.
Qed.
Lemma log_wf_snoc : forall cs x0 l, log_wf cs l -> log_wf (cs ++ [x0]) l.
Proof.
  intros cs x0 l; induction l as [|o r IH]; simpl; auto.
  intros [H1 H2]; split; auto using step_ok_snoc.
Qed.

(* ---------- the state invariant.  [pend]: entries that are released but still listed in
   incompletes because the pushEvent call that processed them has not reached its final
   Remove yet (the recursion stack). *)
Record Inv (cs pend : list entry) (s : st) : Prop := mkInv {
  inv_next : next s = N.of_nat (length cs);
  inv_inc_cs : forall y, In y (inc s) -> In y cs;
  inv_nodup : NoDup (map eid (inc s));
  inv_rel : released s = rel_cids (log s);
  inv_rel_nodup : NoDup (released s);
  inv_rel_cs : forall c, In c (released s) -> exists x, In x cs /\ cid x = c;
  inv_conn : connected s = conn_of (log s);
  inv_proc_rel : forall c, In c (proc_cids (log s)) -> In c (released s);
  inv_pend : forall y, In y (inc s) -> In (cid y) (released s) -> In y pend;
  inv_log : log_wf cs (log s)
}.

(* every copy of [cs] is either still buffered or released *)
Definition Cover (cs : list entry) (s : st) : Prop :=
  forall x, In x cs -> In x (inc s) \/ In (cid x) (released s).

(* how a state may evolve inside one pushEvent recursion: nothing is added to the buffer,
   nothing is un-released, whatever leaves the buffer is released *)
Definition evolves (s s' : st) : Prop :=
  incl (inc s') (inc s) /\ incl (released s) (released s')
  /\ (forall y, In y (inc s) -> In y (inc s') \/ In (cid y) (released s'))
  /\ next s' = next s.

Lemma evolves_refl : forall s, evolves s s.
Proof. intros s; repeat split; auto using incl_refl. Qed.
Lemma evolves_trans : forall a b c, evolves a b -> evolves b c -> evolves a c.
Proof.
  intros a b c [A1 [A2 [A3 A4]]] [B1 [B2 [B3 B4]]]. repeat split.
  - eapply incl_tran; eauto.
  - eapply incl_tran; eauto.
  - intros y Hy. destruct (A3 y Hy) as [H|H]; [apply B3; exact H | right; apply B2; exact H].
  - congruence.
Qed.
Lemma Cover_evolves : forall cs s s', Cover cs s -> evolves s s' -> Cover cs s'.
Proof.
  intros cs s s' C [E1 [E2 [E3 _]]] x Hx. destruct (C x Hx) as [H|H]; [apply E3; exact H | right; apply E2; exact H].
Qed.

Lemma Inv_weaken : forall cs p p' s, Inv cs p s -> incl p p' -> Inv cs p' s.
Proof. intros cs p p' s [] Hi. constructor; auto. Qed.

(* ---------- primitives *)
Lemma drop_core : forall s c e,
  inc (drop s c e) = inc s /\ connected (drop s c e) = connected s /\ released (drop s c e) = released s
  /\ log (drop s c e) = log s /\ next (drop s c e) = next s /\ oof (drop s c e) = oof s.
Proof. intros s c e. unfold drop. destruct (err_of s c =? 0); simpl; auto 10. Qed.

Definition same_core (s s' : st) : Prop :=
  inc s' = inc s /\ connected s' = connected s /\ released s' = released s
  /\ log s' = log s /\ next s' = next s /\ oof s' = oof s.
Lemma same_core_drop : forall s c e, same_core s (drop s c e).
Proof. intros; apply drop_core. Qed.
Lemma same_core_set_err : forall s c e, same_core s (set_err s c e).
Proof. intros; unfold same_core; simpl; auto 10. Qed.
Lemma Inv_same_core : forall cs p s s', same_core s s' -> Inv cs p s -> Inv cs p s'.
Proof.
  intros cs p s s' [E1 [E2 [E3 [E4 [E5 E6]]]]] []. constructor; rewrite ?E1, ?E2, ?E3, ?E4, ?E5; auto.
Qed.
Lemma evolves_same_core : forall s s', same_core s s' -> evolves s s'.
Proof.
  intros s s' [E1 [E2 [E3 [E4 [E5 E6]]]]]. unfold evolves. rewrite E1, E3, E5.
  repeat split; auto using incl_refl.
Qed.

(* emitting a callback that is neither Process nor Released *)
Definition quiet (o : out) : Prop :=
  match o with OProcess _ _ _ | OReleased _ _ _ | OConnect _ => False | _ => True end.
Lemma Inv_emit_quiet : forall cs p s o, quiet o -> Inv cs p s -> Inv cs p (emit s o).
Proof.
  intros cs p s o Q []. destruct o; simpl in Q; try contradiction; constructor; simpl; auto.
Qed.

Lemma release_released : forall s x, In (cid x) (released s) -> release s x = s.
Proof. intros s x H. unfold release. apply memN_In in H. rewrite H. reflexivity. Qed.

Lemma Inv_release : forall cs p p' s x,
  wf_cs cs -> Inv cs p s -> In x cs -> incl p p' -> (In x (inc s) -> In x p') ->
  Inv cs p' (release s x).
Proof.
  intros cs p p' s x W I Hx Hp Hxp. unfold release.
  destruct (memN (cid x) (released s)) eqn:M.
  - eapply Inv_weaken; eauto.
  - apply memN_false in M. destruct I. constructor; simpl; auto.
    + f_equal; auto.
    + constructor; auto.
    + intros c [Hc|Hc]; [exists x; auto | auto].
    + intros y Hy [Hc|Hc].
      * assert (y = x) by (apply (wf_cs_inj cs); auto). subst; auto.
      * apply Hp; auto.
    + split; auto. split; [rewrite <- inv_rel0; exact M|].
      exists x; split; auto. apply lookup_in; auto.
Qed.

Lemma evolves_release : forall s x, evolves s (release s x).
Proof.
  intros s x. unfold release. destruct (memN (cid x) (released s)); [apply evolves_refl|].
  unfold evolves; simpl. repeat split; auto using incl_refl, incl_tl.
Qed.

Lemma Inv_remove_inc : forall cs p s x,
  Inv cs (x :: p) s -> Inv cs p (remove_inc s (eid x)).
Proof.
  intros cs p s x []. constructor; simpl; auto.
  - intros y Hy. apply filter_In in Hy. apply inv_inc_cs0; tauto.
  - apply NoDup_map_filter; auto.
  - intros y Hy Hr. apply filter_In in Hy. destruct Hy as [Hy He].
    destruct (inv_pend0 y Hy Hr) as [E|E]; auto.
    subst. rewrite N.eqb_refl in He. discriminate.
Qed.
Lemma Inv_remove_inc' : forall cs p s e, Inv cs p s -> Inv cs p (remove_inc s e).
Proof.
  intros cs p s e []. constructor; simpl; auto.
  - intros y Hy. apply filter_In in Hy. apply inv_inc_cs0; tauto.
  - apply NoDup_map_filter; auto.
  - intros y Hy Hr. apply filter_In in Hy. apply inv_pend0; tauto.
Qed.
