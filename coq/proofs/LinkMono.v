(* L1, brick 6: growing the table.  When an event is appended to a well-formed table (T included in T'),
   the election invariant EI and the segment of decided frames carry over: rule-level votes and decisions
   of old roots depend only on their ancestry (BftMono.vote_mono / decides_mono; here also the converse
   for roots of the smaller table), decisions persist (BftMono.decide_mono). *)
From Coq Require Import NArith ZArith List Lia Bool ZifyBool ZifyN ZifyNat.
From LV Require Import model.VecIndex model.Abft spec.ElectionSpec lib.WSumBft
  proofs.BftCore proofs.BftElection proofs.BftMono proofs.BftGraph proofs.BftMain proofs.BftRun
  proofs.LinkVals proofs.LinkDefs proofs.LinkSim proofs.LinkVote proofs.LinkElect.
Import ListNotations.
Local Open Scope N_scope.

Section Mono.
Variable vals : list (N * N).
Variables T T' : list node.
Hypothesis HwfT : wfT vals T.
Hypothesis HwfT' : wfT vals T'.
Hypothesis Hff' : few_forkers vals T'.
Hypothesis Hsub : incl T T'.

Notation ws := (map snd vals).
Notation q := (ElectionSpec.quorum_of ws).
Notation fcn := (fc_n ws q).
Notation slot := (slot vals).

Lemma Hclosed a b : In a T -> In b T' -> fcn a b = true -> In b T.
Proof.
  intros Ha Hb Hfc.
  pose proof (fcn_anc vals T' HwfT' a b (Hsub a Ha) Hb Hfc) as Hin.
  destruct (wf_anc vals T HwfT) as [_ [Hk _]]. destruct (Hk a _ Ha Hin) as [m [Hm E]].
  assert (m = b) by (apply (wf_inj vals T' HwfT'); auto). subst m. exact Hm.
Qed.

Lemma roots_down f n : In n T -> In n (roots_at node nd_fr nd_spf T' f) -> In n (roots_at node nd_fr nd_spf T f).
Proof. intros Hn H. unfold roots_at in *. apply filter_In in H as [_ H]. apply filter_In. auto. Qed.
Lemma roots_up f n : In n (roots_at node nd_fr nd_spf T f) -> In n (roots_at node nd_fr nd_spf T' f).
Proof. apply (roots_sub node nd_fr nd_spf T T' Hsub). Qed.

Lemma vote_up f0 k r v : In r T ->
  vote node nd_cr nd_fr nd_spf fcn ws T f0 k r v = vote node nd_cr nd_fr nd_spf fcn ws T' f0 k r v.
Proof. apply (vote_mono node nd_cr nd_fr nd_spf fcn ws T T' Hsub Hclosed). Qed.

Lemma decides_up f0 k r v b : decides node nd_cr nd_fr nd_spf fcn ws q T f0 k r v b ->
  decides node nd_cr nd_fr nd_spf fcn ws q T' f0 k r v b.
Proof. apply (decides_mono node nd_cr nd_fr nd_spf fcn ws q T T' Hsub Hclosed). Qed.

Lemma decides_down f0 k r v b : In r T -> decides node nd_cr nd_fr nd_spf fcn ws q T' f0 k r v b ->
  decides node nd_cr nd_fr nd_spf fcn ws q T f0 k r v b.
Proof.
  intros Hr1 [Hk [Hr Hq]]. split; [exact Hk|]. split; [apply roots_down; assumption|].
  assert (E : forall neg : bool, wsP ws (ElectionSpec.by_cr node nd_cr (obs node nd_fr nd_spf fcn T r (f0 + N.of_nat k))
                 (fun r' => (if neg then negb else fun b0 : bool => b0) (vote node nd_cr nd_fr nd_spf fcn ws T f0 k r' v)))
              = wsP ws (ElectionSpec.by_cr node nd_cr (obs node nd_fr nd_spf fcn T' r (f0 + N.of_nat k))
                 (fun r' => (if neg then negb else fun b0 : bool => b0) (vote node nd_cr nd_fr nd_spf fcn ws T' f0 k r' v)))).
  { intros neg. apply wsP_ext; intros u _; apply by_cr_set_ext;
      [intros x; apply (obs_equiv node nd_fr nd_spf fcn T T' Hsub Hclosed); exact Hr1|].
    intros x Hx. rewrite (vote_up f0 k x v (obs_in1 node nd_fr nd_spf fcn T _ _ _ Hx)). reflexivity. }
  unfold yesV, noV in *. destruct b.
  - rewrite (E false). exact Hq.
  - rewrite (E true). exact Hq.
Qed.

Lemma names_up f0 u h : names_voted vals T f0 u h -> names_voted vals T' f0 u h.
Proof.
  intros (a & r1 & Ia & Ca & Eh & I1 & F1). exists a, r1. repeat split; auto using roots_up.
Qed.

(* the invariant of the running election, restricted to the slots of the old table *)
Lemma EI_mono f0 el (S : root -> Prop) : EI vals T f0 el S ->
  EI vals T' f0 el (fun r => S r /\ exists m g, In m T /\ r = slot m g).
Proof.
  intros [A B V DS DC].
  assert (Old : forall n1 f, In n1 (roots_at node nd_fr nd_spf T' f) -> (exists m g, In m T /\ slot n1 f = slot m g) -> In n1 T).
  { intros n1 f Hn1 (m & g & Hm & E).
    apply (slot_inj vals T' n1 m f g HwfT' (roots_in _ _ _ _ _ _ Hn1) (Hsub m Hm)) in E as [-> _]. exact Hm. }
  constructor; [exact A | exact B | | |].
  - intros n1 f u [HS HO] Hn1 Hf Hu Hun. pose proof (Old n1 f Hn1 HO) as Hn1T.
    destruct (V n1 f u HS (roots_down f n1 Hn1T Hn1) Hf Hu Hun) as [vt [G [Y Nm]]].
    exists vt. split; [exact G|]. split; [rewrite Y; apply vote_up; exact Hn1T | intros Yt; apply names_up, Nm, Yt].
  - intros u vt Hu Al. destruct (DS u vt Hu Al) as [[k [r D]] Nm]. split; [exists k, r; apply decides_up; exact D|].
    intros Yt. apply names_up, Nm, Yt.
  - intros n1 f u b [HS HO] Hn1 Hf Hu D. pose proof (Old n1 f Hn1 HO) as Hn1T.
    apply (DC n1 f u b HS (roots_down f n1 Hn1T Hn1) Hf Hu). apply decides_down; assumption.
Qed.

Lemma decide_up f a :
  decide node nd_id nd_cr nd_fr nd_spf fcn ws q (canon_order vals) T f (max_frame node nd_fr T) = Atropos a ->
  decide node nd_id nd_cr nd_fr nd_spf fcn ws q (canon_order vals) T' f (max_frame node nd_fr T') = Atropos a.
Proof.
  apply (decide_mono node nd_id nd_cr nd_fr nd_spf fcn ws q (canon_order vals) T T' Hsub Hclosed (wf_inj vals T' HwfT')).
  - intros u Hu. rewrite map_length. apply canon_order_lt. exact Hu.
  - apply (ref_decision_unique vals T' HwfT' Hff').
  - apply (ref_voted_root_unique vals T' HwfT' Hff').
  - intros e He. apply max_frame_ge. exact He.
Qed.

Lemma Seg_mono L B L1 : Seg vals T L B L1 -> Seg vals T' L B L1.
Proof. induction 1; constructor; auto. apply decide_up. assumption. Qed.
End Mono.
