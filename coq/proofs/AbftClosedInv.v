(* audit-F (C02): the confirmed marks stay ancestor-closed, and confined to the accepted events of the
   epoch, over whole runs (the application's event store grows and shrinks between the calls). *)
From Coq Require Import NArith ZArith List Lia Bool ZifyBool ZifyN ZifyNat.
From LV Require Import model.VecIndex spec.FcSpec model.Abft model.AbftRun
  proofs.VecInv proofs.VecStep proofs.VecMain
  proofs.AbftStruct proofs.AbftFrame proofs.AbftBuild proofs.AbftSeal proofs.AbftProcess proofs.AbftDfs proofs.AbftChain
  proofs.AbftRoots proofs.AbftRooted proofs.AbftRunInv proofs.AbftSealVals
  proofs.AbftInvLemmas proofs.AbftInv proofs.AbftInvStep proofs.AbftGraph.
Import ListNotations.
Local Open Scope N_scope.

Definition K (i : inst) : Prop :=
  closed (i_es i) (l_conf (i_st i)) /\ (forall x, marked (l_conf (i_st i)) x -> In x (i_proc i)).

Lemma closed_nil es : closed es [].
Proof. intros w ev p M. elim M. reflexivity. Qed.

(* ancestry of an accepted event stays among the accepted events *)
Lemma reach_in_proc es (P : list N) :
  (forall id, In id P -> exists e, get_event es id = Some e /\ forall p, In p (a_parents e) -> In p P) ->
  forall a x, In a P -> reach es a x -> In x P.
Proof.
  intros H a x Ha R. induction R as [|y ev p R IH Hg Hp]; auto.
  destruct (H y IH) as [e [G Hpar]]. rewrite Hg in G. inversion G; subst. apply Hpar. exact Hp.
Qed.

(* the marks only mention accepted ids, so replacing the store by one that agrees on accepted ids keeps them closed *)
Lemma closed_ext es es' conf (P : list N) : (forall x, In x P -> get_event es' x = get_event es x) ->
  (forall x, marked conf x -> In x P) -> closed es conf -> closed es' conf.
Proof.
  intros Hext Hm Hc w ev p M G Hp. rewrite Hext in G by (apply Hm; exact M). eapply Hc; eauto.
Qed.

Section ClosedInv.
Variable cap : nat.
Variable pol : policy.
Variable smp : N -> option (list N).

Theorem step_K i o : J i -> good (i_st i) -> K i -> op_wf i o ->
  snd (step cap pol smp i o) = false -> K (snd (fst (step cap pol smp i o))).
Proof.
  intros HJ [HI HV] [Kc Km] Hwf. destruct o as [e|e| |ep raw|id|f|a b|]; cbn [step op_wf] in *.
  - destruct (guard i e true) as [w|] eqn:G; cbn [fst snd]; [intros _; split; auto|].
    specialize (Hwf eq_refl). destruct (guard_none i e G) as (Gn & Gep & Gp & Gc).
    set (es1 := aput (a_id e) e (i_es i)) in *.
    assert (Hget_old : forall x, In x (i_proc i) -> get_event es1 x = get_event (i_es i) x).
    { intros x Hx. unfold es1, get_event, aput. cbn [alookup]. destruct (x =? a_id e) eqn:Q; auto.
      apply N.eqb_eq in Q. rewrite Q in Hx. elim (Gn Hx). }
    assert (Kc1 : closed es1 (l_conf (i_st i))) by (eapply closed_ext; eauto).
    destruct (process cap (policy_fn pol) es1 (i_st i) e) as [[r bl] st'] eqn:E.
    destruct r as [u|x]; cbn [fst snd].
    + intros _. change (sealed_in bl) with (sealed_last bl). destruct (sealed_last bl) eqn:SL.
      * destruct (process_seal_vals cap _ _ _ _ _ _ _ HI E SL) as (pre & b0 & nv & _ & _ & _ & _ & _ & _ & Hc & _).
        unfold K. cbn [i_st i_es i_proc]. rewrite Hc. split; [apply closed_nil | intros x M; elim M; reflexivity].
      * destruct (process_delivers cap (policy_fn pol) es1 _ _ _ _ _ HI Kc1 E) as [D P]. destruct (P SL) as [Kc' Km'].
        unfold K. cbn [i_st i_es i_proc]. split; [exact Kc'|].
        intros x M. apply Km' in M as [M|[b0 [Hb Hx]]]; [right; apply Km; exact M|].
        (* delivered by block b0: in the ancestry of its Atropos, which is an accepted event *)
        pose proof (accepted_blocks_graph cap (policy_fn pol) i e u bl st' HJ HI HV G Hwf E) as ABG. cbn zeta in ABG.
        destruct (ABG b0 Hb) as [[e0 [Hor [Hid _]]] _].
        assert (Hdel : forall M0 l, delivered_ok es1 M0 l -> forall b1, In b1 l -> forall y, In y (b_delivered b1) -> reach es1 (b_atropos b1) y).
        { clear. intros M0 l. revert M0. induction l as [|bb t IH]; intros M0 D b1 Hb1 y Hy; [destruct Hb1|]. destruct Hb1 as [<-|Hin].
          - destruct D as [_ [IN _]]. apply IN in Hy as [Hr _]. exact Hr.
          - destruct D as [_ [_ D]]. eapply IH; eauto. }
        pose proof (Hdel _ _ D b0 Hb x Hx) as Rx.
        assert (Hacc : forall id0, In id0 (a_id e :: i_proc i) ->
                 exists ev, get_event es1 id0 = Some ev /\ forall p, In p (a_parents ev) -> In p (a_id e :: i_proc i)).
        { intros id0 [<-|Hin].
          - exists e. split; [unfold es1, get_event, aput; cbn [alookup]; rewrite N.eqb_refl; reflexivity|].
            intros p Hp. right. apply Gp. exact Hp.
          - destruct (j_ev i HJ id0 Hin) as [ev (G0 & _ & _ & _ & G4)]. exists ev. rewrite Hget_old by exact Hin.
            split; auto. intros p Hp. right. apply G4. exact Hp. }
        apply (reach_in_proc es1 (a_id e :: i_proc i) Hacc (b_atropos b0)); [|exact Rx].
        rewrite <- Hid. destruct Hor as [->|Hin]; [left; reflexivity|].
        right. apply (acc_events_in i e0 HJ) in Hin as [Hin _]. exact Hin.
    + intros Hd. destruct x; cbn in Hd; try discriminate.
      destruct (process_early_exit cap _ _ _ _ _ _ _ E eq_refl) as [-> [c' ->]].
      unfold K. cbn [i_st i_es i_proc l_conf set_fcc]. split; auto.
      eapply closed_ext; [|exact Km|exact Kc]. intros x Hx. apply es_remove_other. intros ->. exact (Gn Hx).
  - destruct (guard i e false); cbn [fst snd]; [intros _; split; auto|].
    destruct (build_with_shape cap smp (i_es i) (i_st i) e) as [c' Hsh].
    destruct (build_with cap smp (i_es i) (i_st i) e) as [r st']. cbn [snd] in Hsh. subst st'. cbn [fst snd].
    intros _. unfold K. cbn [i_st i_es i_proc l_conf set_fcc set_ctr]. split; auto.
  - destruct (bootstrap cap (policy_fn pol) (i_es i) (persist (i_st i))) as [[r bl] st'] eqn:E.
    destruct r as [u|x]; cbn [fst snd]; [|discriminate]. intros _.
    unfold bootstrap in E.
    match type of E with bootstrap_election _ _ _ _ ?x0 _ = _ => set (st0 := x0) in * end.
    assert (I0 : elinv st0) by (unfold elinv, st0; cbn; reflexivity).
    assert (V0 : V st0) by (unfold V, st0; cbn; apply (V_reset (p_vals (persist (i_st i))) (p_ldf (persist (i_st i)) + 1))).
    pose proof (bootstrap_election_chain cap (policy_fn pol) (i_es i) _ _ _ _ _ I0 E) as CH.
    assert (Kc0 : closed (i_es i) (l_conf st0)) by (unfold st0; cbn; exact Kc).
    destruct (chain_delivers (policy_fn pol) (i_es i) _ _ _ CH Kc0) as [D P].
    change (sealed_in bl) with (sealed_last bl). destruct (sealed_last bl) eqn:SL.
    + destruct (chain_sealed_vals (policy_fn pol) (i_es i) _ _ _ CH SL) as (pre & b0 & nv & _ & _ & _ & _ & _ & Hc & _).
      unfold K. cbn [i_st i_es i_proc]. rewrite Hc. split; [apply closed_nil | intros x M; elim M; reflexivity].
    + destruct (P SL) as [Kc' Km']. unfold K. cbn [i_st i_es i_proc]. split; [exact Kc'|].
      intros x M. apply Km' in M as [M|[b0 [Hb Hx]]]; [apply Km; exact M|].
      destruct (bootstrap_election_rooted cap (policy_fn pol) (i_es i) _ _ _ _ _ V0 I0 E) as [AR _].
      destruct (AR b0 Hb) as [r0 [Hr [_ Hri]]]. cbn [l_roots st0 persist p_roots] in Hr.
      apply (j_roots i HJ) in Hr as [e0 [Hin [_ [_ [_ Hs]]]]].
      assert (Hdel : forall M0 l, delivered_ok (i_es i) M0 l -> forall b1, In b1 l -> forall y, In y (b_delivered b1) -> reach (i_es i) (b_atropos b1) y).
      { clear. intros M0 l. revert M0. induction l as [|bb t IH]; intros M0 D b1 Hb1 y Hy; [destruct Hb1|]. destruct Hb1 as [<-|Hin].
        - destruct D as [_ [IN _]]. apply IN in Hy as [Hr _]. exact Hr.
        - destruct D as [_ [_ D]]. eapply IH; eauto. }
      pose proof (Hdel _ _ D b0 Hb x Hx) as Rx.
      apply (reach_in_proc (i_es i) (i_proc i)) with (a := b_atropos b0); [|congruence|exact Rx].
      intros id0 Hid0. destruct (j_ev i HJ id0 Hid0) as [ev (G0 & _ & _ & _ & G4)]. exists ev. auto.
  - cbn [fst snd]. intros _. unfold K. cbn [i_st i_es i_proc reset l_conf]. split; [apply closed_nil | intros x M; elim M; reflexivity].
  - destruct (mem id (i_proc i)); cbn [fst snd]; intros _; split; auto.
  - cbn [fst snd]. intros _; split; auto.
  - destruct (mem a (i_proc i) && mem b (i_proc i)); cbn [fst snd]; [|intros _; split; auto].
    unfold fc_cached. destruct (cache_get (a, b) (l_fcc (i_st i))); cbn [fst snd]; intros _; unfold K; cbn; split; auto.
  - cbn [fst snd]. intros _; split; auto.
Qed.

Theorem run_K : forall ops i, J i -> good (i_st i) -> K i -> ops_wf cap pol smp i ops -> alive cap pol smp i ops ->
  K (run_inst cap pol smp i ops).
Proof.
  induction ops as [|o t IH]; intros i HJ HG HK W A; cbn [run_inst]; auto.
  destruct W as [W1 W2]. destruct A as [A1 A2].
  pose proof (step_J cap pol smp i o HJ (proj1 HG) W1 A1) as SJ.
  pose proof (step_good cap pol smp i o HG) as SG.
  pose proof (step_K i o HJ HG HK W1 A1) as SK.
  specialize (W2 A1).
  destruct (step cap pol smp i o) as [[ob i'] dead]. cbn [fst snd] in *. subst dead. apply IH; auto.
Qed.

Theorem start_K epoch raw : K (start epoch raw).
Proof. unfold K, start, genesis. cbn. split; [apply closed_nil | intros x M; elim M; reflexivity]. Qed.

End ClosedInv.
