(* C17: every request the reader has finished got as many responses as chunks it asked for,
   unless its session finished (repaired code). *)
From Coq Require Import NArith List Bool Lia Arith Sorted.
From Coq Require Import ZifyBool ZifyNat ZifyN.
From LV Require Import model.Seeder spec.SeederSpec proofs.SeederProofs proofs.SeederQueues proofs.SeederSessions.
Import ListNotations.
Local Open Scope N_scope.

Definition ser (r : resp) : N := r_serial (rs_req r).
Definition for_serial (t : N) (l : list resp) : list resp := filter (fun r => ser r =? t) l.
Definition count_serial (t : N) (l : list resp) : N := N.of_nat (length (for_serial t l)).

Lemma for_serial_app : forall t a b, for_serial t (a ++ b) = for_serial t a ++ for_serial t b.
Proof. intros. unfold for_serial. apply filter_app. Qed.

Lemma count_serial_snoc_same : forall t l r, ser r = t -> count_serial t (l ++ [r]) = count_serial t l + 1.
Proof.
  intros t l r H. unfold count_serial. rewrite for_serial_app. simpl. rewrite H, N.eqb_refl.
  rewrite app_length. simpl. lia.
Qed.
Lemma count_serial_snoc_other : forall t l r, ser r <> t -> count_serial t (l ++ [r]) = count_serial t l.
Proof.
  intros t l r H. unfold count_serial. rewrite for_serial_app. simpl.
  destruct (ser r =? t) eqn:E; [apply N.eqb_eq in E; congruence|]. rewrite app_nil_r. reflexivity.
Qed.

Lemma count_zero : forall t l, (forall r, In r l -> ser r <> t) -> count_serial t l = 0.
Proof.
  intros t l H. unfold count_serial, for_serial. rewrite filter_none; [reflexivity|].
  intros r Hr. specialize (H r Hr). destruct (ser r =? t) eqn:E; [apply N.eqb_eq in E; congruence|reflexivity].
Qed.

Lemma NoDup_app_insert : forall (a b : list N) x,
  NoDup (a ++ b) -> ~ In x (a ++ b) -> NoDup (a ++ x :: b).
Proof.
  intros a b x. induction a as [|y a IH]; intros Hn Hx; simpl in *.
  - constructor; assumption.
  - inversion Hn; subst. constructor.
    + rewrite in_app_iff in *. simpl. intros [H|[H|H]]; [apply H1; auto|subst; apply Hx; auto|apply H1; auto].
    + apply IH; [assumption|]. intros H. apply Hx. right. exact H.
Qed.

(* the request r serves is complete: all its chunks, or its session is finished *)
Definition complete (l : list resp) (r : resp) : Prop :=
  count_serial (ser r) l = r_chunks (rs_req r) \/
  exists r', In r' l /\ rs_inc r' = rs_inc r /\ rs_done r' = true.

Definition pc_serial (pc : rpc) : option N :=
  match pc with
  | RChunk rq _ _ | RSend rq _ _ _ | REnq rq _ _ _ => Some (r_serial rq)
  | _ => None
  end.

Definition pc_req (pc : rpc) : list request :=
  match pc with RIdle => [] | RTop rq | RChunk rq _ _ | RSend rq _ _ _ | REnq rq _ _ _ => [rq] end.

Definition pc_count (st : state) (tr : list event) : Prop :=
  match st_reader st with
  | RChunk rq i ss =>
      count_serial (r_serial rq) (produced st tr) = i /\ i <= r_chunks rq /\
      forall r, In r (produced st tr) -> ser r = r_serial rq -> rs_req r = rq /\ rs_inc r = s_inc ss
  | RSend rq i ss r0 | REnq rq i ss r0 =>
      count_serial (r_serial rq) (produced st tr) = i + 1 /\ i < r_chunks rq /\
      forall r, In r (produced st tr) -> ser r = r_serial rq -> rs_req r = rq /\ rs_inc r = s_inc ss
  | _ => True
  end.

Record cinv (st : state) (tr : list event) : Prop := mkCinv {
  ci_bound : forall rq, In rq (st_chreq st ++ pc_req (st_reader st)) -> r_serial rq < st_serial st;
  ci_bound_r : forall r, In r (produced st tr) -> ser r < st_serial st;
  ci_nodup : NoDup (map r_serial (st_chreq st ++ pc_req (st_reader st)));
  ci_fresh : forall r rq, In r (produced st tr) -> In rq (st_chreq st) -> ser r <> r_serial rq;
  ci_fresh_top : forall r rq, In r (produced st tr) -> st_reader st = RTop rq -> ser r <> r_serial rq;
  ci_pc : pc_count st tr;
  ci_done : forall r, In r (produced st tr) -> pc_serial (st_reader st) <> Some (ser r) ->
                      complete (produced st tr) r
}.

Lemma complete_mono : forall l r x, complete l r -> ser x <> ser r -> complete (l ++ [x]) r.
Proof.
  intros l r x [H|[r' [H1 [H2 H3]]]] Hx.
  - left. rewrite count_serial_snoc_other by exact Hx. exact H.
  - right. exists r'. split; [apply in_or_app; left; exact H1|auto].
Qed.

(* steps that leave the produced list, the request channel and the reader's request alone *)
Lemma cinv_frame : forall st tr st' tr',
  cinv st tr ->
  produced st' tr' = produced st tr -> st_chreq st' = st_chreq st -> st_reader st' = st_reader st ->
  st_serial st <= st_serial st' -> cinv st' tr'.
Proof.
  intros st tr st' tr' [H1 H2 H3 H4 H5 H6 H7] Hp Hc Hr Hs.
  constructor; rewrite ?Hp, ?Hc, ?Hr; auto.
  - intros rq Hin. specialize (H1 _ Hin). lia.
  - intros r Hin. specialize (H2 _ Hin). lia.
  - unfold pc_count in *. rewrite Hr, Hp. exact H6.
Qed.

Lemma step_cinv : forall cfg db st tr o st' evs,
  sinv db st tr -> cinv st tr -> step v_fixed cfg db st o = Some (st', evs) -> cinv st' (tr ++ evs).
Proof.
  intros cfg db st tr o st' evs HS HC H. pose proof HC as [B1 B2 ND F1 F2 PC DN].
  destruct o as [rq|p| | | |i]; simpl in H.
  - (* NotifyRequestReceived *)
    destruct (c_maxchunks cfg <? r_chunks rq).
    + inversion H; subst. apply (cinv_frame st tr); simpl; auto; [|lia].
      unfold produced. simpl. rewrite enqs_app. simpl. rewrite app_nil_r. reflexivity.
    + destruct (16 <=? N.of_nat (length (st_chreq st))); [discriminate|].
      inversion H; subst. rewrite app_nil_r.
      set (rq' := sanitize cfg (st_serial st) rq).
      assert (Hser : r_serial rq' = st_serial st) by reflexivity.
      constructor; simpl; unfold produced in *; simpl in *.
      * intros rq0 Hin. rewrite <- app_assoc in Hin. apply in_app_or in Hin.
        destruct Hin as [Hin|Hin].
        -- assert (Hin' : In rq0 (st_chreq st ++ pc_req (st_reader st))) by (apply in_or_app; left; exact Hin).
           specialize (B1 _ Hin'). lia.
        -- simpl in Hin. destruct Hin as [<-|Hin]; [unfold rq'; simpl; lia|].
           assert (Hin' : In rq0 (st_chreq st ++ pc_req (st_reader st))) by (apply in_or_app; right; exact Hin).
           specialize (B1 _ Hin'). lia.
      * intros r Hr. specialize (B2 _ Hr). lia.
      * rewrite <- app_assoc. rewrite map_app. simpl.
        rewrite map_app in ND. apply NoDup_app_insert; [exact ND|].
        rewrite <- map_app. intros Hin. apply in_map_iff in Hin. destruct Hin as [rq0 [E Hin]].
        specialize (B1 _ Hin). unfold rq' in E. simpl in E. lia.
      * intros r rq0 Hr Hin. apply in_app_or in Hin. destruct Hin as [Hin|[<-|[]]]; [apply F1; auto|].
        unfold rq'. simpl. specialize (B2 _ Hr). lia.
      * exact F2.
      * exact PC.
      * exact DN.
  - destruct (128 <=? N.of_nat (length (st_chunreg st))); [discriminate|].
    inversion H; subst. rewrite app_nil_r. apply (cinv_frame st tr); simpl; auto; lia.
  - (* reader receives a request *)
    destruct (st_reader st) eqn:Epc; try discriminate. destruct (st_chreq st) as [|rq0 rest0] eqn:Ech; [discriminate|].
    inversion H; subst. rewrite app_nil_r.
    assert (Hprod : forall tr0, produced (mkSt (st_sessions st) (st_peersess st) (st_counter st) rest0
                      (st_chunreg st) (RTop rq0) (st_senders st) (st_pending st) (st_serial st)) tr0 = produced st tr0).
    { intros tr0. unfold produced. simpl. rewrite Epc. reflexivity. }
    simpl in *. rewrite app_nil_r in *.
    constructor; simpl; rewrite ?Hprod.
    + intros rq Hin. apply B1. apply in_app_or in Hin. destruct Hin as [Hin|[<-|[]]]; [right; exact Hin|left; reflexivity].
    + exact B2.
    + rewrite map_app. simpl. inversion ND; subst. apply NoDup_app_insert; [rewrite app_nil_r; assumption|].
      rewrite app_nil_r. assumption.
    + intros r rq Hr Hin. apply F1; [exact Hr|right; exact Hin].
    + intros r rq Hr E. inversion E; subst. apply F1; [exact Hr|left; reflexivity].
    + exact I.
    + intros r Hr _. apply DN; [exact Hr|discriminate].
  - (* unregistration *)
    destruct (st_reader st) eqn:Epc; try discriminate. destruct (st_chunreg st) as [|p0 rest0]; [discriminate|].
    inversion H; subst. apply (cinv_frame st tr); simpl; auto; [|lia].
    unfold produced. simpl. rewrite Epc, enqs_app. simpl. rewrite app_nil_r. reflexivity.
  - destruct (st_reader st) as [|rq|rq i ss|rq i ss r0|rq i ss r0] eqn:Epc; try discriminate.
    + (* top *)
      destruct (st_pending st <? c_limit cfg); [|discriminate].
      destruct (reader_top v_fixed cfg st rq) as [st1 e1] eqn:Et. inversion H; subst st1 e1. clear H.
      assert (Hshape : st_chreq st' = st_chreq st /\ st_serial st' = st_serial st /\ enqs evs = [] /\
                       (st_reader st' = RIdle \/ exists ss, st_reader st' = RChunk rq 0 ss)).
      { unfold reader_top in Et. simpl in Et.
        destruct (sess_get (r_peer rq, r_sid rq) (st_sessions st)) as [ss|].
        - destruct (s_orig ss =? r_start rq); inversion Et; subst; simpl; eauto 10.
        - destruct (prune (r_peer rq) (ps_get (r_peer rq) (st_peersess st)) (st_sessions st)) as [s2 t2].
          inversion Et; subst; simpl; eauto 10. }
      destruct Hshape as [Hch [Hsr [Hen Hpc']]].
      assert (Hprod : produced st' (tr ++ evs) = produced st tr).
      { unfold produced. rewrite enqs_app, Hen, app_nil_r, Epc. simpl.
        destruct Hpc' as [E|[ss E]]; rewrite E; reflexivity. }
      simpl in B1, ND. 
      constructor; rewrite ?Hprod, ?Hch, ?Hsr.
      * intros rq0 Hin. apply B1. apply in_app_or in Hin. apply in_or_app.
        destruct Hin as [Hin|Hin]; [left; exact Hin|right].
        destruct Hpc' as [E|[ss E]]; rewrite E in Hin; simpl in Hin; [destruct Hin|exact Hin].
      * exact B2.
      * destruct Hpc' as [E|[ss E]]; rewrite E; simpl; [|exact ND].
        rewrite map_app in ND. simpl in ND. rewrite app_nil_r. apply NoDup_remove_1 in ND.
        rewrite app_nil_r in ND. exact ND.
      * exact F1.
      * intros r rq0 Hr E. destruct Hpc' as [E'|[ss E']]; rewrite E' in E; discriminate.
      * unfold pc_count. rewrite Hprod. destruct Hpc' as [E|[ss E]]; rewrite E; [exact I|].
        assert (Hz : forall r, In r (produced st tr) -> ser r <> r_serial rq) by (intros r Hr; eapply F2; eauto).
        split; [apply count_zero; exact Hz|]. split; [lia|].
        intros r Hr E'. exfalso. exact (Hz r Hr E').
      * intros r Hr Hne. apply DN; [exact Hr|]. simpl. discriminate.
    + (* loop head *)
      inversion H; subst st' evs. clear H. rewrite app_nil_r.
      unfold pc_count in PC. rewrite Epc in PC. destruct PC as [PC1 [PC2 PC3]].
      unfold reader_chunk.
      destruct ((i <? r_chunks rq) && negb (s_done ss)) eqn:Eguard.
      * apply andb_prop in Eguard. destruct Eguard as [Ei _].
        destruct (foreach db (s_next ss) (s_stop ss) (r_num rq) (r_size rq) [] (s_next ss)) as [[items last] c].
        set (ss' := mkSess (s_orig ss) (last + 1) (s_stop ss) c (s_sender ss) (s_inc ss) (s_creator ss)).
        set (r := mkResp (r_peer rq) (r_sid rq) c items (s_inc ss) (s_creator ss) rq).
        match goal with |- cinv ?s _ => set (st' := s) end.
        assert (Hprod : produced st' tr = produced st tr ++ [r]).
        { unfold produced. simpl. rewrite Epc. simpl. rewrite app_nil_r. reflexivity. }
        assert (Hsr : ser r = r_serial rq) by reflexivity.
        simpl in B1, ND.
        constructor; rewrite ?Hprod; simpl.
        -- exact B1.
        -- intros r1 Hr1. apply in_app_or in Hr1. destruct Hr1 as [Hr1|[<-|[]]]; [auto|].
           rewrite Hsr. apply B1. apply in_or_app. right. left. reflexivity.
        -- exact ND.
        -- intros r1 rq0 Hr1 Hin. apply in_app_or in Hr1. destruct Hr1 as [Hr1|[<-|[]]]; [auto|].
           rewrite Hsr. rewrite map_app in ND. simpl in ND. apply NoDup_remove_2 in ND. rewrite app_nil_r in ND.
           intros E. apply ND. rewrite E. apply in_map. exact Hin.
        -- intros r1 rq0 _ E. discriminate.
        -- unfold pc_count. simpl. rewrite Hprod. split; [|split; [lia|]].
           ++ rewrite count_serial_snoc_same by exact Hsr. lia.
           ++ intros r1 Hr1 E. apply in_app_or in Hr1. destruct Hr1 as [Hr1|[<-|[]]]; [apply PC3; auto|].
              simpl. auto.
        -- intros r1 Hr1 Hne. apply in_app_or in Hr1. destruct Hr1 as [Hr1|[<-|[]]].
           ++ apply complete_mono.
              ** apply DN; [exact Hr1|]. simpl. exact Hne.
              ** rewrite Hsr. intros E. apply Hne. rewrite E. reflexivity.
           ++ exfalso. apply Hne. rewrite Hsr. reflexivity.
      * (* the request is finished *)
        match goal with |- cinv ?s _ => set (st' := s) end.
        assert (Hprod : produced st' tr = produced st tr).
        { unfold produced. simpl. rewrite Epc. reflexivity. }
        simpl in B1, ND.
        constructor; rewrite ?Hprod; simpl.
        -- intros rq0 Hin. apply B1. rewrite app_nil_r in Hin. apply in_or_app. left. exact Hin.
        -- exact B2.
        -- rewrite map_app in ND. simpl in ND. apply NoDup_remove_1 in ND. rewrite app_nil_r in ND. rewrite app_nil_r. exact ND.
        -- exact F1.
        -- intros r1 rq0 _ E. discriminate.
        -- exact I.
        -- intros r1 Hr1 _. destruct (N.eq_dec (ser r1) (r_serial rq)) as [E|E].
           ++ destruct (PC3 _ Hr1 E) as [Hrq Hinc]. unfold complete. rewrite E, Hrq.
              apply andb_false_iff in Eguard. destruct Eguard as [Eg|Eg].
              ** left. lia.
              ** apply negb_false_iff in Eg. right.
                 pose proof (si_pc _ _ _ HS) as Hpc. unfold pc_ok in Hpc. rewrite Epc in Hpc.
                 destruct (si_live _ _ _ HS _ _ Hpc) as [_ _ _ _ Lf _].
                 destruct Lf as [[Hd _]|[_ [l' [r' [Hl' [_ Hr']]]]]]; [congruence|].
                 exists r'. split; [|split; [|exact Hr']].
                 --- assert (Hin : In r' (prod (s_inc ss) st tr)) by (rewrite Hl'; apply in_or_app; right; left; reflexivity).
                     unfold prod, sel in Hin. apply filter_In in Hin. tauto.
                 --- assert (Hin : In r' (prod (s_inc ss) st tr)) by (rewrite Hl'; apply in_or_app; right; left; reflexivity).
                     unfold prod, sel in Hin. apply filter_In in Hin. destruct Hin as [_ Hk]. apply N.eqb_eq in Hk. congruence.
           ++ apply DN; [exact Hr1|]. simpl. intros E'. inversion E'. congruence.
    + (* the addition to the pending size *)
      unfold reader_add in H. destruct (st_pending st <? c_limit cfg); [|discriminate].
      inversion H; subst st' evs. clear H. rewrite app_nil_r.
      unfold pc_count in PC. rewrite Epc in PC. destruct PC as [PC1 [PC2 PC3]].
      match goal with |- cinv ?s _ => set (st' := s) end.
      assert (Hprod : produced st' tr = produced st tr).
      { unfold produced. simpl. rewrite Epc. reflexivity. }
      simpl in B1, ND.
      constructor; rewrite ?Hprod; simpl.
      * exact B1.
      * exact B2.
      * exact ND.
      * exact F1.
      * intros r1 rq0 _ E. discriminate.
      * unfold pc_count. simpl. rewrite Hprod. split; [exact PC1|]. split; [exact PC2|exact PC3].
      * intros r1 Hr1 Hne. apply DN; [exact Hr1|]. exact Hne.
    + (* enqueue *)
      unfold reader_send in H.
      destruct ((N.of_nat (length (nth (s_sender ss) (st_senders st) [])) <=? c_maxtasks cfg) &&
                (Nat.ltb (s_sender ss) (length (st_senders st)))); [|discriminate].
      inversion H; subst st' evs. clear H.
      unfold pc_count in PC. rewrite Epc in PC. destruct PC as [PC1 [PC2 PC3]].
      match goal with |- cinv ?s _ => set (st' := s) end.
      assert (Hprod : produced st' (tr ++ [EEnq r0]) = produced st tr).
      { unfold produced. simpl. rewrite Epc, enqs_app. simpl. rewrite app_nil_r. reflexivity. }
      simpl in B1, ND.
      constructor; rewrite ?Hprod; simpl.
      * exact B1.
      * exact B2.
      * exact ND.
      * exact F1.
      * intros r1 rq0 _ E. discriminate.
      * unfold pc_count. simpl. rewrite Hprod. split; [exact PC1|]. split; [lia|exact PC3].
      * intros r1 Hr1 Hne. apply DN; [exact Hr1|]. exact Hne.
  - destruct (nth i (st_senders st) []) as [|r0 q] eqn:En; [discriminate|].
    inversion H; subst. apply (cinv_frame st tr); simpl; auto; [|lia].
    unfold produced. simpl. rewrite enqs_app. simpl. rewrite app_nil_r. reflexivity.
Qed.

Lemma cinv_init : forall cfg, cinv (init cfg) [].
Proof.
  intros cfg. constructor; simpl; try (intros; contradiction); try (intros; discriminate); auto.
  - constructor.
  - exact I.
Qed.

Lemma run_cinv : forall cfg db ops st tr st' evs,
  sorted_keys db -> sinv db st tr -> cinv st tr -> run v_fixed cfg db st ops = (st', evs) ->
  sinv db st' (tr ++ evs) /\ cinv st' (tr ++ evs).
Proof.
  intros cfg db ops. induction ops as [|o ops IH]; intros st tr st' evs Hs HI HC H; simpl in H.
  - inversion H; subst. rewrite app_nil_r. auto.
  - destruct (step v_fixed cfg db st o) as [[st1 e1]|] eqn:Es.
    + destruct (run v_fixed cfg db st1 ops) as [st2 e2] eqn:Er. inversion H; subst.
      rewrite app_assoc. apply (IH st1 (tr ++ e1) st' e2 Hs);
        [exact (step_sinv _ _ _ _ _ _ _ Hs HI Es)|exact (step_cinv _ _ _ _ _ _ _ HI HC Es)|exact Er].
    + eapply IH; eauto.
Qed.

(* whenever the reader is between two requests: every request that has produced a response got
   as many responses as chunks it asked for, or its session has finished (a done response of
   the same incarnation exists) *)
Lemma requests_complete : forall cfg db ops,
  sorted_keys db ->
  let st := fst (run v_fixed cfg db (init cfg) ops) in
  let tr := snd (run v_fixed cfg db (init cfg) ops) in
  st_reader st = RIdle ->
  forall r, In r (enqs tr) ->
    N.of_nat (length (filter (fun r' => r_serial (rs_req r') =? r_serial (rs_req r)) (enqs tr)))
      = r_chunks (rs_req r)
    \/ exists r', In r' (enqs tr) /\ rs_inc r' = rs_inc r /\ rs_done r' = true.
Proof.
  intros cfg db ops Hs. destruct (run v_fixed cfg db (init cfg) ops) as [st tr] eqn:Er. simpl.
  destruct (run_cinv _ _ _ _ _ _ _ Hs (sinv_init cfg db) (cinv_init cfg) Er) as [_ HC]. simpl in HC.
  intros Hidle r Hr.
  assert (Hp : produced st tr = enqs tr) by (unfold produced; rewrite Hidle; simpl; apply app_nil_r).
  pose proof (ci_done _ _ HC r) as Hd. rewrite Hp, Hidle in Hd.
  apply Hd; [exact Hr|discriminate].
Qed.

(* a request never gets more responses than the chunks it asked for *)
Lemma requests_bounded : forall cfg db ops,
  sorted_keys db ->
  let st := fst (run v_fixed cfg db (init cfg) ops) in
  let tr := snd (run v_fixed cfg db (init cfg) ops) in
  forall rq i ss, st_reader st = RChunk rq i ss ->
    count_serial (r_serial rq) (enqs tr) = i /\ i <= r_chunks rq.
Proof.
  intros cfg db ops Hs. destruct (run v_fixed cfg db (init cfg) ops) as [st tr] eqn:Er. simpl.
  destruct (run_cinv _ _ _ _ _ _ _ Hs (sinv_init cfg db) (cinv_init cfg) Er) as [_ HC]. simpl in HC.
  intros rq i ss Hpc. pose proof (ci_pc _ _ HC) as H. unfold pc_count in H. rewrite Hpc in H.
  assert (Hp : produced st tr = enqs tr) by (unfold produced; rewrite Hpc; simpl; apply app_nil_r).
  rewrite Hp in H. tauto.
Qed.

(* ---------------------------------------------------------------------------------- *)
(* Round 2: requests are served in the order of their serials; a finished request never  *)
(* got more responses than it asked for; when it got fewer, the done response of its     *)
(* session was produced by this request or an earlier one.                               *)
(* ---------------------------------------------------------------------------------- *)
Definition complete_strong (l : list resp) (r : resp) : Prop :=
  count_serial (ser r) l = r_chunks (rs_req r) \/
  exists r', In r' l /\ rs_inc r' = rs_inc r /\ rs_done r' = true /\ ser r' <= ser r.

Record oinv (st : state) (tr : list event) : Prop := mkOinv {
  oi_sorted : StronglySorted N.lt (map r_serial (st_chreq st));
  oi_pc : forall rq0 rq, In rq0 (pc_req (st_reader st)) -> In rq (st_chreq st) -> r_serial rq0 < r_serial rq;
  oi_ord : forall r rq, In r (produced st tr) -> In rq (st_chreq st ++ pc_req (st_reader st)) ->
                        ser r <= r_serial rq;
  oi_cnt : forall r, In r (produced st tr) -> count_serial (ser r) (produced st tr) <= r_chunks (rs_req r);
  oi_done : forall r, In r (produced st tr) -> pc_serial (st_reader st) <> Some (ser r) ->
                      complete_strong (produced st tr) r
}.

Lemma complete_strong_mono : forall l r x, complete_strong l r -> ser x <> ser r -> complete_strong (l ++ [x]) r.
Proof.
  intros l r x [H|[r' [H1 [H2 [H3 H4]]]]] Hx.
  - left. rewrite count_serial_snoc_other by exact Hx. exact H.
  - right. exists r'. split; [apply in_or_app; left; exact H1|auto].
Qed.

Lemma sorted_snoc : forall l x, StronglySorted N.lt l -> (forall y, In y l -> y < x) -> StronglySorted N.lt (l ++ [x]).
Proof.
  induction l as [|a l IH]; intros x Hs Hx; simpl.
  - constructor; constructor.
  - inversion Hs; subst. constructor.
    + apply IH; [assumption|]. intros y Hy. apply Hx. right. exact Hy.
    + apply Forall_app. split; [assumption|]. constructor; [apply Hx; left; reflexivity|constructor].
Qed.

Lemma oinv_frame : forall st tr st' tr',
  oinv st tr ->
  produced st' tr' = produced st tr -> st_chreq st' = st_chreq st -> st_reader st' = st_reader st ->
  oinv st' tr'.
Proof.
  intros st tr st' tr' [H1 H2 H3 H4 H5] Hp Hc Hr. constructor; rewrite ?Hp, ?Hc, ?Hr; auto.
Qed.

Lemma step_oinv : forall cfg db st tr o st' evs,
  sinv db st tr -> cinv st tr -> oinv st tr -> step v_fixed cfg db st o = Some (st', evs) ->
  oinv st' (tr ++ evs).
Proof.
  intros cfg db st tr o st' evs HS HC HO H.
  pose proof HC as [B1 B2 _ _ _ PC _]. pose proof HO as [S1 S2 S3 S4 S5].
  destruct o as [rq|p| | | |i]; simpl in H.
  - destruct (c_maxchunks cfg <? r_chunks rq).
    + inversion H; subst. apply (oinv_frame st tr); simpl; auto.
      unfold produced. simpl. rewrite enqs_app. simpl. rewrite app_nil_r. reflexivity.
    + destruct (16 <=? N.of_nat (length (st_chreq st))); [discriminate|].
      inversion H; subst. rewrite app_nil_r.
      set (rq' := sanitize cfg (st_serial st) rq).
      assert (Hp : forall s0, produced (mkSt (st_sessions st) (st_peersess st) (st_counter st) (st_chreq st ++ [rq'])
                     (st_chunreg st) (st_reader st) (st_senders st) (st_pending st) s0) tr = produced st tr)
        by (intros; reflexivity).
      constructor; simpl; rewrite ?Hp.
      * rewrite map_app. simpl. apply sorted_snoc; [exact S1|].
        intros y Hy. apply in_map_iff in Hy. destruct Hy as [rq0 [<- Hin]].
        assert (Hin' : In rq0 (st_chreq st ++ pc_req (st_reader st))) by (apply in_or_app; left; exact Hin).
        specialize (B1 _ Hin'). lia.
      * intros rq0 rq1 Hpc Hin. apply in_app_or in Hin. destruct Hin as [Hin|[<-|[]]]; [auto|].
        assert (Hin' : In rq0 (st_chreq st ++ pc_req (st_reader st))) by (apply in_or_app; right; exact Hpc).
        specialize (B1 _ Hin'). unfold rq'. simpl. lia.
      * intros r rq1 Hr Hin. rewrite <- app_assoc in Hin. apply in_app_or in Hin.
        destruct Hin as [Hin|[<-|Hin]].
        -- apply S3; [exact Hr|apply in_or_app; left; exact Hin].
        -- specialize (B2 _ Hr). unfold rq'. simpl. lia.
        -- apply S3; [exact Hr|apply in_or_app; right; exact Hin].
      * exact S4.
      * exact S5.
  - destruct (128 <=? N.of_nat (length (st_chunreg st))); [discriminate|].
    inversion H; subst. rewrite app_nil_r. apply (oinv_frame st tr); simpl; auto.
  - destruct (st_reader st) eqn:Epc; try discriminate. destruct (st_chreq st) as [|rq0 rest0] eqn:Ech; [discriminate|].
    inversion H; subst. rewrite app_nil_r.
    assert (Hp : produced (mkSt (st_sessions st) (st_peersess st) (st_counter st) rest0
                      (st_chunreg st) (RTop rq0) (st_senders st) (st_pending st) (st_serial st)) tr = produced st tr)
      by (unfold produced; simpl; rewrite Epc; reflexivity).
    simpl in S1. inversion S1 as [|? ? Hs Hall]; subst. simpl in *.
    constructor; simpl; rewrite ?Hp.
    + exact Hs.
    + intros rq1 rq2 [<-|[]] Hin. rewrite Forall_forall in Hall. apply Hall. apply in_map. exact Hin.
    + intros r rq1 Hr Hin. apply S3; [exact Hr|]. rewrite app_nil_r.
      apply in_app_or in Hin. destruct Hin as [Hin|[<-|[]]]; [right; exact Hin|left; reflexivity].
    + exact S4.
    + intros r Hr _. apply S5; [exact Hr|discriminate].
  - destruct (st_reader st) eqn:Epc; try discriminate. destruct (st_chunreg st) as [|p0 rest0]; [discriminate|].
    inversion H; subst. apply (oinv_frame st tr); simpl; auto.
    unfold produced. simpl. rewrite Epc, enqs_app. simpl. rewrite app_nil_r. reflexivity.
  - destruct (st_reader st) as [|rq|rq i ss|rq i ss r0|rq i ss r0] eqn:Epc; try discriminate.
    + destruct (st_pending st <? c_limit cfg); [|discriminate].
      destruct (reader_top v_fixed cfg st rq) as [st1 e1] eqn:Et. inversion H; subst st1 e1. clear H.
      assert (Hshape : st_chreq st' = st_chreq st /\ enqs evs = [] /\
                       (st_reader st' = RIdle \/ exists ss, st_reader st' = RChunk rq 0 ss)).
      { unfold reader_top in Et. simpl in Et.
        destruct (sess_get (r_peer rq, r_sid rq) (st_sessions st)) as [ss|].
        - destruct (s_orig ss =? r_start rq); inversion Et; subst; simpl; eauto 10.
        - destruct (prune (r_peer rq) (ps_get (r_peer rq) (st_peersess st)) (st_sessions st)) as [s2 t2].
          inversion Et; subst; simpl; eauto 10. }
      destruct Hshape as [Hch [Hen Hpc']].
      assert (Hprod : produced st' (tr ++ evs) = produced st tr).
      { unfold produced. rewrite enqs_app, Hen, app_nil_r, Epc. simpl.
        destruct Hpc' as [E|[ss E]]; rewrite E; reflexivity. }
      simpl in S2, S3.
      constructor; rewrite ?Hprod, ?Hch.
      * exact S1.
      * intros rq0 rq1 Hin0 Hin1. destruct Hpc' as [E|[ss E]]; rewrite E in Hin0; simpl in Hin0; [destruct Hin0|].
        apply S2; auto.
      * intros r rq1 Hr Hin. apply S3; [exact Hr|]. apply in_app_or in Hin. apply in_or_app.
        destruct Hin as [Hin|Hin]; [left; exact Hin|right].
        destruct Hpc' as [E|[ss E]]; rewrite E in Hin; simpl in Hin; [destruct Hin|exact Hin].
      * exact S4.
      * intros r Hr Hne. apply S5; [exact Hr|]. simpl. discriminate.
    + inversion H; subst st' evs. clear H. rewrite app_nil_r.
      unfold pc_count in PC. rewrite Epc in PC. destruct PC as [PC1 [PC2 PC3]].
      unfold reader_chunk.
      destruct ((i <? r_chunks rq) && negb (s_done ss)) eqn:Eguard.
      * apply andb_prop in Eguard. destruct Eguard as [Ei _].
        destruct (foreach db (s_next ss) (s_stop ss) (r_num rq) (r_size rq) [] (s_next ss)) as [[items last] c].
        set (r := mkResp (r_peer rq) (r_sid rq) c items (s_inc ss) (s_creator ss) rq).
        match goal with |- oinv ?s _ => set (st' := s) end.
        assert (Hprod : produced st' tr = produced st tr ++ [r]).
        { unfold produced. simpl. rewrite Epc. simpl. rewrite app_nil_r. reflexivity. }
        assert (Hsr : ser r = r_serial rq) by reflexivity.
        simpl in S2, S3.
        constructor; rewrite ?Hprod; simpl.
        -- exact S1.
        -- exact S2.
        -- intros r1 rq1 Hr1 Hin. apply in_app_or in Hr1. destruct Hr1 as [Hr1|[<-|[]]]; [apply S3; auto|].
           rewrite Hsr. apply in_app_or in Hin. destruct Hin as [Hin|[<-|[]]]; [|lia].
           assert (Hlt : r_serial rq < r_serial rq1) by (apply S2; [left; reflexivity|exact Hin]). lia.
        -- intros r1 Hr1. apply in_app_or in Hr1. destruct Hr1 as [Hr1|[<-|[]]].
           ++ destruct (N.eq_dec (ser r1) (r_serial rq)) as [E|E].
              ** destruct (PC3 _ Hr1 E) as [Hrq _]. rewrite E, Hrq.
                 rewrite count_serial_snoc_same by exact Hsr. lia.
              ** rewrite count_serial_snoc_other by (rewrite Hsr; congruence). apply S4. exact Hr1.
           ++ rewrite Hsr. simpl. rewrite count_serial_snoc_same by exact Hsr. lia.
        -- intros r1 Hr1 Hne. apply in_app_or in Hr1. destruct Hr1 as [Hr1|[<-|[]]].
           ++ apply complete_strong_mono.
              ** apply S5; [exact Hr1|]. simpl. exact Hne.
              ** rewrite Hsr. intros E. apply Hne. rewrite E. reflexivity.
           ++ exfalso. apply Hne. rewrite Hsr. reflexivity.
      * match goal with |- oinv ?s _ => set (st' := s) end.
        assert (Hprod : produced st' tr = produced st tr).
        { unfold produced. simpl. rewrite Epc. reflexivity. }
        simpl in S2, S3.
        constructor; rewrite ?Hprod; simpl.
        -- exact S1.
        -- intros rq0 rq1 [].
        -- intros r1 rq1 Hr1 Hin. rewrite app_nil_r in Hin. apply S3; [exact Hr1|apply in_or_app; left; exact Hin].
        -- exact S4.
        -- intros r1 Hr1 _. destruct (N.eq_dec (ser r1) (r_serial rq)) as [E|E].
           ++ destruct (PC3 _ Hr1 E) as [Hrq Hinc]. unfold complete_strong. rewrite E, Hrq.
              apply andb_false_iff in Eguard. destruct Eguard as [Eg|Eg].
              ** left. lia.
              ** apply negb_false_iff in Eg. right.
                 pose proof (si_pc _ _ _ HS) as Hpc. unfold pc_ok in Hpc. rewrite Epc in Hpc.
                 destruct (si_live _ _ _ HS _ _ Hpc) as [_ _ _ _ Lf _].
                 destruct Lf as [[Hd _]|[_ [l' [r' [Hl' [_ Hr']]]]]]; [congruence|].
                 assert (Hin : In r' (prod (s_inc ss) st tr)) by (rewrite Hl'; apply in_or_app; right; left; reflexivity).
                 unfold prod, sel in Hin. apply filter_In in Hin. destruct Hin as [Hin Hk]. apply N.eqb_eq in Hk.
                 exists r'. split; [exact Hin|]. split; [congruence|]. split; [exact Hr'|].
                 apply S3; [exact Hin|apply in_or_app; right; left; reflexivity].
           ++ apply S5; [exact Hr1|]. simpl. intros E'. inversion E'. congruence.
    + unfold reader_add in H. destruct (st_pending st <? c_limit cfg); [|discriminate].
      inversion H; subst st' evs. clear H. rewrite app_nil_r.
      match goal with |- oinv ?s _ => set (st' := s) end.
      assert (Hprod : produced st' tr = produced st tr).
      { unfold produced. simpl. rewrite Epc. reflexivity. }
      simpl in S2, S3.
      constructor; rewrite ?Hprod; simpl.
      * exact S1.
      * exact S2.
      * exact S3.
      * exact S4.
      * intros r1 Hr1 Hne. apply S5; [exact Hr1|]. exact Hne.
    + unfold reader_send in H.
      destruct ((N.of_nat (length (nth (s_sender ss) (st_senders st) [])) <=? c_maxtasks cfg) &&
                (Nat.ltb (s_sender ss) (length (st_senders st)))); [|discriminate].
      inversion H; subst st' evs. clear H.
      match goal with |- oinv ?s _ => set (st' := s) end.
      assert (Hprod : produced st' (tr ++ [EEnq r0]) = produced st tr).
      { unfold produced. simpl. rewrite Epc, enqs_app. simpl. rewrite app_nil_r. reflexivity. }
      simpl in S2, S3.
      constructor; rewrite ?Hprod; simpl.
      * exact S1.
      * exact S2.
      * exact S3.
      * exact S4.
      * intros r1 Hr1 Hne. apply S5; [exact Hr1|]. exact Hne.
  - destruct (nth i (st_senders st) []) as [|r0 q] eqn:En; [discriminate|].
    inversion H; subst. apply (oinv_frame st tr); simpl; auto.
    unfold produced. simpl. rewrite enqs_app. simpl. rewrite app_nil_r. reflexivity.
Qed.

Lemma oinv_init : forall cfg, oinv (init cfg) [].
Proof.
  intros cfg. constructor; simpl; try (intros; contradiction); auto. constructor.
Qed.

Lemma run_oinv : forall cfg db ops st tr st' evs,
  sorted_keys db -> sinv db st tr -> cinv st tr -> oinv st tr -> run v_fixed cfg db st ops = (st', evs) ->
  sinv db st' (tr ++ evs) /\ cinv st' (tr ++ evs) /\ oinv st' (tr ++ evs).
Proof.
  intros cfg db ops. induction ops as [|o ops IH]; intros st tr st' evs Hs HI HC HO H; simpl in H.
  - inversion H; subst. rewrite app_nil_r. auto.
  - destruct (step v_fixed cfg db st o) as [[st1 e1]|] eqn:Es.
    + destruct (run v_fixed cfg db st1 ops) as [st2 e2] eqn:Er. inversion H; subst.
      rewrite app_assoc. apply (IH st1 (tr ++ e1) st' e2 Hs);
        [exact (step_sinv _ _ _ _ _ _ _ Hs HI Es)|exact (step_cinv _ _ _ _ _ _ _ HI HC Es)
        |exact (step_oinv _ _ _ _ _ _ _ HI HC HO Es)|exact Er].
    + eapply IH; eauto.
Qed.

(* whenever the reader is between two requests: every request that has produced a response got
   exactly the chunks it asked for, or the done response of its session was produced by this
   request or an earlier one *)
Lemma requests_complete_strong : forall cfg db ops,
  sorted_keys db ->
  let st := fst (run v_fixed cfg db (init cfg) ops) in
  let tr := snd (run v_fixed cfg db (init cfg) ops) in
  st_reader st = RIdle ->
  forall r, In r (enqs tr) ->
    count_serial (ser r) (enqs tr) = r_chunks (rs_req r)
    \/ exists r', In r' (enqs tr) /\ rs_inc r' = rs_inc r /\ rs_done r' = true /\ ser r' <= ser r.
Proof.
  intros cfg db ops Hs. destruct (run v_fixed cfg db (init cfg) ops) as [st tr] eqn:Er. simpl.
  destruct (run_oinv _ _ _ _ _ _ _ Hs (sinv_init cfg db) (cinv_init cfg) (oinv_init cfg) Er) as [_ [_ HO]].
  simpl in HO. intros Hidle r Hr.
  assert (Hp : produced st tr = enqs tr) by (unfold produced; rewrite Hidle; simpl; apply app_nil_r).
  pose proof (oi_done _ _ HO r) as Hd. rewrite Hp, Hidle in Hd. apply Hd; [exact Hr|discriminate].
Qed.

(* in every reachable state, no request has got more responses than the chunks it asked for,
   and responses are produced in the order of the requests' serials *)
Lemma requests_never_exceed : forall cfg db ops,
  sorted_keys db ->
  let tr := snd (run v_fixed cfg db (init cfg) ops) in
  forall r, In r (enqs tr) -> count_serial (ser r) (enqs tr) <= r_chunks (rs_req r).
Proof.
  intros cfg db ops Hs. destruct (run v_fixed cfg db (init cfg) ops) as [st tr] eqn:Er. simpl.
  destruct (run_oinv _ _ _ _ _ _ _ Hs (sinv_init cfg db) (cinv_init cfg) (oinv_init cfg) Er) as [_ [_ HO]].
  simpl in HO. intros r Hr.
  assert (Hin : In r (produced st tr)) by (unfold produced; apply in_or_app; left; exact Hr).
  pose proof (oi_cnt _ _ HO r Hin) as Hc.
  (* the response the reader may hold (not yet enqueued) only adds to the count *)
  unfold produced in Hc. unfold count_serial in *. rewrite for_serial_app, app_length in Hc. lia.
Qed.
