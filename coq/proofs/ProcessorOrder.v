(* C15: (1) the semaphore never holds more than its capacity; (2) the events of an ordered batch
   enter `process` in batch order, whatever the order in which their check results arrive and
   however the steps of Enqueue callers, check results and the inserter interleave. *)
From Coq Require Import NArith List Bool Lia Arith.
From LV Require Import model.Buffer model.Processor spec.ProcessorSpec proofs.BufferInv proofs.ProcessorFrame.
Import ListNotations.
Local Open Scope N_scope.

Definition gs (b : batch) : list N := map pg (b_events b).
Definition all_g (steps : list pstep) : list N :=
  flat_map (fun x => match x with SEnq b => gs b | _ => [] end) steps.
Definition filt (b : batch) (l : list N) : list N := filter (fun g => memN g (gs b)) l.

Lemma filt_app : forall b x y, filt b (x ++ y) = filt b x ++ filt b y.
Proof. intros; unfold filt; apply filter_app. Qed.
Lemma filt_all : forall b l, incl l (gs b) -> filt b l = l.
Proof.
  intros b l; induction l as [|a l IH]; simpl; intros H; auto.
  assert (memN a (gs b) = true) by (apply memN_In; apply H; left; auto). rewrite H0.
  f_equal. apply IH. intros x Hx; apply H; right; auto.
Qed.
Lemma filt_none : forall b l, (forall g, In g l -> ~ In g (gs b)) -> filt b l = [].
Proof.
  intros b l; induction l as [|a l IH]; simpl; intros H; auto.
  assert (memN a (gs b) = false) by (apply memN_false; apply H; left; auto). rewrite H0.
  apply IH. intros x Hx; apply H; right; auto.
Qed.
Lemma firstn_skipn_add : forall {A} (l : list A) p d, firstn p l ++ firstn d (skipn p l) = firstn (p + d) l.
Proof.
  intros A l; induction l as [|a l IH]; intros p d.
  - rewrite skipn_nil, !firstn_nil. reflexivity.
  - destruct p; simpl; [reflexivity | f_equal; apply IH].
Qed.
Lemma firstn_In : forall {A} n (l : list A) x, In x (firstn n l) -> In x l.
Proof.
  intros A n; induction n as [|n IH]; intros [|a l] x H; simpl in *; try contradiction.
  destruct H; auto.
Qed.
Lemma NoDup_app_disjoint : forall {A} (a b : list A) x, NoDup (a ++ b) -> In x a -> In x b -> False.
Proof.
  intros A a b x; induction a as [|y a IH]; simpl; intros H Ha Hb; [contradiction|].
  inversion H; subst. destruct Ha as [Ha|Ha].
  - subst. apply H2. apply in_or_app; auto.
  - apply IH; auto.
Qed.
Lemma NoDup_app_l : forall {A} (a b : list A), NoDup (a ++ b) -> NoDup a.
Proof.
  intros A a b; induction a as [|y a IH]; simpl; intros H; [constructor|].
  inversion H; subst. constructor; auto. intros Hi; apply H2; apply in_or_app; auto.
Qed.
Lemma NoDup_app_r : forall {A} (a b : list A), NoDup (a ++ b) -> NoDup b.
Proof. intros A a b; induction a; simpl; auto. intros H; inversion H; auto. Qed.

(* two different SEnq steps of a well-formed script carry disjoint events *)
Lemma all_g_in : forall steps b g, In (SEnq b) steps -> In g (gs b) -> In g (all_g steps).
Proof. intros steps b g H1 H2. unfold all_g. apply in_flat_map. exists (SEnq b); auto. Qed.
Lemma all_g_disjoint : forall steps b b' g, NoDup (all_g steps) -> In (SEnq b) steps -> In (SEnq b') steps ->
  b <> b' -> In g (gs b) -> In g (gs b') -> False.
Proof.
  induction steps as [|x steps IH]; simpl; intros b b' g Nd H H' Ne Hg Hg'; [contradiction|].
  unfold all_g in Nd. simpl in Nd. fold (all_g steps) in Nd.
  destruct H as [H|H], H' as [H'|H'].
  - subst. inversion H'. congruence.
  - subst. exact (NoDup_app_disjoint _ _ g Nd Hg (all_g_in steps b' g H' Hg')).
  - subst. exact (NoDup_app_disjoint _ _ g Nd Hg' (all_g_in steps b g H Hg)).
  - apply (IH b b' g); auto. eapply NoDup_app_r; exact Nd.
Qed.

Lemma pevent_eq_dec : forall a b : pevent, {a = b} + {a <> b}.
Proof. decide equality; try apply N.eq_dec; try apply bool_dec; apply list_eq_dec, N.eq_dec. Qed.
Lemma batch_eq_dec : forall a b : batch, {a = b} + {a <> b}.
Proof. decide equality; try apply N.eq_dec; try apply bool_dec; apply list_eq_dec, pevent_eq_dec. Qed.

Section Proc.
  Variable fc fp : list out -> entry -> bool.
  Variable cap_n cap_s lim_n lim_s : N.

  Notation process := (Processor.process fc fp lim_n lim_s).
  Notation flush := (Processor.flush fc fp lim_n lim_s).
  Notation consume := (Processor.consume fc fp lim_n lim_s).
  Notation stop := (Processor.stop fc fp).
  Notation enqueue := (Processor.enqueue cap_n cap_s).
  Notation pstep_run := (Processor.pstep_run fc fp cap_n cap_s lim_n lim_s).
  Notation prun := (Processor.prun fc fp cap_n cap_s lim_n lim_s).

  Lemma prun_snoc : forall h0 steps x, prun h0 (steps ++ [x]) = pstep_run (prun h0 steps) x.
  Proof. intros. unfold Processor.prun. rewrite fold_left_app. reflexivity. Qed.

  (* ---------- (1) capacity *)
  Lemma consume_held : forall s, held_n (consume s) <= held_n s /\ held_s (consume s) <= held_s s.
  Proof.
    intros s. unfold Processor.consume. destruct (stopped s); [lia|].
    destruct (queue s) as [|bs rest]; [lia|].
    destruct (Nat.leb (length (b_events (bs_batch bs))) (bs_processed bs)).
    - destruct (bs_request bs); simpl; lia.
    - destruct (bs_chan bs) as [|pos ch]; [lia|].
      destruct (b_ordered (bs_batch bs)).
      + match goal with |- context [Processor.flush ?a ?b ?c ?d ?f ?s0 ?bs0 ?i] =>
          pose proof (flush_spec fc fp lim_n lim_s f s0 bs0 i eq_refl) as F;
          destruct (Processor.flush a b c d f s0 bs0 i) as [s1 bs1] end.
        destruct F as [[_ [_ [_ [A B]]]] _]. simpl. lia.
      + destruct (nth_error (b_events (bs_batch bs)) pos) as [ev|]; [|simpl; lia].
        pose proof (process_frame fc fp lim_n lim_s s ev) as F.
        destruct (process s ev) as [s1 rq]. destruct F as [_ [_ [_ [A B]]]]. simpl in *. lia.
  Qed.

  Theorem held_le_cap : forall h0 steps,
    held_n (prun h0 steps) <= cap_n /\ held_s (prun h0 steps) <= cap_s.
  Proof.
    intros h0 steps. induction steps as [|x steps IH] using rev_ind.
    - simpl. lia.
    - rewrite prun_snoc. set (s := prun h0 steps) in *. destruct x; simpl.
      + unfold Processor.enqueue. destruct (quitf s || stopped s); [exact IH|].
        destruct ((cap_n <? held_n s + batch_num b) || (cap_s <? held_s s + batch_size b)) eqn:E; simpl; [exact IH|].
        apply orb_false_iff in E. destruct E as [E1 E2]. apply N.ltb_ge in E1, E2. lia.
      + unfold arrive. destruct (stopped s); simpl; exact IH.
      + pose proof (consume_held s). lia.
      + unfold Processor.stop. destruct (stopped s); [exact IH|]. simpl.
        match goal with |- context [fold_left apply_out ?l ?s0] =>
          pose proof (frame_fold_apply l s0) as F end.
        destruct F as [_ [_ [_ [A B]]]]. destruct (queue s); [|destruct (quitf s)]; simpl in *; lia.
      + unfold quit. destruct (stopped s); simpl; exact IH.
      + unfold abort. destruct (stopped s || negb (quitf s)); [exact IH|]. destruct (queue s); simpl; exact IH.
  Qed.

  (* ---------- (2) ordered batches *)
  Definition Hd (s : pst) : list N := handles (plog s).   (* newest first *)

  Record OI (pre : list pstep) (s : pst) : Prop := mkOI {
    oi_hd : forall g, In g (Hd s) -> In g (all_g pre);
    oi_q_in : forall bs, In bs (queue s) -> In (SEnq (bs_batch bs)) pre;
    oi_q_nodup : NoDup (flat_map (fun bs => gs (bs_batch bs)) (queue s));
    oi_ord : forall b, In (SEnq b) pre -> b_ordered b = true ->
               (forall bs, In bs (queue s) -> bs_batch bs = b ->
                           filt b (Hd s) = rev (firstn (bs_processed bs) (gs b)))
               /\ exists k, filt b (Hd s) = rev (firstn k (gs b))
  }.

  Lemma queue_same_batch : forall (q : list bstate) bs1 bs2 rest,
    NoDup (flat_map (fun bs => gs (bs_batch bs)) (bs1 :: rest)) -> In bs2 rest ->
    bs_batch bs2 = bs_batch bs1 -> gs (bs_batch bs1) = [].
  Proof.
    intros _ bs1 bs2 rest Nd Hi E. simpl in Nd.
    destruct (gs (bs_batch bs1)) as [|g l] eqn:G; auto. exfalso.
    eapply NoDup_app_disjoint with (x := g); [exact Nd | left; auto|].
    apply in_flat_map. exists bs2. split; auto. rewrite E, G. left; auto.
  Qed.

  Lemma OI_step : forall pre x s, NoDup (all_g (pre ++ [x])) -> OI pre s -> OI (pre ++ [x]) (pstep_run s x).
  Proof.
    intros pre x s Nd [Ihd Iqin Iqnd Iord].
    assert (Eall : all_g (pre ++ [x]) = all_g pre ++ match x with SEnq b => gs b | _ => [] end).
    { unfold all_g. rewrite flat_map_app. simpl. rewrite app_nil_r. reflexivity. }
    assert (Mono : forall g, In g (all_g pre) -> In g (all_g (pre ++ [x]))).
    { intros g Hg. rewrite Eall. apply in_or_app; auto. }
    assert (MonoS : forall y, In y pre -> In y (pre ++ [x])) by (intros; apply in_or_app; auto).
    (* a generic way to close the goal when the handles and the queue's (batch, processed) are unchanged *)
    assert (Same : forall s', Hd s' = Hd s ->
               (forall bs', In bs' (queue s') -> exists bs, In bs (queue s) /\ bs_batch bs' = bs_batch bs
                                                        /\ bs_processed bs' = bs_processed bs) ->
               NoDup (flat_map (fun bs => gs (bs_batch bs)) (queue s')) ->
               (forall b, x = SEnq b -> gs b = [] \/ ~ In (SEnq b) pre) ->
               (forall b, x = SEnq b -> forall bs', In bs' (queue s') -> bs_batch bs' = b -> bs_processed bs' = 0%nat \/ In (SEnq b) pre) ->
               OI (pre ++ [x]) s').
    { intros s' EH Q Nq Xe Xq. constructor; auto.
      - intros g Hg. rewrite EH in Hg. auto.
      - intros bs' Hb. destruct (Q bs' Hb) as [bs [A [B _]]]. rewrite B. auto.
      - intros b Hb Ho. rewrite EH. apply in_app_or in Hb. destruct Hb as [Hb|[Hb|[]]].
        + destruct (Iord b Hb Ho) as [A B]. split; auto.
          intros bs' Hbs' Eb. destruct (Q bs' Hbs') as [bs [A1 [A2 A3]]]. rewrite A3. apply A; congruence.
        + (* the batch being enqueued right now *)
          subst x. rewrite Eall in Nd.
          assert (F0 : filt b (Hd s) = []).
          { apply filt_none. intros g Hg Hg'. eapply NoDup_app_disjoint; [exact Nd | apply Ihd; exact Hg | exact Hg']. }
          split; [|exists 0%nat; rewrite F0; reflexivity].
          intros bs' Hbs' Eb. rewrite F0.
          destruct (Xq b eq_refl bs' Hbs' Eb) as [Z|Z].
          * rewrite Z. reflexivity.
          * destruct (Xe b eq_refl) as [G|G]; [rewrite G, firstn_nil; reflexivity | contradiction]. }
    destruct x as [b0 | bid pos | | | | ]; simpl.
    - (* SEnq *)
      unfold Processor.enqueue. destruct (quitf s || stopped s) eqn:St.
      + apply Same; auto.
        * intros bs' Hb; exists bs'; auto.
        * intros b Eb. inversion Eb; subst b.
          destruct (gs b0) eqn:G; auto. right. intros Hin. rewrite Eall in Nd; rewrite ?G in Nd.
          eapply NoDup_app_disjoint with (x := n); [exact Nd | eapply all_g_in; eauto; rewrite G; left; auto | left; auto].
        * intros b Eb bs' Hbs' Ebb. right. inversion Eb; subst; apply Iqin; exact Hbs'.
      + destruct ((cap_n <? held_n s + batch_num b0) || (cap_s <? held_s s + batch_size b0)).
        * apply Same; auto.
          -- intros bs' Hb; exists bs'; auto.
          -- intros b Eb. inversion Eb; subst b.
             destruct (gs b0) eqn:G; auto. right. intros Hin. rewrite Eall in Nd; rewrite ?G in Nd.
             eapply NoDup_app_disjoint with (x := n); [exact Nd | eapply all_g_in; eauto; rewrite G; left; auto | left; auto].
          -- intros b Eb bs' Hbs' Ebb. right. inversion Eb; subst; apply Iqin; exact Hbs'.
        * (* accepted *)
          rewrite Eall in Nd.
          match goal with |- OI _ ?sx => assert (EH : Hd sx = Hd s) by reflexivity end.
          constructor.
          -- intros g Hg. rewrite EH in Hg. apply Mono. apply Ihd. exact Hg.
          -- simpl. intros bs Hb. apply in_app_or in Hb. destruct Hb as [Hb|[Hb|[]]]; [auto|].
             subst bs. simpl. apply in_or_app; right; left; auto.
          -- simpl. rewrite flat_map_app. simpl. rewrite app_nil_r.
             assert (Hsub : forall g, In g (flat_map (fun bs => gs (bs_batch bs)) (queue s)) -> In g (all_g pre)).
             { intros g Hg. apply in_flat_map in Hg. destruct Hg as [bs [A B]]. eapply all_g_in; eauto. }
             clear -Nd Iqnd Hsub. revert Iqnd Hsub. generalize (flat_map (fun bs => gs (bs_batch bs)) (queue s)).
             intros l Nl Hsub. induction l as [|a l IH]; simpl.
             ++ eapply NoDup_app_r; eauto.
             ++ inversion Nl; subst. constructor.
                ** intros Hi. apply in_app_or in Hi. destruct Hi as [Hi|Hi]; [auto|].
                   eapply NoDup_app_disjoint; [exact Nd | apply Hsub; left; reflexivity | exact Hi].
                ** apply IH; auto. intros g Hg; apply Hsub; right; auto.
          -- intros b Hb Ho. rewrite EH. simpl queue. apply in_app_or in Hb.
             assert (F0 : In (SEnq b0) [SEnq b0] -> filt b0 (Hd s) = []).
             { intros _. apply filt_none. intros g Hg Hg'. eapply NoDup_app_disjoint; [exact Nd | apply Ihd; exact Hg | exact Hg']. }
             destruct Hb as [Hb|[Hb|[]]].
             ++ destruct (Iord b Hb Ho) as [A B]. split; auto.
                intros bs Hbs Eb. apply in_app_or in Hbs. destruct Hbs as [Hbs|[Hbs|[]]]; [auto|].
                subst bs. simpl in *. subst b0. rewrite (F0 (or_introl eq_refl)). reflexivity.
             ++ inversion Hb; subst b. rewrite (F0 (or_introl eq_refl)).
                split; [|exists 0%nat; reflexivity].
                intros bs Hbs Eb. apply in_app_or in Hbs. destruct Hbs as [Hbs|[Hbs|[]]].
                ** (* an older queue entry with the same batch: the batch must be empty *)
                   destruct (gs b0) as [|g l] eqn:G; [rewrite firstn_nil; reflexivity|]. exfalso.
                   eapply NoDup_app_disjoint with (x := g); [exact Nd | | left; auto].
                   eapply all_g_in; [apply Iqin; exact Hbs|]. rewrite Eb, G. left; auto.
                ** subst bs. reflexivity.
    - (* SArrive *)
      unfold arrive. destruct (stopped s).
      + apply Same; auto; try (intros; discriminate). intros bs' Hb; exists bs'; auto.
      + apply Same; auto; try (intros; discriminate).
        * simpl. intros bs' Hb. apply in_map_iff in Hb. destruct Hb as [bs [E Hb]]. exists bs. split; auto.
          subst bs'. destruct (b_id (bs_batch bs) =? bid); auto.
          unfold arrive_bs. destruct (_ && _); auto.
        * simpl. rewrite flat_map_concat_map, map_map.
          rewrite flat_map_concat_map in Iqnd.
          erewrite map_ext; [exact Iqnd|]. intros bs. simpl.
          destruct (b_id (bs_batch bs) =? bid); auto. unfold arrive_bs. destruct (_ && _); auto.
    - (* SConsume *)
      unfold Processor.consume. destruct (stopped s).
      { apply Same; auto; try (intros; discriminate). intros bs' Hb; exists bs'; auto. }
      destruct (queue s) as [|bs rest] eqn:Q.
      { apply Same; auto; try (intros; discriminate).
        - intros bs' Hb. rewrite Q in Hb. destruct Hb.
        - rewrite Q. constructor. }
      destruct (Nat.leb (length (b_events (bs_batch bs))) (bs_processed bs)).
      { (* the batch is finished *)
        apply Same; try (intros; discriminate).
        - destruct (bs_request bs); reflexivity.
        - simpl. intros bs' Hb. exists bs'. split; [right; auto | auto].
        - simpl. simpl in Iqnd. eapply NoDup_app_r; eauto. }
      destruct (bs_chan bs) as [|pos ch] eqn:Ch.
      { apply Same; auto; try (intros; discriminate).
        - intros bs' Hb. rewrite Q in Hb. exists bs'; auto.
        - rewrite Q. exact Iqnd. }
      assert (Hbs : In (SEnq (bs_batch bs)) pre) by (apply Iqin; left; auto).
      destruct (b_ordered (bs_batch bs)) eqn:Ord.
      + (* ordered: the reassembly loop *)
        match goal with |- context [Processor.flush ?a ?b ?c ?d ?f ?s0 ?bs0 ?i] =>
          pose proof (flush_spec fc fp lim_n lim_s f s0 bs0 i eq_refl) as F;
          destruct (Processor.flush a b c d f s0 bs0 i) as [s1 bs1] end.
        simpl bs_processed in F. simpl bs_batch in F. simpl bs_results in F.
        destruct F as [Fr [Eb [_ [_ [P1 [_ [_ [new [L [Hn _]]]]]]]]]].
        set (p := bs_processed bs) in *. set (d := (bs_processed bs1 - p)%nat) in *.
        assert (EH : Hd (set_queue s1 (bs1 :: rest)) =
                     rev (firstn d (skipn p (gs (bs_batch bs)))) ++ Hd s).
        { unfold Hd. simpl. rewrite L, handles_app, Hn. unfold gs. rewrite skipn_map, firstn_map. reflexivity. }
        assert (Hsub : incl (rev (firstn d (skipn p (gs (bs_batch bs))))) (gs (bs_batch bs))).
        { intros g Hg. apply in_rev in Hg. apply firstn_In in Hg.
          rewrite <- (firstn_skipn p (gs (bs_batch bs))). apply in_or_app; right; exact Hg. }
        constructor.
        * intros g Hg. rewrite EH in Hg. apply in_app_or in Hg. destruct Hg as [Hg|Hg]; [|auto].
          apply Mono. eapply all_g_in; [exact Hbs | apply Hsub; exact Hg].
        * simpl. intros bs' [Hb|Hb]; [subst bs'; rewrite Eb; apply MonoS; auto | apply MonoS, Iqin; right; auto].
        * simpl. rewrite Eb. exact Iqnd.
        * intros b Hb Ho. apply in_app_or in Hb. destruct Hb as [Hb|[Hb|[]]]; [|discriminate].
          destruct (Iord b Hb Ho) as [A [k B]]. rewrite EH, filt_app.
          destruct (batch_eq_dec b (bs_batch bs)) as [Ebb|Nbb].
          -- subst b. rewrite filt_all by exact Hsub.
             assert (A0 := A bs (or_introl eq_refl) eq_refl). fold p in A0. rewrite A0.
             rewrite <- rev_app_distr, firstn_skipn_add.
             assert (Epd : (p + d = bs_processed bs1)%nat) by (unfold d; lia).
             split; [|exists (p + d)%nat; reflexivity].
             simpl. intros bs' [Hb'|Hb'] Eb'.
             ++ subst bs'. rewrite Epd. reflexivity.
             ++ assert (G : gs (bs_batch bs) = []).
                { eapply queue_same_batch with (bs2 := bs'); [exact (queue s) | exact Iqnd | exact Hb' | exact Eb']. }
                rewrite G, !firstn_nil. reflexivity.
          -- rewrite filt_none; [simpl|].
             2:{ intros g Hg Hg'. eapply all_g_disjoint with (steps := pre) (b := b) (b' := bs_batch bs); eauto.
                 eapply NoDup_app_l. rewrite <- Eall. exact Nd. }
             split; [|exists k; exact B].
             simpl. intros bs' [Hb'|Hb'] Eb'.
             ++ subst bs'. exfalso. apply Nbb. congruence.
             ++ apply A; [right; exact Hb' | exact Eb'].
      + (* unordered: process the event whose result arrived *)
        destruct (nth_error (b_events (bs_batch bs)) pos) as [ev|] eqn:En.
        2:{ apply Same; try (intros; discriminate); auto.
            simpl. intros bs' [Hb|Hb]; [subst bs'; exists bs; simpl; auto | exists bs'; simpl; auto]. }
        pose proof (process_log fc fp lim_n lim_s s ev) as PL.
        destruct (process s ev) as [s1 rq]. cbn [fst] in PL. destruct PL as [new [L [Hn _]]].
        assert (Hev : In (pg ev) (gs (bs_batch bs))).
        { unfold gs. apply in_map. eapply nth_error_In; eauto. }
        assert (EH : forall q, Hd (set_queue s1 q) = pg ev :: Hd s).
        { intros q. unfold Hd. simpl. rewrite L, handles_app, Hn. reflexivity. }
        constructor.
        * intros g Hg. rewrite EH in Hg. destruct Hg as [Hg|Hg]; [subst g; apply Mono; eapply all_g_in; eauto | auto].
        * simpl. intros bs' [Hb|Hb]; [subst bs'; simpl; apply MonoS; auto | apply MonoS, Iqin; right; auto].
        * simpl. exact Iqnd.
        * intros b Hb Ho. apply in_app_or in Hb. destruct Hb as [Hb|[Hb|[]]]; [|discriminate].
          destruct (Iord b Hb Ho) as [A [k B]]. rewrite EH.
          assert (Nbb : b <> bs_batch bs) by (intros E; subst b; congruence).
          assert (Fg : filt b (pg ev :: Hd s) = filt b (Hd s)).
          { unfold filt. simpl. assert (memN (pg ev) (gs b) = false); [|rewrite H; reflexivity].
            apply memN_false. intros Hg'. eapply all_g_disjoint with (steps := pre) (b := b) (b' := bs_batch bs); eauto.
            eapply NoDup_app_l. rewrite <- Eall. exact Nd. }
          rewrite Fg. split; [|exists k; exact B].
          simpl. intros bs' [Hb'|Hb'] Eb'.
          -- subst bs'. simpl in Eb'. exfalso. apply Nbb. congruence.
          -- apply A; [right; exact Hb' | exact Eb'].
    - (* SStop *)
      unfold Processor.stop. destruct (stopped s).
      { apply Same; auto; try (intros; discriminate). intros bs' Hb; exists bs'; auto. }
      set (s0 := match queue s with bs :: _ => if quitf s then s else pemit s (PAborted (b_id (bs_batch bs))) | [] => s end).
      assert (E0 : Hd s0 = Hd s /\ queue s0 = queue s).
      { unfold s0. destruct (queue s) eqn:Q; [auto|]. destruct (quitf s); [auto|]. split; [reflexivity | simpl; exact Q]. }
      destruct E0 as [E0 Q0].
      match goal with |- context [fold_left apply_out ?l ?sx] =>
        destruct (fold_apply_log l sx) as [new [L F]]; pose proof (frame_fold_apply l sx) as Fr end.
      destruct Fr as [_ [Fq _]].
      apply Same; try (intros; discriminate).
      + unfold Hd, pemit. cbn [plog]. rewrite L.
        change (handles ([PStopped] ++ new ++ plog s0) = handles (plog s)).
        rewrite !handles_app, (handles_inner _ F). simpl. exact E0.
      + unfold pemit; cbn [queue]; rewrite Fq; unfold set_buf; cbn [queue]; rewrite Q0.
        intros bs' Hb; exists bs'; auto.
      + unfold pemit; cbn [queue]; rewrite Fq; unfold set_buf; cbn [queue]; rewrite Q0. exact Iqnd.
    - (* SQuit *)
      unfold quit. destruct (stopped s); apply Same; auto; try (intros; discriminate); intros bs' Hb; exists bs'; auto.
    - (* SAbort: the head batch is dropped *)
      unfold abort. destruct (stopped s || negb (quitf s)).
      { apply Same; auto; try (intros; discriminate). intros bs' Hb; exists bs'; auto. }
      destruct (queue s) as [|bs rest] eqn:Q.
      { apply Same; auto; try (intros; discriminate).
        - intros bs' Hb. rewrite Q in Hb. destruct Hb.
        - rewrite Q. constructor. }
      apply Same; try (intros; discriminate).
      + reflexivity.
      + simpl. intros bs' Hb. exists bs'. split; [right; auto | auto].
      + simpl. simpl in Iqnd. eapply NoDup_app_r; eauto.
  Qed.

  Lemma OI_run : forall h0 steps, NoDup (all_g steps) -> OI steps (prun h0 steps).
  Proof.
    intros h0 steps. induction steps as [|x steps IH] using rev_ind; intros Nd.
    - constructor; simpl; try contradiction; try constructor.
    - rewrite prun_snoc. apply OI_step; auto. apply IH.
      unfold all_g in *. rewrite flat_map_app in Nd. eapply NoDup_app_l; eauto.
  Qed.

  Lemma handles_rev : forall l, handles (rev l) = rev (handles l).
  Proof.
    intros l. unfold handles. induction l as [|a l IH]; simpl; auto.
    rewrite flat_map_app, IH, rev_app_distr. simpl. rewrite app_nil_r.
    destruct a; simpl; reflexivity.
  Qed.
  Lemma filter_rev : forall {A} (p : A -> bool) l, filter p (rev l) = rev (filter p l).
  Proof.
    intros A p l; induction l as [|a l IH]; simpl; auto.
    rewrite filter_app, IH. simpl. destruct (p a); simpl; [reflexivity | rewrite app_nil_r; reflexivity].
  Qed.

  (* the history of a run: all callbacks, oldest first *)
  Definition phist (h0 : N) (steps : list pstep) : list pout := rev (plog (prun h0 steps)).

  (* Whatever the interleaving and whatever the order in which the check results of the batch
     arrive, the events of an ordered batch enter `process` in batch order: the entries of the
     history that handle events of the batch are exactly the first k events of the batch. *)
  Theorem ordered_in_order : forall h0 steps b,
    NoDup (all_g steps) -> In (SEnq b) steps -> b_ordered b = true ->
    exists k, handles_of (phist h0 steps) b = firstn k (gs b).
  Proof.
    intros h0 steps b Nd Hb Ho. destruct (OI_run h0 steps Nd) as [_ _ _ Iord].
    destruct (Iord b Hb Ho) as [_ [k E]]. exists k.
    unfold handles_of, phist. rewrite handles_rev.
    change (filter (fun g => memN g (map pg (b_events b))) (rev (handles (plog (prun h0 steps)))))
      with (filt b (rev (Hd (prun h0 steps)))).
    unfold filt in *. rewrite filter_rev, E, rev_involutive. reflexivity.
  Qed.
End Proc.
