(* C23 backend glue: bytesPrefixRange of leveldb.go / pebble.go selects exactly the keys with
   the prefix that are >= prefix ++ start (nil and empty prefixes, all-0xff prefixes: no upper
   bound); goleveldb's Next-from-fresh loop and pebble.go's First-then-Next adapter enumerate
   the whole range in order. *)
From Coq Require Import NArith List Lia Bool Arith.
From LV Require Import lib.Bytes lib.BytesFacts lib.Lex lib.SortedMap spec.KvSpec spec.KvOps
  model.PrefixRange.
Import ListNotations.
Local Open Scope N_scope.

(* the limit loop of util.BytesPrefix = Lex.prefix_succ *)
Lemma bp_limit_rev_snoc r c :
  bp_limit_rev (r ++ [c]) =
  match bp_limit_rev r with
  | Some u => Some (c :: u)
  | None => if c <? 255 then Some [c + 1] else None
  end.
Proof.
  induction r as [|x r IH]; cbn.
  - destruct (c <? 255); reflexivity.
  - destruct (x <? 255).
    + rewrite rev_app_distr. reflexivity.
    + exact IH.
Qed.

Lemma bytes_prefix_limit_succ p : bytes_prefix_limit p = prefix_succ p.
Proof.
  unfold bytes_prefix_limit. induction p as [|c p IH]; [reflexivity|].
  cbn [rev prefix_succ]. rewrite bp_limit_rev_snoc, IH. reflexivity.
Qed.

(* [lo = p ++ s, hi = succ p) is "has prefix p and >= p ++ s" *)
Lemma range_is_prefix_and_start p s k : wf_bytes p = true -> wf_bytes k = true ->
  lex_leb (p ++ s) k && (match prefix_succ p with Some h => lex_ltb k h | None => true end)
  = in_iter p s k.
Proof.
  intros Wp Wk. unfold in_iter. rewrite andb_comm.
  destruct (lex_leb (p ++ s) k) eqn:L; [|now rewrite !andb_false_r].
  rewrite !andb_true_r.
  assert (Lp : lex_le p k).
  { apply lex_leb_le in L. eapply lex_le_trans; [apply lex_le_app|exact L]. }
  pose proof (prefix_succ_spec p k Wp Wk) as H.
  destruct (prefix_succ p) as [u|].
  - destruct (lex_ltb k u) eqn:E.
    + symmetry. apply H. split; auto. now apply lex_ltb_lt.
    + destruct (has_prefix p k) eqn:HP; auto.
      assert (HP' : true = true) by reflexivity. apply H in HP' as [_ Lt].
      apply lex_ltb_lt in Lt. congruence.
  - symmetry. now apply H.
Qed.

Lemma lo_bound_nil_or (x : key) k :
  match go_append None x with Some l => lex_leb l k | None => true end = lex_leb x k.
Proof. destruct x; cbn [go_append]; auto. symmetry. apply lex_leb_nil. Qed.

Lemma ldb_range_spec P S k : wf_bytes (ob P) = true -> wf_bytes k = true ->
  in_bounds (fst (ldb_range P S)) (snd (ldb_range P S)) k = in_iter (ob P) (ob S) k.
Proof.
  intros Wp Wk. unfold ldb_range, in_bounds. cbn [fst snd].
  rewrite bytes_prefix_limit_succ.
  rewrite <- (range_is_prefix_and_start (ob P) (ob S) k Wp Wk). f_equal.
  destruct (ob P) as [|c p]; cbn [go_append app].
  - apply lo_bound_nil_or.
  - reflexivity.
Qed.

Lemma pbl_range_spec P S k : wf_bytes (ob P) = true -> wf_bytes k = true ->
  match pbl_range P S with
  | Some r => in_bounds (fst r) (snd r) k
  | None => in_bounds None None k
  end = in_iter (ob P) (ob S) k.
Proof.
  intros Wp Wk. unfold pbl_range.
  destruct P as [p|].
  - cbn [fst snd go_append ob app]. unfold in_bounds. rewrite bytes_prefix_limit_succ.
    apply range_is_prefix_and_start; auto.
  - destruct S as [s|]; cbn [fst snd go_append ob app]; unfold in_iter, in_bounds; cbn [has_prefix app andb].
    + rewrite ?andb_true_r; reflexivity.
    + symmetry. apply lex_leb_nil.
Qed.

(* the repaired glue leaves every array of the caller's memory alone and returns prefix ++ start;
   the pinned tree overwrote the bytes behind the prefix *)
Lemma nth_set_nth_other_m {A} (x d : A) : forall j i l, j <> i -> nth i (set_nth j x d l) d = nth i l d.
Proof.
  induction j as [|j IH]; intros [|i] [|y l] H; cbn; auto; try congruence.
  - destruct i; reflexivity.
  - rewrite IH by congruence. destruct i; reflexivity.
Qed.
Lemma nth_set_nth_same_m {A} (x d : A) : forall i l, nth i (set_nth i x d l) d = x.
Proof. induction i as [|i IH]; intros [|y l]; cbn; auto. Qed.

Theorem range_keeps_caller_memory m prefix start :
  (g_arr prefix < length m)%nat -> (g_len prefix <= length (nth (g_arr prefix) m []))%nat ->
  let '(m', r) := range_start m prefix start in
  (forall i, (i < length m)%nat -> nth i m' [] = nth i m []) /\
  slice_bytes m' r = slice_bytes m prefix ++ start.
Proof.
  intros Hi Hl. unfold range_start, go_copy_mem, go_append_mem. cbn [g_arr g_len].
  rewrite app_nth2 by lia. rewrite Nat.sub_diag. cbn [nth].
  assert (Lc : length (slice_bytes m prefix) = g_len prefix).
  { unfold slice_bytes. rewrite firstn_length. lia. }
  destruct (Nat.leb (g_len prefix + length start) (length (slice_bytes m prefix))) eqn:E.
  - (* the copy has exact capacity: only an empty start fits *)
    apply Nat.leb_le in E. rewrite Lc in E.
    assert (start = []) by (destruct start; cbn in E; [auto|lia]). subst start.
    split.
    + intros i Li. rewrite nth_set_nth_other_m by lia. now rewrite app_nth1 by lia.
    + unfold slice_bytes at 1. cbn [g_arr g_len]. rewrite nth_set_nth_same_m. cbn [app length].
      rewrite Nat.add_0_r, !app_nil_r.
      assert (F : firstn (g_len prefix) (slice_bytes m prefix) = slice_bytes m prefix)
        by (rewrite <- Lc; apply firstn_all).
      assert (K : skipn (g_len prefix) (slice_bytes m prefix) = [])
        by (rewrite <- Lc; apply skipn_all).
      rewrite F, K, app_nil_r. exact F.
  - split.
    + intros i Li. rewrite app_nth1 by (rewrite app_length; cbn; lia). now rewrite app_nth1 by lia.
    + unfold slice_bytes at 1. cbn [g_arr g_len].
      rewrite app_nth2 by (rewrite app_length; cbn; lia).
      rewrite app_length. cbn [length]. replace (length m + 1 - (length m + 1))%nat with O by lia. cbn [nth].
      assert (F : firstn (g_len prefix) (slice_bytes m prefix) = slice_bytes m prefix)
        by (rewrite <- Lc; apply firstn_all).
      rewrite F. rewrite <- Lc, <- app_length. apply firstn_all.
Qed.

Example range_old_refuted :   (* NewIterator(buf[:2], "q") on buf = "abXYZ" left "abqYZ" *)
  let m := [[97; 98; 88; 89; 90]] in let prefix := {| g_arr := 0; g_len := 2 |} in
  nth 0 (fst (range_start_old m prefix [113])) [] = [97; 98; 113; 89; 90] /\
  nth 0 (fst (range_start m prefix [113])) [] = [97; 98; 88; 89; 90] /\
  slice_bytes (fst (range_start m prefix [113])) (snd (range_start m prefix [113])) = [97; 98; 113].
Proof. repeat split. Qed.

(* ---------- iterator protocols ---------- *)

Lemma skipn_nth_error {A} (l : list A) i :
  skipn i l = match nth_error l i with Some x => x :: skipn (S i) l | None => [] end.
Proof.
  revert i. induction l as [|a l IH]; intros [|i]; cbn; auto. apply IH.
Qed.

Lemma ldb_drain_pos items fuel : forall i,
  ldb_drain fuel {| c_items := items; c_pos := Some i |} = firstn fuel (skipn (S i) items).
Proof.
  induction fuel as [|f IH]; intros i; [reflexivity|].
  cbn [ldb_drain cur_next c_pos c_items]. unfold cur_kv. cbn [c_pos c_items].
  rewrite (skipn_nth_error items (S i)).
  destruct (nth_error items (S i)); [|reflexivity].
  cbn [firstn]. f_equal. apply IH.
Qed.

Lemma ldb_drain_all items : ldb_drain (S (length items)) (cur_new items) = items.
Proof.
  cbn [ldb_drain]. unfold cur_new, cur_next, cur_first, cur_kv. cbn [c_pos c_items].
  destruct items as [|kv items]; [reflexivity|]. cbn [nth_error].
  f_equal. rewrite ldb_drain_pos. cbn [skipn]. apply firstn_all2. cbn. lia.
Qed.

Lemma pbl_drain_pos items fuel : forall i,
  pbl_drain fuel (true, {| c_items := items; c_pos := Some i |}) = firstn fuel (skipn (S i) items).
Proof.
  induction fuel as [|f IH]; intros i; [reflexivity|].
  cbn [pbl_drain pit_next fst snd cur_next c_pos c_items]. unfold cur_kv. cbn [c_pos c_items].
  rewrite (skipn_nth_error items (S i)).
  destruct (nth_error items (S i)); [|reflexivity].
  cbn [firstn]. f_equal. apply IH.
Qed.

Lemma pbl_drain_all items : pbl_drain (S (length items)) (false, cur_new items) = items.
Proof.
  cbn [pbl_drain pit_next fst snd]. unfold cur_new, cur_first, cur_kv. cbn [c_pos c_items].
  destruct items as [|kv items]; [reflexivity|]. cbn [nth_error].
  f_equal. rewrite pbl_drain_pos. cbn [skipn]. apply firstn_all2. cbn. lia.
Qed.

(* a pebble iterator whose first call is Next (the adapter removed) yields nothing in this model:
   the adapter is what makes the enumeration complete *)
Example pbl_without_adapter :
  pbl_drain 3 (true, cur_new [([1], [2]); ([3], [4])]) = [].
Proof. reflexivity. Qed.

Definition keys_wf (m : kvmap) : Prop := Forall (fun kv => wf_bytes (fst kv) = true) m.

Lemma sm_filter_ext_in {V} f g (m : smap V) :
  Forall (fun kv => f (fst kv) = g (fst kv)) m -> sm_filter f m = sm_filter g m.
Proof.
  unfold sm_filter. induction m as [|kv m IH]; cbn; intros H; auto.
  inversion H; subst. rewrite H2. destruct (g (fst kv)); rewrite IH; auto.
Qed.

Theorem eng_iter_spec e (m : kvmap) P S : keys_wf m -> wf_bytes (ob P) = true ->
  eng_iter e m P S = kv_iterate m (ob P) (ob S).
Proof.
  intros Wm Wp. unfold eng_iter, kv_iterate. destruct e.
  - rewrite ldb_drain_all. unfold eng_range. apply sm_filter_ext_in.
    unfold keys_wf in Wm. rewrite Forall_forall in *. intros kv H.
    apply ldb_range_spec; auto.
  - rewrite pbl_drain_all.
    assert (E : match pbl_range P S with
                | Some r => eng_range m (fst r) (snd r)
                | None => eng_range m None None
                end = sm_filter (fun k => match pbl_range P S with
                                          | Some r => in_bounds (fst r) (snd r) k
                                          | None => in_bounds None None k end) m).
    { destruct (pbl_range P S); reflexivity. }
    rewrite E. apply sm_filter_ext_in.
    unfold keys_wf in Wm. rewrite Forall_forall in *. intros kv H.
    apply pbl_range_spec; auto.
Qed.
