(* Non-vacuity of link_epochs: two epochs of the 48-event DAG (validators in non-canonical order, a
   forker), sealing at frame 1, validators unchanged by the sealing policy (polr = 0) or re-weighted
   (polr = 1 is exercised by the differential checks); every epoch seals, the events after the sealing
   event are not fed. *)
From Coq Require Import NArith List Bool Lia.
From LV Require Import model.VecIndex model.Abft model.AbftRun spec.ElectionSpec
  proofs.BftGraph proofs.BftRun proofs.BftMain proofs.BftAccept proofs.BftProps
  proofs.LinkVals proofs.LinkPerm proofs.LinkDefs proofs.LinkFresh proofs.LinkRun proofs.LinkRaw
  proofs.LinkExample proofs.LinkSeal proofs.LinkEpochs.
Import ListNotations.
Local Open Scope N_scope.

Definition me_D2 : list fev :=
  map (fun e => mkev (eid (fe e) + 3000) (ecr (fe e)) (eseq (fe e)) (ffr e) (map (N.add 3000) (epar (fe e)))) ex_D.
Definition me_Ds : list (list fev) := [ex3_D; me_D2].

Example me_next : next_vals 0 ex_vals 1 = ex_vals.
Proof. reflexivity. Qed.
Example me_valid2 : valid_run ex_vals me_D2.
Proof. split; [apply codes_ok_dec; vm_compute; reflexivity | unfold few_forkers; vm_compute; reflexivity]. Qed.
Example me_ok : epochs_ok 1 0 ex_vals 1 me_Ds.
Proof.
  cbn [epochs_ok me_Ds]. split; [apply ex3_side|]. split; [apply ex3_side|]. split; [exact ex3_valid|]. intros _.
  rewrite me_next. split; [apply ex3_side|]. split; [apply ex3_side|]. split; [exact me_valid2|]. intros _. exact I.
Qed.
Example me_fresh : forall D e, In D me_Ds -> In e D -> id_fresh 200 (eid (fe e)).
Proof.
  intros D e HD He. apply fresh_b_ok. revert e He. apply Forall_forall. revert D HD. apply Forall_forall.
  vm_compute. repeat constructor.
Qed.
(* the reference's verdict: both epochs seal with block (1, first event); 23 of the 48 events of each epoch are fed, 25 are not *)
Example me_reference :
  map (fun r => (snd (fst r), snd r, length (filter (fun c => fst c =? 7) (fst (fst r))))) (reference_epochs 1 0 ex_vals 1 me_Ds)
  = [([(1, 1000, [])], true, 25%nat); ([(1, 3000, [])], true, 25%nat)].
Proof. vm_compute. reflexivity. Qed.
Example me_refines :
  model_epochs 200 (fun _ => 0) (mk_policy 1 0 ex_vals 1 2) 0 (start 1 ex_vals) ex_vals 1 me_Ds = reference_epochs 1 0 ex_vals 1 me_Ds.
Proof. apply (link_epochs 200 (fun _ => 0) 1 0 ex_vals me_Ds 200 me_ok me_fresh); vm_compute; [discriminate | reflexivity]. Qed.
Example me_refines_by_evaluation :
  model_epochs 200 (fun _ => 0) (mk_policy 1 0 ex_vals 1 2) 0 (start 1 ex_vals) ex_vals 1 me_Ds = reference_epochs 1 0 ex_vals 1 me_Ds.
Proof. vm_compute. reflexivity. Qed.

(* ---------- the same event sets in another order (for C01 across epochs), and Reset (for C09) ---------- *)
From LV Require Import proofs.LinkEpoch proofs.LinkEpochsCor.
Definition me_shift (k : N) (D : list fev) : list fev :=
  map (fun e => mkev (eid (fe e) + k) (ecr (fe e)) (eseq (fe e)) (ffr e) (map (N.add k) (epar (fe e)))) D.
Definition me_Ds' : list (list fev) := [me_shift 1000 ex_D'; me_shift 3000 ex_D'].
Example me_Ds_shift : me_Ds = [me_shift 1000 ex_D; me_shift 3000 ex_D].
Proof. reflexivity. Qed.
Example me_valid' : valid_run ex_vals (me_shift 1000 ex_D') /\ valid_run ex_vals (me_shift 3000 ex_D').
Proof.
  split; (split; [apply codes_ok_dec; vm_compute; reflexivity | unfold few_forkers; vm_compute; reflexivity]).
Qed.
Example me_ok' : epochs_ok 1 0 ex_vals 1 me_Ds'.
Proof.
  cbn [epochs_ok me_Ds']. split; [apply ex3_side|]. split; [apply ex3_side|]. split; [apply me_valid'|]. intros _.
  rewrite me_next. split; [apply ex3_side|]. split; [apply ex3_side|]. split; [apply me_valid'|]. intros _. exact I.
Qed.
Example me_fresh' : forall D e, In D me_Ds' -> In e D -> id_fresh 200 (eid (fe e)).
Proof.
  intros D e HD He. apply fresh_b_ok. revert e He. apply Forall_forall. revert D HD. apply Forall_forall.
  vm_compute. repeat constructor.
Qed.
Example me_same_sets : epochs_valid 0 ex_vals 1 me_Ds me_Ds'.
Proof.
  rewrite me_Ds_shift. cbn [epochs_valid me_Ds'].
  split; [apply codes_ok_dec; vm_compute; reflexivity|]. split; [apply codes_ok_dec; vm_compute; reflexivity|].
  split; [apply (incl_dec fev_eqb fev_eqb_eq); vm_compute; reflexivity|].
  split; [apply (incl_dec fev_eqb fev_eqb_eq); vm_compute; reflexivity|].
  split; [unfold few_forkers; vm_compute; reflexivity|]. rewrite me_next.
  split; [apply codes_ok_dec; vm_compute; reflexivity|]. split; [apply codes_ok_dec; vm_compute; reflexivity|].
  split; [apply (incl_dec fev_eqb fev_eqb_eq); vm_compute; reflexivity|].
  split; [apply (incl_dec fev_eqb fev_eqb_eq); vm_compute; reflexivity|].
  split; [unfold few_forkers; vm_compute; reflexivity | exact I].
Qed.
Example me_orders_differ : me_Ds <> me_Ds'.
Proof. vm_compute. discriminate. Qed.
Example me_agreement :
  map epoch_blocks (model_epochs 200 (fun _ => 0) (mk_policy 1 0 ex_vals 1 2) 0 (start 1 ex_vals) ex_vals 1 me_Ds) =
  map epoch_blocks (model_epochs 200 (fun _ => 0) (mk_policy 1 0 ex_vals 1 2) 0 (start 1 ex_vals) ex_vals 1 me_Ds').
Proof.
  apply (link_epochs_same_sets 200 (fun _ => 0) 1 0 ex_vals me_Ds me_Ds' 200 me_same_sets me_ok me_ok' me_fresh me_fresh');
    vm_compute; try discriminate; reflexivity.
Qed.
(* Reset of a used instance to epoch 1: the later run is the reference's again *)
Example me_reset_pol : pol_ok (mk_policy 1 0 ex_vals 1 2) 1 0 ex_vals 1 (length me_Ds).
Proof. apply (mk_policy_ok 1 0 2 [] ex_vals 1). intros x []. Qed.
