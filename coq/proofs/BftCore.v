(* BFT core of C01 / C10 over the rules of spec/ElectionSpec.v (abstract in the event type and
   in the forkless-cause relation):
     fork_exclusion, visible_unique, core_count, decision_forces_round, all_vote_then_next,
     decision_unique (no two roots decide differently for one subject).
   Hypotheses of the section (discharged from DAG well-formedness + the frame rule in
   proofs/BftGraph.v): fc_char, leb_trans, sf_mono, honest_chain, roots_fork, roots_quorum. *)
From Coq Require Import List Arith NArith Bool Lia ZArith.
From Coq Require Import ZifyBool ZifyNat ZifyN.
From LV Require Import model.VecIndex lib.WSumBft spec.ElectionSpec.
Import ListNotations.
Open Scope N_scope.

Section Core.
Variable X : Type.
Variables (xid : X -> N) (cr : X -> nat) (fr spf : X -> N).
Variable fc : X -> X -> bool.
Variables (ws : list N) (q : N).
Variable evs : list X.
Notation nv := (length ws).
Notation W := (totalW ws).
Notation roots := (roots_at X fr spf evs).
Notation obsv := (obs X fr spf fc evs).
Notation voters := (by_cr X cr).

Variable leb : X -> X -> bool.        (* ancestor-or-self *)
Variable sf : X -> nat -> bool.       (* a sees a fork of validator v *)
Definition between (b a : X) (v : nat) : bool :=
  existsb (fun x => Nat.eqb (cr x) v && leb b x && leb x a) evs.

Hypothesis q_gt : 3 * q > 2 * W.
Hypothesis xid_inj : forall x y, In x evs -> In y evs -> xid x = xid y -> x = y.
Hypothesis fc_char : forall a b, In a evs -> In b evs -> fc a b = true ->
  sf a (cr b) = false /\ q <= wsP ws (fun v => negb (sf a v) && between b a v).
Hypothesis leb_trans : forall x y z, In x evs -> In y evs -> In z evs ->
  leb x y = true -> leb y z = true -> leb x z = true.
Hypothesis sf_mono : forall a a' v, In a evs -> In a' evs -> leb a a' = true -> sf a v = true -> sf a' v = true.

Variable byz : nat -> bool.
Hypothesis byz_small : 3 * wsP ws byz < W.
Hypothesis honest_chain : forall v x y, (v < nv)%nat -> byz v = false -> In x evs -> In y evs ->
  cr x = v -> cr y = v -> leb x y = true \/ leb y x = true.

(* whoever sees both sees a fork of their creator *)
Definition forkpair (r1 r2 : X) : Prop :=
  cr r1 = cr r2 /\ forall a, In a evs -> leb r1 a = true -> leb r2 a = true -> sf a (cr r1) = true.

Lemma fork_exclusion r1 r2 x y : In x evs -> In y evs -> In r1 evs -> In r2 evs ->
  forkpair r1 r2 -> fc x r1 = true -> fc y r2 = true -> False.
Proof.
  intros Ix Iy I1 I2 [Hc Hfp] Hx Hy.
  destruct (fc_char _ _ Ix I1 Hx) as [Hnx Hqx]. destruct (fc_char _ _ Iy I2 Hy) as [Hny Hqy].
  pose proof (quorum_intersection ws q _ _ q_gt Hqx Hqy) as Hint.
  destruct (exists_outside ws byz _ byz_small Hint) as [v [Hv [HP Hb]]].
  apply andb_prop in HP as [H1 H2]. apply andb_prop in H1 as [_ B1]. apply andb_prop in H2 as [_ B2].
  unfold between in B1, B2.
  apply existsb_exists in B1 as [x1 [Hx1 B1]]. apply existsb_exists in B2 as [x2 [Hx2 B2]].
  apply andb_prop in B1 as [B1 L1x]. apply andb_prop in B1 as [C1 L1r].
  apply andb_prop in B2 as [B2 L2y]. apply andb_prop in B2 as [C2 L2r].
  apply Nat.eqb_eq in C1, C2.
  destruct (honest_chain v x1 x2 Hv Hb Hx1 Hx2 C1 C2) as [Hle|Hle].
  - assert (Hs : sf y (cr r1) = true).
    { apply (sf_mono x2); [exact Hx2|exact Iy|exact L2y|]. apply Hfp; [exact Hx2|eapply (leb_trans r1 x1 x2); eauto | exact L2r]. }
    rewrite Hc in Hs. rewrite Hs in Hny. discriminate.
  - assert (Hs : sf x (cr r1) = true).
    { apply (sf_mono x1); [exact Hx1|exact Ix|exact L1x|]. apply Hfp; [exact Hx1|exact L1r | eapply (leb_trans r2 x2 x1); eauto]. }
    rewrite Hs in Hnx. discriminate.
Qed.

(* ---------------- roots ---------------- *)
Hypothesis roots_fork : forall f r1 r2, In r1 (roots f) -> In r2 (roots f) -> xid r1 <> xid r2 ->
  cr r1 = cr r2 -> forkpair r1 r2.
Hypothesis roots_quorum : forall f r, 1 <= f -> In r (roots (f + 1)) ->
  quorum_on X cr fr spf fc ws q evs r f = true.

Lemma roots_in f r : In r (roots f) -> In r evs.
Proof using Type. unfold roots_at. intros H. apply filter_In in H. destruct H as [H _]. exact H. Qed.

Lemma visible_unique f r1 r2 x y : In x evs -> In y evs -> In r1 (roots f) -> In r2 (roots f) ->
  cr r1 = cr r2 -> fc x r1 = true -> fc y r2 = true -> r1 = r2.
Proof.
  intros Ix Iy H1 H2 Hc Hx Hy. destruct (N.eq_dec (xid r1) (xid r2)) as [E|Hne].
  - apply xid_inj; eauto using roots_in.
  - exfalso. eapply (fork_exclusion r1 r2 x y); eauto using roots_in.
Qed.

Lemma voters_obs_elim r f P u : voters (obsv r f) P u = true ->
  exists r', In r' (roots f) /\ fc r r' = true /\ cr r' = u /\ P r' = true.
Proof using Type.
  unfold by_cr, obs. intros H. apply existsb_exists in H as [r' [Hin H]].
  apply filter_In in Hin as [Hin Hfc]. apply andb_prop in H as [Hc HP]. apply Nat.eqb_eq in Hc. eauto.
Qed.
Lemma voters_obs_intro r f (P : X -> bool) u r' : In r' (roots f) -> fc r r' = true -> cr r' = u -> P r' = true ->
  voters (obsv r f) P u = true.
Proof using Type.
  intros. unfold by_cr, obs. apply existsb_exists. exists r'. split.
  - apply filter_In; auto.
  - apply andb_true_intro; split; auto. apply Nat.eqb_eq; auto.
Qed.

Definition sees_quorum (r : X) (f : N) : Prop := q <= wsP ws (voters (obsv r f) (fun _ => true)).
Lemma roots_sees_quorum f r : 1 <= f -> In r (roots (f + 1)) -> sees_quorum r f.
Proof. intros Hf H. apply roots_quorum in H; [|exact Hf]. unfold quorum_on in H. apply N.leb_le in H. exact H. Qed.

(* the counting step, generic in the two (exclusive) vote predicates *)
Lemma core_count f r r' (P Pn : X -> bool) : In r evs -> In r' evs ->
  (forall x, P x = true -> Pn x = true -> False) ->
  q <= wsP ws (voters (obsv r f) P) -> sees_quorum r' f ->
  2 * q <= W + wsP ws (voters (obsv r' f) P) /\ wsP ws (voters (obsv r' f) Pn) + q <= W.
Proof.
  intros Ir Ir' Hex HSb HQ. unfold sees_quorum in HQ. split.
  - pose proof (wsP_incl_excl ws (voters (obsv r f) P) (voters (obsv r' f) (fun _ => true))) as IE.
    pose proof (wsP_le_total ws (fun v => voters (obsv r f) P v || voters (obsv r' f) (fun _ => true) v)) as LT.
    assert (Hm : wsP ws (fun v => voters (obsv r f) P v && voters (obsv r' f) (fun _ => true) v)
                 <= wsP ws (voters (obsv r' f) P)).
    { apply wsP_mono. intros u _ Hu. apply andb_prop in Hu as [Hu1 Hu2].
      apply voters_obs_elim in Hu1 as [r1 [I1 [F1 [C1 P1]]]].
      apply voters_obs_elim in Hu2 as [r2 [I2 [F2 [C2 _]]]].
      assert (r1 = r2) by (eapply (visible_unique f r1 r2 r r'); eauto; congruence). subst r2.
      eapply voters_obs_intro; eauto. }
    lia.
  - pose proof (wsP_incl_excl ws (voters (obsv r f) P) (voters (obsv r' f) Pn)) as IE.
    pose proof (wsP_le_total ws (fun v => voters (obsv r f) P v || voters (obsv r' f) Pn v)) as LT.
    assert (Hz : wsP ws (fun v => voters (obsv r f) P v && voters (obsv r' f) Pn v) = 0).
    { apply wsP_zero. intros u _.
      destruct (voters (obsv r f) P u) eqn:E1; [|reflexivity].
      destruct (voters (obsv r' f) Pn u) eqn:E2; [|reflexivity].
      apply voters_obs_elim in E1 as [r1 [I1 [F1 [C1 P1]]]]. apply voters_obs_elim in E2 as [r2 [I2 [F2 [C2 P2]]]].
      assert (r1 = r2) by (eapply (visible_unique f r1 r2 r r'); eauto; congruence). subst r2.
      exfalso; eauto. }
    lia.
Qed.

(* ---------------- votes on frame f0 ---------------- *)
Variable f0 : N.

(* vote of a root r of frame f0+k for subject v, by recursion on the round k (the rules of
   property C10; spec/ElectionSpec.v tabulates exactly this, see proofs/BftElection.v) *)
Fixpoint vote (k : nat) (r : X) (v : nat) : bool :=
  match k with
  | O => false
  | S k' =>
    match k' with
    | O => voters (obsv r f0) (fun _ => true) v
    | S _ => let o := obsv r (f0 + N.of_nat k') in
             wsP ws (voters o (fun r' => negb (vote k' r' v))) <=? wsP ws (voters o (fun r' => vote k' r' v))
    end
  end.

Definition yesV k r v := wsP ws (voters (obsv r (f0 + N.of_nat k)) (fun r' => vote k r' v)).
Definition noV k r v := wsP ws (voters (obsv r (f0 + N.of_nat k)) (fun r' => negb (vote k r' v))).
(* root r of frame f0+k+1 (round k+1) decides b for subject v *)
Definition decides (k : nat) (r : X) (v : nat) (b : bool) : Prop :=
  (1 <= k)%nat /\ In r (roots (f0 + N.of_nat k + 1)) /\ q <= (if b then yesV k r v else noV k r v).

Lemma vote_S k r v : (1 <= k)%nat -> vote (S k) r v = (noV k r v <=? yesV k r v).
Proof using Type. destruct k; [intros H; inversion H|]. intros _. reflexivity. Qed.

(* a decision at round k+1 forces every vote of round k+1 *)
Lemma decision_forces_round k r v b r' :
  decides k r v b -> In r' (roots (f0 + N.of_nat k + 1)) -> vote (S k) r' v = b.
Proof.
  intros [Hk [Hr Hd]] Hr'. rewrite vote_S by assumption.
  assert (Hf1 : 1 <= f0 + N.of_nat k) by lia.
  pose proof (roots_sees_quorum _ _ Hf1 Hr') as HQ.
  unfold yesV, noV in *. destruct b.
  - destruct (core_count (f0 + N.of_nat k) r r' (fun r' => vote k r' v) (fun r' => negb (vote k r' v))) as [A B];
      eauto using roots_in.
    { intros x H1 H2. rewrite H1 in H2. discriminate. }
    apply N.leb_le. lia.
  - destruct (core_count (f0 + N.of_nat k) r r' (fun r' => negb (vote k r' v)) (fun r' => vote k r' v)) as [A B];
      eauto using roots_in.
    { intros x H1 H2. rewrite H2 in H1. discriminate. }
    apply N.leb_gt. lia.
Qed.

(* unanimity propagates: every root of the next round votes the same and decides it *)
Lemma all_vote_then_next k v b : (1 <= k)%nat ->
  (forall r, In r (roots (f0 + N.of_nat k)) -> vote k r v = b) ->
  forall r', In r' (roots (f0 + N.of_nat k + 1)) ->
    vote (S k) r' v = b /\ q <= (if b then yesV k r' v else noV k r' v)
    /\ (if b then noV k r' v else yesV k r' v) = 0.
Proof.
  intros Hk Hall r' Hr'. rewrite vote_S by assumption.
  assert (Hf1 : 1 <= f0 + N.of_nat k) by lia.
  pose proof (roots_sees_quorum _ _ Hf1 Hr') as HQ. unfold sees_quorum in HQ.
  unfold yesV, noV.
  set (o := obsv r' (f0 + N.of_nat k)) in *.
  assert (Hb : wsP ws (voters o (fun _ => true))
               <= wsP ws (voters o (fun x => if b then vote k x v else negb (vote k x v)))).
  { apply wsP_mono. intros u _ Hu. apply voters_obs_elim in Hu as [r2 [I2 [F2 [C2 _]]]].
    eapply voters_obs_intro; eauto. rewrite (Hall _ I2). destruct b; reflexivity. }
  assert (Hn : wsP ws (voters o (fun x => if b then negb (vote k x v) else vote k x v)) = 0).
  { apply wsP_zero. intros u _. destruct (voters o _ u) eqn:E; [|reflexivity].
    apply voters_obs_elim in E as [r1 [I1 [F1 [C1 P1]]]].
    rewrite (Hall _ I1) in P1. destruct b; discriminate. }
  assert (Hq0 : 0 < q) by lia.
  destruct b; cbn beta iota in *.
  - split; [apply N.leb_le; lia|]. split; [lia|exact Hn].
  - split; [apply N.leb_gt; lia|]. split; [lia|exact Hn].
Qed.

Lemma all_vote_from k v b : (1 <= k)%nat ->
  (forall r, In r (roots (f0 + N.of_nat k)) -> vote k r v = b) ->
  forall j r, In r (roots (f0 + N.of_nat (k + j))) -> vote (k + j) r v = b.
Proof.
  intros Hk Hall j. induction j as [|j IH]; intros r Hr.
  - rewrite Nat.add_0_r in *. auto.
  - replace (k + S j)%nat with (S (k + j)) in * by lia.
    assert (Hr' : In r (roots (f0 + N.of_nat (k + j) + 1))).
    { replace (f0 + N.of_nat (k + j) + 1) with (f0 + N.of_nat (S (k + j))) by lia. exact Hr. }
    assert (Hkj : (1 <= k + j)%nat) by lia.
    destruct (all_vote_then_next (k + j) v b Hkj IH r Hr') as [A _]. exact A.
Qed.

(* (ii) decision uniqueness: no two roots decide differently for one subject *)
Theorem decision_unique k1 r1 k2 r2 v b1 b2 :
  decides k1 r1 v b1 -> decides k2 r2 v b2 -> b1 = b2.
Proof.
  assert (Hle : forall k1 r1 k2 r2 b1 b2, (k1 <= k2)%nat ->
            decides k1 r1 v b1 -> decides k2 r2 v b2 -> b1 = b2).
  { clear k1 r1 k2 r2 b1 b2. intros k1 r1 k2 r2 b1 b2 Hk D1 D2.
    pose proof D1 as [Hk1 [Hr1 Hq1]]. pose proof D2 as [Hk2 [Hr2 Hq2]].
    assert (Hall : forall r, In r (roots (f0 + N.of_nat (S k1))) -> vote (S k1) r v = b1).
    { intros r Hr. eapply decision_forces_round; eauto.
      replace (f0 + N.of_nat k1 + 1) with (f0 + N.of_nat (S k1)) by lia. exact Hr. }
    destruct (Nat.eq_dec k1 k2) as [E|Hne].
    - subst k2. (* same round: both sides would hold a quorum *)
      assert (Hf1 : 1 <= f0 + N.of_nat k1) by lia.
      pose proof (roots_sees_quorum _ _ Hf1 Hr2) as HQ2.
      destruct b1, b2; try reflexivity; exfalso; unfold yesV, noV in *.
      + destruct (core_count (f0 + N.of_nat k1) r1 r2 (fun r' => vote k1 r' v) (fun r' => negb (vote k1 r' v))) as [A B];
          eauto using roots_in.
        { intros x H1 H2. rewrite H1 in H2. discriminate. }
        pose proof (wsP_le_total ws (voters (obsv r1 (f0 + N.of_nat k1)) (fun r' => vote k1 r' v))). lia.
      + destruct (core_count (f0 + N.of_nat k1) r1 r2 (fun r' => negb (vote k1 r' v)) (fun r' => vote k1 r' v)) as [A B];
          eauto using roots_in.
        { intros x H1 H2. rewrite H2 in H1. discriminate. }
        pose proof (wsP_le_total ws (voters (obsv r1 (f0 + N.of_nat k1)) (fun r' => negb (vote k1 r' v)))). lia.
    - (* later round: every root of round k2 votes b1, so the other side has weight 0 *)
      assert (Hall2 : forall r, In r (roots (f0 + N.of_nat k2)) -> vote k2 r v = b1).
      { intros r Hr. replace k2 with (S k1 + (k2 - S k1))%nat in * by lia.
        eapply all_vote_from; eauto. }
      destruct (all_vote_then_next k2 v b1 Hk2 Hall2 r2 Hr2) as [_ [_ Hz]].
      assert (0 < q) by lia.
      destruct b1, b2; try reflexivity; exfalso; lia. }
  intros D1 D2. destruct (Nat.le_ge_cases k1 k2) as [H|H].
  - eapply Hle; eauto.
  - symmetry. eapply Hle; eauto.
Qed.

(* the root voted for is unique: two first-round roots that forkless-cause a root of the
   subject in frame f0 forkless-cause the same one *)
Lemma voted_root_unique a1 a2 r1 r2 : In r1 evs -> In r2 evs ->
  In a1 (roots f0) -> In a2 (roots f0) -> cr a1 = cr a2 -> fc r1 a1 = true -> fc r2 a2 = true -> a1 = a2.
Proof. intros. eapply (visible_unique f0 a1 a2 r1 r2); eauto. Qed.
(* ---------------- the election does not err ---------------- *)
(* a yes vote goes back to a root of the subject in frame f0 that a first-round root forkless-causes *)
Lemma obs_quorum_split k r v : (1 <= k)%nat -> In r (roots (f0 + N.of_nat k + 1)) -> q <= yesV k r v + noV k r v.
Proof.
  intros Hk Hr. assert (Hf1 : 1 <= f0 + N.of_nat k) by lia.
  pose proof (roots_sees_quorum _ _ Hf1 Hr) as HQ. unfold sees_quorum in HQ. unfold yesV, noV.
  set (o := obsv r (f0 + N.of_nat k)) in *.
  pose proof (wsP_incl_excl ws (voters o (fun r' => vote k r' v)) (voters o (fun r' => negb (vote k r' v)))) as IE.
  assert (Hm : wsP ws (voters o (fun _ => true))
               <= wsP ws (fun u => voters o (fun r' => vote k r' v) u || voters o (fun r' => negb (vote k r' v)) u)).
  { apply wsP_mono. intros u _ Hu. apply voters_obs_elim in Hu as [r' [I' [F' [C' _]]]].
    apply orb_true_iff. destruct (vote k r' v) eqn:E.
    - left. apply (voters_obs_intro r _ (fun r' => vote k r' v) u r' I' F' C' E).
    - right. apply (voters_obs_intro r _ (fun r' => negb (vote k r' v)) u r' I' F' C'). rewrite E. reflexivity. }
  lia.
Qed.

Lemma yes_vote_has_root v : forall k r, (1 <= k)%nat -> In r (roots (f0 + N.of_nat k)) -> vote k r v = true ->
  exists a r1, In a (roots f0) /\ cr a = v /\ In r1 (roots (f0 + 1)) /\ fc r1 a = true.
Proof.
  induction k as [|k IH]; intros r Hk Hr Hv; [lia|].
  destruct k as [|k].
  - change (vote 1 r v) with (voters (obsv r f0) (fun _ => true) v) in Hv.
    apply voters_obs_elim in Hv as [a [Ia [Fa [Ca _]]]]. exists a, r. repeat split; auto.
  - rewrite vote_S in Hv by lia. apply N.leb_le in Hv.
    assert (Hr' : In r (roots (f0 + N.of_nat (S k) + 1))) by (replace (f0 + N.of_nat (S k) + 1) with (f0 + N.of_nat (S (S k))) by lia; exact Hr).
    pose proof (obs_quorum_split (S k) r v ltac:(lia) Hr') as Hs.
    assert (Hpos : 0 < yesV (S k) r v) by lia.
    unfold yesV in Hpos. apply wsP_pos_ex in Hpos as [u [_ Hu]].
    apply voters_obs_elim in Hu as [r' [I' [_ [_ V']]]]. apply (IH r'); [lia|exact I'|exact V'].
Qed.

Lemma decided_yes_has_root k r v : decides k r v true ->
  exists a r1, In a (roots f0) /\ cr a = v /\ In r1 (roots (f0 + 1)) /\ fc r1 a = true.
Proof.
  intros [Hk [Hr Hq]]. assert (Hpos : 0 < yesV k r v) by lia.
  unfold yesV in Hpos. apply wsP_pos_ex in Hpos as [u [_ Hu]].
  apply voters_obs_elim in Hu as [r' [I' [_ [_ V']]]]. apply (yes_vote_has_root v k r'); assumption.
Qed.

(* some subject is never decided no: the first-round roots that anybody observes are unique per
   validator (fork exclusion); each of them votes yes on subjects holding a quorum; by a weighted
   pigeonhole some subject v collects the yes of more than 2/3 of them; every second-round root then
   sees fewer than a third of the weight voting no, votes yes, and so does everybody later *)
Hypothesis f0_pos : 1 <= f0.

Definition obsable (r1 : X) : bool := existsb (fun r2 => fc r2 r1) (roots (f0 + 2)).
Definition U1 (u : nat) : bool := existsb (fun r1 => Nat.eqb (cr r1) u && obsable r1) (roots (f0 + 1)).
Definition Yv (v u : nat) : bool := existsb (fun r1 => Nat.eqb (cr r1) u && obsable r1 && vote 1 r1 v) (roots (f0 + 1)).
Definition Nv (v u : nat) : bool := existsb (fun r1 => Nat.eqb (cr r1) u && obsable r1 && negb (vote 1 r1 v)) (roots (f0 + 1)).

Lemma obsable_unique r1 r1' : In r1 (roots (f0 + 1)) -> In r1' (roots (f0 + 1)) -> cr r1 = cr r1' ->
  obsable r1 = true -> obsable r1' = true -> r1 = r1'.
Proof.
  intros I1 I1' Hc O1 O1'. unfold obsable in *.
  apply existsb_exists in O1 as [r2 [I2 F2]]. apply existsb_exists in O1' as [r2' [I2' F2']].
  eapply (visible_unique (f0 + 1) r1 r1' r2 r2'); eauto using roots_in.
Qed.

Lemma Yv_Nv_disjoint v u : Yv v u && Nv v u = false.
Proof.
  destruct (Yv v u) eqn:EY; [|reflexivity]. destruct (Nv v u) eqn:EN; [|reflexivity]. exfalso.
  unfold Yv, Nv in *. apply existsb_exists in EY as [r1 [I1 H1]]. apply existsb_exists in EN as [r1' [I1' H1']].
  apply andb_prop in H1 as [H1 V1]. apply andb_prop in H1 as [C1 O1].
  apply andb_prop in H1' as [H1' V1']. apply andb_prop in H1' as [C1' O1'].
  apply Nat.eqb_eq in C1, C1'.
  assert (r1 = r1') by (apply obsable_unique; auto; congruence). subst r1'.
  rewrite V1 in V1'. discriminate.
Qed.

Lemma U1_quorum u : U1 u = true -> q <= wsP ws (fun v => Yv v u).
Proof.
  intros H. unfold U1 in H. apply existsb_exists in H as [r1 [I1 H]]. apply andb_prop in H as [C1 O1].
  assert (HQ : sees_quorum r1 f0) by (apply roots_sees_quorum; auto).
  unfold sees_quorum in HQ. etransitivity; [exact HQ|]. apply wsP_mono. intros v _ Hv.
  unfold Yv. apply existsb_exists. exists r1. split; [exact I1|]. rewrite C1, O1. exact Hv.
Qed.

Lemma wsP_wsf P : wsP ws P = wsf 0 ws (fun v => if P v then 1 else 0).
Proof. rewrite wsP_wsl. apply wsl_wsf. Qed.

Lemma totalW_wsf : W = wsf 0 ws (fun _ => 1).
Proof. unfold totalW. rewrite wsP_wsf. reflexivity. Qed.

Lemma pigeon_subject : 0 < W -> exists v, (v < nv)%nat /\ wsP ws U1 * q <= W * wsP ws (fun u => Yv v u).
Proof.
  intros HW.
  (* sum over u of w_u [U1 u] q  <=  sum over u of w_u * (sum over v of w_v [Yv v u]) *)
  assert (H1 : wsf 0 ws (fun u => (if U1 u then 1 else 0) * q)
               <= wsf 0 ws (fun u => wsf 0 ws (fun v => if Yv v u then 1 else 0))).
  { apply wsf_le. intros u _. destruct (U1 u) eqn:E; [|lia].
    pose proof (U1_quorum u E) as H. rewrite wsP_wsf in H. lia. }
  rewrite wsf_fubini in H1.
  assert (H2 : wsf 0 ws (fun u => (if U1 u then 1 else 0) * q) = wsP ws U1 * q).
  { rewrite wsP_wsf. rewrite N.mul_comm. rewrite <- wsf_scale. apply wsf_ext. intros; lia. }
  rewrite H2 in H1.
  destruct (wsf_pigeon ws (fun v => W * wsP ws (fun u => Yv v u)) (wsP ws U1 * q)) as [v [Hv Hc]].
  - rewrite <- totalW_wsf. exact HW.
  - rewrite <- totalW_wsf.
    assert (E : wsf 0 ws (fun v => W * wsP ws (fun u => Yv v u)) = W * wsf 0 ws (fun v => wsf 0 ws (fun u => if Yv v u then 1 else 0))).
    { rewrite <- wsf_scale. apply wsf_ext. intros v _. rewrite wsP_wsf. reflexivity. }
    rewrite E. nia.
  - exists v. split; [exact Hv|exact Hc].
Qed.

Theorem exists_never_no : (0 < nv)%nat -> exists v, (v < nv)%nat /\ forall k r, ~ decides k r v false.
Proof.
  intros Hnv. destruct (N.eq_dec W 0) as [HW0|HW0].
  - (* no weight at all: nothing is ever decided *)
    exists 0%nat. split; [exact Hnv|]. intros k r [_ [_ Hq]].
    pose proof (wsP_le_total ws (voters (obsv r (f0 + N.of_nat k)) (fun r' => negb (vote k r' 0%nat)))) as H.
    unfold noV in Hq. lia.
  - destruct pigeon_subject as [v [Hv Hp]]; [lia|]. exists v. split; [exact Hv|].
    set (R := wsP ws U1) in *. set (YES := wsP ws (fun u => Yv v u)) in *. set (NO := wsP ws (fun u => Nv v u)).
    assert (HR : R <= W) by apply wsP_le_total.
    assert (HYN : YES + NO <= R).
    { pose proof (wsP_incl_excl ws (fun u => Yv v u) (fun u => Nv v u)) as IE.
      assert (Hz : wsP ws (fun u => Yv v u && Nv v u) = 0) by (apply wsP_zero; intros; apply Yv_Nv_disjoint).
      assert (Hu : wsP ws (fun u => Yv v u || Nv v u) <= R).
      { apply wsP_mono. intros u _ H. unfold U1. apply orb_prop in H as [H|H]; unfold Yv, Nv in H;
          apply existsb_exists in H as [r1 [I1 H]]; apply andb_prop in H as [H _];
          apply existsb_exists; exists r1; auto. }
      unfold YES, NO. lia. }
    (* every second-round root *)
    assert (H2 : forall r2, In r2 (roots (f0 + 2)) -> noV 1 r2 v < q /\ noV 1 r2 v <= yesV 1 r2 v).
    { intros r2 I2.
      assert (Hno : noV 1 r2 v <= NO).
      { unfold noV, NO. apply wsP_mono. intros u _ Hu. apply voters_obs_elim in Hu as [r1 [I1 [F1 [C1 V1]]]].
        unfold Nv. apply existsb_exists. exists r1. replace (f0 + N.of_nat 1) with (f0 + 1) in I1 by lia. split; [exact I1|].
        rewrite V1. rewrite andb_true_r. apply andb_true_intro. split; [apply Nat.eqb_eq; exact C1|].
        unfold obsable. apply existsb_exists. exists r2. auto. }
      assert (Hs : q <= yesV 1 r2 v + noV 1 r2 v).
      { apply obs_quorum_split; [lia|]. replace (f0 + N.of_nat 1 + 1) with (f0 + 2) by lia. exact I2. }
      assert (H3 : 3 * noV 1 r2 v <= R).
      { assert (W * (3 * noV 1 r2 v) <= W * R); [|nia]. nia. }
      lia. }
    assert (Hall2 : forall r, In r (roots (f0 + N.of_nat 2)) -> vote 2 r v = true).
    { intros r Hr. rewrite vote_S by lia. apply N.leb_le. apply H2. replace (f0 + 2) with (f0 + N.of_nat 2) by lia. exact Hr. }
    intros k r D. pose proof D as [Hk [Hr Hq]].
    destruct (Nat.eq_dec k 1) as [->|Hne].
    + destruct (H2 r) as [Hlt _]; [replace (f0 + 2) with (f0 + N.of_nat 1 + 1) by lia; exact Hr|]. lia.
    + assert (Hallk : forall r', In r' (roots (f0 + N.of_nat k)) -> vote k r' v = true).
      { intros r' Hr'. replace k with (2 + (k - 2))%nat in * by lia. apply (all_vote_from 2 v true); auto. }
      destruct (all_vote_then_next k v true Hk Hallk r Hr) as [_ [_ Hz]]. lia.
Qed.
End Core.
