(* BFT core of C01 / C10 over the rules of spec/ElectionSpec.v (abstract in the event type and
   in the forkless-cause relation):
     fork_exclusion, visible_unique, core_count, decision_forces_round, all_vote_then_next,
     decision_unique (no two roots decide differently for one subject).
   Hypotheses of the section (discharged from DAG well-formedness + the frame rule in
   proofs/BftGraph.v): fc_char, leb_trans, sf_mono, honest_chain, roots_fork, roots_quorum. *)
From Coq Require Import List Arith NArith Bool Lia ZArith.
From Coq Require Import ZifyBool ZifyNat ZifyN.
From LV Require Import model.VecIndex lib.WSumBft spec.ElectionSpec.
Import ListNotations.
Open Scope N_scope.

Section Core.
Variable X : Type.
Variables (xid : X -> N) (cr : X -> nat) (fr spf : X -> N).
Variable fc : X -> X -> bool.
Variables (ws : list N) (q : N).
Variable evs : list X.
Notation nv := (length ws).
Notation W := (totalW ws).
Notation roots := (roots_at X fr spf evs).
Notation obsv := (obs X fr spf fc evs).
Notation voters := (by_cr X cr).

Variable leb : X -> X -> bool.        (* ancestor-or-self *)
Variable sf : X -> nat -> bool.       (* a sees a fork of validator v *)
Definition between (b a : X) (v : nat) : bool :=
  existsb (fun x => Nat.eqb (cr x) v && leb b x && leb x a) evs.

Hypothesis q_gt : 3 * q > 2 * W.
Hypothesis xid_inj : forall x y, In x evs -> In y evs -> xid x = xid y -> x = y.
Hypothesis fc_char : forall a b, In a evs -> In b evs -> fc a b = true ->
  sf a (cr b) = false /\ q <= wsP ws (fun v => negb (sf a v) && between b a v).
Hypothesis leb_trans : forall x y z, In x evs -> In y evs -> In z evs ->
  leb x y = true -> leb y z = true -> leb x z = true.
Hypothesis sf_mono : forall a a' v, In a evs -> In a' evs -> leb a a' = true -> sf a v = true -> sf a' v = true.

Variable byz : nat -> bool.
Hypothesis byz_small : 3 * wsP ws byz < W.
Hypothesis honest_chain : forall v x y, (v < nv)%nat -> byz v = false -> In x evs -> In y evs ->
  cr x = v -> cr y = v -> leb x y = true \/ leb y x = true.

(* whoever sees both sees a fork of their creator *)
Definition forkpair (r1 r2 : X) : Prop :=
  cr r1 = cr r2 /\ forall a, In a evs -> leb r1 a = true -> leb r2 a = true -> sf a (cr r1) = true.

Lemma fork_exclusion r1 r2 x y : In x evs -> In y evs -> In r1 evs -> In r2 evs ->
  forkpair r1 r2 -> fc x r1 = true -> fc y r2 = true -> False.
Proof.
  intros Ix Iy I1 I2 [Hc Hfp] Hx Hy.
  destruct (fc_char _ _ Ix I1 Hx) as [Hnx Hqx]. destruct (fc_char _ _ Iy I2 Hy) as [Hny Hqy].
  pose proof (quorum_intersection ws q _ _ q_gt Hqx Hqy) as Hint.
  destruct (exists_outside ws byz _ byz_small Hint) as [v [Hv [HP Hb]]].
  apply andb_prop in HP as [H1 H2]. apply andb_prop in H1 as [_ B1]. apply andb_prop in H2 as [_ B2].
  unfold between in B1, B2.
  apply existsb_exists in B1 as [x1 [Hx1 B1]]. apply existsb_exists in B2 as [x2 [Hx2 B2]].
  apply andb_prop in B1 as [B1 L1x]. apply andb_prop in B1 as [C1 L1r].
  apply andb_prop in B2 as [B2 L2y]. apply andb_prop in B2 as [C2 L2r].
  apply Nat.eqb_eq in C1, C2.
  destruct (honest_chain v x1 x2 Hv Hb Hx1 Hx2 C1 C2) as [Hle|Hle].
  - assert (Hs : sf y (cr r1) = true).
    { apply (sf_mono x2); [exact Hx2|exact Iy|exact L2y|]. apply Hfp; [exact Hx2|eapply (leb_trans r1 x1 x2); eauto | exact L2r]. }
    rewrite Hc in Hs. rewrite Hs in Hny. discriminate.
  - assert (Hs : sf x (cr r1) = true).
    { apply (sf_mono x1); [exact Hx1|exact Ix|exact L1x|]. apply Hfp; [exact Hx1|exact L1r | eapply (leb_trans r2 x2 x1); eauto]. }
    rewrite Hs in Hnx. discriminate.
Qed.

(* ---------------- roots ---------------- *)
Hypothesis roots_fork : forall f r1 r2, In r1 (roots f) -> In r2 (roots f) -> xid r1 <> xid r2 ->
  cr r1 = cr r2 -> forkpair r1 r2.
Hypothesis roots_quorum : forall f r, 1 <= f -> In r (roots (f + 1)) ->
  quorum_on X cr fr spf fc ws q evs r f = true.

Lemma roots_in f r : In r (roots f) -> In r evs.
Proof using Type. unfold roots_at. intros H. apply filter_In in H. destruct H as [H _]. exact H. Qed.

Lemma visible_unique f r1 r2 x y : In x evs -> In y evs -> In r1 (roots f) -> In r2 (roots f) ->
  cr r1 = cr r2 -> fc x r1 = true -> fc y r2 = true -> r1 = r2.
Proof.
  intros Ix Iy H1 H2 Hc Hx Hy. destruct (N.eq_dec (xid r1) (xid r2)) as [E|Hne].
  - apply xid_inj; eauto using roots_in.
  - exfalso. eapply (fork_exclusion r1 r2 x y); eauto using roots_in.
Qed.

Lemma voters_obs_elim r f P u : voters (obsv r f) P u = true ->
  exists r', In r' (roots f) /\ fc r r' = true /\ cr r' = u /\ P r' = true.
Proof using Type.
  unfold by_cr, obs. intros H. apply existsb_exists in H as [r' [Hin H]].
  apply filter_In in Hin as [Hin Hfc]. apply andb_prop in H as [Hc HP]. apply Nat.eqb_eq in Hc. eauto.
Qed.
Lemma voters_obs_intro r f (P : X -> bool) u r' : In r' (roots f) -> fc r r' = true -> cr r' = u -> P r' = true ->
  voters (obsv r f) P u = true.
Proof using Type.
  intros. unfold by_cr, obs. apply existsb_exists. exists r'. split.
  - apply filter_In; auto.
  - apply andb_true_intro; split; auto. apply Nat.eqb_eq; auto.
Qed.

Definition sees_quorum (r : X) (f : N) : Prop := q <= wsP ws (voters (obsv r f) (fun _ => true)).
Lemma roots_sees_quorum f r : 1 <= f -> In r (roots (f + 1)) -> sees_quorum r f.
Proof. intros Hf H. apply roots_quorum in H; [|exact Hf]. unfold quorum_on in H. apply N.leb_le in H. exact H. Qed.

(* the counting step, generic in the two (exclusive) vote predicates *)
Lemma core_count f r r' (P Pn : X -> bool) : In r evs -> In r' evs ->
  (forall x, P x = true -> Pn x = true -> False) ->
  q <= wsP ws (voters (obsv r f) P) -> sees_quorum r' f ->
  2 * q <= W + wsP ws (voters (obsv r' f) P) /\ wsP ws (voters (obsv r' f) Pn) + q <= W.
Proof.
  intros Ir Ir' Hex HSb HQ. unfold sees_quorum in HQ. split.
  - pose proof (wsP_incl_excl ws (voters (obsv r f) P) (voters (obsv r' f) (fun _ => true))) as IE.
    pose proof (wsP_le_total ws (fun v => voters (obsv r f) P v || voters (obsv r' f) (fun _ => true) v)) as LT.
    assert (Hm : wsP ws (fun v => voters (obsv r f) P v && voters (obsv r' f) (fun _ => true) v)
                 <= wsP ws (voters (obsv r' f) P)).
    { apply wsP_mono. intros u _ Hu. apply andb_prop in Hu as [Hu1 Hu2].
      apply voters_obs_elim in Hu1 as [r1 [I1 [F1 [C1 P1]]]].
      apply voters_obs_elim in Hu2 as [r2 [I2 [F2 [C2 _]]]].
      assert (r1 = r2) by (eapply (visible_unique f r1 r2 r r'); eauto; congruence). subst r2.
      eapply voters_obs_intro; eauto. }
    lia.
  - pose proof (wsP_incl_excl ws (voters (obsv r f) P) (voters (obsv r' f) Pn)) as IE.
    pose proof (wsP_le_total ws (fun v => voters (obsv r f) P v || voters (obsv r' f) Pn v)) as LT.
    assert (Hz : wsP ws (fun v => voters (obsv r f) P v && voters (obsv r' f) Pn v) = 0).
    { apply wsP_zero. intros u _.
      destruct (voters (obsv r f) P u) eqn:E1; [|reflexivity].
      destruct (voters (obsv r' f) Pn u) eqn:E2; [|reflexivity].
      apply voters_obs_elim in E1 as [r1 [I1 [F1 [C1 P1]]]]. apply voters_obs_elim in E2 as [r2 [I2 [F2 [C2 P2]]]].
      assert (r1 = r2) by (eapply (visible_unique f r1 r2 r r'); eauto; congruence). subst r2.
      exfalso; eauto. }
    lia.
Qed.

(* ---------------- votes on frame f0 ---------------- *)
Variable f0 : N.

(* vote of a root r of frame f0+k for subject v, by recursion on the round k (the rules of
   property C10; spec/ElectionSpec.v tabulates exactly this, see proofs/BftElection.v) *)
Fixpoint vote (k : nat) (r : X) (v : nat) : bool :=
  match k with
  | O => false
  | S k' =>
    match k' with
    | O => voters (obsv r f0) (fun _ => true) v
    | S _ => let o := obsv r (f0 + N.of_nat k') in
             wsP ws (voters o (fun r' => negb (vote k' r' v))) <=? wsP ws (voters o (fun r' => vote k' r' v))
    end
  end.

Definition yesV k r v := wsP ws (voters (obsv r (f0 + N.of_nat k)) (fun r' => vote k r' v)).
Definition noV k r v := wsP ws (voters (obsv r (f0 + N.of_nat k)) (fun r' => negb (vote k r' v))).
(* root r of frame f0+k+1 (round k+1) decides b for subject v *)
Definition decides (k : nat) (r : X) (v : nat) (b : bool) : Prop :=
  (1 <= k)%nat /\ In r (roots (f0 + N.of_nat k + 1)) /\ q <= (if b then yesV k r v else noV k r v).

Lemma vote_S k r v : (1 <= k)%nat -> vote (S k) r v = (noV k r v <=? yesV k r v).
Proof using Type. destruct k; [intros H; inversion H|]. intros _. reflexivity. Qed.

(* a decision at round k+1 forces every vote of round k+1 *)
Lemma decision_forces_round k r v b r' :
  decides k r v b -> In r' (roots (f0 + N.of_nat k + 1)) -> vote (S k) r' v = b.
Proof.
  intros [Hk [Hr Hd]] Hr'. rewrite vote_S by assumption.
  assert (Hf1 : 1 <= f0 + N.of_nat k) by lia.
  pose proof (roots_sees_quorum _ _ Hf1 Hr') as HQ.
  unfold yesV, noV in *. destruct b.
  - destruct (core_count (f0 + N.of_nat k) r r' (fun r' => vote k r' v) (fun r' => negb (vote k r' v))) as [A B];
      eauto using roots_in.
    { intros x H1 H2. rewrite H1 in H2. discriminate. }
    apply N.leb_le. lia.
  - destruct (core_count (f0 + N.of_nat k) r r' (fun r' => negb (vote k r' v)) (fun r' => vote k r' v)) as [A B];
      eauto using roots_in.
    { intros x H1 H2. rewrite H2 in H1. discriminate. }
    apply N.leb_gt. lia.
Qed.

(* unanimity propagates: every root of the next round votes the same and decides it *)
Lemma all_vote_then_next k v b : (1 <= k)%nat ->
  (forall r, In r (roots (f0 + N.of_nat k)) -> vote k r v = b) ->
  forall r', In r' (roots (f0 + N.of_nat k + 1)) ->
    vote (S k) r' v = b /\ q <= (if b then yesV k r' v else noV k r' v)
    /\ (if b then noV k r' v else yesV k r' v) = 0.
Proof.
  intros Hk Hall r' Hr'. rewrite vote_S by assumption.
  assert (Hf1 : 1 <= f0 + N.of_nat k) by lia.
  pose proof (roots_sees_quorum _ _ Hf1 Hr') as HQ. unfold sees_quorum in HQ.
  unfold yesV, noV.
  set (o := obsv r' (f0 + N.of_nat k)) in *.
  assert (Hb : wsP ws (voters o (fun _ => true))
               <= wsP ws (voters o (fun x => if b then vote k x v else negb (vote k x v)))).
  { apply wsP_mono. intros u _ Hu. apply voters_obs_elim in Hu as [r2 [I2 [F2 [C2 _]]]].
    eapply voters_obs_intro; eauto. rewrite (Hall _ I2). destruct b; reflexivity. }
  assert (Hn : wsP ws (voters o (fun x => if b then negb (vote k x v) else vote k x v)) = 0).
  { apply wsP_zero. intros u _. destruct (voters o _ u) eqn:E; [|reflexivity].
    apply voters_obs_elim in E as [r1 [I1 [F1 [C1 P1]]]].
    rewrite (Hall _ I1) in P1. destruct b; discriminate. }
  assert (Hq0 : 0 < q) by lia.
  destruct b; cbn beta iota in *.
  - split; [apply N.leb_le; lia|]. split; [lia|exact Hn].
  - split; [apply N.leb_gt; lia|]. split; [lia|exact Hn].
Qed.

Lemma all_vote_from k v b : (1 <= k)%nat ->
  (forall r, In r (roots (f0 + N.of_nat k)) -> vote k r v = b) ->
  forall j r, In r (roots (f0 + N.of_nat (k + j))) -> vote (k + j) r v = b.
Proof.
  intros Hk Hall j. induction j as [|j IH]; intros r Hr.
  - rewrite Nat.add_0_r in *. auto.
  - replace (k + S j)%nat with (S (k + j)) in * by lia.
    assert (Hr' : In r (roots (f0 + N.of_nat (k + j) + 1))).
    { replace (f0 + N.of_nat (k + j) + 1) with (f0 + N.of_nat (S (k + j))) by lia. exact Hr. }
    assert (Hkj : (1 <= k + j)%nat) by lia.
    destruct (all_vote_then_next (k + j) v b Hkj IH r Hr') as [A _]. exact A.
Qed.

(* (ii) decision uniqueness: no two roots decide differently for one subject *)
Theorem decision_unique k1 r1 k2 r2 v b1 b2 :
  decides k1 r1 v b1 -> decides k2 r2 v b2 -> b1 = b2.
Proof.
  assert (Hle : forall k1 r1 k2 r2 b1 b2, (k1 <= k2)%nat ->
            decides k1 r1 v b1 -> decides k2 r2 v b2 -> b1 = b2).
  { clear k1 r1 k2 r2 b1 b2. intros k1 r1 k2 r2 b1 b2 Hk D1 D2.
    pose proof D1 as [Hk1 [Hr1 Hq1]]. pose proof D2 as [Hk2 [Hr2 Hq2]].
    assert (Hall : forall r, In r (roots (f0 + N.of_nat (S k1))) -> vote (S k1) r v = b1).
    { intros r Hr. eapply decision_forces_round; eauto.
      replace (f0 + N.of_nat k1 + 1) with (f0 + N.of_nat (S k1)) by lia. exact Hr. }
    destruct (Nat.eq_dec k1 k2) as [E|Hne].
    - subst k2. (* same round: both sides would hold a quorum *)
      assert (Hf1 : 1 <= f0 + N.of_nat k1) by lia.
      pose proof (roots_sees_quorum _ _ Hf1 Hr2) as HQ2.
      destruct b1, b2; try reflexivity; exfalso; unfold yesV, noV in *.
      + destruct (core_count (f0 + N.of_nat k1) r1 r2 (fun r' => vote k1 r' v) (fun r' => negb (vote k1 r' v))) as [A B];
          eauto using roots_in.
        { intros x H1 H2. rewrite H1 in H2. discriminate. }
        pose proof (wsP_le_total ws (voters (obsv r1 (f0 + N.of_nat k1)) (fun r' => vote k1 r' v))). lia.
      + destruct (core_count (f0 + N.of_nat k1) r1 r2 (fun r' => negb (vote k1 r' v)) (fun r' => vote k1 r' v)) as [A B];
          eauto using roots_in.
        { intros x H1 H2. rewrite H2 in H1. discriminate. }
        pose proof (wsP_le_total ws (voters (obsv r1 (f0 + N.of_nat k1)) (fun r' => negb (vote k1 r' v)))). lia.
    - (* later round: every root of round k2 votes b1, so the other side has weight 0 *)
      assert (Hall2 : forall r, In r (roots (f0 + N.of_nat k2)) -> vote k2 r v = b1).
      { intros r Hr. replace k2 with (S k1 + (k2 - S k1))%nat in * by lia.
        eapply all_vote_from; eauto. }
      destruct (all_vote_then_next k2 v b1 Hk2 Hall2 r2 Hr2) as [_ [_ Hz]].
      assert (0 < q) by lia.
      destruct b1, b2; try reflexivity; exfalso; lia. }
  intros D1 D2. destruct (Nat.le_ge_cases k1 k2) as [H|H].
  - eapply Hle; eauto.
  - symmetry. eapply Hle; eauto.
Qed.

(* the root voted for is unique: two first-round roots that forkless-cause a root of the
   subject in frame f0 forkless-cause the same one *)
Lemma voted_root_unique a1 a2 r1 r2 : In r1 evs -> In r2 evs ->
  In a1 (roots f0) -> In a2 (roots f0) -> cr a1 = cr a2 -> fc r1 a1 = true -> fc r2 a2 = true -> a1 = a2.
Proof. intros. eapply (visible_unique f0 a1 a2 r1 r2); eauto. Qed.
End Core.
