(* C15: composition of the processor with the ordering buffer (C14).  [PB s]: the buffer inside the
   processor is a reachable buffer state; every event that entered process() was either released
   directly or pushed into the buffer; the Released callbacks seen so far are exactly the direct
   ones plus the buffer's; the semaphore holds the metric of accepted, unreleased events. *)
From Coq Require Import NArith ZArith List Bool Lia Arith Permutation ZifyBool ZifyNat ZifyN.
From LV Require Import model.Buffer model.Processor spec.BufferSpec spec.ProcessorSpec
  proofs.BufferInv proofs.BufferPush proofs.BufferRun proofs.BufferExt proofs.BufferTheorems
  proofs.ProcessorFrame proofs.ProcessorOrder proofs.ProcessorSem.
Import ListNotations.
Local Open Scope N_scope.

(* ---------- copy id -> global event index *)
Lemma g_of_in : forall pu c, (N.to_nat c < length pu)%nat -> In (g_of pu c) pu.
Proof. intros pu c H. unfold g_of. apply nth_In; exact H. Qed.
Lemma g_of_app : forall pu g c, (N.to_nat c < length pu)%nat -> g_of (pu ++ [g]) c = g_of pu c.
Proof. intros pu g c H. unfold g_of. apply app_nth1; exact H. Qed.
Lemma g_of_last : forall pu g, g_of (pu ++ [g]) (N.of_nat (length pu)) = g.
Proof. intros pu g. unfold g_of. rewrite Nat2N.id, app_nth2, Nat.sub_diag; auto. Qed.
Lemma map_g_of_app : forall pu g cl, (forall c, In c cl -> (N.to_nat c < length pu)%nat) ->
  map (g_of (pu ++ [g])) cl = map (g_of pu) cl.
Proof. intros pu g cl H. apply map_ext_in. intros c Hc. apply g_of_app; auto. Qed.
Lemma NoDup_map_g_of : forall pu cl, NoDup pu -> NoDup cl ->
  (forall c, In c cl -> (N.to_nat c < length pu)%nat) -> NoDup (map (g_of pu) cl).
Proof.
  intros pu cl Np Nc H. induction cl as [|c cl IH]; simpl; [constructor|].
  inversion Nc; subst. constructor.
  - intros Hi. apply in_map_iff in Hi. destruct Hi as [c' [E Hc']].
    unfold g_of in E. apply NoDup_nth in E; auto.
    + apply N2Nat.inj in E. subst. contradiction.
    + apply H; right; auto.
    + apply H; left; auto.
  - apply IH; auto. intros c' Hc'; apply H; right; auto.
Qed.
Lemma incl_map_g_of : forall pu cl, (forall c, In c cl -> (N.to_nat c < length pu)%nat) ->
  incl (map (g_of pu) cl) pu.
Proof. intros pu cl H g Hg. apply in_map_iff in Hg. destruct Hg as [c [E Hc]]. subst. apply g_of_in; auto. Qed.
Lemma NoDup_app_sub : forall {A} (a b b' : list A), NoDup (a ++ b) -> NoDup b' -> incl b' b -> NoDup (a ++ b').
Proof.
  intros A a b b'; induction a as [|x a IH]; simpl; intros H Nb Hi; auto.
  inversion H; subst. constructor; [|apply IH; auto].
  intros Hx. apply H2. apply in_app_or in Hx. apply in_or_app. destruct Hx; auto.
Qed.

(* released copy ids of a reachable buffer are valid copy ids *)
Lemma released_valid : forall limN limS cs b c, RunInv limN limS cs b -> In c (released b) ->
  (N.to_nat c < length cs)%nat.
Proof.
  intros limN limS cs b c [W [I _]] H. destruct (inv_rel_cs _ _ _ I c H) as [x [A B]].
  pose proof (wf_cs_bound cs x W A). lia.
Qed.

Lemma Sem_same : forall s s', held_n s' = held_n s -> held_s s' = held_s s -> warned s' = warned s ->
  tab s' = tab s -> plog s' = plog s -> Sem s -> Sem s'.
Proof.
  intros s s' A B C D E [Sw Sn Ss Si Sd].
  assert (Esz : size_of_g s' = size_of_g s) by (unfold size_of_g, lookup_g; rewrite D; reflexivity).
  constructor; unfold pgs in *; rewrite ?Esz, ?A, ?B, ?C, ?D, ?E; auto.
Qed.
Lemma Sem_pemit : forall s o, (forall g e err, o <> PReleased g e err) -> Sem s -> Sem (pemit s o).
Proof.
  intros s o H [Sw Sn Ss Si Sd].
  assert (E : relg (plog (pemit s o)) = relg (plog s)).
  { simpl. destruct o; auto. exfalso. eapply H; reflexivity. }
  constructor; rewrite ?E; auto.
Qed.

Section P.
  Variable fc fp : list out -> entry -> bool.
  Variable lim_n lim_s : N.

  Record PB (s : pst) : Prop := mkPB {
    pb_buf : exists ops, buf s = run fc fp true lim_n lim_s ops /\ length (pushed s) = length (copies_of ops);
    pb_tab_nd : NoDup (pgs s);
    pb_hd_nd : NoDup (Hd s);
    pb_hd_tab : incl (Hd s) (pgs s);
    pb_perm : exists directs, Permutation (Hd s) (directs ++ pushed s)
                /\ Permutation (relg (plog s)) (directs ++ map (g_of (pushed s)) (released (buf s)));
    pb_sem : Sem s
  }.

  (* replaying what a buffer operation did: b1 is the buffer after it, [hd :: new] what it logged *)
  Lemma replay_ok : forall s ops cs' b1 pu' hd new directs,
    Sem s -> NoDup (pgs s) ->
    buf s = run fc fp true lim_n lim_s ops -> length (pushed s) = length (copies_of ops) ->
    RunInv lim_n lim_s cs' b1 -> length pu' = length cs' ->
    log b1 = hd :: new ++ log (buf s) -> rel_cids [hd] = [] ->
    (forall c, (N.to_nat c < length (pushed s))%nat -> g_of pu' c = g_of (pushed s) c) ->
    NoDup (directs ++ pu') -> incl pu' (pgs s) ->
    Permutation (relg (plog s)) (directs ++ map (g_of (pushed s)) (released (buf s))) ->
    let s2 := fold_left apply_out (delta (log (buf s)) (log b1)) (set_buf s b1 pu') in
    Sem s2 /\ tab s2 = tab s /\ pushed s2 = pu' /\ buf s2 = b1 /\ Hd s2 = Hd s
    /\ queue s2 = queue s /\ stopped s2 = stopped s
    /\ Permutation (relg (plog s2)) (directs ++ map (g_of pu') (released b1)).
  Proof.
    intros s ops cs' b1 pu' hd new directs Sm Ntab Eb Elen R1 Elen' Elog Ehd Hg Ndp Hip Pr. cbv zeta.
    pose proof (run_inv fc fp lim_n lim_s ops) as R0. rewrite <- Eb in R0.
    assert (Ed : delta (log (buf s)) (log b1) = rev new ++ [hd]).
    { unfold delta. rewrite Elog. simpl length. rewrite app_length.
      replace (S (length new + length (log (buf s))) - length (log (buf s)))%nat with (S (length new)) by lia.
      change (hd :: new ++ log (buf s)) with ((hd :: new) ++ log (buf s)).
      change (S (length new)) with (length (hd :: new)).
      rewrite firstn_app, firstn_all, Nat.sub_diag. simpl firstn. rewrite app_nil_r.
      simpl. reflexivity. }
    assert (Erc : rel_cids (rev new ++ [hd]) = rev (rel_cids new)).
    { unfold rel_cids. rewrite flat_map_app. fold (rel_cids (rev new)) (rel_cids [hd]).
      rewrite Ehd, app_nil_r. apply rel_cids_rev. }
    assert (Er1 : released b1 = rel_cids new ++ released (buf s)).
    { destruct R1 as [_ [I1 _]]. destruct R0 as [_ [I0 _]].
      rewrite (inv_rel _ _ _ I1), (inv_rel _ _ _ I0), Elog.
      change (hd :: new ++ log (buf s)) with ([hd] ++ new ++ log (buf s)).
      unfold rel_cids at 1. rewrite !flat_map_app. fold (rel_cids [hd]) (rel_cids new) (rel_cids (log (buf s))).
      rewrite Ehd. reflexivity. }
    assert (V0 : forall c, In c (released (buf s)) -> (N.to_nat c < length (pushed s))%nat).
    { intros c Hc. rewrite Elen. eapply released_valid; eauto. }
    assert (V1 : forall c, In c (released b1) -> (N.to_nat c < length pu')%nat).
    { intros c Hc. rewrite Elen'. eapply released_valid; eauto. }
    assert (Em0 : map (g_of pu') (released (buf s)) = map (g_of (pushed s)) (released (buf s))).
    { apply map_ext_in. intros c Hc. apply Hg. apply V0; auto. }
    set (s1 := set_buf s b1 pu').
    assert (Sm1 : Sem s1) by (apply (Sem_same s); auto).
    assert (P1 : Permutation (map (g_of pu') (rev (rel_cids new)) ++ relg (plog s))
                             (directs ++ map (g_of pu') (released b1))).
    { rewrite Er1, map_app, <- Em0 in *. rewrite Pr.
      rewrite map_rev. rewrite <- Permutation_rev.
      rewrite Permutation_app_comm. rewrite <- app_assoc. apply Permutation_app_head.
      apply Permutation_app_comm. }
    assert (Nd1 : NoDup (directs ++ map (g_of pu') (released b1))).
    { apply NoDup_app_sub with (b := pu'); auto.
      - apply NoDup_map_g_of; auto.
        + eapply NoDup_app_r; eauto.
        + destruct R1 as [_ [I1 _]]. apply (inv_rel_nodup _ _ _ I1).
      - apply incl_map_g_of; auto. }
    destruct (fold_apply_fields (rev new ++ [hd]) s1) as [A [B [C [D E]]]].
    pose proof (frame_fold_apply (rev new ++ [hd]) s1) as [_ [Fq [Fs _]]].
    rewrite Ed. split.
    { apply fold_apply_sem; auto.
      + change (pushed s1) with pu'. change (plog s1) with (plog s). rewrite Erc.
        eapply Permutation_NoDup; [symmetry; exact P1 | exact Nd1].
      + change (pushed s1) with pu'. change (pgs s1) with (pgs s). rewrite Erc.
        intros g Hg'. apply Hip. apply in_map_iff in Hg'. destruct Hg' as [c [Ec Hc]]. subst.
        apply g_of_in. apply V1. rewrite Er1. apply in_or_app; left. apply in_rev; exact Hc. }
    split; [rewrite A; reflexivity|]. split; [rewrite B; reflexivity|]. split; [rewrite C; reflexivity|].
    split; [rewrite D; reflexivity|]. split; [rewrite Fq; reflexivity|]. split; [rewrite Fs; reflexivity|].
    rewrite E. change (pushed s1) with pu'. change (plog s1) with (plog s). rewrite Erc.
    rewrite map_rev, rev_involutive. rewrite <- P1. rewrite map_rev.
    apply Permutation_app_tail. apply Permutation_rev.
  Qed.

  Lemma relg_in_hd : forall s, PB s -> incl (relg (plog s)) (Hd s).
  Proof.
    intros s [[ops [Eb Elen]] Nt Nh Hh [directs [P1 P2]] Sm] g Hg.
    apply (Permutation_in _ P2) in Hg. apply (Permutation_in _ (Permutation_sym P1)).
    apply in_app_or in Hg. apply in_or_app. destruct Hg as [Hg|Hg]; [left; auto | right].
    apply in_map_iff in Hg. destruct Hg as [c [E Hc]]. subst. apply g_of_in.
    rewrite Elen. eapply released_valid; [|exact Hc]. rewrite Eb. apply run_inv.
  Qed.

  Lemma PB_direct : forall s s0 g e err,
    PB s -> In g (pgs s) -> ~ In g (Hd s) ->
    Sem s0 -> tab s0 = tab s -> pushed s0 = pushed s -> buf s0 = buf s -> relg (plog s0) = relg (plog s) ->
    Hd s0 = g :: Hd s ->
    let s' := released_cb s0 g e err in
    PB s' /\ tab s' = tab s /\ Hd s' = g :: Hd s.
  Proof.
    intros s s0 g e err PBs Hg Ng Sm0 Et Ep Eb Er Eh. cbv zeta.
    pose proof (relg_in_hd s PBs) as Rh.
    destruct PBs as [[ops [Ebs Elen]] Nt Nh Hh [directs [P1 P2]] Sm].
    destruct (released_cb_fields s0 g e err) as [A [B [C [_ D]]]].
    assert (Epg : pgs (released_cb s0 g e err) = pgs s) by (unfold pgs; rewrite A, Et; reflexivity).
    assert (Ehd : Hd (released_cb s0 g e err) = g :: Hd s).
    { unfold Hd in *. rewrite D. simpl. exact Eh. }
    split; [|split; [rewrite A; exact Et | exact Ehd]].
    constructor.
    - exists ops. rewrite C, Eb, B, Ep. auto.
    - rewrite Epg. exact Nt.
    - rewrite Ehd. constructor; auto.
    - rewrite Ehd, Epg. intros y [Hy|Hy]; [subst; auto | auto].
    - exists (g :: directs). rewrite Ehd, B, C, D, Ep, Eb. simpl. rewrite Er. split; apply perm_skip; auto.
    - apply Sem_released; auto.
      + unfold pgs. rewrite Et. exact Hg.
      + rewrite Er. intros H. apply Ng. apply Rh. exact H.
  Qed.

  Lemma PB_process : forall s ev, PB s -> In ev (tab s) -> ~ In (pg ev) (Hd s) ->
    let s' := fst (Processor.process fc fp lim_n lim_s s ev) in
    PB s' /\ tab s' = tab s /\ Hd s' = pg ev :: Hd s.
  Proof.
    intros s ev PBs Hev Ng. cbv zeta.
    assert (Hg : In (pg ev) (pgs s)) by (unfold pgs; apply in_map; exact Hev).
    unfold Processor.process. destruct (p_bad ev).
    - cbn [fst]. apply PB_direct; auto.
      apply Sem_pemit; [intros; discriminate | apply (pb_sem _ PBs)].
    - match goal with |- context [if ?c then _ else _] => destruct c end.
      + cbn [fst]. apply PB_direct; auto.
        apply Sem_pemit; [intros; discriminate|]. apply Sem_pemit; [intros; discriminate | apply (pb_sem _ PBs)].
      + set (s0 := pemit (pemit s PHighest) (PHandle (pg ev))).
        set (b1 := push_event fc fp true lim_n lim_s (buf s0) (p_eid ev) (p_pars ev) (p_size ev)).
        assert (G : let s2 := fold_left apply_out (delta (log (buf s0)) (log b1)) (set_buf s0 b1 (pushed s0 ++ [pg ev])) in
                    PB s2 /\ tab s2 = tab s /\ Hd s2 = pg ev :: Hd s).
        { cbv zeta. pose proof (relg_in_hd s PBs) as Rh.
          destruct PBs as [[ops [Ebs Elen]] Nt Nh Hh [directs [P1 P2]] Sm].
          assert (Sm0 : Sem s0) by (apply Sem_pemit; [intros; discriminate|]; apply Sem_pemit; [intros; discriminate | exact Sm]).
          set (ops' := ops ++ [OpPush (p_eid ev) (p_pars ev) (p_size ev)]).
          assert (Eb1 : b1 = run fc fp true lim_n lim_s ops').
          { unfold ops'. rewrite run_snoc. simpl step. unfold b1. change (buf s0) with (buf s). rewrite Ebs. reflexivity. }
          assert (Ecs : copies_of ops' = copies_of ops ++ [mkEntry (N.of_nat (length (copies_of ops))) (p_eid ev) (p_pars ev) (p_size ev)]).
          { unfold ops'. apply copies_of_snoc. }
          pose proof (run_inv fc fp lim_n lim_s ops') as R1. rewrite <- Eb1 in R1.
          destruct (push_event_ext fc fp true lim_n lim_s (buf s0) (p_eid ev) (p_pars ev) (p_size ev))
            as [c0 [ok0 [n0 [z0 [new [EL FL]]]]]]. fold b1 in EL.
          assert (Ph : Permutation (pg ev :: Hd s) (directs ++ pushed s ++ [pg ev])).
          { rewrite app_assoc. rewrite <- Permutation_cons_append. apply perm_skip. exact P1. }
          destruct (replay_ok s0 ops (copies_of ops') b1 (pushed s ++ [pg ev]) (OPushed c0 ok0 n0 z0) new directs)
            as [Sm2 [Et [Ep [Eb [Eh [Eq [Es Pr]]]]]]]; auto.
          - rewrite Ecs, !app_length, Elen. reflexivity.
          - intros c Hc. apply g_of_app. exact Hc.
          - eapply Permutation_NoDup; [exact Ph | constructor; auto].
          - intros y Hy. apply in_app_or in Hy. destruct Hy as [Hy|[Hy|[]]]; [|subst; exact Hg].
            apply Hh. apply (Permutation_in _ (Permutation_sym P1)). apply in_or_app; right; exact Hy.
          - change (pushed s0) with (pushed s) in *. change (buf s0) with (buf s) in *.
            assert (Eh' : Hd (fold_left apply_out (delta (log (buf s)) (log b1)) (set_buf s0 b1 (pushed s ++ [pg ev]))) = pg ev :: Hd s).
            { rewrite Eh. reflexivity. }
            split; [|split; [rewrite Et; reflexivity | exact Eh']].
            constructor.
            + exists ops'. rewrite Eb, Ep. split; auto. rewrite Ecs, !app_length, Elen. reflexivity.
            + unfold pgs. rewrite Et. exact Nt.
            + rewrite Eh'. constructor; auto.
            + rewrite Eh'. unfold pgs. rewrite Et. intros y [Hy|Hy]; [subst; exact Hg | apply Hh; exact Hy].
            + exists directs. rewrite Eh', Ep, Eb. split; [exact Ph | exact Pr].
            + exact Sm2. }
        match goal with |- context [if ?c then _ else _] => destruct c end; cbn [fst]; exact G.
  Qed.
End P.
