(* C01 across epochs from link_x, with the acceptance of the second order DERIVED: on valid streams the
   blocks of the reference walk ref_x (up to the seal) and the validators it switches to are a function of
   the SET of events of the epoch; a second instance that is fed, in every epoch, the same events in any
   other parents-first order (ids not repeated) accepts every event (acceptance_order_independent), has
   the same forkers, and goes through the same blocks, seals and validator sets. *)
From Coq Require Import NArith ZArith List Lia Bool ZifyBool ZifyN ZifyNat.
From LV Require Import lib.Bytes model.Codec model.VecIndex model.Abft model.AbftRun spec.ElectionSpec
  proofs.BftMono proofs.BftGraph proofs.BftRun proofs.BftMain proofs.BftAccept proofs.BftProps
  proofs.LinkVals proofs.LinkPerm proofs.LinkDefs proofs.LinkRun proofs.LinkSeal proofs.LinkNoise proofs.LinkReject proofs.LinkX
  proofs.LinkEpochX proofs.LinkEpochsX proofs.LinkXCor.
Import ListNotations.
Local Open Scope N_scope.

Section Valid.
Variable ep : N.
Variable vals : list (N * N).
Variable sfr : N -> option (list (N * N)).
Notation nv := (length vals).

Lemma first_some_prefix {A B} (g : A -> option B) l1 t x : first_some g l1 = Some x -> first_some g (l1 ++ t) = Some x.
Proof. induction l1 as [|a l1 IH]; cbn [first_some app]; [discriminate|]. destruct (g a); [auto | exact IH]. Qed.
Lemma cut_seal_prefix l1 t x : first_some (fun b => sfr (fst b)) l1 = Some x -> cut_seal sfr (l1 ++ t) = cut_seal sfr l1.
Proof.
  induction l1 as [|a l1 IH]; cbn [first_some app cut_seal]; [discriminate|]. destruct (sfr (fst a)); [reflexivity|].
  intros H. f_equal. apply IH. exact H.
Qed.
Lemma cut_seal_none l : first_some (fun b => sfr (fst b)) l = None -> cut_seal sfr l = l.
Proof.
  induction l as [|a l IH]; cbn [first_some cut_seal]; [reflexivity|]. destruct (sfr (fst a)); [discriminate|].
  intros H. f_equal. apply IH. exact H.
Qed.
Lemma cut_seal_incl l : incl (cut_seal sfr l) l.
Proof.
  induction l as [|a l IH]; cbn [cut_seal]; [apply incl_refl|]. destruct (sfr (fst a)).
  - intros x [<-|[]]. left. reflexivity.
  - intros x [<-|Hx]; [left; reflexivity | right; apply IH; exact Hx].
Qed.

(* on a stream that the reference accepts entirely: blocks and next validators are those of the final table *)
Lemma ref_x_valid : forall sc T Dr tn, wfTD vals T Dr -> codes_ok (snd (add_events vals T (map x_ev sc))) ->
  few_forkers vals (fst (add_events vals T (map x_ev sc))) -> seal_of vals sfr T = None ->
  let Tf := fst (add_events vals T (map x_ev sc)) in
  snd (ref_x ep vals sfr T sc tn) = seal_of vals sfr Tf /\
  snd (fst (ref_x ep vals sfr T sc tn)) = blocks_x vals sfr Tf (cut_seal sfr (r_blocks vals Tf)).
Proof.
  induction sc as [|s sc IH]; intros T Dr tn W Hc Hff S0; cbn zeta.
  - cbn [map add_events fst snd ref_x] in *. split; [symmetry; exact S0|]. rewrite (cut_seal_none _ S0). reflexivity.
  - cbn [map add_events] in *. destruct (add_event vals T (x_ev s)) as [T1 [c h]] eqn:AE.
    pose proof (LinkRun.add_events_incl vals (map x_ev sc) T1) as Inc.
    pose proof (add_events_wf vals (map x_ev sc) T1) as WF.
    destruct (add_events vals T1 (map x_ev sc)) as [T2 rs] eqn:AEs. cbn [fst snd] in *.
    assert (Hc0 : c = 0) by (apply (Hc (c, h)); left; reflexivity). subst c.
    destruct (add_event_accept vals T (x_ev s) T1 h AE) as (-> & PK & NL & CR & EW & FO).
    assert (W1 : wfTD vals (mk_node nv T (x_ev s) :: T) (x_ev s :: Dr)) by (constructor; assumption).
    assert (W2 : wfTD vals T2 (rev (map x_ev sc) ++ x_ev s :: Dr)) by (apply WF; [exact W1 | intros r Hr; apply Hc; right; exact Hr]).
    destruct (seal_of vals sfr (mk_node nv T (x_ev s) :: T)) as [nvals|] eqn:S1.
    + rewrite (ref_x_seal ep vals sfr T s sc tn _ 0 h nvals AE S1). cbn [fst snd].
      destruct (ref_blocks_prefix vals _ _ (wfTD_wfT _ _ _ W1) (wfTD_wfT _ _ _ W2) Hff Inc) as [t Et].
      unfold seal_of in *. rewrite Et, (first_some_prefix _ _ t _ S1), (cut_seal_prefix _ t _ S1). split; [reflexivity|].
      unfold blocks_x. apply map_ext_in. intros [f a] Hb. cbn [fst snd]. f_equal. f_equal.
      apply cut_seal_incl in Hb.
      destruct (blocks_atropos_in vals _ f a (wfTD_wfT _ _ _ W1) Hb) as [n [Hn Hid]]. unfold ElectionSpec.cheaters_of.
      rewrite <- Hid. rewrite (wf_lookup vals _ (wfTD_wfT _ _ _ W1) n Hn), (wf_lookup vals _ (wfTD_wfT _ _ _ W2) n (Inc n Hn)). reflexivity.
    + rewrite (ref_x_cont ep vals sfr T s sc tn _ 0 h AE S1). cbn [fst snd].
      specialize (IH _ _ tn W1). rewrite AEs in IH. cbn [fst snd] in IH. apply IH; [intros r Hr; apply Hc; right; exact Hr | exact Hff | exact S1].
Qed.
End Valid.

(* ---------- the same event set in another order ---------- *)
Lemma map_eq_pointwise {A B} (g g' : A -> B) l : map g l = map g' l -> forall x, In x l -> g x = g' x.
Proof. induction l as [|a l IH]; intros H x Hx; [destruct Hx|]. cbn [map] in H. inversion H. destruct Hx as [<-|Hx]; auto. Qed.

Lemma same_set_tables vals D D' : all_accepted vals D -> few_forkers vals (table vals D) -> incl D D' -> incl D' D ->
  NoDup (ids_of D') -> parents_first D' ->
  all_accepted vals D' /\ few_forkers vals (table vals D') /\ r_blocks vals (table vals D') = r_blocks vals (table vals D) /\
  forall b, In b (r_blocks vals (table vals D)) -> ElectionSpec.cheaters_of vals (table vals D') (snd b) = ElectionSpec.cheaters_of vals (table vals D) (snd b).
Proof.
  intros A Hff I I' ND PF.
  assert (A' : all_accepted vals D') by (apply (acceptance_order_independent vals D D' A I' ND PF)).
  pose proof (table_wfTD vals D A) as B1. pose proof (table_wfTD vals D' A') as B2.
  assert (HT : incl (table vals D') (table vals D)).
  { apply (node_indep vals _ _ B2 _ _ B1). intros x Hx. apply in_rev in Hx. apply in_rev. rewrite rev_involutive. apply I'. exact Hx. }
  assert (Hff' : few_forkers vals (table vals D')) by (eapply few_forkers_sub; [exact HT | exact Hff]).
  split; [exact A'|]. split; [exact Hff'|].
  pose proof (reference_same_set vals D' D A' A I' I Hff) as E. rewrite !reference_blocks in E.
  assert (EB : r_blocks vals (table vals D') = r_blocks vals (table vals D)).
  { assert (Pid : forall l : list (N * N), map (fun x : N * N => (fst x, snd x)) l = l).
    { induction l as [|[? ?] l IHl]; [reflexivity|]. cbn [map fst snd]. rewrite IHl. reflexivity. }
    apply (f_equal (map (fun x : N * N * list N => (fst (fst x), snd (fst x))))) in E. rewrite !map_map in E. cbn [fst snd] in E.
    rewrite !Pid in E. exact E. }
  split; [exact EB|]. intros b Hb. rewrite EB in E.
  pose proof (map_eq_pointwise _ _ _ E b Hb) as Eb. cbn beta in Eb. inversion Eb. reflexivity.
Qed.

Lemma ref_x_same_set ep vals sfr sc tn sc' tn' :
  let D := map x_ev sc in let D' := map x_ev sc' in
  all_accepted vals D -> few_forkers vals (table vals D) -> incl D D' -> incl D' D -> NoDup (ids_of D') -> parents_first D' ->
  snd (ref_x ep vals sfr [] sc' tn') = snd (ref_x ep vals sfr [] sc tn) /\
  snd (fst (ref_x ep vals sfr [] sc' tn')) = snd (fst (ref_x ep vals sfr [] sc tn)).
Proof.
  intros D D' A Hff I I' ND PF.
  destruct (same_set_tables vals D D' A Hff I I' ND PF) as (A' & Hff' & EB & EC).
  assert (S0 : seal_of vals sfr [] = None).
  { unfold seal_of. replace (r_blocks vals []) with (@nil (N * N)); [reflexivity|].
    unfold r_blocks, blocks_spec. reflexivity. }
  destruct (ref_x_valid ep vals sfr sc [] [] tn (wfTD_nil vals) A Hff S0) as [E1 E2].
  destruct (ref_x_valid ep vals sfr sc' [] [] tn' (wfTD_nil vals) A' Hff' S0) as [E1' E2'].
  fold D in E1, E2. fold D' in E1', E2'. fold (table vals D) in E1, E2. fold (table vals D') in E1', E2'.
  rewrite E1, E2, E1', E2'. unfold seal_of. rewrite EB. split; [reflexivity|].
  unfold blocks_x. apply map_ext_in. intros b Hb. rewrite (EC b (cut_seal_incl sfr _ b Hb)). reflexivity.
Qed.

(* ---------- several epochs ---------- *)
Definition noise_free (Sx : list xslot * list op) : Prop := (forall s, In s (fst Sx) -> x_pre s = [] /\ x_mid s = []) /\ snd Sx = [].

(* Ss': per epoch the same events as Ss, in another parents-first order, without noise *)
Fixpoint same_sets_x (pol : policy) (vals : list (N * N)) (ep : N) (Ss Ss' : list (list xslot * list op)) : Prop :=
  match Ss, Ss' with
  | [], [] => True
  | Sx :: r, Sx' :: r' =>
    let D := map x_ev (fst Sx) in let D' := map x_ev (fst Sx') in
    all_accepted vals D /\ incl D D' /\ incl D' D /\ NoDup (ids_of D') /\ parents_first D' /\ noise_free Sx' /\
    match snd (ref_x ep vals (praw pol ep) [] (fst Sx) (snd Sx)) with
    | Some nvals => same_sets_x pol nvals (ep + 1) r r'
    | None => r' = []
    end
  | _, _ => False
  end.

Definition epoch_out {A B} (r : list ev_x * A * B) : A * B := (snd (fst r), snd r).

Lemma ids_ok_valid vals K : forall D T Jl, codes_ok (snd (add_events vals T D)) ->
  (ids_ok vals K T Jl D <-> forall e, In e D -> id_fresh K (eid (fe e)) /\ ~ In (eid (fe e)) Jl).
Proof.
  induction D as [|e D IH]; intros T Jl Hc; cbn [ids_ok]; [split; [intros _ e0 [] | auto]|].
  cbn [add_events] in Hc. destruct (add_event vals T e) as [T1 [c h]]. destruct (add_events vals T1 D) as [T2 rs] eqn:AEs. cbn [snd] in Hc.
  assert (c = 0) by (apply (Hc (c, h)); left; reflexivity). subst c. cbn [N.eqb].
  specialize (IH T1 Jl). rewrite AEs in IH. cbn [snd] in IH. rewrite IH by (intros r Hr; apply Hc; right; exact Hr).
  split.
  - intros [H1 H2] e0 [<-|He0]; [apply H1; lia | apply H2; exact He0].
  - intros H. split; [intros _; apply H; left; reflexivity | intros e0 He0; apply H; right; exact He0].
Qed.
Lemma sched_in_noise_free ep vals sfr : forall sc T ids, (forall s, In s sc -> x_pre s = [] /\ x_mid s = []) -> sched_in ep vals sfr T ids sc [].
Proof.
  induction sc as [|s sc IH]; intros T ids H; cbn [sched_in]; [constructor|].
  destruct (H s (or_introl eq_refl)) as [-> ->]. split; [constructor|]. split; [constructor|].
  destruct (add_event vals T (x_ev s)) as [T1 [c h]]. destruct (seal_of vals sfr T1).
  - clear - H. induction sc as [|s0 sc IHs]; cbn [post_in]; [constructor|].
    destruct (H s0 (or_intror (or_introl eq_refl))) as [-> ->]. split; [constructor|]. split; [constructor|].
    apply IHs. intros s1 [<-|Hs1]; [apply H; left; reflexivity | apply H; right; right; exact Hs1].
  - apply IH. intros s0 Hs0. apply H. right. exact Hs0.
Qed.

Lemma epochs_ok_x_same_sets pol K : forall Ss Ss' vals ep, epochs_ok_x pol K vals ep Ss -> same_sets_x pol vals ep Ss Ss' ->
  epochs_ok_x pol K vals ep Ss' /\
  map epoch_out (ref_epochs_x pol vals ep Ss') = map epoch_out (ref_epochs_x pol vals ep Ss).
Proof.
  induction Ss as [|[sc tn] rest IH]; intros [|[sc' tn'] rest'] vals ep OK SS; cbn [same_sets_x] in SS; try contradiction; [split; [exact I | reflexivity]|].
  cbn [fst snd] in SS. destruct SS as (A & I1 & I2 & ND & PF & [NF1 NF2] & Nx). cbn [snd fst] in NF1, NF2. subst tn'.
  cbn [epochs_ok_x fst snd] in OK. destruct OK as (R & Tt & (Hcr & Hc & Hff) & Id & Sn & Po & OKn).
  destruct (same_set_tables vals _ _ A Hff I1 I2 ND PF) as (A' & Hff' & _ & _).
  destruct (ref_x_same_set ep vals (praw pol ep) sc tn sc' [] A Hff I1 I2 ND PF) as [E1 E2].
  cbn [epochs_ok_x ref_epochs_x map fst snd]. rewrite E1. unfold epoch_out at 1 3. rewrite E1, E2.
  assert (OK1 : stream_ok vals (map x_ev sc') /\ ids_ok vals K [] [] (map x_ev sc')).
  { split.
    - split; [intros e He; apply Hcr; apply I2; exact He|]. split; [intros r Hr; rewrite (A' r Hr); lia | exact Hff'].
    - apply (ids_ok_valid vals K _ [] [] A'). intros e He. apply (proj1 (ids_ok_valid vals K _ [] [] A) Id). apply I2. exact He. }
  destruct (snd (ref_x ep vals (praw pol ep) [] sc tn)) as [nvals|].
  - destruct (IH rest' nvals (ep + 1) OKn Nx) as [OK' E'].
    split; [|rewrite E'; reflexivity].
    split; [exact R|]. split; [exact Tt|]. split; [apply OK1|]. split; [apply OK1|]. split; [apply sched_in_noise_free; exact NF1|]. split; [exact Po | exact OK'].
  - subst rest'. split; [|reflexivity].
    split; [exact R|]. split; [exact Tt|]. split; [apply OK1|]. split; [apply OK1|]. split; [apply sched_in_noise_free; exact NF1|]. split; [exact Po | exact I].
Qed.

Lemma map_epoch_out_commute (l : list (list ev_x * list blk_x * option (list (N * N)))) :
  map epoch_out (map (fun r => (fst (fst r), snd (fst r), option_map mk_vals (snd r))) l) =
  map (fun p : list blk_x * option (list (N * N)) => (fst p, option_map mk_vals (snd p))) (map epoch_out l).
Proof. rewrite !map_map. apply map_ext. intros [[a b] c]. reflexivity. Qed.

(* C01 across epochs for the model of the code, arbitrary policy, acceptance of the second order derived *)
Theorem link_x_same_sets cap lam pol vals Ss Ss' K :
  vals <> [] -> epochs_ok_x pol K vals 1 Ss -> same_sets_x pol vals 1 Ss Ss' ->
  N.of_nat (total_builds Ss) <= K -> N.of_nat (total_builds Ss') <= K -> K < 2 ^ 192 ->
  map epoch_out (model_epochs_x cap lam pol (start 1 vals) vals 1 Ss') = map epoch_out (model_epochs_x cap lam pol (start 1 vals) vals 1 Ss).
Proof.
  intros Ne OK SS Hb Hb' HK. destruct (epochs_ok_x_same_sets pol K Ss Ss' vals 1 OK SS) as [OK' E].
  rewrite (link_x cap lam pol vals Ss K Ne OK Hb HK), (link_x cap lam pol vals Ss' K Ne OK' Hb' HK).
  rewrite !map_epoch_out_commute, E. reflexivity.
Qed.
