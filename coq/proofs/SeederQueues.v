(* C17: sender queues.  Pending-memory accounting and bound; per-incarnation FIFO (responses
   are sent in the order the reader produced them). *)
From Coq Require Import NArith List Bool Lia Arith.
From Coq Require Import ZifyBool ZifyNat ZifyN.
From LV Require Import model.Seeder spec.SeederSpec proofs.SeederProofs.
Import ListNotations.
Local Open Scope N_scope.

(* ---------------------------------------------------------------------------------- *)
(* pending memory                                                                      *)
(* ---------------------------------------------------------------------------------- *)
Fixpoint mem_sum (cfg : config) (l : list resp) : N :=
  match l with [] => 0 | r :: t => resp_mem cfg r + mem_sum cfg t end.

Lemma mem_sum_app : forall cfg l m, mem_sum cfg (l ++ m) = mem_sum cfg l + mem_sum cfg m.
Proof. induction l as [|x l IH]; intros m; simpl; [reflexivity|]. rewrite IH. lia. Qed.

Lemma mem_sum_pos_In : forall cfg l, mem_sum cfg l <> 0 -> exists r, In r l.
Proof. intros cfg [|x l] H; simpl in *; [congruence|eauto]. Qed.

Lemma upd_snoc_sum : forall cfg r qs j, (j < length qs)%nat ->
  mem_sum cfg (concat (list_upd j (fun q => q ++ [r]) qs)) = mem_sum cfg (concat qs) + resp_mem cfg r.
Proof.
  intros cfg r qs. induction qs as [|q qs IH]; intros j H; simpl in H; [lia|].
  destruct j; simpl.
  - rewrite !mem_sum_app. simpl. lia.
  - rewrite !mem_sum_app. rewrite IH by lia. lia.
Qed.

Lemma upd_tl_sum : forall cfg r q0 qs i, nth i qs [] = r :: q0 ->
  mem_sum cfg (concat qs) = resp_mem cfg r + mem_sum cfg (concat (list_upd i (fun q => tl q) qs)).
Proof.
  intros cfg r q0 qs. induction qs as [|q qs IH]; intros i H; destruct i; simpl in *; try discriminate.
  - subst q. simpl. rewrite !mem_sum_app. lia.
  - rewrite !mem_sum_app. rewrite (IH _ H). lia.
Qed.

Lemma In_upd_snoc_old : forall (r r0 : resp) qs j,
  In r (concat qs) -> In r (concat (list_upd j (fun q => q ++ [r0]) qs)).
Proof.
  intros r r0 qs. induction qs as [|q qs IH]; intros j H; destruct j; simpl in *; auto.
  - rewrite in_app_iff in *. rewrite in_app_iff. intuition.
  - rewrite in_app_iff in *. destruct H; auto.
Qed.

Lemma In_upd_snoc_new : forall (r0 : resp) qs j, (j < length qs)%nat ->
  In r0 (concat (list_upd j (fun q => q ++ [r0]) qs)).
Proof.
  intros r0 qs. induction qs as [|q qs IH]; intros j H; simpl in H; [lia|].
  destruct j; simpl; rewrite in_app_iff.
  - left. rewrite in_app_iff. right. left. reflexivity.
  - right. apply IH. lia.
Qed.

Lemma In_upd_tl_keep : forall (r r0 : resp) q0 qs i, nth i qs [] = r0 :: q0 ->
  In r (concat qs) -> In r (concat (list_upd i (fun q => tl q) qs)) \/ r = r0.
Proof.
  intros r r0 q0 qs. induction qs as [|q qs IH]; intros i Hn H; destruct i; simpl in *; try discriminate; auto.
  - subst q. simpl in H. simpl. destruct H as [H|H]; auto.
  - rewrite in_app_iff in *. destruct H as [H|H]; auto.
    destruct (IH _ Hn H); auto.
Qed.

(* the response whose memory the reader has already added while it waits in Enqueue *)
Definition pc_added (pc : rpc) : list resp := match pc with REnq _ _ _ r => [r] | _ => [] end.
Definition accounted (st : state) : list resp := concat (st_senders st) ++ pc_added (st_reader st).

Definition pend_inv (cfg : config) (st : state) : Prop :=
  st_pending st = mem_sum cfg (accounted st).

(* never more than one response above the limit *)
Definition pend_bound (cfg : config) (st : state) : Prop :=
  st_pending st = 0 \/
  exists r, In r (accounted st) /\ st_pending st < c_limit cfg + resp_mem cfg r.

Lemma step_pending : forall v cfg db st o st' evs,
  pend_inv cfg st -> pend_bound cfg st -> step v cfg db st o = Some (st', evs) ->
  pend_inv cfg st' /\ pend_bound cfg st'.
Proof.
  intros v cfg db st o st' evs HI HB H. unfold pend_inv, pend_bound, accounted in *.
  assert (Hsame : forall st1, st_senders st1 = st_senders st -> st_pending st1 = st_pending st ->
                  pc_added (st_reader st1) = pc_added (st_reader st) ->
                  st_pending st1 = mem_sum cfg (concat (st_senders st1) ++ pc_added (st_reader st1)) /\
                  (st_pending st1 = 0 \/ exists r, In r (concat (st_senders st1) ++ pc_added (st_reader st1)) /\
                                                   st_pending st1 < c_limit cfg + resp_mem cfg r)).
  { intros st1 E1 E2 E3. rewrite E1, E2, E3. auto. }
  destruct o as [rq|p| | | |i]; simpl in H.
  - destruct (c_maxchunks cfg <? r_chunks rq).
    + inversion H; subst. apply Hsame; reflexivity.
    + destruct (16 <=? N.of_nat (length (st_chreq st))); [discriminate|]. inversion H; subst. apply Hsame; reflexivity.
  - destruct (128 <=? N.of_nat (length (st_chunreg st))); [discriminate|]. inversion H; subst. apply Hsame; reflexivity.
  - destruct (st_reader st) eqn:Epc; try discriminate. destruct (st_chreq st) as [|rq0 rest0]; [discriminate|].
    inversion H; subst. apply Hsame; simpl; try rewrite Epc; reflexivity.
  - destruct (st_reader st) eqn:Epc; try discriminate. destruct (st_chunreg st) as [|p0 rest0]; [discriminate|].
    inversion H; subst. apply Hsame; simpl; try rewrite Epc; reflexivity.
  - destruct (st_reader st) as [|rq|rq i ss|rq i ss r0|rq i ss r0] eqn:Epc; try discriminate.
    + destruct (st_pending st <? c_limit cfg); [|discriminate].
      destruct (reader_top v cfg st rq) as [st1 e1] eqn:Et. inversion H; subst.
      destruct (reader_top_resps _ _ _ _ _ _ Et) as [Hs [Hpc [Hp _]]]. apply Hsame; auto.
      simpl. destruct (st_reader st'); simpl in *; try reflexivity; discriminate.
    + inversion H; subst. unfold reader_chunk.
      destruct ((i <? r_chunks rq) && negb (s_done ss)).
      * destruct (foreach db (s_next ss) (s_stop ss) (r_num rq) (r_size rq) [] (s_next ss)) as [[items last] c].
        apply Hsame; simpl; try rewrite Epc; reflexivity.
      * apply Hsame; simpl; try rewrite Epc; reflexivity.
    + (* the addition *)
      unfold reader_add in H. destruct (st_pending st <? c_limit cfg) eqn:Elim; [|discriminate].
      inversion H; subst. simpl in *. rewrite app_nil_r in *. split.
      * rewrite mem_sum_app. simpl. lia.
      * right. exists r0. split; [apply in_or_app; right; left; reflexivity|lia].
    + (* the enqueue *)
      unfold reader_send in H.
      destruct (N.of_nat (length (nth (s_sender ss) (st_senders st) [])) <=? c_maxtasks cfg); [|discriminate].
      destruct (Nat.ltb (s_sender ss) (length (st_senders st))) eqn:Eidx; [|discriminate].
      simpl in H. inversion H; subst. simpl in *. rewrite app_nil_r.
      apply Nat.ltb_lt in Eidx. rewrite mem_sum_app in HI. simpl in HI. split.
      * rewrite upd_snoc_sum by exact Eidx. lia.
      * destruct HB as [HB|[rw [Hin Hlt]]]; [left; exact HB|right].
        exists rw. split; [|exact Hlt]. apply in_app_or in Hin. destruct Hin as [Hin|[<-|[]]].
        -- apply In_upd_snoc_old. exact Hin.
        -- apply In_upd_snoc_new. exact Eidx.
  - destruct (nth i (st_senders st) []) as [|r0 q] eqn:En; [discriminate|].
    inversion H; subst. simpl.
    pose proof (upd_tl_sum cfg _ _ _ _ En) as Hsum. rewrite mem_sum_app in *.
    split; [lia|].
    destruct (N.eq_dec (st_pending st - resp_mem cfg r0) 0) as [E0|E0]; [left; exact E0|right].
    assert (Hne : mem_sum cfg (concat (list_upd i (fun q => tl q) (st_senders st)) ++ pc_added (st_reader st)) <> 0)
      by (rewrite mem_sum_app; lia).
    destruct HB as [HB|[rw [Hin Hlt]]]; [lia|].
    apply in_app_or in Hin. destruct Hin as [Hin|Hin].
    + destruct (In_upd_tl_keep _ _ _ _ _ En Hin) as [Hk|Hk].
      * exists rw. split; [apply in_or_app; left; exact Hk|lia].
      * subst rw. destruct (mem_sum_pos_In _ _ Hne) as [r1 Hr1]. exists r1. split; [exact Hr1|lia].
    + exists rw. split; [apply in_or_app; right; exact Hin|lia].
Qed.

Lemma run_pending : forall v cfg db ops st st' evs,
  pend_inv cfg st -> pend_bound cfg st -> run v cfg db st ops = (st', evs) ->
  pend_inv cfg st' /\ pend_bound cfg st'.
Proof.
  intros v cfg db ops. induction ops as [|o ops IH]; intros st st' evs HI HB H; simpl in H.
  - inversion H; subst. auto.
  - destruct (step v cfg db st o) as [[st1 e1]|] eqn:Es.
    + destruct (run v cfg db st1 ops) as [st2 e2] eqn:Er. inversion H; subst.
      destruct (step_pending _ _ _ _ _ _ _ HI HB Es) as [HI1 HB1]. eapply IH; eauto.
    + eapply IH; eauto.
Qed.

Lemma concat_repeat_nil : forall n, concat (repeat (@nil resp) n) = [].
Proof. induction n; simpl; auto. Qed.

(* T4: in every reachable state the pending memory is the memory of the responses the reader
   has accounted for and that are not yet acknowledged by a sender worker (queued, being sent,
   or added and waiting in Enqueue), and exceeds the limit by less than one of them *)
Lemma pending_bounded : forall v cfg db ops,
  let st := fst (run v cfg db (init cfg) ops) in
  st_pending st = mem_sum cfg (accounted st) /\
  (st_pending st = 0 \/
   exists r, In r (accounted st) /\ st_pending st < c_limit cfg + resp_mem cfg r).
Proof.
  intros v cfg db ops. destruct (run v cfg db (init cfg) ops) as [st' evs] eqn:Er. simpl.
  eapply (run_pending v cfg db ops (init cfg)); eauto.
  - unfold pend_inv, accounted, init. simpl. rewrite concat_repeat_nil. reflexivity.
  - left. reflexivity.
Qed.

(* ---------------------------------------------------------------------------------- *)
(* per-incarnation FIFO                                                                *)
(* ---------------------------------------------------------------------------------- *)
Definition sel (k : N) (l : list resp) : list resp := filter (fun r => rs_inc r =? k) l.

Fixpoint enqs (tr : list event) : list resp :=
  match tr with [] => [] | EEnq r :: t => r :: enqs t | _ :: t => enqs t end.
Fixpoint sents (tr : list event) : list resp :=
  match tr with [] => [] | ESent r :: t => r :: sents t | _ :: t => sents t end.

Lemma enqs_app : forall a b, enqs (a ++ b) = enqs a ++ enqs b.
Proof. induction a as [|e a IH]; intros b; simpl; [reflexivity|]. destruct e; simpl; rewrite ?IH; reflexivity. Qed.
Lemma sents_app : forall a b, sents (a ++ b) = sents a ++ sents b.
Proof. induction a as [|e a IH]; intros b; simpl; [reflexivity|]. destruct e; simpl; rewrite ?IH; reflexivity. Qed.
Lemma sel_app : forall k a b, sel k (a ++ b) = sel k a ++ sel k b.
Proof. intros. unfold sel. apply filter_app. Qed.

Definition sess_wf (cfg : config) (ss : sess) : Prop := s_sender ss = sender_of cfg (s_inc ss).

Definition pc_wf (cfg : config) (pc : rpc) : Prop :=
  match pc with
  | RChunk _ _ ss => sess_wf cfg ss
  | RSend _ _ ss r | REnq _ _ ss r => sess_wf cfg ss /\ rs_inc r = s_inc ss
  | _ => True
  end.

Record qinv (cfg : config) (st : state) : Prop := mkQinv {
  q_table : Forall (fun kv => sess_wf cfg (snd kv)) (st_sessions st);
  q_pc : pc_wf cfg (st_reader st);
  q_home : forall j r, In r (nth j (st_senders st) []) -> sender_of cfg (rs_inc r) = j
}.

Lemma sess_get_In : forall k m ss, sess_get k m = Some ss -> exists k', In (k', ss) m.
Proof.
  intros k m. induction m as [|[k' v] m IH]; intros ss H; simpl in H; [discriminate|].
  destruct (key_eqb k k').
  - inversion H; subst. exists k'. left. reflexivity.
  - destruct (IH _ H) as [k'' Hin]. exists k''. right. exact Hin.
Qed.

Lemma Forall_sess_del : forall (P : (N * N) * sess -> Prop) k m, Forall P m -> Forall P (sess_del k m).
Proof.
  intros P k m H. unfold sess_del. rewrite Forall_forall in *. intros x Hx.
  apply filter_In in Hx. apply H. tauto.
Qed.

Lemma Forall_sess_put : forall (P : (N * N) * sess -> Prop) k v m,
  Forall P m -> P (k, v) -> Forall P (sess_put k v m).
Proof.
  intros P k v m H Hv. unfold sess_put. apply Forall_app. split; [apply Forall_sess_del; exact H|].
  constructor; [exact Hv|constructor].
Qed.

Lemma Forall_del_all : forall (P : (N * N) * sess -> Prop) p sids m, Forall P m -> Forall P (del_all p sids m).
Proof.
  intros P p sids. induction sids as [|s sids IH]; intros m H; simpl; [exact H|].
  apply IH. apply Forall_sess_del. exact H.
Qed.

Lemma Forall_prune : forall (P : (N * N) * sess -> Prop) p sessions m,
  Forall P m -> Forall P (snd (prune p sessions m)).
Proof.
  intros P p sessions m H. unfold prune. destruct sessions as [|o rest]; [exact H|].
  destruct (2 <? N.of_nat (length (o :: rest))); [apply Forall_sess_del; exact H|exact H].
Qed.

Lemma reader_top_wf : forall v cfg st rq st' evs,
  Forall (fun kv => sess_wf cfg (snd kv)) (st_sessions st) ->
  reader_top v cfg st rq = (st', evs) ->
  Forall (fun kv => sess_wf cfg (snd kv)) (st_sessions st') /\ pc_wf cfg (st_reader st') /\
  enqs evs = [] /\ sents evs = [].
Proof.
  intros v cfg st rq st' evs HT H. unfold reader_top in H.
  set (P := fun kv : (N * N) * sess => sess_wf cfg (snd kv)) in *.
  assert (H1 : Forall P (snd (if prune_always v
                               then prune (r_peer rq) (ps_get (r_peer rq) (st_peersess st)) (st_sessions st)
                               else (ps_get (r_peer rq) (st_peersess st), st_sessions st)))).
  { destruct (prune_always v); [apply Forall_prune; exact HT|exact HT]. }
  destruct (if prune_always v then prune (r_peer rq) (ps_get (r_peer rq) (st_peersess st)) (st_sessions st)
            else (ps_get (r_peer rq) (st_peersess st), st_sessions st)) as [sessions1 table1].
  simpl in H1.
  destruct (sess_get (r_peer rq, r_sid rq) table1) as [ss|] eqn:Eg.
  - destruct (sess_get_In _ _ _ Eg) as [k' Hin].
    assert (Hwf : sess_wf cfg ss) by (rewrite Forall_forall in H1; exact (H1 _ Hin)).
    destruct (s_orig ss =? r_start rq); inversion H; subst; simpl; auto.
  - assert (H2 : Forall P (snd (if prune_always v then (sessions1, table1)
                                 else prune (r_peer rq) sessions1 table1))).
    { destruct (prune_always v); [exact H1|apply Forall_prune; exact H1]. }
    destruct (if prune_always v then (sessions1, table1) else prune (r_peer rq) sessions1 table1) as [s2 t2].
    simpl in H2. inversion H; subst; simpl.
    assert (Hnew : sess_wf cfg (mkSess (r_start rq) (r_start rq) (r_stop rq) false
                                       (sender_of cfg (st_counter st)) (st_counter st) (r_serial rq)))
      by reflexivity.
    split; [|auto].
    destruct (store_on_create v); [apply Forall_sess_put; [exact H2|exact Hnew]|exact H2].
Qed.

Definition queued (cfg : config) (k : N) (st : state) : list resp :=
  sel k (nth (sender_of cfg k) (st_senders st) []).

Definition fifo_inv (cfg : config) (st : state) (tr : list event) : Prop :=
  forall k, sel k (enqs tr) = sel k (sents tr) ++ queued cfg k st.

Lemma sel_snoc_same : forall k l r, rs_inc r = k -> sel k (l ++ [r]) = sel k l ++ [r].
Proof. intros k l r H. rewrite sel_app. simpl. subst k. rewrite N.eqb_refl. reflexivity. Qed.
Lemma sel_snoc_other : forall k l r, rs_inc r <> k -> sel k (l ++ [r]) = sel k l.
Proof.
  intros k l r H. rewrite sel_app. simpl. destruct (rs_inc r =? k) eqn:E; [apply N.eqb_eq in E; congruence|].
  apply app_nil_r.
Qed.

Lemma step_fifo : forall v cfg db st tr o st' evs,
  qinv cfg st -> fifo_inv cfg st tr -> step v cfg db st o = Some (st', evs) ->
  qinv cfg st' /\ fifo_inv cfg st' (tr ++ evs).
Proof.
  intros v cfg db st tr o st' evs [HT HPC HH] HF H.
  assert (Hsame : forall st1, st_senders st1 = st_senders st -> enqs evs = [] -> sents evs = [] ->
                  fifo_inv cfg st1 (tr ++ evs)).
  { intros st1 Hs He Hse k. rewrite enqs_app, sents_app, He, Hse, !app_nil_r.
    unfold queued. rewrite Hs. apply HF. }
  destruct o as [rq|p| | | |i]; simpl in H.
  - destruct (c_maxchunks cfg <? r_chunks rq).
    + inversion H; subst. split; [constructor; simpl; auto|apply Hsame; reflexivity].
    + destruct (16 <=? N.of_nat (length (st_chreq st))); [discriminate|].
      inversion H; subst. split; [constructor; simpl; auto|apply Hsame; reflexivity].
  - destruct (128 <=? N.of_nat (length (st_chunreg st))); [discriminate|].
    inversion H; subst. split; [constructor; simpl; auto|apply Hsame; reflexivity].
  - destruct (st_reader st) eqn:Epc; try discriminate. destruct (st_chreq st) as [|rq0 rest0]; [discriminate|].
    inversion H; subst. split; [constructor; simpl; auto|apply Hsame; reflexivity].
  - destruct (st_reader st) eqn:Epc; try discriminate. destruct (st_chunreg st) as [|p0 rest0]; [discriminate|].
    inversion H; subst. split; [|apply Hsame; reflexivity].
    constructor; simpl; auto. apply Forall_del_all. exact HT.
  - destruct (st_reader st) as [|rq|rq i ss|rq i ss r0|rq i ss r0] eqn:Epc; try discriminate.
    + destruct (st_pending st <? c_limit cfg); [|discriminate].
      destruct (reader_top v cfg st rq) as [st1 e1] eqn:Et. inversion H; subst.
      destruct (reader_top_wf _ _ _ _ _ _ HT Et) as [HT1 [HPC1 [He Hs]]].
      destruct (reader_top_resps _ _ _ _ _ _ Et) as [Hsd _].
      split; [constructor; auto; rewrite Hsd; exact HH|apply Hsame; auto].
    + inversion H; subst. simpl in HPC. unfold reader_chunk.
      destruct ((i <? r_chunks rq) && negb (s_done ss)).
      * destruct (foreach db (s_next ss) (s_stop ss) (r_num rq) (r_size rq) [] (s_next ss)) as [[items last] c].
        split; [|apply Hsame; reflexivity].
        constructor; simpl; auto.
        apply Forall_sess_put; [exact HT|exact HPC].
      * split; [constructor; simpl; auto|apply Hsame; reflexivity].
    + unfold reader_add in H. destruct (st_pending st <? c_limit cfg); [|discriminate].
      inversion H; subst. split; [constructor; simpl; auto|apply Hsame; reflexivity].
    + unfold reader_send in H.
      destruct (N.of_nat (length (nth (s_sender ss) (st_senders st) [])) <=? c_maxtasks cfg); [|discriminate].
      destruct (Nat.ltb (s_sender ss) (length (st_senders st))) eqn:Eidx; [|discriminate].
      simpl in H. inversion H; subst. apply Nat.ltb_lt in Eidx. simpl in HPC. destruct HPC as [Hwf Hinc].
      split.
      * constructor; simpl; auto. intros j r Hr.
        destruct (Nat.eq_dec (s_sender ss) j) as [E|E].
        -- subst j. rewrite (list_upd_nth_same _ _ _ _ _ Eidx) in Hr. apply in_app_or in Hr.
           destruct Hr as [Hr|[Hr|[]]]; [apply HH; exact Hr|]. subst r. rewrite Hinc. symmetry. exact Hwf.
        -- rewrite (list_upd_nth_other _ _ _ _ _ _ E) in Hr. apply HH. exact Hr.
      * intros k. rewrite enqs_app, sents_app. simpl. rewrite app_nil_r.
        unfold queued. simpl.
        destruct (N.eq_dec (rs_inc r0) k) as [E|E].
        -- assert (Ej : sender_of cfg k = s_sender ss) by (rewrite <- E, Hinc; symmetry; exact Hwf).
           rewrite Ej. rewrite (list_upd_nth_same _ _ _ _ _ Eidx).
           rewrite (sel_snoc_same _ _ _ E), (sel_snoc_same _ _ _ E). rewrite HF. unfold queued. rewrite Ej.
           rewrite app_assoc. reflexivity.
        -- rewrite (sel_snoc_other _ _ _ E). rewrite HF. unfold queued. f_equal.
           destruct (Nat.eq_dec (s_sender ss) (sender_of cfg k)) as [Ej|Ej].
           ++ rewrite <- Ej. rewrite (list_upd_nth_same _ _ _ _ _ Eidx). rewrite (sel_snoc_other _ _ _ E). reflexivity.
           ++ rewrite (list_upd_nth_other _ _ _ _ _ _ Ej). reflexivity.
  - destruct (nth i (st_senders st) []) as [|r0 q] eqn:En; [discriminate|].
    inversion H; subst.
    assert (Hi : (i < length (st_senders st))%nat).
    { destruct (Nat.lt_ge_cases i (length (st_senders st))) as [Hl|Hl]; [exact Hl|].
      rewrite (nth_overflow _ _ Hl) in En. discriminate. }
    assert (Hhome : sender_of cfg (rs_inc r0) = i) by (apply HH; rewrite En; left; reflexivity).
    split.
    + constructor; simpl; auto. intros j r Hr.
      destruct (Nat.eq_dec i j) as [E|E].
      * subst j. rewrite (list_upd_nth_same _ _ _ _ _ Hi) in Hr. rewrite En in Hr. simpl in Hr.
        apply HH. rewrite En. right. exact Hr.
      * rewrite (list_upd_nth_other _ _ _ _ _ _ E) in Hr. apply HH. exact Hr.
    + intros k. rewrite enqs_app, sents_app. simpl. rewrite app_nil_r.
      unfold queued. simpl. rewrite HF. unfold queued.
      destruct (N.eq_dec (rs_inc r0) k) as [E|E].
      * rewrite (sel_snoc_same _ _ _ E). subst k. rewrite Hhome.
        rewrite (list_upd_nth_same _ _ _ _ _ Hi). rewrite En. simpl. rewrite N.eqb_refl.
        rewrite <- app_assoc. reflexivity.
      * rewrite (sel_snoc_other _ _ _ E). f_equal.
        destruct (Nat.eq_dec i (sender_of cfg k)) as [Ej|Ej].
        -- rewrite <- Ej. rewrite (list_upd_nth_same _ _ _ _ _ Hi). rewrite En. simpl.
           destruct (rs_inc r0 =? k) eqn:E'; [apply N.eqb_eq in E'; congruence|reflexivity].
        -- rewrite (list_upd_nth_other _ _ _ _ _ _ Ej). reflexivity.
Qed.

Lemma run_fifo : forall v cfg db ops st tr st' evs,
  qinv cfg st -> fifo_inv cfg st tr -> run v cfg db st ops = (st', evs) ->
  qinv cfg st' /\ fifo_inv cfg st' (tr ++ evs).
Proof.
  intros v cfg db ops. induction ops as [|o ops IH]; intros st tr st' evs HQ HF H; simpl in H.
  - inversion H; subst. rewrite app_nil_r. auto.
  - destruct (step v cfg db st o) as [[st1 e1]|] eqn:Es.
    + destruct (run v cfg db st1 ops) as [st2 e2] eqn:Er. inversion H; subst.
      destruct (step_fifo _ _ _ _ _ _ _ _ HQ HF Es) as [HQ1 HF1].
      rewrite app_assoc. eapply IH; eauto.
    + eapply IH; eauto.
Qed.

Lemma nth_repeat_nil : forall n j, nth j (repeat (@nil resp) n) [] = [].
Proof. induction n; intros j; destruct j; simpl; auto. Qed.

Lemma qinv_init : forall cfg, qinv cfg (init cfg).
Proof.
  intros cfg. constructor; simpl; auto. intros j r Hr. rewrite nth_repeat_nil in Hr. destruct Hr.
Qed.

Lemma fifo_init : forall cfg, fifo_inv cfg (init cfg) [].
Proof. intros cfg k. unfold queued. simpl. rewrite nth_repeat_nil. reflexivity. Qed.

(* the responses of an incarnation are sent in the order in which the reader produced them:
   what has been sent is an initial segment of what has been enqueued *)
Lemma fifo_per_incarnation : forall v cfg db ops k,
  let tr := snd (run v cfg db (init cfg) ops) in
  exists rest, sel k (enqs tr) = sel k (sents tr) ++ rest.
Proof.
  intros v cfg db ops k. destruct (run v cfg db (init cfg) ops) as [st' evs] eqn:Er. simpl.
  destruct (run_fifo _ _ _ _ _ _ _ _ (qinv_init cfg) (fifo_init cfg) Er) as [_ HF].
  simpl in HF. exists (queued cfg k st'). apply HF.
Qed.
