(* Corollaries of L1 over epochs: C09 (an instance Reset to an epoch and validator set behaves, on that
   epoch's events, exactly like the instance that reached the epoch by sealing — both equal the reference),
   C01 across epochs (two instances fed the same event sets per epoch, in different orders, emit the same
   blocks, seal at the same points and go through the same validator sets). *)
From Coq Require Import NArith ZArith List Lia Bool ZifyBool ZifyN ZifyNat.
From LV Require Import model.VecIndex model.Abft model.AbftRun spec.ElectionSpec
  proofs.BftGraph proofs.BftMain proofs.BftRun proofs.BftAccept proofs.BftProps
  proofs.LinkVals proofs.LinkPerm proofs.LinkDefs proofs.LinkEpoch proofs.LinkSeal proofs.LinkEpochs.
Import ListNotations.
Local Open Scope N_scope.

(* Orderer.Reset (operation RESET of the application) yields the instance an epoch starts with *)
Lemma reset_is_fresh cap pol i ep raw :
  step cap pol sample i (OpReset ep raw) =
  (ObsReset 0 ep, fresh_inst ep (mk_vals raw) [] (l_ctr (i_st i)) (i_es i), false).
Proof. reflexivity. Qed.

(* C09: from ANY instance, after Reset(epoch, validators) the run over the epochs' events is the reference's *)
Theorem link_after_reset cap lam pol seal polr K i ep vals Ds : K < 2 ^ 192 ->
  epochs_ok seal polr vals ep Ds -> pol_ok pol seal polr vals ep (length Ds) ->
  (forall D e, In D Ds -> In e D -> id_fresh K (eid (fe e))) -> l_ctr (i_st i) + N.of_nat (total_events Ds) <= K ->
  model_epochs cap lam pol polr (snd (fst (step cap pol sample i (OpReset ep vals)))) vals ep Ds = reference_epochs seal polr vals ep Ds.
Proof. intros HK OK PO Hfr Hc. rewrite reset_is_fresh. cbn [fst snd]. apply (model_epochs_sim cap lam pol seal polr K HK); assumption. Qed.

(* the instance after a sealing epoch and the Reset instance are observationally equal on the later epochs *)
Theorem sealed_equals_reset cap lam pol seal polr K ep vals Ds conf1 c1 es1 conf2 c2 es2 : K < 2 ^ 192 ->
  epochs_ok seal polr vals ep Ds -> pol_ok pol seal polr vals ep (length Ds) ->
  (forall D e, In D Ds -> In e D -> id_fresh K (eid (fe e))) ->
  c1 + N.of_nat (total_events Ds) <= K -> c2 + N.of_nat (total_events Ds) <= K ->
  model_epochs cap lam pol polr (fresh_inst ep (mk_vals vals) conf1 c1 es1) vals ep Ds =
  model_epochs cap lam pol polr (fresh_inst ep (mk_vals vals) conf2 c2 es2) vals ep Ds.
Proof.
  intros HK OK PO Hfr H1 H2.
  rewrite (model_epochs_sim cap lam pol seal polr K HK Ds vals ep conf1 c1 es1 OK PO Hfr H1).
  rewrite (model_epochs_sim cap lam pol seal polr K HK Ds vals ep conf2 c2 es2 OK PO Hfr H2). reflexivity.
Qed.

(* C01 across epochs for the model of the code *)
Theorem link_epochs_same_sets cap lam seal polr vals Ds Ds' K :
  epochs_valid polr vals 1 Ds Ds' -> epochs_ok seal polr vals 1 Ds -> epochs_ok seal polr vals 1 Ds' ->
  (forall D e, In D Ds -> In e D -> id_fresh K (eid (fe e))) -> (forall D e, In D Ds' -> In e D -> id_fresh K (eid (fe e))) ->
  N.of_nat (total_events Ds) <= K -> N.of_nat (total_events Ds') <= K -> K < 2 ^ 192 ->
  map epoch_blocks (model_epochs cap lam (mk_policy seal polr vals 1 (length Ds)) polr (start 1 vals) vals 1 Ds) =
  map epoch_blocks (model_epochs cap lam (mk_policy seal polr vals 1 (length Ds')) polr (start 1 vals) vals 1 Ds').
Proof.
  intros EV OK OK' F F' C C' HK.
  rewrite (link_epochs cap lam seal polr vals Ds K OK F C HK), (link_epochs cap lam seal polr vals Ds' K OK' F' C' HK).
  apply reference_epochs_same_sets. exact EV.
Qed.

(* C08: a restart right after a seal (or right after genesis / Reset): Bootstrap of an instance that has not
   processed any event of its epoch finds no roots, emits nothing, and is again the instance an epoch starts
   with (the Build counter restarts at 0) *)
Lemma restart_of_fresh cap pol ep vals conf c es :
  step cap pol sample (fresh_inst ep vals conf c es) OpR = (ObsR None [] 0 ep, fresh_inst ep vals conf 0 es, false).
Proof. reflexivity. Qed.

Theorem link_restart_after_seal cap lam pol seal polr K ep vals Ds conf c es : K < 2 ^ 192 ->
  epochs_ok seal polr vals ep Ds -> pol_ok pol seal polr vals ep (length Ds) ->
  (forall D e, In D Ds -> In e D -> id_fresh K (eid (fe e))) -> N.of_nat (total_events Ds) <= K ->
  let i0 := fresh_inst ep (mk_vals vals) conf c es in
  fst (fst (step cap pol sample i0 OpR)) = ObsR None [] 0 ep /\
  model_epochs cap lam pol polr (snd (fst (step cap pol sample i0 OpR))) vals ep Ds = reference_epochs seal polr vals ep Ds.
Proof.
  intros HK OK PO Hfr Hc. cbn zeta. rewrite restart_of_fresh. cbn [fst snd]. split; [reflexivity|].
  apply (model_epochs_sim cap lam pol seal polr K HK); auto.
Qed.
