(* C25 — flagged producer without any assumption on the flush IDs: the reported flush may be the
   one that is still in progress at the crash point (its record lies in the history, possibly
   after position k).  See props/C25.v, C25_flagged_crash_consistent_any_ids. *)
From Coq Require Import NArith List Bool Lia Permutation PeanoNat Compare_dec.
From LV Require Import lib.Bytes lib.BytesFacts model.CrashBase model.Flagged
  proofs.CrashBaseProofs proofs.SyncedPoolProofs proofs.FlaggedProofs.
Import ListNotations.
Local Open Scope N_scope.

Lemma obytes_eq_dec (a b : option bytes) : {a = b} + {a <> b}.
Proof. decide equality. apply (list_eq_dec N.eq_dec). Qed.

Lemma all_or_ex (P : name -> Prop) (dec : forall n, {P n} + {~ P n}) ns :
  (forall n, In n ns -> P n) \/ (exists n, In n ns /\ ~ P n).
Proof.
  induction ns as [|n t IH]; [left; intros n []|].
  destruct (dec n) as [Hn|Hn]; [|right; exists n; split; [left|]; auto].
  destruct IH as [IH|[m [Hm Hp]]]; [left|right; exists m; split; [right|]; auto].
  intros m [<-|Hm]; auto.
Qed.

Section AnyIds.
  Variable fk : bytes.

  Definition Fl2 (last cur : option flush_rec) (w : world) : Prop :=
    nomark_empty fk w /\ (agrees fk last w \/ dirtyw fk w \/ mixed fk w \/ agrees fk cur w).

  Lemma Fl_Fl2 last cur w : Fl fk last w -> Fl2 last cur w.
  Proof. intros [A [B|[B|B]]]; split; auto. Qed.

  Lemma Fl2_safe recs k last cur w :
    (forall rc, last = Some rc -> In rc recs /\ (r_pos rc <= k)%nat) ->
    (forall rc, cur = Some rc -> In rc recs /\ (r_pos rc <= k)%nat) ->
    Fl2 last cur w -> safe fk recs k w.
  Proof.
    intros Hl Hc [A [B|[B|[B|B]]]].
    - apply (safe_of_agrees fk recs k w last Hl B).
    - apply safe_of_dirty; [exact A|exact B].
    - destruct B as [n1 [c1 [n2 [c2 [G1 [G2 Hne]]]]]]. apply (safe_of_mixed fk recs k w n1 c1 n2 c2 A G1 G2 Hne).
    - apply (safe_of_agrees fk recs k w cur Hc B).
  Qed.

  (* every prefix of Producer.Flush, whatever the previous flush ID was *)
  Lemma flush_prefixes2 id last rc' st0 (W0 : world) ns : forall w, NoDup ns ->
    r_id rc' = id ->
    (forall n c, wget n W0 = Some c ->
       exists s, wget n (r_snap rc') = Some s /\ dget fk s = Some (mark_of CLEAN id) /\
                 forall key, key <> fk -> dget key c = dget key s) ->
    nomark_empty fk w ->
    (forall n, In n ns -> wget n w = wget n W0 /\ wget n W0 <> None) ->
    (forall n c, ~ In n ns -> wget n w = Some c ->
       exists c0, wget n W0 = Some c0 /\ dget fk c = Some (mark_of CLEAN id) /\
                  forall key, key <> fk -> dget key c = dget key c0) ->
    ((exists v, ~ In v ns /\ wget v w <> None) \/ Pid fk last w) ->
    strict_prefixes (Fl2 last (Some rc')) (concat (map (gf fk id st0) ns)) w.
  Proof.
    induction ns as [|n t IH]; intros w ND Hid F Hne Hun Hvis Hor; cbn [map concat]; [cbn; auto|].
    inversion ND as [|? ? Hnt ND']; subst.
    destruct (Hun n (or_introl eq_refl)) as [En Gn0].
    destruct (wget n W0) as [c0|] eqn:G0; [|contradiction]. clear Gn0.
    (* the world between two databases *)
    assert (F0 : Fl2 last (Some rc') w).
    { split; auto. destruct Hor as [[v [Hv Gv]]|[_ [P|P]]]; auto.
      destruct (wget v w) as [cv|] eqn:Ev; [|contradiction]. clear Gv.
      destruct (Hvis v cv Hv Ev) as [cv0 [_ [Mv _]]].
      set (P := fun m => match wget m W0 with Some c => dget fk c | None => None end
                         = Some (mark_of CLEAN (r_id rc'))).
      destruct (all_or_ex P (fun m => obytes_eq_dec _ _) (n :: t)) as [Hall|[m [Hm Hp]]].
      - (* all remaining databases already carry the new mark: the world is the record's *)
        right; right; right. intros m c Gm.
        destruct (in_dec N.eq_dec m (n :: t)) as [Hin|Hin].
        + destruct (Hun m Hin) as [Em _]. rewrite Em in Gm.
          destruct (F m c Gm) as [s [Gs [Ms Us]]]. right. exists rc', s. split; auto.
          pose proof (Hall m Hin) as Pm. unfold P in Pm. rewrite Gm in Pm.
          split; [exact Pm|]. split; auto. intros key.
          destruct (bytes_eqb fk key) eqn:Ek.
          * apply bytes_eqb_eq in Ek; subst key. rewrite Pm, Ms. reflexivity.
          * apply Us. intros ->. rewrite beqb_refl in Ek. discriminate.
        + destruct (Hvis m c Hin Gm) as [cm0 [Gm0 [Mm Um]]].
          destruct (F m cm0 Gm0) as [s [Gs [Ms Us]]]. right. exists rc', s. split; auto.
          split; [exact Mm|]. split; auto. intros key.
          destruct (bytes_eqb fk key) eqn:Ek.
          * apply bytes_eqb_eq in Ek; subst key. rewrite Mm, Ms. reflexivity.
          * assert (key <> fk) by (intros ->; rewrite beqb_refl in Ek; discriminate).
            rewrite Um; auto.
      - (* some remaining database carries another mark (or none): mixed with a visited one *)
        right; right; left. destruct (Hun m Hm) as [Em Gm].
        destruct (wget m W0) as [cm|] eqn:Gm0; [|contradiction].
        exists v, cv, m, cm. split; auto. split; [congruence|].
        unfold P in Hp. rewrite Gm0 in Hp. rewrite Mv. intros X. apply Hp. symmetry. exact X. }
    assert (Rec : forall w2 c2, nomark_empty fk w2 -> (forall m, m <> n -> wget m w2 = wget m w) ->
                   wget n w2 = Some c2 -> dget fk c2 = Some (mark_of CLEAN (r_id rc')) ->
                   (forall key, key <> fk -> dget key c2 = dget key c0) ->
                   strict_prefixes (Fl2 last (Some rc')) (concat (map (gf fk (r_id rc') st0) t)) w2).
    { intros w2 c2 N2 Oth G2 M2 U2. apply IH; auto.
      - intros m Hm. assert (m <> n) by (intros ->; contradiction).
        rewrite Oth; auto. apply Hun. right; auto.
      - intros m c Hm Gm. destruct (N.eq_dec m n) as [->|Hmn].
        + rewrite G2 in Gm. inversion Gm; subst c. exists c0. auto.
        + rewrite Oth in Gm; auto. apply (Hvis m c); auto. intros [X|X]; [congruence|contradiction].
      - left. exists n. split; auto. congruence. }
    unfold gf at 1. destruct (fget n st0) as [[|]|].
    - cbn [app strict_prefixes]. split; auto.
      apply (Rec _ (dput fk (mark_of CLEAN (r_id rc')) c0)).
      + apply ne_putmark; auto.
      + intros m Hm. cbn [apply_dop]. apply wget_on_db_neq; auto.
      + cbn [apply_dop]. rewrite wget_on_db_eq, En. reflexivity.
      + apply dget_dput_eq.
      + intros key Hk. apply dget_dput_neq; auto.
    - cbn [app strict_prefixes]. split; auto. split.
      + split; [apply ne_putmark; auto|]. right; left. exists n. apply (dirty_putdirty fk w n []). congruence.
      + apply (Rec _ (dput fk (mark_of CLEAN (r_id rc')) (dput fk [DIRTY] c0))).
        * apply ne_putmark; auto. apply ne_putmark; auto.
        * intros m Hm. cbn [apply_dop]. rewrite !wget_on_db_neq; auto.
        * cbn [apply_dop]. rewrite !wget_on_db_eq, En. reflexivity.
        * apply dget_dput_eq.
        * intros key Hk. rewrite !dget_dput_neq; auto.
    - cbn [app strict_prefixes]. split; auto.
      apply (Rec _ (dput fk (mark_of CLEAN (r_id rc')) c0)).
      + apply ne_putmark; auto.
      + intros m Hm. cbn [apply_dop]. apply wget_on_db_neq; auto.
      + cbn [apply_dop]. rewrite wget_on_db_eq, En. reflexivity.
      + apply dget_dput_eq.
      + intros key Hk. apply dget_dput_neq; auto.
  Qed.
End AnyIds.

Section AnyIdsRun.
  Variable fk : bytes.

  Lemma flagged_flush_weak st sp W last id os k0 :
    flag_inv fk st sp W last ->
    let dbs' := with_marks fk id (remove_all (sp_doomed sp) (sp_dbs sp)) in
    let res := f_flush fk id (arrange (nth_order os 0) (map fst st)) st in
    strict_prefixes (Fl2 fk last (Some (mkRec k0 id dbs'))) (snd res) W.
  Proof.
    intros I. destruct (flagged_flush_inv fk st sp W last id os k0 I) as [_ [Eo _]]. cbn zeta in *.
    rewrite Eo. pose proof I as [A B C R D Cl Q].
    set (ns := arrange (nth_order os 0) (map fst st)).
    assert (ND : NoDup ns) by (apply arrange_nodup; auto).
    assert (Inn : forall n, In n ns <-> fget n st <> None).
    { intros n. unfold ns. rewrite arrange_in. apply fget_in_names. }
    destruct (inv_Pid fk _ _ _ _ I) as [Nm Pd].
    apply (flush_prefixes2 fk id last _ st W ns W); auto.
    - intros n c G. cbn [r_snap]. rewrite Q. cbn [remove_all fold_left]. rewrite wget_with_marks.
      destruct (wget n (sp_dbs sp)) as [s0|] eqn:Gs.
      + exists (dput fk (mark_of CLEAN id) s0). split; [reflexivity|]. split; [apply dget_dput_eq|].
        intros key Hk. rewrite dget_dput_neq; auto. eapply R; eauto.
      + exfalso. apply C in Gs. assert (Y : wget n W <> None) by congruence. apply B in Y. contradiction.
    - intros n Hn. split; auto. apply B. apply Inn; auto.
    - intros n c Hn G. exfalso. assert (Y : wget n W <> None) by congruence.
      apply B in Y. apply Hn. apply Inn; auto.
    - right. split; auto.
  Qed.

  (* the order-free property with an arbitrary admissibility predicate on the record *)
  Definition safeG (recs : list flush_rec) (ok : flush_rec -> Prop) (w : world) : Prop :=
    (forall n c, wget n w = Some c -> dget fk c = None -> db_empty c) /\
    (forall m, (exists n c, wget n w = Some c) ->
               (forall n c, wget n w = Some c -> dget fk c = Some m) -> is_dirty m = false ->
       exists rc, In rc recs /\ ok rc /\ m = mark_of CLEAN (r_id rc) /\
         forall n c, wget n w = Some c ->
           match wget n (r_snap rc) with Some s => db_eq c s | None => db_empty c end).

  Lemma safeG_consistent recs k w l :
    safeG recs (rec_at recs k) w -> lists_world l w -> crash_consistent_ip fk recs k w l.
  Proof.
    intros [S1 S2] L. unfold crash_consistent_ip.
    destruct (check_synced fk l) as [[m|]| | |] eqn:E; auto.
    - destruct (check_ok_some fk l m E) as [Hne B].
      apply S2.
      + destruct l as [|[n c] t]; [contradiction|]. exists n, c. apply L. left; auto.
      + intros n c G. apply L in G. apply (B _ _ G).
      + destruct l as [|[n c] t]; [contradiction|]. apply (B n c (or_introl eq_refl)).
    - intros n c G. apply (S1 _ _ G). eapply check_ok_none; [exact E|]. apply L; exact G.
  Qed.

  Lemma safe_safeG recs k w : safe fk recs k w -> safeG recs (rec_at recs k) w.
  Proof.
    intros [S1 S2]. split; auto. intros m He Ha Hd.
    destruct (S2 m He Ha Hd) as [rc [A [B [C D]]]]. exists rc. repeat split; auto. left; auto.
  Qed.

  Lemma safeG_of_agrees recs (ok : flush_rec -> Prop) w rc :
    In rc recs -> ok rc -> agrees fk (Some rc) w -> safeG recs ok w.
  Proof.
    intros Hin Hok Ha. split.
    - intros n c G E. destruct (Ha _ _ G) as [H|[rc' [s [_ [M _]]]]]; auto. congruence.
    - intros m [n [c G]] Hall Hd.
      destruct (Ha _ _ G) as [H|[rc' [s [Eo [M [Gs Es]]]]]].
      + pose proof (Hall _ _ G) as X. rewrite (H fk) in X. discriminate.
      + inversion Eo; subst rc'. exists rc. repeat split; auto.
        * rewrite (Hall _ _ G) in M. inversion M; auto.
        * intros n' c' G'. destruct (Ha _ _ G') as [H|[rc' [s' [Eo' [M' [Gs' Es']]]]]].
          -- pose proof (Hall _ _ G') as X. rewrite (H fk) in X. discriminate.
          -- inversion Eo'; subst rc'. rewrite Gs'. exact Es'.
  Qed.

  (* admissible records stay admissible when a record that completes later is appended *)
  Lemma rec_at_mono recs rc' k rc :
    (forall r, In r recs -> (r_pos r <= r_pos rc')%nat) -> In rc recs ->
    rec_at recs k rc -> rec_at (recs ++ [rc']) k rc.
  Proof.
    intros Hp Hin [H|[H1 H2]]; [left; auto|right]. split; auto.
    intros r Hr Hk. apply in_app_iff in Hr. destruct Hr as [Hr|[<-|[]]]; auto.
  Qed.

  Lemma safeG_mono recs recs' k w :
    (forall rc, In rc recs -> In rc recs' /\ (rec_at recs k rc -> rec_at recs' k rc)) ->
    safeG recs (rec_at recs k) w -> safeG recs' (rec_at recs' k) w.
  Proof.
    intros H [S1 S2]. split; auto. intros m He Ha Hd.
    destruct (S2 m He Ha Hd) as [rc [A [B [C D]]]]. destruct (H _ A) as [A' B'].
    exists rc. repeat split; auto.
  Qed.

  Definition frun_inv_w (s : frun_state) (last : option flush_rec) : Prop :=
    flag_inv fk (fr_st s) (fr_spec s) (apply_dops (fr_log s) []) last /\
    (forall rc, last = Some rc -> In rc (fr_recs s)) /\
    (forall rc, In rc (fr_recs s) -> (r_pos rc <= length (fr_log s))%nat) /\
    (forall j, safeG (fr_recs s) (rec_at (fr_recs s) j) (crash (fr_log s) j)) /\
    (forall rc, In rc (fr_recs s) -> agrees_all fk rc (crash (fr_log s) (r_pos rc))).

  Lemma frun_inv_w_init : frun_inv_w frun_init None.
  Proof.
    destruct (frun_inv_init fk) as [A [B [C D]]]. split; [exact A|]. split; [exact B|]. split; [exact C|].
    split; [|intros rc []]. intros j. apply safe_safeG. apply D.
  Qed.

  (* appending the operations of one user operation; [cur] = the record appended by it, if any *)
  Lemma frun_extend_w s last st' sp' ops last' cur :
    frun_inv_w s last ->
    flag_inv fk st' sp' (apply_dops ops (apply_dops (fr_log s) [])) last' ->
    strict_prefixes (Fl2 fk last cur) ops (apply_dops (fr_log s) []) ->
    let recs' := match cur with Some rc => fr_recs s ++ [rc] | None => fr_recs s end in
    (forall rc, cur = Some rc -> r_pos rc = length (fr_log s ++ ops) /\
                                 agrees_all fk rc (apply_dops ops (apply_dops (fr_log s) []))) ->
    (forall rc, last' = Some rc -> In rc recs') ->
    frun_inv_w (mkFRun st' sp' (fr_log s ++ ops) recs') last'.
  Proof.
    intros [I [Hl [Hp [Hs Hlive]]]] I' Hst recs' Hc Hl'.
    assert (Hsub : forall rc, In rc (fr_recs s) -> In rc recs').
    { intros rc H. unfold recs'. destruct cur; auto. apply in_app_iff; auto. }
    assert (Hp' : forall rc, In rc recs' -> (r_pos rc <= length (fr_log s ++ ops))%nat).
    { intros rc H. unfold recs' in H. rewrite app_length. destruct cur as [rc0|].
      - apply in_app_iff in H. destruct H as [H|[<-|[]]]; [specialize (Hp _ H); lia|].
        destruct (Hc rc0 eq_refl) as [E _]. rewrite E, app_length. lia.
      - specialize (Hp _ H). lia. }
    assert (Hmono : forall k rc, In rc (fr_recs s) -> rec_at (fr_recs s) k rc -> rec_at recs' k rc).
    { intros k rc Hin Hr. unfold recs'. destruct cur as [rc0|]; auto.
      apply rec_at_mono; auto. intros r Hr'. destruct (Hc rc0 eq_refl) as [E _].
      rewrite E, app_length. specialize (Hp _ Hr'). lia. }
    unfold frun_inv_w; cbn [fr_st fr_spec fr_log fr_recs].
    split; [rewrite apply_dops_app; exact I'|]. split; [exact Hl'|]. split; [exact Hp'|]. split.
    - intros j. unfold crash.
      destruct (le_lt_dec j (length (fr_log s))) as [Hj|Hj].
      + rewrite firstn_app_le; auto. apply (safeG_mono (fr_recs s)); [|apply Hs].
        intros rc Hin. split; auto.
      + rewrite firstn_app_ge by lia. rewrite apply_dops_app.
        destruct (le_lt_dec (length ops) (j - length (fr_log s))) as [Hk|Hk].
        * rewrite firstn_all2 by lia. apply safe_safeG.
          apply (Fl_safe fk recs' j last'); [|apply Pid_Fl; eapply inv_Pid; eauto].
          intros rc E. split; [apply Hl'; auto|]. specialize (Hp' _ (Hl' _ E)). rewrite app_length in Hp'. lia.
        * pose proof (strict_prefixes_firstn _ _ _ _ Hst Hk) as [Nm X].
          assert (Hlast : forall rc, last = Some rc -> In rc recs' /\ (r_pos rc <= j)%nat).
          { intros rc E. split; [apply Hsub, Hl; auto|]. specialize (Hp _ (Hl _ E)). lia. }
          destruct X as [X|[X|[X|X]]].
          -- apply safe_safeG. apply (safe_of_agrees fk recs' j _ last Hlast X).
          -- apply safe_safeG. apply safe_of_dirty; auto.
          -- apply safe_safeG. destruct X as [n1 [c1 [n2 [c2 [G1 [G2 Hne]]]]]].
             apply (safe_of_mixed fk recs' j _ n1 c1 n2 c2 Nm G1 G2 Hne).
          -- destruct cur as [rc0|].
             ++ apply (safeG_of_agrees recs' _ _ rc0); auto.
                ** unfold recs'. apply in_app_iff; right; left; auto.
                ** destruct (Hc rc0 eq_refl) as [E _]. right. rewrite E, app_length. split; [lia|].
                   intros r Hr Hjr. unfold recs' in Hr. apply in_app_iff in Hr.
                   destruct Hr as [Hr|[<-|[]]]; [specialize (Hp _ Hr); lia|]. rewrite E, app_length. lia.
             ++ (* agrees None: every database is empty *)
                apply safe_safeG. apply (safe_of_agrees fk recs' j _ None); auto.
                intros rc E; discriminate.
    - intros rc Hin. unfold recs' in Hin. destruct cur as [rc0|].
      + apply in_app_iff in Hin. destruct Hin as [Hin|[<-|[]]].
        * rewrite crash_app_le; auto.
        * destruct (Hc rc0 eq_refl) as [E Ag]. rewrite E, crash_all, apply_dops_app. exact Ag.
      + rewrite crash_app_le; auto.
  Qed.

  (* the non-flush operations: new invariant and every strict prefix in Fl *)
  Lemma fstep_quiet st sp W last o :
    flag_inv fk st sp W last -> hop_avoids fk o = true ->
    (forall id os, o <> HFlush id os) ->
    flag_inv fk (fst (flagged_step fk st o)) (fst (spec_step fk true sp o))
             (apply_dops (snd (flagged_step fk st o)) W) last /\
    strict_prefixes (Fl fk last) (snd (flagged_step fk st o)) W /\
    snd (spec_step fk true sp o) = None.
  Proof.
    intros I Ha Hnf. destruct o as [n|n|n k v|n k|n ws|n|id os]; cbn [flagged_step spec_step fst snd].
    - destruct (f_open_inv fk _ _ _ last n I) as [I1 _]. split; [exact I1|]. split; [|reflexivity].
      eapply strict_prefixes_impl; [apply Pid_Fl|apply all_prefixes_strict; eapply open_strict; eauto].
    - destruct (f_open_inv fk _ _ _ last n I) as [I1 _]. split; [exact I1|]. split; [|reflexivity].
      eapply strict_prefixes_impl; [apply Pid_Fl|apply all_prefixes_strict; eapply open_strict; eauto].
    - cbn in Ha. apply negb_true_iff in Ha. apply beqb_false in Ha.
      destruct (f_write_inv fk _ _ _ last n (DPut n k v) (dput k v) I) as [I1 S1]; auto.
      + intros c. apply dget_dput_neq; auto.
      + intros c s0 H key Hk. destruct (bytes_eqb k key) eqn:E.
        * apply bytes_eqb_eq in E; subst. rewrite !dget_dput_eq; auto.
        * apply beqb_false in E. rewrite !dget_dput_neq; auto.
    - cbn in Ha. apply negb_true_iff in Ha. apply beqb_false in Ha.
      destruct (f_write_inv fk _ _ _ last n (DDel n k) (ddel k) I) as [I1 S1]; auto.
      + intros c. apply dget_ddel_neq; auto.
      + intros c s0 H key Hk. destruct (bytes_eqb k key) eqn:E.
        * apply bytes_eqb_eq in E; subst. rewrite !dget_ddel_eq; auto.
        * apply beqb_false in E. rewrite !dget_ddel_neq; auto.
    - cbn in Ha.
      destruct (f_write_inv fk _ _ _ last n (DBatch n ws) (apply_writes ws) I) as [I1 S1]; auto.
      + intros c. apply dget_apply_writes_avoid; auto.
      + intros c s0 H. apply apply_writes_agree; auto.
    - destruct (f_open_inv fk _ _ _ last n I) as [I1 _].
      pose proof (open_strict fk _ _ _ last n I) as P.
      destruct (f_open n st) as [st1 ops1] eqn:E. cbn [fst snd] in *.
      split; [|split; [|reflexivity]].
      + rewrite apply_dops_app. cbn [apply_dops fold_left apply_dop]. apply (drop_inv fk _ _ _ last n I1).
      + apply strict_prefixes_app. split.
        * eapply strict_prefixes_impl; [apply Pid_Fl|apply all_prefixes_strict; auto].
        * cbn. split; auto. apply Pid_Fl. apply all_prefixes_split in P. tauto.
    - exfalso. eapply Hnf; eauto.
  Qed.

  Lemma frun_step_w s last o :
    frun_inv_w s last -> hop_avoids fk o = true -> exists last', frun_inv_w (frun_step fk s o) last'.
  Proof.
    intros Inv Ha. pose proof Inv as [I [Hl [Hp [Hs Hlive]]]].
    destruct (match o with HFlush _ _ => true | _ => false end) eqn:Ef.
    - destruct o as [| | | | | |id os]; try discriminate.
      unfold frun_step. cbn [flagged_step spec_step].
      set (res := f_flush fk id (arrange (nth_order os 0) (map fst (fr_st s))) (fr_st s)).
      set (log' := fr_log s ++ snd res).
      destruct (flagged_flush_inv fk _ _ _ last id os (length log') I) as [I' [_ Ag]].
      pose proof (flagged_flush_weak _ _ _ last id os (length log') I) as Hst.
      cbn zeta in I', Hst, Ag. fold res in I', Hst, Ag.
      set (rc' := mkRec (length log') id
                    (with_marks fk id (remove_all (sp_doomed (fr_spec s)) (sp_dbs (fr_spec s))))) in *.
      exists (Some rc').
      destruct res as [st' ops] eqn:Er. cbn [fst snd] in *.
      apply (frun_extend_w s last st' _ ops (Some rc') (Some rc')); auto.
      + intros rc E. inversion E; subst. split; auto.
      + intros rc E. inversion E; subst. apply in_app_iff; right; left; auto.
    - destruct (fstep_quiet _ _ _ last o I Ha) as [I' [Hst Esn]].
      { intros id os ->. discriminate. }
      exists last. unfold frun_step.
      destruct (flagged_step fk (fr_st s) o) as [st' ops]. destruct (spec_step fk true (fr_spec s) o) as [sp' snap].
      cbn [fst snd] in *. subst snap.
      apply (frun_extend_w s last st' sp' ops last None); auto.
      + eapply strict_prefixes_impl; [apply Fl_Fl2|exact Hst].
      + intros rc E; discriminate.
  Qed.

  Lemma frun_all_w h : forall s last,
    frun_inv_w s last -> history_avoids fk h = true ->
    exists last', frun_inv_w (fold_left (frun_step fk) h s) last'.
  Proof.
    induction h as [|o t IH]; intros s last Inv Ha; cbn [fold_left]; [eauto|].
    cbn in Ha. apply andb_true_iff in Ha. destruct Ha as [Ha1 Ha2].
    destruct (frun_step_w s last o Inv Ha1) as [last' Inv']. eapply IH; eauto.
  Qed.

  Theorem flagged_crash_consistent_any_ids h k l :
    history_avoids fk h = true ->
    lists_world l (crash (fr_log (run_flagged fk h)) k) ->
    crash_consistent_ip fk (fr_recs (run_flagged fk h)) k (crash (fr_log (run_flagged fk h)) k) l.
  Proof.
    intros Ha L. destruct (frun_all_w h frun_init None frun_inv_w_init Ha) as [last [_ [_ [_ [Hs _]]]]].
    apply safeG_consistent; auto.
  Qed.

  Theorem flagged_flush_reported h rc l :
    history_avoids fk h = true -> In rc (fr_recs (run_flagged fk h)) ->
    lists_world l (crash (fr_log (run_flagged fk h)) (r_pos rc)) -> l <> [] ->
    check_synced fk l = COk (Some (mark_of CLEAN (r_id rc))).
  Proof.
    intros Ha Hr L Hne. destruct (frun_all_w h frun_init None frun_inv_w_init Ha) as [last [_ [_ [_ [_ Hl]]]]].
    eapply agrees_all_verdict; eauto.
  Qed.
End AnyIdsRun.
