(* C17 round 3: (a) responses are produced, and per incarnation sent, in the order of the
   requests they serve; (b) the remaining boolean checkers of spec/SeederSpec.v (tags_sorted,
   done_only_last, done_by, counts_ok) decide the Props the theorems are stated with. *)
From Coq Require Import NArith List Bool Lia Arith Sorted.
From Coq Require Import ZifyBool ZifyNat ZifyN.
From LV Require Import model.Seeder spec.SeederSpec proofs.SeederProofs proofs.SeederQueues
  proofs.SeederSessions proofs.SeederCounts.
Import ListNotations.
Local Open Scope N_scope.

Definition ser_le (a b : resp) : Prop := ser a <= ser b.

Lemma sorted_snoc_ser : forall l r, StronglySorted ser_le l -> (forall x, In x l -> ser x <= ser r) ->
  StronglySorted ser_le (l ++ [r]).
Proof.
  induction l as [|a l IH]; intros r Hs Hx; simpl.
  - constructor; constructor.
  - inversion Hs; subst. constructor.
    + apply IH; [assumption|]. intros y Hy. apply Hx. right. exact Hy.
    + apply Forall_app. split; [assumption|]. constructor; [apply Hx; left; reflexivity|constructor].
Qed.

Lemma sorted_filter : forall (f : resp -> bool) l, StronglySorted ser_le l -> StronglySorted ser_le (filter f l).
Proof.
  intros f l. induction l as [|a l IH]; intros Hs; simpl; [constructor|].
  inversion Hs; subst. destruct (f a); [|apply IH; assumption].
  constructor; [apply IH; assumption|]. rewrite Forall_forall in *. intros x Hx. apply filter_In in Hx. apply H2. tauto.
Qed.

Lemma sorted_prefix : forall l m, StronglySorted ser_le (l ++ m) -> StronglySorted ser_le l.
Proof.
  induction l as [|a l IH]; intros m Hs; simpl in *; [constructor|].
  inversion Hs; subst. constructor; [eapply IH; eauto|]. apply Forall_app in H2. tauto.
Qed.

(* what a step does to the list of produced responses *)
Lemma step_produced : forall cfg db st tr o st' evs,
  step v_fixed cfg db st o = Some (st', evs) ->
  produced st' (tr ++ evs) = produced st tr \/
  exists rq i ss r, st_reader st = RChunk rq i ss /\ ser r = r_serial rq /\
                    produced st' (tr ++ evs) = produced st tr ++ [r].
Proof.
  intros cfg db st tr o st' evs H.
  destruct o as [rq|p| | | |i]; simpl in H.
  - destruct (c_maxchunks cfg <? r_chunks rq).
    + inversion H; subst. left. unfold produced. simpl. rewrite enqs_app. simpl. rewrite app_nil_r. reflexivity.
    + destruct (16 <=? N.of_nat (length (st_chreq st))); [discriminate|].
      inversion H; subst. left. rewrite app_nil_r. reflexivity.
  - destruct (128 <=? N.of_nat (length (st_chunreg st))); [discriminate|].
    inversion H; subst. left. rewrite app_nil_r. reflexivity.
  - destruct (st_reader st) eqn:Epc; try discriminate. destruct (st_chreq st) as [|rq0 rest0]; [discriminate|].
    inversion H; subst. left. rewrite app_nil_r. unfold produced. simpl. rewrite Epc. reflexivity.
  - destruct (st_reader st) eqn:Epc; try discriminate. destruct (st_chunreg st) as [|p0 rest0]; [discriminate|].
    inversion H; subst. left. unfold produced. simpl. rewrite Epc, enqs_app. simpl. rewrite app_nil_r. reflexivity.
  - destruct (st_reader st) as [|rq|rq i ss|rq i ss r0|rq i ss r0] eqn:Epc; try discriminate.
    + destruct (st_pending st <? c_limit cfg); [|discriminate].
      destruct (reader_top v_fixed cfg st rq) as [st1 e1] eqn:Et. inversion H; subst st1 e1.
      left. unfold produced. rewrite enqs_app.
      assert (Hsh : enqs evs = [] /\ pc_resps (st_reader st') = []).
      { unfold reader_top in Et. simpl in Et.
        destruct (sess_get (r_peer rq, r_sid rq) (st_sessions st)) as [s0|].
        - destruct (s_orig s0 =? r_start rq); inversion Et; subst; simpl; auto.
        - destruct (prune (r_peer rq) (ps_get (r_peer rq) (st_peersess st)) (st_sessions st)) as [s2 t2].
          inversion Et; subst; simpl; auto. }
      destruct Hsh as [H1 H2]. rewrite H1, H2, Epc. simpl. rewrite ?app_nil_r. reflexivity.
    + inversion H; subst st' evs. rewrite app_nil_r. unfold reader_chunk.
      destruct ((i <? r_chunks rq) && negb (s_done ss)).
      * destruct (foreach db (s_next ss) (s_stop ss) (r_num rq) (r_size rq) [] (s_next ss)) as [[items last] c].
        right. exists rq, i, ss, (mkResp (r_peer rq) (r_sid rq) c items (s_inc ss) (s_creator ss) rq).
        split; [reflexivity|]. split; [reflexivity|].
        unfold produced. simpl. rewrite Epc. simpl. rewrite app_nil_r. reflexivity.
      * left. unfold produced. simpl. rewrite Epc. reflexivity.
    + unfold reader_add in H. destruct (st_pending st <? c_limit cfg); [|discriminate].
      inversion H; subst. left. rewrite app_nil_r. unfold produced. simpl. rewrite Epc. reflexivity.
    + unfold reader_send in H.
      destruct ((N.of_nat (length (nth (s_sender ss) (st_senders st) [])) <=? c_maxtasks cfg) &&
                (Nat.ltb (s_sender ss) (length (st_senders st)))); [|discriminate].
      inversion H; subst. left. unfold produced. simpl. rewrite Epc, enqs_app. simpl. rewrite app_nil_r. reflexivity.
  - destruct (nth i (st_senders st) []) as [|r0 q]; [discriminate|].
    inversion H; subst. left. unfold produced. simpl. rewrite enqs_app. simpl. rewrite app_nil_r. reflexivity.
Qed.

Lemma run_sorted : forall cfg db ops st tr st' evs,
  sorted_keys db -> sinv db st tr -> cinv st tr -> oinv st tr ->
  StronglySorted ser_le (produced st tr) ->
  run v_fixed cfg db st ops = (st', evs) ->
  StronglySorted ser_le (produced st' (tr ++ evs)).
Proof.
  intros cfg db ops. induction ops as [|o ops IH]; intros st tr st' evs Hs HI HC HO Hso H; simpl in H.
  - inversion H; subst. rewrite app_nil_r. exact Hso.
  - destruct (step v_fixed cfg db st o) as [[st1 e1]|] eqn:Es.
    + destruct (run v_fixed cfg db st1 ops) as [st2 e2] eqn:Er. inversion H; subst.
      rewrite app_assoc. apply (IH st1 (tr ++ e1) st' e2 Hs);
        [exact (step_sinv _ _ _ _ _ _ _ Hs HI Es)|exact (step_cinv _ _ _ _ _ _ _ HI HC Es)
        |exact (step_oinv _ _ _ _ _ _ _ HI HC HO Es)| |exact Er].
      destruct (step_produced cfg db st tr o st1 e1 Es) as [E|[rq [i [ss [r [Hpc [Hsr E]]]]]]]; rewrite E; [exact Hso|].
      apply sorted_snoc_ser; [exact Hso|]. intros x Hx. rewrite Hsr.
      apply (oi_ord _ _ HO x rq Hx). rewrite Hpc. apply in_or_app. right. left. reflexivity.
    + eapply IH; eauto.
Qed.

(* per incarnation, the responses are sent in the order of the requests they serve *)
Lemma sent_in_request_order : forall cfg db ops k,
  sorted_keys db ->
  let tr := snd (run v_fixed cfg db (init cfg) ops) in
  StronglySorted ser_le (sel k (sents tr)).
Proof.
  intros cfg db ops k Hs. destruct (run v_fixed cfg db (init cfg) ops) as [st tr] eqn:Er. simpl.
  assert (H0 : StronglySorted ser_le (produced (init cfg) [])) by constructor.
  pose proof (run_sorted _ _ _ _ _ _ _ Hs (sinv_init cfg db) (cinv_init cfg) (oinv_init cfg) H0 Er) as Hso.
  simpl in Hso. unfold produced in Hso. apply sorted_prefix in Hso.
  destruct (run_fifo _ _ _ _ _ _ _ _ (qinv_init cfg) (fifo_init cfg) Er) as [_ HF]. simpl in HF.
  pose proof (sorted_filter (fun r => rs_inc r =? k) _ Hso) as Hk. fold (sel k (enqs tr)) in Hk.
  rewrite (HF k) in Hk. eapply sorted_prefix. exact Hk.
Qed.

(* ---------------------------------------------------------------------------------- *)
(* the boolean checkers of the executable specification decide these Props             *)
(* ---------------------------------------------------------------------------------- *)
Lemma tags_sorted_spec : forall rs,
  tags_sorted rs = true <-> forall l1 x y l2, rs = l1 ++ x :: y :: l2 -> o_tag x <= o_tag y.
Proof.
  induction rs as [|a rs IH]; simpl.
  - split; [intros _ l1 x y l2 H; destruct l1; discriminate|auto].
  - destruct rs as [|b rs].
    + split; [intros _ l1 x y l2 H|auto]. destruct l1 as [|? [|? ?]]; discriminate.
    + rewrite andb_true_iff, IH. split.
      * intros [Hab Hr] l1 x y l2 H. destruct l1 as [|c l1]; simpl in H; inversion H; subst; [lia|].
        eapply Hr; eauto.
      * intros H. split; [specialize (H [] a b rs eq_refl); lia|].
        intros l1 x y l2 E. apply (H (a :: l1) x y l2). simpl. rewrite E. reflexivity.
Qed.

Lemma done_only_last_spec : forall rs,
  done_only_last rs = true <-> forall l1 x l2, rs = l1 ++ x :: l2 -> l2 <> [] -> o_done x = false.
Proof.
  induction rs as [|a rs IH]; simpl.
  - split; [intros _ l1 x l2 H; destruct l1; discriminate|auto].
  - destruct rs as [|b rs].
    + split; [intros _ l1 x l2 H Hne|auto]. destruct l1 as [|? [|? ?]]; inversion H; subst; congruence.
    + rewrite andb_true_iff, negb_true_iff, IH. split.
      * intros [Ha Hr] l1 x l2 H Hne. destruct l1 as [|c l1]; simpl in H; inversion H; subst; [exact Ha|].
        eapply Hr; eauto.
      * intros H. split; [apply (H [] a (b :: rs) eq_refl); discriminate|].
        intros l1 x l2 E Hne. apply (H (a :: l1) x l2); [simpl; rewrite E; reflexivity|exact Hne].
Qed.

Lemma done_by_spec : forall t rs,
  done_by t rs = true <-> exists x, In x rs /\ o_done x = true /\ o_tag x <= t.
Proof.
  intros t rs. unfold done_by. rewrite existsb_exists. split.
  - intros [x [Hin H]]. apply andb_prop in H. exists x. split; [exact Hin|]. split; [tauto|lia].
  - intros [x [Hin [Hd Ht]]]. exists x. split; [exact Hin|]. rewrite Hd. simpl. lia.
Qed.

Lemma counts_ok_spec : forall ops exp incs,
  counts_ok ops exp incs = true <->
  forall rq c, In (SReq rq) ops -> expect_of (r_serial rq) exp = Some (XServe c) ->
    count_tag (r_serial rq) (inc_of c incs) = r_chunks rq \/
    exists x, In x (inc_of c incs) /\ o_done x = true /\ o_tag x <= r_serial rq.
Proof.
  intros ops exp incs. unfold counts_ok. rewrite forallb_forall. split.
  - intros H rq c Hin He. specialize (H _ Hin). simpl in H. rewrite He in H.
    apply orb_prop in H. destruct H as [H|H]; [left; apply N.eqb_eq; exact H|right; apply done_by_spec; exact H].
  - intros H o Hin. destruct o as [rq|p]; [|reflexivity].
    destruct (expect_of (r_serial rq) exp) as [[| |c]|] eqn:He; try reflexivity.
    destruct (H rq c Hin He) as [H1|H1]; apply orb_true_iff; [left; apply N.eqb_eq; exact H1|right; apply done_by_spec; exact H1].
Qed.
