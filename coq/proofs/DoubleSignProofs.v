(* C21: proofs over model/DoubleSign.v against spec/DoubleSignSpec.v.
   Part 1: Go's wall-clock Time.Sub is the saturated exact difference, for all representable times.
   Part 2: subDuration is the saturated difference of durations.
   Part 3: SyncedToEmit / DetectParallelInstance against the exact-integer specification.
   Part 4: the pinned (unrepaired) code is refuted by a witness. *)
From Coq Require Import ZArith List Bool Lia ZifyBool.
From LV Require Import model.DoubleSign spec.DoubleSignSpec.
Import ListNotations.
Ltac Zify.zify_post_hook ::= Z.to_euclidean_division_equations.
Local Open Scope Z_scope.

Ltac consts := unfold giga, min64, max64, two64 in *.

(* ------------------------------------------------------------------ Part 1: time.Time.Sub *)
Lemma wrap64_range z : min64 <= wrap64 z <= max64.
Proof. unfold wrap64, min64, max64, two64. lia. Qed.

Lemma wrap64_unique z w k : min64 <= w <= max64 -> w = z + k * two64 -> wrap64 z = w.
Proof. unfold wrap64, min64, max64, two64. intros. lia. Qed.

Lemma wrap64_id z : min64 <= z <= max64 -> wrap64 z = z.
Proof. intros. apply (wrap64_unique z z 0); lia. Qed.

Lemma sub_raw t u : wf_time t -> wf_time u ->
  wrap64 (wrap64 (wrap64 (sec t - sec u) * giga) + (nsec t - nsec u)) = wrap64 (ns t - ns u).
Proof.
  intros Ht Hu. unfold ns.
  unfold wrap64, min64, max64, two64, giga. lia.
Qed.


Lemma add_sec_spec s d : min64 <= s <= max64 -> min64 <= d <= max64 ->
  add_sec s d = if s + d <? min64 then - max64 else if max64 <? s + d then max64 else s + d.
Proof.
  intros Hs Hd. unfold add_sec.
  destruct (Z.ltb_spec (s + d) min64) as [H1|H1].
  - assert (Hw : wrap64 (s + d) = s + d + two64).
    { apply (wrap64_unique _ _ 1); unfold min64, max64, two64 in *; lia. }
    rewrite Hw. 
    replace (s <? s + d + two64) with true by (unfold min64, max64, two64 in *; lia).
    replace (0 <? d) with false by (unfold min64, max64, two64 in *; lia). reflexivity.
  - destruct (Z.ltb_spec max64 (s + d)) as [H2|H2].
    + assert (Hw : wrap64 (s + d) = s + d - two64).
      { apply (wrap64_unique _ _ (-1)); unfold min64, max64, two64 in *; lia. }
      rewrite Hw.
      replace (s <? s + d - two64) with false by (unfold min64, max64, two64 in *; lia).
      replace (0 <? d) with true by (unfold min64, max64, two64 in *; lia). reflexivity.
    + rewrite wrap64_id by lia.
      destruct (Z.ltb_spec s (s + d)), (Z.ltb_spec 0 d); cbn; try reflexivity; lia.
Qed.

Lemma go_add_spec u d : wf_time u -> min64 <= d <= max64 ->
  exists q n, go_add u d = {| sec := add_sec (sec u) q; nsec := n |} /\ 0 <= n < giga /\
              q * giga + n = nsec u + d /\ min64 <= q <= max64.
Proof.
  intros [Hs Hn] Hd. unfold go_add.
  destruct (Z.leb_spec giga (nsec u + Z.rem d giga)) as [H1|H1].
  - eexists _, _. split; [reflexivity|]. unfold giga, min64, max64 in *. lia.
  - destruct (Z.ltb_spec (nsec u + Z.rem d giga) 0) as [H2|H2].
    + eexists _, _. split; [reflexivity|]. unfold giga, min64, max64 in *. lia.
    + eexists _, _. split; [reflexivity|]. unfold giga, min64, max64 in *. lia.
Qed.

Theorem go_sub_sat t u : wf_time t -> wf_time u -> go_sub t u = sat64 (ns t - ns u).
Proof.
  intros Ht Hu. unfold go_sub. rewrite (sub_raw t u Ht Hu).
  set (D := ns t - ns u). set (d := wrap64 D).
  assert (Hd : min64 <= d <= max64) by apply wrap64_range.
  destruct (go_add_spec u d Hu Hd) as [q [n [Ha [Hn [Hq Hqr]]]]].
  rewrite Ha. destruct Ht as [Hts Htn]. pose proof Hu as [Hus Hun].
  rewrite (add_sec_spec (sec u) q Hus Hqr).
  assert (HD : D = (sec t - sec u) * giga + (nsec t - nsec u)) by (unfold D, ns; lia).
  unfold go_equal, go_before, sat64. cbn [sec nsec].
  destruct (Z.ltb_spec D min64) as [L1|L1]; [|destruct (Z.ltb_spec max64 D) as [L2|L2]].
  - (* D < min64 *)
    assert (Hk : exists k, d = D + k * two64 /\ 1 <= k).
    { unfold d, wrap64. exists (- ((D - min64) / two64)). unfold min64, max64, two64 in *. lia. }
    destruct Hk as [k [Hk1 Hk2]].
    destruct (Z.ltb_spec (sec u + q) min64); [|destruct (Z.ltb_spec max64 (sec u + q))];
    (match goal with |- (if ?e then _ else if ?b then _ else _) = _ =>
       replace e with false by (unfold giga, min64, max64, two64 in *; lia); replace b with true by (unfold giga, min64, max64, two64 in *; lia) end); reflexivity || (unfold giga, min64, max64, two64 in *; lia).
  - assert (Hk : exists k, d = D + k * two64 /\ k <= -1).
    { unfold d, wrap64. exists (- ((D - min64) / two64)). unfold min64, max64, two64 in *. lia. }
    destruct Hk as [k [Hk1 Hk2]].
    destruct (Z.ltb_spec (sec u + q) min64); [|destruct (Z.ltb_spec max64 (sec u + q))];
    (match goal with |- (if ?e then _ else if ?b then _ else _) = _ =>
       replace e with false by (unfold giga, min64, max64, two64 in *; lia); replace b with false by (unfold giga, min64, max64, two64 in *; lia) end); reflexivity || (unfold giga, min64, max64, two64 in *; lia).
  - assert (Hk : d = D) by (apply wrap64_id; lia).
    destruct (Z.ltb_spec (sec u + q) min64); [|destruct (Z.ltb_spec max64 (sec u + q))];
    (match goal with |- (if ?e then _ else if ?b then _ else _) = _ =>
       replace e with true by (unfold giga, min64, max64, two64 in *; lia) end); reflexivity || (unfold giga, min64, max64, two64 in *; lia).
Qed.

(* ------------------------------------------------------------------ Part 2: subDuration *)
Lemma sat64_range z : min64 <= sat64 z <= max64.
Proof. unfold sat64. destruct (Z.ltb_spec z min64); [consts; lia|]. destruct (Z.ltb_spec max64 z); consts; lia. Qed.

Lemma sat64_id z : min64 <= z <= max64 -> sat64 z = z.
Proof. intros H. unfold sat64. destruct (Z.ltb_spec z min64); [lia|]. destruct (Z.ltb_spec max64 z); lia. Qed.

Theorem sub_duration_sat a b : is_dur a -> is_dur b -> sub_duration a b = sat64 (a - b).
Proof.
  unfold is_dur. intros Ha Hb. unfold sub_duration, sat64.
  destruct (Z.ltb_spec (a - b) min64) as [L1|L1]; [|destruct (Z.ltb_spec max64 (a - b)) as [L2|L2]].
  - assert (Hw : wrap64 (a - b) = a - b + two64) by (apply (wrap64_unique _ _ 1); consts; lia).
    rewrite Hw.
    replace (a - b + two64 <? a) with false by (consts; lia).
    replace (0 <? b) with true by (consts; lia). reflexivity.
  - assert (Hw : wrap64 (a - b) = a - b - two64) by (apply (wrap64_unique _ _ (-1)); consts; lia).
    rewrite Hw.
    replace (a - b - two64 <? a) with true by (consts; lia).
    replace (0 <? b) with false by (consts; lia). reflexivity.
  - rewrite wrap64_id by lia.
    destruct (Z.ltb_spec (a - b) a), (Z.ltb_spec 0 b); cbn; try reflexivity; lia.
Qed.

(* the monotonic-clock path of Time.Sub is the same function of the two readings *)
Theorem sub_mono_sat t u : is_dur t -> is_dur u -> sub_mono t u = sat64 (t - u).
Proof.
  unfold is_dur. intros Ht Hu. unfold sub_mono, sat64.
  destruct (Z.ltb_spec (t - u) min64) as [L1|L1]; [|destruct (Z.ltb_spec max64 (t - u)) as [L2|L2]].
  - assert (Hw : wrap64 (t - u) = t - u + two64) by (apply (wrap64_unique _ _ 1); consts; lia).
    rewrite Hw.
    replace ((t - u + two64 <? 0) && (u <? t)) with false by (consts; lia).
    replace ((0 <? t - u + two64) && (t <? u)) with true by (consts; lia). reflexivity.
  - assert (Hw : wrap64 (t - u) = t - u - two64) by (apply (wrap64_unique _ _ (-1)); consts; lia).
    rewrite Hw.
    replace ((t - u - two64 <? 0) && (u <? t)) with true by (consts; lia). reflexivity.
  - rewrite wrap64_id by lia.
    replace ((t - u <? 0) && (u <? t)) with false by lia.
    replace ((0 <? t - u) && (t <? u)) with false by lia. reflexivity.
Qed.

(* ------------------------------------------------------------------ Part 3 *)
Lemma since_sat s t : wf_time (now s) -> wf_time t -> since s t = sat64 (elapsed s t).
Proof. intros Hn Ht. unfold since, elapsed. apply go_sub_sat; assumption. Qed.

Lemma is_zero_ns t : wf_time t -> go_is_zero t = (ns t =? 0).
Proof. intros [Hs Hn]. unfold go_is_zero, ns. consts. lia. Qed.

Lemma before_ns t u : wf_time t -> wf_time u -> go_before t u = (ns t <? ns u).
Proof. intros [Hs Hn] [Hs' Hn']. unfold go_before, ns. consts. lia. Qed.

(* --- a "first maximum" fold *)
Definition pick (m ce : Z * werr) : Z * werr := if fst m <? fst ce then ce else m.
Definition max0 (l : list Z) : Z := fold_right Z.max 0 l.
Fixpoint first_eq (w : Z) (l : list (Z * werr)) : werr :=
  match l with
  | [] => NoErr
  | ce :: r => if fst ce =? w then snd ce else first_eq w r
  end.

Lemma max0_nonneg l : 0 <= max0 l.
Proof. induction l as [|a l IH]; cbn; [lia|]. fold (max0 l). lia. Qed.

Lemma fold_pick : forall l m, 0 <= fst m ->
  fst (fold_left pick l m) = Z.max (fst m) (max0 (map fst l)) /\
  snd (fold_left pick l m) =
    if fst m <? fst (fold_left pick l m) then first_eq (fst (fold_left pick l m)) l else snd m.
Proof.
  induction l as [|ce l IH]; intros m Hm.
  - cbn. split; [lia|]. rewrite Z.ltb_irrefl. reflexivity.
  - cbn [fold_left map max0 fold_right first_eq]. fold (max0 (map fst l)).
    pose proof (max0_nonneg (map fst l)) as Hnn.
    destruct (Z.ltb_spec (fst m) (fst ce)) as [H|H].
    + assert (Hp : pick m ce = ce).
      { unfold pick. replace (fst m <? fst ce) with true by lia. reflexivity. }
      rewrite Hp. assert (Hce : 0 <= fst ce) by lia.
      destruct (IH ce Hce) as [IH1 IH2]. rewrite IH2, IH1. split; [lia|].
      destruct (Z.ltb_spec (fst ce) (Z.max (fst ce) (max0 (map fst l)))) as [H2|H2].
      * replace (fst m <? Z.max (fst ce) (max0 (map fst l))) with true by lia.
        replace (fst ce =? Z.max (fst ce) (max0 (map fst l))) with false by lia. reflexivity.
      * replace (fst m <? Z.max (fst ce) (max0 (map fst l))) with true by lia.
        replace (fst ce =? Z.max (fst ce) (max0 (map fst l))) with true by lia. reflexivity.
    + assert (Hp : pick m ce = m).
      { unfold pick. replace (fst m <? fst ce) with false by lia. reflexivity. }
      rewrite Hp. destruct (IH m Hm) as [IH1 IH2]. rewrite IH2, IH1. split; [lia|].
      destruct (Z.ltb_spec (fst m) (Z.max (fst m) (max0 (map fst l)))) as [H2|H2]; [|reflexivity].
      replace (fst ce =? Z.max (fst m) (max0 (map fst l))) with false by lia. reflexivity.
Qed.

(* what one guarded stamp contributes: its wait when the guard fires, nothing (0) otherwise *)
Definition contrib (s : status) (th : Z) (te : gtime * werr) : Z * werr :=
  let d := sat64 (elapsed s (fst te)) in
  ((if d <? th then sat64 (th - d) else 0), snd te).

Lemma guard_step_pick s th m te :
  wf_time (now s) -> wf_time (fst te) -> is_dur th -> 0 <= fst m ->
  guard_step sub_duration s th m te = pick m (contrib s th te).
Proof.
  intros Hn Ht Hth Hm. unfold guard_step, contrib, pick, apply. cbn [fst snd].
  rewrite (since_sat s (fst te) Hn Ht).
  destruct (Z.ltb_spec (sat64 (elapsed s (fst te))) th) as [H|H].
  - rewrite sub_duration_sat; [reflexivity | exact Hth | apply sat64_range].
  - replace (fst m <? 0) with false by lia. reflexivity.
Qed.

Lemma pick_nonneg m ce : 0 <= fst m -> 0 <= fst (pick m ce).
Proof. intros H. unfold pick. destruct (Z.ltb_spec (fst m) (fst ce)); lia. Qed.

Lemma fold_guard s th : wf_time (now s) -> is_dur th ->
  forall l m, Forall (fun te => wf_time (fst te)) l -> 0 <= fst m ->
  fold_left (guard_step sub_duration s th) l m = fold_left pick (map (contrib s th) l) m.
Proof.
  intros Hn Hth. induction l as [|te l IH]; intros m Hl Hm; [reflexivity|].
  inversion Hl as [|? ? Hte Hl']; subst. cbn [fold_left map].
  rewrite (guard_step_pick s th m te Hn Hte Hth Hm).
  apply IH; [exact Hl' | apply pick_nonneg; exact Hm].
Qed.

Lemma stamps_wf s : wf_status s -> Forall (fun te => wf_time (fst te)) (stamps s).
Proof.
  intros [_ [_ [Hc [Hs [Hb [Hcr Hd]]]]]]. unfold stamps. repeat (constructor; [cbn [fst]; assumption|]). constructor.
Qed.

(* the shape of the answer: maximum contribution, error of the first stamp that contributes it *)
Definition contribs (s : status) (th : Z) : list (Z * werr) := map (contrib s th) (stamps s).

Lemma synced_shape s th : wf_status s -> is_dur th ->
  synced_to_emit s th =
    if peers s =? 0 then (0, ErrNoConnections)
    else if ns (synced s) =? 0 then (0, ErrP2PSyncOngoing)
    else let w := max0 (map fst (contribs s th)) in
         (w, if 0 <? w then first_eq w (contribs s th) else NoErr).
Proof.
  intros Hwf Hth. pose proof Hwf as [Hn [_ [_ [Hs _]]]].
  unfold synced_to_emit, synced_to_emit_with.
  destruct (peers s =? 0); [reflexivity|].
  rewrite (is_zero_ns _ Hs). destruct (ns (synced s) =? 0); [reflexivity|].
  rewrite (fold_guard s th Hn Hth (stamps s) (0, NoErr) (stamps_wf s Hwf)) by (cbn; lia).
  fold (contribs s th).
  destruct (fold_pick (contribs s th) (0, NoErr)) as [F1 F2]; [cbn; lia|].
  cbn [fst snd] in F1, F2. pose proof (max0_nonneg (map fst (contribs s th))) as Hnn.
  rewrite Z.max_r in F1 by exact Hnn.
  rewrite (surjective_pairing (fold_left pick (contribs s th) (0, NoErr))).
  rewrite F2, F1. reflexivity.
Qed.

(* --- contributions against exact remaining times *)
Lemma contrib_exact s th t e : is_dur th -> min64 < th -> min64 <= elapsed s t ->
  fst (contrib s th (t, e)) = Z.max 0 (capped (remaining s th t)).
Proof.
  unfold is_dur. intros Hth Hlt Hel. unfold contrib, capped, remaining, sat64. cbn [fst snd].
  set (D := elapsed s t) in *.
  destruct (Z.ltb_spec D min64) as [L1|L1]; [lia|].
  destruct (Z.ltb_spec max64 D) as [L2|L2].
  - replace (max64 <? th) with false by (consts; lia). consts; lia.
  - destruct (Z.ltb_spec D th) as [L3|L3].
    + destruct (Z.ltb_spec (th - D) min64); [consts; lia|].
      destruct (Z.ltb_spec max64 (th - D)); consts; lia.
    + consts; lia.
Qed.

Lemma contrib_exact_all s th t e : is_dur th -> min64 <= elapsed s t ->
  fst (contrib s th (t, e)) = Z.max 0 (capped (remaining s th t)).
Proof.
  unfold is_dur. intros Hth Hel. unfold contrib, capped, remaining, sat64. cbn [fst snd].
  set (D := elapsed s t) in *.
  destruct (Z.ltb_spec D min64) as [L1|L1]; [lia|].
  destruct (Z.ltb_spec max64 D) as [L2|L2].
  - replace (max64 <? th) with false by (consts; lia). consts; lia.
  - destruct (Z.ltb_spec D th) as [L3|L3].
    + destruct (Z.ltb_spec (th - D) min64); [consts; lia|].
      destruct (Z.ltb_spec max64 (th - D)); consts; lia.
    + consts; lia.
Qed.

Lemma contrib_nonneg_th s th t e : 0 <= th <= max64 ->
  fst (contrib s th (t, e)) = Z.max 0 (capped (remaining s th t)).
Proof.
  intros Hth. unfold contrib, capped, remaining, sat64. cbn [fst snd].
  set (D := elapsed s t) in *.
  destruct (Z.ltb_spec D min64) as [L1|L1].
  - replace (min64 <? th) with true by (consts; lia).
    destruct (Z.ltb_spec (th - min64) min64); [consts; lia|].
    destruct (Z.ltb_spec max64 (th - min64)); consts; lia.
  - destruct (Z.ltb_spec max64 D) as [L2|L2].
    + replace (max64 <? th) with false by (consts; lia). consts; lia.
    + destruct (Z.ltb_spec D th) as [L3|L3].
      * destruct (Z.ltb_spec (th - D) min64); [consts; lia|].
        destruct (Z.ltb_spec max64 (th - D)); consts; lia.
      * consts; lia.
Qed.

(* for every threshold above MinInt64: a stamp contributes a positive wait exactly when it is not yet
   th in the past, and never more than its capped remaining time *)
Lemma contrib_bounds s th t e : is_dur th -> min64 < th ->
  (0 < fst (contrib s th (t, e)) <-> elapsed s t < th) /\
  0 <= fst (contrib s th (t, e)) <= Z.max 0 (capped (remaining s th t)).
Proof.
  unfold is_dur. intros Hth Hlt. unfold contrib, capped, remaining, sat64. cbn [fst snd].
  set (D := elapsed s t) in *.
  destruct (Z.ltb_spec D min64) as [L1|L1].
  - replace (min64 <? th) with true by (consts; lia).
    destruct (Z.ltb_spec (th - min64) min64); [consts; lia|].
    destruct (Z.ltb_spec max64 (th - min64)); consts; lia.
  - destruct (Z.ltb_spec max64 D) as [L2|L2].
    + replace (max64 <? th) with false by (consts; lia). consts; lia.
    + destruct (Z.ltb_spec D th) as [L3|L3].
      * destruct (Z.ltb_spec (th - D) min64); [consts; lia|].
        destruct (Z.ltb_spec max64 (th - D)); consts; lia.
      * consts; lia.
Qed.

Lemma first_eq_first_with s th w : 0 < w ->
  forall l, (forall te, In te l -> fst (contrib s th te) = Z.max 0 (capped (remaining s th (fst te)))) ->
  first_eq w (map (contrib s th) l) = first_with s th w l.
Proof.
  intros Hw. induction l as [|[t e] l IH]; intros H; [reflexivity|].
  cbn [map first_eq first_with].
  rewrite (H (t, e)) by (left; reflexivity). cbn [fst snd].
  replace (snd (contrib s th (t, e))) with e by reflexivity.
  destruct (Z.eqb_spec (capped (remaining s th t)) w) as [E|E].
  - replace (Z.max 0 (capped (remaining s th t)) =? w) with true by lia. reflexivity.
  - replace (Z.max 0 (capped (remaining s th t)) =? w) with false by lia.
    apply IH. intros te Hin. apply H. right. exact Hin.
Qed.

Lemma first_eq_not_noerr w : forall l, 0 < w -> w = max0 (map fst l) ->
  (forall ce, In ce l -> snd ce <> NoErr) -> first_eq w l <> NoErr.
Proof.
  induction l as [|ce l IH]; intros Hw Hmax Hne.
  - cbn in Hmax. lia.
  - cbn [first_eq]. destruct (Z.eqb_spec (fst ce) w) as [E|E].
    + apply Hne. left. reflexivity.
    + cbn [map max0 fold_right] in Hmax. fold (max0 (map fst l)) in Hmax.
      apply IH; [exact Hw | lia |]. intros c Hc. apply Hne. right. exact Hc.
Qed.

(* --- list facts about max0 *)
Definition fcap (x : Z) : Z := Z.max 0 (capped x).
Lemma fcap_max x y : fcap (Z.max x y) = Z.max (fcap x) (fcap y).
Proof. unfold fcap, capped. consts. lia. Qed.
Lemma fcap_nonneg x : 0 <= fcap x.
Proof. unfold fcap. lia. Qed.

Lemma max0_le_pointwise (A : Type) (g h : A -> Z) l :
  (forall x, In x l -> g x <= h x) -> max0 (map g l) <= max0 (map h l).
Proof.
  induction l as [|a l IH]; intros H; [cbn; lia|].
  cbn [map max0 fold_right]. fold (max0 (map g l)). fold (max0 (map h l)).
  assert (H1 : g a <= h a) by (apply H; left; reflexivity).
  assert (H2 : max0 (map g l) <= max0 (map h l)) by (apply IH; intros x Hx; apply H; right; exact Hx).
  lia.
Qed.

Lemma max0_ext (A : Type) (g h : A -> Z) l :
  (forall x, In x l -> g x = h x) -> max0 (map g l) = max0 (map h l).
Proof. intros H. f_equal. apply map_ext_in. exact H. Qed.

Lemma max0_ge (A : Type) (g : A -> Z) l x : In x l -> g x <= max0 (map g l).
Proof.
  induction l as [|a l IH]; intros H; [contradiction|].
  cbn [map max0 fold_right]. fold (max0 (map g l)). destruct H as [->|H]; [lia|].
  specialize (IH H). lia.
Qed.

Lemma max0_pos (A : Type) (g : A -> Z) l : 0 < max0 (map g l) -> exists x, In x l /\ 0 < g x.
Proof.
  induction l as [|a l IH]; intros H; [cbn in H; lia|].
  cbn [map max0 fold_right] in H. fold (max0 (map g l)) in H.
  destruct (Z.ltb_spec 0 (g a)) as [Ha|Ha].
  - exists a. split; [left; reflexivity | exact Ha].
  - destruct IH as [x [Hx Hg]]; [lia|]. exists x. split; [right; exact Hx | exact Hg].
Qed.

Lemma not_all_exists (A : Type) (f : A -> Z) th l :
  ~ (forall t, In t l -> th <= f t) -> exists t, In t l /\ f t < th.
Proof.
  induction l as [|a l IH]; intros H.
  - exfalso. apply H. intros t [].
  - destruct (Z.ltb_spec (f a) th) as [Ha|Ha].
    + exists a. split; [left; reflexivity | exact Ha].
    + destruct IH as [t [Ht Hf]].
      * intro Hall. apply H. intros t [<-|Ht]; [exact Ha | apply Hall; exact Ht].
      * exists t. split; [right; exact Ht | exact Hf].
Qed.

Lemma five_stamps s : five s = map fst (stamps s).
Proof. reflexivity. Qed.

Lemma contribs_fst s th :
  map fst (contribs s th) = map (fun te => fst (contrib s th te)) (stamps s).
Proof. unfold contribs. apply map_map. Qed.

Lemma fcap_longest s th :
  fcap (longest s th) = max0 (map (fun te => fcap (remaining s th (fst te))) (stamps s)).
Proof.
  unfold longest, stamps. cbn [fold_right map fst]. rewrite !fcap_max.
  unfold max0. cbn [fold_right]. rewrite (Z.max_l (fcap (remaining s th (synced s))) 0) by apply fcap_nonneg.
  reflexivity.
Qed.

(* --- Theorem: for thresholds >= 0 the answer is exactly the specified one *)
Theorem synced_exact s th : wf_status s -> 0 <= th <= max64 ->
  synced_to_emit s th = expected s th.
Proof.
  intros Hwf Hth. assert (Hd : is_dur th) by (unfold is_dur; consts; lia).
  rewrite (synced_shape s th Hwf Hd). unfold expected.
  destruct (peers s =? 0); [reflexivity|]. destruct (ns (synced s) =? 0); [reflexivity|].
  cbv zeta.
  assert (HW : max0 (map fst (contribs s th)) = fcap (longest s th)).
  { rewrite contribs_fst, fcap_longest. apply max0_ext. intros [t e] _.
    unfold fcap. apply contrib_nonneg_th. exact Hth. }
  rewrite HW. unfold fcap. destruct (Z.leb_spec (longest s th) 0) as [L|L].
  - replace (Z.max 0 (capped (longest s th))) with 0 by (unfold capped; consts; lia). reflexivity.
  - assert (Hpos : 0 < capped (longest s th)) by (unfold capped; consts; lia).
    rewrite Z.max_r by lia. replace (0 <? capped (longest s th)) with true by lia.
    f_equal. unfold contribs. apply first_eq_first_with; [exact Hpos|].
    intros [t e] _. apply contrib_nonneg_th. exact Hth.
Qed.

(* --- Theorem: the decision, for every threshold above MinInt64 *)
Lemma stamps_errs s th : forall ce, In ce (contribs s th) -> snd ce <> NoErr.
Proof.
  intros ce H. unfold contribs, stamps in H. cbn in H.
  repeat (destruct H as [H|H]; [subst ce; cbn; discriminate|]). contradiction.
Qed.

Lemma wait_pos_iff s th : is_dur th -> min64 < th ->
  (0 < max0 (map fst (contribs s th)) <-> exists t, In t (five s) /\ elapsed s t < th).
Proof.
  intros Hd Hlt. rewrite contribs_fst, five_stamps. split.
  - intros H. apply max0_pos in H. destruct H as [[t e] [Hin Hp]].
    exists t. split; [apply (in_map fst _ _ Hin)|].
    apply (contrib_bounds s th t e Hd Hlt). exact Hp.
  - intros [t [Hin Hel]]. apply in_map_iff in Hin. destruct Hin as [[t' e] [Heq Hin]].
    cbn in Heq. subst t'.
    pose proof (max0_ge _ (fun te => fst (contrib s th te)) _ _ Hin) as Hge. cbn beta in Hge.
    apply (contrib_bounds s th t e Hd Hlt) in Hel. lia.
Qed.

Theorem emit_iff s th : wf_status s -> min64 < th <= max64 ->
  (snd (synced_to_emit s th) = NoErr <-> may_emit s th).
Proof.
  intros Hwf Hth. assert (Hd : is_dur th) by (unfold is_dur; lia).
  assert (Hlt : min64 < th) by lia.
  rewrite (synced_shape s th Hwf Hd). unfold may_emit.
  destruct (Z.eqb_spec (peers s) 0) as [P|P]; [cbn; split; [discriminate | tauto]|].
  destruct (Z.eqb_spec (ns (synced s)) 0) as [S|S]; [cbn; split; [discriminate | tauto]|].
  cbv zeta. cbn [snd].
  pose proof (wait_pos_iff s th Hd Hlt) as HP.
  destruct (Z.ltb_spec 0 (max0 (map fst (contribs s th)))) as [L|L].
  - split.
    + intros H. exfalso. revert H. apply first_eq_not_noerr; [exact L | reflexivity | apply stamps_errs].
    + intros [_ [_ H]]. exfalso. apply HP in L. destruct L as [t [Hin Hel]].
      specialize (H t Hin). lia.
  - split; [|reflexivity]. intros _. split; [exact P|]. split; [exact S|].
    intros t Hin. destruct (Z.ltb_spec (elapsed s t) th) as [Hel|Hel]; [|exact Hel].
    exfalso. assert (0 < max0 (map fst (contribs s th))); [|lia].
    apply HP. exists t. split; assumption.
Qed.

(* --- Theorem: the wait, for every threshold above MinInt64 *)
Theorem wait_bounds s th : wf_status s -> min64 < th <= max64 ->
  peers s <> 0 -> ns (synced s) <> 0 -> ~ may_emit s th ->
  0 < fst (synced_to_emit s th) <= capped (longest s th) /\
  ((forall t, In t (five s) -> min64 <= elapsed s t) ->
     fst (synced_to_emit s th) = capped (longest s th) /\
     snd (synced_to_emit s th) = first_with s th (capped (longest s th)) (stamps s)).
Proof.
  intros Hwf Hth P S Hne. assert (Hd : is_dur th) by (unfold is_dur; lia).
  assert (Hlt : min64 < th) by lia.
  rewrite (synced_shape s th Hwf Hd).
  destruct (Z.eqb_spec (peers s) 0) as [P'|_]; [contradiction|].
  destruct (Z.eqb_spec (ns (synced s)) 0) as [S'|_]; [contradiction|].
  cbv zeta. cbn [fst snd].
  set (W := max0 (map fst (contribs s th))).
  assert (Hpos : 0 < W).
  { apply (wait_pos_iff s th Hd Hlt). apply not_all_exists. intro Hall. apply Hne.
    split; [exact P|]. split; [exact S | exact Hall]. }
  assert (Hle : W <= fcap (longest s th)).
  { unfold W. rewrite contribs_fst, fcap_longest. apply max0_le_pointwise.
    intros [t e] _. cbn [fst]. unfold fcap. apply (contrib_bounds s th t e Hd Hlt). }
  split; [unfold fcap in Hle; lia|].
  intros Hall.
  assert (Heq : W = fcap (longest s th)).
  { unfold W. rewrite contribs_fst, fcap_longest. apply max0_ext.
    intros [t e] Hin. cbn [fst]. unfold fcap. apply contrib_exact; [exact Hd | exact Hlt|].
    apply Hall. rewrite five_stamps. apply (in_map fst _ _ Hin). }
  assert (HWL : W = capped (longest s th)) by (unfold fcap in Heq; lia).
  split; [exact HWL|].
  replace (0 <? W) with true by lia. rewrite HWL.
  unfold contribs. apply first_eq_first_with; [lia|].
  intros [t e] Hin. cbn [fst]. apply contrib_exact; [exact Hd | exact Hlt|].
  apply Hall. rewrite five_stamps. apply (in_map fst _ _ Hin).
Qed.

Theorem no_peers s th : peers s = 0 -> synced_to_emit s th = (0, ErrNoConnections).
Proof. intros H. unfold synced_to_emit, synced_to_emit_with. rewrite H. reflexivity. Qed.

Theorem not_synced s th : wf_status s -> peers s <> 0 -> ns (synced s) = 0 ->
  synced_to_emit s th = (0, ErrP2PSyncOngoing).
Proof.
  intros Hwf P S. pose proof Hwf as [_ [_ [_ [Hs _]]]].
  unfold synced_to_emit, synced_to_emit_with.
  destruct (Z.eqb_spec (peers s) 0); [contradiction|].
  rewrite (is_zero_ns _ Hs), S. reflexivity.
Qed.

(* --- DetectParallelInstance *)
Theorem parallel_iff s th : wf_status s -> min64 < th <= max64 ->
  (detect_parallel s th = true <-> parallel s th).
Proof.
  intros Hwf Hth. pose proof Hwf as [Hn [Hst [_ [_ [_ [Hcr _]]]]]].
  unfold detect_parallel, parallel.
  rewrite (before_ns _ _ Hcr Hst), (since_sat s _ Hn Hcr).
  unfold sat64. set (D := elapsed s (created s)).
  destruct (Z.ltb_spec (ns (created s)) (ns (startup s))) as [B|B]; [split; [discriminate | lia]|].
  destruct (Z.ltb_spec D min64); [consts; lia|].
  destruct (Z.ltb_spec max64 D); consts; lia.
Qed.

(* --- the executable verdicts of the driver *)
Lemma may_emit_b_spec s th : may_emit_b s th = true <-> may_emit s th.
Proof.
  unfold may_emit_b, may_emit. rewrite !andb_true_iff, !negb_true_iff, forallb_forall.
  rewrite !Z.eqb_neq. split; intros [[H1 H2] H3] || intros [H1 [H2 H3]].
  - split; [exact H1|]. split; [exact H2|]. intros t Ht. apply Z.leb_le. apply H3. exact Ht.
  - split; [split; assumption|]. intros t Ht. apply Z.leb_le. apply H3. exact Ht.
Qed.

Lemma parallel_b_spec s th : parallel_b s th = true <-> parallel s th.
Proof. unfold parallel_b, parallel. lia. Qed.

Lemma werr_eqb_eq a b : werr_eqb a b = true <-> a = b.
Proof. unfold werr_eqb. destruct a, b; cbn; split; intros; try reflexivity; try discriminate. Qed.

Lemma werr_eqb_refl a : werr_eqb a a = true.
Proof. apply werr_eqb_eq. reflexivity. Qed.

(* --- exactness on the whole domain where the code can know the distances: any threshold when no
   stamp is more than 2^63 ns ahead of now; any stamps when the threshold is >= 0 *)
Theorem synced_exact_unsat s th : wf_status s -> is_dur th ->
  (forall t, In t (five s) -> min64 <= elapsed s t) ->
  synced_to_emit s th = expected s th.
Proof.
  intros Hwf Hd Hall.
  rewrite (synced_shape s th Hwf Hd). unfold expected.
  destruct (peers s =? 0); [reflexivity|]. destruct (ns (synced s) =? 0); [reflexivity|].
  cbv zeta.
  assert (Hc : forall te, In te (stamps s) ->
            fst (contrib s th te) = Z.max 0 (capped (remaining s th (fst te)))).
  { intros [t e] Hin. cbn [fst]. apply contrib_exact_all; [exact Hd|]. apply Hall.
    rewrite five_stamps. apply (in_map fst _ _ Hin). }
  assert (HW : max0 (map fst (contribs s th)) = fcap (longest s th)).
  { rewrite contribs_fst, fcap_longest. apply max0_ext. intros te Hin. unfold fcap. apply Hc. exact Hin. }
  rewrite HW. unfold fcap. destruct (Z.leb_spec (longest s th) 0) as [L|L].
  - replace (Z.max 0 (capped (longest s th))) with 0 by (unfold capped; consts; lia). reflexivity.
  - assert (Hpos : 0 < capped (longest s th)) by (unfold capped; consts; lia).
    rewrite Z.max_r by lia. replace (0 <? capped (longest s th)) with true by lia.
    f_equal. unfold contribs. apply first_eq_first_with; [exact Hpos | exact Hc].
Qed.

Lemma saturated_b_false s :
  saturated_b s = false <-> (forall t, In t (five s) -> min64 <= elapsed s t).
Proof.
  unfold saturated_b. rewrite negb_false_iff, forallb_forall. split; intros H t Ht.
  - apply Z.leb_le. apply H. exact Ht.
  - apply Z.leb_le. apply H. exact Ht.
Qed.

Theorem synced_exact_domain s th : wf_status s -> is_dur th ->
  0 <= th \/ saturated_b s = false ->
  synced_to_emit s th = expected s th.
Proof.
  intros Hwf Hd [H|H].
  - apply synced_exact; [exact Hwf | unfold is_dur in Hd; lia].
  - apply synced_exact_unsat; [exact Hwf | exact Hd | apply saturated_b_false; exact H].
Qed.

Lemma answer_ok_iff s th a : answer_ok s th a = true <-> a = expected s th.
Proof.
  unfold answer_ok. rewrite andb_true_iff, Z.eqb_eq, werr_eqb_eq. destruct a as [w e].
  destruct (expected s th) as [w' e']. cbn. split; [intros [-> ->]; reflexivity | intros H; inversion H; tauto].
Qed.

Theorem answer_ok_model s th : wf_status s -> is_dur th ->
  0 <= th \/ saturated_b s = false ->
  answer_ok s th (synced_to_emit s th) = true.
Proof. intros Hwf Hd Hdom. apply answer_ok_iff. apply synced_exact_domain; assumption. Qed.

(* --- DetectParallelInstance on its whole exact domain *)
Theorem parallel_iff_domain s th : wf_status s -> is_dur th ->
  min64 < th \/ min64 <= elapsed s (created s) ->
  (detect_parallel s th = true <-> parallel s th).
Proof.
  intros Hwf Hd Hdom. pose proof Hwf as [Hn [Hst [_ [_ [_ [Hcr _]]]]]].
  unfold is_dur in Hd. unfold detect_parallel, parallel.
  rewrite (before_ns _ _ Hcr Hst), (since_sat s _ Hn Hcr).
  unfold sat64. set (D := elapsed s (created s)) in *.
  destruct (Z.ltb_spec (ns (created s)) (ns (startup s))) as [B|B]; [split; [discriminate | lia]|].
  destruct (Z.ltb_spec D min64); [consts; lia|].
  destruct (Z.ltb_spec max64 D); consts; lia.
Qed.

(* --- what the code does at threshold = MinInt64: no Since(t) is smaller, no guard ever fires *)
Theorem min_threshold_emits s : wf_status s -> peers s <> 0 -> ns (synced s) <> 0 ->
  synced_to_emit s min64 = (0, NoErr).
Proof.
  intros Hwf P S. assert (Hd : is_dur min64) by (unfold is_dur; consts; lia).
  rewrite (synced_shape s min64 Hwf Hd).
  destruct (Z.eqb_spec (peers s) 0); [contradiction|].
  destruct (Z.eqb_spec (ns (synced s)) 0); [contradiction|].
  cbv zeta.
  assert (HW : max0 (map fst (contribs s min64)) = 0).
  { rewrite contribs_fst.
    assert (Hle : max0 (map (fun te => fst (contrib s min64 te)) (stamps s))
                  <= max0 (map (fun _ : gtime * werr => 0) (stamps s))).
    { apply max0_le_pointwise. intros te _. unfold contrib. cbn [fst].
      pose proof (sat64_range (elapsed s (fst te))) as Hr.
      replace (sat64 (elapsed s (fst te)) <? min64) with false by lia. lia. }
    pose proof (max0_nonneg (map (fun te => fst (contrib s min64 te)) (stamps s))) as Hnn.
    assert (Hz : forall (l : list (gtime * werr)), max0 (map (fun _ => 0) l) = 0).
    { induction l as [|a l IHl]; [reflexivity|]. cbn [map max0 fold_right]. fold (max0 (map (fun _ : gtime * werr => 0) l)).
      rewrite IHl. reflexivity. }
    rewrite Hz in Hle. lia. }
  rewrite HW. reflexivity.
Qed.

Theorem min_threshold_no_parallel s : wf_status s -> detect_parallel s min64 = false.
Proof.
  intros Hwf. pose proof Hwf as [Hn [_ [_ [_ [_ [Hcr _]]]]]].
  unfold detect_parallel. destruct (go_before (created s) (startup s)); [reflexivity|].
  rewrite (since_sat s _ Hn Hcr). pose proof (sat64_range (elapsed s (created s))). lia.
Qed.

(* ------------------------------------------------------------------ Part 4: the pinned code *)
(* now = time.Unix(1790000000, 0); ExternalSelfEventCreated = now + 2^63 ns + 1 s (a stamp more than
   292 years ahead); everything else at the zero time + 1 s (long ago); one peer; threshold 1 s. *)
Definition old_now : gtime := {| sec := 62135596800 + 1790000000; nsec := 0 |}.
Definition long_ago : gtime := {| sec := 1; nsec := 0 |}.
Definition old_witness : status :=
  {| peers := 1; now := old_now; startup := long_ago; connected := long_ago; synced := long_ago;
     became := long_ago;
     created := {| sec := 62135596800 + 1790000000 + 9223372037; nsec := 854775808 |};
     detected := long_ago |}.

Example synced_to_emit_old_refuted :
  wf_status old_witness /\
  ~ may_emit old_witness 1000000000 /\
  synced_to_emit_old old_witness 1000000000 = (0, NoErr) /\
  synced_to_emit old_witness 1000000000 = (max64, ErrSelfEventsOngoing).
Proof.
  split; [|split; [|split]].
  - unfold wf_status, wf_time, old_witness, old_now, long_ago. cbn. consts. lia.
  - intros [_ [_ H]]. specialize (H (created old_witness)).
    assert (Hin : In (created old_witness) (five old_witness)) by (cbn; tauto).
    apply H in Hin. vm_compute in Hin. apply Hin. reflexivity.
  - vm_compute. reflexivity.
  - vm_compute. reflexivity.
Qed.

(* the wrap does not need a saturated Since: a large threshold and a stamp 146 years ahead *)
Example synced_to_emit_old_refuted_large_threshold :
  let s := {| peers := 1; now := old_now; startup := long_ago; connected := long_ago; synced := long_ago;
              became := long_ago; created := long_ago;
              detected := {| sec := 62135596800 + 1790000000 + 4611686019; nsec := 0 |} |} in
  synced_to_emit_old s 4611686018427387904 = (0, NoErr) /\
  synced_to_emit s 4611686018427387904 = (max64, ErrSelfEventsOngoing).
Proof. split; vm_compute; reflexivity. Qed.

(* ------------------------------------------------------------------ the residue (repaired code)
   A stamp more than 2^63 ns ahead of Now makes Time.Sub saturate at MinInt64; the code then cannot
   know the distance.  With a threshold >= 0 that does not matter (the wait is capped anyway).
   (a) threshold = MinInt64: `Since(t) < MinInt64` is unsatisfiable: emission is permitted although the
       stamp does not lie MinInt64 in the past; a parallel instance is never reported.
   (b) MinInt64 < threshold < 0: the decision is exact, the wait is threshold + 2^63, below the capped
       longest remaining time.
   Unrepaired (known findings, see design-notes/C21.md). *)
Definition far_ahead : status :=
  {| peers := 1; now := old_now; startup := long_ago; connected := long_ago; synced := long_ago;
     became := long_ago;
     created := {| sec := 62135596800 + 1790000000 + 9223372038; nsec := 854775808 |};  (* now + 2^63 ns + 2 s *)
     detected := long_ago |}.

Lemma far_ahead_wf : wf_status far_ahead.
Proof. unfold wf_status, wf_time, far_ahead, old_now, long_ago. cbn. consts. lia. Qed.

Lemma far_ahead_created_in_five : In (created far_ahead) (five far_ahead).
Proof. cbn. tauto. Qed.

Theorem min_threshold_refuted :
  exists s, wf_status s /\ ~ may_emit s min64 /\ snd (synced_to_emit s min64) = NoErr.
Proof.
  exists far_ahead. split; [exact far_ahead_wf|]. split.
  - intros [_ [_ H]]. specialize (H _ far_ahead_created_in_five). vm_compute in H. apply H. reflexivity.
  - vm_compute. reflexivity.
Qed.

Theorem min_threshold_parallel_refuted :
  exists s, wf_status s /\ parallel s min64 /\ detect_parallel s min64 = false.
Proof.
  exists far_ahead. split; [exact far_ahead_wf|]. split.
  - unfold parallel. vm_compute. split; [discriminate | reflexivity].
  - vm_compute. reflexivity.
Qed.

Theorem negative_threshold_wait_refuted :
  exists s th, wf_status s /\ min64 < th < 0 /\ peers s <> 0 /\ ns (synced s) <> 0 /\
               ~ may_emit s th /\ fst (synced_to_emit s th) <> capped (longest s th).
Proof.
  exists far_ahead, (-1000000000). split; [exact far_ahead_wf|].
  split; [consts; lia|]. split; [discriminate|]. split; [vm_compute; discriminate|]. split.
  - intros [_ [_ H]]. specialize (H _ far_ahead_created_in_five). vm_compute in H. apply H. reflexivity.
  - vm_compute. discriminate.
Qed.

Example negative_threshold_wait_is_a_lower_bound :
  synced_to_emit far_ahead (-1000000000) = (9223372035854775808, ErrSelfEventsOngoing) /\
  capped (longest far_ahead (-1000000000)) = max64.
Proof. split; vm_compute; reflexivity. Qed.
