(* C15: the composition invariant over every step sequence, and the theorems: every Released is
   for an accepted event and happens at most once; the semaphore never warns and holds exactly
   accepted minus released; after Stop every event that entered process() — in particular every
   event of a finished batch — has been released exactly once and the semaphore is back to the
   metric of the events that never entered process(). *)
From Coq Require Import NArith ZArith List Bool Lia Arith Permutation ZifyBool ZifyNat ZifyN.
From LV Require Import model.Buffer model.Processor spec.BufferSpec spec.ProcessorSpec
  proofs.BufferInv proofs.BufferPush proofs.BufferRun proofs.BufferExt proofs.BufferTheorems
  proofs.ProcessorFrame proofs.ProcessorOrder proofs.ProcessorSem proofs.ProcessorRel proofs.ProcessorUnord.
Import ListNotations.
Local Open Scope N_scope.

(* ---------- size lookup when the table grows *)
Lemma find_app_l : forall {A} (f : A -> bool) l l' x, find f l = Some x -> find f (l ++ l') = Some x.
Proof. intros A f l l' x; induction l as [|a l IH]; simpl; [discriminate|]. destruct (f a); auto. Qed.
Lemma find_app_r : forall {A} (f : A -> bool) l l', find f l = None -> find f (l ++ l') = find f l'.
Proof. intros A f l l'; induction l as [|a l IH]; simpl; auto. destruct (f a); [discriminate | auto]. Qed.
Lemma find_pg_in : forall t g, In g (map pg t) -> exists e, find (fun e => pg e =? g) t = Some e.
Proof.
  intros t g H. destruct (find (fun e => pg e =? g) t) eqn:F; eauto.
  apply in_map_iff in H. destruct H as [e [E He]]. apply (find_none _ _ F) in He.
  rewrite E, N.eqb_refl in He. discriminate.
Qed.
Lemma find_pg_notin : forall t g, ~ In g (map pg t) -> find (fun e => pg e =? g) t = None.
Proof.
  intros t g H. destruct (find (fun e => pg e =? g) t) eqn:F; auto.
  apply find_some in F. destruct F as [A B]. apply N.eqb_eq in B. exfalso. apply H. rewrite <- B. apply in_map; auto.
Qed.
Lemma find_pg_nodup : forall t e, NoDup (map pg t) -> In e t -> find (fun e' => pg e' =? pg e) t = Some e.
Proof.
  intros t e Nd He. destruct (find_pg_in t (pg e) (in_map pg _ _ He)) as [e' F]. rewrite F. f_equal.
  apply find_some in F. destruct F as [A B]. apply N.eqb_eq in B.
  eapply NoDup_map_inj_in; eauto.
Qed.

Lemma nth_error_firstn_lt : forall {A} (l : list A) n k, (k < n)%nat -> nth_error (firstn n l) k = nth_error l k.
Proof.
  intros A l; induction l as [|a l IH]; intros n k H.
  - rewrite firstn_nil. reflexivity.
  - destruct n; [lia|]. destruct k; simpl; auto. apply IH. lia.
Qed.

Lemma Sem_same' : forall s s', held_n s' = held_n s -> held_s s' = held_s s -> warned s' = warned s ->
  tab s' = tab s -> relg (plog s') = relg (plog s) -> Sem s -> Sem s'.
Proof.
  intros s s' A B C D E [Sw Sn Ss Si Sd].
  assert (Esz : size_of_g s' = size_of_g s) by (unfold size_of_g, lookup_g; rewrite D; reflexivity).
  constructor; unfold pgs in *; rewrite ?Esz, ?A, ?B, ?C, ?D, ?E; auto.
Qed.

Section R.
  Variable fc fp : list out -> entry -> bool.
  Variable cap_n cap_s lim_n lim_s : N.

  Notation process := (Processor.process fc fp lim_n lim_s).
  Notation flush := (Processor.flush fc fp lim_n lim_s).
  Notation pstep_run := (Processor.pstep_run fc fp cap_n cap_s lim_n lim_s).
  Notation prun := (Processor.prun fc fp cap_n cap_s lim_n lim_s).
  Notation PB := (PB fc fp lim_n lim_s).

  Lemma PB_same : forall s s', buf s' = buf s -> pushed s' = pushed s -> tab s' = tab s ->
    Hd s' = Hd s -> relg (plog s') = relg (plog s) ->
    held_n s' = held_n s -> held_s s' = held_s s -> warned s' = warned s -> PB s -> PB s'.
  Proof.
    intros s s' Eb Ep Et Eh Er En Es Ew [Pb Nt Nh Hh Pp Sm].
    assert (Epg : pgs s' = pgs s) by (unfold pgs; rewrite Et; reflexivity).
    constructor; rewrite ?Eb, ?Ep, ?Epg, ?Eh, ?Er; auto.
    apply (Sem_same' s); auto.
  Qed.

  Lemma PB_flush : forall fuel s bs i, i = bs_processed bs -> PB s ->
    incl (b_events (bs_batch bs)) (tab s) -> NoDup (gs (bs_batch bs)) ->
    (forall j ev, (bs_processed bs <= j)%nat -> nth_error (b_events (bs_batch bs)) j = Some ev ->
                  ~ In (pg ev) (Hd s)) ->
    PB (fst (flush fuel s bs i)) /\ tab (fst (flush fuel s bs i)) = tab s.
  Proof.
    induction fuel as [|f IH]; intros s bs i Hi P Hin Nd Fr; simpl.
    { destruct (Nat.ltb (bs_processed bs) (length (bs_results bs)) && nth i (bs_results bs) false); simpl; auto.
      split; auto. apply (PB_same s); auto. }
    destruct (Nat.ltb (bs_processed bs) (length (bs_results bs)) && nth i (bs_results bs) false); auto.
    destruct (nth_error (b_events (bs_batch bs)) i) as [ev|] eqn:En; auto.
    destruct (PB_process fc fp lim_n lim_s s ev P) as [P1 [T1 H1]].
    { apply Hin. eapply nth_error_In; eauto. }
    { apply (Fr i ev); [lia | exact En]. }
    destruct (process s ev) as [s1 rq]. cbn [fst] in *.
    set (bs1 := mkBs (bs_batch bs) (bs_chan bs) (bs_arrived bs) (set_nth i (bs_results bs) false)
                     (S (bs_processed bs)) (bs_request bs ++ rq)).
    destruct (IH s1 bs1 (S i)) as [P2 T2]; auto.
    - simpl. lia.
    - simpl. rewrite T1. exact Hin.
    - simpl. intros j ev' Hj En'. rewrite H1. intros [Hx|Hx].
      + (* two positions of the batch with the same event index *)
        assert (j = i).
        { unfold gs in Nd. eapply NoDup_nth_error with (l := map pg (b_events (bs_batch bs))); eauto.
          - apply nth_error_Some. rewrite nth_error_map, En'. discriminate.
          - rewrite !nth_error_map, En, En'. simpl. congruence. }
        lia.
      + apply (Fr j ev'); [lia | exact En' | exact Hx].
    - split; [exact P2 | rewrite T2; exact T1].
  Qed.

  (* queued batches' events are in the table; the table's events come from enqueued batches *)
  Definition QT (pre : list pstep) (s : pst) : Prop :=
    (forall bs, In bs (queue s) -> incl (b_events (bs_batch bs)) (tab s)) /\ incl (pgs s) (all_g pre).
  Definition ST (s : pst) : Prop := stopped s = true -> inc (buf s) = [].

  Lemma wsum_sizes_new : forall t evs, (forall e, In e evs -> ~ In (pg e) (map pg t)) -> NoDup (map pg evs) ->
    wsum (fun g => match find (fun e => pg e =? g) (t ++ evs) with Some e => p_size e | None => 0 end) (map pg evs)
    = fold_right (fun e a => p_size e + a) 0 evs.
  Proof.
    intros t evs Hn Nd.
    assert (K : forall l, incl l evs ->
              wsum (fun g => match find (fun e => pg e =? g) (t ++ evs) with Some e => p_size e | None => 0 end) (map pg l)
              = fold_right (fun e a => p_size e + a) 0 l).
    { induction l as [|e l IH]; intros Hi; simpl; auto.
      rewrite IH by (intros y Hy; apply Hi; right; auto).
      assert (He : In e evs) by (apply Hi; left; auto).
      rewrite find_app_r by (apply find_pg_notin; apply Hn; exact He).
      rewrite (find_pg_nodup evs e Nd He). reflexivity. }
    apply K. apply incl_refl.
  Qed.

  Lemma PB_step : forall pre x s, NoDup (all_g (pre ++ [x])) ->
    OI pre s -> UI s -> PB s -> QT pre s -> ST s ->
    PB (pstep_run s x) /\ QT (pre ++ [x]) (pstep_run s x) /\ ST (pstep_run s x).
  Proof.
    intros pre x s Nd OIs UIs P [Qev Qpg] St.
    assert (Eall : all_g (pre ++ [x]) = all_g pre ++ match x with SEnq b => gs b | _ => [] end).
    { unfold all_g. rewrite flat_map_app. simpl. rewrite app_nil_r. reflexivity. }
    assert (Mono : incl (all_g pre) (all_g (pre ++ [x]))) by (rewrite Eall; apply incl_appl, incl_refl).
    assert (QT' : forall s', queue s' = queue s -> tab s' = tab s -> QT (pre ++ [x]) s').
    { intros s' Eq Et. split; [rewrite Eq, Et; exact Qev | unfold pgs; rewrite Et; eapply incl_tran; eauto]. }
    destruct OIs as [Ihd Iqin Iqnd Iord]. destruct UIs as [Uarr Uun].
    destruct x as [b0 | bid pos | | | | ]; simpl.
    - (* SEnq *)
      unfold Processor.enqueue. destruct (quitf s || stopped s) eqn:Eqs; [split; [exact P | split; [apply QT'; auto | exact St]]|].
      assert (Es : stopped s = false) by (apply orb_false_iff in Eqs; tauto).
      destruct ((cap_n <? held_n s + batch_num b0) || (cap_s <? held_s s + batch_size b0)).
      + split; [apply (PB_same s); auto | split; [apply QT'; auto | exact St]].
      + rewrite Eall in Nd.
        assert (Dj : forall e, In e (b_events b0) -> ~ In (pg e) (pgs s)).
        { intros e He Hi. eapply NoDup_app_disjoint; [exact Nd | apply Qpg; exact Hi | unfold gs; apply in_map; exact He]. }
        assert (Ngs : NoDup (gs b0)) by (eapply NoDup_app_r; eauto).
        split; [|split].
        * destruct P as [Pb Nt Nh Hh Pp [Sw Sn Ss Si Sd]].
          match goal with |- PB ?sx => set (s' := sx) end.
          assert (Epg : pgs s' = pgs s ++ gs b0) by (unfold pgs, gs; simpl; apply map_app).
          assert (Eold : forall g, In g (pgs s) -> size_of_g s' g = size_of_g s g).
          { intros g Hg. unfold size_of_g, lookup_g. simpl tab.
            destruct (find_pg_in (tab s) g Hg) as [e F]. rewrite (find_app_l _ _ _ _ F), F. reflexivity. }
          constructor.
          -- exact Pb.
          -- rewrite Epg. clear -Nt Ngs Dj. unfold gs in *. induction (pgs s) as [|a l IH]; simpl; auto.
             inversion Nt; subst. constructor.
             ++ intros Hi. apply in_app_or in Hi. destruct Hi as [Hi|Hi]; [auto|].
                apply in_map_iff in Hi. destruct Hi as [e [E He]]. apply (Dj e He). left; auto.
             ++ apply IH; auto. intros e He Hi. apply (Dj e He). right; auto.
          -- exact Nh.
          -- rewrite Epg. intros g Hg. apply in_or_app; left. apply Hh. exact Hg.
          -- exact Pp.
          -- constructor.
             ++ exact Sw.
             ++ change (held_n s') with (held_n s + batch_num b0). change (plog s') with (PAccepted (b_id b0) :: plog s).
                change (relg (PAccepted (b_id b0) :: plog s)) with (relg (plog s)).
                change (tab s') with (tab s ++ b_events b0). rewrite app_length. unfold batch_num. lia.
             ++ change (held_s s') with (held_s s + batch_size b0).
                change (relg (plog s')) with (relg (plog s)). rewrite Epg, wsum_app.
                rewrite (wsum_ext (size_of_g s') (size_of_g s) (relg (plog s))) by (intros g Hg; apply Eold; apply Si; exact Hg).
                rewrite (wsum_ext (size_of_g s') (size_of_g s) (pgs s)) by (intros g Hg; apply Eold; exact Hg).
                assert (Enew : wsum (size_of_g s') (gs b0) = batch_size b0).
                { unfold size_of_g, lookup_g, gs, batch_size. simpl tab. apply wsum_sizes_new; auto. }
                rewrite Enew. lia.
             ++ change (relg (plog s')) with (relg (plog s)). rewrite Epg. intros g Hg. apply in_or_app; left; auto.
             ++ exact Sd.
        * split.
          -- simpl. intros bs Hb. apply in_app_or in Hb. destruct Hb as [Hb|[Hb|[]]].
             ++ intros e He. apply in_or_app; left. apply (Qev bs Hb); exact He.
             ++ subst bs. simpl. apply incl_appr, incl_refl.
          -- unfold pgs. simpl. rewrite map_app. intros g Hg. apply in_app_or in Hg. rewrite Eall. apply in_or_app.
             destruct Hg as [Hg|Hg]; [left; apply Qpg; exact Hg | right; exact Hg].
        * intros H. simpl in H. congruence.
    - (* SArrive *)
      unfold arrive. destruct (stopped s); [split; [exact P | split; [apply QT'; auto | exact St]]|].
      split; [apply (PB_same s); auto | split; [|exact St]].
      split; [|unfold pgs; simpl; eapply incl_tran; eauto].
      simpl. intros bs' Hb. apply in_map_iff in Hb. destruct Hb as [bs [E Hb]]. subst bs'.
      assert (Eb : bs_batch (if b_id (bs_batch bs) =? bid then arrive_bs bs pos else bs) = bs_batch bs).
      { destruct (b_id (bs_batch bs) =? bid); auto. unfold arrive_bs. destruct (_ && _); auto. }
      rewrite Eb. apply Qev; exact Hb.
    - (* SConsume *)
      unfold Processor.consume. destruct (stopped s) eqn:Es; [split; [exact P | split; [apply QT'; auto | exact St]]|].
      assert (St' : forall s', stopped s' = false -> ST s') by (intros s' H H'; congruence).
      destruct (queue s) as [|bs rest] eqn:Q; [split; [exact P | split; [apply QT'; auto | exact St]]|].
      assert (Hbs : In (SEnq (bs_batch bs)) pre) by (apply Iqin; left; auto).
      assert (Hev : incl (b_events (bs_batch bs)) (tab s)) by (apply Qev; left; auto).
      assert (Ngs : NoDup (gs (bs_batch bs))).
      { clear -Iqnd. simpl in Iqnd. eapply NoDup_app_l; eauto. }
      destruct (Nat.leb (length (b_events (bs_batch bs))) (bs_processed bs)).
      { match goal with |- PB ?sf /\ _ =>
          assert (Et : tab sf = tab s) by (destruct (bs_request bs); reflexivity);
          assert (Eq : queue sf = rest) by (destruct (bs_request bs); reflexivity);
          assert (Ess : stopped sf = false) by (destruct (bs_request bs); simpl; exact Es) end.
        split; [apply (PB_same s); auto; destruct (bs_request bs); reflexivity|].
        split; [|apply St'; exact Ess].
        split; [rewrite Eq, Et; intros bs' Hb; apply Qev; right; exact Hb
               | unfold pgs; rewrite Et; eapply incl_tran; eauto]. }
      destruct (bs_chan bs) as [|pos ch] eqn:Ch.
      { split; [exact P | split; [apply QT'; auto | exact St]]. }
      destruct (b_ordered (bs_batch bs)) eqn:Ord.
      + (* ordered *)
        destruct (Iord (bs_batch bs) Hbs Ord) as [A _]. specialize (A bs (or_introl eq_refl) eq_refl).
        match goal with |- context [Processor.flush ?a ?b ?c ?d ?f ?s0 ?bs0 ?i] =>
          pose proof (PB_flush f s0 bs0 i eq_refl P) as F;
          pose proof (flush_spec fc fp lim_n lim_s f s0 bs0 i eq_refl) as F2;
          destruct (Processor.flush a b c d f s0 bs0 i) as [s1 bs1] end.
        cbn [fst] in F. simpl bs_batch in F. simpl bs_processed in F.
        destruct F as [P1 T1]; auto.
        { intros j ev Hj En Hin.
          assert (Hf : In (pg ev) (filt (bs_batch bs) (Hd s))).
          { unfold filt. apply filter_In. split; auto. apply memN_In. unfold gs. apply in_map. eapply nth_error_In; eauto. }
          rewrite A in Hf. apply in_rev in Hf.
          (* pg ev sits at position j >= processed of a NoDup list, and also among the first processed *)
          apply In_nth_error in Hf. destruct Hf as [k Hk].
          assert (Lk : (k < bs_processed bs)%nat).
          { assert (k < length (firstn (bs_processed bs) (gs (bs_batch bs))))%nat by (apply nth_error_Some; congruence).
            rewrite firstn_length in H. lia. }
          rewrite nth_error_firstn_lt in Hk by exact Lk.
          assert (j = k); [|lia].
          eapply NoDup_nth_error with (l := gs (bs_batch bs)); eauto.
          - apply nth_error_Some. unfold gs. rewrite nth_error_map, En. discriminate.
          - unfold gs in *. rewrite nth_error_map, En. simpl. rewrite Hk. reflexivity. }
        destruct F2 as [Fr [Eb _]]. simpl bs_batch in Eb.
        split; [apply (PB_same s1); auto | split; [|apply St'; simpl; destruct Fr as [_ [_ [Fs _]]]; congruence]].
        split.
        * simpl. intros bs' [Hb|Hb]; [subst bs'; rewrite Eb, T1; exact Hev | rewrite T1; apply Qev; right; exact Hb].
        * unfold pgs. simpl. rewrite T1. eapply incl_tran; eauto.
      + (* unordered *)
        destruct (Uun bs (or_introl eq_refl) Ord) as [cons [B1 [B2 B3]]]. rewrite Ch in B1.
        destruct (Uarr bs (or_introl eq_refl)) as [A1 A2].
        destruct (nth_error (b_events (bs_batch bs)) pos) as [ev|] eqn:En.
        2:{ split; [apply (PB_same s); auto | split; [|apply St'; exact Es]].
            split; [simpl; intros bs' [Hb|Hb]; [subst bs'; exact Hev | apply Qev; right; exact Hb] | unfold pgs; simpl; eapply incl_tran; eauto]. }
        assert (Lp : (pos < length (b_events (bs_batch bs)))%nat) by (apply nth_error_Some; congruence).
        assert (Eg : nthg (bs_batch bs) pos = pg ev).
        { unfold nthg, gs. rewrite nth_indep with (d' := pg ev) by (rewrite map_length; exact Lp).
          rewrite map_nth. f_equal. apply nth_error_nth. exact En. }
        assert (Fresh : ~ In (pg ev) (Hd s)).
        { intros Hin.
          assert (Hf : In (pg ev) (filt (bs_batch bs) (Hd s))).
          { unfold filt. apply filter_In. split; auto. apply memN_In. unfold gs. apply in_map. eapply nth_error_In; eauto. }
          rewrite B2 in Hf. apply in_rev in Hf. apply in_map_iff in Hf. destruct Hf as [q [Eq Hq]].
          assert (Nrev : NoDup (rev (bs_arrived bs))) by (apply NoDup_rev; exact A1).
          rewrite B1 in Nrev.
          assert (Lq : (q < length (b_events (bs_batch bs)))%nat).
          { apply A2. apply in_rev. rewrite B1. apply in_or_app; left; exact Hq. }
          assert (q = pos).
          { unfold nthg in Eq, Eg. rewrite <- Eg in Eq. apply NoDup_nth in Eq; auto; unfold gs; rewrite map_length; auto. }
          subst q. eapply NoDup_app_disjoint; [exact Nrev | exact Hq | left; reflexivity]. }
        destruct (PB_process fc fp lim_n lim_s s ev P) as [P1 [T1 H1]]; auto.
        { apply Hev. eapply nth_error_In; eauto. }
        pose proof (process_frame fc fp lim_n lim_s s ev) as Fr.
        destruct (process s ev) as [s1 rq]. cbn [fst] in *.
        split; [apply (PB_same s1); auto | split; [|apply St'; simpl; destruct Fr as [_ [_ [Fs _]]]; congruence]].
        split.
        * simpl. intros bs' [Hb|Hb]; [subst bs'; simpl; rewrite T1; exact Hev | rewrite T1; apply Qev; right; exact Hb].
        * unfold pgs. simpl. rewrite T1. eapply incl_tran; eauto.
    - (* SStop *)
      unfold Processor.stop. destruct (stopped s) eqn:Es; [split; [exact P | split; [apply QT'; auto | exact St]]|].
      set (s0 := match queue s with bs :: _ => if quitf s then s else pemit s (PAborted (b_id (bs_batch bs))) | [] => s end).
      assert (P0 : PB s0 /\ tab s0 = tab s /\ queue s0 = queue s /\ buf s0 = buf s /\ pushed s0 = pushed s /\ Hd s0 = Hd s).
      { unfold s0. destruct (queue s) eqn:Q; [auto 10|]. destruct (quitf s); [auto 10|]. split; [apply (PB_same s); auto|]. simpl. auto 10. }
      destruct P0 as [P0 [T0 [Q0 [B0 [Pu0 H0]]]]].
      destruct P0 as [[ops [Eb Elen]] Nt Nh Hh [directs [Pm1 Pm2]] Sm].
      set (ops' := ops ++ [OpClear]).
      assert (Eb1 : clear_buf (buf s0) = run fc fp true lim_n lim_s ops').
      { unfold ops'. rewrite run_snoc. simpl step. rewrite Eb. reflexivity. }
      assert (Ecs : copies_of ops' = copies_of ops) by (unfold ops'; rewrite copies_of_snoc, app_nil_r; reflexivity).
      pose proof (run_inv fc fp lim_n lim_s ops') as R1. rewrite <- Eb1 in R1.
      destruct (clear_buf_ext (buf s0)) as [n0 [z0 [new [EL FL]]]].
      destruct (replay_ok fc fp lim_n lim_s s0 ops (copies_of ops') (clear_buf (buf s0)) (pushed s0) (OCleared n0 z0) new directs)
        as [Sm2 [Et [Ep [Ebf [Eh [Eq [Est Pr]]]]]]]; auto.
      { rewrite Ecs. exact Elen. }
      { eapply Permutation_NoDup; [exact Pm1 | exact Nh]. }
      { intros y Hy. apply Hh. apply (Permutation_in _ (Permutation_sym Pm1)). apply in_or_app; right; exact Hy. }
      set (s2 := fold_left apply_out (delta (log (buf s0)) (log (clear_buf (buf s0)))) (set_buf s0 (clear_buf (buf s0)) (pushed s0))) in *.
      match goal with |- PB ?sf /\ _ => assert (F : PB sf) end.
      { apply (PB_same s2); auto. constructor.
        - exists ops'. rewrite Ebf, Ep. split; auto. rewrite Ecs. exact Elen.
        - unfold pgs. rewrite Et. exact Nt.
        - rewrite Eh. exact Nh.
        - rewrite Eh. unfold pgs. rewrite Et. exact Hh.
        - exists directs. rewrite Eh, Ep, Ebf. split; auto.
        - exact Sm2. }
      split; [exact F | split].
      + split; [simpl; rewrite Eq, Q0, Et, T0; exact Qev | unfold pgs; simpl; rewrite Et, T0; eapply incl_tran; eauto].
      + intros _. simpl. rewrite Ebf. apply (clear_buf_ok lim_n lim_s (copies_of ops)). rewrite Eb. apply run_inv.
    - (* SQuit *)
      unfold quit. destruct (stopped s) eqn:Es; [split; [exact P | split; [apply QT'; auto | exact St]]|].
      split; [apply (PB_same s); auto | split; [apply QT'; auto | intros H; simpl in H; congruence]].
    - (* SAbort *)
      unfold abort. destruct (stopped s || negb (quitf s)) eqn:Eqs; [split; [exact P | split; [apply QT'; auto | exact St]]|].
      assert (Es : stopped s = false) by (apply orb_false_iff in Eqs; tauto).
      destruct (queue s) as [|bs rest] eqn:Q; [split; [exact P | split; [apply QT'; auto | exact St]]|].
      split; [apply (PB_same s); auto | split; [|intros H; simpl in H; congruence]].
      split; [simpl; intros bs' Hb; apply Qev; right; exact Hb | unfold pgs; simpl; eapply incl_tran; eauto].
  Qed.

  Record ALL (pre : list pstep) (s : pst) : Prop := mkALL {
    a_oi : OI pre s; a_ui : UI s; a_pb : PB s; a_qt : QT pre s; a_st : ST s }.

  Lemma ALL_run : forall h0 steps, NoDup (all_g steps) -> ALL steps (prun h0 steps).
  Proof.
    intros h0 steps. induction steps as [|x steps IH] using rev_ind; intros Nd.
    - constructor.
      + apply (OI_run fc fp cap_n cap_s lim_n lim_s h0 []). constructor.
      + constructor; simpl; intros bs [].
      + constructor; simpl.
        * exists []. split; reflexivity.
        * constructor.
        * constructor.
        * intros g [].
        * exists []. split; constructor.
        * constructor; simpl; auto; try constructor. intros g [].
      + split; simpl; [intros bs [] | intros g []].
      + intros H. simpl in H. discriminate.
    - assert (Nd0 : NoDup (all_g steps)).
      { unfold all_g in *. rewrite flat_map_app in Nd. eapply NoDup_app_l; eauto. }
      destruct (IH Nd0) as [O U P Q S0].
      rewrite (prun_snoc fc fp cap_n cap_s lim_n lim_s).
      destruct (PB_step steps x _ Nd O U P Q S0) as [P' [Q' S']].
      constructor; auto.
      + apply OI_step; auto.
      + eapply UI_step; eauto.
  Qed.

  Lemma relg_rev : forall l, relg (rev l) = rev (relg l).
  Proof. intros; apply flat_map_rev_small. intros []; simpl; lia. Qed.

  (* every Released names an event of an accepted batch, and no event is released twice *)
  Theorem released_at_most_once : forall h0 steps, NoDup (all_g steps) ->
    NoDup (relg (phist fc fp cap_n cap_s lim_n lim_s h0 steps))
    /\ incl (relg (phist fc fp cap_n cap_s lim_n lim_s h0 steps)) (pgs (prun h0 steps)).
  Proof.
    intros h0 steps Nd. destruct (ALL_run h0 steps Nd) as [_ _ P _ _]. destruct (pb_sem _ _ _ _ _ P) as [_ _ _ Si Sd].
    unfold phist. rewrite relg_rev. split; [apply NoDup_rev; exact Sd|].
    intros g Hg. apply Si. apply in_rev. exact Hg.
  Qed.

  (* the semaphore's warning never fires and it holds exactly the metric of the accepted events
     that have not been released *)
  Theorem sem_balanced : forall h0 steps, NoDup (all_g steps) ->
    let s := prun h0 steps in
    warned s = false
    /\ held_n s + N.of_nat (length (relg (plog s))) = N.of_nat (length (tab s))
    /\ held_s s + wsum (size_of_g s) (relg (plog s)) = wsum (size_of_g s) (pgs s).
  Proof.
    intros h0 steps Nd. cbv zeta. destruct (ALL_run h0 steps Nd) as [_ _ P _ _].
    destruct (pb_sem _ _ _ _ _ P) as [Sw Sn Ss _ _]. auto.
  Qed.

  (* after Stop: every event that entered process() has been released (hence exactly once) *)
  Theorem handled_released_after_stop : forall h0 steps, NoDup (all_g steps) ->
    let s := prun h0 steps in
    stopped s = true -> forall g, In g (Hd s) -> count_occ N.eq_dec (relg (plog s)) g = 1%nat.
  Proof.
    intros h0 steps Nd. cbv zeta. intros Hs g Hg.
    destruct (ALL_run h0 steps Nd) as [_ _ P _ S0]. set (s := prun h0 steps) in *.
    pose proof (S0 Hs) as Einc.
    destruct P as [[ops [Eb Elen]] Nt Nh Hh [directs [P1 P2]] [Sw Sn Ss Si Sd]].
    apply NoDup_count_occ'; auto.
    apply (Permutation_in _ (Permutation_sym P2)). apply (Permutation_in _ P1) in Hg.
    apply in_app_or in Hg. apply in_or_app. destruct Hg as [Hg|Hg]; [left; exact Hg | right].
    apply In_nth with (d := 0) in Hg. destruct Hg as [i [Li Ei]].
    pose proof (run_inv fc fp lim_n lim_s ops) as [W [I [C _]]]. rewrite <- Eb in *.
    assert (Hx : exists x, nth_error (copies_of ops) i = Some x).
    { destruct (nth_error (copies_of ops) i) eqn:E; eauto. apply nth_error_None in E. lia. }
    destruct Hx as [x Hx]. assert (Hxi : In x (copies_of ops)) by (eapply nth_error_In; eauto).
    destruct (C x Hxi) as [Hc|Hc]; [rewrite Einc in Hc; contradiction|].
    apply in_map_iff. exists (cid x). split; [|exact Hc].
    rewrite (W _ _ Hx). unfold g_of. rewrite Nat2N.id. exact Ei.
  Qed.

  (* ... and if every accepted event entered process() (all accepted batches finished), the
     semaphore is back to zero *)
  Theorem sem_zero_after_stop : forall h0 steps, NoDup (all_g steps) ->
    let s := prun h0 steps in
    stopped s = true -> incl (pgs s) (Hd s) -> held_n s = 0 /\ held_s s = 0.
  Proof.
    intros h0 steps Nd. cbv zeta. intros Hs Hall.
    pose proof (handled_released_after_stop h0 steps Nd Hs) as HR. cbv zeta in HR.
    destruct (ALL_run h0 steps Nd) as [_ _ P _ _]. set (s := prun h0 steps) in *.
    destruct P as [_ Nt _ _ _ [Sw Sn Ss Si Sd]].
    assert (Pm : Permutation (relg (plog s)) (pgs s)).
    { apply NoDup_Permutation; auto. intros g. split; [apply Si|].
      intros Hg. apply Hall in Hg. specialize (HR g Hg).
      apply (count_occ_In N.eq_dec). lia. }
    pose proof (Permutation_length Pm) as L. unfold pgs in L at 1. rewrite map_length in L.
    rewrite (wsum_perm _ _ _ Pm) in Ss. split; lia.
  Qed.
End R.
