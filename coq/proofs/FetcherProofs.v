(* Proofs for C16 (model/Fetcher.v against spec/FetcherSpec.v). *)
From Coq Require Import NArith ZArith List Bool Lia ZifyBool ZifyNat ZifyN.
From LV Require Import model.Fetcher spec.FetcherSpec.
Import ListNotations.

Definition keys (l : lru) : list N := map e_key l.

(* ---------- the announces cache ---------- *)

Lemma lru_find_some k l e : lru_find k l = Some e -> In e l /\ e_key e = k.
Proof.
  induction l as [|a l IH]; cbn; [discriminate|].
  destruct (e_key a =? k)%N eqn:E.
  - intros H; inversion H; subst. split; [auto | now apply N.eqb_eq].
  - intros H. destruct (IH H); auto.
Qed.

Lemma lru_find_none k l : lru_find k l = None -> ~ In k (keys l).
Proof.
  induction l as [|a l IH]; cbn; [tauto|].
  destruct (e_key a =? k)%N eqn:E; [discriminate|].
  intros H [Hk|Hk]; [apply N.eqb_neq in E; contradiction | now apply IH].
Qed.

Lemma lru_del_incl k l e : In e (lru_del k l) -> In e l.
Proof.
  induction l as [|a l IH]; cbn; [tauto|].
  destruct (e_key a =? k)%N; cbn; [auto | intros [->|H]; auto].
Qed.

Lemma lru_del_keys_incl k l x : In x (keys (lru_del k l)) -> In x (keys l).
Proof.
  unfold keys. rewrite !in_map_iff. intros (e & <- & He). exists e. split; [reflexivity|]. eapply lru_del_incl; eauto.
Qed.

Lemma lru_del_nodup k l : NoDup (keys l) -> NoDup (keys (lru_del k l)) /\ ~ In k (keys (lru_del k l)).
Proof.
  induction l as [|a l IH]; cbn; [intros; split; [constructor | tauto]|].
  intros H. inversion H as [|? ? Hni Hnd]; subst.
  destruct (e_key a =? k)%N eqn:E.
  - apply N.eqb_eq in E; subst. auto.
  - destruct (IH Hnd) as [H1 H2]. cbn. split.
    + constructor; [|assumption]. intros Hx. apply Hni. eapply lru_del_keys_incl; eauto.
    + intros [Hk|Hk]; [apply N.eqb_neq in E; contradiction | contradiction].
Qed.

Lemma lru_del_other k l e : In e l -> e_key e <> k -> In e (lru_del k l).
Proof.
  induction l as [|a l IH]; cbn; [tauto|].
  intros [->|H] Hne.
  - destruct (e_key e =? k)%N eqn:E; [apply N.eqb_eq in E; contradiction | left; reflexivity].
  - destruct (e_key a =? k)%N; [assumption | right; auto].
Qed.

Lemma in_removelast {A} (l : list A) x : In x (removelast l) -> In x l.
Proof.
  induction l as [|a l IH]; cbn; [tauto|]. destruct l as [|b l]; [tauto|].
  intros [->|H]; [left; reflexivity | right; apply IH, H].
Qed.

Lemma nodup_map_removelast {A B} (f : A -> B) (l : list A) : NoDup (map f l) -> NoDup (map f (removelast l)).
Proof.
  induction l as [|a l IH]; cbn; [auto|]. destruct l as [|b l]; [constructor|].
  intros H. inversion H as [|? ? Hni Hnd]; subst. cbn [map]. constructor.
  - intros Hx. apply Hni. change (In (f a) (map f (b :: l))).
    apply in_map_iff in Hx. destruct Hx as (y & Hy1 & Hy2). apply in_map_iff. exists y. split; [assumption|].
    now apply in_removelast.
  - apply IH, Hnd.
Qed.

Lemma lru_normalize_incl f lim l e : In e (fst (lru_normalize f lim l)) -> In e l.
Proof.
  revert l. induction f as [|f IH]; intros l; cbn; [auto|].
  destruct (_ || _); [|auto].
  destruct (rev l) as [|o r]; [auto|].
  destruct (lru_normalize f lim (removelast l)) as [l' ev] eqn:E. cbn.
  intros H. apply in_removelast, IH. now rewrite E.
Qed.

Lemma lru_normalize_nodup f lim l : NoDup (keys l) -> NoDup (keys (fst (lru_normalize f lim l))).
Proof.
  revert l. induction f as [|f IH]; intros l; cbn; [auto|].
  destruct (_ || _); [|auto].
  destruct (rev l) as [|o r]; [auto|].
  destruct (lru_normalize f lim (removelast l)) as [l' ev] eqn:E. cbn.
  intros H. specialize (IH (removelast l)). rewrite E in IH. apply IH. now apply nodup_map_removelast.
Qed.

(* ---------- invariant: the cache holds only ghost-covered announces, keys are unique ---------- *)

Definition covered (g : ghost) (l : lru) : Prop :=
  forall e a, In e l -> In a (e_val e) -> In (a_peer a, e_key e) g.

Definition inv (g : ghost) (st : state) : Prop := NoDup (keys (ann st)) /\ covered g (ann st).

Lemma covered_incl g l l' : (forall e, In e l' -> In e l) -> covered g l -> covered g l'.
Proof. intros H C e a He Ha. apply (C e a); auto. Qed.

Lemma covered_mono g g' l : (forall x, In x g -> In x g') -> covered g l -> covered g' l.
Proof. intros H C e a He Ha. apply H, (C e a); auto. Qed.

Lemma inv_get g st id got l1 :
  inv g st -> lru_get id (ann st) = (got, l1) ->
  NoDup (keys l1) /\ covered g l1 /\
  (forall v a, got = Some v -> In a v -> In (a_peer a, id) g) /\
  (forall x, In x (keys l1) <-> In x (keys (ann st))) /\
  (forall v, got = Some v -> exists e, lru_find id l1 = Some e /\ e_val e = v).
Proof.
  intros [Hnd Hc] H. unfold lru_get in H.
  destruct (lru_find id (ann st)) as [e|] eqn:F; inversion H; subst; clear H.
  - destruct (lru_find_some _ _ _ F) as [He Hk].
    destruct (lru_del_nodup id _ Hnd) as [H1 H2].
    split; [|split; [|split; [|split]]].
    + cbn. constructor; [now rewrite Hk | assumption].
    + intros e' a [<-|He'] Ha; [apply (Hc e a); auto | apply (Hc e' a); eauto using lru_del_incl].
    + intros v a Hv Ha. injection Hv as <-. rewrite <- Hk. apply (Hc e a); auto.
    + intros x. cbn. split.
      * intros [<-|Hx]; [apply in_map; assumption | eapply lru_del_keys_incl; eauto].
      * intros Hx. destruct (N.eq_dec x (e_key e)) as [->|Hne]; [auto|]. right.
        unfold keys in *. apply in_map_iff in Hx. destruct Hx as (e' & <- & He').
        apply in_map. apply lru_del_other; [assumption | congruence].
    + intros v Hv. injection Hv as <-. exists e. cbn. rewrite Hk, N.eqb_refl. auto.
  - split; [assumption|]. split; [assumption|]. split; [discriminate|]. split; [tauto | discriminate].
Qed.

Lemma inv_add g lim id v w l :
  NoDup (keys l) -> covered g l -> (forall a, In a v -> In (a_peer a, id) g) ->
  NoDup (keys (fst (lru_add lim id v w l))) /\ covered g (fst (lru_add lim id v w l)) /\
  (forall x, In x (keys (fst (lru_add lim id v w l))) -> x = id \/ In x (keys l)).
Proof.
  intros Hnd Hc Hv. unfold lru_add.
  destruct (lru_del_nodup id _ Hnd) as [H1 H2].
  assert (Hnd1 : NoDup (keys (mkE id v w :: lru_del id l))) by (cbn; constructor; assumption).
  assert (Hc1 : covered g (mkE id v w :: lru_del id l)).
  { intros e a [<-|He] Ha; [cbn in *; auto | apply (Hc e a); eauto using lru_del_incl]. }
  split; [|split].
  - now apply lru_normalize_nodup.
  - eapply covered_incl; [|exact Hc1]. intros e. apply lru_normalize_incl.
  - intros x Hx. unfold keys in Hx. apply in_map_iff in Hx. destruct Hx as (e & <- & He).
    apply lru_normalize_incl in He. destruct He as [<-|He]; [left; reflexivity | right].
    apply in_map. eapply lru_del_incl; eauto.
Qed.

Lemma inv_forget g st id : inv g st -> inv g (forget id st) /\ ~ In id (keys (ann (forget id st))) /\
  (forall x, In x (keys (ann (forget id st))) -> In x (keys (ann st))).
Proof.
  intros [Hnd Hc]. unfold forget. destruct (lru_find id (ann st)) eqn:F; cbn [ann].
  - destruct (lru_del_nodup id _ Hnd) as [H1 H2]. split; [split|split]; try assumption.
    + eapply covered_incl; [|exact Hc]. intros e'. apply lru_del_incl.
    + intros x. apply lru_del_keys_incl.
  - split; [split; assumption|]. split; [now apply lru_find_none | auto].
Qed.

Lemma memN_in x l : memN x l = true <-> In x l.
Proof.
  unfold memN. rewrite existsb_exists. split.
  - intros (y & Hy & E). apply N.eqb_eq in E. now subst.
  - intros H. exists x. split; [assumption | apply N.eqb_refl].
Qed.

(* ---------- processNotification ---------- *)

Lemma notify_one_inv c now d susp g st tf id :
  inv g st -> In (a_peer d, id) g ->
  let '(st', tf') := notify_one c now d susp (st, tf) id in
  inv g st' /\ tm st' = tm st /\ (forall x, In x tf' -> In x tf \/ x = id).
Proof.
  intros Hinv Hg. unfold notify_one.
  destruct (lru_get id (ann st)) as [got l1] eqn:G.
  destruct (inv_get _ _ _ _ _ Hinv G) as (Hnd1 & Hc1 & Hgot & _ & _).
  set (anns := match got with Some v => v | None => [] end ++ [d]).
  assert (Hanns : forall a, In a (anns ++ [d]) -> In (a_peer a, id) g).
  { intros a Ha. unfold anns in Ha. rewrite !in_app_iff in Ha.
    destruct Ha as [[Ha | [<- | []]] | [<- | []]]; try assumption.
    destruct got as [v|]; [eapply Hgot; eauto | contradiction]. }
  destruct (lru_add (c_hash_limit c) id (anns ++ [d]) (N.of_nat (length anns)) l1) as [l2 ev] eqn:A.
  destruct (inv_add g (c_hash_limit c) id (anns ++ [d]) (N.of_nat (length anns)) l1 Hnd1 Hc1 Hanns) as (Hnd2 & Hc2 & _).
  rewrite A in Hnd2, Hc2. cbn [fst] in Hnd2, Hc2.
  destruct susp.
  - split; [split; assumption|]. split; [reflexivity | auto].
  - destruct (f_find id (f_del_all ev (fetching st))).
    + split; [split; assumption|]. split; [reflexivity | auto].
    + split; [split; assumption|]. split; [reflexivity|].
      intros x Hx. apply in_app_iff in Hx. destruct Hx as [Hx | [<- | []]]; auto.
Qed.

Lemma notify_fold_inv c now d susp g l : forall st tf,
  inv g st -> (forall id, In id l -> In (a_peer d, id) g) ->
  let '(st', tf') := fold_left (notify_one c now d susp) l (st, tf) in
  inv g st' /\ tm st' = tm st /\ (forall x, In x tf' -> In x tf \/ In x l).
Proof.
  induction l as [|id l IH]; intros st tf Hinv Hg; cbn [fold_left]; [auto|].
  pose proof (notify_one_inv c now d susp g st tf id Hinv (Hg id (or_introl eq_refl))) as H1.
  destruct (notify_one c now d susp (st, tf) id) as [st1 tf1].
  destruct H1 as (Hi1 & Ht1 & Hf1).
  specialize (IH st1 tf1 Hi1 (fun x Hx => Hg x (or_intror Hx))).
  destruct (fold_left (notify_one c now d susp) l (st1, tf1)) as [st' tf'].
  destruct IH as (Hi & Ht & Hf). split; [assumption|]. split; [congruence|].
  intros x Hx. destruct (Hf x Hx) as [H|H]; [destruct (Hf1 x H) as [H' | ->]; cbn; auto | cbn; auto].
Qed.

Lemma reschedule_ann c st now scan : ann (reschedule c st now scan) = ann st.
Proof. unfold reschedule. destruct (ann st) eqn:E; [exact E | reflexivity]. Qed.

Lemma inv_ann g st st' : ann st' = ann st -> inv g st -> inv g st'.
Proof. unfold inv. now intros ->. Qed.

(* ---------- the timer pass ---------- *)

Definition rq_has (rq : list request) (p id : N) : Prop := exists ids, In (p, ids) rq /\ In id ids.

Lemma req_add_has p id rq p' id' :
  rq_has (req_add p id rq) p' id' <-> rq_has rq p' id' \/ (p' = p /\ id' = id).
Proof.
  induction rq as [|[q ids] rq IH]; cbn.
  - split.
    + intros (l & [E|[]] & Hi). inversion E; subst. destruct Hi as [<-|[]]. auto.
    + intros [(l & [] & _) | [-> ->]]. exists [id]. cbn; auto.
  - destruct (q =? p)%N eqn:Eqp.
    + apply N.eqb_eq in Eqp; subst. split.
      * intros (l & [E|Hl] & Hi).
        -- inversion E; subst. apply in_app_iff in Hi. destruct Hi as [Hi | [<- | []]]; [left; exists ids; cbn; auto | auto].
        -- left. exists l. cbn; auto.
      * intros [(l & [E|Hl] & Hi) | [-> ->]].
        -- inversion E; subst. exists (l ++ [id]). split; [left; reflexivity | apply in_app_iff; auto].
        -- exists l. cbn; auto.
        -- exists (ids ++ [id]). split; [left; reflexivity | apply in_app_iff; cbn; auto].
    + split.
      * intros (l & [E|Hl] & Hi).
        -- left. exists l. split; [left; assumption | assumption].
        -- destruct (proj1 IH (ex_intro _ l (conj Hl Hi))) as [(l' & H1 & H2) | H]; [left; exists l'; cbn; auto | auto].
      * intros [(l & [E|Hl] & Hi) | H].
        -- exists l. split; [left; assumption | assumption].
        -- destruct (proj2 IH (or_introl (ex_intro _ l (conj Hl Hi)))) as (l' & H1 & H2). exists l'. cbn; auto.
        -- destruct (proj2 IH (or_intror H)) as (l' & H1 & H2). exists l'. cbn; auto.
Qed.

Lemma nth_in_default {A} (l : list A) n d : l <> [] -> (n < length l)%nat -> In (nth n l d) l.
Proof. intros _ H. now apply nth_In. Qed.

Lemma pass_one_inv c now ch g st rq id :
  inv g st ->
  let '(st', rq') := pass_one c now ch (st, rq) id in
  inv g st' /\ tm st' = tm st /\ (forall x, In x (keys (ann st')) -> In x (keys (ann st))) /\
  (forall p i, rq_has rq' p i -> rq_has rq p i \/ (i = id /\ In (p, id) g)).
Proof.
  intros Hinv. unfold pass_one.
  destruct (lru_get id (ann st)) as [got l1] eqn:G.
  destruct (inv_get _ _ _ _ _ Hinv G) as (Hnd1 & Hc1 & Hgot & Hk1 & _).
  destruct got as [[|oldest more]|].
  - split; [split; assumption|]. split; [reflexivity|]. split; [intros x; apply Hk1 | auto].
  - set (st1 := mkSt l1 (fetching st) (tm st)).
    assert (Hi1 : inv g st1) by (split; assumption).
    destruct (c_forget c <? now - a_time oldest)%Z.
    + destruct (inv_forget g st1 id Hi1) as (Hf1 & _ & Hf3).
      split; [assumption|]. split; [unfold forget; destruct (lru_find id (ann st1)); reflexivity|].
      split; [intros x Hx; apply Hk1, Hf3, Hx | auto].
    + match goal with |- context [if ?b then _ else _] => destruct b end.
      * split; [split; assumption|]. split; [reflexivity|]. split; [intros x; apply Hk1|].
        intros p i H. apply req_add_has in H. destruct H as [H | [-> ->]]; [auto | right].
        split; [reflexivity|]. eapply Hgot; [reflexivity|].
        apply nth_In. apply Nat.mod_upper_bound. cbn; lia.
      * split; [assumption|]. split; [reflexivity|]. split; [intros x; apply Hk1 | auto].
  - split; [assumption|]. split; [reflexivity|]. split; auto.
Qed.

Lemma pass_fold_inv c now ch g l : forall st rq,
  inv g st ->
  let '(st', rq') := fold_left (pass_one c now ch) l (st, rq) in
  inv g st' /\ tm st' = tm st /\ (forall x, In x (keys (ann st')) -> In x (keys (ann st))) /\
  (forall p i, rq_has rq' p i -> rq_has rq p i \/ (In i l /\ In (p, i) g)).
Proof.
  induction l as [|id l IH]; intros st rq Hinv; cbn [fold_left]; [auto 6|].
  pose proof (pass_one_inv c now ch g st rq id Hinv) as H1.
  destruct (pass_one c now ch (st, rq) id) as [st1 rq1]. destruct H1 as (Hi1 & Ht1 & Hk1 & Hr1).
  specialize (IH st1 rq1 Hi1).
  destruct (fold_left (pass_one c now ch) l (st1, rq1)) as [st' rq']. destruct IH as (Hi & Ht & Hk & Hr).
  split; [assumption|]. split; [congruence|]. split; [auto|].
  intros p i H. destruct (Hr p i H) as [H'|[H1 H2]]; [|right; cbn; auto].
  destruct (Hr1 p i H') as [H''|[-> H2]]; [auto | right; cbn; auto].
Qed.

Lemma forget_fold_inv g interested l : forall st,
  inv g st ->
  let st' := fold_left (fun s id => if memN id interested then s else forget id s) l st in
  inv g st' /\ tm st' = tm st /\ (forall x, In x (keys (ann st')) -> In x (keys (ann st))) /\
  (forall x, In x (keys (ann st')) -> In x l -> In x interested).
Proof.
  induction l as [|id l IH]; intros st Hinv; cbn [fold_left]; [cbn; tauto|].
  destruct (memN id interested) eqn:M.
  - destruct (IH st Hinv) as (H1 & H2 & H3 & H4). split; [assumption|]. split; [assumption|]. split; [assumption|].
    intros x Hx [<-|Hl]; [now apply memN_in | auto].
  - destruct (inv_forget g st id Hinv) as (Hf1 & Hf2 & Hf3).
    destruct (IH (forget id st) Hf1) as (H1 & H2 & H3 & H4). split; [assumption|].
    split; [rewrite H2; unfold forget; destruct (lru_find id (ann st)); reflexivity|].
    split; [auto|].
    intros x Hx [<-|Hl]; [exfalso; apply Hf2, H3, Hx | auto].
Qed.

(* ---------- every step keeps the invariant and emits only ghost-covered requests ---------- *)

Lemma step_safe c st g now ev :
  inv g st ->
  match ev with ENotify _ ids _ interested _ _ => forall id, In id interested -> In id ids | _ => True end ->
  let g' := ghost_step st g ev in
  inv g' (fst (step true c st now ev)) /\
  (forall p ids id, In (p, ids) (snd (step true c st now ev)) -> In id ids -> In (p, id) g').
Proof.
  intros Hinv Hsub. destruct ev as [peer ids atime interested susp scan | ids | | interested ch scan]; cbn [ghost_step step].
  - (* notification *)
    unfold process_notification.
    destruct interested as [|i0 rest].
    { cbn. split; [exact Hinv | intros ? ? ? []]. }
    cbv iota. remember (i0 :: rest) as interested eqn:EI. clear EI i0 rest.
    set (g' := map (fun id => (peer, id)) (filter (fun id => memN id ids) interested) ++ g).
    assert (Hi' : inv g' st).
    { destruct Hinv as [H1 H2]. split; [assumption|]. eapply covered_mono; [|exact H2]. intros x Hx. apply in_app_iff; auto. }
    pose proof (notify_fold_inv c now (mkA atime peer) susp g' interested st [] Hi') as H.
    assert (Hg : forall id, In id interested -> In (a_peer (mkA atime peer), id) g').
    { intros id Hid. cbn. apply in_app_iff. left. apply in_map_iff. exists id. split; [reflexivity|].
      apply filter_In. split; [assumption | apply memN_in, Hsub, Hid]. }
    specialize (H Hg).
    destruct (fold_left (notify_one c now (mkA atime peer) susp) interested (st, [])) as [st1 tf].
    destruct H as (Hi1 & _ & Htf). cbn [fst snd]. split.
    + destruct (_ && _); [eapply inv_ann; [apply reschedule_ann | exact Hi1] | exact Hi1].
    + intros p l id Hin Hid. destruct (is_nil tf); [destruct Hin|].
      destruct Hin as [E|[]]. inversion E; subst.
      destruct (Htf id Hid) as [[]|H]. apply Hg in H. exact H.
  - (* received *)
    cbn [fst snd]. split; [|intros ? ? ? []].
    revert st Hinv. induction ids as [|id ids IH]; intros st Hinv; cbn [fold_left].
    + destruct Hinv as [H1 H2]. split; [assumption|]. intros e a He Ha. specialize (H2 e a He Ha).
      cbn. apply filter_In. split; [assumption | reflexivity].
    + destruct (inv_forget g st id Hinv) as (Hf1 & Hf2 & Hf3).
      specialize (IH (forget id st) Hf1).
      set (stf := fold_left (fun s i => forget i s) ids (forget id st)) in *.
      destruct IH as [H1 H2]. split; [assumption|].
      intros e a He Ha. specialize (H2 e a He Ha). apply filter_In in H2. destruct H2 as [H2 H3].
      apply filter_In. split; [assumption|]. cbn [snd] in *.
      assert (Hk : In (e_key e) (keys (ann stf))) by (apply in_map; assumption).
      assert (Hkf : In (e_key e) (keys (ann (forget id st)))).
      { clear - Hk. subst stf. revert Hk. generalize (forget id st). induction ids as [|i ids IH]; intros s; cbn [fold_left]; [auto|].
        intros H. apply IH in H. unfold forget in H. destruct (lru_find i (ann s)); [|assumption].
        cbn [ann] in H. eapply lru_del_keys_incl; eauto. }
      unfold memN in *. cbn [existsb]. rewrite negb_orb. apply andb_true_iff. split; [|assumption].
      apply negb_true_iff, N.eqb_neq. intros E. apply Hf2. rewrite E in Hkf. exact Hkf.
  - (* tick *)
    destruct (t_armed (tm st)) as [due|]; [destruct (due <=? now)%Z|]; cbn [fst snd]; (split; [exact Hinv | intros ? ? ? []]).
  - (* timer pass *)
    unfold timer_chan. destruct (t_chan (tm st)) eqn:Ech; [|split; [exact Hinv | intros ? ? ? []]].
    unfold timer_pass.
    set (st0 := mkSt (ann st) (fetching st) (mkT (t_armed (tm st)) false)).
    assert (Hi0 : inv g st0) by exact Hinv.
    pose proof (pass_fold_inv c now ch g interested st0 [] Hi0) as H.
    destruct (fold_left (pass_one c now ch) interested (st0, [])) as [st1 rq] eqn:EF.
    destruct H as (Hi1 & _ & Hk1 & Hr1).
    pose proof (forget_fold_inv g interested (lru_keys (ann st0)) st1 Hi1) as H.
    cbn zeta in H. destruct H as (Hi2 & _ & Hk2 & Hint).
    cbn [fst snd]. split.
    + eapply inv_ann; [apply reschedule_ann|].
      destruct Hi2 as [Hn2 Hc2]. split; [assumption|].
      intros e a He Ha. apply filter_In. split; [apply (Hc2 e a); assumption|]. cbn [snd].
      apply memN_in, Hint; [apply in_map; assumption|].
      unfold lru_keys. rewrite <- in_rev. apply Hk1, Hk2, in_map, He.
    + intros p ids id Hin Hid.
      destruct (Hr1 p id (ex_intro _ ids (conj Hin Hid))) as [(l & [] & _) | [H1 H2]].
      apply filter_In. split; [assumption | now apply memN_in].
Qed.

Definition cfg_ex0 : cfg := mkCfg 320%Z 40%Z 60%Z 1620%Z 256%N 8%nat.

Lemma inv_init t0 : inv [] (init t0).
Proof. split; [constructor | intros e a []]. Qed.

Lemma safe_run_all c tr : forall st g, answers_sublist tr -> inv g st -> safe_run c st g tr.
Proof.
  induction tr as [|[now ev] tr IH]; intros st g Hs Hinv; cbn [safe_run]; [exact I|].
  assert (Hev : match ev with ENotify _ ids _ interested _ _ => forall id, In id interested -> In id ids | _ => True end).
  { destruct ev; try exact I. intros id Hid. eapply Hs; [left; reflexivity | exact Hid]. }
  destruct (step_safe c st g now ev Hinv Hev) as [H1 H2]. split; [exact H2|].
  apply IH; [|exact H1]. intros n p i a int su sc Hin. eapply Hs. right. exact Hin.
Qed.

Lemma fetcher_safety c t0 tr : answers_sublist tr -> safe_run c (init t0) [] tr.
Proof. intros H. apply safe_run_all; [exact H | apply inv_init]. Qed.

(* without that hypothesis the statement is false, and so is the implementation-level claim: the
   fetcher requests from the announcing peer whatever OnlyInterested returned *)
Example fetcher_safety_needs_sublist :
  ~ safe_run cfg_ex0 (init 0%Z) [] [(10%Z, ENotify 1%N [1%N] 10%Z [2%N] false [])].
Proof.
  cbn [safe_run]. intros [H _].
  assert (H1 : In (1%N, [2%N]) (snd (step true cfg_ex0 (init 0%Z) 10%Z (ENotify 1%N [1%N] 10%Z [2%N] false []))))
    by (vm_compute; auto).
  specialize (H 1%N [2%N] 2%N H1 (or_introl eq_refl)). vm_compute in H. exact H.
Qed.

(* ====================== liveness: a pass is always pending ====================== *)

Lemma notify_one_tm c now d susp acc id : tm (fst (notify_one c now d susp acc id)) = tm (fst acc).
Proof.
  destruct acc as [st tf]. unfold notify_one.
  destruct (lru_get id (ann st)) as [got l1].
  destruct (lru_add _ _ _ _ _) as [l2 ev].
  destruct susp; [reflexivity|]. destruct (f_find _ _); reflexivity.
Qed.

Lemma notify_fold_tm c now d susp l : forall acc,
  tm (fst (fold_left (notify_one c now d susp) l acc)) = tm (fst acc).
Proof.
  induction l as [|id l IH]; intros acc; cbn [fold_left]; [reflexivity|].
  rewrite IH. apply notify_one_tm.
Qed.

Lemma earliest_le (l : list (N * (N * Z))) : forall now,
  (fold_left (fun e x => if Z.ltb (snd (snd x)) e then snd (snd x) else e) l now <= now)%Z.
Proof.
  induction l as [|x l IH]; intros now; cbn [fold_left]; [lia|].
  destruct (Z.ltb_spec (snd (snd x)) now); [specialize (IH (snd (snd x))); lia | apply IH].
Qed.

Lemma reschedule_pending c st now scan :
  cfg_wf c -> ann st <> [] ->
  exists due, timer_due (reschedule c st now scan) = Some due /\ (due <= now + c_arrive c)%Z.
Proof.
  intros [Hw1 Hw2] Hne. unfold reschedule, timer_due. destruct (ann st) as [|e l]; [contradiction|].
  cbn [tm t_armed]. eexists. split; [reflexivity|].
  match goal with |- context [fold_left ?f ?l now] => pose proof (earliest_le l now) as He end.
  lia.
Qed.

Lemma pass_pending_mono c now now' st : (now <= now')%Z -> pass_pending c now st -> pass_pending c now' st.
Proof.
  intros Hle H Hne. destruct (H Hne) as [Hc | (due & Hd & Hl)]; [auto | right]. exists due. split; [assumption | lia].
Qed.

Lemma forget_tm id st : tm (forget id st) = tm st.
Proof. unfold forget. destruct (lru_find id (ann st)); reflexivity. Qed.

Lemma forget_ann_nil id st : ann st = [] -> ann (forget id st) = [].
Proof. intros E. unfold forget. rewrite E. cbn. exact E. Qed.

Lemma forget_fold_tm {A} (f : A -> bool) (key : A -> N) l : forall st,
  tm (fold_left (fun s x => if f x then s else forget (key x) s) l st) = tm st /\
  (ann st = [] -> ann (fold_left (fun s x => if f x then s else forget (key x) s) l st) = []).
Proof.
  induction l as [|x l IH]; intros st; cbn [fold_left]; [auto|].
  destruct (f x); [apply IH|].
  destruct (IH (forget (key x) st)) as [H1 H2]. split; [now rewrite H1, forget_tm|].
  intros E. apply H2, forget_ann_nil, E.
Qed.

Lemma pass_pending_same_timer c now st st' :
  tm st' = tm st -> (ann st = [] -> ann st' = []) -> pass_pending c now st -> pass_pending c now st'.
Proof.
  intros Et Ea H Hne. unfold timer_chan, timer_due in *. rewrite Et. apply H. intros E. apply Hne, Ea, E.
Qed.

Lemma pass_pending_step c now st now' ev :
  cfg_wf c -> pass_pending c now st -> (now <= now')%Z ->
  pass_pending c now' (fst (step true c st now' ev)).
Proof.
  intros Hwf Hp Hle. apply (pass_pending_mono c now now' st Hle) in Hp.
  destruct ev as [peer ids atime interested susp scan | ids | | interested ch scan]; cbn [step].
  - unfold process_notification. destruct interested as [|i0 rest]; [exact Hp|].
    remember (i0 :: rest) as interested eqn:EI. clear EI.
    pose proof (notify_fold_tm c now' (mkA atime peer) susp interested (st, [])) as Htm.
    destruct (fold_left (notify_one c now' (mkA atime peer) susp) interested (st, [])) as [st1 tf].
    cbn [fst] in *.
    destruct (is_nil (ann st)) eqn:E1; destruct (is_nil (ann st1)) eqn:E2; cbn [andb negb].
    + intros Hne. destruct (ann st1); [contradiction | discriminate].
    + intros Hne. rewrite reschedule_ann in Hne. right. now apply reschedule_pending.
    + intros Hne. destruct (ann st1); [contradiction | discriminate].
    + intros _. assert (Hne : ann st <> []) by (destruct (ann st); [discriminate | discriminate]).
      unfold timer_chan, timer_due in *. rewrite Htm. exact (Hp Hne).
  - cbn [fst].
    destruct (forget_fold_tm (fun _ : N => false) (fun x => x) ids st) as [H1 H2].
    eapply pass_pending_same_timer; [exact H1 | exact H2 | exact Hp].
  - destruct (t_armed (tm st)) as [due|] eqn:Ea.
    + destruct (due <=? now')%Z eqn:Ed; cbn [fst]; [|exact Hp].
      intros _. left. reflexivity.
    + exact Hp.
  - destruct (t_chan (tm st)); [|exact Hp].
    unfold timer_pass.
    destruct (fold_left (pass_one c now' ch) interested _) as [st1 rq]. cbn [fst].
    intros Hne. rewrite reschedule_ann in Hne. right. now apply reschedule_pending.
Qed.

Lemma pass_pending_init c t0 : pass_pending c t0 (init t0).
Proof. intros H. now contradiction H. Qed.

Lemma fetcher_pass_pending c t0 now st : cfg_wf c -> reachT c t0 now st -> pass_pending c now st.
Proof.
  intros Hwf H. induction H; [apply pass_pending_init | eapply pass_pending_step; eauto].
Qed.

(* timer fairness turns "armed and due" into "in the channel", and the loop then takes it *)
Lemma fetcher_tick c st now due :
  timer_due st = Some due -> (due <= now)%Z -> timer_chan (fst (step true c st now ETick)) = true.
Proof.
  unfold timer_due, timer_chan. intros E H. cbn [step]. rewrite E.
  replace (due <=? now)%Z with true by lia. reflexivity.
Qed.

(* pinned tree: after this history something is announced and NO pass is pending - for ever,
   unless an unrelated later announcement re-arms the timer *)
Definition old_witness : list (Z * event) :=
  [(0%Z, ETick); (0%Z, ETimer [] [] []);
   (80%Z, ENotify 1%N [1%N] 80%Z [1%N] true []);           (* announced while Suspend() = true *)
   (450%Z, ETick); (450%Z, ETimer [1%N] [] [])].         (* ... nothing is enabled any more *)
Definition cfg_ex : cfg := mkCfg 320%Z 40%Z 60%Z 1620%Z 256%N 8%nat.

Example fetcher_old_refuted :
  let st := fst (run false cfg_ex (init 0) old_witness) in
  keys_now st = [1%N] /\ timer_due st = None /\ timer_chan st = false /\
  snd (run false cfg_ex (init 0) old_witness) = [].
Proof. vm_compute. repeat split; reflexivity. Qed.

Example fetcher_witness_ok :
  snd (run true cfg_ex (init 0) old_witness) = [(450%Z, (1%N, [1%N]))].
Proof. vm_compute. reflexivity. Qed.

(* ====================== liveness: what a pass requests ====================== *)

Lemma lru_find_del_other id id' l : id <> id' -> lru_find id (lru_del id' l) = lru_find id l.
Proof.
  intros Hne. induction l as [|a l IH]; cbn; [reflexivity|].
  destruct (e_key a =? id')%N eqn:E1.
  - apply N.eqb_eq in E1. destruct (e_key a =? id)%N eqn:E2; [apply N.eqb_eq in E2; congruence | reflexivity].
  - cbn. destruct (e_key a =? id)%N; [reflexivity | exact IH].
Qed.

Lemma f_find_del_other id id' f : id <> id' -> f_find id (f_del id' f) = f_find id f.
Proof.
  intros Hne. induction f as [|[i v] f IH]; cbn; [reflexivity|].
  destruct (i =? id')%N eqn:E1; cbn.
  - apply N.eqb_eq in E1. destruct (i =? id)%N eqn:E2; [apply N.eqb_eq in E2; congruence | exact IH].
  - destruct (i =? id)%N; [reflexivity | exact IH].
Qed.

Lemma f_find_set_other id id' v f : id <> id' -> f_find id (f_set id' v f) = f_find id f.
Proof.
  intros Hne. unfold f_set. destruct (f_find id' f).
  - induction f as [|[i w] f IH]; cbn; [reflexivity|].
    destruct (i =? id')%N eqn:E1; cbn.
    + apply N.eqb_eq in E1. subst i. destruct (id' =? id)%N eqn:E2; [apply N.eqb_eq in E2; congruence | exact IH].
    + destruct (i =? id)%N; [reflexivity | exact IH].
  - induction f as [|[i w] f IH]; cbn.
    + destruct (id' =? id)%N eqn:E2; [apply N.eqb_eq in E2; congruence | reflexivity].
    + destruct (i =? id)%N; [reflexivity | exact IH].
Qed.

Lemma forget_other id id' st : id <> id' ->
  lru_find id (ann (forget id' st)) = lru_find id (ann st) /\
  f_find id (fetching (forget id' st)) = f_find id (fetching st).
Proof.
  intros Hne. unfold forget. destruct (lru_find id' (ann st)); cbn [ann fetching]; [|auto].
  split; [now apply lru_find_del_other | now apply f_find_del_other].
Qed.

Lemma lru_get_other id id' l : id <> id' -> lru_find id (snd (lru_get id' l)) = lru_find id l.
Proof.
  intros Hne. unfold lru_get. destruct (lru_find id' l) as [e|] eqn:F; cbn [snd]; [|reflexivity].
  destruct (lru_find_some _ _ _ F) as [_ Hk]. cbn. rewrite Hk.
  destruct (id' =? id)%N eqn:E; [apply N.eqb_eq in E; congruence|]. now apply lru_find_del_other.
Qed.

Lemma pass_one_other c now ch st rq id id' : id <> id' ->
  let st' := fst (pass_one c now ch (st, rq) id') in
  lru_find id (ann st') = lru_find id (ann st) /\ f_find id (fetching st') = f_find id (fetching st).
Proof.
  intros Hne. unfold pass_one.
  pose proof (lru_get_other id id' (ann st) Hne) as Hg.
  destruct (lru_get id' (ann st)) as [got l1]. cbn [snd] in Hg.
  destruct got as [[|oldest more]|]; cbn [fst ann fetching]; [auto | | auto].
  destruct (c_forget c <? now - a_time oldest)%Z.
  - destruct (forget_other id id' (mkSt l1 (fetching st) (tm st)) Hne) as [H1 H2]. cbn [fst].
    split; [now rewrite H1 | now rewrite H2].
  - match goal with |- context [if ?b then _ else _] => destruct b end; cbn [fst ann fetching].
    + split; [assumption | now apply f_find_set_other].
    + auto.
Qed.

Lemma pass_one_mono c now ch st rq id p i :
  rq_has rq p i -> rq_has (snd (pass_one c now ch (st, rq) id)) p i.
Proof.
  intros H. unfold pass_one. destruct (lru_get id (ann st)) as [got l1].
  destruct got as [[|oldest more]|]; cbn [snd]; try assumption.
  destruct (c_forget c <? now - a_time oldest)%Z; [assumption|].
  match goal with |- context [if ?b then _ else _] => destruct b end; cbn [snd]; [|assumption].
  apply req_add_has. auto.
Qed.

Lemma pass_fold_mono c now ch l : forall st rq p i,
  rq_has rq p i -> rq_has (snd (fold_left (pass_one c now ch) l (st, rq))) p i.
Proof.
  induction l as [|id l IH]; intros st rq p i H; cbn [fold_left]; [exact H|].
  destruct (pass_one c now ch (st, rq) id) as [st1 rq1] eqn:E.
  apply IH. pose proof (pass_one_mono c now ch st rq id p i H) as H'. now rewrite E in H'.
Qed.

Lemma pass_one_owed c now ch st rq id :
  owed c st now id ->
  exists p, In p (announcers id st) /\ rq_has (snd (pass_one c now ch (st, rq) id)) p id.
Proof.
  intros (e & oldest & more & Hf & Hv & Hage & Hft).
  unfold pass_one, lru_get, announcers. rewrite Hf, Hv.
  replace (c_forget c <? now - a_time oldest)%Z with false by lia.
  cbn [fetching].
  assert (Hstale : match f_find id (fetching st) with
                   | Some (_, ft) => (c_arrive c - c_slack c <? now - ft)%Z
                   | None => true end = true).
  { destruct (f_find id (fetching st)) as [[pp ft]|]; [lia | reflexivity]. }
  rewrite Hstale. cbn [snd].
  set (a := nth _ _ _). exists (a_peer a). split.
  - apply in_map. subst a. apply nth_In. apply Nat.mod_upper_bound. cbn; lia.
  - apply req_add_has. auto.
Qed.

Lemma pass_fold_owed c now ch l : forall st rq id,
  In id l -> owed c st now id ->
  exists p, In p (announcers id st) /\ rq_has (snd (fold_left (pass_one c now ch) l (st, rq))) p id.
Proof.
  induction l as [|i l IH]; intros st rq id Hin Ho; [contradiction|]. cbn [fold_left].
  destruct (N.eq_dec i id) as [->|Hne].
  - destruct (pass_one_owed c now ch st rq id Ho) as (p & Hp & Hr). exists p. split; [assumption|].
    destruct (pass_one c now ch (st, rq) id) as [st1 rq1]. cbn [snd] in Hr. now apply pass_fold_mono.
  - destruct Hin as [E|Hin]; [contradiction|].
    assert (Hne' : id <> i) by congruence.
    destruct (pass_one_other c now ch st rq id i Hne') as [H1 H2].
    destruct (pass_one c now ch (st, rq) i) as [st1 rq1]. cbn [fst] in H1, H2.
    assert (Ho1 : owed c st1 now id).
    { destruct Ho as (e & oldest & more & Hf & Hv & Hage & Hft).
      exists e, oldest, more. rewrite H1, H2. auto. }
    destruct (IH st1 rq1 id Hin Ho1) as (p & Hp & Hr). exists p. split; [|assumption].
    unfold announcers in *. now rewrite <- H1.
Qed.

(* a timer pass the loop takes requests every owed id it is told is interesting, from one of the
   peers recorded as its announcers *)
Lemma fetcher_pass_requests c st now interested ch scan id :
  timer_chan st = true -> In id interested -> owed c st now id ->
  exists p ids, In p (announcers id st) /\
    In (p, ids) (snd (step true c st now (ETimer interested ch scan))) /\ In id ids.
Proof.
  unfold timer_chan. intros Hc Hin Ho. cbn [step]. rewrite Hc. unfold timer_pass.
  set (st0 := mkSt (ann st) (fetching st) (mkT (t_armed (tm st)) false)).
  assert (Ho0 : owed c st0 now id) by exact Ho.
  destruct (pass_fold_owed c now ch interested st0 [] id Hin Ho0) as (p & Hp & (ids & H1 & H2)).
  destruct (fold_left (pass_one c now ch) interested (st0, [])) as [st1 rq]. cbn [snd] in *.
  exists p, ids. auto.
Qed.

(* an announcement that is interesting, not suspended and not yet being fetched is requested at
   once, from the announcing peer *)
Lemma f_find_del_none id id' f : f_find id f = None -> f_find id (f_del id' f) = None.
Proof.
  induction f as [|[i v] f IH]; cbn; [auto|].
  destruct (i =? id)%N eqn:E; [discriminate|]. intros H.
  destruct (i =? id')%N; cbn; [auto | rewrite E; auto].
Qed.

Lemma f_find_del_all_none id ev : forall f, f_find id f = None -> f_find id (f_del_all ev f) = None.
Proof.
  unfold f_del_all. induction ev as [|x ev IH]; intros f H; cbn [fold_left]; [exact H|].
  apply IH, f_find_del_none, H.
Qed.

Lemma f_find_app_other id id' v f : id <> id' -> f_find id (f ++ [(id', v)]) = f_find id f.
Proof.
  intros Hne. induction f as [|[i w] f IH]; cbn.
  - destruct (id' =? id)%N eqn:E; [apply N.eqb_eq in E; congruence | reflexivity].
  - destruct (i =? id)%N; [reflexivity | exact IH].
Qed.

Lemma notify_one_fetch c now d st tf id id' :
  (In id tf \/ f_find id (fetching st) = None) ->
  let '(st', tf') := notify_one c now d false (st, tf) id' in
  (id' = id -> In id tf') /\ (In id tf' \/ f_find id (fetching st') = None).
Proof.
  intros H. unfold notify_one.
  destruct (lru_get id' (ann st)) as [got l1].
  destruct (lru_add _ _ _ _ _) as [l2 ev].
  destruct H as [H|H].
  - destruct (f_find id' (f_del_all ev (fetching st))); (split; [intros _|left]); try assumption; apply in_app_iff; auto.
  - pose proof (f_find_del_all_none id ev _ H) as H1.
    destruct (N.eq_dec id' id) as [->|Hne].
    + rewrite H1. split; [intros _|left]; apply in_app_iff; cbn; auto.
    + destruct (f_find id' (f_del_all ev (fetching st))); cbn [fetching].
      * split; [contradiction | auto].
      * split; [contradiction | right]. rewrite f_find_app_other by congruence. exact H1.
Qed.

Lemma notify_one_tf_mono c now d susp st tf i id :
  In id tf -> In id (snd (notify_one c now d susp (st, tf) i)).
Proof.
  intros H. unfold notify_one. destruct (lru_get i (ann st)) as [got l1].
  destruct (lru_add _ _ _ _ _) as [l2 ev]. destruct susp; [exact H|].
  destruct (f_find i _); cbn [snd]; [exact H | apply in_app_iff; auto].
Qed.

Lemma notify_fold_tf_mono c now d susp l : forall st tf id,
  In id tf -> In id (snd (fold_left (notify_one c now d susp) l (st, tf))).
Proof.
  induction l as [|i l IH]; intros st tf id H; cbn [fold_left]; [exact H|].
  pose proof (notify_one_tf_mono c now d susp st tf i id H) as H1.
  destruct (notify_one c now d susp (st, tf) i) as [st1 tf1]. now apply IH.
Qed.

Lemma notify_fold_fetch c now d l : forall st tf id,
  In id l -> (In id tf \/ f_find id (fetching st) = None) ->
  In id (snd (fold_left (notify_one c now d false) l (st, tf))).
Proof.
  induction l as [|i l IH]; intros st tf id Hin H; [contradiction|]. cbn [fold_left].
  pose proof (notify_one_fetch c now d st tf id i H) as H1.
  destruct (notify_one c now d false (st, tf) i) as [st1 tf1]. destruct H1 as [H1 H2].
  destruct Hin as [->|Hin]; [apply notify_fold_tf_mono, H1, eq_refl | now apply IH].
Qed.

Lemma fetcher_notify_requests c st now peer ids atime interested scan id :
  In id interested -> f_find id (fetching st) = None ->
  exists l, In (peer, l) (snd (step true c st now (ENotify peer ids atime interested false scan))) /\ In id l.
Proof.
  intros Hin Hf. cbn [step]. unfold process_notification.
  destruct interested as [|i0 rest]; [contradiction|].
  remember (i0 :: rest) as interested eqn:EI. clear EI.
  pose proof (notify_fold_fetch c now (mkA atime peer) interested st [] id Hin (or_intror Hf)) as H.
  destruct (fold_left (notify_one c now (mkA atime peer) false) interested (st, [])) as [st1 tf]. cbn [snd] in *.
  exists tf. split; [|exact H]. destruct tf; [contradiction | left; reflexivity].
Qed.

(* ====================== what a pass leaves behind ====================== *)

Definition recent (c : cfg) (now : Z) (id : N) (e : entry) (st : state) : Prop :=
  lru_find id (ann st) = Some e /\
  exists p ft, f_find id (fetching st) = Some (p, ft) /\ (now - ft <= c_arrive c - c_slack c)%Z.

Lemma f_find_set_same id v f : f_find id (f_set id v f) = Some v.
Proof.
  unfold f_set. destruct (f_find id f) eqn:F.
  - induction f as [|[i w] f IH]; cbn in *; [discriminate|].
    destruct (i =? id)%N eqn:E; cbn; [now rewrite N.eqb_refl|]. rewrite E. auto.
  - induction f as [|[i w] f IH]; cbn in *; [now rewrite N.eqb_refl|].
    destruct (i =? id)%N eqn:E; [discriminate|]. auto.
Qed.

Lemma lru_get_same id l e : lru_find id l = Some e ->
  lru_get id l = (Some (e_val e), e :: lru_del id l) /\ lru_find id (e :: lru_del id l) = Some e.
Proof.
  intros F. unfold lru_get. rewrite F. split; [reflexivity|].
  destruct (lru_find_some _ _ _ F) as [_ Hk]. cbn. now rewrite Hk, N.eqb_refl.
Qed.

(* processing id itself: afterwards it is "recent" (requested now, or requested not long ago) *)
Lemma pass_one_establish c now ch st rq id e oldest more :
  (c_slack c <= c_arrive c)%Z ->
  lru_find id (ann st) = Some e -> e_val e = oldest :: more -> (now - a_time oldest <= c_forget c)%Z ->
  recent c now id e (fst (pass_one c now ch (st, rq) id)).
Proof.
  intros Hs F Hv Hage. unfold pass_one.
  destruct (lru_get_same id _ e F) as [G F']. rewrite G, Hv.
  replace (c_forget c <? now - a_time oldest)%Z with false by lia.
  cbn [fetching].
  destruct (f_find id (fetching st)) as [[pp ft]|] eqn:Ff.
  - destruct (c_arrive c - c_slack c <? now - ft)%Z eqn:Est; cbn [fst ann fetching].
    + split; [exact F'|]. eexists _, now. split; [apply f_find_set_same | lia].
    + split; [exact F'|]. exists pp, ft. split; [exact Ff | lia].
  - cbn [fst ann fetching]. split; [exact F'|]. eexists _, now. split; [apply f_find_set_same | lia].
Qed.

Lemma pass_one_recent c now ch st rq id e oldest more id' :
  e_val e = oldest :: more -> (now - a_time oldest <= c_forget c)%Z ->
  recent c now id e st -> recent c now id e (fst (pass_one c now ch (st, rq) id')).
Proof.
  intros Hv Hage [F (p & ft & Ff & Hr)].
  destruct (N.eq_dec id' id) as [->|Hne].
  - unfold pass_one. destruct (lru_get_same id _ e F) as [G F']. rewrite G, Hv.
    replace (c_forget c <? now - a_time oldest)%Z with false by lia.
    cbn [fetching]. rewrite Ff.
    replace (c_arrive c - c_slack c <? now - ft)%Z with false by lia.
    cbn [fst]. split; [exact F' | exists p, ft; auto].
  - assert (Hne' : id <> id') by congruence.
    destruct (pass_one_other c now ch st rq id id' Hne') as [H1 H2].
    split; [now rewrite H1 | exists p, ft; rewrite H2; auto].
Qed.

Lemma pass_fold_recent c now ch id e oldest more l : forall st rq,
  e_val e = oldest :: more -> (now - a_time oldest <= c_forget c)%Z ->
  recent c now id e st -> recent c now id e (fst (fold_left (pass_one c now ch) l (st, rq))).
Proof.
  induction l as [|i l IH]; intros st rq Hv Hage H; cbn [fold_left]; [exact H|].
  pose proof (pass_one_recent c now ch st rq id e oldest more i Hv Hage H) as H1.
  destruct (pass_one c now ch (st, rq) i) as [st1 rq1]. now apply IH.
Qed.

Lemma pass_fold_establish c now ch id e oldest more l : forall st rq,
  (c_slack c <= c_arrive c)%Z -> In id l ->
  lru_find id (ann st) = Some e -> e_val e = oldest :: more -> (now - a_time oldest <= c_forget c)%Z ->
  recent c now id e (fst (fold_left (pass_one c now ch) l (st, rq))).
Proof.
  induction l as [|i l IH]; intros st rq Hs Hin F Hv Hage; [contradiction|]. cbn [fold_left].
  destruct (N.eq_dec i id) as [->|Hne].
  - pose proof (pass_one_establish c now ch st rq id e oldest more Hs F Hv Hage) as H1.
    destruct (pass_one c now ch (st, rq) id) as [st1 rq1]. cbn [fst] in H1.
    now apply (pass_fold_recent c now ch id e oldest more).
  - destruct Hin as [E|Hin]; [contradiction|].
    assert (Hne' : id <> i) by congruence.
    destruct (pass_one_other c now ch st rq id i Hne') as [H1 _].
    destruct (pass_one c now ch (st, rq) i) as [st1 rq1]. cbn [fst] in H1.
    apply IH; try assumption. now rewrite H1.
Qed.

Lemma forget_fold_recent c now id e interested l : forall st,
  In id interested -> recent c now id e st ->
  recent c now id e (fold_left (fun s x => if memN x interested then s else forget x s) l st).
Proof.
  induction l as [|x l IH]; intros st Hin H; cbn [fold_left]; [exact H|].
  destruct (memN x interested) eqn:M; [now apply IH|].
  apply IH; [assumption|].
  assert (Hne : id <> x) by (intros ->; apply memN_in in Hin; congruence).
  destruct (forget_other id x st Hne) as [H1 H2]. destruct H as [F (p & ft & Ff & Hr)].
  split; [now rewrite H1 | exists p, ft; rewrite H2; auto].
Qed.

Lemma reschedule_fetching c st now scan : fetching (reschedule c st now scan) = fetching st.
Proof. unfold reschedule. destruct (ann st); reflexivity. Qed.

(* every pass the loop takes leaves every held, interesting, young item with a request that is at
   most ArriveTimeout - GatherSlack old (made in this very pass, or earlier) *)
Lemma fetcher_pass_leaves_recent c st now interested ch scan id e oldest more :
  (c_slack c <= c_arrive c)%Z -> timer_chan st = true -> In id interested ->
  lru_find id (ann st) = Some e -> e_val e = oldest :: more -> (now - a_time oldest <= c_forget c)%Z ->
  let st' := fst (step true c st now (ETimer interested ch scan)) in
  lru_find id (ann st') = Some e /\
  exists p ft, f_find id (fetching st') = Some (p, ft) /\ (now - ft <= c_arrive c - c_slack c)%Z.
Proof.
  unfold timer_chan. intros Hs Hc Hin F Hv Hage. cbn [step]. rewrite Hc. unfold timer_pass.
  set (st0 := mkSt (ann st) (fetching st) (mkT (t_armed (tm st)) false)).
  pose proof (pass_fold_establish c now ch id e oldest more interested st0 [] Hs Hin F Hv Hage) as H.
  destruct (fold_left (pass_one c now ch) interested (st0, [])) as [st1 rq]. cbn [fst] in *.
  pose proof (forget_fold_recent c now id e interested (lru_keys (ann st0)) st1 Hin H) as H2.
  destruct H2 as [F2 (p & ft & Ff & Hr)].
  rewrite reschedule_ann, reschedule_fetching. split; [exact F2 | exists p, ft; auto].
Qed.

(* ====================== every fetching entry records a request that was really made ====================== *)

Lemma f_find_in id v f : f_find id f = Some v -> In (id, v) f.
Proof.
  induction f as [|[i w] f IH]; cbn; [discriminate|].
  destruct (i =? id)%N eqn:E; [apply N.eqb_eq in E; subst; intros H; inversion H; auto | auto].
Qed.

Lemma f_del_incl id f x : In x (f_del id f) -> In x f.
Proof. unfold f_del. intros H. apply filter_In in H. tauto. Qed.

Lemma f_del_all_incl ev : forall f x, In x (f_del_all ev f) -> In x f.
Proof.
  unfold f_del_all. induction ev as [|i ev IH]; intros f x H; cbn [fold_left] in H; [exact H|].
  apply IH in H. eapply f_del_incl; eauto.
Qed.

Lemma f_set_in id v f x : In x (f_set id v f) -> x = (id, v) \/ In x f.
Proof.
  unfold f_set. destruct (f_find id f).
  - intros H. apply in_map_iff in H. destruct H as (y & Hy & Hin).
    destruct (fst y =? id)%N; [left; now symmetry | right; now subst].
  - intros H. apply in_app_iff in H. destruct H as [H | [<- | []]]; auto.
Qed.

Lemma forget_fetching_incl id st x : In x (fetching (forget id st)) -> In x (fetching st).
Proof. unfold forget. destruct (lru_find id (ann st)); cbn [fetching]; [apply f_del_incl | auto]. Qed.

Lemma notify_one_fetching c now d susp st tf i :
  let '(st', tf') := notify_one c now d susp (st, tf) i in
  (forall x, In x (fetching st') -> In x (fetching st) \/ (x = (i, (a_peer d, now)) /\ In i tf')) /\
  (forall y, In y tf -> In y tf').
Proof.
  unfold notify_one. destruct (lru_get i (ann st)) as [got l1]. destruct (lru_add _ _ _ _ _) as [l2 ev].
  destruct susp; cbn [fetching].
  - split; [intros x H; left; eapply f_del_all_incl; eauto | auto].
  - destruct (f_find i (f_del_all ev (fetching st))); cbn [fetching].
    + split; [intros x H; left; eapply f_del_all_incl; eauto | auto].
    + split.
      * intros x H. apply in_app_iff in H. destruct H as [H | [<- | []]].
        -- left; eapply f_del_all_incl; eauto.
        -- right. split; [reflexivity | apply in_app_iff; cbn; auto].
      * intros y Hy. apply in_app_iff; auto.
Qed.

Lemma notify_fold_fetching c now d susp l : forall st tf,
  let '(st', tf') := fold_left (notify_one c now d susp) l (st, tf) in
  (forall x, In x (fetching st') -> In x (fetching st) \/ (exists i, x = (i, (a_peer d, now)) /\ In i tf')) /\
  (forall y, In y tf -> In y tf').
Proof.
  induction l as [|i l IH]; intros st tf; cbn [fold_left]; [auto|].
  pose proof (notify_one_fetching c now d susp st tf i) as H1.
  destruct (notify_one c now d susp (st, tf) i) as [st1 tf1]. destruct H1 as [H1 H2].
  specialize (IH st1 tf1). destruct (fold_left (notify_one c now d susp) l (st1, tf1)) as [st' tf'].
  destruct IH as [H3 H4]. split; [|auto].
  intros x Hx. destruct (H3 x Hx) as [H|H]; [|auto].
  destruct (H1 x H) as [H'|[-> H']]; [auto | right; eauto].
Qed.

Lemma pass_one_fetching c now ch st rq i :
  let '(st', rq') := pass_one c now ch (st, rq) i in
  forall x, In x (fetching st') -> In x (fetching st) \/ (exists p, x = (i, (p, now)) /\ rq_has rq' p i).
Proof.
  unfold pass_one. destruct (lru_get i (ann st)) as [got l1].
  destruct got as [[|oldest more]|]; cbn [fetching]; auto.
  destruct (c_forget c <? now - a_time oldest)%Z.
  - intros x H. left. apply forget_fetching_incl in H. exact H.
  - match goal with |- context [if ?b then _ else _] => destruct b end; cbn [fetching]; [|auto].
    intros x H. apply f_set_in in H. destruct H as [-> | H]; [right | auto].
    eexists. split; [reflexivity|]. apply req_add_has. auto.
Qed.

Lemma pass_fold_fetching c now ch l : forall st rq,
  let '(st', rq') := fold_left (pass_one c now ch) l (st, rq) in
  forall x, In x (fetching st') -> In x (fetching st) \/ (exists i p, x = (i, (p, now)) /\ rq_has rq' p i).
Proof.
  induction l as [|i l IH]; intros st rq; cbn [fold_left]; [auto|].
  pose proof (pass_one_fetching c now ch st rq i) as H1.
  destruct (pass_one c now ch (st, rq) i) as [st1 rq1] eqn:E1.
  specialize (IH st1 rq1).
  pose proof (fun p j => pass_fold_mono c now ch l st1 rq1 p j) as Hm.
  destruct (fold_left (pass_one c now ch) l (st1, rq1)) as [st' rq']. cbn [snd] in Hm.
  intros x Hx. destruct (IH x Hx) as [H|H]; [|auto].
  destruct (H1 x H) as [H'|(p & -> & H')]; [auto | right; eauto].
Qed.

Definition fetch_hist (st : state) (log : list (Z * request)) : Prop :=
  forall id p ft, In (id, (p, ft)) (fetching st) -> exists ids, In (ft, (p, ids)) log /\ In id ids.

Lemma fetch_hist_step c st now ev log :
  fetch_hist st log ->
  fetch_hist (fst (step true c st now ev)) (log ++ map (fun x => (now, x)) (snd (step true c st now ev))).
Proof.
  intros H.
  assert (Hold : forall st', (forall x, In x (fetching st') -> In x (fetching st)) ->
                 forall rq, fetch_hist st' (log ++ rq)).
  { intros st' Hs rq id p ft Hin. destruct (H id p ft (Hs _ Hin)) as (ids & H1 & H2).
    exists ids. split; [apply in_app_iff; auto | assumption]. }
  destruct ev as [peer ids atime interested susp scan | ids | | interested ch scan]; cbn [step].
  - unfold process_notification. destruct interested as [|i0 rest]; [apply Hold; auto|].
    remember (i0 :: rest) as interested eqn:EI. clear EI.
    pose proof (notify_fold_fetching c now (mkA atime peer) susp interested st []) as Hf.
    destruct (fold_left (notify_one c now (mkA atime peer) susp) interested (st, [])) as [st1 tf].
    destruct Hf as [Hf _]. cbn [fst snd].
    intros id p ft Hin.
    assert (Hin1 : In (id, (p, ft)) (fetching st1)).
    { destruct (_ && _); [now rewrite reschedule_fetching in Hin | exact Hin]. }
    destruct (Hf _ Hin1) as [Ho | (i & E & Hi)].
    + destruct (H id p ft Ho) as (l & H1 & H2). exists l. split; [apply in_app_iff; auto | assumption].
    + inversion E; subst. cbn [a_peer]. exists tf. split; [|assumption].
      apply in_app_iff. right. destruct tf; [contradiction | cbn; auto].
  - cbn [fst snd]. apply Hold. clear. revert st. induction ids as [|i ids IH]; intros st x Hx; cbn [fold_left] in Hx; [exact Hx|].
    apply IH in Hx. now apply forget_fetching_incl in Hx.
  - destruct (t_armed (tm st)) as [due|]; [destruct (due <=? now)%Z|]; cbn [fst snd]; apply Hold; auto.
  - destruct (t_chan (tm st)); [|apply Hold; auto].
    unfold timer_pass.
    set (st0 := mkSt (ann st) (fetching st) (mkT (t_armed (tm st)) false)).
    pose proof (pass_fold_fetching c now ch interested st0 []) as Hf.
    destruct (fold_left (pass_one c now ch) interested (st0, [])) as [st1 rq]. cbn [fst snd].
    intros id p ft Hin. rewrite reschedule_fetching in Hin.
    assert (Hin1 : In (id, (p, ft)) (fetching st1)).
    { clear - Hin. revert Hin. generalize (lru_keys (ann st0)). intros l. revert st1.
      induction l as [|x l IH]; intros st1 Hin; cbn [fold_left] in Hin; [exact Hin|].
      destruct (memN x interested); [now apply IH|]. apply IH in Hin. now apply forget_fetching_incl in Hin. }
    destruct (Hf _ Hin1) as [Ho | (i & q & E & (l & Hl1 & Hl2))].
    + destruct (H id p ft Ho) as (l & H1 & H2). exists l. split; [apply in_app_iff; auto | assumption].
    + inversion E; subst. exists l. split; [|assumption]. apply in_app_iff. right.
      apply in_map_iff. exists (q, l). auto.
Qed.

Lemma fetch_hist_run c tr : forall st pre,
  fetch_hist st pre -> fetch_hist (fst (run true c st tr)) (pre ++ snd (run true c st tr)).
Proof.
  induction tr as [|[now ev] tr IH]; intros st pre H; cbn [run].
  - cbn. now rewrite app_nil_r.
  - pose proof (fetch_hist_step c st now ev pre H) as H1.
    destruct (step true c st now ev) as [st1 rq]. cbn [fst snd] in H1.
    specialize (IH st1 _ H1). destruct (run true c st1 tr) as [st2 log]. cbn [fst snd] in *.
    now rewrite <- app_assoc in IH.
Qed.

(* on every trace: a fetching entry (id -> peer, time) witnesses a request (peer, ..id..) made at that time *)
Lemma fetcher_fetching_was_requested c t0 tr id p ft :
  f_find id (fetching (fst (run true c (init t0) tr))) = Some (p, ft) ->
  exists ids, In (ft, (p, ids)) (snd (run true c (init t0) tr)) /\ In id ids.
Proof.
  intros H. apply f_find_in in H.
  exact (fetch_hist_run c tr (init t0) [] (fun _ _ _ F => match F with end) id p ft H).
Qed.

(* ====================== round 2: the trace-level composition ====================== *)

Lemma notify_keeps_timer c st now peer ids atime interested susp scan :
  ann st <> [] -> tm (fst (step true c st now (ENotify peer ids atime interested susp scan))) = tm st.
Proof.
  intros Hne. cbn [step]. unfold process_notification.
  destruct interested as [|i0 rest]; [reflexivity|].
  remember (i0 :: rest) as interested eqn:EI. clear EI.
  pose proof (notify_fold_tm c now (mkA atime peer) susp interested (st, [])) as Htm.
  destruct (fold_left (notify_one c now (mkA atime peer) susp) interested (st, [])) as [st1 tf]. cbn [fst] in *.
  destruct (ann st); [contradiction|]. cbn [is_nil andb]. exact Htm.
Qed.

Lemma received_keeps_timer c st now ids : tm (fst (step true c st now (EReceived ids))) = tm st.
Proof.
  cbn [step fst]. exact (proj1 (forget_fold_tm (fun _ : N => false) (fun x => x) ids st)).
Qed.

Lemma lru_find_ann_ne id st : lru_find id (ann st) <> None -> ann st <> [].
Proof. intros H E. rewrite E in H. now apply H. Qed.

Section Response.
Variables (c : cfg) (lat : Z) (id : N) (B : Z).
Hypothesis Hlat : (0 <= lat)%Z.

Definition resp_inv (st : state) (tprev : Z) : Prop :=
  (timer_chan st = true /\ (tprev <= B + lat)%Z) \/
  (timer_chan st = false /\ exists due, timer_due st = Some due /\ (due <= B)%Z).

Lemma response_run : forall tr st tprev,
  resp_inv st tprev -> fair_run c lat st tprev tr -> held_until_pass c id st tr ->
  (exists now ev, In (now, ev) tr /\ (B + 2 * lat < now)%Z) ->
  exists p1 now_p i ch sc p2,
    tr = p1 ++ (now_p, ETimer i ch sc) :: p2 /\
    timer_chan (fst (run true c st p1)) = true /\
    lru_find id (ann (fst (run true c st p1))) <> None /\ (now_p <= B + 2 * lat)%Z.
Proof.
  induction tr as [|[now ev] tr IH]; intros st tprev Hinv Hfair Hheld (nl & el & Hl & Hlate); [contradiction|].
  cbn [fair_run] in Hfair. destruct Hfair as (Hf1 & Hf2 & Hf3).
  cbn [held_until_pass] in Hheld. destruct Hheld as [Hh1 Hh2].
  destruct Hinv as [[Hc Ht] | [Hc (due & Hd & Hdb)]].
  - destruct (Hf2 Hc) as [(i & ch & sc & ->) Hn].
    exists [], now, i, ch, sc, tr. cbn [app run fst]. repeat split; try assumption. lia.
  - assert (Hnow : (now <= B + lat)%Z) by (specialize (Hf1 due Hd); lia).
    assert (Htp : takes_pass st ev = false) by (destruct ev; cbn; auto).
    rewrite Htp in Hh2.
    assert (Hinv1 : resp_inv (fst (step true c st now ev)) now).
    { unfold resp_inv, timer_chan, timer_due in *.
      destruct ev as [peer ids atime interested susp scan | ids | | interested ch scan].
      - right. rewrite notify_keeps_timer by (now apply (lru_find_ann_ne id)). eauto.
      - right. rewrite received_keeps_timer. eauto.
      - cbn [step]. rewrite Hd. destruct (due <=? now)%Z; cbn [fst tm t_chan t_armed]; [left; auto | right; eauto].
      - cbn [step]. rewrite Hc. right. eauto. }
    assert (Hl' : exists now' ev', In (now', ev') tr /\ (B + 2 * lat < now')%Z).
    { destruct Hl as [E|Hl]; [inversion E; subst; lia | eauto]. }
    destruct (IH _ _ Hinv1 Hf3 Hh2 Hl') as (p1 & now_p & i & ch & sc & p2 & E & H1 & H2 & H3).
    exists ((now, ev) :: p1), now_p, i, ch, sc, p2. cbn [app run]. rewrite E.
    destruct (step true c st now ev) as [st1 o]. cbn [fst] in *.
    destruct (run true c st1 p1) as [st2 lg]. cbn [fst] in *. auto.
Qed.
End Response.

(* Under timer fairness, from any reachable state that holds the item: if the item stays in the table
   until the loop's next pass and the trace goes on long enough, the loop takes a pass within
   ArriveTimeout + 2*lat, with the item still in the table. *)
Lemma fetcher_response c lat t0 t st id tr :
  cfg_wf c -> (0 <= lat)%Z -> reachT c t0 t st ->
  fair_run c lat st t tr -> held_until_pass c id st tr ->
  (exists now ev, In (now, ev) tr /\ (t + c_arrive c + 2 * lat < now)%Z) ->
  exists p1 now_p i ch sc p2,
    tr = p1 ++ (now_p, ETimer i ch sc) :: p2 /\
    timer_chan (fst (run true c st p1)) = true /\
    lru_find id (ann (fst (run true c st p1))) <> None /\ (now_p <= t + c_arrive c + 2 * lat)%Z.
Proof.
  intros Hwf Hlat Hr Hfair Hheld Hlate.
  apply (response_run c lat id (t + c_arrive c)%Z Hlat tr st t); try assumption.
  assert (Hne : ann st <> []).
  { destruct tr as [|[n e] r]; cbn [held_until_pass] in Hheld; destruct Hheld as [H _]; now apply (lru_find_ann_ne id). }
  unfold resp_inv.
  destruct (fetcher_pass_pending c t0 t st Hwf Hr Hne) as [Hc | (due & Hd & Hb)].
  - left. split; [assumption|]. destruct Hwf. lia.
  - destruct (timer_chan st) eqn:Ec; [left; split; [reflexivity | destruct Hwf; lia] | right; eauto].
Qed.

(* ---------- stored announce lists are never empty ---------- *)
Definition vals_ok (st : state) : Prop := forall e, In e (ann st) -> e_val e <> [].

Lemma lru_get_incl id l e : In e (snd (lru_get id l)) -> In e l.
Proof.
  unfold lru_get. destruct (lru_find id l) as [f|] eqn:F; cbn [snd]; [|auto].
  intros [E|H]; [rewrite <- E; exact (proj1 (lru_find_some _ _ _ F)) | eapply lru_del_incl; eauto].
Qed.

Lemma notify_one_vals c now d susp acc i : vals_ok (fst acc) -> vals_ok (fst (notify_one c now d susp acc i)).
Proof.
  destruct acc as [st tf]. cbn [fst]. intros H. unfold notify_one.
  pose proof (lru_get_incl i (ann st)) as Hg. destruct (lru_get i (ann st)) as [got l1]. cbn [snd] in Hg.
  set (anns := match got with Some v => v | None => [] end ++ [d]).
  pose proof (lru_normalize_incl (S (length (mkE i (anns ++ [d]) (N.of_nat (length anns)) :: lru_del i l1)))
                (c_hash_limit c) (mkE i (anns ++ [d]) (N.of_nat (length anns)) :: lru_del i l1)) as Hn.
  unfold lru_add. destruct (lru_normalize _ _ _) as [l2 ev]. cbn [fst] in Hn.
  assert (Hv : forall e, In e l2 -> e_val e <> []).
  { intros e He. destruct (Hn e He) as [<-|He']; [cbn; destruct anns; discriminate|].
    apply H, Hg. eapply lru_del_incl; eauto. }
  destruct susp; [exact Hv|]. destruct (f_find i _); exact Hv.
Qed.

Lemma forget_vals id st : vals_ok st -> vals_ok (forget id st).
Proof.
  intros H. unfold forget. destruct (lru_find id (ann st)); [|exact H].
  intros e' He. cbn [ann] in He. apply H. eapply lru_del_incl; eauto.
Qed.

Lemma pass_one_vals c now ch acc i : vals_ok (fst acc) -> vals_ok (fst (pass_one c now ch acc i)).
Proof.
  destruct acc as [st rq]. cbn [fst]. intros H. unfold pass_one.
  pose proof (lru_get_incl i (ann st)) as Hg. destruct (lru_get i (ann st)) as [got l1]. cbn [snd] in Hg.
  assert (H1 : forall f t, vals_ok (mkSt l1 f t)) by (intros f t e He; apply H, Hg, He).
  destruct got as [[|oldest more]|]; cbn [fst]; [apply H1 | | exact H].
  destruct (c_forget c <? now - a_time oldest)%Z; [apply forget_vals, H1|].
  match goal with |- context [if ?b then _ else _] => destruct b end; apply H1.
Qed.

Lemma fold_vals {A} (f : state * A -> N -> state * A) l :
  (forall acc i, vals_ok (fst acc) -> vals_ok (fst (f acc i))) ->
  forall acc, vals_ok (fst acc) -> vals_ok (fst (fold_left f l acc)).
Proof. intros Hf. induction l as [|i l IH]; intros acc H; cbn [fold_left]; [exact H | apply IH, Hf, H]. Qed.

Lemma vals_ann st st' : ann st' = ann st -> vals_ok st -> vals_ok st'.
Proof. unfold vals_ok. now intros ->. Qed.

Lemma step_vals c st now ev : vals_ok st -> vals_ok (fst (step true c st now ev)).
Proof.
  intros H. destruct ev as [peer ids atime interested susp scan | ids | | interested ch scan]; cbn [step].
  - unfold process_notification. destruct interested as [|i0 rest]; [exact H|].
    remember (i0 :: rest) as interested eqn:EI. clear EI.
    pose proof (fold_vals (notify_one c now (mkA atime peer) susp) interested
                 (fun acc i => notify_one_vals c now (mkA atime peer) susp acc i) (st, []) H) as H1.
    destruct (fold_left _ interested (st, [])) as [st1 tf]. cbn [fst] in *.
    destruct (_ && _); [eapply vals_ann; [apply reschedule_ann | exact H1] | exact H1].
  - cbn [fst]. revert st H. induction ids as [|i ids IH]; intros st H; cbn [fold_left]; [exact H | apply IH, forget_vals, H].
  - destruct (t_armed (tm st)) as [due|]; [destruct (due <=? now)%Z|]; exact H.
  - destruct (t_chan (tm st)); [|exact H]. unfold timer_pass.
    set (st0 := mkSt (ann st) (fetching st) (mkT (t_armed (tm st)) false)).
    pose proof (fold_vals (pass_one c now ch) interested (fun acc i => pass_one_vals c now ch acc i) (st0, []) H) as H1.
    destruct (fold_left (pass_one c now ch) interested (st0, [])) as [st1 rq]. cbn [fst] in *.
    eapply vals_ann; [apply reschedule_ann|].
    generalize (lru_keys (ann st0)). intros l. revert st1 H1.
    induction l as [|x l IH]; intros st1 H1; cbn [fold_left]; [exact H1|].
    destruct (memN x interested); [apply IH, H1 | apply IH, forget_vals, H1].
Qed.

Lemma reachT_vals c t0 t st : reachT c t0 t st -> vals_ok st.
Proof. intros H. induction H; [intros e [] | now apply step_vals]. Qed.

Lemma run_vals c tr : forall st, vals_ok st -> vals_ok (fst (run true c st tr)).
Proof.
  induction tr as [|[now ev] tr IH]; intros st H; cbn [run]; [exact H|].
  pose proof (step_vals c st now ev H) as H1. destruct (step true c st now ev) as [st1 o].
  specialize (IH st1 H1). destruct (run true c st1 tr). exact IH.
Qed.

(* the composed bounded response: under timer fairness, an item that stays in the table, stays
   interesting and young, has - at the latest ArriveTimeout + 2*lat after any moment at which it is held -
   a request that is at most ArriveTimeout - GatherSlack old *)
Lemma fetcher_response_request c lat t0 t st id tr :
  cfg_wf c -> (c_slack c <= c_arrive c)%Z -> (0 <= lat)%Z -> reachT c t0 t st ->
  fair_run c lat st t tr -> held_until_pass c id st tr ->
  (exists now ev, In (now, ev) tr /\ (t + c_arrive c + 2 * lat < now)%Z) ->
  (forall now i ch sc, In (now, ETimer i ch sc) tr -> In id i) ->
  (forall p1 now i ch sc p2 e oldest more, tr = p1 ++ (now, ETimer i ch sc) :: p2 ->
     lru_find id (ann (fst (run true c st p1))) = Some e -> e_val e = oldest :: more ->
     (now - a_time oldest <= c_forget c)%Z) ->
  exists p1 now_p i ch sc p2,
    tr = p1 ++ (now_p, ETimer i ch sc) :: p2 /\ (now_p <= t + c_arrive c + 2 * lat)%Z /\
    exists p ft, f_find id (fetching (fst (step true c (fst (run true c st p1)) now_p (ETimer i ch sc)))) = Some (p, ft) /\
                 (now_p - ft <= c_arrive c - c_slack c)%Z.
Proof.
  intros Hwf Hs Hlat Hr Hfair Hheld Hlate Hint Hyoung.
  destruct (fetcher_response c lat t0 t st id tr Hwf Hlat Hr Hfair Hheld Hlate)
    as (p1 & now_p & i & ch & sc & p2 & E & Hc & Hh & Hb).
  exists p1, now_p, i, ch, sc, p2. split; [exact E|]. split; [exact Hb|].
  destruct (lru_find id (ann (fst (run true c st p1)))) as [e|] eqn:F; [|contradiction].
  assert (Hv : e_val e <> []).
  { apply (run_vals c p1 st (reachT_vals _ _ _ _ Hr)). exact (proj1 (lru_find_some _ _ _ F)). }
  destruct (e_val e) as [|oldest more] eqn:Ev; [contradiction|].
  assert (Hin : In id i) by (eapply Hint; rewrite E; apply in_app_iff; right; left; reflexivity).
  pose proof (Hyoung p1 now_p i ch sc p2 e oldest more E F Ev) as Hy.
  destruct (fetcher_pass_leaves_recent c _ now_p i ch sc id e oldest more Hs Hc Hin F Ev Hy) as [_ H].
  exact H.
Qed.

(* non-vacuity of the hypotheses of fetcher_response_request *)
Definition ex_resp_state : state :=
  fst (step true cfg_ex (fst (step true cfg_ex (fst (step true cfg_ex (init 0%Z) 0%Z ETick)) 0%Z (ETimer [] [] [])))
            80%Z (ENotify 1%N [7%N] 80%Z [7%N] true [])).
Definition ex_resp_trace : list (Z * event) :=
  [(400%Z, ETick); (400%Z, ETimer [7%N] [] []); (720%Z, ETick)].

Example ex_resp_hyps :
  reachT cfg_ex 0%Z 80%Z ex_resp_state /\
  fair_run cfg_ex 0%Z ex_resp_state 80%Z ex_resp_trace /\
  held_until_pass cfg_ex 7%N ex_resp_state ex_resp_trace /\
  snd (run true cfg_ex ex_resp_state ex_resp_trace) = [(400%Z, (1%N, [7%N]))].
Proof.
  split; [|split; [|split]].
  - unfold ex_resp_state. apply (reachT_step cfg_ex 0%Z 0%Z _ 80%Z); [|lia].
    apply (reachT_step cfg_ex 0%Z 0%Z _ 0%Z); [|lia].
    apply (reachT_step cfg_ex 0%Z 0%Z _ 0%Z); [constructor | lia].
  - cbn [fair_run ex_resp_trace].
    repeat match goal with |- _ /\ _ => split end; try exact I;
      first [ intros due Hd; vm_compute in Hd; first [discriminate | inversion Hd; lia]
            | intros Hc; vm_compute in Hc; discriminate
            | intros _; split; [eexists _, _, _; reflexivity | lia] ].
  - cbn [held_until_pass ex_resp_trace]. split; [vm_compute; discriminate|].
    replace (takes_pass ex_resp_state ETick) with false by reflexivity.
    split; [vm_compute; discriminate|].
    match goal with |- if ?b then _ else _ => replace b with true by (vm_compute; reflexivity) end. exact I.
  - vm_compute. reflexivity.
Qed.
