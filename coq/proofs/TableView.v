(* C24: the key translation of a prefix table and the abstract table view
   [kv_table_view p m] = keys of m with prefix p, prefix removed.
   prefixed/noPrefix round trip, lookups, writes inside / outside the prefix, iteration. *)
From Coq Require Import NArith List Lia Bool Arith.
From LV Require Import lib.Bytes lib.BytesFacts lib.Lex lib.SortedMap spec.KvSpec spec.KvOps
  model.PrefixRange model.Table.
Import ListNotations.

Lemma strip_skipn p k : (length p <= length k)%nat -> strip p k = skipn (length p) k.
Proof.
  revert k. induction p as [|x p IH]; intros k L; cbn; auto.
  destruct k as [|y k]; cbn in *; [lia|]. apply IH. lia.
Qed.

Lemma no_prefix_strip p k : has_prefix p k = true -> no_prefix k p = strip p k.
Proof.
  intros H. unfold no_prefix. pose proof (has_prefix_length _ _ H) as L.
  destruct (Nat.ltb_spec (length k) (length p)); [lia|].
  symmetry. now apply strip_skipn.
Qed.

Lemma no_prefix_prefixed k p : no_prefix (prefixed k p) p = k.
Proof.
  unfold prefixed. rewrite no_prefix_strip by apply has_prefix_app. apply strip_app.
Qed.

(* ---------- the table view ---------- *)

Lemma tv_In p (m : kvmap) k v : In (k, v) (kv_table_view p m) <-> In (p ++ k, v) m.
Proof.
  unfold kv_table_view, sm_filter. rewrite in_map_iff. split.
  - intros [[k' v'] [E H]]. cbn in E. inversion E; subst.
    apply filter_In in H as [H HP]. cbn in HP. now rewrite (has_prefix_strip _ _ HP).
  - intros H. exists (p ++ k, v). cbn. rewrite strip_app. split; auto.
    apply filter_In. split; auto. cbn. apply has_prefix_app.
Qed.

Lemma tv_sorted p (m : kvmap) : sm_sorted m -> sm_sorted (kv_table_view p m).
Proof.
  induction m as [|[k v] m IH]; intros S; [exact I|].
  destruct S as [G S]. unfold kv_table_view. rewrite sm_filter_cons_eq.
  destruct (has_prefix p k) eqn:HP; [|apply IH, S].
  cbn [map fst snd]. split; [|apply IH, S].
  unfold all_gt. rewrite Forall_forall. intros [k2 v2] H. cbn.
  apply (tv_In p m k2 v2) in H. pose proof (all_gt_In _ _ _ _ G H) as L. cbn in L.
  rewrite <- (has_prefix_strip _ _ HP) in L. now apply lex_lt_app_l in L.
Qed.

Lemma tv_get p (m : kvmap) k : sm_sorted m -> sm_get (kv_table_view p m) k = sm_get m (p ++ k).
Proof.
  induction m as [|[k' v'] m IH]; intros S; [reflexivity|].
  destruct S as [G S]. specialize (IH S).
  unfold kv_table_view in *. rewrite sm_filter_cons_eq.
  destruct (has_prefix p k') eqn:HP.
  - cbn [map fst snd sm_get]. pose proof (has_prefix_strip _ _ HP) as E.
    rewrite <- (lex_compare_app_same p k (strip p k')), E.
    destruct (lex_compare (p ++ k) k'); auto.
  - cbn [sm_get]. rewrite IH. destruct (lex_compare (p ++ k) k') eqn:E; auto.
    + apply lex_compare_eq in E. subst k'. rewrite has_prefix_app in HP. discriminate.
    + apply (sm_get_none_le _ k' m (p ++ k)); auto. apply lex_lt_le. exact E.
Qed.

Lemma tv_put p (m : kvmap) k v : sm_sorted m ->
  kv_table_view p (sm_put m (p ++ k) v) = sm_put (kv_table_view p m) k v.
Proof.
  intros S. apply sm_ext.
  - apply tv_sorted, sm_put_sorted, S.
  - apply sm_put_sorted, tv_sorted, S.
  - intros k2. rewrite tv_get by (apply sm_put_sorted, S). rewrite !sm_get_put, tv_get by auto.
    destruct (bytes_eqb k2 k) eqn:B.
    + apply bytes_eqb_eq in B. subst. now rewrite (proj2 (bytes_eqb_eq _ _) eq_refl).
    + destruct (bytes_eqb (p ++ k2) (p ++ k)) eqn:B2; auto.
      apply bytes_eqb_eq in B2. apply app_inv_head in B2. subst.
      rewrite (proj2 (bytes_eqb_eq _ _) eq_refl) in B. discriminate.
Qed.

Lemma tv_del p (m : kvmap) k : sm_sorted m ->
  kv_table_view p (sm_del m (p ++ k)) = sm_del (kv_table_view p m) k.
Proof.
  intros S. apply sm_ext.
  - apply tv_sorted, sm_del_sorted, S.
  - apply sm_del_sorted, tv_sorted, S.
  - intros k2. rewrite tv_get by (apply sm_del_sorted, S).
    rewrite !sm_get_del, tv_get by auto using tv_sorted.
    destruct (bytes_eqb k2 k) eqn:B.
    + apply bytes_eqb_eq in B. subst. now rewrite (proj2 (bytes_eqb_eq _ _) eq_refl).
    + destruct (bytes_eqb (p ++ k2) (p ++ k)) eqn:B2; auto.
      apply bytes_eqb_eq in B2. apply app_inv_head in B2. subst.
      rewrite (proj2 (bytes_eqb_eq _ _) eq_refl) in B. discriminate.
Qed.

(* writes outside the prefix are invisible *)
Lemma tv_put_other p (m : kvmap) k' v : sm_sorted m -> has_prefix p k' = false ->
  kv_table_view p (sm_put m k' v) = kv_table_view p m.
Proof.
  intros S NP. apply sm_ext; auto using tv_sorted, sm_put_sorted.
  intros k. rewrite !tv_get by auto using sm_put_sorted. rewrite sm_get_put.
  destruct (bytes_eqb (p ++ k) k') eqn:B; auto.
  apply bytes_eqb_eq in B. subst. rewrite has_prefix_app in NP. discriminate.
Qed.

Lemma tv_del_other p (m : kvmap) k' : sm_sorted m -> has_prefix p k' = false ->
  kv_table_view p (sm_del m k') = kv_table_view p m.
Proof.
  intros S NP. apply sm_ext; auto using tv_sorted, sm_del_sorted.
  intros k. rewrite !tv_get by auto using sm_del_sorted. rewrite sm_get_del by auto.
  destruct (bytes_eqb (p ++ k) k') eqn:B; auto.
  apply bytes_eqb_eq in B. subst. rewrite has_prefix_app in NP. discriminate.
Qed.

(* two tables whose prefixes are not prefixes of one another *)
Lemma incomparable_other p q k :
  has_prefix p q = false -> has_prefix q p = false -> has_prefix p (q ++ k) = false.
Proof.
  intros H1 H2. destruct (has_prefix p (q ++ k)) eqn:E; auto.
  destruct (has_prefix_comparable p q (q ++ k) E (has_prefix_app q k)); congruence.
Qed.

(* nested tables compose *)
Lemma tv_nested p q (m : kvmap) : sm_sorted m ->
  kv_table_view q (kv_table_view p m) = kv_table_view (p ++ q) m.
Proof.
  intros S. apply sm_ext; auto using tv_sorted.
  intros k. rewrite !tv_get by auto using tv_sorted. now rewrite app_assoc.
Qed.

(* ---------- iteration through a table ---------- *)

Lemma in_iter_prefixed p pre s k : has_prefix p k = true ->
  in_iter (p ++ pre) s k = in_iter pre s (strip p k).
Proof.
  intros HP. unfold in_iter. pose proof (has_prefix_strip _ _ HP) as E.
  rewrite <- E at 1 2. rewrite has_prefix_app_l. rewrite <- app_assoc, lex_leb_app_l. reflexivity.
Qed.

Lemma in_iter_has_prefix p pre s k : in_iter (p ++ pre) s k = true -> has_prefix p k = true.
Proof.
  unfold in_iter. intros H. apply andb_true_iff in H as [H _].
  apply has_prefix_app_iff in H. tauto.
Qed.

Lemma tv_iterate p (m : kvmap) pre s :
  map (fun kv => (no_prefix (fst kv) p, snd kv)) (kv_iterate m (p ++ pre) s) =
  kv_iterate (kv_table_view p m) pre s.
Proof.
  unfold kv_iterate, kv_table_view.
  induction m as [|[k v] m IH]; [reflexivity|].
  rewrite !sm_filter_cons_eq.
  destruct (has_prefix p k) eqn:HP.
  - cbn [map fst snd]. rewrite sm_filter_cons_eq. rewrite <- (in_iter_prefixed p pre s k HP).
    destruct (in_iter (p ++ pre) s k); cbn [map fst snd]; rewrite IH; auto.
    now rewrite (no_prefix_strip _ _ HP).
  - destruct (in_iter (p ++ pre) s k) eqn:E; auto.
    apply in_iter_has_prefix in E. congruence.
Qed.

(* ---------- reflect.go: uniqKeys.Check accepts only pairwise incomparable prefixes ---------- *)

Fixpoint pairwise_incomparable (keys : list key) : Prop :=
  match keys with
  | [] => True
  | a :: r => Forall (fun b => has_prefix a b = false /\ has_prefix b a = false) r /\ pairwise_incomparable r
  end.

Lemma fold_min_le (r : list key) : forall n,
  (fold_left (fun n k' => if (length k' <? n)%nat then length k' else n) r n <= n)%nat /\
  Forall (fun k => (fold_left (fun n k' => if (length k' <? n)%nat then length k' else n) r n <= length k)%nat) r.
Proof.
  induction r as [|k r IH]; intros n; cbn [fold_left]; [split; [lia|constructor]|].
  destruct (Nat.ltb_spec (length k) n) as [L|L].
  - destruct (IH (length k)) as [H1 H2]. split; [lia|]. constructor; auto.
  - destruct (IH n) as [H1 H2]. split; [lia|]. constructor; auto. lia.
Qed.

Lemma uniq_min_le keys : Forall (fun k => (uniq_min keys <= length k)%nat) keys.
Proof.
  destruct keys as [|k r]; [constructor|]. cbn [uniq_min].
  destruct (fold_min_le r (length k)) as [H1 H2]. constructor; auto.
Qed.

Lemma firstn_prefix_eq L a b : (L <= length a)%nat -> has_prefix a b = true -> firstn L a = firstn L b.
Proof.
  intros HL H. apply has_prefix_spec in H as [s ->]. rewrite firstn_app.
  replace (L - length a)%nat with O by lia. cbn. now rewrite app_nil_r.
Qed.

Lemma uniq_pairs_incomparable L keys : Forall (fun k => (L <= length k)%nat) keys ->
  uniq_pairs_ok L keys = true -> pairwise_incomparable keys.
Proof.
  induction keys as [|a r IH]; intros F H; [exact I|].
  inversion F as [|x l La Fr]; subst. cbn in H. apply andb_true_iff in H as [H1 H2].
  split; [|now apply IH].
  rewrite forallb_forall in H1. rewrite Forall_forall in *. intros b Hb.
  specialize (H1 b Hb). specialize (Fr b Hb). apply negb_true_iff in H1.
  split.
  - destruct (has_prefix a b) eqn:E; auto.
    rewrite (firstn_prefix_eq L a b La E) in H1. rewrite (proj2 (bytes_eqb_eq _ _) eq_refl) in H1. discriminate.
  - destruct (has_prefix b a) eqn:E; auto.
    rewrite (firstn_prefix_eq L b a Fr E) in H1. rewrite (proj2 (bytes_eqb_eq _ _) eq_refl) in H1. discriminate.
Qed.

Theorem uniq_check_sound keys : uniq_check keys = true -> pairwise_incomparable keys.
Proof. intros H. eapply uniq_pairs_incomparable; [apply uniq_min_le|exact H]. Qed.

(* the check is conservative: it may reject incomparable prefixes *)
Example uniq_check_conservative :
  uniq_check [[97; 98]; [97; 99]; [98]]%N = false /\ pairwise_incomparable [[97; 98]; [97; 99]; [98]]%N.
Proof. split; [reflexivity|cbn; repeat split; repeat constructor]. Qed.

Lemma incomparable_all_iff keys : incomparable_all keys = true <-> pairwise_incomparable keys.
Proof.
  induction keys as [|a r IH]; cbn; [tauto|].
  rewrite andb_true_iff, IH, forallb_forall, Forall_forall. split; intros [H1 H2]; split; auto; intros b Hb.
  - specialize (H1 b Hb). apply andb_true_iff in H1 as [Ha Hb']. apply negb_true_iff in Ha, Hb'. auto.
  - destruct (H1 b Hb) as [Ha Hb']. now rewrite Ha, Hb'.
Qed.

(* ---------- reflect.go: the k-th call binds the fields of the k-th type to ITS OWN tags ---------- *)
Theorem migrate_history_independent calls k :
  nth k (migrate_history calls) [] = migrate_tables (nth k calls []).
Proof.
  unfold migrate_history. change (@nil (nat * key)) with (migrate_tables []) at 1. apply map_nth.
Qed.

(* a cache keyed by the type's printed name is wrong as soon as two types print identically *)
Example migrate_cached_by_name_refuted :
  migrate_history_cached [] [(0%nat, [[97%N]; [101%N]]); (0%nat, [[65%N]; [69%N]])]
    <> migrate_history [[[97%N]; [101%N]]; [[65%N]; [69%N]]].
Proof. vm_compute. discriminate. Qed.
