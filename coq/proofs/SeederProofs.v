(* Proofs for C17 (model/Seeder.v against spec/SeederSpec.v). *)
From Coq Require Import NArith List Bool Lia Arith.
From Coq Require Import ZifyBool ZifyNat ZifyN.
From LV Require Import model.Seeder spec.SeederSpec.
Import ListNotations.
Local Open Scope N_scope.

(* ---------------------------------------------------------------------------------- *)
(* ForEachItem with the seeder's closures: limits                                      *)
(* ---------------------------------------------------------------------------------- *)
Lemma sum_size_app : forall l m, sum_size (l ++ m) = sum_size l + sum_size m.
Proof. induction l as [|x l IH]; intros m; simpl; [reflexivity|]. rewrite IH. lia. Qed.

Lemma sum_mem_app : forall l m, sum_mem (l ++ m) = sum_mem l + sum_mem m.
Proof. induction l as [|x l IH]; intros m; simpl; [reflexivity|]. rewrite IH. lia. Qed.

Lemma removelast_snoc : forall (A : Type) (l : list A) (x : A), removelast (l ++ [x]) = l.
Proof. intros. apply removelast_last. Qed.

Lemma removelast_length_le : forall (A : Type) (l : list A), (length (removelast l) <= length l)%nat.
Proof.
  intros A l. induction l as [|x l IH]; simpl; [lia|]. destruct l; simpl in *; lia.
Qed.

Lemma removelast_size_le : forall l, sum_size (removelast l) <= sum_size l.
Proof.
  induction l as [|x l IH]; simpl; [lia|]. destruct l as [|y l]; [simpl; lia|].
  change (sum_size (x :: removelast (y :: l))) with (it_size x + sum_size (removelast (y :: l))). lia.
Qed.

(* while iterating, the accumulated payload is within both limits *)
Lemma foreach_limits : forall l start stop mn ms acc last items last' c,
  N.of_nat (length acc) <= mn -> sum_size acc <= ms ->
  foreach l start stop mn ms acc last = (items, last', c) ->
  limits_ok mn ms items = true.
Proof.
  induction l as [|x l IH]; intros start stop mn ms acc last items last' c Hn Hs H; simpl in H.
  - inversion H; subst. unfold limits_ok.
    pose proof (removelast_length_le _ items). pose proof (removelast_size_le items). lia.
  - destruct (it_key x <? start).
    + eapply IH; eauto.
    + destruct (stop <=? it_key x).
      * inversion H; subst. unfold limits_ok.
        pose proof (removelast_length_le _ items). pose proof (removelast_size_le items). lia.
      * destruct ((mn <=? N.of_nat (length (acc ++ [x]))) || (ms <=? sum_size (acc ++ [x]))) eqn:E.
        -- inversion H; subst. unfold limits_ok. rewrite removelast_snoc. lia.
        -- eapply IH; [| |exact H]; lia.
Qed.

Lemma foreach_limits0 : forall db start stop mn ms last items last' c,
  foreach db start stop mn ms [] last = (items, last', c) -> limits_ok mn ms items = true.
Proof. intros. eapply foreach_limits; [| |exact H]; simpl; lia. Qed.

(* ---------------------------------------------------------------------------------- *)
(* list_upd                                                                            *)
(* ---------------------------------------------------------------------------------- *)
Lemma list_upd_length : forall (A : Type) (f : A -> A) (l : list A) i, length (list_upd i f l) = length l.
Proof. intros A f l. induction l as [|x l IH]; intros i; destruct i; simpl; auto. Qed.

Lemma list_upd_nth_same : forall (A : Type) (f : A -> A) (d : A) (l : list A) i,
  (i < length l)%nat -> nth i (list_upd i f l) d = f (nth i l d).
Proof.
  intros A f d l. induction l as [|x l IH]; intros i H; simpl in H; [lia|].
  destruct i; simpl; [reflexivity|]. apply IH. lia.
Qed.

Lemma list_upd_nth_other : forall (A : Type) (f : A -> A) (d : A) (l : list A) i j,
  i <> j -> nth j (list_upd i f l) d = nth j l d.
Proof.
  intros A f d l. induction l as [|x l IH]; intros i j H; destruct i, j; simpl; auto; try congruence.
Qed.

Lemma list_upd_oob : forall (A : Type) (f : A -> A) (l : list A) i,
  (length l <= i)%nat -> list_upd i f l = l.
Proof.
  intros A f l. induction l as [|x l IH]; intros i H; destruct i; simpl in *; auto; try lia.
  f_equal. apply IH. lia.
Qed.

Lemma In_concat_upd_snoc : forall (r r0 : resp) (l : list (list resp)) i,
  In r (concat (list_upd i (fun q => q ++ [r0]) l)) -> In r (concat l) \/ r = r0.
Proof.
  intros r r0 l. induction l as [|q l IH]; intros i H; destruct i; simpl in *; auto.
  - rewrite in_app_iff in *. rewrite in_app_iff in H. simpl in H. intuition.
  - rewrite in_app_iff in *. destruct H as [H|H]; auto. destruct (IH _ H); auto.
Qed.

Lemma In_concat_upd_tl : forall (r : resp) (l : list (list resp)) i,
  In r (concat (list_upd i (fun q => tl q) l)) -> In r (concat l).
Proof.
  intros r l. induction l as [|q l IH]; intros i H; destruct i; simpl in *; auto.
  - rewrite in_app_iff in *. destruct H as [H|H]; auto. left. destruct q; simpl in *; auto.
  - rewrite in_app_iff in *. destruct H as [H|H]; auto. right. eapply IH; eauto.
Qed.

Lemma nth_In_concat : forall (r : resp) (l : list (list resp)) i q,
  nth i l [] = r :: q -> In r (concat l).
Proof.
  intros r l. induction l as [|x l IH]; intros i q H; destruct i; simpl in *; try discriminate.
  - subst. simpl. auto.
  - apply in_or_app. right. eapply IH; eauto.
Qed.

(* ---------------------------------------------------------------------------------- *)
(* a property of every response that the reader builds holds for every response sent     *)
(* ---------------------------------------------------------------------------------- *)
Definition pc_resps (pc : rpc) : list resp :=
  match pc with RSend _ _ _ r | REnq _ _ _ r => [r] | _ => [] end.
Definition all_resps (st : state) : list resp := concat (st_senders st) ++ pc_resps (st_reader st).

Definition built_ok (db : list item) (P : resp -> Prop) : Prop :=
  forall rq ss items last c,
    foreach db (s_next ss) (s_stop ss) (r_num rq) (r_size rq) [] (s_next ss) = (items, last, c) ->
    P (mkResp (r_peer rq) (r_sid rq) c items (s_inc ss) (s_creator ss) rq).

Lemma reader_top_resps : forall v cfg st rq st' evs,
  reader_top v cfg st rq = (st', evs) ->
  st_senders st' = st_senders st /\ pc_resps (st_reader st') = [] /\ st_pending st' = st_pending st /\
  forall r, ~ In (ESent r) evs.
Proof.
  intros v cfg st rq st' evs H. unfold reader_top in H.
  destruct (if prune_always v then prune (r_peer rq) (ps_get (r_peer rq) (st_peersess st)) (st_sessions st)
            else (ps_get (r_peer rq) (st_peersess st), st_sessions st)) as [sessions1 table1].
  destruct (sess_get (r_peer rq, r_sid rq) table1) as [ss|].
  - destruct (s_orig ss =? r_start rq); inversion H; subst; simpl; repeat split; auto;
      intros r [E|[]]; discriminate.
  - destruct (if prune_always v then (sessions1, table1) else prune (r_peer rq) sessions1 table1) as [s2 t2].
    inversion H; subst; simpl. repeat split; auto. intros r [E|[]]; discriminate.
Qed.

Lemma step_resps : forall v cfg db P st o st' evs,
  built_ok db P -> Forall P (all_resps st) -> step v cfg db st o = Some (st', evs) ->
  Forall P (all_resps st') /\ forall r, In (ESent r) evs -> P r.
Proof.
  intros v cfg db P st o st' evs HB HP H. rewrite Forall_forall in HP.
  destruct o as [rq|p| | | |i]; simpl in H.
  - destruct (c_maxchunks cfg <? r_chunks rq).
    + inversion H; subst. split; [apply Forall_forall; exact HP|intros r [E|[]]; discriminate].
    + destruct (16 <=? N.of_nat (length (st_chreq st))); [discriminate|].
      inversion H; subst. split; [apply Forall_forall; exact HP|intros r []].
  - destruct (128 <=? N.of_nat (length (st_chunreg st))); [discriminate|].
    inversion H; subst. split; [apply Forall_forall; exact HP|intros r []].
  - destruct (st_reader st) eqn:Epc; try discriminate. destruct (st_chreq st) as [|rq0 rest0]; [discriminate|].
    inversion H; subst. split; [|intros r []]. apply Forall_forall. intros r Hr. apply HP.
    unfold all_resps in *. simpl in *. rewrite Epc. simpl. exact Hr.
  - destruct (st_reader st) eqn:Epc; try discriminate. destruct (st_chunreg st) as [|p0 rest0]; [discriminate|].
    inversion H; subst. split; [|intros r [E|[]]; discriminate]. apply Forall_forall. intros r Hr. apply HP.
    unfold all_resps in *. simpl in *. rewrite Epc. simpl. exact Hr.
  - destruct (st_reader st) as [|rq|rq i ss|rq i ss r0|rq i ss r0] eqn:Epc; try discriminate.
    + destruct (st_pending st <? c_limit cfg); [|discriminate].
      destruct (reader_top v cfg st rq) as [st1 e1] eqn:Et. inversion H; subst.
      destruct (reader_top_resps _ _ _ _ _ _ Et) as [Hs [Hpc [_ Hne]]].
      split; [|intros r Hr; exfalso; exact (Hne r Hr)].
      apply Forall_forall. intros r Hr. apply HP. unfold all_resps in *. rewrite Hs, Hpc in Hr.
      rewrite Epc. simpl. exact Hr.
    + inversion H; subst. split; [|intros r []]. apply Forall_forall. intros r Hr.
      unfold reader_chunk in Hr.
      destruct ((i <? r_chunks rq) && negb (s_done ss)).
      * destruct (foreach db (s_next ss) (s_stop ss) (r_num rq) (r_size rq) [] (s_next ss)) as [[items last] c] eqn:Ef.
        unfold all_resps in Hr. simpl in Hr. apply in_app_or in Hr. destruct Hr as [Hr|[Hr|[]]].
        -- apply HP. unfold all_resps. apply in_or_app. left. exact Hr.
        -- subst r. eapply HB. exact Ef.
      * apply HP. unfold all_resps in *. simpl in *. rewrite Epc. simpl. exact Hr.
    + unfold reader_add in H. destruct (st_pending st <? c_limit cfg); [|discriminate].
      inversion H; subst. split; [|intros r []]. apply Forall_forall. intros r Hr.
      apply HP. unfold all_resps in *. rewrite Epc. simpl in *. exact Hr.
    + unfold reader_send in H.
      destruct ((N.of_nat (length (nth (s_sender ss) (st_senders st) [])) <=? c_maxtasks cfg) &&
                (Nat.ltb (s_sender ss) (length (st_senders st)))); [|discriminate].
      inversion H; subst. split; [|intros r [E|[]]; discriminate]. apply Forall_forall. intros r Hr.
      unfold all_resps in Hr. simpl in Hr. rewrite app_nil_r in Hr.
      apply HP. unfold all_resps. rewrite Epc. simpl.
      destruct (In_concat_upd_snoc _ _ _ _ Hr) as [Hr'|Hr']; apply in_or_app; [left; exact Hr'|right; left; auto].
  - destruct (nth i (st_senders st) []) as [|r0 q] eqn:En; [discriminate|].
    inversion H; subst. split.
    + apply Forall_forall. intros r Hr. apply HP. unfold all_resps in *. simpl in Hr.
      apply in_app_or in Hr. apply in_or_app. destruct Hr as [Hr|Hr]; [left|right; exact Hr].
      eapply In_concat_upd_tl; eauto.
    + intros r [E|[]]. inversion E; subst. apply HP. unfold all_resps. apply in_or_app. left.
      eapply nth_In_concat; eauto.
Qed.

Lemma run_resps : forall v cfg db P ops st st' evs,
  built_ok db P -> Forall P (all_resps st) -> run v cfg db st ops = (st', evs) ->
  Forall P (all_resps st') /\ forall r, In (ESent r) evs -> P r.
Proof.
  intros v cfg db P ops. induction ops as [|o ops IH]; intros st st' evs HB HP H; simpl in H.
  - inversion H; subst. split; [exact HP|intros r []].
  - destruct (step v cfg db st o) as [[st1 e1]|] eqn:Es.
    + destruct (run v cfg db st1 ops) as [st2 e2] eqn:Er. inversion H; subst.
      destruct (step_resps _ _ _ _ _ _ _ _ HB HP Es) as [HP1 Hs1].
      destruct (IH _ _ _ HB HP1 Er) as [HP2 Hs2]. split; [exact HP2|].
      intros r Hr. apply in_app_or in Hr. destruct Hr; auto.
    + eapply IH; eauto.
Qed.

Lemma all_resps_init : forall cfg, all_resps (init cfg) = [].
Proof.
  intros cfg. unfold all_resps, init. simpl. rewrite app_nil_r.
  induction (N.to_nat (c_threads cfg)); simpl; auto.
Qed.

(* T3: every response sent, minus its last item, is within the item-count and size limits of
   the request it serves (as sanitised by NotifyRequestReceived) *)
Lemma sent_limits : forall v cfg db ops r,
  In (ESent r) (snd (run v cfg db (init cfg) ops)) ->
  limits_ok (r_num (rs_req r)) (r_size (rs_req r)) (rs_items r) = true.
Proof.
  intros v cfg db ops r H.
  destruct (run v cfg db (init cfg) ops) as [st' evs] eqn:Er. simpl in H.
  assert (HB : built_ok db (fun r => limits_ok (r_num (rs_req r)) (r_size (rs_req r)) (rs_items r) = true)).
  { intros rq ss items last c Hf. simpl. eapply foreach_limits0; eauto. }
  assert (H0 : Forall (fun r => limits_ok (r_num (rs_req r)) (r_size (rs_req r)) (rs_items r) = true)
                      (all_resps (init cfg))) by (rewrite all_resps_init; constructor).
  destruct (run_resps _ _ _ _ _ _ _ _ HB H0 Er) as [_ Hs]. apply Hs. exact H.
Qed.

(* ---------------------------------------------------------------------------------- *)
(* the pinned tree (variant v_old) on the two failing histories                        *)
(* ---------------------------------------------------------------------------------- *)
Definition sent_items (p sid : N) (tr : list event) : list item :=
  flat_map (fun e => match e with
                     | ESent r => if (rs_peer r =? p) && (rs_sid r =? sid) then rs_items r else []
                     | _ => []
                     end) tr.

Definition w_cfg : config := mkCfg 2 128 1000 100 1000 4 1.
Definition w_db : list item := map (fun k => mkItem k 1 1) [0; 1; 2; 3; 4; 5].
Definition w_req (sid chunks : N) : hop := HReq (mkReq 1 sid 0 9 3 100 chunks 0).

(* sessions 1, 2, 3 opened with one chunk each; resuming 3 prunes 1; resuming 1 restarts it *)
Definition w_hist1 : list hop := [w_req 1 1; w_req 2 1; w_req 3 1; w_req 3 1; w_req 1 1].
(* session 1 opened by a request for zero chunks, then used: the peer-session list holds it
   twice, so opening session 3 (the peer holds 1 and 2) prunes session 1 *)
Definition w_hist2 : list hop := [w_req 1 0; w_req 1 1; w_req 2 1; w_req 3 1; w_req 1 1].

Definition w_trace (v : variant) (h : list hop) : list event := snd (hhistory v w_cfg w_db h).

Example seeder_resumable_old_refuted :
  map it_key (sent_items 1 1 (w_trace v_old w_hist1)) = [0; 1; 2; 0; 1; 2] /\
  is_prefix (sent_items 1 1 (w_trace v_old w_hist1)) (range_items w_db 0 9) = false.
Proof. vm_compute. auto. Qed.

Example seeder_resumable_old_refuted_zero_chunks :
  map it_key (sent_items 1 1 (w_trace v_old w_hist2)) = [0; 1; 2; 0; 1; 2] /\
  is_prefix (sent_items 1 1 (w_trace v_old w_hist2)) (range_items w_db 0 9) = false.
Proof. vm_compute. auto. Qed.

(* pruning moved into the creation branch alone does not repair the second history *)
Example seeder_resumable_half_fixed_refuted :
  map it_key (sent_items 1 1 (w_trace (mkVar false false) w_hist2)) = [0; 1; 2; 0; 1; 2].
Proof. vm_compute. auto. Qed.

Example seeder_witnesses_repaired :
  map it_key (sent_items 1 1 (w_trace v_fixed w_hist1)) = [0; 1; 2; 3; 4; 5] /\
  map it_key (sent_items 1 1 (w_trace v_fixed w_hist2)) = [0; 1; 2; 3; 4; 5].
Proof. vm_compute. auto. Qed.
