(* The reference's forkless cause is the graph definition of spec/FcSpec.v:
     fcn_is_fc_spec : wfTD T Dr -> In a T -> In b T ->
                      fc_n ws q a b = fc_spec ws q nv (E_of Dr) (nd_id a) (nd_id b)
   (so C10's reference composes with C05: index fc = fc_spec).  Uses the inductive ancestry
   [reach] and the characterisations of proofs/FcSpecFacts.v (anc_iff, sees_fork_anc,
   fc_spec_counted). *)
From Coq Require Import List Arith NArith Bool Lia ZArith.
From Coq Require Import ZifyBool ZifyNat ZifyN.
From LV Require Import model.VecIndex spec.FcSpec lib.WSumBft spec.ElectionSpec proofs.FcSpecFacts
  proofs.BftCore proofs.BftElection proofs.BftGraph proofs.BftMain proofs.BftRun.
Import ListNotations.
Open Scope N_scope.

(* the event map of a run: id -> event, newest first (the order of the table) *)
Definition E_of (Dr : list fev) : list (N * event) := map (fun e => (eid (fe e), fe e)) Dr.

Section FcSpec.
Variable vals : list (N * N).
Notation ws := (map snd vals).
Notation nv := (length vals).
Notation q := (quorum_of ws).

(* table and event map are aligned *)
Lemma link_lookup T Dr : wfTD vals T Dr -> forall x,
  match alookup x (E_of Dr), nlookup x T with
  | Some ev, Some n => eid ev = x /\ nd_id n = x /\ nd_cr n = ecr ev /\ nd_seq n = eseq ev
  | None, None => True
  | _, _ => False
  end.
Proof.
  induction 1 as [|T Dr e Hwf IH Hpk Hfresh Hcr Hev Hfr]; intros x; [exact I|].
  cbn [E_of map alookup]. rewrite nlookup_cons. rewrite mk_id. fold (E_of Dr).
  rewrite (N.eqb_sym (eid (fe e)) x). destruct (x =? eid (fe e)) eqn:E.
  - apply N.eqb_eq in E. subst x. auto.
  - apply IH.
Qed.

Lemma link_node T Dr n : wfTD vals T Dr -> In n T ->
  exists ev, alookup (nd_id n) (E_of Dr) = Some ev /\ ecr ev = nd_cr n /\ eseq ev = nd_seq n.
Proof.
  intros Hwf Hn. pose proof (link_lookup T Dr Hwf (nd_id n)) as H.
  rewrite (wf_lookup vals T (wfTD_wfT vals T Dr Hwf) n Hn) in H.
  destruct (alookup (nd_id n) (E_of Dr)) as [ev|]; [|contradiction].
  exists ev. destruct H as [_ [_ [H1 H2]]]. auto.
Qed.

Lemma link_event T Dr x ev : wfTD vals T Dr -> alookup x (E_of Dr) = Some ev ->
  exists n, In n T /\ nd_id n = x /\ nd_cr n = ecr ev /\ nd_seq n = eseq ev.
Proof.
  intros Hwf Hx. pose proof (link_lookup T Dr Hwf x) as H. rewrite Hx in H.
  destruct (nlookup x T) as [n|] eqn:E; [|contradiction].
  exists n. apply nlookup_some in E as [Hn _]. destruct H as [_ [H1 [H2 H3]]]. auto.
Qed.

Lemma link_none T Dr x : wfTD vals T Dr -> nlookup x T = None -> alookup x (E_of Dr) = None.
Proof.
  intros Hwf Hx. pose proof (link_lookup T Dr Hwf x) as H. rewrite Hx in H.
  destruct (alookup x (E_of Dr)); [contradiction|reflexivity].
Qed.

Lemma link_closed T Dr : wfTD vals T Dr -> closed (E_of Dr).
Proof.
  induction 1 as [|T Dr e Hwf IH Hpk Hfresh Hcr Hev Hfr]; intros x ev p Hx Hp; [discriminate|].
  cbn [E_of map alookup] in *. fold (E_of Dr) in *.
  assert (Hold : forall p', (exists n, nlookup p' T = Some n) -> exists ep,
             (if p' =? eid (fe e) then Some (fe e) else alookup p' (E_of Dr)) = Some ep).
  { intros p' [n Hn]. destruct (p' =? eid (fe e)); [eauto|].
    pose proof (link_lookup T Dr Hwf p') as H. rewrite Hn in H.
    destruct (alookup p' (E_of Dr)) as [ep|]; [eauto|contradiction]. }
  destruct (x =? eid (fe e)) eqn:E.
  - injection Hx as <-. apply Hold. apply Hpk. exact Hp.
  - destruct (IH x ev p Hx Hp) as [ep Hep]. destruct (p =? eid (fe e)); eauto.
Qed.

(* ancestor sets = inductive ancestry *)
Lemma anc_reach T Dr : wfTD vals T Dr -> forall a x, In a T -> (In x (nd_anc a) <-> reach (E_of Dr) (nd_id a) x).
Proof.
  induction 1 as [|T Dr e Hwf IH Hpk Hfresh Hcr Hev Hfr]; intros a x Ha; [destruct Ha|].
  pose proof (link_closed T Dr Hwf) as Hcl.
  pose proof (link_none T Dr _ Hwf Hfresh) as Hnone.
  cbn [E_of map]. fold (E_of Dr).
  destruct Ha as [<-|Ha].
  - rewrite mk_id. rewrite mk_anc_in.
    rewrite (reach_ext_new (E_of Dr) (eid (fe e)) (fe e) x Hcl Hnone).
    + split.
      * intros [->|[p [n [Hp [Hl Hx]]]]]; [left; reflexivity|]. right. exists p. split; [exact Hp|].
        apply nlookup_some in Hl as [Hn Hid]. rewrite <- Hid. apply (IH n x Hn). exact Hx.
      * intros [->|[p [Hp Hr]]]; [left; reflexivity|]. right. destruct (Hpk p Hp) as [n Hl].
        exists p, n. split; [exact Hp|]. split; [exact Hl|].
        apply nlookup_some in Hl as [Hn Hid]. apply (IH n x Hn). rewrite Hid. exact Hr.
    + intros p Hp. destruct (Hpk p Hp) as [n Hl].
      pose proof (link_lookup T Dr Hwf p) as H. rewrite Hl in H.
      destruct (alookup p (E_of Dr)) as [ep|]; [eauto|contradiction].
  - rewrite (IH a x Ha). symmetry. apply reach_ext_old; [exact Hcl|exact Hnone|].
    destruct (link_node T Dr a Hwf Ha) as [ev [H _]]. eauto.
Qed.

(* sees-fork bit = graph sees-fork *)
Lemma sf_SeesFork T Dr a v : wfTD vals T Dr -> In a T ->
  (sees_fork_n a v = true <-> SeesFork (E_of Dr) (nd_id a) v).
Proof.
  intros Hwf Ha. pose proof (wfTD_wfT vals T Dr Hwf) as W.
  rewrite (sf_char vals T a v W Ha). unfold SeesFork, fork_pair, visible. split.
  - intros [Hv [x [y [[Hx Hxa] [[Hy Hya] [Cx [Cy [Hne Hs]]]]]]]].
    exists (nd_id x), (nd_id y).
    split; [apply (anc_reach T Dr Hwf a _ Ha); exact Hxa|]. split; [apply (anc_reach T Dr Hwf a _ Ha); exact Hya|].
    split; [exact Hne|].
    destruct (link_node T Dr x Hwf Hx) as [ex [Ex [Ex1 Ex2]]]. destruct (link_node T Dr y Hwf Hy) as [ey [Ey [Ey1 Ey2]]].
    exists ex, ey. repeat split; auto; congruence.
  - intros [x [y [Rx [Ry [Hne [ex [ey [Ex [Ey [Cx [Cy Hs]]]]]]]]]]].
    destruct (link_event T Dr x ex Hwf Ex) as [nx [Hnx [Ix [Cnx Snx]]]].
    destruct (link_event T Dr y ey Hwf Ey) as [ny [Hny [Iy [Cny Sny]]]].
    split; [rewrite <- Cx, <- Cnx; apply (cr_lt vals T nx W Hnx)|].
    exists nx, ny.
    split; [split; [exact Hnx|rewrite Ix; apply (anc_reach T Dr Hwf a _ Ha); exact Rx]|].
    split; [split; [exact Hny|rewrite Iy; apply (anc_reach T Dr Hwf a _ Ha); exact Ry]|].
    repeat split; try congruence.
Qed.

(* the converse of reach_char *)
Lemma reach_char_rev T a v x z : wfT vals T -> In a T -> (v < nv)%nat ->
  visible T a x -> nd_cr x = v -> In z (nd_anc x) -> In z (nth v (nd_reach a) []).
Proof.
  intros Hwf Ha Hv Hvis Hc Hz.
  destruct (wf_origin vals T Hwf a Ha) as [T' [e [pre [ET [Hwf' [Ea [Hpk [Hfresh [Hcr [Hev Hfr]]]]]]]]]].
  assert (Hwfa : wfT vals (a :: T')) by (rewrite Ea in *; apply origin_wf_cons; assumption).
  subst T.
  assert (Hin : In x (a :: below_of T' (nd_anc a))).
  { apply (visible_origin vals pre a T' e x Hwf Hwf' Ea Hfresh Hwfa). exact Hvis. }
  rewrite Ea at 1. rewrite mk_reach. rewrite <- Ea. rewrite nth_map_seq by exact Hv.
  apply fold_reach_in. destruct Hin as [<-|Hin].
  - left. rewrite Ea in Hc. rewrite mk_cr in Hc. rewrite Hc, Nat.eqb_refl. exact Hz.
  - right. exists x. auto.
Qed.

Lemma reach_Between T Dr a b v : wfTD vals T Dr -> In a T -> (v < nv)%nat ->
  (mem b (nth v (nd_reach a) []) = true <-> Between (E_of Dr) (nd_id a) b v).
Proof.
  intros Hwf Ha Hv. pose proof (wfTD_wfT vals T Dr Hwf) as W. rewrite mem_In. unfold Between. split.
  - intros H. destruct (reach_char vals T a v b W Ha H) as [x [[Hx Hxa] [Hc Hz]]].
    destruct (link_node T Dr x Hwf Hx) as [ex [Ex [Ex1 _]]].
    exists (nd_id x), ex. split; [apply (anc_reach T Dr Hwf a _ Ha); exact Hxa|]. split; [exact Ex|].
    split; [congruence|]. apply (anc_reach T Dr Hwf x _ Hx). exact Hz.
  - intros [x [ex [Rx [Ex [Hc Rb]]]]].
    destruct (link_event T Dr x ex Hwf Ex) as [nx [Hnx [Ix [Cnx _]]]].
    apply (reach_char_rev T a v nx b W Ha Hv).
    + split; [exact Hnx|]. rewrite Ix. apply (anc_reach T Dr Hwf a _ Ha). exact Rx.
    + congruence.
    + apply (anc_reach T Dr Hwf nx _ Hnx). rewrite Ix. exact Rb.
Qed.

Theorem fcn_is_fc_spec T Dr a b : wfTD vals T Dr -> In a T -> In b T ->
  fc_n ws q a b = fc_spec ws q nv (E_of Dr) (nd_id a) (nd_id b).
Proof.
  intros Hwf Ha Hb. pose proof (wfTD_wfT vals T Dr Hwf) as W.
  destruct (link_node T Dr b Hwf Hb) as [eb [Eb [Cb _]]].
  unfold fc_n, fc_spec. rewrite Eb. f_equal.
  - f_equal. apply eq_true_iff_eq. rewrite sees_fork_anc, Cb. apply (sf_SeesFork T Dr a (nd_cr b) Hwf Ha).
  - f_equal. rewrite map_length.
    change (wsum ws (map ?P (seq 0 nv))) with (wsum ws (map P (seq 0 nv))).
    f_equal. apply map_ext_in. intros v Hv. apply in_seq in Hv.
    apply eq_true_iff_eq. rewrite fc_spec_counted.
    rewrite andb_true_iff, negb_true_iff.
    rewrite (reach_Between T Dr a (nd_id b) v Hwf Ha ltac:(lia)).
    split; intros [H1 H2]; (split; [|exact H2]).
    + intros HS. apply (sf_SeesFork T Dr a v Hwf Ha) in HS. congruence.
    + destruct (sees_fork_n a v) eqn:E; [|reflexivity]. exfalso. apply H1. apply (sf_SeesFork T Dr a v Hwf Ha). exact E.
Qed.

(* for a run of the reference *)
Corollary reference_fc_is_fc_spec D a b : all_accepted vals D -> In a (table vals D) -> In b (table vals D) ->
  fc_n ws q a b = fc_spec ws q nv (E_of (rev D)) (nd_id a) (nd_id b).
Proof. intros HA. apply fcn_is_fc_spec. apply table_wfTD. exact HA. Qed.
End FcSpec.
