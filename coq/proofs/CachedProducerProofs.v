(* Proofs for C27: every by-name history of the repaired caching producer (both
   constructors) satisfies the trace specification spec/CachedProducerSpec.v; the pinned
   [Wrap] ([wrap_old]) is refuted by its first OpenDB. *)
From Coq Require Import NArith List Bool Lia.
From Coq Require Import ZifyBool ZifyNat ZifyN.
From LV Require Import model.CachedProducer spec.CachedProducerSpec.
Import ListNotations.
Local Open Scope N_scope.

(* ---------- association lists ---------- *)
Lemma alookup_adel_same {A} k (m : list (N * A)) : alookup k (adel k m) = None.
Proof.
  induction m as [|[k' v] m IH]; [reflexivity|]. cbn [adel]. destruct (k =? k') eqn:E; [exact IH|].
  cbn [alookup]. rewrite E. exact IH.
Qed.
Lemma alookup_adel_other {A} k k' (m : list (N * A)) : k' <> k -> alookup k' (adel k m) = alookup k' m.
Proof.
  intros H. induction m as [|[k2 v] m IH]; [reflexivity|]. cbn [adel alookup].
  destruct (k =? k2) eqn:E.
  - apply N.eqb_eq in E. subst k2. assert (k' =? k = false) as -> by (apply N.eqb_neq; exact H). exact IH.
  - cbn [alookup]. rewrite IH. reflexivity.
Qed.
Lemma alookup_aset_same {A} k (v : A) m : alookup k (aset k v m) = Some v.
Proof. unfold aset. cbn [alookup]. rewrite N.eqb_refl. reflexivity. Qed.
Lemma alookup_aset_other {A} k k' (v : A) m : k' <> k -> alookup k' (aset k v m) = alookup k' m.
Proof.
  intros H. unfold aset. cbn [alookup]. assert (k' =? k = false) as -> by (apply N.eqb_neq; exact H).
  apply alookup_adel_other. exact H.
Qed.
Lemma alookup_app {A} k (a b : list (N * A)) :
  alookup k (a ++ b) = match alookup k a with Some v => Some v | None => alookup k b end.
Proof. induction a as [|[k' v] a IH]; [reflexivity|]. cbn [app alookup]. destruct (k =? k'); [reflexivity | exact IH]. Qed.

Lemma nmem_nrem_same k l : nmem k (nrem k l) = false.
Proof.
  unfold nmem, nrem. induction l as [|x l IH]; [reflexivity|]. cbn [filter].
  destruct (k =? x) eqn:E; cbn [negb]; [exact IH|]. cbn [existsb]. rewrite E. exact IH.
Qed.
Lemma nmem_nrem_other k k' l : k' <> k -> nmem k' (nrem k l) = nmem k' l.
Proof.
  intros H. unfold nmem, nrem. induction l as [|x l IH]; [reflexivity|]. cbn [filter existsb].
  destruct (k =? x) eqn:E; cbn [negb].
  - apply N.eqb_eq in E. subst x. assert (k' =? k = false) as -> by (apply N.eqb_neq; exact H). exact IH.
  - cbn [existsb]. rewrite IH. reflexivity.
Qed.

(* ---------- the trace functions under extension by one item ---------- *)
Lemma count_if_snoc {A} (f : A -> bool) pre t :
  count_if f (pre ++ [t]) = count_if f pre + (if f t then 1 else 0).
Proof.
  unfold count_if. rewrite filter_app, app_length. cbn [filter]. destruct (f t); cbn [length]; lia.
Qed.

Lemma uopens_snoc pre t : uopens (pre ++ [t]) = uopens pre ++ uopens [t].
Proof. unfold uopens. rewrite flat_map_app. reflexivity. Qed.

Definition ev_open (ev : list uevent) : list (N * N) :=
  flat_map (fun e => match e with UOpen n u => [(n, u)] | _ => [] end) ev.
Lemma uopens_single o r ev : uopens [(o, r, ev)] = ev_open ev.
Proof. unfold uopens, ev_open. cbn [flat_map snd]. rewrite app_nil_r. reflexivity. Qed.

Lemma cur_snoc nm pre o r ev :
  cur nm (pre ++ [(o, r, ev)]) =
  match alookup nm (rev (ev_open ev)) with Some u => Some u | None => cur nm pre end.
Proof. unfold cur. rewrite uopens_snoc, uopens_single, rev_app_distr, alookup_app. reflexivity. Qed.

Lemma used_snoc u pre o r ev :
  used_uid u (pre ++ [(o, r, ev)]) = used_uid u pre || existsb (fun p => snd p =? u) (ev_open ev).
Proof. unfold used_uid. rewrite uopens_snoc, uopens_single, existsb_app. reflexivity. Qed.

Lemma droppable_snoc nm pre t : droppable nm (pre ++ [t]) = droppable_rev nm (t :: rev pre).
Proof. unfold droppable. rewrite rev_app_distr. reflexivity. Qed.

Lemma balance_snoc nm pre t :
  count_if (is_close_ok nm) pre <= count_if (is_open_ok nm) pre ->
  balance nm (pre ++ [t]) =
    balance nm pre + (if is_open_ok nm t then 1 else 0) - (if is_close_ok nm t then 1 else 0).
Proof. intros H. unfold balance. rewrite !count_if_snoc. destruct (is_open_ok nm t), (is_close_ok nm t); lia. Qed.

(* ---------- the refinement invariant ---------- *)
Definition Inv (s : cstate) (pre : list titem) : Prop :=
  dead s = false /\ ref_nil s = false /\ opened_nil s = false /\ nd_nil s = false /\
  (forall nm, count_if (is_close_ok nm) pre <= count_if (is_open_ok nm) pre) /\
  (forall nm, count_of nm s = balance nm pre) /\
  (forall nm, alookup nm (opened s) = if 0 <? balance nm pre then cur nm pre else None) /\
  (forall nm, 0 < balance nm pre -> cur nm pre <> None) /\
  (forall nm, newest_handle nm (handles s) = cur nm pre) /\
  (forall nm, nmem nm (notdropped s) = droppable nm pre) /\
  (forall u, used_uid u pre = true -> u < next_uid s).

Lemma inv_init : Inv wrap [] /\ Inv wrap_all [].
Proof. split; unfold Inv, wrap, wrap_all; cbn; repeat split; intros; try reflexivity; try lia; try discriminate. Qed.

Lemma eqb_sym_false a b : a <> b -> (a =? b) = false.
Proof. intros H. apply N.eqb_neq. exact H. Qed.

Lemma nmem_cons k x l : nmem k (x :: l) = (k =? x) || nmem k l.
Proof. reflexivity. Qed.

Lemma step_sound s pre o s' r ev :
  Inv s pre -> by_name_op o = true -> cstep s o = (s', r, ev) ->
  step_ok pre (o, r, ev) = true /\ Inv s' (pre ++ [(o, r, ev)]).
Proof.
  intros (Id & In_ & Ion & Indn & Ile & Ic & Io & Icur & Ih & Ind & Iu) Hb. unfold cstep. rewrite Id.
  destruct o as [name fail|name|name|uid|uid|name]; try discriminate Hb; clear Hb.
  - (* OpenDB *)
    unfold open_db, ref_incr. rewrite Indn, In_, Ion, (Io name), (Ic name).
    destruct (0 <? balance name pre) eqn:Hpos.
    + (* cached *)
      destruct (cur name pre) as [u|] eqn:Hc; [|exfalso; apply (Icur name); [lia | exact Hc]].
      intros [= <- <- <-]. split.
      { cbn [step_ok]. rewrite Hpos, Hc. cbn [cres_eqb uevents_eqb]. rewrite N.eqb_refl. reflexivity. }
      unfold Inv. cbn [dead ref_nil opened_nil nd_nil opened refc notdropped handles next_uid].
      repeat split; auto.
      * intros nm. rewrite !count_if_snoc. cbn [is_close_ok]. specialize (Ile nm). destruct (is_open_ok nm _); lia.
      * intros nm. rewrite balance_snoc by apply Ile. cbn [is_open_ok is_close_ok]. unfold count_of; cbn [refc].
        destruct (N.eq_dec nm name) as [->|Hne].
        -- rewrite alookup_aset_same, N.eqb_refl. lia.
        -- rewrite alookup_aset_other by exact Hne. rewrite (eqb_sym_false _ _ (not_eq_sym Hne)).
           fold (count_of nm s). rewrite (Ic nm). lia.
      * intros nm. rewrite balance_snoc by apply Ile. rewrite cur_snoc. cbn [is_open_ok is_close_ok ev_open flat_map rev alookup].
        rewrite (Io nm). destruct (N.eq_dec nm name) as [->|Hne].
        -- rewrite N.eqb_refl, Hpos. replace (0 <? balance name pre + 1 - 0) with true by lia. reflexivity.
        -- rewrite (eqb_sym_false _ _ (not_eq_sym Hne)). replace (balance nm pre + 0 - 0) with (balance nm pre) by lia. reflexivity.
      * intros nm. rewrite balance_snoc by apply Ile. rewrite cur_snoc. cbn [is_open_ok is_close_ok ev_open flat_map rev alookup].
        intros Hp. destruct (N.eq_dec nm name) as [->|Hne]; [congruence|].
        apply Icur. rewrite (eqb_sym_false _ _ (not_eq_sym Hne)) in Hp. lia.
      * intros nm. rewrite cur_snoc. cbn [ev_open flat_map rev alookup]. apply Ih.
      * intros nm. rewrite droppable_snoc. cbn [droppable_rev]. fold (droppable nm pre). rewrite <- (Ind nm).
        destruct (N.eq_dec nm name) as [->|Hne].
        -- rewrite N.eqb_refl. destruct (nmem name (notdropped s)) eqn:M; [exact M|]. rewrite nmem_cons, N.eqb_refl. reflexivity.
        -- rewrite (eqb_sym_false _ _ (not_eq_sym Hne)). destruct (nmem name (notdropped s)); [reflexivity|].
           rewrite nmem_cons, (eqb_sym_false _ _ Hne). reflexivity.
      * intros u0. rewrite used_snoc. cbn [ev_open flat_map existsb]. rewrite orb_false_r. apply Iu.
    + (* not open *)
      destruct fail.
      * (* underlying error *)
        intros [= <- <- <-]. split.
        { cbn [step_ok]. rewrite Hpos. cbn [cres_eqb uevents_eqb uevent_eqb]. rewrite N.eqb_refl. reflexivity. }
        unfold Inv. cbn [dead ref_nil opened_nil nd_nil opened refc notdropped handles next_uid].
        repeat split; auto.
        -- intros nm. rewrite !count_if_snoc. cbn [is_close_ok is_open_ok]. specialize (Ile nm). lia.
        -- intros nm. rewrite balance_snoc by apply Ile. cbn [is_open_ok is_close_ok]. change (count_of nm _) with (count_of nm s). rewrite (Ic nm). lia.
        -- intros nm. rewrite balance_snoc by apply Ile. rewrite cur_snoc. cbn [is_open_ok is_close_ok ev_open flat_map rev alookup].
           rewrite (Io nm). replace (balance nm pre + 0 - 0) with (balance nm pre) by lia. reflexivity.
        -- intros nm. rewrite balance_snoc by apply Ile. rewrite cur_snoc. cbn [is_open_ok is_close_ok ev_open flat_map rev alookup].
           intros Hp. apply Icur. lia.
        -- intros nm. rewrite cur_snoc. cbn [ev_open flat_map rev alookup]. apply Ih.
        -- intros nm. rewrite droppable_snoc. cbn [droppable_rev]. fold (droppable nm pre). rewrite <- (Ind nm).
           destruct (N.eq_dec nm name) as [->|Hne].
           ++ rewrite N.eqb_refl. destruct (nmem name (notdropped s)) eqn:M; [exact M|]. rewrite nmem_cons, N.eqb_refl. reflexivity.
           ++ rewrite (eqb_sym_false _ _ (not_eq_sym Hne)). destruct (nmem name (notdropped s)); [reflexivity|].
              rewrite nmem_cons, (eqb_sym_false _ _ Hne). reflexivity.
        -- intros u0. rewrite used_snoc. cbn [ev_open flat_map existsb]. rewrite orb_false_r. apply Iu.
      * (* a fresh underlying store *)
        intros [= <- <- <-].
        assert (Hfresh : used_uid (next_uid s) pre = false).
        { destruct (used_uid (next_uid s) pre) eqn:U; [|reflexivity]. specialize (Iu _ U). lia. }
        split.
        { cbn [step_ok]. rewrite Hpos, Hfresh. cbn [negb uevents_eqb uevent_eqb andb]. rewrite !N.eqb_refl. reflexivity. }
        assert (Hb0 : balance name pre = 0) by lia.
        unfold Inv. cbn [dead ref_nil opened_nil nd_nil opened refc notdropped handles next_uid].
        repeat split; auto.
        -- intros nm. rewrite !count_if_snoc. cbn [is_close_ok]. specialize (Ile nm). destruct (is_open_ok nm _); lia.
        -- intros nm. rewrite balance_snoc by apply Ile. cbn [is_open_ok is_close_ok]. unfold count_of; cbn [refc].
           destruct (N.eq_dec nm name) as [->|Hne].
           ++ rewrite alookup_aset_same, N.eqb_refl. lia.
           ++ rewrite alookup_aset_other by exact Hne. rewrite (eqb_sym_false _ _ (not_eq_sym Hne)).
              fold (count_of nm s). rewrite (Ic nm). lia.
        -- intros nm. rewrite balance_snoc by apply Ile. rewrite cur_snoc. cbn [is_open_ok is_close_ok ev_open flat_map rev alookup app].
           destruct (N.eq_dec nm name) as [->|Hne].
           ++ rewrite alookup_aset_same, !N.eqb_refl. replace (0 <? balance name pre + 1 - 0) with true by lia. reflexivity.
           ++ rewrite alookup_aset_other by exact Hne. rewrite (eqb_sym_false _ _ (not_eq_sym Hne)), (eqb_sym_false _ _ Hne).
              rewrite (Io nm). replace (balance nm pre + 0 - 0) with (balance nm pre) by lia. reflexivity.
        -- intros nm. rewrite balance_snoc by apply Ile. rewrite cur_snoc. cbn [is_open_ok is_close_ok ev_open flat_map rev alookup app].
           intros Hp. destruct (N.eq_dec nm name) as [->|Hne]; [rewrite N.eqb_refl; discriminate|].
           rewrite (eqb_sym_false _ _ Hne). apply Icur. rewrite (eqb_sym_false _ _ (not_eq_sym Hne)) in Hp. lia.
        -- intros nm. rewrite cur_snoc. cbn [ev_open flat_map rev alookup app newest_handle].
           rewrite (N.eqb_sym name nm). destruct (nm =? name); [reflexivity | apply Ih].
        -- intros nm. rewrite droppable_snoc. cbn [droppable_rev]. fold (droppable nm pre). rewrite <- (Ind nm).
           destruct (N.eq_dec nm name) as [->|Hne].
           ++ rewrite N.eqb_refl. destruct (nmem name (notdropped s)) eqn:M; [exact M|]. rewrite nmem_cons, N.eqb_refl. reflexivity.
           ++ rewrite (eqb_sym_false _ _ (not_eq_sym Hne)). destruct (nmem name (notdropped s)); [reflexivity|].
              rewrite nmem_cons, (eqb_sym_false _ _ Hne). reflexivity.
        -- intros u0. rewrite used_snoc. cbn [ev_open flat_map existsb snd app]. rewrite orb_false_r.
           intros H. apply orb_true_iff in H. destruct H as [H|H]; [specialize (Iu _ H); lia | apply N.eqb_eq in H; lia].
  - (* Close on the newest handle *)
    rewrite (Ih name). destruct (cur name pre) as [u|] eqn:Hc.
    + unfold close_h. rewrite (Ic name).
      destruct (balance name pre =? 0) eqn:H0.
      * intros [= <- <- <-]. split.
        { cbn [step_ok]. rewrite Hc, H0. reflexivity. }
        unfold Inv. repeat split; auto.
        -- intros nm. rewrite !count_if_snoc. cbn [is_close_ok is_open_ok]. specialize (Ile nm). lia.
        -- intros nm. rewrite balance_snoc by apply Ile. cbn [is_open_ok is_close_ok]. change (count_of nm _) with (count_of nm s). rewrite (Ic nm). lia.
        -- intros nm. rewrite balance_snoc by apply Ile. rewrite cur_snoc. cbn [is_open_ok is_close_ok ev_open flat_map rev alookup].
           rewrite (Io nm). replace (balance nm pre + 0 - 0) with (balance nm pre) by lia. reflexivity.
        -- intros nm. rewrite balance_snoc by apply Ile. rewrite cur_snoc. cbn [is_open_ok is_close_ok ev_open flat_map rev alookup].
           intros Hp. apply Icur. lia.
        -- intros nm. rewrite cur_snoc. cbn [ev_open flat_map rev alookup]. apply Ih.
        -- intros nm. rewrite droppable_snoc. cbn [droppable_rev]. apply Ind.
        -- intros u0. rewrite used_snoc. cbn [ev_open flat_map existsb]. rewrite orb_false_r. apply Iu.
      * destruct (balance name pre =? 1) eqn:H1.
        -- (* last close: the underlying store is closed *)
           intros [= <- <- <-]. split.
           { cbn [step_ok]. rewrite Hc, H0, H1. cbn [cres_eqb uevents_eqb uevent_eqb]. rewrite N.eqb_refl. reflexivity. }
           unfold Inv. cbn [dead ref_nil opened_nil nd_nil opened refc notdropped handles next_uid].
           repeat split; auto.
           ++ intros nm. rewrite !count_if_snoc. cbn [is_close_ok is_open_ok]. specialize (Ile nm).
              destruct (N.eq_dec nm name) as [->|Hne].
              ** rewrite N.eqb_refl. unfold balance in H1. lia.
              ** rewrite (eqb_sym_false _ _ (not_eq_sym Hne)). lia.
           ++ intros nm. rewrite balance_snoc by apply Ile. cbn [is_open_ok is_close_ok]. unfold count_of; cbn [refc].
              destruct (N.eq_dec nm name) as [->|Hne].
              ** rewrite alookup_adel_same, N.eqb_refl. lia.
              ** rewrite alookup_adel_other by exact Hne. rewrite (eqb_sym_false _ _ (not_eq_sym Hne)).
                 fold (count_of nm s). rewrite (Ic nm). lia.
           ++ intros nm. rewrite balance_snoc by apply Ile. rewrite cur_snoc. cbn [is_open_ok is_close_ok ev_open flat_map rev alookup].
              destruct (N.eq_dec nm name) as [->|Hne].
              ** rewrite alookup_adel_same, N.eqb_refl. replace (0 <? balance name pre + 0 - 1) with false by lia. reflexivity.
              ** rewrite alookup_adel_other by exact Hne. rewrite (eqb_sym_false _ _ (not_eq_sym Hne)).
                 rewrite (Io nm). replace (balance nm pre + 0 - 0) with (balance nm pre) by lia. reflexivity.
           ++ intros nm. rewrite balance_snoc by apply Ile. rewrite cur_snoc. cbn [is_open_ok is_close_ok ev_open flat_map rev alookup].
              intros Hp. apply Icur. destruct (name =? nm); lia.
           ++ intros nm. rewrite cur_snoc. cbn [ev_open flat_map rev alookup]. apply Ih.
           ++ intros nm. rewrite droppable_snoc. cbn [droppable_rev]. apply Ind.
           ++ intros u0. rewrite used_snoc. cbn [ev_open flat_map existsb]. rewrite orb_false_r. apply Iu.
        -- (* still referenced: count down *)
           intros [= <- <- <-]. split.
           { cbn [step_ok]. rewrite Hc, H0, H1. reflexivity. }
           unfold Inv. cbn [dead ref_nil opened_nil nd_nil opened refc notdropped handles next_uid].
           repeat split; auto.
           ++ intros nm. rewrite !count_if_snoc. cbn [is_close_ok is_open_ok]. specialize (Ile nm).
              destruct (N.eq_dec nm name) as [->|Hne].
              ** rewrite N.eqb_refl. unfold balance in H0, H1. lia.
              ** rewrite (eqb_sym_false _ _ (not_eq_sym Hne)). lia.
           ++ intros nm. rewrite balance_snoc by apply Ile. cbn [is_open_ok is_close_ok]. unfold count_of; cbn [refc].
              destruct (N.eq_dec nm name) as [->|Hne].
              ** rewrite alookup_aset_same, N.eqb_refl. lia.
              ** rewrite alookup_aset_other by exact Hne. rewrite (eqb_sym_false _ _ (not_eq_sym Hne)).
                 fold (count_of nm s). rewrite (Ic nm). lia.
           ++ intros nm. rewrite balance_snoc by apply Ile. rewrite cur_snoc. cbn [is_open_ok is_close_ok ev_open flat_map rev alookup].
              rewrite (Io nm). destruct (N.eq_dec nm name) as [->|Hne].
              ** rewrite N.eqb_refl. replace (0 <? balance name pre + 0 - 1) with true by lia.
                 replace (0 <? balance name pre) with true by lia. reflexivity.
              ** rewrite (eqb_sym_false _ _ (not_eq_sym Hne)). replace (balance nm pre + 0 - 0) with (balance nm pre) by lia. reflexivity.
           ++ intros nm. rewrite balance_snoc by apply Ile. rewrite cur_snoc. cbn [is_open_ok is_close_ok ev_open flat_map rev alookup].
              intros Hp. apply Icur. destruct (name =? nm); lia.
           ++ intros nm. rewrite cur_snoc. cbn [ev_open flat_map rev alookup]. apply Ih.
           ++ intros nm. rewrite droppable_snoc. cbn [droppable_rev]. apply Ind.
           ++ intros u0. rewrite used_snoc. cbn [ev_open flat_map existsb]. rewrite orb_false_r. apply Iu.
    + (* no handle was ever returned for this name *)
      intros [= <- <- <-]. split.
      { cbn [step_ok]. rewrite Hc. reflexivity. }
      unfold Inv. repeat split; auto.
      * intros nm. rewrite !count_if_snoc. cbn [is_close_ok is_open_ok]. specialize (Ile nm). lia.
      * intros nm. rewrite balance_snoc by apply Ile. cbn [is_open_ok is_close_ok]. change (count_of nm _) with (count_of nm s). rewrite (Ic nm). lia.
      * intros nm. rewrite balance_snoc by apply Ile. rewrite cur_snoc. cbn [is_open_ok is_close_ok ev_open flat_map rev alookup].
        rewrite (Io nm). replace (balance nm pre + 0 - 0) with (balance nm pre) by lia. reflexivity.
      * intros nm. rewrite balance_snoc by apply Ile. rewrite cur_snoc. cbn [is_open_ok is_close_ok ev_open flat_map rev alookup].
        intros Hp. apply Icur. lia.
      * intros nm. rewrite cur_snoc. cbn [ev_open flat_map rev alookup]. apply Ih.
      * intros nm. rewrite droppable_snoc. cbn [droppable_rev]. apply Ind.
      * intros u0. rewrite used_snoc. cbn [ev_open flat_map existsb]. rewrite orb_false_r. apply Iu.
  - (* Drop on the newest handle *)
    rewrite (Ih name). destruct (cur name pre) as [u|] eqn:Hc.
    + unfold drop_h. rewrite (Ind name). intros [= <- <- <-]. split.
      { cbn [step_ok]. rewrite Hc. cbn [cres_eqb andb]. destruct (droppable name pre); cbn [uevents_eqb uevent_eqb]; [rewrite N.eqb_refl|]; reflexivity. }
      unfold Inv. cbn [dead ref_nil opened_nil nd_nil opened refc notdropped handles next_uid].
      repeat split; auto.
      * intros nm. rewrite !count_if_snoc. cbn [is_close_ok is_open_ok]. specialize (Ile nm). lia.
      * intros nm. rewrite balance_snoc by apply Ile. cbn [is_open_ok is_close_ok]. unfold count_of; cbn [refc]. fold (count_of nm s). rewrite (Ic nm). lia.
      * intros nm. rewrite balance_snoc by apply Ile. rewrite cur_snoc. cbn [is_open_ok is_close_ok].
        replace (alookup nm (rev (ev_open (if droppable name pre then [UDrop u] else [])))) with (@None N)
          by (destruct (droppable name pre); reflexivity).
        rewrite (Io nm). replace (balance nm pre + 0 - 0) with (balance nm pre) by lia. reflexivity.
      * intros nm. rewrite balance_snoc by apply Ile. rewrite cur_snoc. cbn [is_open_ok is_close_ok].
        replace (alookup nm (rev (ev_open (if droppable name pre then [UDrop u] else [])))) with (@None N)
          by (destruct (droppable name pre); reflexivity).
        intros Hp. apply Icur. lia.
      * intros nm. rewrite cur_snoc.
        replace (alookup nm (rev (ev_open (if droppable name pre then [UDrop u] else [])))) with (@None N)
          by (destruct (droppable name pre); reflexivity). apply Ih.
      * intros nm. rewrite droppable_snoc. cbn [droppable_rev]. fold (droppable nm pre).
        destruct (N.eq_dec nm name) as [->|Hne].
        -- rewrite N.eqb_refl. apply nmem_nrem_same.
        -- rewrite (eqb_sym_false _ _ (not_eq_sym Hne)). rewrite nmem_nrem_other by exact Hne. apply Ind.
      * intros u0. rewrite used_snoc.
        replace (existsb (fun p : N * N => snd p =? u0) (ev_open (if droppable name pre then [UDrop u] else []))) with false
          by (destruct (droppable name pre); reflexivity).
        rewrite orb_false_r. apply Iu.
    + intros [= <- <- <-]. split.
      { cbn [step_ok]. rewrite Hc. reflexivity. }
      unfold Inv. repeat split; auto.
      * intros nm. rewrite !count_if_snoc. cbn [is_close_ok is_open_ok]. specialize (Ile nm). lia.
      * intros nm. rewrite balance_snoc by apply Ile. cbn [is_open_ok is_close_ok]. change (count_of nm _) with (count_of nm s). rewrite (Ic nm). lia.
      * intros nm. rewrite balance_snoc by apply Ile. rewrite cur_snoc. cbn [is_open_ok is_close_ok ev_open flat_map rev alookup].
        rewrite (Io nm). replace (balance nm pre + 0 - 0) with (balance nm pre) by lia. reflexivity.
      * intros nm. rewrite balance_snoc by apply Ile. rewrite cur_snoc. cbn [is_open_ok is_close_ok ev_open flat_map rev alookup].
        intros Hp. apply Icur. lia.
      * intros nm. rewrite cur_snoc. cbn [ev_open flat_map rev alookup]. apply Ih.
      * intros nm. rewrite droppable_snoc. cbn [droppable_rev]. apply Ind.
      * intros u0. rewrite used_snoc. cbn [ev_open flat_map existsb]. rewrite orb_false_r. apply Iu.
Qed.

(* ---------- histories ---------- *)
Lemma run_sound ops : forall s pre s' tr,
  Inv s pre -> forallb by_name_op ops = true -> crun s ops = (s', tr) ->
  trace_ok_from pre tr = true /\ Inv s' (pre ++ tr).
Proof.
  induction ops as [|o ops IH]; intros s pre s' tr I Hb; cbn [crun].
  - intros [= <- <-]. rewrite app_nil_r. split; [reflexivity | exact I].
  - cbn [forallb] in Hb. apply andb_true_iff in Hb. destruct Hb as [Hb1 Hb2].
    destruct (cstep s o) as [[s1 r1] e1] eqn:S. destruct (crun s1 ops) as [s2 tr2] eqn:R.
    intros [= <- <-]. destruct (step_sound _ _ _ _ _ _ I Hb1 S) as [H1 I1].
    destruct (IH _ _ _ _ I1 Hb2 R) as [H2 I2]. cbn [trace_ok_from].
    split; [apply andb_true_iff; split; [exact H1 | exact H2]|].
    assert (E : (pre ++ [(o, r1, e1)]) ++ tr2 = pre ++ (o, r1, e1) :: tr2) by (rewrite <- app_assoc; reflexivity).
    exact (eq_ind _ (Inv s2) I2 _ E).
Qed.

(* C27 (after the repair), for both constructors and every by-name history *)
Theorem trace_ok_all s0 ops :
  s0 = wrap \/ s0 = wrap_all -> forallb by_name_op ops = true ->
  trace_ok (snd (crun s0 ops)) = true.
Proof.
  intros H0 Hb. destruct (crun s0 ops) as [s' tr] eqn:R. cbn [snd]. unfold trace_ok.
  assert (I : Inv s0 []) by (destruct H0 as [-> | ->]; apply inv_init).
  exact (proj1 (run_sound ops _ _ _ _ I Hb R)).
Qed.

Lemma trace_ok_from_split pre0 tr : trace_ok_from pre0 tr = true ->
  forall a t b, tr = a ++ t :: b -> step_ok (pre0 ++ a) t = true.
Proof.
  revert pre0. induction tr as [|x tr IH]; intros pre0 H a t b E.
  - destruct a; discriminate.
  - cbn [trace_ok_from] in H. apply andb_true_iff in H. destruct H as [H1 H2].
    destruct a as [|y a]; cbn [app] in E; injection E as <- E.
    + rewrite app_nil_r. exact H1.
    + specialize (IH _ H2 _ _ _ E). rewrite <- app_assoc in IH. exact IH.
Qed.

Lemma cres_eqb_eq a b : cres_eqb a b = true -> a = b.
Proof. destruct a, b; cbn [cres_eqb]; try discriminate; try reflexivity. intros H. apply N.eqb_eq in H. congruence. Qed.
Lemma uevent_eqb_eq a b : uevent_eqb a b = true -> a = b.
Proof.
  destruct a, b; cbn [uevent_eqb]; try discriminate; intros H.
  - apply andb_true_iff in H. destruct H as [H1 H2]. apply N.eqb_eq in H1, H2. congruence.
  - apply N.eqb_eq in H. congruence.
  - apply N.eqb_eq in H. congruence.
  - apply N.eqb_eq in H. congruence.
Qed.
Lemma uevents_eqb_eq a b : uevents_eqb a b = true -> a = b.
Proof.
  revert b. induction a as [|x a IH]; intros [|y b]; cbn [uevents_eqb]; try discriminate; [reflexivity|].
  intros H. apply andb_true_iff in H. destruct H as [H1 H2]. f_equal; [apply uevent_eqb_eq; exact H1 | apply IH; exact H2].
Qed.

Section Sentences.
  Variable s0 : cstate.
  Hypothesis Hs0 : s0 = wrap \/ s0 = wrap_all.
  Variable ops : list cop.
  Hypothesis Hby : forallb by_name_op ops = true.
  Variables (pre post : list titem) (r : cres) (ev : list uevent).

  (* opening a name that is open returns the same store and does not touch the producer *)
  Theorem open_while_open name f :
    snd (crun s0 ops) = pre ++ (COpen name f, r, ev) :: post -> 0 < balance name pre ->
    exists u, cur name pre = Some u /\ r = RHandle u /\ ev = [].
  Proof.
    intros E Hp. pose proof (trace_ok_from_split [] _ (trace_ok_all s0 ops Hs0 Hby) _ _ _ E) as H.
    cbn [app step_ok] in H. replace (0 <? balance name pre) with true in H by lia.
    destruct (cur name pre) as [u|]; [|discriminate]. apply andb_true_iff in H. destruct H as [H1 H2].
    exists u. repeat split; [apply cres_eqb_eq; exact H1 | apply uevents_eqb_eq; exact H2].
  Qed.

  (* opening a closed name opens the underlying database once (a fresh store), or reports its error *)
  Theorem open_when_closed name f :
    snd (crun s0 ops) = pre ++ (COpen name f, r, ev) :: post -> balance name pre = 0 ->
    if f then r = ROpenErr /\ ev = [UOpenFail name]
    else exists u, r = RHandle u /\ ev = [UOpen name u] /\ used_uid u pre = false.
  Proof.
    intros E Hp. pose proof (trace_ok_from_split [] _ (trace_ok_all s0 ops Hs0 Hby) _ _ _ E) as H.
    cbn [app step_ok] in H. replace (0 <? balance name pre) with false in H by lia. destruct f.
    - apply andb_true_iff in H. destruct H as [H1 H2]. split; [apply cres_eqb_eq; exact H1 | apply uevents_eqb_eq; exact H2].
    - destruct r as [u| | | | | | |]; try discriminate. apply andb_true_iff in H. destruct H as [H1 H2].
      exists u. repeat split; [apply uevents_eqb_eq; exact H2 | apply negb_true_iff; exact H1].
  Qed.

  (* the underlying Close runs exactly at the close that brings the balance from 1 to 0;
     closing more often than opening is an error and causes no underlying call *)
  Theorem close_cases name :
    snd (crun s0 ops) = pre ++ (CClose name, r, ev) :: post ->
    match cur name pre with
    | None => r = RNoHandle /\ ev = []
    | Some u => (balance name pre = 0 -> r = ROverClose /\ ev = []) /\
                (balance name pre = 1 -> r = ROk /\ ev = [UClose u]) /\
                (1 < balance name pre -> r = ROk /\ ev = [])
    end.
  Proof.
    intros E. pose proof (trace_ok_from_split [] _ (trace_ok_all s0 ops Hs0 Hby) _ _ _ E) as H.
    cbn [app step_ok] in H. destruct (cur name pre) as [u|].
    - destruct (balance name pre =? 0) eqn:H0; [|destruct (balance name pre =? 1) eqn:H1];
        apply andb_true_iff in H; destruct H as [Ha Hb]; apply cres_eqb_eq in Ha; apply uevents_eqb_eq in Hb;
        repeat split; intros; try lia; assumption.
    - apply andb_true_iff in H. destruct H as [Ha Hb]. split; [apply cres_eqb_eq; exact Ha | apply uevents_eqb_eq; exact Hb].
  Qed.

  (* the underlying Drop runs iff OpenDB(name) was called since the last Drop(name) *)
  Theorem drop_cases name :
    snd (crun s0 ops) = pre ++ (CDrop name, r, ev) :: post ->
    match cur name pre with
    | None => r = RNoHandle /\ ev = []
    | Some u => r = ROk /\ ev = (if droppable name pre then [UDrop u] else [])
    end.
  Proof.
    intros E. pose proof (trace_ok_from_split [] _ (trace_ok_all s0 ops Hs0 Hby) _ _ _ E) as H.
    cbn [app step_ok] in H. destruct (cur name pre) as [u|];
      apply andb_true_iff in H; destruct H as [Ha Hb]; split; [apply cres_eqb_eq; exact Ha | apply uevents_eqb_eq; exact Hb | apply cres_eqb_eq; exact Ha | apply uevents_eqb_eq; exact Hb].
  Qed.
End Sentences.

(* at most one underlying Drop per OpenDB call: after a Drop(name), and until the next
   OpenDB(name), the name is not droppable *)
Definition no_open_of (name : N) (t : titem) : bool :=
  match t with (COpen n _, _, _) => negb (n =? name) | _ => true end.
Lemma droppable_rev_after_drop name (m rest : list titem) ev :
  forallb (no_open_of name) m = true ->
  droppable_rev name (m ++ (CDrop name, ROk, ev) :: rest) = false.
Proof.
  induction m as [|[[o r] e] m IH]; intros H.
  - cbn [app droppable_rev]. rewrite N.eqb_refl. reflexivity.
  - cbn [forallb no_open_of] in H. apply andb_true_iff in H. destruct H as [H2 H1].
    cbn [app droppable_rev].
    destruct o as [n f|n|n|u|u|n]; try exact (IH H1).
    + apply negb_true_iff in H2. rewrite H2. destruct r; exact (IH H1).
    + destruct r; try exact (IH H1). destruct (n =? name); [reflexivity | exact (IH H1)].
Qed.

Lemma forallb_rev {A} (f : A -> bool) l : forallb f (rev l) = forallb f l.
Proof.
  induction l as [|x l IH]; [reflexivity|]. cbn [rev forallb]. rewrite forallb_app, IH. cbn [forallb].
  destruct (f x), (forallb f l); reflexivity.
Qed.

Lemma droppable_after_drop name (pre mid : list titem) ev :
  forallb (no_open_of name) mid = true ->
  droppable name (pre ++ (CDrop name, ROk, ev) :: mid) = false.
Proof.
  intros H. unfold droppable. rewrite rev_app_distr. cbn [rev]. rewrite <- app_assoc. cbn [app].
  apply droppable_rev_after_drop. rewrite forallb_rev. exact H.
Qed.

(* closing with count 0 leaves the state untouched *)
Lemma over_close_touches_nothing s u name :
  count_of name s = 0 -> close_h u name s = (s, ROverClose, []).
Proof. intros H. unfold close_h. rewrite H. reflexivity. Qed.

(* no history whatsoever (stale handles included) makes the repaired producer panic *)
Definition alive (s : cstate) : Prop :=
  dead s = false /\ ref_nil s = false /\ opened_nil s = false /\ nd_nil s = false.

Lemma alive_step s o s' r ev :
  alive s -> cstep s o = (s', r, ev) -> alive s' /\ r <> RPanic /\ r <> RDead.
Proof.
  intros (Hd & Hn & Ho & Hnd). unfold cstep. rewrite Hd. unfold alive.
  destruct o as [name f|name|name|uid|uid|name].
  - unfold open_db, ref_incr. rewrite Hnd, Hn, Ho. destruct (alookup name (opened s)); [|destruct f]; intros [= <- <- <-]; repeat split; auto; discriminate.
  - destruct (newest_handle name (handles s)); [|intros [= <- <- <-]; repeat split; auto; discriminate].
    unfold close_h. destruct (count_of name s =? 0); [|destruct (count_of name s =? 1)]; intros [= <- <- <-]; repeat split; auto; discriminate.
  - destruct (newest_handle name (handles s)); [|intros [= <- <- <-]; repeat split; auto; discriminate].
    unfold drop_h. intros [= <- <- <-]; repeat split; auto; discriminate.
  - destruct (alookup uid (handles s)); [|intros [= <- <- <-]; repeat split; auto; discriminate].
    unfold close_h. destruct (count_of n s =? 0); [|destruct (count_of n s =? 1)]; intros [= <- <- <-]; repeat split; auto; discriminate.
  - destruct (alookup uid (handles s)); [|intros [= <- <- <-]; repeat split; auto; discriminate].
    unfold drop_h. intros [= <- <- <-]; repeat split; auto; discriminate.
  - destruct (newest_handle name (handles s)); [|intros [= <- <- <-]; repeat split; auto; discriminate].
    unfold close_h. destruct (count_of name s =? 0); [|destruct (count_of name s =? 1)]; intros [= <- <- <-]; repeat split; auto; discriminate.
Qed.

Theorem never_panics ops : forall s s' tr,
  alive s -> crun s ops = (s', tr) ->
  forall o r ev, In (o, r, ev) tr -> r <> RPanic /\ r <> RDead.
Proof.
  induction ops as [|o ops IH]; intros s s' tr Ha; cbn [crun].
  - intros [= <- <-] ? ? ? [].
  - destruct (cstep s o) as [[s1 r1] e1] eqn:S. destruct (crun s1 ops) as [s2 tr2] eqn:R.
    intros [= <- <-]. destruct (alive_step _ _ _ _ _ Ha S) as (A1 & A3 & A4).
    intros o' r' ev' [H|H]; [injection H as <- <- <-; split; assumption | exact (IH _ _ _ A1 R _ _ _ H)].
Qed.

Lemma ctors_alive : alive wrap /\ alive wrap_all /\ wrap <> wrap_all.
Proof. repeat split; discriminate. Qed.

(* ---------- the pinned tree: Wrap without the refCounter map ---------- *)
Example wrap_old_refuted :
  snd (crun wrap_old [COpen 0 false]) = [(COpen 0 false, RPanic, [UOpen 0 0])] /\
  trace_ok (snd (crun wrap_old [COpen 0 false])) = false /\
  dead (fst (crun wrap_old [COpen 0 false])) = true.
Proof. vm_compute. repeat split; reflexivity. Qed.

(* ---------- openDB as two critical sections ---------- *)
Lemma open_db_split name s :
  open_db name false s =
  match open_begin name s with
  | (s1, Some r) => (s1, r, [])
  | (s1, None) =>
      let '(s2, u) := under_open s1 in
      let '(s3, r) := open_finish name u s2 in (s3, r, [UOpen name u])
  end.
Proof.
  unfold open_db, open_begin, under_open, open_finish, ref_incr, die, count_of.
  destruct (nd_nil s); [reflexivity|].
  destruct (alookup name (opened s)); [destruct (ref_nil s); reflexivity|].
  cbn [kind opened_nil nd_nil opened ref_nil refc notdropped handles next_uid dead].
  destruct (opened_nil s); [reflexivity|]. destruct (ref_nil s); reflexivity.
Qed.

(* the sequential traces of the model satisfy the counting clauses too (sample) *)
Example conc_ok_sequential_sample :
  conc_ok [([KOpen 0 (RHandle 0)], [UOpen 0 0]); ([KOpen 0 (RHandle 0)], []); ([KDrop 0 ROk], [UDrop 0]);
           ([KClose 0 ROk], []); ([KClose 0 ROk], [UClose 0]); ([KClose 0 ROverClose], []);
           ([KOpen 0 (RHandle 1)], [UOpen 0 1])] = true.
Proof. vm_compute. reflexivity. Qed.

(* Two OpenDB(name) calls on a closed name, the second issued while the first is inside the
   underlying open: both miss the cache, both open the underlying database, two different stores
   are returned and the first one is never closed by the matching closes. *)
Lemma overlapping_first_opens s0 :
  s0 = wrap \/ s0 = wrap_all ->
  let '(s, r1, r2, ev) := open_overlap 0 s0 in
  r1 = RHandle 0 /\ r2 = RHandle 1 /\ ev = [UOpen 0 0; UOpen 0 1] /\
  conc_ok [([KOpen 0 r1; KOpen 0 r2], ev)] = false /\
  snd (crun s [CClose 0; CClose 0]) = [(CClose 0, ROk, []); (CClose 0, ROk, [UClose 0])].
Proof. intros [-> | ->]; vm_compute; repeat split; reflexivity. Qed.

(* a failing underlying Close: the wrapper's state changes exactly as for a successful close (the
   entry is released before the underlying call), the underlying call is the same, only the result
   differs (the underlying error instead of ok) *)
Lemma close_error_like_close s name :
  cstep s (CCloseE name) =
  (let '(s', r, ev) := cstep s (CClose name) in
   (s', match ev with [] => r | _ => if dead s then r else RCloseErr end, ev)).
Proof.
  unfold cstep. destruct (dead s); [reflexivity|].
  destruct (newest_handle name (handles s)); [|reflexivity].
  destruct (close_h n name s) as [[s' r] ev]. destruct ev; reflexivity.
Qed.
