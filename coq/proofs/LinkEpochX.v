(* L1, extended statement, one epoch (canonical validator list): the rendered run of the model over a
   schedule (LinkX.xslot: optional Build, noise, events that the reference rejects or does not offer,
   sealing policy) equals the reference walk LinkX.ref_x; the instance after the epoch's operations is
   in the same epoch (not sealed) or simulates the empty table of the next epoch (sealed). *)
From Coq Require Import NArith ZArith List Lia Bool ZifyBool ZifyN ZifyNat Permutation.
From LV Require Import lib.Bytes lib.VecListFacts model.Codec model.VecIndex model.Abft model.AbftRun spec.ElectionSpec
  proofs.AbftBuild
  proofs.BftCore proofs.BftElection proofs.BftMono proofs.BftGraph proofs.BftMain proofs.BftRun proofs.BftAccept proofs.BftProps
  proofs.LinkVals proofs.LinkDefs proofs.LinkSim proofs.LinkVote proofs.LinkElect proofs.LinkStep proofs.LinkBuild
  proofs.LinkRun proofs.LinkRestart proofs.LinkPerm proofs.LinkNoise proofs.LinkEpoch proofs.LinkSeal proofs.LinkEpochs
  proofs.LinkReject proofs.LinkX.
Import ListNotations.
Local Open Scope N_scope.

(* ---------- the reference's treatment of one event ---------- *)
Lemma add_event_rej vals T e T' h : add_event vals T e = (T', (1, h)) ->
  T' = T /\ parents_known T e /\ nlookup (eid (fe e)) T = None /\ (ecr (fe e) < length vals)%nat /\ ev_wf T e /\
  r_frame_ok vals T (mk_node (length vals) T e) = false /\ h = r_frame_high vals T (mk_node (length vals) T e).
Proof.
  unfold add_event.
  destruct (existsb (fun p => match nlookup p T with None => true | Some _ => false end) (epar (fe e))) eqn:E1;
    [cbn [orb]; intros H; inversion H|].
  destruct (nlookup (eid (fe e)) T) eqn:E2; [cbn [orb]; intros H; inversion H|].
  destruct (Nat.ltb (ecr (fe e)) (length vals)) eqn:E3; [|cbn [orb negb]; intros H; inversion H].
  cbn [orb negb].
  destruct (ev_wf_b T e) eqn:E4; [|cbn [negb]; intros H; inversion H]. cbn [negb].
  destruct (r_frame_ok vals T (mk_node (length vals) T e)) eqn:E5; [intros H; inversion H|].
  intros H. assert (ET : T' = T) by (inversion H; reflexivity).
  assert (Eh : h = r_frame_high vals T (mk_node (length vals) T e)) by (inversion H; reflexivity). clear H.
  split; [exact ET|]. split; [|split; [reflexivity|]].
  - intros p Hp. destruct (nlookup p T) as [n|] eqn:En; [exists n; reflexivity|].
    exfalso. assert (existsb (fun p => match nlookup p T with None => true | Some _ => false end) (epar (fe e)) = true).
    { apply existsb_exists. exists p. split; [exact Hp|]. rewrite En. reflexivity. }
    congruence.
  - split; [apply Nat.ltb_lt; exact E3|]. split; [apply ev_wf_b_ok; exact E4|]. split; [reflexivity | exact Eh].
Qed.
Lemma add_event_keep vals T e T' c h : add_event vals T e = (T', (c, h)) -> c <> 0 -> T' = T.
Proof.
  unfold add_event. destruct (_ || _ || _); [intros H; inversion H; reflexivity|].
  destruct (negb (ev_wf_b T e)); [intros H; inversion H; reflexivity|].
  destruct (r_frame_ok vals T (mk_node (length vals) T e)); intros H; inversion H; [congruence | reflexivity].
Qed.
Lemma add_event_c2 vals T e T' h : add_event vals T e = (T', (2, h)) -> h = 0.
Proof.
  unfold add_event. destruct (_ || _ || _); [intros H; inversion H; reflexivity|].
  destruct (negb (ev_wf_b T e)); [intros H; inversion H|].
  destruct (r_frame_ok vals T (mk_node (length vals) T e)); intros H; inversion H.
Qed.

(* ---------- validators: membership does not depend on the order ---------- *)
Lemma v_find_in : forall (l : Abft.vals) id k, (exists i, v_find l id k = Some i) <-> In id (map fst l).
Proof.
  induction l as [|[x w] t IH]; intros id k; cbn [v_find map fst In].
  - split; [intros [i H]; discriminate | intros []].
  - destruct (x =? id) eqn:E.
    + apply N.eqb_eq in E. split; [intros _; left; exact E | intros _; eexists; reflexivity].
    + apply N.eqb_neq in E. rewrite IH. split; [intros H; right; exact H | intros [H|H]; [contradiction | exact H]].
Qed.
Lemma v_exists_in (l : Abft.vals) id : v_exists l id = true <-> In id (map fst l).
Proof.
  unfold v_exists. rewrite <- (v_find_in l id 0). destruct (v_find l id 0) as [i|]; split; intros H.
  - eexists; reflexivity.
  - reflexivity.
  - discriminate.
  - destruct H; discriminate.
Qed.
Lemma v_exists_perm (l1 l2 : Abft.vals) id : Permutation l1 l2 -> v_exists l1 id = v_exists l2 id.
Proof.
  intros P. apply eq_true_iff_eq. rewrite !v_exists_in. split; apply Permutation_in; [|symmetry]; apply Permutation_map; exact P.
Qed.
Lemma v_exists_mk_vals vals id : raw_ok vals -> v_exists (mk_vals vals) id = v_exists vals id.
Proof. intros R. rewrite (mk_vals_vsort vals R). apply v_exists_perm. apply vsort_perm. Qed.
Lemma guard_in_vals ep (v1 v2 : Abft.vals) ids x b : (forall c, v_exists v1 c = v_exists v2 c) -> guard_in ep v1 ids x b = guard_in ep v2 ids x b.
Proof. intros H. unfold guard_in. rewrite H. reflexivity. Qed.
Lemma noise_in_vals ep (v1 v2 : Abft.vals) ids o : (forall c, v_exists v1 c = v_exists v2 c) -> noise_in ep v1 ids o -> noise_in ep v2 ids o.
Proof. intros H. destruct o; cbn [noise_in]; auto. rewrite (guard_in_vals ep v1 v2 ids _ true H). auto. Qed.

Lemma count_builds_cons o ns : count_builds (o :: ns) = ((if is_build o then 1 else 0) + count_builds ns)%nat.
Proof. unfold count_builds. cbn [filter]. destruct (is_build o); reflexivity. Qed.
Lemma run_inst_app_alive cap pol i : forall ops rest os i', run cap pol sample i (ops ++ rest) = os ++ run cap pol sample i' rest -> True.
Proof. auto. Qed.

(* ================= noise lists, with the restarts rendered ================= *)
Section NoiseX.
Variable cap : nat.
Variable pol : policy.
Variable K : N.
Hypothesis HK : K < 2 ^ 192.
Variable ep : N.
Variable lam : fev -> N.
Variable vals : list (N * N).
Hypothesis Hvals : vals_ok vals.
Variable J : N -> Prop.
Hypothesis HJ : forall a, J a -> id_fresh K a.
Notation Sim := (Sim ep lam vals J K).

Lemma Sim_ldf i T Dr B : Sim i T Dr B -> l_ldf (i_st i) = N.of_nat (length B) /\ l_epoch (i_st i) = ep.
Proof.
  intros [W [S [[C _ _ _] _]] _ _ _ SG _]. split; [|apply (co_epoch _ _ _ _ _ _ _ _ C)].
  destruct (seg_bound vals T 0 _ _ SG) as [E _]. rewrite map_length in E. lia.
Qed.
Lemma Sim_state i T Dr B : Sim i T Dr B -> few_forkers vals T -> (l_ldf (i_st i), l_epoch (i_st i)) = st_of ep vals T.
Proof.
  intros HS Hff. destruct (Sim_ldf i T Dr B HS) as [E1 E2]. unfold st_of. rewrite E1, E2.
  rewrite (final_blocks cap ep lam vals J K Hvals i T Dr B HS Hff), map_length. reflexivity.
Qed.

Lemma nl_x T Dr B : few_forkers vals T -> forall ns i rest, Sim i T Dr B -> Forall (noise_in ep vals (ids_of Dr)) ns ->
  l_ctr (i_st i) + N.of_nat (count_builds ns) <= K ->
  exists os i', run cap pol sample i (ns ++ rest) = os ++ run cap pol sample i' rest /\
    run_inst cap pol sample i (ns ++ rest) = run_inst cap pol sample i' rest /\ length os = length ns /\
    Sim i' T Dr B /\ l_ctr (i_st i') <= l_ctr (i_st i) + N.of_nat (count_builds ns) /\
    render_noise ns os = restarts (st_of ep vals T) ns.
Proof.
  intros Hff. induction ns as [|o ns IH]; intros i rest HS OK HB.
  - exists [], i. cbn [app length]. split; [reflexivity|]. split; [reflexivity|]. split; [reflexivity|]. split; [exact HS|].
    split; [lia | reflexivity].
  - inversion OK as [|o' ns' OK1 OK2]; subst. rewrite count_builds_cons in HB.
    assert (HBo : is_build o = true -> l_ctr (i_st i) + 1 <= K) by (intros Eb; rewrite Eb in HB; lia).
    assert (ST : exists ob i1, step cap pol sample i o = (ob, i1, false) /\ Sim i1 T Dr B /\
                  l_ctr (i_st i1) <= l_ctr (i_st i) + (if is_build o then 1 else 0) /\
                  forall t os', render_noise (o :: t) (ob :: os') = restarts (st_of ep vals T) [o] ++ render_noise t os').
    { destruct (is_restart o) eqn:IR.
      - destruct o; try discriminate.
        destruct (restart_step cap ep lam vals Hvals J K HJ pol (fun f => policy_fn pol ep f 0 [] []) (fun _ _ _ _ => eq_refl) i T Dr B HS Hff)
          as [i1 [E [HS1 C0]]].
        exists (ObsR None [] (l_ldf (i_st i1)) ep), i1. split; [exact E|]. split; [exact HS1|]. split; [cbn [is_build]; lia|].
        intros t os'. cbn [render_noise restarts filter is_restart map app].
        pose proof (Sim_state i1 T Dr B HS1 Hff) as St. destruct (Sim_ldf i1 T Dr B HS1) as [_ Ee]. rewrite Ee in St. rewrite St. reflexivity.
      - destruct (noise_in_step cap pol ep lam vals Hvals J K HJ HK i T Dr B o HS Hff OK1 HBo) as [ob [i1 [E [HS1 C1]]]].
        exists ob, i1. split; [exact E|]. split; [exact HS1|]. split; [exact C1|].
        intros t os'. unfold restarts. cbn [filter]. rewrite IR. cbn [map app].
        destruct o; try discriminate; reflexivity. }
    destruct ST as [ob [i1 [E [HS1 [C1 RN]]]]].
    destruct (IH i1 rest HS1 OK2) as [os [i' [ER [ERI [L [HS' [C' RN']]]]]]]; [destruct (is_build o); lia|].
    exists (ob :: os), i'. cbn [app run]. rewrite run_inst_cons, E, ER, ERI.
    split; [reflexivity|]. split; [reflexivity|]. split; [cbn [length]; lia|]. split; [exact HS'|].
    split; [rewrite count_builds_cons; destruct (is_build o); lia|].
    rewrite RN, RN'. unfold restarts. cbn [filter]. destruct (is_restart o); reflexivity.
Qed.
End NoiseX.

(* ---------- decided frames are an initial segment of the reference's blocks (LinkEpochs, without a policy) ---------- *)
Section SegFacts.
Variable vals : list (N * N).
Notation fcn := (fc_n (map snd vals) (ElectionSpec.quorum_of (map snd vals))).
Lemma blocks_from_seg' T : forall B L0 L1 fuel, Seg vals T L0 B L1 -> (length B <= fuel)%nat ->
  exists rest, blocks_from node nd_id nd_cr nd_fr nd_spf fcn (map snd vals) (ElectionSpec.quorum_of (map snd vals)) (canon_order vals) T fuel (L0 + 1) = B ++ rest.
Proof.
  intros B L0 L1 fuel HS. revert fuel. induction HS as [L|L a t L1 Hd Hs IH]; intros fuel Hl; [eexists; reflexivity|].
  destruct fuel as [|fu]; [cbn [length] in Hl; lia|]. cbn [blocks_from]. rewrite Hd.
  destruct (IH fu) as [rest E]; [cbn [length] in Hl; lia|]. exists rest. cbn [app]. rewrite E. reflexivity.
Qed.
Lemma r_blocks_seg' T B L : Seg vals T 0 B L -> exists rest, r_blocks vals T = B ++ rest.
Proof.
  intros HS. unfold r_blocks, blocks_spec. apply (blocks_from_seg' T B 0 L _ HS).
  destruct (seg_bound vals T 0 B L HS) as [EL [->|BD]]; [cbn; lia | lia].
Qed.
Lemma Seg_snoc' T : forall L0 B L1, Seg vals T L0 B L1 -> L0 < L1 ->
  exists B0 a, B = B0 ++ [(L1, a)] /\ forall x, In x B0 -> L0 < fst x <= L1 - 1.
Proof.
  induction 1 as [L|L a t L1 Hd Hs IH]; intros Lt; [lia|].
  pose proof (Seg_le vals T _ _ _ Hs) as Le.
  destruct (N.eq_dec (L + 1) L1) as [<-|NE].
  - inversion Hs; subst; [|pose proof (Seg_le vals T _ _ _ H0); lia]. exists [], a. split; [reflexivity | intros x []].
  - destruct IH as [B0 [a0 [-> H0]]]; [lia|]. exists ((L + 1, a) :: B0), a0. split; [reflexivity|].
    intros x [<-|Hx]; [cbn [fst]; lia | specialize (H0 x Hx); lia].
Qed.
End SegFacts.

(* ================= after the sealing block ================= *)
Section PostX.
Variable cap : nat.
Variable pol : policy.
Variable K : N.
Hypothesis HK : K < 2 ^ 192.
Variable ep : N.                      (* the epoch that has been sealed *)
Variable lam : fev -> N.
Variable vals : list (N * N).         (* its validators *)
Variable nvs : list (N * N).          (* the validators of the next epoch, canonical *)
Hypothesis Hnvs : vals_ok nvs.
Hypothesis Hff0 : few_forkers nvs [].
Notation SimP := (Sim (ep + 1) lam nvs (fun _ => False) K).
Notation ae := (to_aevent ep lam vals).

Lemma post_state i : SimP i [] [] [] -> st_of (ep + 1) nvs [] = (0, ep + 1).
Proof.
  assert (HJ0 : forall a : N, False -> id_fresh K a) by (intros a []).
  intros HS. rewrite <- (Sim_state cap K HK (ep + 1) lam nvs Hnvs _ HJ0 i [] [] [] HS Hff0).
  destruct (Sim_ldf K HK (ep + 1) lam nvs _ HJ0 i [] [] [] HS) as [E1 E2]. rewrite E1, E2. reflexivity.
Qed.

Lemma post_skip i (b : bool) e : SimP i [] [] [] -> step cap pol sample i (if b then OpP (ae e) else OpB (ae e)) = (ObsSkip 2, i, false).
Proof.
  intros HS. destruct (skip_step cap pol (ep + 1) lam nvs (fun _ : N => False) K i [] [] [] (ae e) b HS) as [w [G E]].
  - unfold guard_in. cbn [ids_of map AbftRun.mem existsb to_aevent a_id a_epoch]. rewrite andb_false_r.
    replace (ep =? ep + 1) with false by (symmetry; apply N.eqb_neq; lia). discriminate.
  - unfold guard_in in G. cbn [ids_of map AbftRun.mem existsb to_aevent a_id a_epoch] in G. rewrite andb_false_r in G.
    replace (ep =? ep + 1) with false in G by (symmetry; apply N.eqb_neq; lia). cbn [negb] in G. inversion G; subst w. exact E.
Qed.

Lemma post_sim : forall sc i tn, SimP i [] [] [] -> post_in ep nvs sc tn ->
  l_ctr (i_st i) + N.of_nat (count_builds (xsched_ops ep lam vals sc tn)) <= K ->
  render_x sc tn (run cap pol sample i (xsched_ops ep lam vals sc tn)) = (post_x ep sc tn, []) /\
  SimP (run_inst cap pol sample i (xsched_ops ep lam vals sc tn)) [] [] [] /\
  l_ctr (i_st (run_inst cap pol sample i (xsched_ops ep lam vals sc tn))) <= l_ctr (i_st i) + N.of_nat (count_builds (xsched_ops ep lam vals sc tn)).
Proof.
  assert (HJ0 : forall a : N, False -> id_fresh K a) by (intros a []).
  induction sc as [|s sc IH]; intros i tn HS PI Hctr.
  - unfold xsched_ops in *. cbn [flat_map app post_in post_x render_x] in *.
    destruct (nl_x cap pol K HK (ep + 1) lam nvs Hnvs _ HJ0 [] [] [] Hff0 tn i [] HS PI Hctr) as [os [i' [ER [ERI [L [HS' [C' RN]]]]]]].
    rewrite app_nil_r in ER, ERI. cbn [run run_inst] in ER, ERI. rewrite app_nil_r in ER.
    rewrite ER, ERI, RN, (post_state i HS). auto.
  - cbn [post_in] in PI. destruct PI as (P1 & P2 & P3).
    set (e := x_ev s). set (rest := xsched_ops ep lam vals sc tn).
    assert (Eops : xsched_ops ep lam vals (s :: sc) tn =
                   x_pre s ++ ((if x_build s then [OpB (ae e)] else []) ++ (x_mid s ++ (OpP (ae e) :: rest)))).
    { unfold xsched_ops, xs_ops, rest. cbn [flat_map]. fold e. rewrite <- !app_assoc. reflexivity. }
    rewrite Eops in *.
    assert (CB : count_builds (x_pre s ++ ((if x_build s then [OpB (ae e)] else []) ++ (x_mid s ++ (OpP (ae e) :: rest)))) =
                 (count_builds (x_pre s) + ((if x_build s then 1 else 0) + (count_builds (x_mid s) + count_builds rest)))%nat).
    { rewrite !count_builds_app, count_builds_cons. cbn [is_build]. destruct (x_build s); reflexivity. }
    rewrite CB in *.
    destruct (nl_x cap pol K HK (ep + 1) lam nvs Hnvs _ HJ0 [] [] [] Hff0 (x_pre s) i ((if x_build s then [OpB (ae e)] else []) ++ (x_mid s ++ (OpP (ae e) :: rest))) HS P1 ltac:(lia)) as [os0 [i0 [R0 [RI0 [L0 [HS0 [C0 RN0]]]]]]].
    rewrite R0, RI0.
    assert (SB : exists bo : option AbftRun.obs,
               run cap pol sample i0 ((if x_build s then [OpB (ae e)] else []) ++ (x_mid s ++ (OpP (ae e) :: rest))) =
                 (match bo with Some b => [b] | None => [] end) ++ run cap pol sample i0 (x_mid s ++ (OpP (ae e) :: rest)) /\
               run_inst cap pol sample i0 ((if x_build s then [OpB (ae e)] else []) ++ (x_mid s ++ (OpP (ae e) :: rest))) =
                 run_inst cap pol sample i0 (x_mid s ++ (OpP (ae e) :: rest)) /\
               (if x_build s then bo <> None else bo = None)).
    { destruct (x_build s).
      - exists (Some (ObsSkip 2)). cbn [app run]. rewrite run_inst_cons, (post_skip i0 false e HS0). split; [reflexivity|]. split; [reflexivity | discriminate].
      - exists None. auto. }
    destruct SB as [bo [RB [RIB Hbo]]]. rewrite RB, RIB.
    destruct (nl_x cap pol K HK (ep + 1) lam nvs Hnvs _ HJ0 [] [] [] Hff0 (x_mid s) i0 (OpP (ae e) :: rest) HS0 P2 ltac:(lia)) as [os2 [i2 [R2 [RI2 [L2 [HS2 [C2 RN2]]]]]]].
    rewrite R2, RI2. cbn [run]. rewrite run_inst_cons, (post_skip i2 true e HS2).
    destruct (IH i2 tn HS2 P3 ltac:(fold rest; lia)) as (RX & HSX & CX). fold rest in RX, HSX, CX.
    rewrite (render_x_cons s sc tn os0 bo os2 (ObsSkip 2) _ L0 L2 Hbo), RX, RN0, RN2, (post_state i HS).
    cbn [fst snd ev_of blocks_of app post_x]. replace (2 =? 2) with true by reflexivity.
    split; [reflexivity|]. split; [exact HSX|]. destruct (x_build s); lia.
Qed.
End PostX.

(* ================= one epoch ================= *)
Section EpochX.
Variable cap : nat.
Variable pol : policy.
Variable K : N.
Hypothesis HK : K < 2 ^ 192.
Variable ep : N.
Variable lam : fev -> N.
Variable vals : list (N * N).
Hypothesis Hvals : vals_ok vals.
Variable sfr : N -> option (list (N * N)).     (* the policy in this epoch, validators as handed over *)
Notation sf := (fun f => policy_fn pol ep f 0 [] []).
Hypothesis Hsfr : forall f, policy_fn pol ep f 0 [] [] = option_map mk_vals (sfr f).
Hypothesis Hnext : forall f x, sfr f = Some x ->
  (forall c, v_exists (mk_vals x) c = v_exists x c) /\ vals_ok (mk_vals x) /\ few_forkers (mk_vals x) [] /\ (0 < length (mk_vals x))%nat.

Notation nv := (length vals).
Notation ae := (to_aevent ep lam vals).
Notation SimJ Jl := (Sim ep lam vals (fun a => In a Jl) K).

Lemma sf_none_iff f : policy_fn pol ep f 0 [] [] = None <-> sfr f = None.
Proof. rewrite Hsfr. destruct (sfr f); cbn [option_map]; split; intros H; [discriminate | discriminate | reflexivity | reflexivity]. Qed.

Lemma blocks_unsealed i T Dr B Jl : SimJ Jl i T Dr B -> (forall a, In a Jl -> id_fresh K a) -> few_forkers vals T ->
  NoSeal sf 0 (N.of_nat (length B)) -> unsealed ep vals pol T /\
  map (fun b => (b, None)) B = blocks_x vals sfr T (r_blocks vals T) /\ seal_of vals sfr T = None.
Proof.
  intros HS HJl Hff NS.
  assert (U : unsealed ep vals pol T).
  { apply (Sim_unsealed cap ep lam vals Hvals _ K pol i T Dr B HS Hff). rewrite (proj1 (Sim_ldf K HK ep lam vals _ HJl i T Dr B HS)). exact NS. }
  split; [exact U|]. split.
  - rewrite (final_blocks cap ep lam vals _ K Hvals i T Dr B HS Hff) at 1. unfold blocks_x. rewrite map_map. apply map_ext_in.
    intros b Hb. rewrite <- Hsfr. cbn beta. rewrite (U b Hb). reflexivity.
  - unfold seal_of. apply first_some_none. intros b Hb. apply sf_none_iff. apply (U b Hb).
Qed.

Theorem epoch_x : forall sc i T Dr B Jl tn,
  SimJ Jl i T Dr B -> (forall a, In a Jl -> id_fresh K a) ->
  (forall r, In r (snd (add_events vals T (map x_ev sc))) -> fst r < 3) ->
  (forall e, In e (map x_ev sc) -> (ecr (fe e) < nv)%nat) ->
  few_forkers vals (fst (add_events vals T (map x_ev sc))) ->
  ids_ok vals K T Jl (map x_ev sc) ->
  sched_in ep vals sfr T (ids_of Dr) sc tn ->
  l_ctr (i_st i) + N.of_nat (count_builds (xsched_ops ep lam vals sc tn)) <= K ->
  NoSeal sf 0 (N.of_nat (length B)) ->
  exists Bx, render_x sc tn (run cap pol sample i (xsched_ops ep lam vals sc tn)) = (fst (fst (ref_x ep vals sfr T sc tn)), Bx) /\
    map (fun b => (b, None)) B ++ Bx = snd (fst (ref_x ep vals sfr T sc tn)) /\
    l_ctr (i_st (run_inst cap pol sample i (xsched_ops ep lam vals sc tn))) <= l_ctr (i_st i) + N.of_nat (count_builds (xsched_ops ep lam vals sc tn)) /\
    match snd (ref_x ep vals sfr T sc tn) with
    | None => l_epoch (i_st (run_inst cap pol sample i (xsched_ops ep lam vals sc tn))) = ep
    | Some nvals => Sim (ep + 1) lam (mk_vals nvals) (fun _ => False) K (run_inst cap pol sample i (xsched_ops ep lam vals sc tn)) [] [] []
    end.
Proof.
  induction sc as [|s sc IH]; intros i T Dr B Jl tn HS HJl Hc Hcr Hff Hid Hin Hctr NS.
  - (* no event left: the tail noise *)
    cbn [map add_events fst snd] in Hff. unfold xsched_ops in *. cbn [flat_map app] in *. cbn [ref_x fst snd sched_in] in *.
    destruct (nl_x cap pol K HK ep lam vals Hvals _ HJl T Dr B Hff tn i [] HS Hin Hctr) as [os [i' [ER [ERI [L [HS' [C' RN]]]]]]].
    rewrite app_nil_r in ER, ERI. cbn [run run_inst] in ER, ERI. rewrite app_nil_r in ER.
    exists []. rewrite ER, ERI. cbn [render_x]. rewrite RN, app_nil_r. split; [reflexivity|].
    split; [apply (blocks_unsealed i T Dr B Jl HS HJl Hff NS)|]. split; [exact C'|].
    apply (Sim_ldf K HK ep lam vals _ HJl i' T Dr B HS').
  - set (e := x_ev s). set (rest := xsched_ops ep lam vals sc tn).
    cbn [map add_events] in Hc, Hcr, Hff, Hid. fold e in Hc, Hcr, Hff, Hid.
    destruct (add_event vals T e) as [T1 [c h]] eqn:AE.
    pose proof (add_event_incl vals T e) as Inc1. rewrite AE in Inc1. cbn [fst] in Inc1.
    pose proof (LinkRun.add_events_incl vals (map x_ev sc) T1) as Inc2.
    assert (Hc1 : c < 3).
    { destruct (add_events vals T1 (map x_ev sc)) as [T2 rs]. apply (Hc (c, h)). left. reflexivity. }
    assert (Hc' : forall r, In r (snd (add_events vals T1 (map x_ev sc))) -> fst r < 3).
    { destruct (add_events vals T1 (map x_ev sc)) as [T2 rs]. intros r Hr. apply Hc. right. exact Hr. }
    assert (Hff' : few_forkers vals (fst (add_events vals T1 (map x_ev sc)))).
    { destruct (add_events vals T1 (map x_ev sc)) as [T2 rs]. exact Hff. }
    clear Hc Hff.
    assert (Hff1 : few_forkers vals T1) by (eapply few_forkers_sub; [exact Inc2 | exact Hff']).
    assert (HffT : few_forkers vals T) by (eapply few_forkers_sub; [exact Inc1 | exact Hff1]).
    assert (CRe : (ecr (fe e) < nv)%nat) by (apply Hcr; left; reflexivity).
    cbn [ids_ok] in Hid. rewrite AE in Hid. destruct Hid as [Hfr Hid'].
    cbn [sched_in] in Hin. fold e in Hin. destruct Hin as (In1 & In2 & In3). rewrite AE in In3.
    destruct (blocks_unsealed i T Dr B Jl HS HJl HffT NS) as (UT & BT & ST0).
    pose proof (sm_wf _ _ _ _ _ _ _ _ _ HS) as W.
    (* shape of the operation list *)
    assert (Eops : xsched_ops ep lam vals (s :: sc) tn =
                   x_pre s ++ ((if x_build s then [OpB (ae e)] else []) ++ (x_mid s ++ (OpP (ae e) :: rest)))).
    { unfold xsched_ops, xs_ops, rest. cbn [flat_map]. fold e. rewrite <- !app_assoc. reflexivity. }
    rewrite Eops in *.
    assert (CB : count_builds (x_pre s ++ ((if x_build s then [OpB (ae e)] else []) ++ (x_mid s ++ (OpP (ae e) :: rest)))) =
                 (count_builds (x_pre s) + ((if x_build s then 1 else 0) + (count_builds (x_mid s) + count_builds rest)))%nat).
    { rewrite !count_builds_app, count_builds_cons. cbn [is_build]. destruct (x_build s); reflexivity. }
    rewrite CB in *.
    (* noise before the Build *)
    destruct (nl_x cap pol K HK ep lam vals Hvals _ HJl T Dr B HffT (x_pre s) i
                ((if x_build s then [OpB (ae e)] else []) ++ (x_mid s ++ (OpP (ae e) :: rest))) HS In1 ltac:(lia))
      as [os0 [i0 [R0 [RI0 [L0 [HS0 [C0 RN0]]]]]]].
    rewrite R0, RI0.
    (* the Build, if there is one *)
    assert (SB : exists (bo : option AbftRun.obs) i1,
               run cap pol sample i0 ((if x_build s then [OpB (ae e)] else []) ++ (x_mid s ++ (OpP (ae e) :: rest))) =
                 (match bo with Some b => [b] | None => [] end) ++ run cap pol sample i1 (x_mid s ++ (OpP (ae e) :: rest)) /\
               run_inst cap pol sample i0 ((if x_build s then [OpB (ae e)] else []) ++ (x_mid s ++ (OpP (ae e) :: rest))) =
                 run_inst cap pol sample i1 (x_mid s ++ (OpP (ae e) :: rest)) /\
               SimJ Jl i1 T Dr B /\ l_ctr (i_st i1) <= l_ctr (i_st i0) + (if x_build s then 1 else 0) /\
               (if x_build s then bo <> None else bo = None) /\
               (x_build s = true -> c < 2 -> bo = Some (ObsB (Ok h)))).
    { destruct (x_build s) eqn:XB.
      - assert (Hk1 : l_ctr (i_st i0) + 1 <= K) by lia.
        destruct (c <? 2) eqn:C2.
        + assert (PKs : parents_known T e /\ (ecr (fe e) < nv)%nat /\ ev_wf T e /\ nlookup (eid (fe e)) T = None /\
                        h = r_frame_high vals T (mk_node nv T e)).
          { assert (c = 0 \/ c = 1) as [-> | ->] by lia.
            - destruct (add_event_accept vals T e T1 h AE) as (_ & PK & NL & CR & EW & _). pose proof (add_event_high vals T e T1 h AE). auto.
            - destruct (add_event_rej vals T e T1 h AE) as (_ & PK & NL & CR & EW & _ & Eh). auto. }
          destruct PKs as (PK & CR & EW & NL & Eh).
          destruct (build_step_g cap pol ep lam vals Hvals K HK _ HJl i0 T Dr B e HS0 PK CR EW NL Hk1) as [i1 [EB [HS1 Ct1]]].
          exists (Some (ObsB (Ok h))), i1. cbn [app run]. rewrite run_inst_cons, EB, <- Eh.
          split; [reflexivity|]. split; [reflexivity|]. split; [exact HS1|]. split; [lia|]. split; [discriminate | auto].
        + destruct (noise_in_step cap pol ep lam vals Hvals _ K HJl HK i0 T Dr B (OpB (ae e)) HS0 HffT I (fun _ => Hk1)) as [ob [i1 [EB [HS1 Ct1]]]].
          exists (Some ob), i1. cbn [app run]. rewrite run_inst_cons, EB. cbn [is_build] in Ct1.
          split; [reflexivity|]. split; [reflexivity|]. split; [exact HS1|]. split; [lia|]. split; [discriminate|].
          intros _ Hlt. apply N.ltb_ge in C2. lia.
      - exists None, i0. cbn [app]. split; [reflexivity|]. split; [reflexivity|]. split; [exact HS0|]. split; [lia|]. split; [reflexivity | discriminate]. }
    destruct SB as [bo [i1 [RB [RIB [HS1 [C1 [Hbo Hbh]]]]]]]. rewrite RB, RIB.
    (* noise between the Build and the Process *)
    destruct (nl_x cap pol K HK ep lam vals Hvals _ HJl T Dr B HffT (x_mid s) i1 (OpP (ae e) :: rest) HS1 In2 ltac:(destruct (x_build s); lia))
      as [os2 [i2 [R2 [RI2 [L2 [HS2 [C2 RN2]]]]]]].
    rewrite R2, RI2. cbn [run]. rewrite run_inst_cons.
    pose proof (Sim_state cap K HK ep lam vals Hvals _ HJl i2 T Dr B HS2 HffT) as St2.
    assert (Cb2 : l_ctr (i_st i2) + N.of_nat (count_builds rest) <= K) by (destruct (x_build s); lia).
    assert (Cb2' : l_ctr (i_st i2) <= l_ctr (i_st i) + N.of_nat (count_builds (x_pre s) + ((if x_build s then 1 else 0) + count_builds (x_mid s)))) by (destruct (x_build s); lia).
    (* the Process *)
    assert (c = 0 \/ c = 1 \/ c = 2) as [-> | [-> | ->]] by lia.
    + (* accepted *)
      destruct (add_event_accept vals T e T1 h AE) as (-> & PK & NL & CR & EW & FO).
      destruct (Hfr ltac:(lia)) as [Fe Je].
      destruct (process_step_gen cap ep lam vals Hvals _ K pol sf (fun _ _ _ _ => eq_refl) i2 T Dr B e HS2 Fe Je PK NL CR EW FO Hff1)
        as [bl [i3 [L [EP [SGall [CHall [SL [(HS3 & Ct3 & Ep3 & EL & NS3)|(nv' & Lt & NS3 & Sf & Ei3)]]]]]]]].
      * (* the epoch goes on *)
        destruct (Sim_ldf K HK ep lam vals _ HJl i2 T Dr B HS2) as [Ld2 _].
        destruct (Sim_ldf K HK ep lam vals _ HJl i3 _ _ _ HS3) as [Ld3 _].
        assert (NS' : NoSeal sf 0 (N.of_nat (length (B ++ map blk_obs bl)))).
        { rewrite <- Ld3, <- EL. intros f Hf. destruct (N.le_gt_cases f (N.of_nat (length B))) as [Le|Gt]; [apply NS; lia | apply NS3; lia]. }
        destruct (blocks_unsealed i3 _ _ _ Jl HS3 HJl Hff1 NS') as (U1 & _ & ST1).
        rewrite ST1 in In3. cbn [N.eqb] in In3, Hid'.
        destruct (IH i3 (mk_node nv T e :: T) (e :: Dr) (B ++ map blk_obs bl) Jl tn HS3 HJl Hc' (fun e0 He0 => Hcr e0 (or_intror He0)) Hff' Hid' In3
                    ltac:(fold rest; lia) NS') as [Bx' [RX [BX [CX MX]]]].
        fold rest in RX, CX, MX.
        exists (map blk_of bl ++ Bx'). rewrite EP.
        rewrite (render_x_cons s sc tn os0 bo os2 _ _ L0 L2 Hbo), RX, RN0, RN2.
        rewrite (ref_x_cont ep vals sfr T s sc tn _ 0 h AE ST1). cbn [fst snd].
        assert (Hsl : forall b, In b bl -> b_seal b = None).
        { intros b Hb. rewrite (SL b Hb). apply NS'.
          assert (Hin : In (b_frame b, b_atropos b) (map fst (B ++ map blk_obs bl))).
          { apply in_map_iff. exists (blk_obs b). split; [reflexivity|]. apply in_or_app. right. apply in_map. exact Hb. }
          pose proof (Seg_frames vals _ _ _ _ _ _ SGall Hin) as Fr.
          destruct (seg_bound vals _ 0 _ _ SGall) as [EL' _]. rewrite map_length in EL'. lia. }
        split; [|split; [|split]].
        -- apply f_equal2; [|reflexivity]. do 2 apply f_equal. apply f_equal2; [|reflexivity]. cbn [ev_of code_of].
           rewrite (Sim_state cap K HK ep lam vals Hvals _ HJl i3 _ _ _ HS3 Hff1).
           replace (0 <? 2) with true by reflexivity. rewrite andb_true_r.
           destruct (x_build s) eqn:XB; [rewrite (Hbh eq_refl ltac:(lia)); reflexivity | reflexivity].
        -- rewrite <- BX. cbn [blocks_of]. rewrite map_app, <- !app_assoc. f_equal. f_equal.
           rewrite map_map. apply map_ext_in. intros b Hb. unfold blk_of. rewrite (Hsl b Hb). reflexivity.
        -- rewrite Ct3 in CX. lia.
        -- exact MX.
      * (* this event seals the epoch *)
        destruct (Sim_ldf K HK ep lam vals _ HJl i2 T Dr B HS2) as [Ld2 _].
        assert (Esf : exists raw, sfr L = Some raw /\ nv' = mk_vals raw).
        { cbn beta in Sf. rewrite Hsfr in Sf. destruct (sfr L) as [raw|]; [|discriminate]. exists raw. cbn in Sf. inversion Sf. auto. }
        destruct Esf as [raw [Sr ->]].
        destruct (Hnext L raw Sr) as (Vx & Vok & Ff0 & Hnv0).
        destruct (r_blocks_seg' vals _ _ _ SGall) as [rest0 ER0].
        destruct (Seg_snoc' vals _ 0 _ L SGall ltac:(lia)) as [B0f [a [EB0 HB0]]].
        assert (NS0 : NoSeal sf 0 (L - 1)).
        { intros f Hf. destruct (N.le_gt_cases f (N.of_nat (length B))) as [Le|Gt]; [apply NS; lia | apply NS3; lia]. }
        assert (ST1 : seal_of vals sfr (mk_node nv T e :: T) = Some raw).
        { unfold seal_of. rewrite ER0, EB0, <- app_assoc. cbn [app]. rewrite first_some_app; [cbn [fst]; rewrite Sr; reflexivity|].
          intros b Hb. apply sf_none_iff. apply NS0. apply HB0. exact Hb. }
        rewrite ST1 in In3.
        subst i3.
        set (i3 := {| i_st := sealed_state ep (mk_vals raw) (l_ctr (i_st i2)); i_es := aput (eid (fe e)) (ae e) (i_es i2); i_proc := [] |}) in *.
        assert (HSP : Sim (ep + 1) lam (mk_vals raw) (fun _ => False) K i3 [] [] []).
        { apply (Sim_fresh (ep + 1) lam (mk_vals raw) Vok (fun _ => False) K (fun a (F : False) => match F with end) [] (l_ctr (i_st i2))); [lia | exact Hnv0]. }
        assert (PI : post_in ep (mk_vals raw) sc tn).
        { clear - In3 Vx. revert In3. generalize sc. induction sc0 as [|s0 sc0 IHs]; cbn [post_in].
          - apply Forall_impl. intros o. apply noise_in_vals. intros c0. symmetry. apply Vx.
          - intros (A1 & A2 & A3). split; [|split; [|apply IHs; exact A3]].
            + revert A1. apply Forall_impl. intros o. apply noise_in_vals. intros c0. symmetry. apply Vx.
            + revert A2. apply Forall_impl. intros o. apply noise_in_vals. intros c0. symmetry. apply Vx. }
        destruct (post_sim cap pol K HK ep lam vals (mk_vals raw) Vok Ff0 sc i3 tn HSP PI ltac:(fold rest; unfold i3; cbn [i_st sealed_state l_ctr]; lia))
          as (RP & HSX & CP). fold rest in RP, HSX, CP.
        exists (map blk_of bl). rewrite EP.
        rewrite (render_x_cons s sc tn os0 bo os2 _ _ L0 L2 Hbo), RP, RN0, RN2.
        rewrite (ref_x_seal ep vals sfr T s sc tn _ 0 h raw AE ST1). cbn [fst snd].
        split; [|split; [|split]].
        -- apply f_equal2; [|cbn [blocks_of]; rewrite app_nil_r; reflexivity]. do 2 apply f_equal. apply f_equal2; [|reflexivity]. cbn [ev_of code_of]. unfold i3. cbn [i_st sealed_state l_ldf l_epoch].
           replace (0 <? 2) with true by reflexivity. rewrite andb_true_r.
           destruct (x_build s) eqn:XB; [rewrite (Hbh eq_refl ltac:(lia)); reflexivity | reflexivity].
        -- assert (Ecut : cut_seal sfr (r_blocks vals (mk_node nv T e :: T)) = map fst (B ++ map blk_obs bl)).
           { rewrite ER0, EB0, <- app_assoc. cbn [app]. clear - HB0 NS0 Sr Hsfr. induction B0f as [|b0 t IHt]; cbn [app cut_seal].
             - cbn [fst]. rewrite Sr. reflexivity.
             - replace (sfr (fst b0)) with (@None (list (N * N))).
               + f_equal. apply IHt. intros x Hx. apply HB0. right. exact Hx.
               + symmetry. apply sf_none_iff. apply NS0. apply HB0. left. reflexivity. }
           rewrite Ecut. unfold blocks_x. rewrite map_map.
           assert (EBm : map (fun b => (b, @None Abft.vals)) B = map (fun o => (o, option_map mk_vals (sfr (fst (fst o))))) B).
           { apply map_ext_in. intros o Ho. f_equal. rewrite <- Hsfr. symmetry. apply NS.
             assert (Hin : In (fst (fst o), snd (fst o)) (map fst (B ++ map blk_obs bl))).
             { apply in_map_iff. exists o. split; [destruct o as [[? ?] ?]; reflexivity | apply in_or_app; left; exact Ho]. }
             pose proof (sm_seg _ _ _ _ _ _ _ _ _ HS2) as SG2.
             assert (Hin2 : In (fst (fst o), snd (fst o)) (map fst B)) by (apply in_map_iff; exists o; split; [destruct o as [[? ?] ?]; reflexivity | exact Ho]).
             pose proof (Seg_frames vals _ _ _ _ _ _ SG2 Hin2). lia. }
           assert (EBl : map blk_of bl = map (fun o => (o, option_map mk_vals (sfr (fst (fst o))))) (map blk_obs bl)).
           { rewrite map_map. apply map_ext_in. intros b Hb. unfold blk_of. rewrite (SL b Hb), <- Hsfr. reflexivity. }
           rewrite EBm, EBl, <- map_app. apply map_ext_in. intros o Ho. pose proof (CHall o Ho) as Ec. destruct o as [[f0 a0] ch0]. cbn [fst snd] in *. rewrite <- Ec. reflexivity.
        -- unfold i3 in CP at 2. cbn [i_st sealed_state l_ctr] in CP. lia.
        -- exact HSX.
    + (* rejected for its frame *)
      destruct (add_event_rej vals T e T1 h AE) as (-> & PK & NL & CR & EW & FO & Eh).
      destruct (Hfr ltac:(lia)) as [Fe Je].
      destruct (reject_step cap pol ep lam vals Hvals K HK _ HJl i2 T Dr B e HS2 HffT PK NL CR EW FO Fe Je) as [i3 [EP [HS3 Ct3]]].
      assert (HJl' : forall a, In a (eid (fe e) :: Jl) -> id_fresh K a) by (intros a [<-|Ha]; [exact Fe | apply HJl; exact Ha]).
      assert (HS3' : SimJ (eid (fe e) :: Jl) i3 T Dr B).
      { apply (Sim_J_mono ep lam vals K (fun a : N => In a Jl \/ a = eid (fe e)) (fun a => In a (eid (fe e) :: Jl)) i3 T Dr B); [| |exact HS3].
        - intros a [Ha| ->]; [right; exact Ha | left; reflexivity].
        - intros e0 He0 [Ea|Ha].
          + apply (proj2 (sm_fresh _ _ _ _ _ _ _ _ _ HS3 e0 He0)). right. symmetry. exact Ea.
          + apply (proj2 (sm_fresh _ _ _ _ _ _ _ _ _ HS3 e0 He0)). left. exact Ha. }
      rewrite ST0 in In3. cbn [N.eqb Pos.eqb] in In3, Hid'.
      destruct (IH i3 T Dr B (eid (fe e) :: Jl) tn HS3' HJl' Hc' (fun e0 He0 => Hcr e0 (or_intror He0)) Hff' Hid' In3
                  ltac:(fold rest; lia) NS) as [Bx' [RX [BX [CX MX]]]].
      fold rest in RX, CX, MX.
      exists Bx'. rewrite EP.
      rewrite (render_x_cons s sc tn os0 bo os2 _ _ L0 L2 Hbo), RX, RN0, RN2.
      rewrite (ref_x_cont ep vals sfr T s sc tn _ 1 h AE ST0). cbn [fst snd].
      split; [|split; [|split]].
      * apply f_equal2; [|reflexivity]. do 2 apply f_equal. apply f_equal2; [|reflexivity]. cbn [ev_of code_of]. rewrite St2.
        replace (1 <? 2) with true by reflexivity. rewrite andb_true_r.
        destruct (x_build s) eqn:XB; [rewrite (Hbh eq_refl ltac:(lia)); reflexivity | reflexivity].
      * cbn [blocks_of map app]. exact BX.
      * lia.
      * exact MX.
    + (* not offered *)
      pose proof (add_event_keep vals T e T1 2 h AE ltac:(lia)) as ->.
      assert (C2e : fst (snd (add_event vals T e)) = 2) by (rewrite AE; reflexivity).
      destruct (code2_guard ep lam vals (fun a => In a Jl) K HJl HK T Dr e W C2e CRe) as [w [G Nw]].
      destruct (skip_step cap pol ep lam vals _ K i2 T Dr B (ae e) true HS2 ltac:(rewrite G; discriminate)) as [w' [G' EP]].
      rewrite G in G'. inversion G'; subst w'. cbn iota in EP.
      rewrite ST0 in In3. cbn [N.eqb Pos.eqb] in In3, Hid'.
      destruct (IH i2 T Dr B Jl tn HS2 HJl Hc' (fun e0 He0 => Hcr e0 (or_intror He0)) Hff' Hid' In3 ltac:(fold rest; lia) NS) as [Bx' [RX [BX [CX MX]]]].
      fold rest in RX, CX, MX.
      exists Bx'. rewrite EP.
      rewrite (render_x_cons s sc tn os0 bo os2 _ _ L0 L2 Hbo), RX, RN0, RN2.
      rewrite (ref_x_cont ep vals sfr T s sc tn _ 2 h AE ST0). cbn [fst snd].
      split; [|split; [|split]].
      * apply f_equal2; [|reflexivity]. do 2 apply f_equal. apply f_equal2; [|reflexivity]. cbn [ev_of].
        replace (w =? 2) with false by (symmetry; apply N.eqb_neq; exact Nw).
        replace (2 <? 2) with false by reflexivity. rewrite andb_false_r. reflexivity.
      * cbn [blocks_of app]. exact BX.
      * lia.
      * exact MX.
Qed.
End EpochX.
