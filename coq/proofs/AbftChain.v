(* The blocks emitted by one call as a chain of onFrameDecided steps, and what the chain
   delivers (C02): each block hands over exactly the not yet confirmed ancestry of its Atropos. *)
From Coq Require Import NArith ZArith List Lia Bool ZifyBool ZifyN ZifyNat.
From LV Require Import model.VecIndex model.Abft proofs.AbftStruct proofs.AbftSeal proofs.AbftDfs
  proofs.AbftBuild proofs.AbftProcess.
Import ListNotations.
Local Open Scope N_scope.

Section Chain.
Variable cap : nat.
Variable end_block : N -> N -> N -> list N -> list N -> option vals.
Variable es : estore.

(* same as same_core but the roots may differ (Process registers roots before the election) *)
Definition same_conf (st st' : lstate) : Prop := l_conf st' = l_conf st.

Inductive chain : lstate -> list block -> lstate -> Prop :=
| chain_nil st st' : same_conf st st' -> chain st [] st'
| chain_seal st st1 f a b st2 : same_conf st st1 -> f <> 0 ->
    on_frame_decided end_block es st1 f a = (Ok (true, b), st2) -> chain st [b] st2
| chain_cons st st1 f a b st2 t st' : same_conf st st1 -> f <> 0 ->
    on_frame_decided end_block es st1 f a = (Ok (false, b), st2) -> chain st2 t st' -> chain st (b :: t) st'.

Lemma core_conf st st' : same_core st st' -> same_conf st st'.
Proof. intros (A1&A2&A3&A4&A5&A6&A7&A8&A9). exact A5. Qed.
Lemma chain_head st0 st bl st' : same_conf st0 st -> chain st bl st' -> chain st0 bl st'.
Proof.
  intros S C. destruct C as [st st' H | st st1 f a b st2 H Hf OF | st st1 f a b st2 t st' H Hf OF C].
  - apply chain_nil. unfold same_conf in *. rewrite H. exact S.
  - eapply chain_seal; [|exact Hf|exact OF]. unfold same_conf in *. rewrite H. exact S.
  - eapply chain_cons; [|exact Hf|exact OF|exact C]. unfold same_conf in *. rewrite H. exact S.
Qed.
Lemma chain_app st bl1 st1 bl2 st2 :
  chain st bl1 st1 -> existsb is_sealed bl1 = false -> chain st1 bl2 st2 -> chain st (bl1 ++ bl2) st2.
Proof.
  intros C. revert bl2 st2. induction C; intros bl2 st3 S C2; cbn [app].
  - eapply chain_head; eauto.
  - apply seal_state in H1 as [nv [Sb _]]. cbn in S. unfold is_sealed in S. rewrite Sb in S. discriminate.
  - cbn [existsb] in S. apply orb_false_iff in S as [_ S]. eapply chain_cons; eauto.
Qed.

Lemma bootstrap_election_chain : forall fuel st r bl st',
  elinv st -> bootstrap_election cap end_block fuel es st [] = (r, bl, st') -> chain st bl st'.
Proof.
  induction fuel as [|fu IH]; intros st r bl st' I E; cbn [bootstrap_election] in E.
  - inversion E; subst. apply chain_nil. reflexivity.
  - destruct (process_known_roots_core cap (roots_fuel st) st (l_ldf st + 1)) as [SC DF].
    destruct (process_known_roots cap (roots_fuel st) st (l_ldf st + 1)) as [[[[df atr]|]|x] st1]; cbn [fst snd] in *.
    + specialize (DF _ _ eq_refl). pose proof (elinv_core _ _ SC I) as I1.
      assert (Hdf : df <> 0) by (unfold elinv in I; lia).
      destruct (on_frame_decided end_block es st1 df atr) as [[[sealed blk]|x] st2] eqn:OF.
      * destruct sealed.
        -- inversion E; subst. eapply chain_seal; eauto. apply core_conf; auto.
        -- rewrite bootstrap_election_app in E.
           destruct (bootstrap_election cap end_block fu es st2 []) as [[r2 new] st3] eqn:E2.
           inversion E; subst r bl st'. cbn [app].
           pose proof OF as OF'. apply no_seal_state in OF' as (S&Bf&Ba&L&El&Ep&V&R&X&Fc&C).
           assert (I2 : elinv st2) by (unfold elinv; rewrite El, L; cbn; lia).
           eapply chain_cons; eauto. apply core_conf; auto.
      * inversion E; subst. apply on_frame_decided_err in OF. subst. apply chain_nil, core_conf; auto.
    + inversion E; subst. apply chain_nil, core_conf; auto.
    + inversion E; subst. apply chain_nil, core_conf; auto.
Qed.

Lemma handle_election_chain e : forall fuel st f r bl st',
  elinv st -> handle_election cap end_block fuel es st e f [] = (r, bl, st') -> chain st bl st'.
Proof.
  induction fuel as [|fu IH]; intros st f r bl st' I E; cbn [handle_election] in E.
  - inversion E; subst. apply chain_nil. reflexivity.
  - destruct (a_frame e <? f).
    { inversion E; subst. apply chain_nil. reflexivity. }
    destruct (process_root_core cap st (f, a_creator e, a_id e)) as [SC DF].
    destruct (process_root cap st (f, a_creator e, a_id e)) as [[[[df atr]|]|x] st1]; cbn [fst snd] in *.
    + specialize (DF _ _ eq_refl). pose proof (elinv_core _ _ SC I) as I1.
      assert (Hdf : df <> 0) by (unfold elinv in I; lia).
      destruct (on_frame_decided end_block es st1 df atr) as [[[sealed blk]|x] st2] eqn:OF.
      * destruct sealed.
        -- inversion E; subst. eapply chain_seal; eauto. apply core_conf; auto.
        -- pose proof OF as OF'. apply no_seal_state in OF' as (S&Bf&Ba&L&El&Ep&V&R&X&Fc&C).
           assert (I2 : elinv st2) by (unfold elinv; rewrite El, L; cbn; lia).
           rewrite bootstrap_election_app in E.
           destruct (bootstrap_election cap end_block (roots_fuel st2) es st2 []) as [[r2 new] st3] eqn:E2.
           pose proof (bootstrap_election_chain _ _ _ _ _ I2 E2) as C2.
           destruct (bootstrap_election_post cap end_block es _ _ _ _ _ I2 E2) as [[F2 [I3 P2]] [Q1 Q2]].
           cbn [app] in E.
           destruct r2 as [s2|x].
           ++ destruct s2.
              ** inversion E; subst. eapply chain_cons; eauto. apply core_conf; auto.
              ** rewrite handle_election_app in E.
                 destruct (handle_election cap end_block fu es st3 e (f + 1) []) as [[r3 new3] st4] eqn:E3.
                 inversion E; subst r bl st'.
                 eapply chain_cons; eauto; [apply core_conf; auto|].
                 eapply chain_app; [exact C2 | exact (Q2 eq_refl) | eapply IH; eauto].
           ++ inversion E; subst. eapply chain_cons; eauto. apply core_conf; auto.
      * inversion E; subst. apply on_frame_decided_err in OF. subst. apply chain_nil, core_conf; auto.
    + eapply chain_head; [apply core_conf; exact SC|]. eapply IH; [|exact E]. eapply elinv_core; eauto.
    + inversion E; subst. apply chain_nil, core_conf; auto.
Qed.

(* ---------- what a chain delivers ---------- *)
Theorem apply_atropos_delivers st f atr blk st1 :
  closed es (l_conf st) -> f <> 0 -> apply_atropos end_block es st f atr = (Ok blk, st1) ->
  NoDup (b_delivered blk) /\
  (forall x, In x (b_delivered blk) <-> reach es atr x /\ ~ marked (l_conf st) x) /\
  (forall x, marked (l_conf st1) x <-> marked (l_conf st) x \/ In x (b_delivered blk)) /\
  closed es (l_conf st1) /\ b_atropos blk = atr /\ b_frame blk = f.
Proof.
  intros Hc Hf E. unfold apply_atropos in E.
  destruct (dfs_confirm (confirm_fuel es) es f [atr] (l_conf st) []) as [[dl conf']|x] eqn:D; [|discriminate].
  inversion E; subst. cbn [b_delivered b_atropos b_frame l_conf set_conf].
  destruct (dfs_confirm_spec es f Hf (l_conf st) Hc atr _ _ _ D) as [ND [IN [CF CL]]].
  split; [exact ND|]. split; [|split; [|split; [exact CL | split; reflexivity]]].
  - intros x. rewrite IN. unfold marked. split; intros [R Z]; split; auto. destruct (N.eq_dec (conf_get (l_conf st) x) 0); auto. elim Z; auto.
  - intros x. unfold marked. rewrite CF. destruct (in_dec N.eq_dec x dl) as [Hin|Hout].
    + split; auto.
    + split; [auto | intros [H|H]; [exact H | elim (Hout H)]].
Qed.

(* delivered_ok M bl: every block delivers, without repetition, exactly the ancestors-or-self of its
   Atropos that are not in M nor delivered by an earlier block of the list *)
Fixpoint delivered_ok (M : N -> Prop) (bl : list block) : Prop :=
  match bl with
  | [] => True
  | b :: t => NoDup (b_delivered b) /\
              (forall x, In x (b_delivered b) <-> reach es (b_atropos b) x /\ ~ M x) /\
              delivered_ok (fun x => M x \/ In x (b_delivered b)) t
  end.
Lemma delivered_ok_ext M M' bl : (forall x, M x <-> M' x) -> delivered_ok M bl -> delivered_ok M' bl.
Proof.
  revert M M'. induction bl as [|b t IH]; intros M M' H D; cbn [delivered_ok] in *; auto.
  destruct D as [ND [IN D]]. split; [exact ND|]. split.
  - intros x. rewrite IN, H. reflexivity.
  - eapply IH; [|exact D]. intros x. cbn. rewrite H. reflexivity.
Qed.

Theorem chain_delivers st bl st' : chain st bl st' -> closed es (l_conf st) ->
  delivered_ok (marked (l_conf st)) bl /\
  (existsb is_sealed bl = false ->
     closed es (l_conf st') /\
     forall x, marked (l_conf st') x <-> marked (l_conf st) x \/ exists b, In b bl /\ In x (b_delivered b)).
Proof.
  intros C. induction C as [st st' S | st st1 f a b st2 S Hf OF | st st1 f a b st2 t st' S Hf OF C IH]; intros Hc.
  - unfold same_conf in S. cbn. split; auto. intros _. rewrite S. split; auto.
    intros x. split; [auto | intros [H|[b [[] _]]]; auto].
  - unfold same_conf in S. unfold on_frame_decided in OF.
    destruct (apply_atropos end_block es st1 f a) as [[blk|x] st1'] eqn:AA; [|discriminate].
    rewrite <- S in Hc.
    destruct (apply_atropos_delivers _ _ _ _ _ Hc Hf AA) as (ND&IN&MK&CL&BA&BF).
    destruct (b_seal blk) eqn:Sb; inversion OF; subst. rewrite S in *.
    cbn [delivered_ok]. split; [split; [exact ND | split; [exact IN | exact I]]|].
    cbn. unfold is_sealed. rewrite Sb. discriminate.
  - unfold same_conf in S. pose proof OF as OF'. unfold on_frame_decided in OF.
    destruct (apply_atropos end_block es st1 f a) as [[blk|x] st1'] eqn:AA; [|discriminate].
    rewrite <- S in Hc.
    destruct (apply_atropos_delivers _ _ _ _ _ Hc Hf AA) as (ND&IN&MK&CL&BA&BF).
    destruct (b_seal blk) eqn:Sb; inversion OF; subst b st2. cbn [l_conf] in *. rewrite S in *.
    specialize (IH CL). destruct IH as [D2 P2].
    cbn [delivered_ok]. rewrite BA. split; [split; [exact ND | split; [exact IN|]]|].
    + eapply delivered_ok_ext; [|exact D2]. intros x. cbn. apply MK.
    + cbn [existsb]. unfold is_sealed at 1. rewrite Sb. cbn [orb]. intros NS. destruct (P2 NS) as [CL' MK'].
      split; [exact CL'|]. intros x. rewrite MK', MK. split.
      * intros [[H|H]|[b' [Hb Hx]]]; auto; right; [exists blk | exists b']; split; auto; [left; reflexivity | right; exact Hb].
      * intros [H|[b' [[<-|Hb] Hx]]]; auto. right. exists b'. auto.
Qed.

(* Process: the blocks of the call deliver, in turn, exactly the unconfirmed ancestry of their Atropos *)
Theorem process_delivers st e r bl st' :
  elinv st -> closed es (l_conf st) -> process cap end_block es st e = (r, bl, st') ->
  delivered_ok (marked (l_conf st)) bl /\
  (existsb is_sealed bl = false ->
     closed es (l_conf st') /\
     forall x, marked (l_conf st') x <-> marked (l_conf st) x \/ exists b, In b bl /\ In x (b_delivered b)).
Proof.
  intros I Hc E.
  assert (Triv : forall st0, l_conf st0 = l_conf st -> delivered_ok (marked (l_conf st)) [] /\
     (existsb is_sealed [] = false -> closed es (l_conf st0) /\
      forall x, marked (l_conf st0) x <-> marked (l_conf st) x \/ exists b, In b [] /\ In x (b_delivered b))).
  { intros st0 H. cbn. split; auto. intros _. rewrite H. split; auto. intros x. split; [auto | intros [A|[b [[] _]]]; auto]. }
  unfold process in E.
  destruct (add (l_idx st) (vev (l_vals st) e)) as [s'|].
  2:{ inversion E; subst. apply Triv. reflexivity. }
  destruct (calc_frame_keys cap es (set_idx st s') e true) as [c1 [S1 _]].
  destruct (calc_frame cap es (set_idx st s') e true) as [[[spf fr]|x] st1]; cbn [snd] in S1; subst st1.
  - destruct (negb (a_frame e =? fr)).
    { inversion E; subst. apply Triv. reflexivity. }
    set (st2 := if spf =? fr then set_fcc (set_idx st s') c1 else add_roots (set_fcc (set_idx st s') c1) spf e) in *.
    assert (H2 : l_ldf st2 = l_ldf st /\ l_el st2 = l_el st /\ l_conf st2 = l_conf st).
    { unfold st2. destruct (spf =? fr); cbn; auto. }
    destruct H2 as (L2&El2&C2).
    assert (I2 : elinv st2) by (unfold elinv in *; congruence).
    destruct (handle_election cap end_block (S (S (N.to_nat (a_frame e - spf)))) es st2 e (spf + 1) []) as [[r2 bl2] st3] eqn:HE.
    pose proof (handle_election_chain e _ _ _ _ _ _ I2 HE) as CH.
    assert (bl = bl2 /\ st' = st3) as [-> ->] by (destruct r2; inversion E; auto).
    rewrite <- C2. apply chain_delivers; auto. rewrite C2. exact Hc.
  - inversion E; subst. apply Triv. reflexivity.
Qed.

End Chain.
