(* C02 through L1: what a block delivers, at the level of the reference's graph.
   abft proves (proofs/AbftChain.v process_delivers) that the blocks of a Process call deliver, in turn and
   without repetition, exactly the events REACHABLE FROM THE ATROPOS THROUGH THE EVENT STORE that are not yet
   confirmed.  On the states of the refinement (LinkStep.Sim) the event store is the reference's event set, so
   "reachable through the event store" is the reference's ancestry nd_anc of the Atropos' node
   (reach_es_anc), and the blocks of the Process of an accepted event deliver exactly

        anc*(Atropos)  minus  what is confirmed already  (minus what the earlier blocks of the call delivered).

   The hypothesis K i (confirmed marks are ancestor-closed and only processed events are marked) is abft's
   run invariant (C02_confirmed_closed_on_every_run). *)
From Coq Require Import NArith ZArith List Lia Bool ZifyBool ZifyN ZifyNat.
From LV Require Import lib.Bytes lib.VecListFacts model.Codec model.VecIndex spec.FcSpec model.Abft model.AbftRun spec.ElectionSpec
  proofs.FcSpecFacts proofs.AbftDfs proofs.AbftSeal proofs.AbftChain proofs.AbftInvStep proofs.AbftClosedInv
  proofs.BftCore proofs.BftGraph proofs.BftMain proofs.BftRun proofs.BftFcSpec proofs.BftAccept
  proofs.LinkVals proofs.LinkDefs proofs.LinkSim proofs.LinkVote proofs.LinkElect proofs.LinkStep.
Import ListNotations.
Local Open Scope N_scope.

Lemma alookup_E_of Dr : forall y ev, alookup y (E_of Dr) = Some ev -> exists e, In e Dr /\ eid (fe e) = y /\ fe e = ev.
Proof.
  induction Dr as [|e Dr IH]; intros y ev H; cbn [E_of map alookup] in H; [discriminate|]. fold (E_of Dr) in H.
  destruct (y =? eid (fe e)) eqn:E.
  - apply N.eqb_eq in E. exists e. split; [left; reflexivity|]. split; [symmetry; exact E | inversion H; reflexivity].
  - destruct (IH y ev H) as [e0 [H0 H1]]. exists e0. split; [right; exact H0 | exact H1].
Qed.

Lemma areach_trans es a b c : AbftDfs.reach es a b -> AbftDfs.reach es b c -> AbftDfs.reach es a c.
Proof. intros H1 H2. induction H2 as [|y ev p R IH G P]; [exact H1|]. eapply AbftDfs.reach_step; eauto. Qed.

Section Bridge.
Variable ep : N.
Variable lam : fev -> N.
Variable vals : list (N * N).
Notation ae := (to_aevent ep lam vals).

Lemma reach_es_fc T Dr es : wfTD vals T Dr -> (forall e, In e Dr -> get_event es (eid (fe e)) = Some (ae e)) ->
  forall a0 x, (exists ev0, alookup a0 (E_of Dr) = Some ev0) ->
  (AbftDfs.reach es a0 x <-> FcSpecFacts.reach (E_of Dr) a0 x).
Proof.
  intros W Hes a0 x [ev0 H0]. split.
  - intros R. induction R as [|y ev p R IH G P].
    + eapply FcSpecFacts.reach_refl. exact H0.
    + destruct (reach_in_r _ _ _ IH) as [evy Hy].
      destruct (alookup_E_of Dr y evy Hy) as [ey [Iy [Ey Fy]]].
      rewrite <- Ey, (Hes ey Iy) in G. inversion G; subst ev. cbn [to_aevent a_parents] in P. rewrite Fy in P.
      destruct (link_closed vals T Dr W y evy p Hy P) as [evp Hp].
      eapply reach_trans; [exact IH|]. eapply FcSpecFacts.reach_step; [exact Hy | exact P|]. eapply FcSpecFacts.reach_refl. exact Hp.
  - intros R. clear H0 ev0. induction R as [x e Hx|x e p y Hx Hp R IH].
    + apply AbftDfs.reach_refl.
    + destruct (alookup_E_of Dr x e Hx) as [ex [Ix [Ex Fx]]].
      eapply areach_trans; [|exact IH].
      eapply AbftDfs.reach_step; [apply AbftDfs.reach_refl | rewrite <- Ex; apply (Hes ex Ix) |]. cbn [to_aevent a_parents]. rewrite Fx. exact Hp.
Qed.

(* reachability through the event store = the reference's ancestry *)
Lemma reach_es_anc T Dr es : wfTD vals T Dr -> (forall e, In e Dr -> get_event es (eid (fe e)) = Some (ae e)) ->
  forall a x, In a T -> (AbftDfs.reach es (nd_id a) x <-> In x (nd_anc a)).
Proof.
  intros W Hes a x Ha. rewrite (anc_reach vals T Dr W a x Ha). apply (reach_es_fc T Dr es W Hes).
  destruct (link_node vals T Dr a W Ha) as [ev [Hev _]]. exists ev. exact Hev.
Qed.
End Bridge.

(* delivered_graph T M bl: every block delivers, without repetition, exactly the ancestors-or-self (in the
   reference's table T) of its Atropos that are not in M nor delivered by an earlier block of the list *)
Fixpoint delivered_graph (T : list node) (M : N -> Prop) (bl : list block) : Prop :=
  match bl with
  | [] => True
  | b :: t => NoDup (b_delivered b) /\
              (exists a, In a T /\ nd_id a = b_atropos b /\ forall x, In x (b_delivered b) <-> In x (nd_anc a) /\ ~ M x) /\
              delivered_graph T (fun x => M x \/ In x (b_delivered b)) t
  end.

Lemma delivered_ok_graph ep lam vals T Dr es : wfTD vals T Dr ->
  (forall e, In e Dr -> get_event es (eid (fe e)) = Some (to_aevent ep lam vals e)) ->
  forall bl M, (forall b, In b bl -> exists a, In a T /\ nd_id a = b_atropos b) ->
  delivered_ok es M bl -> delivered_graph T M bl.
Proof.
  intros W Hes. induction bl as [|b t IH]; intros M Ha D; cbn [delivered_ok delivered_graph] in *; [exact I|].
  destruct D as [ND [IN D]]. split; [exact ND|]. split.
  - destruct (Ha b (or_introl eq_refl)) as [a [Ia Ea]]. exists a. split; [exact Ia|]. split; [exact Ea|].
    intros x. rewrite IN, <- Ea. rewrite (reach_es_anc ep lam vals T Dr es W Hes a x Ia). reflexivity.
  - apply IH; [intros b0 Hb0; apply Ha; right; exact Hb0 | exact D].
Qed.

(* ================= the Process of an accepted event ================= *)
Section Deliver.
Variable cap : nat.
Variable ep : N.
Variable lam : fev -> N.
Variable vals : list (N * N).
Hypothesis Hvals : vals_ok vals.
Variable J : N -> Prop.
Variable K : N.
Variable pol : policy.
Notation sf := (fun f => policy_fn pol ep f 0 [] []).
Notation nv := (length vals).
Notation ae := (to_aevent ep lam vals).

Theorem deliver_step i T Dr B e : Sim ep lam vals J K i T Dr B -> AbftClosedInv.K i ->
  id_fresh K (eid (fe e)) -> ~ J (eid (fe e)) ->
  parents_known T e -> nlookup (eid (fe e)) T = None -> (ecr (fe e) < nv)%nat -> ev_wf T e ->
  r_frame_ok vals T (mk_node nv T e) = true -> few_forkers vals (mk_node nv T e :: T) ->
  exists bl i' ldf ep', step cap pol sample i (OpP (ae e)) = (ObsP None bl ldf ep', i', false) /\
    delivered_graph (mk_node nv T e :: T) (marked (l_conf (i_st i))) bl /\
    (existsb is_sealed bl = false ->
       forall x, marked (l_conf (i_st i')) x <-> marked (l_conf (i_st i)) x \/ exists b, In b bl /\ In x (b_delivered b)) /\
    (forall b, In b bl -> b_seal b = sf (b_frame b)).
Proof.
  intros HS [Kc Km] Fe Je PK NL CR EW FO Hff.
  destruct (process_step_gen cap ep lam vals Hvals J K pol sf (fun _ _ _ _ => eq_refl) i T Dr B e HS Fe Je PK NL CR EW FO Hff)
    as [bl [i' [L [EP [SGall [CHall [SL _]]]]]]].
  exists bl, i', (l_ldf (i_st i')), (l_epoch (i_st i')). split; [exact EP|].
  pose proof HS as [W [S [[C CI I0 N0] AV]] FR CT PR SG CH].
  assert (W' : wfTD vals (mk_node nv T e :: T) (e :: Dr)) by (constructor; assumption).
  assert (Hnotin : ~ In (eid (fe e)) (ids_of Dr)).
  { intros Hin. destruct (in_ids_lookup vals T Dr _ W Hin) as [m Lm]. congruence. }
  (* the Process call behind the step *)
  cbn [step] in EP. destruct (guard i (ae e) true) as [w|] eqn:G; [discriminate|].
  set (es1 := aput (a_id (ae e)) (ae e) (i_es i)) in *.
  destruct (process cap (policy_fn pol) es1 (i_st i) (ae e)) as [[r bl0] st'] eqn:PE.
  destruct r as [u|x]; [|discriminate].
  assert (bl0 = bl) by (inversion EP; reflexivity). subst bl0.
  assert (Ec' : l_conf (i_st i') = l_conf st') by (inversion EP; reflexivity).
  (* the event store holds the reference's events *)
  assert (Hes1 : forall e0, In e0 (e :: Dr) -> get_event es1 (eid (fe e0)) = Some (ae e0)).
  { intros e0 [<-|He0]; unfold es1, get_event; cbn [to_aevent a_id].
    - apply alookup_aput_eq.
    - rewrite alookup_aput_neq.
      + apply (co_es _ _ _ _ _ _ _ _ C); [exact He0|]. destruct (event_node vals T Dr e0 W He0) as [m [Hm [Em _]]]. exists m. auto.
      + intros E0. apply Hnotin. rewrite <- E0. unfold ids_of. apply in_map_iff. exists e0. auto. }
  (* the marks are closed in the extended store: the new event is not marked *)
  assert (Kc1 : closed es1 (l_conf (i_st i))).
  { intros w0 ev p Mw Gw Pp. destruct (N.eq_dec w0 (eid (fe e))) as [->|Nw].
    - exfalso. apply Hnotin. apply PR. apply Km. exact Mw.
    - unfold es1, get_event in Gw. cbn [to_aevent a_id] in Gw. rewrite alookup_aput_neq in Gw by (intros E0; apply Nw; exact E0).
      exact (Kc w0 ev p Mw Gw Pp). }
  assert (HI : elinv (i_st i)) by (unfold elinv; rewrite (ei_frame _ _ _ _ _ I0); reflexivity).
  destruct (process_delivers cap (policy_fn pol) es1 (i_st i) (ae e) _ _ _ HI Kc1 PE) as [D P].
  split; [|split; [intros NS; rewrite Ec'; apply (P NS) | exact SL]].
  apply (delivered_ok_graph ep lam vals _ _ es1 W' Hes1 bl _); [|exact D].
  intros b Hb.
  assert (Hin : In (b_frame b, b_atropos b) (map fst (B ++ map blk_obs bl))).
  { apply in_map_iff. exists (blk_obs b). split; [reflexivity|]. apply in_or_app. right. apply in_map. exact Hb. }
  pose proof (Seg_in vals _ _ _ _ _ _ SGall Hin) as Hd.
  destruct (atropos_in vals _ _ W' _ _ Hd) as [x [Ix Ex]]. exists x. split; [eapply roots_in; exact Ix | exact Ex].
Qed.
End Deliver.
