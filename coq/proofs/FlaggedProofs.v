(* C25 — flagged producer: every crash point of every history is consistent (see props/C25.v). *)
From Coq Require Import NArith List Bool Lia Permutation PeanoNat Compare_dec.
From LV Require Import lib.Bytes lib.BytesFacts model.CrashBase model.Flagged
  proofs.CrashBaseProofs proofs.SyncedPoolProofs.
Import ListNotations.
Local Open Scope N_scope.

(* ------------------------------------------------------------------ the flag map *)
Lemma fget_fset_eq n b l : fget n (fset n b l) = Some b.
Proof.
  induction l as [|[n' b'] t IH]; cbn; [rewrite N.eqb_refl; auto|].
  destruct (n' =? n) eqn:E; cbn; [rewrite N.eqb_refl; auto|rewrite E; auto].
Qed.
Lemma fget_fset_neq n n' b l : n <> n' -> fget n' (fset n b l) = fget n' l.
Proof.
  intros H. induction l as [|[n0 b0] t IH]; cbn.
  - destruct (n =? n') eqn:E; auto. apply N.eqb_eq in E; contradiction.
  - destruct (n0 =? n) eqn:E; cbn.
    + apply N.eqb_eq in E; subst. destruct (n =? n') eqn:E'; auto. apply N.eqb_eq in E'; contradiction.
    + destruct (n0 =? n'); auto.
Qed.
Lemma fget_fdel_eq n l : fget n (fdel n l) = None.
Proof.
  induction l as [|[n' b'] t IH]; cbn; auto.
  destruct (n' =? n) eqn:E; cbn; auto. rewrite E; auto.
Qed.
Lemma fget_fdel_neq n n' l : n <> n' -> fget n' (fdel n l) = fget n' l.
Proof.
  intros H. induction l as [|[n0 b0] t IH]; cbn; auto.
  destruct (n0 =? n) eqn:E; cbn.
  - apply N.eqb_eq in E; subst. destruct (n =? n') eqn:E'; auto. apply N.eqb_eq in E'; contradiction.
  - destruct (n0 =? n'); auto.
Qed.
Lemma fget_in_names n l : In n (map fst l) <-> fget n l <> None.
Proof.
  induction l as [|[n' b'] t IH]; cbn; [tauto|].
  destruct (n' =? n) eqn:E.
  - apply N.eqb_eq in E; subst. split; [discriminate|auto].
  - rewrite <- IH. split; [intros [X|X]; auto; subst; rewrite N.eqb_refl in E; discriminate|auto].
Qed.
Lemma fset_names_nodup n b l : NoDup (map fst l) -> NoDup (map fst (fset n b l)).
Proof.
  induction l as [|[n' b'] t IH]; cbn; intros ND; [repeat constructor; auto|].
  inversion ND as [|? ? Hn ND']; subst.
  destruct (n' =? n) eqn:E; cbn.
  - apply N.eqb_eq in E; subst. constructor; auto.
  - constructor; auto. intros H. apply fget_in_names in H.
    rewrite fget_fset_neq in H; [apply Hn; apply fget_in_names; auto|].
    intros ->. rewrite N.eqb_refl in E; discriminate.
Qed.
Lemma fdel_names_nodup n l : NoDup (map fst l) -> NoDup (map fst (fdel n l)).
Proof.
  induction l as [|[n' b'] t IH]; cbn; intros ND; [constructor|].
  inversion ND as [|? ? Hn ND']; subst.
  destruct (n' =? n) eqn:E; cbn; auto.
  constructor; auto. intros H. apply fget_in_names in H.
  rewrite fget_fdel_neq in H; [apply Hn; apply fget_in_names; auto|].
  intros ->. rewrite N.eqb_refl in E; discriminate.
Qed.

(* ------------------------------------------------------------------ general form of "append the operations of one step" *)
Lemma extend_safe_gen fk log ops recs recs' :
  (forall j, safe fk recs j (crash log j)) ->
  (forall rc, In rc recs -> In rc recs') ->
  strict_prefixes (fun w => forall k, (length log <= k)%nat -> safe fk recs' k w) ops (apply_dops log []) ->
  (forall k, (length (log ++ ops) <= k)%nat -> safe fk recs' k (apply_dops (log ++ ops) [])) ->
  forall j, safe fk recs' j (crash (log ++ ops) j).
Proof.
  intros H0 Hsub Hs Hf j. unfold crash.
  destruct (le_lt_dec j (length log)) as [Hj|Hj].
  - rewrite firstn_app_le; auto. eapply safe_mono; [exact Hsub|apply Nat.le_refl|apply H0].
  - rewrite firstn_app_ge by lia. rewrite apply_dops_app.
    destruct (le_lt_dec (length ops) (j - length log)) as [Hk|Hk].
    + rewrite firstn_all2 by lia. rewrite <- apply_dops_app. apply Hf. rewrite app_length. lia.
    + apply (strict_prefixes_firstn _ _ _ _ Hs Hk). lia.
Qed.

Lemma dget_apply_write c w key :
  dget key (apply_write c w) = if bytes_eqb (fst w) key then snd w else dget key c.
Proof.
  destruct (bytes_eqb (fst w) key) eqn:E.
  - apply bytes_eqb_eq in E; subst. apply dget_apply_write_eq.
  - apply dget_apply_write_neq. apply beqb_false; auto.
Qed.

Lemma apply_writes_agree fk ws : forall c s,
  (forall key, key <> fk -> dget key c = dget key s) ->
  forall key, key <> fk -> dget key (apply_writes ws c) = dget key (apply_writes ws s).
Proof.
  induction ws as [|w t IH]; intros c s H key Hk; cbn; auto.
  unfold apply_writes in *. cbn. apply IH; auto.
  intros key' Hk'. rewrite !dget_apply_write. destruct (bytes_eqb (fst w) key'); auto.
Qed.

Lemma sp_open_idem n sp : sp_open n (sp_open n sp) = sp_open n sp.
Proof.
  destruct (wget n (sp_dbs sp)) eqn:E.
  - assert (X : sp_open n sp = sp) by (unfold sp_open; rewrite E; reflexivity). rewrite !X. reflexivity.
  - assert (X : sp_open n sp = mkSpec (wset n [] (sp_dbs sp)) (sp_doomed sp))
      by (unfold sp_open; rewrite E; reflexivity).
    rewrite X. unfold sp_open. cbn. rewrite wget_wset_eq. reflexivity.
Qed.

Section Flagged.
  Variable fk : bytes.

  Definition mixed (w : world) : Prop :=
    exists n1 c1 n2 c2, wget n1 w = Some c1 /\ wget n2 w = Some c2 /\ dget fk c1 <> dget fk c2.
  (* what holds in every world a flagged history passes through *)
  Definition Fl (last : option flush_rec) (w : world) : Prop :=
    nomark_empty fk w /\ (agrees fk last w \/ dirtyw fk w \/ mixed w).

  Lemma Fl_safe recs k last w :
    (forall rc, last = Some rc -> In rc recs /\ (r_pos rc <= k)%nat) -> Fl last w -> safe fk recs k w.
  Proof.
    intros Ho [A [B|[B|[n1 [c1 [n2 [c2 [G1 [G2 Hne]]]]]]]]].
    - apply (safe_of_agrees fk recs k w last Ho B).
    - apply safe_of_dirty; [exact A|exact B].
    - apply (safe_of_mixed fk recs k w n1 c1 n2 c2 A G1 G2 Hne).
  Qed.

  Record flag_inv (st : fstate) (sp : spec_state) (W : world) (last : option flush_rec) : Prop := mkFI {
    fi_nodup : NoDup (map fst st);
    fi_durable : forall n, wget n W <> None <-> fget n st <> None;
    fi_names : forall n, fget n st = None <-> wget n (sp_dbs sp) = None;
    fi_refine : forall n c s, wget n W = Some c -> wget n (sp_dbs sp) = Some s ->
                forall key, key <> fk -> dget key c = dget key s;
    fi_dirty : forall n c, fget n st = Some true -> wget n W = Some c ->
               exists m, dget fk c = Some m /\ is_dirty m = true;
    fi_clean : forall n c, fget n st = Some false -> wget n W = Some c ->
               db_empty c \/
               exists rc s, last = Some rc /\ dget fk c = Some (mark_of CLEAN (r_id rc)) /\
                            wget n (r_snap rc) = Some s /\ db_eq c s;
    fi_doomed : sp_doomed sp = []
  }.

  Lemma inv_Pid st sp W last : flag_inv st sp W last -> Pid fk last W.
  Proof.
    intros [A B C R D Cl Q]. split.
    - intros n c G E. assert (Y : wget n W <> None) by congruence. apply B in Y.
      destruct (fget n st) as [[|]|] eqn:F; [| |contradiction].
      + destruct (D _ _ F G) as [m [M _]]. congruence.
      + destruct (Cl _ _ F G) as [H|[rc [s [_ [M _]]]]]; auto. congruence.
    - destruct (existsb (fun nb => snd nb) st) eqn:Ex.
      + right. apply existsb_exists in Ex. destruct Ex as [[n b] [Hin Hb]]. cbn in Hb; subst b.
        assert (F : fget n st = Some true).
        { clear -A Hin. induction st as [|[n' b'] t IH]; [destruct Hin|]. cbn in *.
          inversion A as [|? ? Hn A']; subst. destruct Hin as [X|X].
          - inversion X; subst. rewrite N.eqb_refl; auto.
          - destruct (n' =? n) eqn:E; auto. apply N.eqb_eq in E; subst.
            exfalso. apply Hn. apply in_map_iff. exists (n, true); auto. }
        assert (Y : wget n W <> None) by (apply B; congruence).
        destruct (wget n W) as [c|] eqn:G; [|contradiction].
        destruct (D _ _ F G) as [m [M Dm]]. exists n, c, m. auto.
      + left. intros n c G. assert (Y : wget n W <> None) by congruence. apply B in Y.
        destruct (fget n st) as [b|] eqn:F; [|contradiction].
        assert (b = false).
        { destruct b; auto. exfalso.
          assert (X : existsb (fun nb => snd nb) st = true); [|congruence].
          apply existsb_exists. exists (n, true). split; auto.
          clear -F. induction st as [|[n' b'] t IH]; cbn in *; [discriminate|].
          destruct (n' =? n) eqn:E; [apply N.eqb_eq in E; inversion F; subst; auto|auto]. }
        subst b. apply (Cl _ _ F G).
  Qed.

  Lemma Pid_Fl last w : Pid fk last w -> Fl last w.
  Proof. intros [A [B|B]]; split; auto. Qed.

  (* ---------------- Producer.OpenDB *)
  Lemma f_open_inv st sp W last n :
    flag_inv st sp W last ->
    flag_inv (fst (f_open n st)) (sp_open n sp) (apply_dops (snd (f_open n st)) W) last /\
    fget n (fst (f_open n st)) <> None /\
    (forall o, In o (snd (f_open n st)) -> o = DOpen n).
  Proof.
    intros I. pose proof I as [A B C R D Cl Q]. unfold f_open, sp_open.
    destruct (fget n st) as [b|] eqn:F.
    - assert (X : wget n (sp_dbs sp) <> None) by (intros H; apply C in H; congruence).
      destruct (wget n (sp_dbs sp)); [|contradiction]. cbn. split; [exact I|]. split; [congruence|tauto].
    - assert (X : wget n (sp_dbs sp) = None) by (apply C; auto). rewrite X.
      assert (Wn : wget n W = None).
      { destruct (wget n W) eqn:E; auto. exfalso. assert (Y : wget n W <> None) by congruence.
        apply B in Y. contradiction. }
      cbn [fst snd apply_dops fold_left apply_dop]. rewrite Wn.
      split; [|split; [rewrite fget_fset_eq; discriminate|intros o [<-|[]]; auto]].
      constructor; cbn [sp_dbs sp_doomed]; auto.
      + apply fset_names_nodup; auto.
      + intros m. destruct (N.eq_dec n m) as [->|Hne].
        * rewrite wget_wset_eq, fget_fset_eq. split; discriminate.
        * rewrite wget_wset_neq, fget_fset_neq; auto.
      + intros m. destruct (N.eq_dec n m) as [->|Hne].
        * rewrite wget_wset_eq, fget_fset_eq. split; discriminate.
        * rewrite wget_wset_neq, fget_fset_neq; auto.
      + intros m c s G1 G2 key Hk. destruct (N.eq_dec n m) as [->|Hne].
        * rewrite wget_wset_eq in G1, G2. inversion G1; inversion G2; subst. reflexivity.
        * rewrite wget_wset_neq in G1, G2; auto. all: try (eapply R; eauto).
      + intros m c F1 G1. destruct (N.eq_dec n m) as [->|Hne].
        * rewrite fget_fset_eq in F1. discriminate.
        * rewrite fget_fset_neq in F1; auto. rewrite wget_wset_neq in G1; auto. all: try (eapply D; eauto).
      + intros m c F1 G1. destruct (N.eq_dec n m) as [->|Hne].
        * rewrite wget_wset_eq in G1. inversion G1; subst. left. apply db_empty_nil.
        * rewrite fget_fset_neq in F1; auto. rewrite wget_wset_neq in G1; auto. all: try (eapply Cl; eauto).
  Qed.

  (* ---------------- flaggedStore.modified on a clean database *)
  Lemma mark_dirty_inv st sp W last n :
    flag_inv st sp W last -> fget n st = Some false ->
    flag_inv (fset n true st) sp (on_db n (dput fk [DIRTY]) W) last.
  Proof.
    intros [A B C R D Cl Q] F.
    assert (Y : wget n W <> None) by (apply B; congruence).
    destruct (wget n W) as [c0|] eqn:G0; [|contradiction].
    constructor; auto.
    - apply fset_names_nodup; auto.
    - intros m. destruct (N.eq_dec n m) as [->|Hne].
      + rewrite wget_on_db_eq, G0, fget_fset_eq. cbn. split; discriminate.
      + rewrite wget_on_db_neq, fget_fset_neq; auto.
    - intros m. destruct (N.eq_dec n m) as [->|Hne].
      + rewrite fget_fset_eq. split; [discriminate|]. intros H. apply C in H. congruence.
      + rewrite fget_fset_neq; auto.
    - intros m c s G1 G2 key Hk. destruct (N.eq_dec n m) as [->|Hne].
      + rewrite wget_on_db_eq, G0 in G1. cbn in G1. inversion G1; subst c.
        rewrite dget_dput_neq; auto. all: try (eapply R; eauto).
      + rewrite wget_on_db_neq in G1; auto. all: try (eapply R; eauto).
    - intros m c F1 G1. destruct (N.eq_dec n m) as [->|Hne].
      + rewrite wget_on_db_eq, G0 in G1. cbn in G1. inversion G1; subst c.
        exists [DIRTY]. rewrite dget_dput_eq. split; reflexivity.
      + rewrite fget_fset_neq in F1; auto. rewrite wget_on_db_neq in G1; auto. all: try (eapply D; eauto).
    - intros m c F1 G1. destruct (N.eq_dec n m) as [->|Hne].
      + rewrite fget_fset_eq in F1. discriminate.
      + rewrite fget_fset_neq in F1; auto. rewrite wget_on_db_neq in G1; auto. all: try (eapply Cl; eauto).
  Qed.

  (* ---------------- a user write on a database already marked dirty *)
  Lemma dirty_write_inv st sp W last n (g : db -> db) :
    flag_inv st sp W last -> fget n st = Some true ->
    (forall c, dget fk (g c) = dget fk c) ->
    (forall c s, (forall key, key <> fk -> dget key c = dget key s) ->
                 forall key, key <> fk -> dget key (g c) = dget key (g s)) ->
    flag_inv st (sp_write n g sp) (on_db n g W) last.
  Proof.
    intros [A B C R D Cl Q] F Hfk Hg.
    assert (Y : wget n W <> None) by (apply B; congruence).
    destruct (wget n W) as [c0|] eqn:G0; [|contradiction].
    assert (X : wget n (sp_dbs sp) <> None) by (intros H; apply C in H; congruence).
    unfold sp_write. rewrite (sp_open_present _ _ X).
    destruct (wget n (sp_dbs sp)) as [s0|] eqn:Gs; [|contradiction].
    constructor; cbn [sp_dbs sp_doomed]; auto.
    - intros m. destruct (N.eq_dec n m) as [->|Hne].
      + rewrite wget_on_db_eq, G0, F. cbn. split; discriminate.
      + rewrite wget_on_db_neq; auto.
    - intros m. destruct (N.eq_dec n m) as [->|Hne].
      + rewrite wget_on_db_eq, Gs, F. cbn. split; discriminate.
      + rewrite wget_on_db_neq; auto.
    - intros m c s G1 G2 key Hk. destruct (N.eq_dec n m) as [->|Hne].
      + rewrite wget_on_db_eq, G0 in G1. rewrite wget_on_db_eq, Gs in G2. cbn in G1, G2.
        inversion G1; inversion G2; subst. apply Hg; auto. intros key' Hk'. eapply R; eauto.
      + rewrite wget_on_db_neq in G1, G2; auto. all: try (eapply R; eauto).
    - intros m c F1 G1. destruct (N.eq_dec n m) as [->|Hne].
      + rewrite wget_on_db_eq, G0 in G1. cbn in G1. inversion G1; subst c. rewrite Hfk. eapply D; eauto.
      + rewrite wget_on_db_neq in G1; auto. all: try (eapply D; eauto).
    - intros m c F1 G1. destruct (N.eq_dec n m) as [->|Hne].
      + congruence.
      + rewrite wget_on_db_neq in G1; auto. all: try (eapply Cl; eauto).
  Qed.

  Lemma Pid_putdirty0 last w n : Pid fk last w -> Pid fk last (apply_dop w (DPut n fk [DIRTY])).
  Proof. apply (Pid_putdirty fk last w n []). Qed.

  (* ---------------- flaggedStore.Put / Delete / flaggedBatch.Write *)
  Lemma f_write_inv st sp W last n o (g : db -> db) :
    flag_inv st sp W last -> (forall w, apply_dop w o = on_db n g w) ->
    (forall c, dget fk (g c) = dget fk c) ->
    (forall c s, (forall key, key <> fk -> dget key c = dget key s) ->
                 forall key, key <> fk -> dget key (g c) = dget key (g s)) ->
    flag_inv (fst (f_write fk n o st)) (sp_write n g sp) (apply_dops (snd (f_write fk n o st)) W) last /\
    strict_prefixes (Fl last) (snd (f_write fk n o st)) W.
  Proof.
    intros I Ho Hfk Hg. destruct (f_open_inv st sp W last n I) as [I1 [F1 O1]].
    unfold f_write. destruct (f_open n st) as [s1 ops1] eqn:E1. cbn [fst snd] in *.
    assert (P1 : all_prefixes (Pid fk last) ops1 W).
    { apply all_prefixes_preserved; [eapply inv_Pid; eauto|].
      intros o' w Ho' Hw. rewrite (O1 _ Ho'). apply Pid_open; auto. }
    assert (Esp : sp_write n g sp = sp_write n g (sp_open n sp)).
    { unfold sp_write. rewrite sp_open_idem. reflexivity. }
    unfold f_modified. destruct (fget n s1) as [[|]|] eqn:F; [| |contradiction]; cbn [fst snd].
    - (* already dirty *)
      split.
      + rewrite apply_dops_app. cbn [app apply_dops fold_left]. rewrite Ho, Esp.
        apply dirty_write_inv; auto.
      + apply strict_prefixes_app. split; [apply (strict_prefixes_impl (Pid fk last)); [apply Pid_Fl|apply all_prefixes_strict; auto]|].
        cbn. split; auto. apply Pid_Fl. apply all_prefixes_split in P1. tauto.
    - (* clean: dirty mark first *)
      pose proof (mark_dirty_inv _ _ _ _ _ I1 F) as I2.
      split.
      + rewrite apply_dops_app. cbn [app apply_dops fold_left apply_dop]. rewrite Ho, Esp.
        apply dirty_write_inv; auto. apply fget_fset_eq.
      + apply strict_prefixes_app. split; [apply (strict_prefixes_impl (Pid fk last)); [apply Pid_Fl|apply all_prefixes_strict; auto]|].
        apply all_prefixes_split in P1. destruct P1 as [_ P1].
        cbn. split; [apply Pid_Fl; auto|]. split; auto.
        apply Pid_Fl. apply Pid_putdirty0; auto.
  Qed.

  (* ---------------- DropFn *)
  Lemma drop_inv st sp W last n :
    flag_inv st sp W last ->
    flag_inv (fdel n st) (mkSpec (wdel n (sp_dbs sp)) (sp_doomed sp)) (wdel n W) last.
  Proof.
    intros [A B C R D Cl Q]. constructor; cbn [sp_dbs sp_doomed]; auto.
    - apply fdel_names_nodup; auto.
    - intros m. destruct (N.eq_dec n m) as [->|Hne].
      + rewrite wget_wdel_eq, fget_fdel_eq. tauto.
      + rewrite wget_wdel_neq, fget_fdel_neq; auto.
    - intros m. destruct (N.eq_dec n m) as [->|Hne].
      + rewrite wget_wdel_eq, fget_fdel_eq. tauto.
      + rewrite wget_wdel_neq, fget_fdel_neq; auto.
    - intros m c s G1 G2 key Hk. destruct (N.eq_dec n m) as [->|Hne].
      + rewrite wget_wdel_eq in G1. discriminate.
      + rewrite wget_wdel_neq in G1, G2; auto. all: try (eapply R; eauto).
    - intros m c F1 G1. destruct (N.eq_dec n m) as [->|Hne].
      + rewrite wget_wdel_eq in G1. discriminate.
      + rewrite fget_fdel_neq in F1; auto. rewrite wget_wdel_neq in G1; auto. all: try (eapply D; eauto).
    - intros m c F1 G1. destruct (N.eq_dec n m) as [->|Hne].
      + rewrite wget_wdel_eq in G1. discriminate.
      + rewrite fget_fdel_neq in F1; auto. rewrite wget_wdel_neq in G1; auto. all: try (eapply Cl; eauto).
  Qed.
End Flagged.

(* ------------------------------------------------------------------ Producer.Flush *)
Section FlaggedFlush.
  Variable fk : bytes.

  Definition gf (id : bytes) (st : fstate) (n : name) : list dop :=
    (match fget n st with Some false => [DPut n fk [DIRTY]] | _ => [] end)
    ++ [DPut n fk (mark_of CLEAN id)].

  Lemma gf_names id st m o : In o (gf id st m) -> dop_name o = m.
  Proof.
    unfold gf. rewrite in_app_iff. intros [H|[<-|[]]]; auto.
    destruct (fget m st) as [[|]|]; cbn in H; intuition; subst; auto.
  Qed.

  Lemma f_flush_decomp id ns : forall st, NoDup ns -> NoDup (map fst st) ->
    exists st', f_flush fk id ns st = (st', concat (map (gf id st) ns)) /\ NoDup (map fst st') /\
                forall n, fget n st' = if nmem n ns then Some false else fget n st.
  Proof.
    induction ns as [|n t IH]; intros st ND NS; cbn [f_flush map concat].
    - exists st. auto.
    - inversion ND as [|? ? Hn ND']; subst.
      assert (Hm : exists s1, f_modified fk n st = (s1, match fget n st with Some false => [DPut n fk [DIRTY]] | _ => [] end)
                 /\ NoDup (map fst s1) /\ forall m, m <> n -> fget m s1 = fget m st).
      { unfold f_modified. destruct (fget n st) as [[|]|]; eexists; split; try reflexivity; split; auto.
        - apply fset_names_nodup; auto.
        - intros m Hne. apply fget_fset_neq; auto. }
      destruct Hm as [s1 [Em [N1 H1]]]. rewrite Em.
      destruct (IH (fset n false s1) ND' (fset_names_nodup _ _ _ N1)) as [st' [E [NS' C]]].
      rewrite E. exists st'. split; [|split; auto].
      + rewrite (map_ext_notin (gf id (fset n false s1)) (gf id st) n t Hn).
        { unfold gf at 2. rewrite <- app_assoc. reflexivity. }
        intros m Hne. unfold gf. rewrite fget_fset_neq; auto. rewrite H1; auto.
      + intros m. rewrite C. cbn [nmem]. destruct (n =? m) eqn:Em'; cbn.
        * apply N.eqb_eq in Em'; subst. rewrite (nmem_notin_false _ _ Hn). apply fget_fset_eq.
        * assert (n <> m) by (intros ->; rewrite N.eqb_refl in Em'; discriminate).
          destruct (nmem m t); auto. rewrite fget_fset_neq; auto.
  Qed.

  Lemma flush_prefixes id last st0 ns : forall w, NoDup ns ->
    nomark_empty fk w ->
    (forall n, In n ns -> exists c, wget n w = Some c /\ dget fk c <> Some (mark_of CLEAN id)) ->
    ((exists v c, ~ In v ns /\ wget v w = Some c /\ dget fk c = Some (mark_of CLEAN id)) \/ Pid fk last w) ->
    strict_prefixes (Fl fk last) (concat (map (gf id st0) ns)) w.
  Proof.
    induction ns as [|n t IH]; intros w ND Hne Hun Hvis; cbn [map concat]; [cbn; auto|].
    inversion ND as [|? ? Hnt ND']; subst.
    destruct (Hun n (or_introl eq_refl)) as [cn [Gn Mn]].
    assert (F0 : Fl fk last w).
    { split; auto. destruct Hvis as [[v [cv [Hv [Gv Mv]]]]|[_ [P|P]]]; auto.
      right; right. exists v, cv, n, cn. repeat split; auto. congruence. }
    (* the recursive call, at the world where n carries the new clean mark *)
    assert (Rec : forall w2, nomark_empty fk w2 -> (forall m, m <> n -> wget m w2 = wget m w) ->
                   (exists c2, wget n w2 = Some c2 /\ dget fk c2 = Some (mark_of CLEAN id)) ->
                   strict_prefixes (Fl fk last) (concat (map (gf id st0) t)) w2).
    { intros w2 N2 Oth [c2 [G2 M2]]. apply IH; auto.
      - intros m Hm. rewrite Oth; [apply Hun; right; auto|]. intros ->; contradiction.
      - left. exists n, c2. auto. }
    unfold gf at 1. destruct (fget n st0) as [[|]|].
    - (* flag true: clean mark only *)
      cbn [app]. cbn [strict_prefixes]. split; auto. apply Rec.
      + apply ne_putmark; auto.
      + intros m Hm. cbn [apply_dop]. apply wget_on_db_neq; auto.
      + eexists. cbn [apply_dop]. rewrite wget_on_db_eq, Gn. split; [reflexivity|apply dget_dput_eq].
    - (* flag false: dirty mark, then clean mark *)
      cbn [app]. cbn [strict_prefixes]. split; auto. split.
      + split; [apply ne_putmark; auto|]. right; left. exists n. apply (dirty_putdirty fk w n []). congruence.
      + apply Rec.
        * apply ne_putmark; auto. apply ne_putmark; auto.
        * intros m Hm. cbn [apply_dop]. rewrite !wget_on_db_neq; auto.
        * eexists. cbn [apply_dop]. rewrite !wget_on_db_eq, Gn. split; [reflexivity|apply dget_dput_eq].
    - cbn [app]. cbn [strict_prefixes]. split; auto. apply Rec.
      + apply ne_putmark; auto.
      + intros m Hm. cbn [apply_dop]. apply wget_on_db_neq; auto.
      + eexists. cbn [apply_dop]. rewrite wget_on_db_eq, Gn. split; [reflexivity|apply dget_dput_eq].
  Qed.

  Lemma is_dirty_clean id : is_dirty (mark_of CLEAN id) = false.
  Proof. reflexivity. Qed.

  Lemma flagged_flush_inv st sp W last id os k0 :
    flag_inv fk st sp W last ->
    let dbs' := with_marks fk id (remove_all (sp_doomed sp) (sp_dbs sp)) in
    let res := f_flush fk id (arrange (nth_order os 0) (map fst st)) st in
    let rc' := mkRec k0 id dbs' in
    flag_inv fk (fst res) (mkSpec dbs' []) (apply_dops (snd res) W) (Some rc') /\
    snd res = concat (map (gf id st) (arrange (nth_order os 0) (map fst st))) /\
    agrees_all fk rc' (apply_dops (snd res) W).
  Proof.
    intros I. pose proof I as [A B C R D Cl Q]. cbn zeta.
    set (ns := arrange (nth_order os 0) (map fst st)).
    assert (ND : NoDup ns) by (apply arrange_nodup; auto).
    assert (Inn : forall n, In n ns <-> fget n st <> None).
    { intros n. unfold ns. rewrite arrange_in. apply fget_in_names. }
    destruct (f_flush_decomp id ns st ND A) as [st' [E [NS' C']]]. rewrite E. cbn [fst snd].
    rewrite Q. cbn [remove_all fold_left].
    assert (Gf : forall n, wget n (apply_dops (concat (map (gf id st) ns)) W) =
                 match wget n W with
                 | Some c => Some (dput fk (mark_of CLEAN id)
                               (match fget n st with Some false => dput fk [DIRTY] c | _ => c end))
                 | None => None end).
    { intros n. rewrite (apply_concat_get (gf id st) ns n W ND (gf_names id st)).
      destruct (wget n W) as [c|] eqn:G.
      - assert (En : nmem n ns = true) by (apply nmem_in, Inn, B; congruence). rewrite En.
        unfold gf. destruct (fget n st) as [[|]|]; unfold apply_dops; cbn [app fold_left apply_dop];
          rewrite ?wget_on_db_eq, G; reflexivity.
      - assert (En : nmem n ns = false).
        { apply nmem_false. rewrite Inn. intros H. apply B in H. congruence. }
        rewrite En. reflexivity. }
    assert (Usr : forall n c key, wget n W = Some c -> key <> fk ->
              dget key (dput fk (mark_of CLEAN id)
                          (match fget n st with Some false => dput fk [DIRTY] c | _ => c end)) = dget key c).
    { intros n c key G Hk. rewrite dget_dput_neq; auto.
      destruct (fget n st) as [[|]|]; auto. rewrite dget_dput_neq; auto. }
    split; [|split].
    - constructor; cbn [sp_dbs sp_doomed]; auto.
      + intros n. rewrite Gf, C'. destruct (wget n W) as [c|] eqn:G.
        * assert (En : nmem n ns = true) by (apply nmem_in, Inn, B; congruence). rewrite En. split; discriminate.
        * assert (En : nmem n ns = false).
          { apply nmem_false. rewrite Inn. intros H. apply B in H. congruence. }
          rewrite En. rewrite <- B, G. tauto.
      + intros n. rewrite C', wget_with_marks.
        destruct (nmem n ns) eqn:En.
        * apply nmem_in, Inn in En.
          destruct (wget n (sp_dbs sp)) eqn:Gs; cbn; [split; discriminate|]. apply C in Gs. contradiction.
        * apply nmem_false in En. rewrite Inn in En.
          assert (F : fget n st = None) by (destruct (fget n st); auto; exfalso; apply En; discriminate).
          rewrite F. pose proof F as F'. apply C in F'. rewrite F'. cbn. tauto.
      + intros n c s G1 G2 key Hk. rewrite Gf in G1. rewrite wget_with_marks in G2.
        destruct (wget n W) as [c0|] eqn:G; [|discriminate]. inversion G1; subst c.
        destruct (wget n (sp_dbs sp)) as [s0|] eqn:Gs; [|discriminate]. cbn in G2. inversion G2; subst s.
        rewrite (Usr n c0 key G Hk). rewrite dget_dput_neq; auto. eapply R; eauto.
      + intros n c F1 G1. rewrite C' in F1. destruct (nmem n ns) eqn:En; [discriminate|].
        rewrite Gf in G1. destruct (wget n W) eqn:G; [|discriminate].
        apply nmem_false in En. rewrite Inn in En. exfalso. apply En. apply B. congruence.
      + intros n c F1 G1. rewrite Gf in G1.
        destruct (wget n W) as [c0|] eqn:G; [|discriminate]. inversion G1; subst c. right.
        destruct (wget n (sp_dbs sp)) as [s0|] eqn:Gs.
        2:{ apply C in Gs. assert (Y : wget n W <> None) by congruence. apply B in Y. contradiction. }
        exists (mkRec k0 id (with_marks fk id (sp_dbs sp))), (dput fk (mark_of CLEAN id) s0).
        split; [reflexivity|]. cbn [r_id r_snap]. split; [apply dget_dput_eq|]. split.
        * rewrite wget_with_marks, Gs. reflexivity.
        * intros key. destruct (bytes_eqb fk key) eqn:Ek.
          -- apply bytes_eqb_eq in Ek; subst. rewrite !dget_dput_eq. reflexivity.
          -- apply beqb_false in Ek. rewrite (Usr n c0 key G); auto. rewrite dget_dput_neq; auto. eapply R; eauto.
    - reflexivity.
    - intros n c G1. rewrite Gf in G1.
      destruct (wget n W) as [c0|] eqn:G; [|discriminate]. inversion G1; subst c.
      destruct (wget n (sp_dbs sp)) as [s0|] eqn:Gs.
      2:{ apply C in Gs. assert (Y : wget n W <> None) by congruence. apply B in Y. contradiction. }
      exists (dput fk (mark_of CLEAN id) s0).
      cbn [r_id r_snap]. split; [apply dget_dput_eq|]. split.
      + rewrite wget_with_marks, Gs. reflexivity.
      + intros key. destruct (bytes_eqb fk key) eqn:Ek.
        * apply bytes_eqb_eq in Ek; subst. rewrite !dget_dput_eq. reflexivity.
        * apply beqb_false in Ek. rewrite (Usr n c0 key G); auto. rewrite dget_dput_neq; auto. eapply R; eauto.
  Qed.

  Lemma flagged_flush_correct st sp W last id os k0 :
    flag_inv fk st sp W last -> (forall rc, last = Some rc -> r_id rc <> id) ->
    let dbs' := with_marks fk id (remove_all (sp_doomed sp) (sp_dbs sp)) in
    let res := f_flush fk id (arrange (nth_order os 0) (map fst st)) st in
    let rc' := mkRec k0 id dbs' in
    flag_inv fk (fst res) (mkSpec dbs' []) (apply_dops (snd res) W) (Some rc') /\
    strict_prefixes (Fl fk last) (snd res) W.
  Proof.
    intros I Hid. destruct (flagged_flush_inv st sp W last id os k0 I) as [I' [Eo _]]. cbn zeta in *.
    split; [exact I'|]. rewrite Eo. pose proof I as [A B C R D Cl Q].
    set (ns := arrange (nth_order os 0) (map fst st)).
    assert (ND : NoDup ns) by (apply arrange_nodup; auto).
    assert (Inn : forall n, In n ns <-> fget n st <> None).
    { intros n. unfold ns. rewrite arrange_in. apply fget_in_names. }
    destruct (inv_Pid fk _ _ _ _ I) as [Nm Pd].
    apply flush_prefixes; auto.
      + intros n Hn. apply Inn in Hn. assert (Y : wget n W <> None) by (apply B; auto).
        destruct (wget n W) as [c|] eqn:G; [|contradiction]. exists c. split; auto.
        destruct (fget n st) as [[|]|] eqn:F; [| |contradiction].
        * destruct (D _ _ F G) as [m [M Dm]]. rewrite M. intros X. inversion X; subst m.
          rewrite is_dirty_clean in Dm. discriminate.
        * destruct (Cl _ _ F G) as [H|[rc [s [El [M _]]]]].
          -- rewrite (H fk). discriminate.
          -- rewrite M. intros X. inversion X. apply (Hid _ El). auto.
      + right. split; auto.
  Qed.
End FlaggedFlush.

(* ------------------------------------------------------------------ histories *)
Section FRun.
  Variable fk : bytes.

  Definition frun_inv (s : frun_state) (last : option flush_rec) : Prop :=
    flag_inv fk (fr_st s) (fr_spec s) (apply_dops (fr_log s) []) last /\
    (forall rc, last = Some rc -> In rc (fr_recs s)) /\
    (forall rc, In rc (fr_recs s) -> (r_pos rc <= length (fr_log s))%nat) /\
    (forall j, safe fk (fr_recs s) j (crash (fr_log s) j)).

  Lemma frun_inv_init : frun_inv frun_init None.
  Proof.
    unfold frun_inv, frun_init; cbn. split; [|split; [|split]].
    - constructor; cbn; auto.
      + constructor.
      + intros n; tauto.
      + intros n; tauto.
      + intros n c s H; discriminate.
      + intros n c H; discriminate.
      + intros n c H; discriminate.
    - intros rc H; discriminate.
    - intros rc [].
    - intros j. unfold crash. rewrite firstn_nil. cbn. split.
      + intros n c H; discriminate.
      + intros m [n [c H]]; discriminate.
  Qed.

  Lemma frun_extend s last st' sp' ops recs' last' :
    frun_inv s last ->
    flag_inv fk st' sp' (apply_dops ops (apply_dops (fr_log s) [])) last' ->
    strict_prefixes (Fl fk last) ops (apply_dops (fr_log s) []) ->
    (forall rc, In rc (fr_recs s) -> In rc recs') ->
    (forall rc, last' = Some rc -> In rc recs' /\ (r_pos rc <= length (fr_log s ++ ops))%nat) ->
    (forall rc, In rc recs' -> (r_pos rc <= length (fr_log s ++ ops))%nat) ->
    frun_inv (mkFRun st' sp' (fr_log s ++ ops) recs') last'.
  Proof.
    intros [I [Hl [Hp Hs]]] I' Hst Hsub Hl' Hp'. unfold frun_inv; cbn [fr_st fr_spec fr_log fr_recs].
    split; [rewrite apply_dops_app; exact I'|]. split; [intros rc E; apply (Hl' _ E)|]. split; [exact Hp'|].
    apply extend_safe_gen with (recs := fr_recs s); auto.
    - eapply strict_prefixes_impl; [|exact Hst]. intros w Hw k Hk.
      apply (Fl_safe fk recs' k last w); auto.
      intros rc E. split; [apply Hsub, Hl; auto|]. specialize (Hp _ (Hl _ E)). lia.
    - intros k Hk. apply (Fl_safe fk recs' k last'); [|apply Pid_Fl; eapply inv_Pid; rewrite apply_dops_app; eauto].
      intros rc E. destruct (Hl' _ E). split; auto. lia.
  Qed.

  Lemma open_strict st sp W last n :
    flag_inv fk st sp W last -> all_prefixes (Pid fk last) (snd (f_open n st)) W.
  Proof.
    intros I. destruct (f_open_inv fk st sp W last n I) as [_ [_ O1]].
    apply all_prefixes_preserved; [eapply inv_Pid; eauto|].
    intros o w Ho Hw. rewrite (O1 _ Ho). apply Pid_open; auto.
  Qed.

  Lemma frun_step_inv s last o :
    frun_inv s last -> hop_avoids fk o = true ->
    (forall id os rc, o = HFlush id os -> last = Some rc -> r_id rc <> id) ->
    exists last', frun_inv (frun_step fk s o) last' /\
                  option_map r_id last' = match o with HFlush id _ => Some id | _ => option_map r_id last end.
  Proof.
    intros Inv Ha Hid. pose proof Inv as [I [Hl [Hp Hs]]].
    assert (Quiet : forall st' sp' ops,
              flag_inv fk st' sp' (apply_dops ops (apply_dops (fr_log s) [])) last ->
              strict_prefixes (Fl fk last) ops (apply_dops (fr_log s) []) ->
              frun_inv (mkFRun st' sp' (fr_log s ++ ops) (fr_recs s)) last).
    { intros st' sp' ops I' Hst. apply (frun_extend s last); auto.
      - intros rc E. split; auto. rewrite app_length. specialize (Hp _ (Hl _ E)). lia.
      - intros rc Hr. rewrite app_length. specialize (Hp _ Hr). lia. }
    unfold frun_step. destruct o as [n|n|n k v|n k|n ws|n|id os]; cbn [flagged_step spec_step].
    - (* HOpen *)
      exists last. split; auto. destruct (f_open_inv fk _ _ _ last n I) as [I1 _].
      destruct (f_open n (fr_st s)) as [st1 ops1] eqn:E. cbn [fst snd] in *.
      apply Quiet; auto. pose proof (open_strict _ _ _ last n I) as P. rewrite E in P. cbn in P.
      eapply strict_prefixes_impl; [apply Pid_Fl|apply all_prefixes_strict; auto].
    - (* HUnder = HOpen *)
      exists last. split; auto. destruct (f_open_inv fk _ _ _ last n I) as [I1 _].
      destruct (f_open n (fr_st s)) as [st1 ops1] eqn:E. cbn [fst snd] in *.
      apply Quiet; auto. pose proof (open_strict _ _ _ last n I) as P. rewrite E in P. cbn in P.
      eapply strict_prefixes_impl; [apply Pid_Fl|apply all_prefixes_strict; auto].
    - (* HPut *)
      exists last. split; auto. cbn in Ha. apply negb_true_iff in Ha. apply beqb_false in Ha.
      destruct (f_write_inv fk _ _ _ last n (DPut n k v) (dput k v) I) as [I1 S1]; auto.
      + intros c. apply dget_dput_neq; auto.
      + intros c s0 H key Hk. destruct (bytes_eqb k key) eqn:E.
        * apply bytes_eqb_eq in E; subst. rewrite !dget_dput_eq; auto.
        * apply beqb_false in E. rewrite !dget_dput_neq; auto.
      + destruct (f_write fk n (DPut n k v) (fr_st s)) as [st1 ops1]. cbn [fst snd] in *. apply Quiet; auto.
    - (* HDel *)
      exists last. split; auto. cbn in Ha. apply negb_true_iff in Ha. apply beqb_false in Ha.
      destruct (f_write_inv fk _ _ _ last n (DDel n k) (ddel k) I) as [I1 S1]; auto.
      + intros c. apply dget_ddel_neq; auto.
      + intros c s0 H key Hk. destruct (bytes_eqb k key) eqn:E.
        * apply bytes_eqb_eq in E; subst. rewrite !dget_ddel_eq; auto.
        * apply beqb_false in E. rewrite !dget_ddel_neq; auto.
      + destruct (f_write fk n (DDel n k) (fr_st s)) as [st1 ops1]. cbn [fst snd] in *. apply Quiet; auto.
    - (* HBatch *)
      exists last. split; auto. cbn in Ha.
      destruct (f_write_inv fk _ _ _ last n (DBatch n ws) (apply_writes ws) I) as [I1 S1]; auto.
      + intros c. apply dget_apply_writes_avoid; auto.
      + intros c s0 H. apply apply_writes_agree; auto.
      + destruct (f_write fk n (DBatch n ws) (fr_st s)) as [st1 ops1]. cbn [fst snd] in *. apply Quiet; auto.
    - (* HDrop *)
      exists last. split; auto. destruct (f_open_inv fk _ _ _ last n I) as [I1 _].
      pose proof (open_strict _ _ _ last n I) as P.
      destruct (f_open n (fr_st s)) as [st1 ops1] eqn:E. cbn [fst snd] in *.
      apply Quiet.
      + rewrite apply_dops_app. cbn [apply_dops fold_left apply_dop].
        apply (drop_inv fk _ _ _ last n I1).
      + apply strict_prefixes_app. split.
        * eapply strict_prefixes_impl; [apply Pid_Fl|apply all_prefixes_strict; auto].
        * cbn. split; auto. apply Pid_Fl. apply all_prefixes_split in P. tauto.
    - (* HFlush *)
      set (res := f_flush fk id (arrange (nth_order os 0) (map fst (fr_st s))) (fr_st s)).
      set (log' := fr_log s ++ snd res).
      destruct (flagged_flush_correct fk _ _ _ last id os (length log') I) as [I' Hst].
      { intros rc E. eapply Hid; eauto. }
      fold res in I', Hst.
      set (rc' := mkRec (length log') id
                    (with_marks fk id (remove_all (sp_doomed (fr_spec s)) (sp_dbs (fr_spec s))))) in *.
      exists (Some rc'). split; [|reflexivity].
      destruct res as [st' ops] eqn:Er. cbn [fst snd] in *.
      apply (frun_extend s last); auto.
      + intros rc Hr. apply in_app_iff; auto.
      + intros rc E. inversion E; subst. split; [apply in_app_iff; right; left; auto|]. cbn. unfold log'. lia.
      + intros rc Hr. apply in_app_iff in Hr. destruct Hr as [Hr|[<-|[]]].
        * specialize (Hp _ Hr). rewrite app_length. lia.
        * cbn. unfold log'. lia.
  Qed.

  Lemma frun_all h : forall s last,
    frun_inv s last -> history_avoids fk h = true ->
    flush_ids_change (option_map r_id last) h = true ->
    exists last', frun_inv (fold_left (frun_step fk) h s) last'.
  Proof.
    induction h as [|o t IH]; intros s last Inv Ha Hc; cbn [fold_left]; [eauto|].
    cbn in Ha. apply andb_true_iff in Ha. destruct Ha as [Ha1 Ha2].
    destruct (frun_step_inv s last o Inv Ha1) as [last' [Inv' El]].
    - intros id os rc -> ->. cbn in Hc. apply andb_true_iff in Hc. destruct Hc as [Hc _].
      apply negb_true_iff in Hc. apply beqb_false; auto.
    - apply (IH _ last' Inv' Ha2). rewrite El.
      destruct o; cbn in Hc; auto.
      destruct (option_map r_id last); [apply andb_true_iff in Hc; tauto|auto].
  Qed.

  Theorem flagged_crash_consistent h k l :
    history_avoids fk h = true -> flush_ids_change None h = true ->
    lists_world l (crash (fr_log (run_flagged fk h)) k) ->
    crash_consistent fk (fr_recs (run_flagged fk h)) k (crash (fr_log (run_flagged fk h)) k) l.
  Proof.
    intros Ha Hc L. destruct (frun_all h frun_init None frun_inv_init Ha Hc) as [last [_ [_ [_ Hs]]]].
    apply safe_consistent; auto.
  Qed.

  Theorem flagged_crash_consistent_expected h k l f m :
    history_avoids fk h = true -> flush_ids_change None h = true ->
    lists_world l (crash (fr_log (run_flagged fk h)) k) -> l <> [] ->
    check_loop fk l (Some f) false = COk (Some m) ->
    m = f /\
    exists rc, In rc (fr_recs (run_flagged fk h)) /\ (r_pos rc <= k)%nat /\ m = mark_of CLEAN (r_id rc) /\
      forall n c, wget n (crash (fr_log (run_flagged fk h)) k) = Some c ->
        match wget n (r_snap rc) with Some s => db_eq c s | None => db_empty c end.
  Proof.
    intros Ha Hc L Hne E. destruct (frun_all h frun_init None frun_inv_init Ha Hc) as [last [_ [_ [_ Hs]]]].
    eapply safe_consistent_expected; eauto.
  Qed.
End FRun.

(* ------------------------------------------------------------------ why consecutive flush IDs must differ.
   Flush [9], a write to database 1, Flush [9] again (database 1 visited first): after the clean
   mark of database 1 both databases carry mark 00 09, database 1 already holds the new value —
   the state the SECOND flush completes to two operations later.  No flush completed at or before
   this crash point has these contents, so the statement with "completed at or before k" fails;
   it holds with the second flush's record (r_pos 13 > 11). *)
Module SameId.
  Definition fk : bytes := [255].
  Definition h : list hop :=
    [HPut 1 [97] [1]; HPut 2 [98] [7]; HFlush [9] []; HPut 1 [97] [2]; HFlush [9] [[1; 2]]].
  Definition log := fr_log (run_flagged fk h).
  Definition recs := fr_recs (run_flagged fk h).
End SameId.

Example flagged_same_id_counterexample :
  history_avoids SameId.fk SameId.h = true /\ flush_ids_change None SameId.h = false /\
  ~ crash_consistent SameId.fk SameId.recs 11 (crash SameId.log 11) (crash SameId.log 11) /\
  (exists rc, In rc SameId.recs /\ r_pos rc = 13%nat /\ r_snap rc = crash SameId.log 11).
Proof.
  split; [reflexivity|]. split; [reflexivity|]. split.
  - unfold crash_consistent.
    assert (E : check_synced SameId.fk (crash SameId.log 11) = COk (Some [0; 9])) by (vm_compute; reflexivity).
    rewrite E. intros [rc [Hin [Hpos [Hm Hall]]]].
    assert (R : SameId.recs =
      [mkRec 8 [9] [(1, [([255], [0; 9]); ([97], [1])]); (2, [([255], [0; 9]); ([98], [7])])];
       mkRec 13 [9] [(1, [([255], [0; 9]); ([97], [2])]); (2, [([255], [0; 9]); ([98], [7])])]])
      by (vm_compute; reflexivity).
    rewrite R in Hin. destruct Hin as [<-|[<-|[]]].
    + specialize (Hall 1 [([255], [0; 9]); ([97], [2])]).
      assert (G : wget 1 (crash SameId.log 11) = Some [([255], [0; 9]); ([97], [2])]) by (vm_compute; reflexivity).
      specialize (Hall G). cbn in Hall. specialize (Hall [97]). vm_compute in Hall. discriminate.
    + cbn in Hpos. lia.
  - eexists. split; [right; left; reflexivity|]. vm_compute. split; reflexivity.
Qed.
