(* Non-vacuity witnesses used by props/C22.v (kept here so that props files stay statement-only). *)
From Coq Require Import NArith List Bool.
From LV Require Import lib.Bytes lib.Lex lib.SortedMap spec.KvSpec spec.KvOps spec.KvStackSpec
  model.PrefixRange model.Table model.Flushable model.KvStack
  proofs.FlushableIter proofs.KvStackReads proofs.KvStackWrites.
Import ListNotations.
Local Open Scope N_scope.

Example ex_R_flu :
  R (Flu [([0], None); ([97], Some [1])] (Mem [])) (SFlu [WPut [97] [5]; WDel [0]; WPut [97] [1]] (SEng [])).
Proof.
  cbn. repeat split; repeat constructor.
  intros k. cbn. destruct (lex_compare k [0]) eqn:E0.
  - apply BytesFacts.lex_compare_eq in E0. subst. reflexivity.
  - destruct k as [|x k]; [reflexivity|]. cbn in E0. destruct x; [destruct k|]; discriminate.
  - destruct (bytes_eqb k [97]) eqn:B.
    + apply BytesFacts.bytes_eqb_eq in B. subst. reflexivity.
    + assert (bytes_eqb k [0] = false) as ->.
      { destruct (bytes_eqb k [0]) eqn:B0; auto. apply BytesFacts.bytes_eqb_eq in B0. subst. discriminate. }
      destruct (lex_compare k [97]) eqn:E1; auto.
      apply BytesFacts.lex_compare_eq in E1. subst. discriminate.
Qed.
Example ex_inv :
  Inv (Some [97]) {| f_tree := [([97; 1], Some [1])]; f_par := [([97; 0], [2])]; f_prev := Some [97] |}.
Proof. constructor; cbn; repeat (constructor || reflexivity || discriminate). Qed.

