(* L1 across epochs.  Part 1: one epoch of the model with a sealing policy = one element of
   reference_epochs (canonical validator list). *)
From Coq Require Import NArith ZArith List Lia Bool ZifyBool ZifyN ZifyNat.
From LV Require Import lib.Bytes lib.VecListFacts model.Codec model.VecIndex model.Abft model.AbftRun spec.ElectionSpec
  proofs.AbftBuild
  proofs.BftCore proofs.BftElection proofs.BftMono proofs.BftGraph proofs.BftMain proofs.BftRun proofs.BftAccept proofs.BftProps
  proofs.LinkVals proofs.LinkDefs proofs.LinkSim proofs.LinkVote proofs.LinkElect proofs.LinkStep proofs.LinkBuild
  proofs.LinkRun proofs.LinkNoise proofs.LinkEpoch proofs.LinkSeal.
Import ListNotations.
Local Open Scope N_scope.

Lemma map_eq_app_snoc {A B} (g : A -> B) (l : list A) : forall l0 y, map g l = l0 ++ [y] ->
  exists l1 x, l = l1 ++ [x] /\ map g l1 = l0 /\ g x = y.
Proof.
  induction l as [|a t IH]; intros l0 y H; cbn [map] in H; [destruct l0; discriminate|].
  destruct l0 as [|z l0]; cbn [app] in H.
  - inversion H as [[E1 E2]]. apply map_eq_nil in E2. subst t. exists [], a. auto.
  - inversion H as [[E1 E2]]. destruct (IH l0 y E2) as [l1 [x [-> [E3 E4]]]]. exists (a :: l1), x. cbn [app map]. rewrite E3. auto.
Qed.

Section OneEpoch.
Variable cap : nat.
Variable ep : N.
Variable lam : fev -> N.
Variable vals : list (N * N).
Hypothesis Hvals : vals_ok vals.
Variable K : N.
Variable pol : policy.
Variable seal : N.
Variable nvs : Abft.vals.      (* the validators of the next epoch *)
Hypothesis Hpol : forall f a ch dl, policy_fn pol ep f a ch dl = if f =? seal then Some nvs else None.

Notation sf := (fun f => policy_fn pol ep f 0 [] []).
Notation nv := (length vals).
Notation fcn := (fc_n (map snd vals) (ElectionSpec.quorum_of (map snd vals))).
Notation decideT T f := (decide node nd_id nd_cr nd_fr nd_spf fcn (map snd vals) (ElectionSpec.quorum_of (map snd vals)) (canon_order vals) T f (max_frame node nd_fr T)).

Lemma sf_none f : sf f = None -> sealb seal f = false.
Proof. cbn beta. rewrite Hpol. unfold sealb. destruct (f =? seal); [discriminate | reflexivity]. Qed.
Lemma sf_some f x : sf f = Some x -> f = seal /\ x = nvs.
Proof. cbn beta. rewrite Hpol. destruct (f =? seal) eqn:E; [|discriminate]. intros H. inversion H. apply N.eqb_eq in E. auto. Qed.

(* the decided frames are an initial segment of the reference's blocks *)
Lemma blocks_from_seg T : forall B L0 L1 fuel, Seg vals T L0 B L1 -> (length B <= fuel)%nat ->
  exists rest, blocks_from node nd_id nd_cr nd_fr nd_spf fcn (map snd vals) (ElectionSpec.quorum_of (map snd vals)) (canon_order vals) T fuel (L0 + 1) = B ++ rest.
Proof.
  intros B L0 L1 fuel HS. revert fuel. induction HS as [L|L a t L1 Hd Hs IH]; intros fuel Hl; [eexists; reflexivity|].
  destruct fuel as [|fu]; [cbn [length] in Hl; lia|]. cbn [blocks_from]. rewrite Hd.
  destruct (IH fu ltac:(cbn [length] in Hl; lia)) as [rest E]. exists rest. cbn [app]. rewrite E. reflexivity.
Qed.
Lemma r_blocks_seg T B L : Seg vals T 0 B L -> exists rest, r_blocks vals T = B ++ rest.
Proof.
  intros HS. unfold r_blocks, blocks_spec. apply (blocks_from_seg T B 0 L _ HS).
  destruct (seg_bound vals T 0 B L HS) as [EL [->|BD]]; [cbn; lia | lia].
Qed.
Lemma Seg_snoc T : forall L0 B L1, Seg vals T L0 B L1 -> L0 < L1 ->
  exists B0 a, B = B0 ++ [(L1, a)] /\ forall x, In x B0 -> L0 < fst x <= L1 - 1.
Proof.
  induction 1 as [L|L a t L1 Hd Hs IH]; intros Lt; [lia|].
  pose proof (Seg_le vals T _ _ _ Hs) as Le.
  destruct (N.eq_dec (L + 1) L1) as [<-|NE].
  - inversion Hs; subst; [|pose proof (Seg_le vals T _ _ _ H0); lia]. exists [], a. split; [reflexivity | intros x []].
  - destruct IH as [B0 [a0 [-> H0]]]; [lia|]. exists ((L + 1, a) :: B0), a0. split; [reflexivity|].
    intros x [<-|Hx]; [cbn [fst]; lia | specialize (H0 x Hx); lia].
Qed.

(* the instance at the beginning of an epoch *)
Definition fresh_inst (conf : list (N * N)) (c : N) (es : estore) : inst :=
  {| i_st := {| l_epoch := ep; l_vals := vals; l_ldf := 0; l_roots := []; l_conf := conf; l_idx := init nv;
                l_fcc := []; l_el := el_reset vals 1; l_ctr := c |}; i_es := es; i_proc := [] |}.

Theorem epoch_canon D conf c es : valid_run vals D ->
  (forall e, In e D -> id_fresh K (eid (fe e))) -> c + N.of_nat (length D) <= K -> K < 2 ^ 192 ->
  let i0 := fresh_inst conf c es in let ops := abft_ops ep lam vals D in
  let i' := run_inst cap pol sample i0 ops in
  render_ep (run cap pol sample i0 ops) = (fst (fst (ref_epoch seal vals D)), snd (fst (ref_epoch seal vals D))) /\
  (if snd (ref_epoch seal vals D)
   then exists c' es' conf', i' = {| i_st := {| l_epoch := ep + 1; l_vals := nvs; l_ldf := 0; l_roots := []; l_conf := conf';
                                                  l_idx := init (length nvs); l_fcc := []; l_el := el_reset nvs 1; l_ctr := c' |};
                                       i_es := es'; i_proc := [] |} /\ c' <= c + N.of_nat (length D)
   else l_epoch (i_st i') = ep).
Proof.
  intros [Hacc Hff] Hfr HcK HK. cbn zeta.
  destruct D as [|e0 D0].
  { cbn [abft_ops flat_map run run_inst render_ep]. unfold ref_epoch. cbn. split; reflexivity. }
  set (D := e0 :: D0) in *.
  assert (Hnv : (0 < nv)%nat).
  { unfold all_accepted in Hacc. unfold D in Hacc. cbn [add_events] in Hacc.
    destruct (add_event vals [] e0) as [T1 r] eqn:AE. destruct (add_events vals T1 D0) as [T2 rs].
    cbn [snd] in Hacc. assert (Hr : fst r = 0) by (apply Hacc; left; reflexivity). destruct r as [c0 h]. cbn in Hr. subst c0.
    destruct (add_event_accept vals [] e0 T1 h AE) as (_ & _ & _ & CR & _). lia. }
  pose proof (Sim_fresh ep lam vals Hvals (fun _ => False) K (fun a (F : False) => match F with end) conf c es ltac:(lia) Hnv) as HS0.
  destruct (epoch_sim cap ep lam vals Hvals (fun _ => False) K (fun a (F : False) => match F with end) pol D
              (fresh_inst conf c es) [] [] [] HS0 Hacc (fun e He => conj (Hfr e He) (fun F => F)) Hff)
    as [(i' & B' & ER & ERI & HS' & NS' & Ct' & Un)|(m & B' & L & nv' & es' & c' & Hm & ER & ERI & Hc' & SG & CH & Sf & NS & Lp & Un)].
  { cbn [fresh_inst i_st l_ctr]. lia. }
  { cbn [fresh_inst i_st l_ctr]. lia. }
  { intros f Hf. cbn [fresh_inst i_st l_ldf] in Hf. lia. }
  - (* the epoch is not sealed *)
    unfold table in Hff.
    assert (EU : ref_epoch seal vals D = (fst (reference vals D), snd (reference vals D), false)).
    { apply ref_epoch_unsealed. intros b Hb. apply sf_none. apply (Un (length D) (le_n _)). rewrite firstn_all. exact Hb. }
    rewrite EU. cbn [fst snd]. rewrite ER, ERI. split.
    + f_equal; [symmetry; apply reference_codes|].
      cbn [app] in HS'. rewrite (final_blocks cap ep lam vals _ K Hvals i' _ _ B' HS' Hff). symmetry. apply reference_blocks.
    + destruct HS' as [_ [S [[C _ _ _] _]] _ _ _ _ _]. apply (co_epoch _ _ _ _ _ _ _ _ C).
  - (* sealed by the m-th event *)
    cbn [app] in SG, CH.
    destruct (sf_some L nv' Sf) as [-> ->].
    set (Tm := fst (add_events vals [] (firstn m D))) in *.
    destruct (r_blocks_seg Tm _ _ SG) as [rest0 ER0].
    destruct (Seg_snoc Tm 0 _ seal SG Lp) as [B0f [a [EB0 HB0]]].
    destruct (map_eq_app_snoc fst B' B0f (seal, a) EB0) as [B0 [b [-> [EB1 Eb]]]].
    assert (Em : snd (reference vals (firstn m D)) = B0 ++ b :: map (fun x => (fst x, snd x, ElectionSpec.cheaters_of vals Tm (snd x))) rest0).
    { rewrite reference_blocks. unfold table. fold Tm. rewrite ER0, map_app. rewrite <- (cheat_map vals Tm (B0 ++ [b]) CH).
      rewrite <- app_assoc. reflexivity. }
    assert (ES : ref_epoch seal vals D = (firstn m (fst (reference vals D)) ++ repeat (7, 0) (length D - m), B0 ++ [b], true)).
    { apply (ref_epoch_sealed vals seal D m B0 b (map (fun x => (fst x, snd x, ElectionSpec.cheaters_of vals Tm (snd x))) rest0) Hacc Hff Hm); [|exact Em| |].
      - intros j Hj x Hx. apply sf_none. apply (Un j Hj). exact Hx.
      - intros x Hx. apply sf_none. apply NS. rewrite <- EB1 in HB0. apply HB0. apply in_map. exact Hx.
      - rewrite Eb. cbn [fst]. unfold sealb. rewrite N.eqb_refl. replace (seal =? 0) with false by lia. reflexivity. }
    rewrite ES. cbn [fst snd]. rewrite ER, ERI. split; [rewrite reference_codes; reflexivity|].
    exists c', es', []. split; [reflexivity | exact Hc'].
Qed.
End OneEpoch.

(* ================= Part 2: validator lists in any order; induction over the epochs ================= *)
From LV Require Import proofs.LinkPerm proofs.LinkEquiv proofs.LinkRaw.
From Coq Require Import Permutation.

Lemma seal_point_ext vals1 D1 vals2 D2 seal : length D1 = length D2 ->
  (forall j, (j <= length D1)%nat -> reaches vals1 seal (firstn j D1) = reaches vals2 seal (firstn j D2)) ->
  forall fuel lo hi, (lo <= hi)%nat -> (hi <= length D1)%nat ->
  seal_point fuel vals1 seal D1 lo hi = seal_point fuel vals2 seal D2 lo hi.
Proof.
  intros HL HR. induction fuel as [|fu IH]; intros lo hi Hlh Hh; cbn [seal_point]; [reflexivity|].
  destruct (Nat.leb hi (S lo)) eqn:E; [reflexivity|]. apply Nat.leb_gt in E.
  assert (Hmid : (lo < Nat.div2 (lo + hi) < hi)%nat).
  { pose proof (Nat.div2_odd (lo + hi)) as Ho. destruct (Nat.odd (lo + hi)); cbn [Nat.b2n] in Ho; lia. }
  rewrite (HR (Nat.div2 (lo + hi))) by lia.
  destruct (reaches vals2 seal (firstn (Nat.div2 (lo + hi)) D2)); apply IH; lia.
Qed.

Lemma valid_run_firstn vals D j : valid_run vals D -> valid_run vals (firstn j D).
Proof.
  intros [Hacc Hff]. destruct (Nat.le_gt_cases j (length D)) as [L|L].
  - destruct (firstn_facts vals D j L Hacc) as [A [I _]]. split; [exact A|]. eapply few_forkers_sub; [exact I | exact Hff].
  - rewrite firstn_all2 by lia. split; assumption.
Qed.

Lemma ref_epoch_pn vals seal D : canon_order (vals' vals) = seq 0 (length vals) -> valid_run vals D ->
  ref_epoch seal (vals' vals) (map (pe vals) D) = ref_epoch seal vals D.
Proof.
  intros Hcanon Valid. unfold ref_epoch.
  destruct (reference_pn vals Hcanon D Valid) as [_ ER]. rewrite ER.
  destruct (reference vals D) as [rs bs]. destruct (seal_cut seal bs) as [bs' sealed]. destruct sealed; [|reflexivity].
  rewrite map_length.
  rewrite (seal_point_ext (vals' vals) (map (pe vals) D) vals D seal); [reflexivity | apply map_length | | lia | rewrite map_length; lia].
  intros j Hj. unfold reaches. rewrite firstn_map.
  destruct (reference_pn vals Hcanon (firstn j D) (valid_run_firstn vals D j Valid)) as [_ ERj]. rewrite ERj. reflexivity.
Qed.

Section EpochRaw.
Variable cap : nat.
Variable ep : N.
Variable lam : fev -> N.
Variable vals : list (N * N).          (* the validators of the epoch, in any order *)
Hypothesis Raw : raw_ok vals.
Hypothesis Tot : v_total vals < 2 ^ 31.
Variable K : N.
Variable pol : policy.
Variable seal : N.
Variable nvs : Abft.vals.
Hypothesis Hpol : forall f a ch dl, policy_fn pol ep f a ch dl = if f =? seal then Some nvs else None.

Theorem epoch_raw D conf c es : valid_run vals D ->
  (forall e, In e D -> id_fresh K (eid (fe e))) -> c + N.of_nat (length D) <= K -> K < 2 ^ 192 ->
  let i0 := fresh_inst ep (mk_vals vals) conf c es in let ops := abft_ops ep lam vals D in
  let i' := run_inst cap pol sample i0 ops in
  render_ep (run cap pol sample i0 ops) = (fst (fst (ref_epoch seal vals D)), snd (fst (ref_epoch seal vals D))) /\
  (if snd (ref_epoch seal vals D)
   then exists c' es' conf', i' = fresh_inst (ep + 1) nvs conf' c' es' /\ c' <= c + N.of_nat (length D)
   else l_epoch (i_st i') = ep).
Proof.
  intros Valid Hfr HcK HK. cbn zeta.
  pose proof (canon_order_perm vals) as Hperm.
  assert (EV : mk_vals vals = vals' vals) by (apply mk_vals_canon; exact Raw).
  assert (Can : canonical (vals' vals)) by (rewrite <- EV; apply mk_vals_canonical; exact Raw).
  assert (Hcanon : canon_order (vals' vals) = seq 0 (length vals)).
  { rewrite (canon_order_canonical _ Can), (vals'_len vals). reflexivity. }
  assert (Vok : vals_ok (vals' vals)).
  { split; [exact Can|]. rewrite v_total_total. change VecIndex.total_weight with ElectionSpec.total_weight.
    rewrite (total_same vals). exact Tot. }
  destruct (reference_pn vals Hcanon D Valid) as [Valid' _].
  assert (Hcr : forall e, In e D -> (ecr (fe e) < length vals)%nat).
  { intros e He. destruct Valid as [Hacc _]. apply (accepted_cr vals _ _ (table_wfTD vals D Hacc) e). apply -> in_rev. exact He. }
  assert (Eops : abft_ops ep lam vals D = abft_ops ep (fun e' => lam (upe vals e')) (vals' vals) (map (pe vals) D)).
  { unfold abft_ops. rewrite !flat_map_concat_map, map_map. f_equal. apply map_ext_in. intros e He.
    assert (Eae : to_aevent ep (fun e' => lam (upe vals e')) (vals' vals) (pe vals e) = to_aevent ep lam vals e).
    { unfold to_aevent. cbn [pe fe ffr eid ecr eseq epar]. fold (pe vals e). rewrite (upe_pe vals e (Hcr e He)). f_equal. unfold vid.
      rewrite (vid_vals' vals _ (pos_lt _ _ Hperm _ (Hcr e He))), (unpos_pos _ _ Hperm _ (Hcr e He)). reflexivity. }
    rewrite Eae. reflexivity. }
  rewrite Eops, EV, <- (ref_epoch_pn vals seal D Hcanon Valid).
  pose proof (epoch_canon cap ep (fun e' => lam (upe vals e')) (vals' vals) Vok K pol seal nvs Hpol (map (pe vals) D) conf c es Valid') as EC.
  cbn zeta in EC. rewrite map_length in EC. apply EC; auto.
  intros e' He'. apply in_map_iff in He' as [e [<- He]]. apply (Hfr e He).
Qed.
End EpochRaw.

(* ---------- the model over several epochs ---------- *)
Fixpoint model_epochs (cap : nat) (lam : fev -> N) (pol : policy) (polr : N) (i : inst) (vals : list (N * N)) (ep : N)
  (Ds : list (list fev)) : list (list (N * N) * list (N * N * list N) * bool) :=
  match Ds with
  | [] => []
  | D :: rest =>
    let ops := abft_ops ep lam vals D in
    let r := render_ep (run cap pol sample i ops) in
    let i' := run_inst cap pol sample i ops in
    let sealed := negb (l_epoch (i_st i') =? ep) in
    (fst r, snd r, sealed) :: (if sealed then model_epochs cap lam pol polr i' (next_vals polr vals ep) (ep + 1) rest else [])
  end.

(* the sealing policy of the application that corresponds to the reference's (seal, polr) *)
Fixpoint mk_policy (seal polr : N) (vals : list (N * N)) (ep : N) (n : nat) : policy :=
  match n with
  | O => []
  | S n' => ((ep, seal), next_vals polr vals ep) :: mk_policy seal polr (next_vals polr vals ep) (ep + 1) n'
  end.
Fixpoint pol_ok (pol : policy) (seal polr : N) (vals : list (N * N)) (ep : N) (n : nat) : Prop :=
  match n with
  | O => True
  | S n' => (forall f a ch dl, policy_fn pol ep f a ch dl = if f =? seal then Some (mk_vals (next_vals polr vals ep)) else None) /\
            pol_ok pol seal polr (next_vals polr vals ep) (ep + 1) n'
  end.

Lemma find_app' {A} (g : A -> bool) (l1 l2 : list A) : find g (l1 ++ l2) = match find g l1 with Some x => Some x | None => find g l2 end.
Proof. induction l1 as [|a t IH]; cbn [app find]; [reflexivity|]. destruct (g a); [reflexivity | exact IH]. Qed.
Lemma find_none_epoch (p : policy) ep f : (forall x, In x p -> fst (fst x) <> ep) ->
  find (fun x : N * N * list (N * N) => (fst (fst x) =? ep) && (snd (fst x) =? f)) p = None.
Proof.
  induction p as [|x t IH]; intros H; cbn [find]; [reflexivity|].
  replace (fst (fst x) =? ep) with false by (symmetry; apply N.eqb_neq; apply H; left; reflexivity).
  cbn [andb]. apply IH. intros y Hy. apply H. right. exact Hy.
Qed.
Lemma mk_policy_epochs seal polr : forall n vals ep x, In x (mk_policy seal polr vals ep n) -> ep <= fst (fst x).
Proof.
  induction n as [|n IH]; intros vals ep x H; cbn [mk_policy] in H; [destruct H|].
  destruct H as [<-|H]; [cbn; lia | apply IH in H; lia].
Qed.
Lemma mk_policy_ok seal polr : forall n pre vals ep, (forall x, In x pre -> fst (fst x) < ep) ->
  pol_ok (pre ++ mk_policy seal polr vals ep n) seal polr vals ep n.
Proof.
  induction n as [|n IH]; intros pre vals ep Hpre; cbn [mk_policy pol_ok]; [exact I|]. split.
  - intros f a ch dl. unfold policy_fn. rewrite find_app'.
    rewrite (find_none_epoch pre ep f) by (intros x Hx; specialize (Hpre x Hx); lia).
    cbn [find fst snd]. rewrite N.eqb_refl. cbn [andb]. rewrite (N.eqb_sym seal f).
    destruct (f =? seal); [reflexivity|].
    rewrite (find_none_epoch _ ep f); [reflexivity|].
    intros x Hx. apply mk_policy_epochs in Hx. lia.
  - change (pre ++ ((ep, seal), next_vals polr vals ep) :: mk_policy seal polr (next_vals polr vals ep) (ep + 1) n)
      with (pre ++ [((ep, seal), next_vals polr vals ep)] ++ mk_policy seal polr (next_vals polr vals ep) (ep + 1) n).
    rewrite app_assoc. apply IH. intros x Hx. apply in_app_or in Hx as [Hx|[<-|[]]]; [specialize (Hpre x Hx); lia | cbn; lia].
Qed.

(* what is assumed of the epochs that are actually reached *)
Fixpoint epochs_ok (seal polr : N) (vals : list (N * N)) (ep : N) (Ds : list (list fev)) : Prop :=
  match Ds with
  | [] => True
  | D :: rest => raw_ok vals /\ v_total vals < 2 ^ 31 /\ valid_run vals D /\
                 (snd (ref_epoch seal vals D) = true -> epochs_ok seal polr (next_vals polr vals ep) (ep + 1) rest)
  end.
Definition total_events (Ds : list (list fev)) : nat := length (concat Ds).

Lemma model_epochs_sim cap lam pol seal polr K : K < 2 ^ 192 -> forall Ds vals ep conf c es,
  epochs_ok seal polr vals ep Ds -> pol_ok pol seal polr vals ep (length Ds) ->
  (forall D e, In D Ds -> In e D -> id_fresh K (eid (fe e))) -> c + N.of_nat (total_events Ds) <= K ->
  model_epochs cap lam pol polr (fresh_inst ep (mk_vals vals) conf c es) vals ep Ds = reference_epochs seal polr vals ep Ds.
Proof.
  intros HK. induction Ds as [|D rest IH]; intros vals ep conf c es OK PO Hfr Hc; [reflexivity|].
  cbn [epochs_ok] in OK. destruct OK as (Raw & Tot & Valid & OKn). cbn [pol_ok length] in PO. destruct PO as [Hpol POn].
  unfold total_events in Hc. cbn [concat] in Hc. rewrite app_length in Hc.
  destruct (epoch_raw cap ep lam vals Raw Tot K pol seal _ Hpol D conf c es Valid (fun e He => Hfr D e (or_introl eq_refl) He) ltac:(lia) HK)
    as [ER EI].
  rewrite reference_epochs_cons. cbn [model_epochs]. rewrite ER. cbn [fst snd].
  destruct (ref_epoch seal vals D) as [[rs' bs'] sealed]. cbn [fst snd] in *. destruct sealed.
  - destruct EI as [c' [es' [conf' [EI Hc']]]]. rewrite EI. cbn [fresh_inst i_st l_epoch].
    replace (ep + 1 =? ep) with false by (symmetry; apply N.eqb_neq; lia). cbn [negb]. f_equal.
    rewrite <- EI. rewrite EI. apply IH; [apply OKn; reflexivity | exact POn | |].
    + intros D0 e H0 He. apply (Hfr D0 e (or_intror H0) He).
    + unfold total_events. lia.
  - rewrite EI, N.eqb_refl. reflexivity.
Qed.

(* ================= L1 over several epochs ================= *)
Theorem link_epochs cap lam seal polr vals Ds K :
  epochs_ok seal polr vals 1 Ds ->
  (forall D e, In D Ds -> In e D -> id_fresh K (eid (fe e))) -> N.of_nat (total_events Ds) <= K -> K < 2 ^ 192 ->
  model_epochs cap lam (mk_policy seal polr vals 1 (length Ds)) polr (start 1 vals) vals 1 Ds = reference_epochs seal polr vals 1 Ds.
Proof.
  intros OK Hfr Hc HK.
  change (start 1 vals) with (fresh_inst 1 (mk_vals vals) [] 0 []).
  apply (model_epochs_sim cap lam _ seal polr K HK Ds vals 1 [] 0 [] OK); [|exact Hfr | lia].
  apply (mk_policy_ok seal polr (length Ds) [] vals 1). intros x [].
Qed.
