(* L1 across epochs.  Part 1: one epoch of the model with a sealing policy = one element of
   reference_epochs (canonical validator list). *)
From Coq Require Import NArith ZArith List Lia Bool ZifyBool ZifyN ZifyNat.
From LV Require Import lib.Bytes lib.VecListFacts model.Codec model.VecIndex model.Abft model.AbftRun spec.ElectionSpec
  proofs.AbftBuild
  proofs.BftCore proofs.BftElection proofs.BftMono proofs.BftGraph proofs.BftMain proofs.BftRun proofs.BftAccept proofs.BftProps
  proofs.LinkVals proofs.LinkDefs proofs.LinkSim proofs.LinkVote proofs.LinkElect proofs.LinkStep proofs.LinkBuild
  proofs.LinkRun proofs.LinkNoise proofs.LinkEpoch proofs.LinkSeal.
Import ListNotations.
Local Open Scope N_scope.

Lemma map_eq_app_snoc {A B} (g : A -> B) (l : list A) : forall l0 y, map g l = l0 ++ [y] ->
  exists l1 x, l = l1 ++ [x] /\ map g l1 = l0 /\ g x = y.
Proof.
  induction l as [|a t IH]; intros l0 y H; cbn [map] in H; [destruct l0; discriminate|].
  destruct l0 as [|z l0]; cbn [app] in H.
  - inversion H as [[E1 E2]]. apply map_eq_nil in E2. subst t. exists [], a. auto.
  - inversion H as [[E1 E2]]. destruct (IH l0 y E2) as [l1 [x [-> [E3 E4]]]]. exists (a :: l1), x. cbn [app map]. rewrite E3. auto.
Qed.

Section OneEpoch.
Variable cap : nat.
Variable ep : N.
Variable lam : fev -> N.
Variable vals : list (N * N).
Hypothesis Hvals : vals_ok vals.
Variable K : N.
Variable pol : policy.
Variable seal : N.
Variable nvs : Abft.vals.      (* the validators of the next epoch *)
Hypothesis Hpol : forall f a ch dl, policy_fn pol ep f a ch dl = if f =? seal then Some nvs else None.

Notation sf := (fun f => policy_fn pol ep f 0 [] []).
Notation nv := (length vals).
Notation fcn := (fc_n (map snd vals) (ElectionSpec.quorum_of (map snd vals))).
Notation decideT T f := (decide node nd_id nd_cr nd_fr nd_spf fcn (map snd vals) (ElectionSpec.quorum_of (map snd vals)) (canon_order vals) T f (max_frame node nd_fr T)).

Lemma sf_none f : sf f = None -> sealb seal f = false.
Proof. cbn beta. rewrite Hpol. unfold sealb. destruct (f =? seal); [discriminate | reflexivity]. Qed.
Lemma sf_some f x : sf f = Some x -> f = seal /\ x = nvs.
Proof. cbn beta. rewrite Hpol. destruct (f =? seal) eqn:E; [|discriminate]. intros H. inversion H. apply N.eqb_eq in E. auto. Qed.

(* the decided frames are an initial segment of the reference's blocks *)
Lemma blocks_from_seg T : forall B L0 L1 fuel, Seg vals T L0 B L1 -> (length B <= fuel)%nat ->
  exists rest, blocks_from node nd_id nd_cr nd_fr nd_spf fcn (map snd vals) (ElectionSpec.quorum_of (map snd vals)) (canon_order vals) T fuel (L0 + 1) = B ++ rest.
Proof.
  intros B L0 L1 fuel HS. revert fuel. induction HS as [L|L a t L1 Hd Hs IH]; intros fuel Hl; [eexists; reflexivity|].
  destruct fuel as [|fu]; [cbn [length] in Hl; lia|]. cbn [blocks_from]. rewrite Hd.
  destruct (IH fu ltac:(cbn [length] in Hl; lia)) as [rest E]. exists rest. cbn [app]. rewrite E. reflexivity.
Qed.
Lemma r_blocks_seg T B L : Seg vals T 0 B L -> exists rest, r_blocks vals T = B ++ rest.
Proof.
  intros HS. unfold r_blocks, blocks_spec. apply (blocks_from_seg T B 0 L _ HS).
  destruct (seg_bound vals T 0 B L HS) as [EL [->|BD]]; [cbn; lia | lia].
Qed.
Lemma Seg_snoc T : forall L0 B L1, Seg vals T L0 B L1 -> L0 < L1 ->
  exists B0 a, B = B0 ++ [(L1, a)] /\ forall x, In x B0 -> L0 < fst x <= L1 - 1.
Proof.
  induction 1 as [L|L a t L1 Hd Hs IH]; intros Lt; [lia|].
  pose proof (Seg_le vals T _ _ _ Hs) as Le.
  destruct (N.eq_dec (L + 1) L1) as [<-|NE].
  - inversion Hs; subst; [|pose proof (Seg_le vals T _ _ _ H0); lia]. exists [], a. split; [reflexivity | intros x []].
  - destruct IH as [B0 [a0 [-> H0]]]; [lia|]. exists ((L + 1, a) :: B0), a0. split; [reflexivity|].
    intros x [<-|Hx]; [cbn [fst]; lia | specialize (H0 x Hx); lia].
Qed.

(* the instance at the beginning of an epoch *)
Definition fresh_inst (conf : list (N * N)) (c : N) (es : estore) : inst :=
  {| i_st := {| l_epoch := ep; l_vals := vals; l_ldf := 0; l_roots := []; l_conf := conf; l_idx := init nv;
                l_fcc := []; l_el := el_reset vals 1; l_ctr := c |}; i_es := es; i_proc := [] |}.

Theorem epoch_canon D conf c es : valid_run vals D ->
  (forall e, In e D -> id_fresh K (eid (fe e))) -> c + N.of_nat (length D) <= K -> K < 2 ^ 192 ->
  let i0 := fresh_inst conf c es in let ops := abft_ops ep lam vals D in
  let i' := run_inst cap pol sample i0 ops in
  render_ep (run cap pol sample i0 ops) = (fst (fst (ref_epoch seal vals D)), snd (fst (ref_epoch seal vals D))) /\
  (if snd (ref_epoch seal vals D)
   then exists c' es' conf', i' = {| i_st := {| l_epoch := ep + 1; l_vals := nvs; l_ldf := 0; l_roots := []; l_conf := conf';
                                                  l_idx := init (length nvs); l_fcc := []; l_el := el_reset nvs 1; l_ctr := c' |};
                                       i_es := es'; i_proc := [] |} /\ c' <= c + N.of_nat (length D)
   else l_epoch (i_st i') = ep).
Proof.
  intros [Hacc Hff] Hfr HcK HK. cbn zeta.
  destruct D as [|e0 D0].
  { cbn [abft_ops flat_map run run_inst render_ep]. unfold ref_epoch. cbn. split; reflexivity. }
  set (D := e0 :: D0) in *.
  assert (Hnv : (0 < nv)%nat).
  { unfold all_accepted in Hacc. unfold D in Hacc. cbn [add_events] in Hacc.
    destruct (add_event vals [] e0) as [T1 r] eqn:AE. destruct (add_events vals T1 D0) as [T2 rs].
    cbn [snd] in Hacc. assert (Hr : fst r = 0) by (apply Hacc; left; reflexivity). destruct r as [c0 h]. cbn in Hr. subst c0.
    destruct (add_event_accept vals [] e0 T1 h AE) as (_ & _ & _ & CR & _). lia. }
  pose proof (Sim_fresh ep lam vals Hvals (fun _ => False) K (fun a (F : False) => match F with end) conf c es ltac:(lia) Hnv) as HS0.
  destruct (epoch_sim cap ep lam vals Hvals (fun _ => False) K (fun a (F : False) => match F with end) pol D
              (fresh_inst conf c es) [] [] [] HS0 Hacc (fun e He => conj (Hfr e He) (fun F => F)) Hff)
    as [(i' & B' & ER & ERI & HS' & NS' & Ct' & Un)|(m & B' & L & nv' & es' & c' & Hm & ER & ERI & Hc' & SG & CH & Sf & NS & Lp & Un)].
  { cbn [fresh_inst i_st l_ctr]. lia. }
  { cbn [fresh_inst i_st l_ctr]. lia. }
  { intros f Hf. cbn [fresh_inst i_st l_ldf] in Hf. lia. }
  - (* the epoch is not sealed *)
    unfold table in Hff.
    assert (EU : ref_epoch seal vals D = (fst (reference vals D), snd (reference vals D), false)).
    { apply ref_epoch_unsealed. intros b Hb. apply sf_none. apply (Un (length D) (le_n _)). rewrite firstn_all. exact Hb. }
    rewrite EU. cbn [fst snd]. rewrite ER, ERI. split.
    + f_equal; [symmetry; apply reference_codes|].
      cbn [app] in HS'. rewrite (final_blocks cap ep lam vals _ K Hvals i' _ _ B' HS' Hff). symmetry. apply reference_blocks.
    + destruct HS' as [_ [S [[C _ _ _] _]] _ _ _ _ _]. apply (co_epoch _ _ _ _ _ _ _ _ C).
  - (* sealed by the m-th event *)
    cbn [app] in SG, CH.
    destruct (sf_some L nv' Sf) as [-> ->].
    set (Tm := fst (add_events vals [] (firstn m D))) in *.
    destruct (r_blocks_seg Tm _ _ SG) as [rest0 ER0].
    destruct (Seg_snoc Tm 0 _ seal SG Lp) as [B0f [a [EB0 HB0]]].
    destruct (map_eq_app_snoc fst B' B0f (seal, a) EB0) as [B0 [b [-> [EB1 Eb]]]].
    assert (Em : snd (reference vals (firstn m D)) = B0 ++ b :: map (fun x => (fst x, snd x, ElectionSpec.cheaters_of vals Tm (snd x))) rest0).
    { rewrite reference_blocks. unfold table. fold Tm. rewrite ER0, map_app. rewrite <- (cheat_map vals Tm (B0 ++ [b]) CH).
      rewrite <- app_assoc. reflexivity. }
    assert (ES : ref_epoch seal vals D = (firstn m (fst (reference vals D)) ++ repeat (7, 0) (length D - m), B0 ++ [b], true)).
    { apply (ref_epoch_sealed vals seal D m B0 b (map (fun x => (fst x, snd x, ElectionSpec.cheaters_of vals Tm (snd x))) rest0) Hacc Hff Hm); [|exact Em| |].
      - intros j Hj x Hx. apply sf_none. apply (Un j Hj). exact Hx.
      - intros x Hx. apply sf_none. apply NS. rewrite <- EB1 in HB0. apply HB0. apply in_map. exact Hx.
      - rewrite Eb. cbn [fst]. unfold sealb. rewrite N.eqb_refl. replace (seal =? 0) with false by lia. reflexivity. }
    rewrite ES. cbn [fst snd]. rewrite ER, ERI. split; [rewrite reference_codes; reflexivity|].
    exists c', es', []. split; [reflexivity | exact Hc'].
Qed.
End OneEpoch.
