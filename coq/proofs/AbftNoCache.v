(* With ForklessCausePairs = 0 the forkless-cause cache stays empty. *)
From Coq Require Import NArith List Bool.
From LV Require Import model.VecIndex model.Abft model.AbftRun.
Import ListNotations.
Local Open Scope N_scope.

Definition nilc (st : lstate) : Prop := l_fcc st = [].

Section NoCache.
Variable eb : N -> N -> N -> list N -> list N -> option vals.

Lemma fc_cached0 st a b : nilc st -> nilc (snd (fc_cached 0 st a b)).
Proof. unfold nilc, fc_cached. intros H. rewrite H. cbn. reflexivity. Qed.

Lemma observed_loop0 rid : forall frs st acc, nilc st -> nilc (snd (observed_loop 0 st rid frs acc)).
Proof.
  induction frs as [|fr t IH]; intros st acc H; cbn [observed_loop snd]; auto.
  pose proof (fc_cached0 st rid (r_id fr) H) as H1. destruct (fc_cached 0 st rid (r_id fr)) as [b st1]. apply IH. exact H1.
Qed.

Lemma process_root0 st nr : nilc st -> nilc (snd (process_root 0 st nr)).
Proof.
  intros H. unfold process_root. destruct (choose_atropos (l_el st)) as [[r|]|x]; cbn [snd]; auto.
  destruct (r_frame nr <=? el_frame (l_el st)); cbn [snd]; auto.
  unfold observed_roots. pose proof (observed_loop0 (r_id nr) (get_frame_roots st (r_frame nr - 1)) st [] H) as H1.
  destruct (observed_loop 0 st (r_id nr) (get_frame_roots st (r_frame nr - 1)) []) as [obs st1]. cbn [snd] in H1.
  destruct (vote_subjects _ _ _ _ _) as [e el']. destruct e; cbn [snd]; exact H1.
Qed.

Lemma pkr_frame0 : forall frs st, nilc st -> nilc (snd (pkr_frame 0 st frs)).
Proof.
  induction frs as [|r t IH]; intros st H; cbn [pkr_frame snd]; auto.
  pose proof (process_root0 st r H) as H1. destruct (process_root 0 st r) as [[[d|]|x] st1]; cbn [snd] in *; auto.
Qed.

Lemma process_known_roots0 : forall fuel st f, nilc st -> nilc (snd (process_known_roots 0 fuel st f)).
Proof.
  induction fuel as [|fu IH]; intros st f H; cbn [process_known_roots snd]; auto.
  pose proof (pkr_frame0 (get_frame_roots st f) st H) as H1.
  destruct (pkr_frame 0 st (get_frame_roots st f)) as [[[d|]|x] st1]; cbn [snd] in *; auto.
  destruct (get_frame_roots st f); cbn [snd]; auto.
Qed.

Lemma on_frame_decided0 es st f atr : nilc st -> nilc (snd (on_frame_decided eb es st f atr)).
Proof.
  intros H. unfold on_frame_decided, apply_atropos.
  destruct (dfs_confirm _ _ _ _ _ _) as [[dl conf']|x]; cbn [snd]; auto.
  cbn [b_seal]. destruct (eb _ _ _ _ _); cbn [snd]; unfold nilc in *; cbn; auto.
Qed.

Lemma bootstrap_election0 es : forall fuel st bl, nilc st -> nilc (snd (bootstrap_election 0 eb fuel es st bl)).
Proof.
  induction fuel as [|fu IH]; intros st bl H; cbn [bootstrap_election snd]; auto.
  pose proof (process_known_roots0 (roots_fuel st) st (l_ldf st + 1) H) as H1.
  destruct (process_known_roots 0 (roots_fuel st) st (l_ldf st + 1)) as [[[[df atr]|]|x] st1]; cbn [snd] in *; auto.
  pose proof (on_frame_decided0 es st1 df atr H1) as H2.
  destruct (on_frame_decided eb es st1 df atr) as [[[sealed blk]|x] st2]; cbn [snd] in *; auto.
  destruct sealed; cbn [snd]; auto.
Qed.

Lemma handle_election0 es e : forall fuel st f bl, nilc st -> nilc (snd (handle_election 0 eb fuel es st e f bl)).
Proof.
  induction fuel as [|fu IH]; intros st f bl H; cbn [handle_election snd]; auto.
  destruct (a_frame e <? f); cbn [snd]; auto.
  pose proof (process_root0 st (f, a_creator e, a_id e) H) as H1.
  destruct (process_root 0 st (f, a_creator e, a_id e)) as [[[[df atr]|]|x] st1]; cbn [snd] in *; auto.
  pose proof (on_frame_decided0 es st1 df atr H1) as H2.
  destruct (on_frame_decided eb es st1 df atr) as [[[sealed blk]|x] st2]; cbn [snd] in *; auto.
  destruct sealed; cbn [snd]; auto.
  pose proof (bootstrap_election0 es (roots_fuel st2) st2 (bl ++ [blk]) H2) as H3.
  destruct (bootstrap_election 0 eb (roots_fuel st2) es st2 (bl ++ [blk])) as [[[s2|x] bl2] st3]; cbn [snd] in *; auto.
  destruct s2; cbn [snd]; auto.
Qed.

Lemma fcq_loop0 a : forall frs st c, nilc st -> nilc (snd (fcq_loop 0 st a frs c)).
Proof.
  induction frs as [|r t IH]; intros st c H; cbn [fcq_loop snd]; auto.
  pose proof (fc_cached0 st a (r_id r) H) as H1. destruct (fc_cached 0 st a (r_id r)) as [b st1]. cbn [snd] in H1.
  destruct (has_quorum _ _); cbn [snd]; auto.
Qed.
Lemma calc_loop0 e maxf : forall fuel st f, nilc st -> nilc (snd (calc_loop 0 fuel st e f maxf)).
Proof.
  induction fuel as [|fu IH]; intros st f H; cbn [calc_loop snd]; auto.
  destruct (negb (f <? maxf)); cbn [snd]; auto. unfold fc_by_quorum_on.
  pose proof (fcq_loop0 (a_id e) (get_frame_roots st f) st (new_counter (l_vals st)) H) as H1.
  destruct (fcq_loop 0 st (a_id e) (get_frame_roots st f) (new_counter (l_vals st))) as [b st1]. cbn [snd] in H1.
  destruct b; cbn [snd]; auto.
Qed.
Lemma calc_frame0 es st e co : nilc st -> nilc (snd (calc_frame 0 es st e co)).
Proof.
  intros H. unfold calc_frame.
  destruct (match a_self_parent e with
            | Some sp => match get_event es sp with Some pe => Ok (a_frame pe) | None => Err EPanic end
            | None => Ok 0 end) as [spf|x]; cbn [snd]; auto.
  pose proof (calc_loop0 e (if co then a_frame e else spf + 100) (roots_fuel st) st spf H) as H1.
  destruct (calc_loop 0 (roots_fuel st) st e spf (if co then a_frame e else spf + 100)) as [[f|] st1]; cbn [snd] in *; auto.
Qed.

Lemma process0 es st e : nilc st -> nilc (snd (process 0 eb es st e)).
Proof.
  intros H. unfold process. destruct (add (l_idx st) (vev (l_vals st) e)) as [s'|]; cbn [snd]; auto.
  pose proof (calc_frame0 es (set_idx st s') e true H) as H1.
  destruct (calc_frame 0 es (set_idx st s') e true) as [[[spf fr]|x] st1]; cbn [snd] in *; auto.
  destruct (negb (a_frame e =? fr)); cbn [snd]; auto.
  assert (H2 : nilc (if spf =? fr then st1 else add_roots st1 spf e)) by (destruct (spf =? fr); auto).
  pose proof (handle_election0 es e (S (S (N.to_nat (a_frame e - spf)))) _ (spf + 1) [] H2) as H3.
  destruct (handle_election 0 eb _ es _ e (spf + 1) []) as [[r2 bl2] st3]. cbn [snd] in H3. destruct r2; cbn [snd]; auto.
Qed.

Lemma build_with0 smp es st e : nilc st -> nilc (snd (build_with 0 smp es st e)).
Proof.
  intros H. unfold build_with. destruct (smp (l_ctr st + 1)); cbn [snd]; auto.
  destruct (add _ _) as [s'|]; cbn [snd]; auto. destruct (negb _ || negb _); cbn [snd]; auto.
  match goal with |- context [calc_frame 0 es ?stw ?ee false] =>
    pose proof (calc_frame0 es stw ee false H) as H1; destruct (calc_frame 0 es stw ee false) as [[[spf fr]|x] st1] end;
    cbn [snd] in *; auto.
Qed.

End NoCache.
