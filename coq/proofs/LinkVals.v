(* L1 (model of abft refines the reference), brick 0: validators.
   The model (model/Abft.v) identifies validators by ID and keeps them in the canonical order
   (weight desc, id asc: mk_vals); the reference (spec/ElectionSpec.v) identifies them by their
   position in the list it is given and computes the canonical order separately (canon_order).
   For a validator list that already is in canonical form (mk_vals vals = vals) the two views
   coincide: position = v_idx, canon_order = 0,1,..,n-1, the weight counters of inter/pos
   (vsum, by validator id) are the weighted sums of the reference (wsP, by position), and the
   uint32 quorum equals the unbounded one when the total weight stays below 2^31 (the bound
   enforced by pos.ValidatorsBuilder.Build). *)
From Coq Require Import NArith ZArith List Lia Bool ZifyBool ZifyN ZifyNat Permutation.
From LV Require Import model.VecIndex model.Abft lib.WSumBft spec.ElectionSpec
  proofs.AbftFrame proofs.AbftCount proofs.AbftInvLemmas proofs.BftMain.
Import ListNotations.
Local Open Scope N_scope.
Ltac Zify.zify_post_hook ::= Z.div_mod_to_equations.

(* validator id at a position *)
Definition vid (vals : list (N * N)) (i : nat) : N := fst (nth i vals (0, 0)).

Definition canonical (vals : list (N * N)) : Prop := mk_vals vals = vals.
Definition vals_ok (vals : list (N * N)) : Prop := canonical vals /\ v_total vals < 2 ^ 31.

(* ---------- positions and ids ---------- *)
Lemma canonical_nodup vals : canonical vals -> NoDup (v_ids vals).
Proof. intros H. rewrite <- H. apply mk_vals_nodup. Qed.

Lemma v_idx_vid vals i : NoDup (v_ids vals) -> (i < length vals)%nat -> v_idx vals (vid vals i) = i.
Proof.
  intros ND Hi. unfold v_idx. rewrite (v_find_nth vals 0 (vid vals i) i ND Hi eq_refl). reflexivity.
Qed.
Lemma v_exists_vid vals i : NoDup (v_ids vals) -> (i < length vals)%nat -> v_exists vals (vid vals i) = true.
Proof.
  intros ND Hi. unfold v_exists. rewrite (v_find_nth vals 0 (vid vals i) i ND Hi eq_refl). reflexivity.
Qed.
Lemma v_find_key : forall l id k0 j, v_find l id k0 = Some j -> fst (nth (j - k0) l (0, 0)) = id.
Proof.
  induction l as [|[x w] t IH]; intros id k0 j H; cbn [v_find] in H; [discriminate|].
  destruct (x =? id) eqn:E.
  - inversion H; subst. rewrite Nat.sub_diag. cbn. apply N.eqb_eq. exact E.
  - pose proof (v_find_lt _ _ _ _ H). replace (j - k0)%nat with (S (j - S k0)) by lia. cbn [nth]. apply IH. exact H.
Qed.
Lemma vid_v_idx vals id : v_exists vals id = true -> vid vals (v_idx vals id) = id /\ (v_idx vals id < length vals)%nat.
Proof.
  unfold v_exists, v_idx, vid. destruct (v_find vals id 0) as [j|] eqn:F; [|discriminate]. intros _.
  pose proof (v_find_key _ _ _ _ F) as K. rewrite Nat.sub_0_r in K. split; [exact K|].
  apply v_find_lt in F. lia.
Qed.
Lemma vid_inj vals i j : NoDup (v_ids vals) -> (i < length vals)%nat -> (j < length vals)%nat ->
  vid vals i = vid vals j -> i = j.
Proof.
  intros ND Hi Hj E. rewrite <- (v_idx_vid vals i ND Hi), <- (v_idx_vid vals j ND Hj), E. reflexivity.
Qed.
Lemma v_ids_vid vals : v_ids vals = map (vid vals) (seq 0 (length vals)).
Proof.
  unfold v_ids, vid. induction vals as [|a t IH]; cbn [map length seq]; [reflexivity|].
  cbn [nth]. f_equal. rewrite <- seq_shift, map_map. cbn [nth]. exact IH.
Qed.

(* ---------- weights ---------- *)
Lemma vsum_wsl : forall (v : vals) (k : nat) (P : N -> bool) (Q : nat -> bool),
  (forall i, (i < length v)%nat -> Q (k + i)%nat = P (fst (nth i v (0, 0)))) ->
  vsum v P = wsl k (map snd v) Q.
Proof.
  induction v as [|[x w] t IH]; intros k P Q H; cbn [vsum map wsl snd]; [reflexivity|].
  pose proof (H 0%nat ltac:(cbn; lia)) as H0. cbn in H0. rewrite Nat.add_0_r in H0. rewrite H0.
  f_equal. apply IH. intros i Hi. replace (S k + i)%nat with (k + S i)%nat by lia. apply (H (S i)). cbn. lia.
Qed.
(* inter/pos weight of the validators (by id) satisfying P = reference sum over their positions *)
Lemma vsum_wsP (v : vals) (P : N -> bool) : vsum v P = wsP (map snd v) (fun i => P (vid v i)).
Proof. rewrite wsP_wsl. apply vsum_wsl. intros i Hi. reflexivity. Qed.

Lemma v_total_total v : v_total v = total_weight (map snd v).
Proof. reflexivity. Qed.
Lemma v_quorum_eq v : v_total v < 2 ^ 31 -> v_quorum v = quorum_of (map snd v).
Proof.
  intros H. unfold v_quorum, quorum_of. rewrite <- v_total_total.
  rewrite N.mod_small; [reflexivity|]. change (2 ^ 32) with (2 * 2 ^ 31). lia.
Qed.

(* ---------- canonical order ---------- *)
Fixpoint asorted (l : vals) : Prop :=
  match l with
  | a :: (b :: _) as t => val_lt a b = true /\ asorted t
  | _ => True
  end.
Lemma val_lt_total a b : fst a <> fst b -> val_lt a b = false -> val_lt b a = true.
Proof.
  unfold val_lt. intros Hne H. destruct (snd a =? snd b) eqn:E.
  - apply N.eqb_eq in E. rewrite E, N.eqb_refl. lia.
  - rewrite N.eqb_sym, E. lia.
Qed.
Lemma v_insert_sorted x : forall l, asorted l -> (forall y, In y l -> fst y <> fst x) -> asorted (v_insert x l).
Proof.
  induction l as [|y t IH]; intros S Hne; cbn [v_insert]; [exact I|].
  destruct (val_lt x y) eqn:L.
  - cbn [asorted]. split; [exact L | exact S].
  - assert (Lyx : val_lt y x = true).
    { apply val_lt_total; [intros E; apply (Hne y (or_introl eq_refl)); symmetry; exact E | exact L]. }
    assert (St : asorted t) by (destruct t; [exact I | apply S]).
    specialize (IH St (fun z Hz => Hne z (or_intror Hz))).
    destruct t as [|z t'].
    + cbn [v_insert asorted]. auto.
    + cbn [v_insert] in *. destruct (val_lt x z) eqn:Lz.
      * cbn [asorted] in *. split; [exact Lyx|]. exact IH.
      * cbn [asorted] in S |- *. split; [apply S|]. exact IH.
Qed.
Lemma sort_sorted : forall b : vals, NoDup (map fst b) -> asorted (fold_right v_insert [] b).
Proof.
  induction b as [|x t IH]; intros ND; cbn [fold_right]; [exact I|].
  cbn [map] in ND. apply NoDup_cons_iff in ND as [Hn ND]. apply v_insert_sorted; [apply IH; exact ND|].
  intros y Hy E. apply Hn. rewrite <- E. apply in_map.
  assert (P : forall l : vals, Permutation (fold_right v_insert [] l) l).
  { induction l as [|z l IHl]; cbn [fold_right]; [reflexivity|]. rewrite v_insert_perm. constructor. exact IHl. }
  eapply Permutation_in; [apply P | exact Hy].
Qed.
Lemma mk_vals_sorted raw : asorted (mk_vals raw).
Proof.
  unfold mk_vals. apply sort_sorted.
  assert (G : forall l acc, NoDup (map fst acc) ->
                NoDup (map fst (fold_left (fun b p => builder_set b (fst p) (snd p)) l acc))).
  { induction l as [|p t IH]; intros acc H; cbn [fold_left]; auto. apply IH. apply builder_set_nodup. exact H. }
  apply G. constructor.
Qed.
Lemma canonical_sorted vals : canonical vals -> asorted vals.
Proof. intros H. rewrite <- H. apply mk_vals_sorted. Qed.

(* the reference's canonical order of a canonical list is the identity *)
Lemma vinsert_head x l : match l with [] => True | y :: _ => vbefore x y = true end -> vinsert x l = x :: l.
Proof. destruct l as [|y t]; cbn [vinsert]; [reflexivity|]. intros ->. reflexivity. Qed.
Lemma sort_combine_sorted : forall (l : vals) s, asorted l ->
  fold_right vinsert [] (combine (seq s (length l)) l) = combine (seq s (length l)) l.
Proof.
  induction l as [|a t IH]; intros s HS; cbn [length seq combine fold_right]; [reflexivity|].
  assert (St : asorted t) by (destruct t; [exact I | apply HS]).
  rewrite (IH (S s) St). apply vinsert_head.
  destruct t as [|b t']; cbn [length seq combine]; [exact I|].
  cbn [asorted] in HS. destruct HS as [L _]. unfold vbefore. cbn [snd fst]. exact L.
Qed.
Lemma canon_order_canonical vals : canonical vals -> canon_order vals = seq 0 (length vals).
Proof.
  intros C. unfold canon_order. rewrite sort_combine_sorted by (apply canonical_sorted; exact C).
  assert (G : forall (l : list (N * N)) s, map fst (combine (seq s (length l)) l) = seq s (length l)).
  { induction l as [|a t IH]; intros s; cbn [length seq combine map fst]; [reflexivity|]. f_equal. apply IH. }
  apply G.
Qed.

(* the model's validator ids in its iteration order = the reference's canonical order, as ids *)
Lemma v_ids_canon vals : canonical vals -> v_ids vals = map (vid vals) (canon_order vals).
Proof. intros C. rewrite canon_order_canonical by exact C. apply v_ids_vid. Qed.
