(* C14: invariants of the (repaired) ordering-buffer model, part 2: pushEvent's recursion,
   spill, PushEvent, Clear, and the invariant over every operation sequence. *)
From Coq Require Import NArith List Bool Lia Arith.
From LV Require Import model.Buffer spec.BufferSpec proofs.BufferInv.
Import ListNotations.
Local Open Scope N_scope.

Lemma NoDup_map_inj_in : forall {A B} (f : A -> B) l x y,
  NoDup (map f l) -> In x l -> In y l -> f x = f y -> x = y.
Proof.
  intros A B f l; induction l as [|a l IH]; simpl; intros x y H Hx Hy E; [contradiction|].
  inversion H as [|? ? Hn Hd]; subst.
  destruct Hx as [Hx|Hx], Hy as [Hy|Hy]; subst; auto.
  - exfalso; apply Hn. rewrite E. apply in_map; auto.
  - exfalso; apply Hn. rewrite <- E. apply in_map; auto.
Qed.

(* number of snapshot entries not yet released: the recursion depth still possible *)
Definition unrel (snap : list entry) (s : st) : nat :=
  length (filter (fun y => negb (memN (cid y) (released s))) snap).

Lemma filter_len_mono : forall {A} (p q : A -> bool) l,
  (forall x, In x l -> q x = true -> p x = true) ->
  (length (filter q l) <= length (filter p l))%nat.
Proof.
  intros A p q l; induction l as [|a l IH]; simpl; intros H; auto.
  assert (IH' := IH (fun x Hx => H x (or_intror Hx))).
  destruct (q a) eqn:Q.
  - rewrite (H a (or_introl eq_refl) Q). simpl. lia.
  - destruct (p a); simpl; lia.
Qed.
Lemma filter_len_strict : forall {A} (p q : A -> bool) l x,
  (forall x, In x l -> q x = true -> p x = true) -> In x l -> p x = true -> q x = false ->
  (length (filter q l) < length (filter p l))%nat.
Proof.
  intros A p q l; induction l as [|a l IH]; simpl; intros x H Hx Px Qx; [contradiction|].
  assert (M := filter_len_mono p q l (fun x Hx => H x (or_intror Hx))).
  destruct Hx as [Hx|Hx].
  - subst. rewrite Px, Qx. simpl. lia.
  - assert (IH' := IH x (fun x Hx => H x (or_intror Hx)) Hx Px Qx).
    destruct (q a) eqn:Q.
    + rewrite (H a (or_introl eq_refl) Q). simpl. lia.
    + destruct (p a); simpl; lia.
Qed.
Lemma unrel_mono : forall snap s s', incl (released s) (released s') -> (unrel snap s' <= unrel snap s)%nat.
Proof.
  intros snap s s' H. unfold unrel. apply filter_len_mono. intros x _ Q.
  apply negb_true_iff in Q. apply negb_true_iff. apply memN_false in Q. apply memN_false.
  intros C; apply Q; apply H; exact C.
Qed.
Lemma unrel_dec : forall snap s s' x, incl (released s) (released s') -> In x snap ->
  ~ In (cid x) (released s) -> In (cid x) (released s') -> (unrel snap s' < unrel snap s)%nat.
Proof.
  intros snap s s' x H Hx N1 N2. unfold unrel. apply filter_len_strict with (x := x); auto.
  - intros y _ Q. apply negb_true_iff in Q. apply negb_true_iff. apply memN_false in Q. apply memN_false.
    intros C; apply Q; apply H; exact C.
  - apply negb_true_iff. apply memN_false; auto.
  - apply negb_false_iff. apply memN_In; auto.
Qed.
Lemma unrel_pos : forall snap s x, In x snap -> ~ In (cid x) (released s) -> (1 <= unrel snap s)%nat.
Proof.
  intros snap s x Hx N1. unfold unrel.
  assert (In x (filter (fun y => negb (memN (cid y) (released s))) snap)).
  { apply filter_In; split; auto. apply negb_true_iff. apply memN_false; auto. }
  destruct (filter _ snap); simpl in *; [contradiction | lia].
Qed.
Lemma unrel_le_len : forall snap s, (unrel snap s <= length snap)%nat.
Proof.
  intros snap s; unfold unrel. induction snap as [|a l IH]; simpl; auto.
  destruct (negb (memN (cid a) (released s))); simpl; lia.
Qed.

Lemma complete_conn : forall s x, complete s x = true -> forall p, In p (pars x) -> In p (connected s).
Proof.
  intros s x H p Hp. unfold complete in H. rewrite forallb_forall in H.
  apply H in Hp. unfold is_connected in Hp. apply memN_In; exact Hp.
Qed.

Section WithOracles.
  Variable fc fp : list out -> entry -> bool.

  (* processCompleteEvent followed by releaseEvent *)
  Lemma process_release : forall cs p p' s x,
    wf_cs cs -> Inv cs p s -> In x cs -> ~ In (cid x) (released s) -> complete s x = true ->
    incl p p' -> (In x (inc s) -> In x p') ->
    let s2 := release (fst (process_complete fc fp s x)) x in
    Inv cs p' s2 /\ inc s2 = inc s /\ released s2 = cid x :: released s /\ next s2 = next s
    /\ oof s2 = oof s.
  Proof.
    intros cs p p' s x W I Hx Nr Hc Hp Hxp. pose proof (complete_conn s x Hc) as Hpar.
    assert (L : lookup cs (cid x) = Some x) by (apply lookup_in; auto).
    assert (M : memN (cid x) (released s) = false) by (apply memN_false; auto).
    destruct I. unfold process_complete.
    destruct (fc (log s) x).
    - (* Check failed *)
      cbn [fst].
      assert (I1 : Inv cs p (drop (emit s (OCheck (cid x) (eid x) false)) (cid x) 2)).
      { eapply Inv_same_core; [apply same_core_drop|]. apply Inv_emit_quiet; simpl; auto.
        constructor; auto. }
      destruct (drop_core (emit s (OCheck (cid x) (eid x) false)) (cid x) 2)
        as [E1 [E2 [E3 [E4 [E5 E6]]]]].
      split.
      { apply Inv_release with (p := p); auto. rewrite E1. exact Hxp. }
      unfold release. rewrite E3. simpl. rewrite M. simpl. rewrite ?E1, ?E3, ?E5, ?E6. simpl. auto.
    - destruct (fp (log (emit s (OCheck (cid x) (eid x) true))) x).
      + (* Process failed *)
        cbn [fst]. unfold release. simpl. rewrite M. simpl.
        split; [|auto]. constructor; simpl; auto.
        * f_equal; auto.
        * constructor; auto.
        * intros c [Hc'|Hc']; [exists x; auto | auto].
        * intros c [Hc'|Hc']; [left; auto | right; auto].
        * intros y Hy [Hc'|Hc'].
          -- assert (y = x) by (apply (wf_cs_inj cs); auto). subst; auto.
          -- apply Hp; auto.
        * split; [split; [rewrite <- inv_rel; exact Nr | exists x; auto] |].
          split; [|auto].
          split; [exists x; repeat split; auto; intros q Hq; rewrite <- inv_conn; auto |].
          split; [rewrite <- inv_rel; exact Nr | intros C; apply Nr; auto].
      + (* Process succeeded *)
        cbn [fst]. unfold release. simpl. rewrite M. simpl.
        split; [|auto]. constructor; simpl; auto.
        * f_equal; auto.
        * constructor; auto.
        * intros c [Hc'|Hc']; [exists x; auto | auto].
        * f_equal; auto.
        * intros c [Hc'|Hc']; [left; auto | right; auto].
        * intros y Hy [Hc'|Hc'].
          -- assert (y = x) by (apply (wf_cs_inj cs); auto). subst; auto.
          -- apply Hp; auto.
        * split; [split; [rewrite <- inv_rel; exact Nr | exists x; auto] |].
          split; [|auto].
          split; [exists x; repeat split; auto; intros q Hq; rewrite <- inv_conn; auto |].
          split; [rewrite <- inv_rel; exact Nr | intros C; apply Nr; auto].
  Qed.

  (* the loop over the snapshot *)
  Definition body (f : nat) (x : entry) (snap : list entry) : st -> entry -> st :=
    fun sa child =>
      if memN (eid x) (pars child) && negb (true && memN (cid child) (released sa))
      then fst (push_rec fc fp true f sa child (Some snap) true) else sa.

  Lemma push_rec_S : forall f s x snap recheck,
    push_rec fc fp true (S f) s x snap recheck =
    if is_connected s (eid x) then
      (release (if recheck then remove_inc s (eid x) else drop (remove_inc s (eid x)) (cid x) 1) x, false)
    else if negb (complete s x) then ((if recheck then s else add_inc s x), false)
    else
      let '(s1, ok) := process_complete fc fp s x in
      let s2 := release s1 x in
      let s3 := if ok then
                  let snap' := match snap with Some l => l | None => inc s2 end in
                  fold_left (body f x snap') snap' s2
                else s2 in
      (remove_inc s3 (eid x), ok).
  Proof. reflexivity. Qed.

  Definition repush_spec (f : nat) : Prop :=
    forall cs, wf_cs cs -> forall s x snap p,
      Inv cs p s -> In x (inc s) -> ~ In (cid x) (released s) -> In x snap -> Cover snap s ->
      (unrel snap s <= f)%nat ->
      let s' := fst (push_rec fc fp true f s x (Some snap) true) in
      Inv cs p s' /\ evolves s s' /\ oof s' = oof s.

  Lemma loop_ok : forall f x snap, repush_spec f ->
    forall cs, wf_cs cs -> forall p l, incl l snap -> forall sa,
      Inv cs p sa -> Cover snap sa -> (unrel snap sa <= f)%nat ->
      let sb := fold_left (body f x snap) l sa in
      Inv cs p sb /\ evolves sa sb /\ oof sb = oof sa.
  Proof.
    intros f x snap R cs W p l. induction l as [|y l IH]; intros Hl sa I C U; simpl.
    - split; auto. split; auto using evolves_refl.
    - assert (Hy : In y snap) by (apply Hl; left; auto).
      assert (Hl' : incl l snap) by (intros z Hz; apply Hl; right; auto).
      assert (Hb : body f x snap sa y =
                   if memN (eid x) (pars y) && negb (true && memN (cid y) (released sa))
                   then fst (push_rec fc fp true f sa y (Some snap) true) else sa) by reflexivity.
      destruct (memN (eid x) (pars y) && negb (true && memN (cid y) (released sa))) eqn:Cnd; rewrite Hb.
      + apply andb_true_iff in Cnd. destruct Cnd as [_ Cnd]. apply negb_true_iff in Cnd.
        simpl in Cnd. apply memN_false in Cnd.
        assert (Hin : In y (inc sa)) by (destruct (C y Hy); [auto | contradiction]).
        destruct (R cs W sa y snap p I Hin Cnd Hy C U) as [I' [E' O']].
        set (sa' := fst (push_rec fc fp true f sa y (Some snap) true)) in *.
        assert (C' : Cover snap sa') by (eapply Cover_evolves; eauto).
        assert (U' : (unrel snap sa' <= f)%nat).
        { etransitivity; [apply unrel_mono with (s := sa) | exact U]. apply E'. }
        destruct (IH Hl' sa' I' C' U') as [I2 [E2 O2]].
        split; auto. split; [eapply evolves_trans; eauto | congruence].
      + apply IH; auto.
  Qed.

  Lemma evolves_remove_pend : forall s0 s x,
    NoDup (map eid (inc s0)) -> In x (inc s0) -> incl (inc s) (inc s0) -> In (cid x) (released s) ->
    evolves s (remove_inc s (eid x)).
  Proof.
    intros s0 s x Nd Hx Hi Hr. unfold evolves; simpl. repeat split; auto using incl_refl.
    - intros y Hy. apply filter_In in Hy. tauto.
    - intros y Hy. destruct (eid y =? eid x) eqn:E.
      + apply N.eqb_eq in E. assert (y = x) by (eapply NoDup_map_inj_in; eauto). subst. auto.
      + left. apply filter_In. split; auto. rewrite E. reflexivity.
  Qed.

  Lemma repush_ok : forall f, repush_spec f.
  Proof.
    induction f as [|f IHf]; intros cs W s x snap p I Hx Nr Hs C U.
    - exfalso. pose proof (unrel_pos snap s x Hs Nr). lia.
    - cbv zeta. rewrite push_rec_S.
      destruct (is_connected s (eid x)) eqn:Ec.
      + (* already connected: Remove, release *)
        cbn [fst].
        assert (I1 : Inv cs p (remove_inc s (eid x))) by (apply Inv_remove_inc'; auto).
        assert (Nx : ~ In x (inc (remove_inc s (eid x)))).
        { simpl. intros H. apply filter_In in H. destruct H as [_ H]. rewrite N.eqb_refl in H. discriminate. }
        split; [|split].
        * apply Inv_release with (p := p); auto using incl_refl.
          -- apply (inv_inc_cs _ _ _ I); auto.
          -- intros H; contradiction.
        * unfold release. simpl.
          assert (M : memN (cid x) (released s) = false) by (apply memN_false; auto). rewrite M.
          unfold evolves; simpl. repeat split; auto using incl_tl, incl_refl.
          -- intros y Hy. apply filter_In in Hy. tauto.
          -- intros y Hy. destruct (eid y =? eid x) eqn:E.
             ++ apply N.eqb_eq in E.
                assert (y = x) by (eapply NoDup_map_inj_in; [apply (inv_nodup _ _ _ I)| | |]; eauto).
                subst. auto.
             ++ left. apply filter_In. split; auto. rewrite E. reflexivity.
        * unfold release. simpl. destruct (memN (cid x) (released s)); reflexivity.
      + destruct (negb (complete s x)) eqn:Ecm.
        * cbn [fst]. split; auto. split; auto using evolves_refl.
        * apply negb_false_iff in Ecm.
          assert (Hxc : In x cs) by (apply (inv_inc_cs _ _ _ I); auto).
          destruct (process_release cs p (x :: p) s x W I Hxc Nr Ecm) as [I2 [Ei [Er [En Eo]]]];
            [apply incl_tl, incl_refl | intros _; left; reflexivity |].
          destruct (process_complete fc fp s x) as [s1 ok] eqn:Epc. cbn [fst] in *.
          set (s2 := release s1 x) in *.
          assert (E02 : evolves s s2).
          { unfold evolves. rewrite Ei, Er, En. repeat split; auto using incl_refl, incl_tl. }
          assert (C2 : Cover snap s2) by (eapply Cover_evolves; eauto).
          assert (U2 : (unrel snap s2 <= f)%nat).
          { assert (unrel snap s2 < unrel snap s)%nat; [|lia].
            apply unrel_dec with (x := x); auto. apply E02. rewrite Er; left; auto. }
          assert (L : let s3 := if ok then fold_left (body f x snap) snap s2 else s2 in
                      Inv cs (x :: p) s3 /\ evolves s2 s3 /\ oof s3 = oof s2).
          { destruct ok.
            - apply loop_ok; auto using incl_refl.
            - split; auto. split; auto using evolves_refl. }
          cbv zeta in L. destruct L as [I3 [E23 O3]].
          set (s3 := if ok then fold_left (body f x snap) snap s2 else s2) in *.
          split; [|split].
          -- apply Inv_remove_inc; auto.
          -- eapply evolves_trans; [exact E02|]. eapply evolves_trans; [exact E23|].
             apply evolves_remove_pend with (s0 := s); auto.
             ++ apply (inv_nodup _ _ _ I).
             ++ eapply incl_tran; [apply E23|]. rewrite Ei. apply incl_refl.
             ++ apply E23. rewrite Er. left; auto.
          -- simpl. congruence.
  Qed.
End WithOracles.
