(* Instances of the corollaries of link_x (LinkXCor.v) and of the round-2 Reset / restart-after-seal theorems
   on concrete runs. *)
From Coq Require Import NArith List Bool Lia.
From LV Require Import model.VecIndex model.Abft model.AbftRun spec.ElectionSpec
  proofs.BftGraph proofs.BftRun proofs.BftMain proofs.BftAccept proofs.BftProps
  proofs.LinkVals proofs.LinkPerm proofs.LinkDefs proofs.LinkFresh proofs.LinkRun proofs.LinkRaw
  proofs.LinkExample proofs.LinkNoise proofs.LinkEpoch proofs.LinkSeal proofs.LinkEpochs proofs.LinkEpochsCor proofs.LinkEpochsExample
  proofs.LinkReject proofs.LinkX proofs.LinkEpochsX proofs.LinkXCheck proofs.LinkXCor proofs.LinkXExample.
Import ListNotations.
Local Open Scope N_scope.

Example xx_ok : epochs_ok_x xx_pol 400 ex_vals 1 xx_Ss.
Proof. apply (epochs_ok_xb_ok xx_pol 400 xx_pol_ok xx_Ss ex_vals 1 xx_input_ok). Qed.
Example xx_nonempty : ex_vals <> []. Proof. discriminate. Qed.

(* the noise of the three-epoch run leaves no trace: 7 + 2 + 2 restart entries removed, the rest is the run
   of the noise-free schedules *)
Example xx_noise_invisible :
  map strip8 (model_epochs_x 3 xx_lam xx_pol (start 1 ex_vals) ex_vals 1 xx_Ss) =
  model_epochs_x 3 xx_lam xx_pol (start 1 ex_vals) ex_vals 1 (map clean_S xx_Ss).
Proof. apply (link_x_noise_invisible 3 xx_lam xx_pol ex_vals xx_Ss 400 xx_nonempty xx_ok); vm_compute; [discriminate | reflexivity]. Qed.
Example xx_noise_is_there : xx_Ss <> map clean_S xx_Ss /\
  map (fun r => length (fst (fst r))) (model_epochs_x 3 xx_lam xx_pol (start 1 ex_vals) ex_vals 1 xx_Ss) = [59; 50; 50]%nat /\
  map (fun r => length (fst (fst r))) (model_epochs_x 3 xx_lam xx_pol (start 1 ex_vals) ex_vals 1 (map clean_S xx_Ss)) = [52; 48; 48]%nat.
Proof. split; [vm_compute; discriminate|]. split; vm_compute; reflexivity. Qed.

(* the same run by instances that are fed by Process only *)
Example xx_builds_invisible :
  map erase_builds (model_epochs_x 3 xx_lam xx_pol (start 1 ex_vals) ex_vals 1 xx_Ss) =
  model_epochs_x 3 xx_lam xx_pol (start 1 ex_vals) ex_vals 1 (map nobuild_S xx_Ss).
Proof. apply (link_x_builds_invisible 3 xx_lam xx_pol ex_vals xx_Ss 400 xx_nonempty xx_ok); vm_compute; [discriminate | reflexivity]. Qed.

(* Reset of a used instance (the one after the operations of epoch 1: it is in epoch 2 with other validators)
   back to epoch 1: the run over the three epochs is the reference's again *)
Definition xx_used : inst := run_inst 3 xx_pol sample (start 1 ex_vals) (xsched_ops 1 xx_lam ex_vals xx_sc1 [OpR; OpV]).
Example xx_used_state : l_epoch (i_st xx_used) = 2 /\ l_vals (i_st xx_used) = mk_vals xx_vals2 /\ length (i_es xx_used) = 37%nat.
Proof. vm_compute. repeat split. Qed.
Example xx_after_reset :
  model_epochs_x 3 xx_lam xx_pol (snd (fst (step 3 xx_pol sample xx_used (OpReset 1 ex_vals)))) ex_vals 1 xx_Ss =
  map (fun r => (fst (fst r), snd (fst r), option_map mk_vals (snd r))) (ref_epochs_x xx_pol ex_vals 1 xx_Ss).
Proof. apply (link_x_after_reset 3 xx_lam xx_pol 400 xx_used 1 ex_vals xx_Ss); [vm_compute; reflexivity | exact xx_nonempty | exact xx_ok | vm_compute; discriminate]. Qed.

(* ---------- round 2 theorems on the two-epoch run me_Ds ---------- *)
Definition me_pol : policy := mk_policy 1 0 ex_vals 1 2.
Definition me_used : inst := run_inst 200 me_pol sample (start 1 ex_vals) (abft_ops 1 (fun _ => 0) ex_vals ex3_D).
Example me_used_state : l_epoch (i_st me_used) = 2 /\ l_ctr (i_st me_used) = 23.
Proof. vm_compute. split; reflexivity. Qed.
(* C09_reset_then_run_equals_reference applied to a used instance *)
Example me_after_reset :
  model_epochs 200 (fun _ => 0) me_pol 0 (snd (fst (step 200 me_pol sample me_used (OpReset 1 ex_vals)))) ex_vals 1 me_Ds =
  reference_epochs 1 0 ex_vals 1 me_Ds.
Proof.
  apply (link_after_reset 200 (fun _ => 0) me_pol 1 0 200 me_used 1 ex_vals me_Ds); [vm_compute; reflexivity | exact me_ok | exact me_reset_pol | exact me_fresh | vm_compute; discriminate].
Qed.
(* C08_restart_after_seal_invisible applied to the instance that the sealing block of epoch 1 leaves behind
   (epoch 2, the events of me_D2 still to come) *)
Example me_restart_after_seal :
  let i0 := fresh_inst 2 (mk_vals ex_vals) [] 23 (i_es me_used) in
  fst (fst (step 200 me_pol sample i0 OpR)) = ObsR None [] 0 2 /\
  model_epochs 200 (fun _ => 0) me_pol 0 (snd (fst (step 200 me_pol sample i0 OpR))) ex_vals 2 [me_D2] = reference_epochs 1 0 ex_vals 2 [me_D2].
Proof.
  apply (link_restart_after_seal 200 (fun _ => 0) me_pol 1 0 200 2 ex_vals [me_D2] [] 23 (i_es me_used)); [vm_compute; reflexivity | | | |vm_compute; discriminate].
  - cbn [epochs_ok]. split; [apply ex3_side|]. split; [apply ex3_side|]. split; [exact me_valid2|]. intros _. exact I.
  - destruct me_reset_pol as [_ H]. exact H.
  - intros D e [<-|[]] He. apply (me_fresh me_D2 e); [right; left; reflexivity | exact He].
Qed.
Example me_used_is_that_instance : me_used = fresh_inst 2 (mk_vals ex_vals) [] 23 (i_es me_used).
Proof. vm_compute. reflexivity. Qed.
