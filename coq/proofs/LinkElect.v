(* L1, brick 4: the election loops of event_processing.go over a fixed table T (the reference's table
   including the event being processed):
     processKnownRoots   votes every known slot in ascending frame order; stops at the first empty frame,
                         which by the frame rule (every root sees a quorum of roots of the previous
                         frame) is past the last frame that has roots;
     onFrameDecided      never fails (the confirm DFS finds every ancestor in the event store);
     bootstrapElection   decision -> reset -> full re-vote, until no further decision;
     handleElection      votes the new event's slots in ascending order.
   Every reported decision is the reference's Atropos of the frame (choose_some_decide); when a loop
   ends without a decision every slot has voted, hence the reference has no Atropos either
   (choose_none_undecided).  The emitted blocks are a segment of the reference's blocks (Seg). *)
From Coq Require Import NArith ZArith List Lia Bool ZifyBool ZifyN ZifyNat.
From LV Require Import lib.Bytes model.Codec model.VecIndex spec.FcSpec model.Abft model.AbftRun spec.ElectionSpec
  lib.WSumBft proofs.VecInv proofs.AbftFrame proofs.AbftCount proofs.AbftIds proofs.AbftBuild proofs.AbftInvLemmas
  proofs.AbftDfs proofs.AbftDfsFuel
  proofs.BftCore proofs.BftElection proofs.BftMono proofs.BftGraph proofs.BftMain proofs.BftRun proofs.BftAccept
  proofs.LinkVals proofs.LinkDefs proofs.LinkSim proofs.LinkTally proofs.LinkVote proofs.LinkCheat.
Import ListNotations.
Local Open Scope N_scope.

Definition st_with (st : lstate) (c : fccache) (el : election) : lstate := set_el (set_fcc st c) el.
Lemma st_with_id st : st_with st (l_fcc st) (l_el st) = st.
Proof. destruct st; reflexivity. Qed.

(* the confirm DFS does not hit "event not found" when the store is closed under parents *)
Lemma dfs_no_crit es frame (known : N -> Prop) :
  (forall x, known x -> exists ev, get_event es x = Some ev /\ forall p, In p (a_parents ev) -> known p) ->
  forall fuel stack conf acc, (forall x, In x stack -> known x) ->
  (exists r, dfs_confirm fuel es frame stack conf acc = Ok r) \/ dfs_confirm fuel es frame stack conf acc = Err EFuel.
Proof.
  intros K. induction fuel as [|fu IH]; intros stack conf acc Hs; cbn [dfs_confirm]; [right; reflexivity|].
  destruct stack as [|w rest]; [left; eauto|].
  destruct (K w (Hs w (or_introl eq_refl))) as [ev [G P]]. rewrite G.
  destruct (negb (conf_get conf w =? 0)).
  - apply IH. intros x Hx. apply Hs. right. exact Hx.
  - apply IH. intros x Hx. apply in_app_or in Hx as [Hx|Hx]; [apply P; apply in_rev; exact Hx | apply Hs; right; exact Hx].
Qed.

Lemma wfTD_parents vals : forall T Dr, wfTD vals T Dr -> forall e p, In e Dr -> In p (epar (fe e)) -> In p (ids_of Dr).
Proof.
  induction 1 as [|T Dr e0 W IH PK NL CR EW FO]; intros e p He Hp; [destruct He|].
  destruct He as [<-|He].
  - destruct (PK p Hp) as [n L]. apply nlookup_some in L as [Hn En].
    destruct (node_event vals T Dr n W Hn) as [e' [He' [E' _]]].
    right. unfold ids_of. apply in_map_iff. exists e'. split; [congruence | exact He'].
  - right. eapply IH; eauto.
Qed.

Definition decided_state (st : lstate) (f : N) (conf' : list (N * N)) : lstate :=
  {| l_epoch := l_epoch st; l_vals := l_vals st; l_ldf := f; l_roots := l_roots st; l_conf := conf';
     l_idx := l_idx st; l_fcc := l_fcc st; l_el := el_reset (l_vals st) (f + 1); l_ctr := l_ctr st |}.
Definition fa (b : block) : N * N := (b_frame b, b_atropos b).

Section Elect.
Variable cap : nat.
Variable ep : N.
Variable lam : fev -> N.
Variable vals : list (N * N).
Hypothesis Hvals : vals_ok vals.
Variable T : list node.
Variable Dr : list fev.
Variable es : estore.
Variable k : N -> Prop.       (* keys of forkless-cause cache entries that may be stale *)
Hypothesis Hff : few_forkers vals T.
Hypothesis NT : forall m, In m T -> ~ k (nd_id m).
Hypothesis HwfTD : wfTD vals T Dr.

Notation ws := (map snd vals).
Notation nv := (length vals).
Notation q := (ElectionSpec.quorum_of ws).
Notation fcn := (fc_n ws q).
Notation rts := (roots_at node nd_fr nd_spf T).
Notation slot := (slot vals).
Notation Core := (Core ep lam vals).
Notation cache_inv := (cache_inv vals).
Notation EI := (EI vals T).

Notation decideT f := (decide node nd_id nd_cr nd_fr nd_spf fcn ws q (canon_order vals) T f (max_frame node nd_fr T)).

Let HwfT : wfT vals T := wfTD_wfT vals T Dr HwfTD.

Lemma EI_weaken f0 el (S S' : root -> Prop) : EI f0 el S -> (forall r, S' r -> S r) -> EI f0 el S'.
Proof.
  intros [A B V DS DC] H.
  constructor; [exact A | exact B | intros n f u HS; apply V; apply H; exact HS | exact DS
               | intros n f u b HS; apply DC; apply H; exact HS].
Qed.

(* the state of one election: frame to decide = LastDecidedFrame + 1 *)
Record ES (st : lstate) (S : root -> Prop) : Prop := {
  es_core : Core st es T Dr T;
  es_cache : cache_inv k st T T;
  es_ei : EI (l_ldf st + 1) (l_el st) S;
  es_none : choose_atropos (l_el st) = Ok None }.

Lemma ES_with st c el S S' : ES st S -> cache_inv k (st_with st c el) T T -> EI (l_ldf st + 1) el S' ->
  choose_atropos el = Ok None -> ES (st_with st c el) S'.
Proof.
  intros [C _ _ _] CI I N. constructor; auto. unfold st_with. apply Core_el, Core_fcc. exact C.
Qed.

(* ---------- frames that have roots are contiguous ---------- *)
Lemma roots_contig g : 1 <= g -> rts g = [] -> forall d, rts (g + N.of_nat d) = [].
Proof.
  intros Hg H0. induction d as [|d IH]; [rewrite N.add_0_r; exact H0|].
  destruct (rts (g + N.of_nat (S d))) as [|r t] eqn:E; [reflexivity|]. exfalso.
  assert (Hr : In r (rts (g + N.of_nat d + 1))) by (replace (g + N.of_nat d + 1) with (g + N.of_nat (S d)) by lia; rewrite E; left; reflexivity).
  pose proof (roots_quorum_n vals T HwfT (g + N.of_nat d) r ltac:(lia) Hr) as Q. unfold quorum_on in Q.
  apply N.leb_le in Q. pose proof (quorum_of_pos ws) as Qp.
  assert (Pos : 0 < wsP ws (ElectionSpec.by_cr node nd_cr (obs node nd_fr nd_spf fcn T r (g + N.of_nat d)) (fun _ => true))) by (change (wsumP ws ?P) with (wsP ws P) in Q; lia).
  apply wsP_pos_ex in Pos as [i [_ Hi]]. unfold ElectionSpec.by_cr in Hi. apply existsb_exists in Hi as [m [Hm _]].
  unfold obs in Hm. apply filter_In in Hm as [Hm _]. rewrite IH in Hm. destruct Hm.
Qed.
Lemma roots_contig' g g' : 1 <= g -> rts g = [] -> g <= g' -> rts g' = [].
Proof. intros Hg H0 L. replace g' with (g + N.of_nat (N.to_nat (g' - g))) by lia. apply roots_contig; auto. Qed.

(* ---------- processKnownRoots: the roots of one frame ---------- *)
Lemma pkr_frame_sim g : forall ms st S, ES st S -> (forall m, In m ms -> In m (rts g)) ->
  (l_ldf st + 1 + 2 <= g -> forall m, In m (rts (g - 1)) -> S (slot m (g - 1))) ->
  exists res c' el', pkr_frame cap st (map (fun m => slot m g) ms) = (res, st_with st c' el') /\
    cache_inv k (st_with st c' el') T T /\
    ((res = Ok None /\ ES (st_with st c' el') (fun r => S r \/ exists m, In m ms /\ r = slot m g)) \/
     (exists a, res = Ok (Some (l_ldf st + 1, a)) /\ decideT (l_ldf st + 1) = Atropos a)).
Proof.
  induction ms as [|m t IH]; intros st S E Hms Hprev; cbn [map pkr_frame].
  - exists (Ok None), (l_fcc st), (l_el st). rewrite st_with_id. split; [reflexivity|]. split; [apply (es_cache _ _ E)|].
    left. split; [reflexivity|]. destruct E as [C CI I N]. constructor; auto.
    eapply EI_weaken; [exact I|]. intros r [H|[m [[] _]]]. exact H.
  - destruct E as [C CI I N].
    assert (F0 : 1 <= l_ldf st + 1) by lia.
    destruct (process_root_sim cap ep lam vals Hvals T HwfT Hff (l_ldf st + 1) F0 st es Dr k S m g C CI NT I N
                (Hms m (or_introl eq_refl))) as [res [c1 [el1 [EP [CI1 [I1 [ER Sh]]]]]]].
    { intros H2 m' Hm' _. apply Hprev; auto. }
    fold (st_with st c1 el1) in EP, CI1. rewrite EP.
    destruct Sh as [->|[a ->]].
    + assert (E1 : ES (st_with st c1 el1) (fun r => S r \/ r = slot m g)).
      { apply (ES_with st c1 el1 S); [constructor; auto | exact CI1 | exact I1 | symmetry; exact ER]. }
      destruct (IH (st_with st c1 el1) _ E1 (fun m' H' => Hms m' (or_intror H'))) as [res [c2 [el2 [EP2 [CI2 R2]]]]].
      { intros H2 m' Hm'. left. apply Hprev; auto. }
      change (st_with (st_with st c1 el1) c2 el2) with (st_with st c2 el2) in *.
      change (l_ldf (st_with st c1 el1)) with (l_ldf st) in *.
      exists res, c2, el2. split; [exact EP2|]. split; [exact CI2|].
      destruct R2 as [[-> E2]|R2]; [left | right; exact R2]. split; [reflexivity|].
      destruct E2 as [C2 CI2' I2 N2]. constructor; auto. eapply EI_weaken; [exact I2|].
      intros r [H|[m' [[<-|Hm'] ->]]]; [left; left; exact H | left; right; reflexivity | right; exists m'; auto].
    + exists (Ok (Some (l_ldf st + 1, a))), c1, el1. split; [reflexivity|]. split; [exact CI1|]. right.
      exists a. split; [reflexivity|].
      apply (choose_some_decide vals Hvals T HwfT Hff (l_ldf st + 1) el1 _ a I1). symmetry. exact ER.
Qed.

(* ---------- processKnownRoots ---------- *)
Definition all_voted (f0 : N) (S : root -> Prop) : Prop := forall m g, f0 < g -> In m (rts g) -> S (slot m g).

Lemma pkr_sim : forall fuel st g S, ES st S -> (cnt_from (l_roots st) g < fuel)%nat -> 1 <= g ->
  (forall m g', l_ldf st + 1 < g' < g -> In m (rts g') -> S (slot m g')) ->
  exists res c' el', process_known_roots cap fuel st g = (res, st_with st c' el') /\
    cache_inv k (st_with st c' el') T T /\
    ((res = Ok None /\ exists S', ES (st_with st c' el') S' /\ all_voted (l_ldf st + 1) S') \/
     (exists a, res = Ok (Some (l_ldf st + 1, a)) /\ decideT (l_ldf st + 1) = Atropos a)).
Proof.
  induction fuel as [|fu IH]; intros st g S E Hfuel Hg Hpre; [lia|]. cbn [process_known_roots].
  destruct (frame_roots_for ep lam vals st es T Dr T g (es_core _ _ E)) as [ms [_ [Hms [Ems _]]]].
  rewrite Ems.
  destruct (pkr_frame_sim g ms st S E (fun m H => proj1 (Hms m) H)) as [res [c1 [el1 [EP [CI1 R1]]]]].
  { intros H2 m Hm. apply Hpre; [lia | exact Hm]. }
  rewrite EP. destruct R1 as [[-> E1]|[a [-> Hd]]].
  - destruct (map (fun m => slot m g) ms) as [|r0 rest] eqn:Emap.
    + (* first frame without roots: everything above f0 has voted *)
      apply map_eq_nil in Emap. subst ms.
      exists (Ok None), c1, el1. split; [reflexivity|]. split; [exact CI1|]. left. split; [reflexivity|].
      eexists. split; [exact E1|]. intros m g' Hg' Hm. left.
      destruct (N.lt_ge_cases g' g) as [L|L]; [apply Hpre; auto|].
      assert (Hempty : rts g = []).
      { destruct (rts g) as [|x t] eqn:Ex; [reflexivity|]. exfalso. apply (proj2 (Hms x)). left. reflexivity. }
      rewrite (roots_contig' g g' Hg Hempty L) in Hm. destruct Hm.
    + assert (Hstep : (cnt_from (l_roots st) (g + 1) < cnt_from (l_roots st) g)%nat).
      { apply cnt_from_step. exists r0.
        assert (Hin : In r0 (get_frame_roots st g)) by (rewrite Ems; left; reflexivity).
        unfold get_frame_roots in Hin. apply filter_In in Hin as [Hin Hf]. apply N.eqb_eq in Hf. auto. }
      destruct (IH (st_with st c1 el1) (g + 1) _ E1) as [res [c2 [el2 [EP2 [CI2 R2]]]]].
      { change (l_roots (st_with st c1 el1)) with (l_roots st). lia. }
      { lia. }
      { change (l_ldf (st_with st c1 el1)) with (l_ldf st). intros m g' Hg' Hm.
        destruct (N.eq_dec g' g) as [->|NE]; [right; exists m; split; [apply Hms; exact Hm | reflexivity]|].
        left. apply Hpre; [lia | exact Hm]. }
      change (st_with (st_with st c1 el1) c2 el2) with (st_with st c2 el2) in *.
      change (l_ldf (st_with st c1 el1)) with (l_ldf st) in *.
      exists res, c2, el2. split; [exact EP2 | split; [exact CI2 | exact R2]].
  - exists (Ok (Some (l_ldf st + 1, a))), c1, el1. split; [reflexivity|]. split; [exact CI1|]. right. eauto.
Qed.

Lemma choose_reset f : (0 < nv)%nat -> choose_atropos (el_reset vals f) = Ok None.
Proof. intros H. unfold choose_atropos, el_reset. cbn [el_vals el_decided el_frame]. destruct vals as [|[x w] t]; [cbn in H; lia | reflexivity]. Qed.

Lemma ES_decided st conf' : Core st es T Dr T -> cache_inv k st T T -> (0 < nv)%nat ->
  ES (decided_state st (l_ldf st + 1) conf') (fun _ => False).
Proof.
  intros C CI Hnv. destruct C as [A B Cc D E F G H I]. constructor.
  - constructor; auto.
  - exact CI.
  - cbn [decided_state l_ldf l_el]. rewrite B. apply EI_reset.
  - cbn [decided_state l_el]. rewrite B. apply choose_reset. exact Hnv.
Qed.

(* ---------- the emitted blocks as a segment of the reference's decisions ---------- *)
Inductive Seg : N -> list (N * N) -> N -> Prop :=
| seg_nil L : Seg L [] L
| seg_cons L a t L1 : decideT (L + 1) = Atropos a -> Seg (L + 1) t L1 -> Seg L ((L + 1, a) :: t) L1.
Lemma Seg_app L0 B1 L1 B2 L2 : Seg L0 B1 L1 -> Seg L1 B2 L2 -> Seg L0 (B1 ++ B2) L2.
Proof. induction 1; intros H2; cbn [app]; [exact H2 | constructor; auto]. Qed.

Lemma Seg_le L B L1 : Seg L B L1 -> L <= L1.
Proof. induction 1; lia. Qed.

Lemma atropos_in f a : decideT f = Atropos a -> exists x, In x (rts f) /\ nd_id x = a.
Proof.
  intros H. apply (decide_sound node nd_id nd_cr nd_fr nd_spf fcn ws q (canon_order vals) T f (wf_inj vals T HwfT)) in H
    as (pre & v & post & x & _ & _ & _ & Vx & Ex).
  unfold voted_root in Vx. apply find_some in Vx as [Ix _]. eauto.
Qed.

Definition Done (st : lstate) : Prop := exists S, ES st S /\ all_voted (l_ldf st + 1) S.
Lemma root_at_frame st x f : Core st es T Dr T -> In x (rts f) -> exists r, In r (l_roots st) /\ r_frame r = f.
Proof.
  intros C Hx. exists (slot x f). split; [|reflexivity]. apply (co_roots _ _ _ _ _ _ _ _ C). exists x, f.
  unfold roots_at in Hx. apply filter_In in Hx. destruct Hx. auto.
Qed.

(* when every slot has voted and no Atropos is chosen, the reference has none either *)
Lemma Done_undecided st : Done st -> forall a, decideT (l_ldf st + 1) <> Atropos a.
Proof.
  intros [S [[C CI I Nn] AV]].
  assert (F0 : 1 <= l_ldf st + 1) by lia.
  apply (choose_none_undecided vals Hvals T HwfT Hff (l_ldf st + 1) F0 (l_el st) S I Nn). exact AV.
Qed.


(* the application's EndBlock callback: in the current epoch it seals exactly at the frames f with sf f = Some _ *)
Variable eb : N -> N -> N -> list N -> list N -> option Abft.vals.
Variable sf : N -> option Abft.vals.
Hypothesis Heb : forall f a ch dl, eb ep f a ch dl = sf f.

(* ---------- onFrameDecided ---------- *)
(* the state after a sealing block: Orderer.Reset to the next epoch with the returned validators *)
Definition sealed_state (nv' : Abft.vals) (ctr : N) : lstate :=
  {| l_epoch := ep + 1; l_vals := nv'; l_ldf := 0; l_roots := []; l_conf := []; l_idx := init (length nv');
     l_fcc := []; l_el := el_reset nv' 1; l_ctr := ctr |}.

Lemma ofd_sim st a f : Core st es T Dr T -> In a T -> f <> 0 ->
  exists blk, blk_obs blk = (f, nd_id a, ElectionSpec.cheaters_of vals T (nd_id a)) /\ b_seal blk = sf f /\
    match sf f with
    | None => exists conf', on_frame_decided eb es st f (nd_id a) = (Ok (false, blk), decided_state st f conf')
    | Some nv' => on_frame_decided eb es st f (nd_id a) = (Ok (true, blk), sealed_state nv' (l_ctr st))
    end.
Proof.
  intros C Ha Hf. unfold on_frame_decided, apply_atropos.
  assert (K : forall x, In x (ids_of Dr) -> exists ev, get_event es x = Some ev /\ forall p, In p (a_parents ev) -> In p (ids_of Dr)).
  { intros x Hx. unfold ids_of in Hx. apply in_map_iff in Hx as [e [<- He]].
    exists (to_aevent ep lam vals e). split.
    { apply (co_es _ _ _ _ _ _ _ _ C); [exact He|]. destruct (event_node vals T Dr e HwfTD He) as [m [Hm [Em _]]]. exists m. auto. }
    cbn [to_aevent a_parents]. intros p Hp. eapply (wfTD_parents vals T Dr HwfTD); eauto. }
  assert (Hs : forall x, In x [nd_id a] -> In x (ids_of Dr)).
  { intros x [<-|[]]. destruct (node_event vals T Dr a HwfTD Ha) as [e [He [E _]]].
    unfold ids_of. apply in_map_iff. exists e. auto. }
  destruct (dfs_no_crit es f _ K (confirm_fuel es) [nd_id a] (l_conf st) [] Hs) as [[[dl conf'] E]|E].
  2:{ exfalso. exact (confirm_never_out_of_fuel es f (nd_id a) (l_conf st) Hf E). }
  rewrite E. cbn [b_seal]. rewrite (co_epoch _ _ _ _ _ _ _ _ C), Heb.
  exists {| b_frame := f; b_atropos := nd_id a; b_cheaters := Abft.cheaters_of st (nd_id a); b_delivered := dl; b_seal := sf f |}.
  split; [|split; [reflexivity|]].
  - unfold blk_obs. cbn [b_frame b_atropos b_cheaters]. rewrite (cheaters_sim ep lam vals Hvals st es T Dr T a C Ha). reflexivity.
  - destruct (sf f) as [nv'|]; [|exists conf'; reflexivity].
    cbn [l_epoch l_ctr set_conf]. rewrite (co_epoch _ _ _ _ _ _ _ _ C). reflexivity.
Qed.

Definition blocks_ok (bl : list block) : Prop :=
  forall b, In b bl -> b_cheaters b = ElectionSpec.cheaters_of vals T (b_atropos b) /\ b_seal b = sf (b_frame b).
(* no frame in (L, L1] seals *)
Definition NoSeal (L L1 : N) : Prop := forall f, L < f <= L1 -> sf f = None.
(* how a call ends: the election goes on in the same epoch (nothing sealed, every slot has voted), or the
   last block (frame L) sealed the epoch and the instance was reset *)
Definition Ends (st : lstate) (L : N) (st' : lstate) : Prop :=
  (Done st' /\ L = l_ldf st' /\ NoSeal (l_ldf st) L /\ l_roots st' = l_roots st /\ l_ctr st' = l_ctr st) \/
  (exists nv', l_ldf st < L /\ NoSeal (l_ldf st) (L - 1) /\ sf L = Some nv' /\ st' = sealed_state nv' (l_ctr st)).
Definition is_cont (st' : lstate) (L : N) (st : lstate) := Done st' /\ L = l_ldf st'.

Lemma Ends_shift st st2 L st' : l_ldf st2 = l_ldf st + 1 -> sf (l_ldf st + 1) = None ->
  l_roots st2 = l_roots st -> l_ctr st2 = l_ctr st -> Ends st2 L st' -> Ends st L st'.
Proof.
  intros E1 Hn ER EC [(D & EL & NS & R & C)|(nv' & Lt & NS & Sf & ES')].
  - unfold Ends. left. split; [exact D|]. split; [exact EL|]. split; [|split; congruence].
    intros f Hf. destruct (N.eq_dec f (l_ldf st + 1)) as [->|NE]; [exact Hn | apply NS; lia].
  - unfold Ends. right. exists nv'. split; [lia|]. split; [|split; [exact Sf | rewrite ES', EC; reflexivity]].
    intros f Hf. destruct (N.eq_dec f (l_ldf st + 1)) as [->|NE]; [exact Hn | apply NS; lia].
Qed.

(* ---------- bootstrapElection ---------- *)
Lemma boot_sim : forall fuel st S bl0, ES st S -> (cnt_from (l_roots st) (l_ldf st + 1) < fuel)%nat -> (0 < nv)%nat ->
  exists r bl st' L, bootstrap_election cap eb fuel es st bl0 = (Ok r, bl0 ++ bl, st') /\
    Seg (l_ldf st) (map fa bl) L /\ blocks_ok bl /\ Ends st L st' /\ (r = false <-> Done st' /\ L = l_ldf st' /\ l_epoch st' = ep).
Proof.
  induction fuel as [|fu IH]; intros st S bl0 E Hfuel Hnv; [lia|]. cbn [bootstrap_election].
  destruct (pkr_sim (roots_fuel st) st (l_ldf st + 1) S E) as [res [c1 [el1 [EP [CI1 R1]]]]].
  { unfold roots_fuel. pose proof (cnt_from_le (l_roots st) (l_ldf st + 1)). lia. }
  { lia. }
  { intros m g' Hg'. lia. }
  rewrite EP. destruct R1 as [[-> [S' [E1 AV]]]|[a [-> Hd]]].
  - exists false, [], (st_with st c1 el1), (l_ldf st). rewrite app_nil_r. split; [reflexivity|]. split; [constructor|].
    split; [intros b []|].
    assert (Dn : Done (st_with st c1 el1)) by (exists S'; auto).
    split; [unfold Ends; left; split; [exact Dn|]; split; [reflexivity|]; split; [intros f Hf; lia | split; reflexivity]|].
    split; [intros _|reflexivity]. split; [exact Dn|]. split; [reflexivity|]. apply (co_epoch _ _ _ _ _ _ _ _ (es_core _ _ E1)).
  - destruct (atropos_in _ _ Hd) as [x [Ix Ex]]. subst a.
    assert (C1 : Core (st_with st c1 el1) es T Dr T) by (unfold st_with; apply Core_el, Core_fcc, (es_core _ _ E)).
    destruct (ofd_sim (st_with st c1 el1) x (l_ldf st + 1) C1 (roots_in _ _ _ _ _ _ Ix) ltac:(lia)) as [blk [OB [SL EO]]].
    unfold blk_obs in OB. pose proof (f_equal (fun p => fst (fst p)) OB) as OB1. pose proof (f_equal (fun p => snd (fst p)) OB) as OB2.
    pose proof (f_equal snd OB) as OB3. cbn [fst snd] in OB1, OB2, OB3.
    destruct (sf (l_ldf st + 1)) as [nv'|] eqn:Sf.
    + (* the block seals the epoch *)
      rewrite EO. exists true, [blk], (sealed_state nv' (l_ctr st)), (l_ldf st + 1). split; [reflexivity|].
      split; [cbn [map]; unfold fa; rewrite OB1, OB2; constructor; [exact Hd | constructor]|].
      split; [intros b [<-|[]]; rewrite OB3, OB2, OB1, Sf; auto|].
      split; [unfold Ends; right; exists nv'; split; [lia|]; split; [intros f Hf; lia | split; [exact Sf | reflexivity]]|].
      split; [discriminate|]. intros (_ & _ & Ee). cbn [sealed_state l_epoch] in Ee. lia.
    + destruct EO as [conf' EO]. rewrite EO.
      set (st2 := decided_state (st_with st c1 el1) (l_ldf st + 1) conf').
      assert (E2 : ES st2 (fun _ => False)) by (apply (ES_decided (st_with st c1 el1) conf' C1 CI1 Hnv)).
      destruct (IH st2 _ (bl0 ++ [blk]) E2) as [r [bl [st' [L [EB [SG [BO [EN RF]]]]]]]].
      { change (l_roots st2) with (l_roots st). change (l_ldf st2) with (l_ldf st + 1).
        destruct (root_at_frame st x (l_ldf st + 1) (es_core _ _ E) Ix) as [r [Hr Fr]].
        pose proof (cnt_from_step (l_roots st) (l_ldf st + 1) (ex_intro _ r (conj Hr Fr))). lia. }
      { exact Hnv. }
      rewrite EB. exists r, (blk :: bl), st', L. rewrite <- app_assoc. split; [reflexivity|].
      split; [cbn [map]; unfold fa at 1; rewrite OB1, OB2; constructor; [exact Hd | exact SG]|].
      split; [intros b [<-|Hb]; [rewrite OB3, OB2, OB1, Sf; auto | apply BO; exact Hb]|].
      split; [apply (Ends_shift st st2 L st'); auto|exact RF].
Qed.

(* ---------- handleElection ---------- *)
Lemma handle_sim e ne : a_id e = nd_id ne -> a_creator e = vid vals (nd_cr ne) -> a_frame e = nd_fr ne -> In ne T ->
  forall fuel st S f bl0, ES st S -> nd_spf ne < f -> (N.to_nat (nd_fr ne + 1 - f) < fuel)%nat ->
    (forall m g, l_ldf st + 1 < g -> In m (rts g) -> (m <> ne \/ g < f) -> S (slot m g)) ->
    exists bl st' L, handle_election cap eb fuel es st e f bl0 = (Ok tt, bl0 ++ bl, st') /\
      Seg (l_ldf st) (map fa bl) L /\ blocks_ok bl /\ Ends st L st'.
Proof.
  intros Eid Ecr Efr HneT.
  assert (Hnv : (0 < nv)%nat) by (pose proof (cr_lt vals T ne HwfT HneT); lia).
  induction fuel as [|fu IH]; intros st S f bl0 E Hf Hfuel Hpre; [lia|]. cbn [handle_election].
  rewrite Efr. destruct (nd_fr ne <? f) eqn:Lf.
  - apply N.ltb_lt in Lf. exists [], st, (l_ldf st). rewrite app_nil_r. split; [reflexivity|]. split; [constructor|].
    split; [intros b []|]. unfold Ends. left. split; [|split; [reflexivity|]; split; [intros g Hg; lia | split; reflexivity]].
    exists S. split; [exact E|]. intros m g Hg Hm. apply Hpre; auto.
    destruct (N.eq_dec (nd_id m) (nd_id ne)) as [EQ|NE0];
      [apply (wf_inj vals T HwfT m ne (roots_in _ _ _ _ _ _ Hm) HneT) in EQ; subst m; right
      | left; intros ->; apply NE0; reflexivity].
    unfold roots_at in Hm. apply filter_In in Hm as [_ Hm]. unfold is_root_at in Hm. lia.
  - apply N.ltb_ge in Lf. rewrite Ecr, Eid. change (f, vid vals (nd_cr ne), nd_id ne) with (slot ne f).
    assert (Hroot : In ne (rts f)).
    { unfold roots_at. apply filter_In. split; [exact HneT|]. unfold is_root_at. lia. }
    destruct E as [C CI I N0].
    assert (F0 : 1 <= l_ldf st + 1) by lia.
    destruct (process_root_sim cap ep lam vals Hvals T HwfT Hff (l_ldf st + 1) F0 st es Dr k S ne f C CI NT I N0 Hroot)
      as [res [c1 [el1 [EP [CI1 [I1 [ER Sh]]]]]]].
    { intros H2 m Hm _. apply Hpre; [lia | exact Hm | right; lia]. }
    fold (st_with st c1 el1) in EP, CI1. rewrite EP.
    destruct Sh as [->|[a ->]].
    + assert (E1 : ES (st_with st c1 el1) (fun r => S r \/ r = slot ne f)).
      { apply (ES_with st c1 el1 S); [constructor; auto | exact CI1 | exact I1 | symmetry; exact ER]. }
      destruct (IH (st_with st c1 el1) _ (f + 1) bl0 E1) as [bl [st' [L R]]]; [lia | lia | | exists bl, st', L; exact R].
      change (l_ldf (st_with st c1 el1)) with (l_ldf st). intros m g Hg Hm Hor.
      destruct (N.eq_dec g f) as [->|NE].
      * destruct Hor as [Hor|Hor]; [left; apply Hpre; auto | ].
        destruct (N.eq_dec (nd_id m) (nd_id ne)) as [EQ|NE0];
          [apply (wf_inj vals T HwfT m ne (roots_in _ _ _ _ _ _ Hm) HneT) in EQ; subst m; right; reflexivity
          | left; apply Hpre; auto; left; intros ->; apply NE0; reflexivity].
      * left. apply Hpre; auto. destruct Hor as [Hor|Hor]; [left; exact Hor | right; lia].
    + assert (Hd : decideT (l_ldf st + 1) = Atropos a).
      { apply (choose_some_decide vals Hvals T HwfT Hff (l_ldf st + 1) el1 _ a I1). symmetry. exact ER. }
      destruct (atropos_in _ _ Hd) as [x [Ix Ex]]. subst a.
      assert (C1 : Core (st_with st c1 el1) es T Dr T) by (unfold st_with; apply Core_el, Core_fcc, C).
      destruct (ofd_sim (st_with st c1 el1) x (l_ldf st + 1) C1 (roots_in _ _ _ _ _ _ Ix) ltac:(lia)) as [blk [OB [SL EO]]].
      unfold blk_obs in OB. pose proof (f_equal (fun p => fst (fst p)) OB) as OB1. pose proof (f_equal (fun p => snd (fst p)) OB) as OB2.
    pose proof (f_equal snd OB) as OB3. cbn [fst snd] in OB1, OB2, OB3.
      destruct (sf (l_ldf st + 1)) as [nv'|] eqn:Sf.
      * rewrite EO. exists [blk], (sealed_state nv' (l_ctr st)), (l_ldf st + 1). split; [reflexivity|].
        split; [cbn [map]; unfold fa; rewrite OB1, OB2; constructor; [exact Hd | constructor]|].
        split; [intros b [<-|[]]; rewrite OB3, OB2, OB1, Sf; auto|].
        unfold Ends. right. exists nv'. split; [lia|]. split; [intros g Hg; lia | split; [exact Sf | reflexivity]].
      * destruct EO as [conf' EO]. rewrite EO.
        set (st2 := decided_state (st_with st c1 el1) (l_ldf st + 1) conf').
        assert (E2 : ES st2 (fun _ => False)) by (apply (ES_decided (st_with st c1 el1) conf' C1 CI1 Hnv)).
        destruct (boot_sim (roots_fuel st2) st2 _ (bl0 ++ [blk]) E2) as [r [bl1 [st3 [L1 [EB [SG1 [BO1 [EN1 RF1]]]]]]]].
        { unfold roots_fuel. pose proof (cnt_from_le (l_roots st2) (l_ldf st2 + 1)). lia. }
        { exact Hnv. }
        rewrite EB.
        assert (Hb1 : blocks_ok (blk :: bl1)).
        { intros b [<-|Hb]; [rewrite OB3, OB2, OB1, Sf; auto | apply BO1; exact Hb]. }
        destruct r.
        -- (* sealed inside bootstrapElection *)
           exists (blk :: bl1), st3, L1. rewrite <- app_assoc. split; [reflexivity|].
           split; [cbn [map]; unfold fa at 1; rewrite OB1, OB2; constructor; [exact Hd | exact SG1]|].
           split; [exact Hb1|]. apply (Ends_shift st st2 L1 st3); auto.
        -- destruct (proj1 RF1 eq_refl) as [[S3 [E3 AV3]] [EL1 _]].
           assert (EN1' : l_roots st3 = l_roots st2 /\ l_ctr st3 = l_ctr st2 /\ NoSeal (l_ldf st2) L1).
           { destruct EN1 as [(_ & _ & NS & R & Cc)|(nv' & _ & _ & _ & ES')]; [auto|].
             exfalso. destruct E3 as [C3 _ _ _]. pose proof (co_epoch _ _ _ _ _ _ _ _ C3) as Ee. rewrite ES' in Ee. cbn [sealed_state l_epoch] in Ee. lia. }
           destruct EN1' as (RR1 & CC1 & NS1).
           destruct (IH st3 S3 (f + 1) ((bl0 ++ [blk]) ++ bl1) E3) as [bl2 [st' [L2 [EH [SG2 [BO2 EN2]]]]]]; [lia | lia | |].
           { intros m g Hg Hm _. apply AV3; auto. }
           rewrite EH. exists (blk :: bl1 ++ bl2), st', L2.
           split; [rewrite <- !app_assoc; reflexivity|].
           split; [cbn [map]; unfold fa at 1; rewrite OB1, OB2; constructor; [exact Hd|]; rewrite map_app; eapply Seg_app; [exact SG1 | rewrite EL1; exact SG2]|].
           split; [intros b Hb; change (blk :: bl1 ++ bl2) with ((blk :: bl1) ++ bl2) in Hb; apply in_app_or in Hb as [Hb|Hb]; [apply Hb1 | apply BO2]; exact Hb|].
           apply (Ends_shift st st2 L2 st'); auto.
           destruct EN2 as [(D & EL & NS & R & Cc)|(nv' & Lt & NS & Sf' & ES')].
           ++ unfold Ends. left. split; [exact D|]. split; [exact EL|]. split; [|split; congruence].
              intros g Hg. destruct (N.le_gt_cases g L1) as [Le|Gt]; [apply NS1; lia | apply NS; lia].
           ++ pose proof (Seg_le _ _ _ SG1) as LE1. unfold Ends. right. exists nv'. split; [lia|]. split; [|split; [exact Sf' | rewrite ES', CC1; reflexivity]].
              intros g Hg. destruct (N.le_gt_cases g L1) as [Le|Gt]; [apply NS1; lia | apply NS; lia].
Qed.

End Elect.
