(* L1, brick 4: the election loops of event_processing.go over a fixed table T (the reference's table
   including the event being processed):
     processKnownRoots   votes every known slot in ascending frame order; stops at the first empty frame,
                         which by the frame rule (every root sees a quorum of roots of the previous
                         frame) is past the last frame that has roots;
     onFrameDecided      never fails (the confirm DFS finds every ancestor in the event store);
     bootstrapElection   decision -> reset -> full re-vote, until no further decision;
     handleElection      votes the new event's slots in ascending order.
   Every reported decision is the reference's Atropos of the frame (choose_some_decide); when a loop
   ends without a decision every slot has voted, hence the reference has no Atropos either
   (choose_none_undecided).  The emitted blocks are a segment of the reference's blocks (Seg). *)
From Coq Require Import NArith ZArith List Lia Bool ZifyBool ZifyN ZifyNat.
From LV Require Import lib.Bytes model.Codec model.VecIndex spec.FcSpec model.Abft model.AbftRun spec.ElectionSpec
  lib.WSumBft proofs.VecInv proofs.AbftFrame proofs.AbftCount proofs.AbftIds proofs.AbftBuild proofs.AbftInvLemmas
  proofs.AbftDfs proofs.AbftDfsFuel
  proofs.BftCore proofs.BftElection proofs.BftMono proofs.BftGraph proofs.BftMain proofs.BftRun proofs.BftAccept
  proofs.LinkVals proofs.LinkDefs proofs.LinkSim proofs.LinkTally proofs.LinkVote.
Import ListNotations.
Local Open Scope N_scope.

Definition st_with (st : lstate) (c : fccache) (el : election) : lstate := set_el (set_fcc st c) el.
Lemma st_with_id st : st_with st (l_fcc st) (l_el st) = st.
Proof. destruct st; reflexivity. Qed.

(* the confirm DFS does not hit "event not found" when the store is closed under parents *)
Lemma dfs_no_crit es frame (known : N -> Prop) :
  (forall x, known x -> exists ev, get_event es x = Some ev /\ forall p, In p (a_parents ev) -> known p) ->
  forall fuel stack conf acc, (forall x, In x stack -> known x) ->
  (exists r, dfs_confirm fuel es frame stack conf acc = Ok r) \/ dfs_confirm fuel es frame stack conf acc = Err EFuel.
Proof.
  intros K. induction fuel as [|fu IH]; intros stack conf acc Hs; cbn [dfs_confirm]; [right; reflexivity|].
  destruct stack as [|w rest]; [left; eauto|].
  destruct (K w (Hs w (or_introl eq_refl))) as [ev [G P]]. rewrite G.
  destruct (negb (conf_get conf w =? 0)).
  - apply IH. intros x Hx. apply Hs. right. exact Hx.
  - apply IH. intros x Hx. apply in_app_or in Hx as [Hx|Hx]; [apply P; apply in_rev; exact Hx | apply Hs; right; exact Hx].
Qed.

Section Elect.
Variable cap : nat.
Variable lam : fev -> N.
Variable vals : list (N * N).
Hypothesis Hvals : vals_ok vals.
Variable T : list node.
Variable Dr : list fev.
Variable es : estore.
Variable k : N.
Hypothesis Hff : few_forkers vals T.
Hypothesis NT : forall m, In m T -> ~ is_temp k (nd_id m).
Hypothesis HwfTD : wfTD vals T Dr.

Notation ws := (map snd vals).
Notation nv := (length vals).
Notation q := (ElectionSpec.quorum_of ws).
Notation fcn := (fc_n ws q).
Notation rts := (roots_at node nd_fr nd_spf T).
Notation slot := (slot vals).
Notation Core := (Core lam vals).
Notation cache_inv := (cache_inv vals).
Notation EI := (EI vals T).
Notation eb := (policy_fn []).
Notation decideT f := (decide node nd_id nd_cr nd_fr nd_spf fcn ws q (canon_order vals) T f (max_frame node nd_fr T)).

Let HwfT : wfT vals T := wfTD_wfT vals T Dr HwfTD.

Lemma EI_weaken f0 el (S S' : root -> Prop) : EI f0 el S -> (forall r, S' r -> S r) -> EI f0 el S'.
Proof.
  intros [A B V DS DC] H.
  constructor; [exact A | exact B | intros n f u HS; apply V; apply H; exact HS | exact DS
               | intros n f u b HS; apply DC; apply H; exact HS].
Qed.

(* the state of one election: frame to decide = LastDecidedFrame + 1 *)
Record ES (st : lstate) (S : root -> Prop) : Prop := {
  es_core : Core st es T Dr T;
  es_cache : cache_inv k st T T;
  es_ei : EI (l_ldf st + 1) (l_el st) S;
  es_none : choose_atropos (l_el st) = Ok None }.

Lemma ES_with st c el S S' : ES st S -> cache_inv k (st_with st c el) T T -> EI (l_ldf st + 1) el S' ->
  choose_atropos el = Ok None -> ES (st_with st c el) S'.
Proof.
  intros [C _ _ _] CI I N. constructor; auto. unfold st_with. apply Core_el, Core_fcc. exact C.
Qed.

(* ---------- frames that have roots are contiguous ---------- *)
Lemma roots_contig g : 1 <= g -> rts g = [] -> forall d, rts (g + N.of_nat d) = [].
Proof.
  intros Hg H0. induction d as [|d IH]; [rewrite N.add_0_r; exact H0|].
  destruct (rts (g + N.of_nat (S d))) as [|r t] eqn:E; [reflexivity|]. exfalso.
  assert (Hr : In r (rts (g + N.of_nat d + 1))) by (replace (g + N.of_nat d + 1) with (g + N.of_nat (S d)) by lia; rewrite E; left; reflexivity).
  pose proof (roots_quorum_n vals T HwfT (g + N.of_nat d) r ltac:(lia) Hr) as Q. unfold quorum_on in Q.
  apply N.leb_le in Q. pose proof (quorum_of_pos ws) as Qp.
  assert (Pos : 0 < wsP ws (ElectionSpec.by_cr node nd_cr (obs node nd_fr nd_spf fcn T r (g + N.of_nat d)) (fun _ => true))) by (change (wsumP ws ?P) with (wsP ws P) in Q; lia).
  apply wsP_pos_ex in Pos as [i [_ Hi]]. unfold ElectionSpec.by_cr in Hi. apply existsb_exists in Hi as [m [Hm _]].
  unfold obs in Hm. apply filter_In in Hm as [Hm _]. rewrite IH in Hm. destruct Hm.
Qed.
Lemma roots_contig' g g' : 1 <= g -> rts g = [] -> g <= g' -> rts g' = [].
Proof. intros Hg H0 L. replace g' with (g + N.of_nat (N.to_nat (g' - g))) by lia. apply roots_contig; auto. Qed.

(* ---------- processKnownRoots: the roots of one frame ---------- *)
Lemma pkr_frame_sim g : forall ms st S, ES st S -> (forall m, In m ms -> In m (rts g)) ->
  (l_ldf st + 1 + 2 <= g -> forall m, In m (rts (g - 1)) -> S (slot m (g - 1))) ->
  exists res c' el', pkr_frame cap st (map (fun m => slot m g) ms) = (res, st_with st c' el') /\
    cache_inv k (st_with st c' el') T T /\
    ((res = Ok None /\ ES (st_with st c' el') (fun r => S r \/ exists m, In m ms /\ r = slot m g)) \/
     (exists a, res = Ok (Some (l_ldf st + 1, a)) /\ decideT (l_ldf st + 1) = Atropos a)).
Proof.
  induction ms as [|m t IH]; intros st S E Hms Hprev; cbn [map pkr_frame].
  - exists (Ok None), (l_fcc st), (l_el st). rewrite st_with_id. split; [reflexivity|]. split; [apply (es_cache _ _ E)|].
    left. split; [reflexivity|]. destruct E as [C CI I N]. constructor; auto.
    eapply EI_weaken; [exact I|]. intros r [H|[m [[] _]]]. exact H.
  - destruct E as [C CI I N].
    assert (F0 : 1 <= l_ldf st + 1) by lia.
    destruct (process_root_sim cap lam vals Hvals T HwfT Hff (l_ldf st + 1) F0 st es Dr k S m g C CI NT I N
                (Hms m (or_introl eq_refl))) as [res [c1 [el1 [EP [CI1 [I1 [ER Sh]]]]]]].
    { intros H2 m' Hm' _. apply Hprev; auto. }
    fold (st_with st c1 el1) in EP, CI1. rewrite EP.
    destruct Sh as [->|[a ->]].
    + assert (E1 : ES (st_with st c1 el1) (fun r => S r \/ r = slot m g)).
      { apply (ES_with st c1 el1 S); [constructor; auto | exact CI1 | exact I1 | symmetry; exact ER]. }
      destruct (IH (st_with st c1 el1) _ E1 (fun m' H' => Hms m' (or_intror H'))) as [res [c2 [el2 [EP2 [CI2 R2]]]]].
      { intros H2 m' Hm'. left. apply Hprev; auto. }
      change (st_with (st_with st c1 el1) c2 el2) with (st_with st c2 el2) in *.
      change (l_ldf (st_with st c1 el1)) with (l_ldf st) in *.
      exists res, c2, el2. split; [exact EP2|]. split; [exact CI2|].
      destruct R2 as [[-> E2]|R2]; [left | right; exact R2]. split; [reflexivity|].
      destruct E2 as [C2 CI2' I2 N2]. constructor; auto. eapply EI_weaken; [exact I2|].
      intros r [H|[m' [[<-|Hm'] ->]]]; [left; left; exact H | left; right; reflexivity | right; exists m'; auto].
    + exists (Ok (Some (l_ldf st + 1, a))), c1, el1. split; [reflexivity|]. split; [exact CI1|]. right.
      exists a. split; [reflexivity|].
      apply (choose_some_decide vals Hvals T HwfT Hff (l_ldf st + 1) el1 _ a I1). symmetry. exact ER.
Qed.

(* ---------- processKnownRoots ---------- *)
Definition all_voted (f0 : N) (S : root -> Prop) : Prop := forall m g, f0 < g -> In m (rts g) -> S (slot m g).

Lemma pkr_sim : forall fuel st g S, ES st S -> (cnt_from (l_roots st) g < fuel)%nat -> 1 <= g ->
  (forall m g', l_ldf st + 1 < g' < g -> In m (rts g') -> S (slot m g')) ->
  exists res c' el', process_known_roots cap fuel st g = (res, st_with st c' el') /\
    cache_inv k (st_with st c' el') T T /\
    ((res = Ok None /\ exists S', ES (st_with st c' el') S' /\ all_voted (l_ldf st + 1) S') \/
     (exists a, res = Ok (Some (l_ldf st + 1, a)) /\ decideT (l_ldf st + 1) = Atropos a)).
Proof.
  induction fuel as [|fu IH]; intros st g S E Hfuel Hg Hpre; [lia|]. cbn [process_known_roots].
  destruct (frame_roots_for lam vals st es T Dr T g (es_core _ _ E)) as [ms [_ [Hms [Ems _]]]].
  rewrite Ems.
  destruct (pkr_frame_sim g ms st S E (fun m H => proj1 (Hms m) H)) as [res [c1 [el1 [EP [CI1 R1]]]]].
  { intros H2 m Hm. apply Hpre; [lia | exact Hm]. }
  rewrite EP. destruct R1 as [[-> E1]|[a [-> Hd]]].
  - destruct (map (fun m => slot m g) ms) as [|r0 rest] eqn:Emap.
    + (* first frame without roots: everything above f0 has voted *)
      apply map_eq_nil in Emap. subst ms.
      exists (Ok None), c1, el1. split; [reflexivity|]. split; [exact CI1|]. left. split; [reflexivity|].
      eexists. split; [exact E1|]. intros m g' Hg' Hm. left.
      destruct (N.lt_ge_cases g' g) as [L|L]; [apply Hpre; auto|].
      assert (Hempty : rts g = []).
      { destruct (rts g) as [|x t] eqn:Ex; [reflexivity|]. exfalso. apply (proj2 (Hms x)). left. reflexivity. }
      rewrite (roots_contig' g g' Hg Hempty L) in Hm. destruct Hm.
    + assert (Hstep : (cnt_from (l_roots st) (g + 1) < cnt_from (l_roots st) g)%nat).
      { apply cnt_from_step. exists r0.
        assert (Hin : In r0 (get_frame_roots st g)) by (rewrite Ems; left; reflexivity).
        unfold get_frame_roots in Hin. apply filter_In in Hin as [Hin Hf]. apply N.eqb_eq in Hf. auto. }
      destruct (IH (st_with st c1 el1) (g + 1) _ E1) as [res [c2 [el2 [EP2 [CI2 R2]]]]].
      { change (l_roots (st_with st c1 el1)) with (l_roots st). lia. }
      { lia. }
      { change (l_ldf (st_with st c1 el1)) with (l_ldf st). intros m g' Hg' Hm.
        destruct (N.eq_dec g' g) as [->|NE]; [right; exists m; split; [apply Hms; exact Hm | reflexivity]|].
        left. apply Hpre; [lia | exact Hm]. }
      change (st_with (st_with st c1 el1) c2 el2) with (st_with st c2 el2) in *.
      change (l_ldf (st_with st c1 el1)) with (l_ldf st) in *.
      exists res, c2, el2. split; [exact EP2 | split; [exact CI2 | exact R2]].
  - exists (Ok (Some (l_ldf st + 1, a))), c1, el1. split; [reflexivity|]. split; [exact CI1|]. right. eauto.
Qed.

End Elect.
