(* L1, brick 4: the election loops of event_processing.go over a fixed table T (the reference's table
   including the event being processed):
     processKnownRoots   votes every known slot in ascending frame order; stops at the first empty frame,
                         which by the frame rule (every root sees a quorum of roots of the previous
                         frame) is past the last frame that has roots;
     onFrameDecided      never fails (the confirm DFS finds every ancestor in the event store);
     bootstrapElection   decision -> reset -> full re-vote, until no further decision;
     handleElection      votes the new event's slots in ascending order.
   Every reported decision is the reference's Atropos of the frame (choose_some_decide); when a loop
   ends without a decision every slot has voted, hence the reference has no Atropos either
   (choose_none_undecided).  The emitted blocks are a segment of the reference's blocks (Seg). *)
From Coq Require Import NArith ZArith List Lia Bool ZifyBool ZifyN ZifyNat.
From LV Require Import lib.Bytes model.Codec model.VecIndex spec.FcSpec model.Abft model.AbftRun spec.ElectionSpec
  lib.WSumBft proofs.VecInv proofs.AbftFrame proofs.AbftCount proofs.AbftIds proofs.AbftBuild proofs.AbftInvLemmas
  proofs.AbftDfs proofs.AbftDfsFuel
  proofs.BftCore proofs.BftElection proofs.BftMono proofs.BftGraph proofs.BftMain proofs.BftRun proofs.BftAccept
  proofs.LinkVals proofs.LinkDefs proofs.LinkSim proofs.LinkTally proofs.LinkVote proofs.LinkCheat.
Import ListNotations.
Local Open Scope N_scope.

Definition st_with (st : lstate) (c : fccache) (el : election) : lstate := set_el (set_fcc st c) el.
Lemma st_with_id st : st_with st (l_fcc st) (l_el st) = st.
Proof. destruct st; reflexivity. Qed.

(* the confirm DFS does not hit "event not found" when the store is closed under parents *)
Lemma dfs_no_crit es frame (known : N -> Prop) :
  (forall x, known x -> exists ev, get_event es x = Some ev /\ forall p, In p (a_parents ev) -> known p) ->
  forall fuel stack conf acc, (forall x, In x stack -> known x) ->
  (exists r, dfs_confirm fuel es frame stack conf acc = Ok r) \/ dfs_confirm fuel es frame stack conf acc = Err EFuel.
Proof.
  intros K. induction fuel as [|fu IH]; intros stack conf acc Hs; cbn [dfs_confirm]; [right; reflexivity|].
  destruct stack as [|w rest]; [left; eauto|].
  destruct (K w (Hs w (or_introl eq_refl))) as [ev [G P]]. rewrite G.
  destruct (negb (conf_get conf w =? 0)).
  - apply IH. intros x Hx. apply Hs. right. exact Hx.
  - apply IH. intros x Hx. apply in_app_or in Hx as [Hx|Hx]; [apply P; apply in_rev; exact Hx | apply Hs; right; exact Hx].
Qed.

Lemma wfTD_parents vals : forall T Dr, wfTD vals T Dr -> forall e p, In e Dr -> In p (epar (fe e)) -> In p (ids_of Dr).
Proof.
  induction 1 as [|T Dr e0 W IH PK NL CR EW FO]; intros e p He Hp; [destruct He|].
  destruct He as [<-|He].
  - destruct (PK p Hp) as [n L]. apply nlookup_some in L as [Hn En].
    destruct (node_event vals T Dr n W Hn) as [e' [He' [E' _]]].
    right. unfold ids_of. apply in_map_iff. exists e'. split; [congruence | exact He'].
  - right. eapply IH; eauto.
Qed.

Definition decided_state (st : lstate) (f : N) (conf' : list (N * N)) : lstate :=
  {| l_epoch := l_epoch st; l_vals := l_vals st; l_ldf := f; l_roots := l_roots st; l_conf := conf';
     l_idx := l_idx st; l_fcc := l_fcc st; l_el := el_reset (l_vals st) (f + 1); l_ctr := l_ctr st |}.
Definition fa (b : block) : N * N := (b_frame b, b_atropos b).

Section Elect.
Variable cap : nat.
Variable ep : N.
Variable lam : fev -> N.
Variable vals : list (N * N).
Hypothesis Hvals : vals_ok vals.
Variable T : list node.
Variable Dr : list fev.
Variable es : estore.
Variable k : N -> Prop.       (* keys of forkless-cause cache entries that may be stale *)
Hypothesis Hff : few_forkers vals T.
Hypothesis NT : forall m, In m T -> ~ k (nd_id m).
Hypothesis HwfTD : wfTD vals T Dr.

Notation ws := (map snd vals).
Notation nv := (length vals).
Notation q := (ElectionSpec.quorum_of ws).
Notation fcn := (fc_n ws q).
Notation rts := (roots_at node nd_fr nd_spf T).
Notation slot := (slot vals).
Notation Core := (Core ep lam vals).
Notation cache_inv := (cache_inv vals).
Notation EI := (EI vals T).
Notation eb := (policy_fn []).
Notation decideT f := (decide node nd_id nd_cr nd_fr nd_spf fcn ws q (canon_order vals) T f (max_frame node nd_fr T)).

Let HwfT : wfT vals T := wfTD_wfT vals T Dr HwfTD.

Lemma EI_weaken f0 el (S S' : root -> Prop) : EI f0 el S -> (forall r, S' r -> S r) -> EI f0 el S'.
Proof.
  intros [A B V DS DC] H.
  constructor; [exact A | exact B | intros n f u HS; apply V; apply H; exact HS | exact DS
               | intros n f u b HS; apply DC; apply H; exact HS].
Qed.

(* the state of one election: frame to decide = LastDecidedFrame + 1 *)
Record ES (st : lstate) (S : root -> Prop) : Prop := {
  es_core : Core st es T Dr T;
  es_cache : cache_inv k st T T;
  es_ei : EI (l_ldf st + 1) (l_el st) S;
  es_none : choose_atropos (l_el st) = Ok None }.

Lemma ES_with st c el S S' : ES st S -> cache_inv k (st_with st c el) T T -> EI (l_ldf st + 1) el S' ->
  choose_atropos el = Ok None -> ES (st_with st c el) S'.
Proof.
  intros [C _ _ _] CI I N. constructor; auto. unfold st_with. apply Core_el, Core_fcc. exact C.
Qed.

(* ---------- frames that have roots are contiguous ---------- *)
Lemma roots_contig g : 1 <= g -> rts g = [] -> forall d, rts (g + N.of_nat d) = [].
Proof.
  intros Hg H0. induction d as [|d IH]; [rewrite N.add_0_r; exact H0|].
  destruct (rts (g + N.of_nat (S d))) as [|r t] eqn:E; [reflexivity|]. exfalso.
  assert (Hr : In r (rts (g + N.of_nat d + 1))) by (replace (g + N.of_nat d + 1) with (g + N.of_nat (S d)) by lia; rewrite E; left; reflexivity).
  pose proof (roots_quorum_n vals T HwfT (g + N.of_nat d) r ltac:(lia) Hr) as Q. unfold quorum_on in Q.
  apply N.leb_le in Q. pose proof (quorum_of_pos ws) as Qp.
  assert (Pos : 0 < wsP ws (ElectionSpec.by_cr node nd_cr (obs node nd_fr nd_spf fcn T r (g + N.of_nat d)) (fun _ => true))) by (change (wsumP ws ?P) with (wsP ws P) in Q; lia).
  apply wsP_pos_ex in Pos as [i [_ Hi]]. unfold ElectionSpec.by_cr in Hi. apply existsb_exists in Hi as [m [Hm _]].
  unfold obs in Hm. apply filter_In in Hm as [Hm _]. rewrite IH in Hm. destruct Hm.
Qed.
Lemma roots_contig' g g' : 1 <= g -> rts g = [] -> g <= g' -> rts g' = [].
Proof. intros Hg H0 L. replace g' with (g + N.of_nat (N.to_nat (g' - g))) by lia. apply roots_contig; auto. Qed.

(* ---------- processKnownRoots: the roots of one frame ---------- *)
Lemma pkr_frame_sim g : forall ms st S, ES st S -> (forall m, In m ms -> In m (rts g)) ->
  (l_ldf st + 1 + 2 <= g -> forall m, In m (rts (g - 1)) -> S (slot m (g - 1))) ->
  exists res c' el', pkr_frame cap st (map (fun m => slot m g) ms) = (res, st_with st c' el') /\
    cache_inv k (st_with st c' el') T T /\
    ((res = Ok None /\ ES (st_with st c' el') (fun r => S r \/ exists m, In m ms /\ r = slot m g)) \/
     (exists a, res = Ok (Some (l_ldf st + 1, a)) /\ decideT (l_ldf st + 1) = Atropos a)).
Proof.
  induction ms as [|m t IH]; intros st S E Hms Hprev; cbn [map pkr_frame].
  - exists (Ok None), (l_fcc st), (l_el st). rewrite st_with_id. split; [reflexivity|]. split; [apply (es_cache _ _ E)|].
    left. split; [reflexivity|]. destruct E as [C CI I N]. constructor; auto.
    eapply EI_weaken; [exact I|]. intros r [H|[m [[] _]]]. exact H.
  - destruct E as [C CI I N].
    assert (F0 : 1 <= l_ldf st + 1) by lia.
    destruct (process_root_sim cap ep lam vals Hvals T HwfT Hff (l_ldf st + 1) F0 st es Dr k S m g C CI NT I N
                (Hms m (or_introl eq_refl))) as [res [c1 [el1 [EP [CI1 [I1 [ER Sh]]]]]]].
    { intros H2 m' Hm' _. apply Hprev; auto. }
    fold (st_with st c1 el1) in EP, CI1. rewrite EP.
    destruct Sh as [->|[a ->]].
    + assert (E1 : ES (st_with st c1 el1) (fun r => S r \/ r = slot m g)).
      { apply (ES_with st c1 el1 S); [constructor; auto | exact CI1 | exact I1 | symmetry; exact ER]. }
      destruct (IH (st_with st c1 el1) _ E1 (fun m' H' => Hms m' (or_intror H'))) as [res [c2 [el2 [EP2 [CI2 R2]]]]].
      { intros H2 m' Hm'. left. apply Hprev; auto. }
      change (st_with (st_with st c1 el1) c2 el2) with (st_with st c2 el2) in *.
      change (l_ldf (st_with st c1 el1)) with (l_ldf st) in *.
      exists res, c2, el2. split; [exact EP2|]. split; [exact CI2|].
      destruct R2 as [[-> E2]|R2]; [left | right; exact R2]. split; [reflexivity|].
      destruct E2 as [C2 CI2' I2 N2]. constructor; auto. eapply EI_weaken; [exact I2|].
      intros r [H|[m' [[<-|Hm'] ->]]]; [left; left; exact H | left; right; reflexivity | right; exists m'; auto].
    + exists (Ok (Some (l_ldf st + 1, a))), c1, el1. split; [reflexivity|]. split; [exact CI1|]. right.
      exists a. split; [reflexivity|].
      apply (choose_some_decide vals Hvals T HwfT Hff (l_ldf st + 1) el1 _ a I1). symmetry. exact ER.
Qed.

(* ---------- processKnownRoots ---------- *)
Definition all_voted (f0 : N) (S : root -> Prop) : Prop := forall m g, f0 < g -> In m (rts g) -> S (slot m g).

Lemma pkr_sim : forall fuel st g S, ES st S -> (cnt_from (l_roots st) g < fuel)%nat -> 1 <= g ->
  (forall m g', l_ldf st + 1 < g' < g -> In m (rts g') -> S (slot m g')) ->
  exists res c' el', process_known_roots cap fuel st g = (res, st_with st c' el') /\
    cache_inv k (st_with st c' el') T T /\
    ((res = Ok None /\ exists S', ES (st_with st c' el') S' /\ all_voted (l_ldf st + 1) S') \/
     (exists a, res = Ok (Some (l_ldf st + 1, a)) /\ decideT (l_ldf st + 1) = Atropos a)).
Proof.
  induction fuel as [|fu IH]; intros st g S E Hfuel Hg Hpre; [lia|]. cbn [process_known_roots].
  destruct (frame_roots_for ep lam vals st es T Dr T g (es_core _ _ E)) as [ms [_ [Hms [Ems _]]]].
  rewrite Ems.
  destruct (pkr_frame_sim g ms st S E (fun m H => proj1 (Hms m) H)) as [res [c1 [el1 [EP [CI1 R1]]]]].
  { intros H2 m Hm. apply Hpre; [lia | exact Hm]. }
  rewrite EP. destruct R1 as [[-> E1]|[a [-> Hd]]].
  - destruct (map (fun m => slot m g) ms) as [|r0 rest] eqn:Emap.
    + (* first frame without roots: everything above f0 has voted *)
      apply map_eq_nil in Emap. subst ms.
      exists (Ok None), c1, el1. split; [reflexivity|]. split; [exact CI1|]. left. split; [reflexivity|].
      eexists. split; [exact E1|]. intros m g' Hg' Hm. left.
      destruct (N.lt_ge_cases g' g) as [L|L]; [apply Hpre; auto|].
      assert (Hempty : rts g = []).
      { destruct (rts g) as [|x t] eqn:Ex; [reflexivity|]. exfalso. apply (proj2 (Hms x)). left. reflexivity. }
      rewrite (roots_contig' g g' Hg Hempty L) in Hm. destruct Hm.
    + assert (Hstep : (cnt_from (l_roots st) (g + 1) < cnt_from (l_roots st) g)%nat).
      { apply cnt_from_step. exists r0.
        assert (Hin : In r0 (get_frame_roots st g)) by (rewrite Ems; left; reflexivity).
        unfold get_frame_roots in Hin. apply filter_In in Hin as [Hin Hf]. apply N.eqb_eq in Hf. auto. }
      destruct (IH (st_with st c1 el1) (g + 1) _ E1) as [res [c2 [el2 [EP2 [CI2 R2]]]]].
      { change (l_roots (st_with st c1 el1)) with (l_roots st). lia. }
      { lia. }
      { change (l_ldf (st_with st c1 el1)) with (l_ldf st). intros m g' Hg' Hm.
        destruct (N.eq_dec g' g) as [->|NE]; [right; exists m; split; [apply Hms; exact Hm | reflexivity]|].
        left. apply Hpre; [lia | exact Hm]. }
      change (st_with (st_with st c1 el1) c2 el2) with (st_with st c2 el2) in *.
      change (l_ldf (st_with st c1 el1)) with (l_ldf st) in *.
      exists res, c2, el2. split; [exact EP2 | split; [exact CI2 | exact R2]].
  - exists (Ok (Some (l_ldf st + 1, a))), c1, el1. split; [reflexivity|]. split; [exact CI1|]. right. eauto.
Qed.

(* ---------- onFrameDecided ---------- *)
Lemma ofd_sim st a f : Core st es T Dr T -> In a T -> f <> 0 ->
  exists blk conf', on_frame_decided eb es st f (nd_id a) = (Ok (false, blk), decided_state st f conf') /\
    blk_obs blk = (f, nd_id a, ElectionSpec.cheaters_of vals T (nd_id a)) /\ b_seal blk = None.
Proof.
  intros C Ha Hf. unfold on_frame_decided, apply_atropos.
  assert (K : forall x, In x (ids_of Dr) -> exists ev, get_event es x = Some ev /\ forall p, In p (a_parents ev) -> In p (ids_of Dr)).
  { intros x Hx. unfold ids_of in Hx. apply in_map_iff in Hx as [e [<- He]].
    exists (to_aevent ep lam vals e). split.
    { apply (co_es _ _ _ _ _ _ _ _ C); [exact He|]. destruct (event_node vals T Dr e HwfTD He) as [m [Hm [Em _]]]. exists m. auto. }
    cbn [to_aevent a_parents]. intros p Hp. eapply (wfTD_parents vals T Dr HwfTD); eauto. }
  assert (Hs : forall x, In x [nd_id a] -> In x (ids_of Dr)).
  { intros x [<-|[]]. destruct (node_event vals T Dr a HwfTD Ha) as [e [He [E _]]].
    unfold ids_of. apply in_map_iff. exists e. auto. }
  destruct (dfs_no_crit es f _ K (confirm_fuel es) [nd_id a] (l_conf st) [] Hs) as [[[dl conf'] E]|E].
  2:{ exfalso. exact (confirm_never_out_of_fuel es f (nd_id a) (l_conf st) Hf E). }
  rewrite E. cbn [b_seal policy_fn find]. exists {| b_frame := f; b_atropos := nd_id a; b_cheaters := Abft.cheaters_of st (nd_id a);
             b_delivered := dl; b_seal := None |}, conf'.
  split; [reflexivity|]. split; [|reflexivity]. unfold blk_obs. cbn [b_frame b_atropos b_cheaters].
  rewrite (cheaters_sim ep lam vals Hvals st es T Dr T a C Ha). reflexivity.
Qed.

Lemma choose_reset f : (0 < nv)%nat -> choose_atropos (el_reset vals f) = Ok None.
Proof. intros H. unfold choose_atropos, el_reset. cbn [el_vals el_decided el_frame]. destruct vals as [|[x w] t]; [cbn in H; lia | reflexivity]. Qed.

Lemma ES_decided st conf' : Core st es T Dr T -> cache_inv k st T T -> (0 < nv)%nat ->
  ES (decided_state st (l_ldf st + 1) conf') (fun _ => False).
Proof.
  intros C CI Hnv. destruct C as [A B Cc D E F G H I]. constructor.
  - constructor; auto.
  - exact CI.
  - cbn [decided_state l_ldf l_el]. rewrite B. apply EI_reset.
  - cbn [decided_state l_el]. rewrite B. apply choose_reset. exact Hnv.
Qed.

(* ---------- the emitted blocks as a segment of the reference's decisions ---------- *)
Inductive Seg : N -> list (N * N) -> N -> Prop :=
| seg_nil L : Seg L [] L
| seg_cons L a t L1 : decideT (L + 1) = Atropos a -> Seg (L + 1) t L1 -> Seg L ((L + 1, a) :: t) L1.
Lemma Seg_app L0 B1 L1 B2 L2 : Seg L0 B1 L1 -> Seg L1 B2 L2 -> Seg L0 (B1 ++ B2) L2.
Proof. induction 1; intros H2; cbn [app]; [exact H2 | constructor; auto]. Qed.

Lemma atropos_in f a : decideT f = Atropos a -> exists x, In x (rts f) /\ nd_id x = a.
Proof.
  intros H. apply (decide_sound node nd_id nd_cr nd_fr nd_spf fcn ws q (canon_order vals) T f (wf_inj vals T HwfT)) in H
    as (pre & v & post & x & _ & _ & _ & Vx & Ex).
  unfold voted_root in Vx. apply find_some in Vx as [Ix _]. eauto.
Qed.

Definition Done (st : lstate) : Prop := exists S, ES st S /\ all_voted (l_ldf st + 1) S.
Definition blocks_ok (bl : list block) : Prop :=
  forall b, In b bl -> b_cheaters b = ElectionSpec.cheaters_of vals T (b_atropos b) /\ b_seal b = None.

Lemma root_at_frame st x f : Core st es T Dr T -> In x (rts f) -> exists r, In r (l_roots st) /\ r_frame r = f.
Proof.
  intros C Hx. exists (slot x f). split; [|reflexivity]. apply (co_roots _ _ _ _ _ _ _ _ C). exists x, f.
  unfold roots_at in Hx. apply filter_In in Hx. destruct Hx. auto.
Qed.

(* ---------- bootstrapElection ---------- *)
Lemma boot_sim : forall fuel st S bl0, ES st S -> (cnt_from (l_roots st) (l_ldf st + 1) < fuel)%nat -> (0 < nv)%nat ->
  exists bl st', bootstrap_election cap eb fuel es st bl0 = (Ok false, bl0 ++ bl, st') /\ Done st' /\
    Seg (l_ldf st) (map fa bl) (l_ldf st') /\ blocks_ok bl /\ l_roots st' = l_roots st /\ l_ctr st' = l_ctr st.
Proof.
  induction fuel as [|fu IH]; intros st S bl0 E Hfuel Hnv; [lia|]. cbn [bootstrap_election].
  destruct (pkr_sim (roots_fuel st) st (l_ldf st + 1) S E) as [res [c1 [el1 [EP [CI1 R1]]]]].
  { unfold roots_fuel. pose proof (cnt_from_le (l_roots st) (l_ldf st + 1)). lia. }
  { lia. }
  { intros m g' Hg'. lia. }
  rewrite EP. destruct R1 as [[-> [S' [E1 AV]]]|[a [-> Hd]]].
  - exists [], (st_with st c1 el1). rewrite app_nil_r. split; [reflexivity|]. split; [exists S'; auto|].
    split; [constructor|]. split; [intros b []|]. split; reflexivity.
  - destruct (atropos_in _ _ Hd) as [x [Ix Ex]]. subst a.
    assert (C1 : Core (st_with st c1 el1) es T Dr T) by (unfold st_with; apply Core_el, Core_fcc, (es_core _ _ E)).
    destruct (ofd_sim (st_with st c1 el1) x (l_ldf st + 1) C1 (roots_in _ _ _ _ _ _ Ix) ltac:(lia)) as [blk [conf' [EO [OB SL]]]].
    rewrite EO.
    set (st2 := decided_state (st_with st c1 el1) (l_ldf st + 1) conf').
    assert (E2 : ES st2 (fun _ => False)).
    { apply (ES_decided (st_with st c1 el1) conf' C1 CI1 Hnv). }
    destruct (IH st2 _ (bl0 ++ [blk]) E2) as [bl [st' [EB [D' [SG [BO [RR CC]]]]]]].
    { change (l_roots st2) with (l_roots st). change (l_ldf st2) with (l_ldf st + 1).
      destruct (root_at_frame st x (l_ldf st + 1) (es_core _ _ E) Ix) as [r [Hr Fr]].
      pose proof (cnt_from_step (l_roots st) (l_ldf st + 1) (ex_intro _ r (conj Hr Fr))). lia. }
    { exact Hnv. }
    rewrite EB. exists (blk :: bl), st'. rewrite <- app_assoc. split; [reflexivity|]. split; [exact D'|].
    unfold blk_obs in OB. inversion OB as [[OB1 OB2 OB3]].
    split; [|split; [|split; [exact RR | exact CC]]].
    + cbn [map]. unfold fa at 1. rewrite OB1, OB2. constructor; [exact Hd | exact SG].
    + intros b [<-|Hb]; [rewrite OB3, OB2; auto | apply BO; exact Hb].
Qed.

(* ---------- handleElection ---------- *)
Lemma handle_sim e ne : a_id e = nd_id ne -> a_creator e = vid vals (nd_cr ne) -> a_frame e = nd_fr ne -> In ne T ->
  forall fuel st S f bl0, ES st S -> nd_spf ne < f -> (N.to_nat (nd_fr ne + 1 - f) < fuel)%nat ->
    (forall m g, l_ldf st + 1 < g -> In m (rts g) -> (m <> ne \/ g < f) -> S (slot m g)) ->
    exists bl st', handle_election cap eb fuel es st e f bl0 = (Ok tt, bl0 ++ bl, st') /\ Done st' /\
      Seg (l_ldf st) (map fa bl) (l_ldf st') /\ blocks_ok bl /\ l_roots st' = l_roots st /\ l_ctr st' = l_ctr st.
Proof.
  intros Eid Ecr Efr HneT.
  assert (Hnv : (0 < nv)%nat) by (pose proof (cr_lt vals T ne HwfT HneT); lia).
  induction fuel as [|fu IH]; intros st S f bl0 E Hf Hfuel Hpre; [lia|]. cbn [handle_election].
  rewrite Efr. destruct (nd_fr ne <? f) eqn:Lf.
  - apply N.ltb_lt in Lf. exists [], st. rewrite app_nil_r. split; [reflexivity|]. split.
    + exists S. split; [exact E|]. intros m g Hg Hm. apply Hpre; auto.
      destruct (N.eq_dec (nd_id m) (nd_id ne)) as [EQ|NE0];
        [apply (wf_inj vals T HwfT m ne (roots_in _ _ _ _ _ _ Hm) HneT) in EQ; subst m; right
        | left; intros ->; apply NE0; reflexivity].
      unfold roots_at in Hm. apply filter_In in Hm as [_ Hm]. unfold is_root_at in Hm. lia.
    + split; [constructor|]. split; [intros b []|]. split; reflexivity.
  - apply N.ltb_ge in Lf. rewrite Ecr, Eid. change (f, vid vals (nd_cr ne), nd_id ne) with (slot ne f).
    assert (Hroot : In ne (rts f)).
    { unfold roots_at. apply filter_In. split; [exact HneT|]. unfold is_root_at. lia. }
    destruct E as [C CI I N].
    assert (F0 : 1 <= l_ldf st + 1) by lia.
    destruct (process_root_sim cap ep lam vals Hvals T HwfT Hff (l_ldf st + 1) F0 st es Dr k S ne f C CI NT I N Hroot)
      as [res [c1 [el1 [EP [CI1 [I1 [ER Sh]]]]]]].
    { intros H2 m Hm _. apply Hpre; [lia | exact Hm | right; lia]. }
    fold (st_with st c1 el1) in EP, CI1. rewrite EP.
    destruct Sh as [->|[a ->]].
    + assert (E1 : ES (st_with st c1 el1) (fun r => S r \/ r = slot ne f)).
      { apply (ES_with st c1 el1 S); [constructor; auto | exact CI1 | exact I1 | symmetry; exact ER]. }
      destruct (IH (st_with st c1 el1) _ (f + 1) bl0 E1) as [bl [st' R]]; [lia | lia | | exists bl, st'; exact R].
      change (l_ldf (st_with st c1 el1)) with (l_ldf st). intros m g Hg Hm Hor.
      destruct (N.eq_dec g f) as [->|NE].
      * destruct Hor as [Hor|Hor]; [left; apply Hpre; auto | ].
        destruct (N.eq_dec (nd_id m) (nd_id ne)) as [EQ|NE0];
          [apply (wf_inj vals T HwfT m ne (roots_in _ _ _ _ _ _ Hm) HneT) in EQ; subst m; right; reflexivity
          | left; apply Hpre; auto; left; intros ->; apply NE0; reflexivity].
      * left. apply Hpre; auto. destruct Hor as [Hor|Hor]; [left; exact Hor | right; lia].
    + assert (Hd : decideT (l_ldf st + 1) = Atropos a).
      { apply (choose_some_decide vals Hvals T HwfT Hff (l_ldf st + 1) el1 _ a I1). symmetry. exact ER. }
      destruct (atropos_in _ _ Hd) as [x [Ix Ex]]. subst a.
      assert (C1 : Core (st_with st c1 el1) es T Dr T) by (unfold st_with; apply Core_el, Core_fcc, C).
      destruct (ofd_sim (st_with st c1 el1) x (l_ldf st + 1) C1 (roots_in _ _ _ _ _ _ Ix) ltac:(lia)) as [blk [conf' [EO [OB SL]]]].
      rewrite EO.
      set (st2 := decided_state (st_with st c1 el1) (l_ldf st + 1) conf').
      assert (E2 : ES st2 (fun _ => False)).
      { apply (ES_decided (st_with st c1 el1) conf' C1 CI1 Hnv). }
      destruct (boot_sim (roots_fuel st2) st2 _ (bl0 ++ [blk]) E2) as [bl1 [st3 [EB [[S3 [E3 AV3]] [SG1 [BO1 [RR1 CC1]]]]]]].
      { unfold roots_fuel. pose proof (cnt_from_le (l_roots st2) (l_ldf st2 + 1)). lia. }
      { exact Hnv. }
      rewrite EB.
      destruct (IH st3 S3 (f + 1) ((bl0 ++ [blk]) ++ bl1) E3) as [bl2 [st' [EH [D' [SG2 [BO2 [RR2 CC2]]]]]]]; [lia | lia | |].
      { intros m g Hg Hm _. apply AV3; auto. }
      rewrite EH. exists (blk :: bl1 ++ bl2), st'.
      split; [rewrite <- !app_assoc; reflexivity|]. split; [exact D'|].
      unfold blk_obs in OB. inversion OB as [[OB1 OB2 OB3]].
      split; [|split; [|split; [rewrite RR2, RR1; reflexivity | rewrite CC2, CC1; reflexivity]]].
      * cbn [map]. unfold fa at 1. rewrite OB1, OB2. constructor; [exact Hd|]. rewrite map_app.
        eapply Seg_app; [exact SG1 | exact SG2].
      * intros b [<-|Hb]; [rewrite OB3, OB2; auto|]. apply in_app_or in Hb as [Hb|Hb]; [apply BO1 | apply BO2]; exact Hb.
Qed.

(* when every slot has voted and no Atropos is chosen, the reference has none either *)
Lemma Done_undecided st : Done st -> forall a, decideT (l_ldf st + 1) <> Atropos a.
Proof.
  intros [S [[C CI I Nn] AV]].
  assert (F0 : 1 <= l_ldf st + 1) by lia.
  apply (choose_none_undecided vals Hvals T HwfT Hff (l_ldf st + 1) F0 (l_el st) S I Nn). exact AV.
Qed.

End Elect.
