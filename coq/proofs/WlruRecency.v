(* C29, the LRU order against an independent notion of recency (spec/LruRecency.v): after every
   history the keys are listed in strictly increasing order of their last use, and whatever an
   operation evicts was used less recently than everything it keeps. *)
From Coq Require Import NArith ZArith List Bool Lia Permutation Sorted.
From LV Require Import model.Wlru spec.LruSpec spec.LruRecency proofs.WlruProofs.
Import ListNotations.

Section SortedFacts.
  Context {A : Type}.
  Variable R : A -> A -> Prop.

  Lemma ss_app_r (a b : list A) : StronglySorted R (a ++ b) -> StronglySorted R b.
  Proof. induction a as [|x a IH]; cbn [app]; [auto|]. intros H. inversion H; auto. Qed.

  Lemma ss_app_cross (a b : list A) : StronglySorted R (a ++ b) -> forall x y, In x a -> In y b -> R x y.
  Proof.
    induction a as [|h a IH]; cbn [app]; intros H x y Hx Hy; [destruct Hx|].
    inversion H as [|? ? Hs Hf]; subst. destruct Hx as [<-|Hx].
    - rewrite Forall_forall in Hf. apply Hf. apply in_or_app. right. exact Hy.
    - exact (IH Hs x y Hx Hy).
  Qed.

  Lemma ss_filter (f : A -> bool) (l : list A) : StronglySorted R l -> StronglySorted R (filter f l).
  Proof.
    induction l as [|x l IH]; intros H; [constructor|]. inversion H as [|? ? Hs Hf]; subst. cbn [filter].
    destruct (f x); [|exact (IH Hs)]. constructor; [exact (IH Hs)|].
    rewrite Forall_forall in *. intros y Hy. apply filter_In in Hy. apply Hf. tauto.
  Qed.

  Lemma ss_snoc (l : list A) (y : A) : StronglySorted R l -> (forall x, In x l -> R x y) -> StronglySorted R (l ++ [y]).
  Proof.
    induction l as [|x l IH]; intros H Hy; cbn [app]; [constructor; [constructor | constructor]|].
    inversion H as [|? ? Hs Hf]; subst. constructor.
    - apply IH; [exact Hs | intros z Hz; apply Hy; right; exact Hz].
    - rewrite Forall_forall in *. intros z Hz. apply in_app_iff in Hz. destruct Hz as [Hz|[<-|[]]]; [exact (Hf z Hz) | apply Hy; left; reflexivity].
  Qed.
End SortedFacts.

Lemma ss_ext {A} (R R' : A -> A -> Prop) (l : list A) :
  (forall x y, In x l -> In y l -> R x y -> R' x y) -> StronglySorted R l -> StronglySorted R' l.
Proof.
  induction l as [|h l IH]; intros H Hs; [constructor|]. inversion Hs as [|? ? Hs' Hf]; subst. constructor.
  - apply IH; [intros x y Hx Hy; apply H; right; assumption | exact Hs'].
  - rewrite Forall_forall in *. intros y Hy. apply H; [left; reflexivity | right; exact Hy | exact (Hf y Hy)].
Qed.

Section Recency.
  Context {K V : Type}.
  Variable keqb : K -> K -> bool.
  Hypothesis keqb_spec : forall a b, keqb a b = true <-> a = b.
  Notation cache := (cache K V).

  (* stamps: sigma k = time of the last use of k so far; all stamps of cached keys are in 1..now *)
  Definition stamped (sigma : K -> nat) (now : nat) (c : cache) : Prop :=
    StronglySorted (fun a b => (sigma a < sigma b)%nat) (keys c) /\
    forall k, In k (keys c) -> (0 < sigma k <= now)%nat.

  Definition bump (sigma : K -> nat) (now : nat) (o : op K V) (r : res K V) : K -> nat :=
    fun k => if uses keqb k o r then S now else sigma k.

  Lemma keqb_refl' a : keqb a a = true.
  Proof. apply keqb_spec. reflexivity. Qed.

  (* the two shapes of a step: the key k0 is used and ends up newest / nothing is used and the
     keys afterwards are a sub-sequence of the keys before *)
  Lemma stamped_use sigma now (c c' : cache) k0 (pre : list K) :
    stamped sigma now c ->
    pre ++ keys c' = filter (fun x => negb (keqb k0 x)) (keys c) ++ [k0] ->
    stamped (fun k => if keqb k k0 then S now else sigma k) (S now) c' /\
    forall x y, In x pre -> In y (keys c') ->
      ((if keqb x k0 then S now else sigma x) < (if keqb y k0 then S now else sigma y))%nat.
  Proof.
    intros [Hs Hr] E.
    set (sigma' := fun k => if keqb k k0 then S now else sigma k).
    assert (Hall : StronglySorted (fun a b => (sigma' a < sigma' b)%nat) (filter (fun x => negb (keqb k0 x)) (keys c) ++ [k0])).
    { apply ss_snoc.
      - apply (ss_ext (fun a b => (sigma a < sigma b)%nat)); [|apply ss_filter; exact Hs].
        intros x y Hx Hy Hlt. apply filter_In in Hx, Hy. destruct Hx as [_ Hx], Hy as [_ Hy].
        apply negb_true_iff in Hx, Hy. unfold sigma'.
        assert (keqb x k0 = false) as -> by (destruct (keqb x k0) eqn:E1; [apply keqb_spec in E1; subst; rewrite keqb_refl' in Hx; discriminate | reflexivity]).
        assert (keqb y k0 = false) as -> by (destruct (keqb y k0) eqn:E1; [apply keqb_spec in E1; subst; rewrite keqb_refl' in Hy; discriminate | reflexivity]).
        exact Hlt.
      - intros x Hx. apply filter_In in Hx. destruct Hx as [Hin Hx]. apply negb_true_iff in Hx. unfold sigma'.
        rewrite keqb_refl'.
        assert (keqb x k0 = false) as -> by (destruct (keqb x k0) eqn:E1; [apply keqb_spec in E1; subst; rewrite keqb_refl' in Hx; discriminate | reflexivity]).
        specialize (Hr x Hin). lia. }
    rewrite <- E in Hall. split; [split|].
    - exact (ss_app_r _ _ _ Hall).
    - intros k Hk. assert (Hk' : In k (filter (fun x => negb (keqb k0 x)) (keys c) ++ [k0])) by (rewrite <- E; apply in_or_app; right; exact Hk).
      unfold sigma'. apply in_app_iff in Hk'. destruct Hk' as [Hk'|[<-|[]]]; [|rewrite keqb_refl'; lia].
      apply filter_In in Hk'. destruct Hk' as [Hin _]. specialize (Hr k Hin). destruct (keqb k k0); lia.
    - intros x y Hx Hy. exact (ss_app_cross _ _ _ Hall x y Hx Hy).
  Qed.

  Lemma stamped_sub sigma now (c c' : cache) (pre : list K) (f : K -> bool) :
    stamped sigma now c -> pre ++ keys c' = filter f (keys c) ->
    stamped sigma (S now) c' /\ forall x y, In x pre -> In y (keys c') -> (sigma x < sigma y)%nat.
  Proof.
    intros [Hs Hr] E. pose proof (ss_filter _ f _ Hs) as Hf. rewrite <- E in Hf. split; [split|].
    - exact (ss_app_r _ _ _ Hf).
    - intros k Hk. assert (Hk' : In k (filter f (keys c))) by (rewrite <- E; apply in_or_app; right; exact Hk).
      apply filter_In in Hk'. specialize (Hr k (proj1 Hk')). lia.
    - intros x y Hx Hy. exact (ss_app_cross _ _ _ Hf x y Hx Hy).
  Qed.

  Lemma filter_true_id {A} (l : list A) : filter (fun _ => true) l = l.
  Proof. induction l as [|x l IH]; [reflexivity|]. cbn [filter]. rewrite IH. reflexivity. Qed.

  Lemma bump_unused sigma now o r : (forall k, uses keqb k o r = false) -> forall k, bump sigma now o r k = sigma k.
  Proof. intros H k. unfold bump. rewrite H. reflexivity. Qed.

  Lemma stamped_ext sigma sigma' now (c : cache) : (forall k, sigma' k = sigma k) -> stamped sigma now c -> stamped sigma' now c.
  Proof.
    intros H [Hs Hr]. split.
    - apply (ss_ext (fun a b => (sigma a < sigma b)%nat)); [|exact Hs]. intros x y _ _. rewrite !H. auto.
    - intros k Hk. rewrite H. exact (Hr k Hk).
  Qed.

  (* one step: stamps stay sorted, and whatever the step evicts (callback log of Add / Resize /
     ContainsOrAdd / PeekOrAdd / RemoveOldest) is older than everything kept *)
  Definition evicting (o : op K V) : bool :=
    match o with OAdd _ _ _ | OResize _ _ | OContainsOrAdd _ _ _ | OPeekOrAdd _ _ _ | ORemoveOldest => true | _ => false end.

  Theorem step_stamped sigma now (c c' : cache) o r lg :
    inv c -> op_small o -> stamped sigma now c -> step keqb c o = (c', r, lg) ->
    stamped (bump sigma now o r) (S now) c' /\
    (evicting o = true -> forall x y, In x (map fst lg) -> In y (keys c') ->
       (bump sigma now o r x < bump sigma now o r y)%nat).
  Proof.
    intros I Hsm St.
    assert (Hadd : forall k v w n, small w -> add keqb k v w c = (c', lg, n) ->
              forall r0, (forall x, uses keqb x o r0 = keqb x k) ->
              stamped (bump sigma now o r0) (S now) c' /\
              (forall x y, In x (map fst lg) -> In y (keys c') -> (bump sigma now o r0 x < bump sigma now o r0 y)%nat)).
    { intros k v w n Hw A r0 Hu. destruct (add_lru keqb keqb_spec _ _ _ _ _ _ _ I Hw A) as (O1 & _ & _).
      destruct (stamped_use sigma now c c' k (map fst lg) St O1) as [S1 S2].
      split; [apply (stamped_ext (fun x => if keqb x k then S now else sigma x)); [intros x; unfold bump; rewrite Hu; reflexivity | exact S1]|].
      intros x y Hx Hy. unfold bump. rewrite !Hu. exact (S2 x y Hx Hy). }
    assert (Hsame : forall r0, (forall x, uses keqb x o r0 = false) -> stamped (bump sigma now o r0) (S now) c).
    { intros r0 Hu. apply (stamped_ext sigma); [exact (bump_unused sigma now o r0 Hu)|].
      destruct St as [Hs Hr]. split; [exact Hs | intros k Hk; specialize (Hr k Hk); lia]. }
    destruct o; cbn [step op_small evicting] in *.
    - destruct (add keqb k v w c) as [[c1 l1] n1] eqn:A. intros [= <- <- <-].
      destruct (Hadd k v w n1 Hsm A (RCount n1) (fun x => eq_refl)) as [H1 H2]. split; [exact H1 | intros _; exact H2].
    - destruct (get keqb k c) as [c1 r1] eqn:G. intros [= <- <- <-]. split; [|discriminate].
      pose proof (get_lru keqb keqb_spec _ _ _ _ I G) as L. destruct r1 as [v|].
      + destruct L as (_ & L & _).
        destruct (stamped_use sigma now c c1 k [] St L) as [S1 _].
        apply (stamped_ext (fun x => if keqb x k then S now else sigma x)); [intros x; reflexivity | exact S1].
      + destruct L as [-> _]. apply Hsame. intros x. reflexivity.
    - intros [= <- <- <-]. split; [apply Hsame; intros x; reflexivity | discriminate].
    - intros [= <- <- <-]. split; [apply Hsame; intros x; reflexivity | discriminate].
    - destruct (remove keqb k c) as [[c1 l1] b1] eqn:G. intros [= <- <- <-]. split; [|discriminate].
      destruct (remove_reports keqb keqb_spec _ _ _ _ _ I G) as (_ & L & _).
      apply (stamped_ext sigma); [apply bump_unused; intros x; reflexivity|].
      exact (proj1 (stamped_sub sigma now c c1 [] _ St L)).
    - destruct (remove_oldest c) as [[c1 l1] r1] eqn:G. intros [= <- <- <-].
      pose proof (remove_oldest_reports _ _ _ _ G) as L. destruct r1 as [p|].
      + destruct L as (_ & L & _). rewrite <- (filter_true_id (keys c)) in L.
        destruct (stamped_sub sigma now c c1 _ _ St L) as [S1 S2].
        split; [apply (stamped_ext sigma); [apply bump_unused; intros x; reflexivity | exact S1]|].
        intros _ x y Hx Hy. rewrite !bump_unused by (intros z; reflexivity). exact (S2 x y Hx Hy).
      + destruct L as (-> & -> & _). split; [apply Hsame; intros x; reflexivity | intros _ x y []].
    - intros [= <- <- <-]. split; [apply Hsame; intros x; reflexivity | discriminate].
    - intros [= <- <- <-]. split; [apply Hsame; intros x; reflexivity | discriminate].
    - intros [= <- <- <-]. split; [apply Hsame; intros x; reflexivity | discriminate].
    - intros [= <- <- <-]. split; [apply Hsame; intros x; reflexivity | discriminate].
    - destruct (resize mw ms c) as [[c1 l1] n1] eqn:G.
      intros [= <- <- <-]. destruct (resize_lru _ _ _ _ _ _ I Hsm G) as (L & _).
        rewrite <- (filter_true_id (keys c)) in L. destruct (stamped_sub sigma now c c1 _ _ St L) as [S1 S2].
        split; [apply (stamped_ext sigma); [apply bump_unused; intros x; reflexivity | exact S1]|].
        intros _ x y Hx Hy. rewrite !bump_unused by (intros z; reflexivity). exact (S2 x y Hx Hy).
    - destruct (purge c) as [c1 l1] eqn:G. intros [= <- <- <-]. split; [|discriminate].
      destruct (purge_reports _ _ _ G) as [E _]. unfold stamped, keys. rewrite E. cbn [rev map].
      split; [constructor | intros k []].
    - unfold contains_or_add. destruct (contains keqb k c).
      + intros [= <- <- <-]. split; [apply Hsame; intros x; reflexivity | intros _ x y []].
      + destruct (add keqb k v w c) as [[c1 l1] n1] eqn:A. intros [= <- <- <-].
        destruct (Hadd k v w n1 Hsm A (RFoundCount false n1) (fun x => eq_refl)) as [H1 H2]. split; [exact H1 | intros _; exact H2].
    - unfold peek_or_add. destruct (peek keqb k c).
      + intros [= <- <- <-]. split; [apply Hsame; intros x; reflexivity | intros _ x y []].
      + destruct (add keqb k v w c) as [[c1 l1] n1] eqn:A. intros [= <- <- <-].
        destruct (Hadd k v w n1 Hsm A (RPrevCount None n1) (fun x => eq_refl)) as [H1 H2]. split; [exact H1 | intros _; exact H2].
  Qed.

  (* histories: the stamp function maintained step by step is last_use *)
  Lemma run_stamped ops : forall (c c' : cache) tr sigma now,
    inv c -> Forall op_small ops -> stamped sigma now c -> run keqb c ops = (c', tr) ->
    stamped (fun k => last_use_from keqb k now (sigma k) ops tr) (now + length ops) c'.
  Proof.
    induction ops as [|o ops IH]; intros c c' tr sigma now I Hs St; cbn [run].
    - intros [= <- <-]. cbn [last_use_from length]. rewrite Nat.add_0_r. exact St.
    - destruct (step keqb c o) as [[c1 r1] l1] eqn:Hst. destruct (run keqb c1 ops) as [c2 tr2] eqn:R.
      intros [= <- <-]. inversion Hs as [|? ? H1 H2]; subst.
      destruct (step_stamped sigma now c c1 o r1 l1 I H1 St Hst) as [St1 _].
      pose proof (IH _ _ _ _ _ (step_inv keqb keqb_spec _ _ _ _ _ I H1 Hst) H2 St1 R) as St2.
      cbn [last_use_from length]. replace (now + S (length ops))%nat with (S now + length ops)%nat by lia.
      exact St2.
  Qed.

  (* C29: keys are listed from the least to the most recently used *)
  Theorem keys_sorted_by_last_use mw ms ops (c0 c : cache) tr :
    small mw -> Forall op_small ops -> new mw ms = Some c0 -> run keqb c0 ops = (c, tr) ->
    StronglySorted (fun a b => (last_use keqb a ops tr < last_use keqb b ops tr)%nat) (keys c) /\
    forall k, In k (keys c) -> (0 < last_use keqb k ops tr)%nat.
  Proof.
    intros Hm Hs Hn Hr.
    assert (St0 : stamped (fun _ => 0%nat) 0 c0).
    { unfold new in Hn. destruct (z_neg ms); [discriminate|]. injection Hn as <-. unfold stamped, keys. cbn [c_entries rev map].
      split; [constructor | intros k []]. }
    destruct (run_stamped ops c0 c tr _ _ (new_inv _ _ _ Hm Hn) Hs St0 Hr) as [H1 H2].
    split; [exact H1 | intros k Hk; specialize (H2 k Hk); unfold last_use; lia].
  Qed.

  (* C29: the next operation evicts only entries used less recently than all it keeps *)
  Theorem evicts_least_recently_used mw ms ops (c0 c : cache) tr o c' r lg :
    small mw -> Forall op_small ops -> op_small o -> new mw ms = Some c0 ->
    run keqb c0 ops = (c, tr) -> step keqb c o = (c', r, lg) -> evicting o = true ->
    forall x y, In x (map fst lg) -> In y (keys c') ->
      (last_use keqb x (ops ++ [o]) (tr ++ [(r, lg)]) < last_use keqb y (ops ++ [o]) (tr ++ [(r, lg)]))%nat.
  Proof.
    intros Hm Hs Ho Hn Hr Hst He x y Hx Hy.
    assert (St0 : stamped (fun _ => 0%nat) 0 c0).
    { unfold new in Hn. destruct (z_neg ms); [discriminate|]. injection Hn as <-. unfold stamped, keys. cbn [c_entries rev map].
      split; [constructor | intros k []]. }
    pose proof (new_inv _ _ _ Hm Hn) as I0.
    pose proof (run_stamped ops c0 c tr _ _ I0 Hs St0 Hr) as St.
    pose proof (run_inv keqb keqb_spec ops _ _ _ I0 Hs Hr) as I.
    destruct (step_stamped _ _ c c' o r lg I Ho St Hst) as [_ H]. specialize (H He x y Hx Hy).
    assert (Hlen : length tr = length ops).
    { clear -Hr. revert c0 tr Hr. induction ops as [|o' ops IH]; intros c0 tr; cbn [run].
      - intros [= <- <-]. reflexivity.
      - destruct (step keqb c0 o') as [[c1 r1] l1]. destruct (run keqb c1 ops) as [c2 tr2] eqn:E. intros [= <- <-].
        cbn [length]. f_equal. exact (IH _ _ E). }
    assert (Hsnoc : forall k i acc, last_use_from keqb k i acc (ops ++ [o]) (tr ++ [(r, lg)]) =
              (if uses keqb k o r then S (i + length ops) else last_use_from keqb k i acc ops tr)).
    { clear -Hlen. revert tr Hlen. induction ops as [|o' ops IH]; intros [|[r' l'] tr] Hlen k i acc; try discriminate; cbn [app last_use_from length].
      - rewrite Nat.add_0_r. reflexivity.
      - injection Hlen as Hlen. rewrite (IH tr Hlen). replace (S i + length ops)%nat with (i + S (length ops))%nat by lia. reflexivity. }
    unfold last_use. rewrite !Hsnoc. unfold bump in H. cbn [Nat.add] in *. exact H.
  Qed.
End Recency.
