(* Round 2: every block emitted by a call comes from an onFrameDecided step taken in a state that has
   the index, validators, roots and epoch of the state the election loop started from.  (From this
   any per-block fact about applyAtropos lifts to all blocks of a call.) *)
From Coq Require Import NArith ZArith List Lia Bool ZifyBool ZifyN ZifyNat.
From LV Require Import model.VecIndex model.Abft proofs.AbftStruct proofs.AbftSeal.
Import ListNotations.
Local Open Scope N_scope.

Definition same_view (st st1 : lstate) : Prop :=
  l_idx st1 = l_idx st /\ l_vals st1 = l_vals st /\ l_roots st1 = l_roots st /\ l_epoch st1 = l_epoch st.
Definition from_ofd eb es (st : lstate) (b : block) : Prop :=
  exists st1 f a sealed st2, same_view st st1 /\ f = l_ldf st1 + 1 /\
    on_frame_decided eb es st1 f a = (Ok (sealed, b), st2).

Lemma same_view_core st st1 : same_core st st1 -> same_view st st1.
Proof. intros (A1&A2&A3&A4&A5&A6&A7&A8&A9). repeat split; auto. Qed.
Lemma same_view_trans a b c : same_view a b -> same_view b c -> same_view a c.
Proof. intros (A1&A2&A3&A4) (B1&B2&B3&B4). repeat split; congruence. Qed.
Lemma from_ofd_head eb es st0 st b : same_view st0 st -> from_ofd eb es st b -> from_ofd eb es st0 b.
Proof.
  intros S (st1&f&a&sl&st2&V&F&O). exists st1, f, a, sl, st2. split; [eapply same_view_trans; eauto | auto].
Qed.

Section Blocks.
Variable cap : nat.
Variable eb : N -> N -> N -> list N -> list N -> option vals.
Variable es : estore.

Lemma bootstrap_election_blocks : forall fuel st r bl st',
  elinv st -> bootstrap_election cap eb fuel es st [] = (r, bl, st') -> forall b, In b bl -> from_ofd eb es st b.
Proof.
  induction fuel as [|fu IH]; intros st r bl st' I E b Hb; cbn [bootstrap_election] in E.
  - inversion E; subst. destruct Hb.
  - destruct (process_known_roots_core cap (roots_fuel st) st (l_ldf st + 1)) as [SC DF].
    destruct (process_known_roots cap (roots_fuel st) st (l_ldf st + 1)) as [[[[df atr]|]|x] st1]; cbn [fst snd] in *;
      try (inversion E; subst; destruct Hb).
    specialize (DF _ _ eq_refl). pose proof (elinv_core _ _ SC I) as I1.
    assert (Hdf : df = l_ldf st1 + 1) by (pose proof SC as (A1&A2&A3&A4&A5&A6&A7&A8&A9); unfold elinv in *; congruence).
    destruct (on_frame_decided eb es st1 df atr) as [[[sealed blk]|x] st2] eqn:OF; [|inversion E; subst; destruct Hb].
    destruct sealed.
    + inversion E; subst r bl st'. destruct Hb as [<-|[]].
      exists st1, df, atr, true, st2. split; [apply same_view_core; auto | split; [exact Hdf | exact OF]].
    + rewrite bootstrap_election_app in E.
      destruct (bootstrap_election cap eb fu es st2 []) as [[r2 new] st3] eqn:E2.
      inversion E; subst r bl st'. cbn [app] in Hb.
      pose proof OF as OF'. apply no_seal_state in OF' as (S&Bf&Ba&L&El&Ep&V&R&X&Fc&C).
      destruct Hb as [<-|Hb].
      * exists st1, df, atr, false, st2. split; [apply same_view_core; auto | split; [exact Hdf | exact OF]].
      * assert (I2 : elinv st2) by (unfold elinv; rewrite El, L; cbn; lia).
        eapply from_ofd_head; [|eapply IH; eauto].
        eapply same_view_trans; [apply same_view_core; exact SC|]. repeat split; auto.
Qed.

Lemma handle_election_blocks e : forall fuel st f r bl st',
  elinv st -> handle_election cap eb fuel es st e f [] = (r, bl, st') -> forall b, In b bl -> from_ofd eb es st b.
Proof.
  induction fuel as [|fu IH]; intros st f r bl st' I E b Hb; cbn [handle_election] in E.
  - inversion E; subst. destruct Hb.
  - destruct (a_frame e <? f). { inversion E; subst. destruct Hb. }
    destruct (process_root_core cap st (f, a_creator e, a_id e)) as [SC DF].
    destruct (process_root cap st (f, a_creator e, a_id e)) as [[[[df atr]|]|x] st1]; cbn [fst snd] in *.
    + specialize (DF _ _ eq_refl). pose proof (elinv_core _ _ SC I) as I1.
      assert (Hdf : df = l_ldf st1 + 1) by (pose proof SC as (A1&A2&A3&A4&A5&A6&A7&A8&A9); unfold elinv in *; congruence).
      destruct (on_frame_decided eb es st1 df atr) as [[[sealed blk]|x] st2] eqn:OF; [|inversion E; subst; destruct Hb].
      destruct sealed.
      * inversion E; subst r bl st'. destruct Hb as [<-|[]].
        exists st1, df, atr, true, st2. split; [apply same_view_core; auto | split; [exact Hdf | exact OF]].
      * pose proof OF as OF'. apply no_seal_state in OF' as (S&Bf&Ba&L&El&Ep&V&R&X&Fc&C).
        assert (I2 : elinv st2) by (unfold elinv; rewrite El, L; cbn; lia).
        assert (SV2 : same_view st st2).
        { eapply same_view_trans; [apply same_view_core; exact SC|]. repeat split; auto. }
        rewrite bootstrap_election_app in E.
        destruct (bootstrap_election cap eb (roots_fuel st2) es st2 []) as [[r2 new] st3] eqn:E2.
        pose proof (bootstrap_election_blocks _ _ _ _ _ I2 E2) as B2.
        destruct (bootstrap_election_post cap eb es _ _ _ _ _ I2 E2) as [[F2 [I3 P2]] [Q1 Q2]].
        cbn [app] in E.
        assert (Hhead : forall b0, b0 = blk \/ In b0 new -> from_ofd eb es st b0).
        { intros b0 [->|H0].
          - exists st1, df, atr, false, st2. split; [apply same_view_core; auto | split; [exact Hdf | exact OF]].
          - eapply from_ofd_head; [exact SV2 | apply B2; exact H0]. }
        destruct r2 as [s2|x].
        -- destruct s2.
           ++ inversion E; subst. apply Hhead. destruct Hb; auto.
           ++ rewrite handle_election_app in E.
              destruct (handle_election cap eb fu es st3 e (f + 1) []) as [[r3 new3] st4] eqn:E3.
              inversion E; subst r bl st'.
              destruct Hb as [<-|Hb]; [apply Hhead; auto|]. apply in_app_or in Hb as [Hb|Hb]; [apply Hhead; auto|].
              pose proof (Q2 eq_refl) as NS. rewrite NS in P2. destruct P2 as (P1&P2'&P3&P4&P5&P6).
              eapply from_ofd_head; [|eapply IH; eauto].
              eapply same_view_trans; [exact SV2|]. repeat split; auto.
        -- inversion E; subst. apply Hhead. destruct Hb; auto.
    + eapply from_ofd_head; [apply same_view_core; exact SC|]. eapply IH; eauto. eapply elinv_core; eauto.
    + inversion E; subst. destruct Hb.
Qed.

End Blocks.
