(* C12: the canonical order.  Less (sort.go) is a strict total order on (id, weight) pairs;
   a list has exactly one sorted arrangement (so Go's unstable sort.Sort and the model's
   insertion sort agree); in that arrangement every pair sits at its PosSpec.rank. *)
From Coq Require Import NArith PeanoNat List Lia Bool Permutation Sorted RelationClasses.
From Coq Require Import ZifyBool ZifyNat ZifyN.
From LV Require Import lib.WordArith model.Pos spec.PosSpec.
Import ListNotations.
Local Open Scope N_scope.

Definition vle (a b : N * N) : Prop := vless a b = true \/ a = b.

Lemma vless_spec a b : vless a b = true <-> (snd b < snd a \/ (snd a = snd b /\ fst a < fst b)).
Proof.
  unfold vless. destruct (N.eqb_spec (snd a) (snd b)) as [E|E]; cbn [negb].
  - rewrite N.ltb_lt. lia.
  - rewrite N.ltb_lt. lia.
Qed.

Lemma vless_before a b : vless a b = before a b.
Proof.
  apply eq_true_iff_eq. rewrite vless_spec. unfold before.
  rewrite orb_true_iff, andb_true_iff, !N.ltb_lt, N.eqb_eq. tauto.
Qed.

Lemma vless_irrefl a : vless a a = false.
Proof. apply not_true_iff_false. rewrite vless_spec. lia. Qed.

Lemma vless_trans a b c : vless a b = true -> vless b c = true -> vless a c = true.
Proof. rewrite !vless_spec. lia. Qed.

Lemma vless_asym a b : vless a b = true -> vless b a = false.
Proof. intros H. apply not_true_iff_false. rewrite vless_spec in *. lia. Qed.

Lemma vless_total a b : a <> b -> vless a b = true \/ vless b a = true.
Proof.
  intros H. rewrite !vless_spec. destruct a as [i w], b as [j v]. cbn [fst snd].
  destruct (N.lt_trichotomy w v) as [L|[L|L]]; [right; left; exact L| |left; left; exact L].
  destruct (N.lt_trichotomy i j) as [M|[M|M]]; [left; right; split; assumption| |right; right; split; [symmetry; exact L|exact M]].
  exfalso. apply H. congruence.
Qed.

Lemma vle_refl a : vle a a. Proof. right. reflexivity. Qed.
Lemma vle_trans a b c : vle a b -> vle b c -> vle a c.
Proof.
  intros [H1|H1] [H2|H2]; subst; try (left; assumption); try (right; reflexivity).
  left. eapply vless_trans; eassumption.
Qed.
Lemma vle_antisym a b : vle a b -> vle b a -> a = b.
Proof.
  intros [H1|H1] [H2|H2]; try congruence. apply vless_asym in H1. congruence.
Qed.
Lemma not_vless_vle a b : vless a b = false -> vle b a.
Proof.
  intros H. destruct (N.eq_dec (fst a) (fst b)) as [E1|E1].
  - destruct (N.eq_dec (snd a) (snd b)) as [E2|E2].
    + right. destruct a, b; cbn [fst snd] in *; congruence.
    + left. assert (Hne : a <> b) by congruence. destruct (vless_total a b Hne); congruence.
  - left. assert (Hne : a <> b) by congruence. destruct (vless_total a b Hne); congruence.
Qed.

#[global] Instance vle_Transitive : Transitive vle. Proof. exact vle_trans. Qed.

(* ---- insertion sort: permutation and sortedness ---- *)
Lemma vinsert_perm x l : Permutation (vinsert x l) (x :: l).
Proof.
  induction l as [|y r IH]; cbn [vinsert]; [apply Permutation_refl|].
  destruct (vless y x); [|apply Permutation_refl].
  eapply Permutation_trans; [apply perm_skip; exact IH|apply perm_swap].
Qed.

Lemma vsort_perm l : Permutation (vsort l) l.
Proof.
  induction l as [|x l IH]; cbn [vsort fold_right]; [constructor|].
  eapply Permutation_trans; [apply vinsert_perm|]. apply perm_skip. exact IH.
Qed.

Lemma vinsert_hdrel y x r : HdRel vle y r -> vle y x -> HdRel vle y (vinsert x r).
Proof.
  intros H1 H2. destruct r as [|z r]; cbn [vinsert]; [constructor; exact H2|].
  destruct (vless z x); constructor; [inversion H1; assumption|exact H2].
Qed.

Lemma vinsert_sorted x l : Sorted vle l -> Sorted vle (vinsert x l).
Proof.
  induction l as [|y r IH]; cbn [vinsert]; intros H; [repeat constructor|].
  inversion H as [|? ? Hs Hh]; subst. destruct (vless y x) eqn:E.
  - constructor; [apply IH; exact Hs|]. apply vinsert_hdrel; [exact Hh|left; exact E].
  - constructor; [exact H|]. constructor. apply not_vless_vle. exact E.
Qed.

Lemma vsort_sorted l : StronglySorted vle (vsort l).
Proof.
  apply Sorted_StronglySorted; [exact vle_Transitive|].
  induction l as [|x l IH]; cbn [vsort fold_right]; [constructor|]. apply vinsert_sorted. exact IH.
Qed.

(* ---- a list has one sorted arrangement ---- *)
Lemma sorted_unique l1 l2 :
  StronglySorted vle l1 -> StronglySorted vle l2 -> Permutation l1 l2 -> l1 = l2.
Proof.
  revert l2. induction l1 as [|a l1 IH]; intros l2 H1 H2 HP.
  - apply Permutation_nil in HP. symmetry. exact HP.
  - destruct l2 as [|b l2]; [apply Permutation_sym, Permutation_nil in HP; discriminate|].
    inversion H1 as [|? ? Hs1 Hf1]; subst. inversion H2 as [|? ? Hs2 Hf2]; subst.
    assert (Hab : a = b).
    { apply vle_antisym.
      - assert (Hin : In b (a :: l1)) by (apply (Permutation_in b (Permutation_sym HP)); left; reflexivity).
        destruct Hin as [E|Hin]; [subst; apply vle_refl|]. rewrite Forall_forall in Hf1. apply Hf1. exact Hin.
      - assert (Hin : In a (b :: l2)) by (apply (Permutation_in a HP); left; reflexivity).
        destruct Hin as [E|Hin]; [subst; apply vle_refl|]. rewrite Forall_forall in Hf2. apply Hf2. exact Hin. }
    subst b. f_equal. apply IH; [exact Hs1|exact Hs2|]. apply Permutation_cons_inv with (a := a). exact HP.
Qed.

(* whatever correct sort is used, its output is the model's *)
Lemma any_sort_is_vsort l l' : Permutation l' l -> StronglySorted vle l' -> l' = vsort l.
Proof.
  intros HP HS. apply sorted_unique; [exact HS|apply vsort_sorted|].
  eapply Permutation_trans; [exact HP|apply Permutation_sym; apply vsort_perm].
Qed.

Lemma vsort_perm_eq l1 l2 : Permutation l1 l2 -> vsort l1 = vsort l2.
Proof.
  intros HP. apply any_sort_is_vsort; [|apply vsort_sorted].
  eapply Permutation_trans; [apply vsort_perm|exact HP].
Qed.

(* ---- rank = position ---- *)
Lemma filter_length_perm {A} (f : A -> bool) l1 l2 :
  Permutation l1 l2 -> length (filter f l1) = length (filter f l2).
Proof.
  induction 1 as [|x l l' _ IH|x y l|l l' l'' _ IH1 _ IH2]; cbn [filter]; [reflexivity| | |congruence].
  - destruct (f x); cbn [length]; congruence.
  - destruct (f x), (f y); reflexivity.
Qed.

Lemma rank_perm l1 l2 p : Permutation l1 l2 -> rank l1 p = rank l2 p.
Proof. intros H. unfold rank. apply filter_length_perm. exact H. Qed.

Lemma sorted_split pre p post : StronglySorted vle (pre ++ p :: post) ->
  Forall (fun q => vle q p) pre /\ Forall (vle p) post.
Proof.
  induction pre as [|a pre IH]; cbn [app]; intros H; inversion H as [|? ? Hs Hf]; subst.
  - split; [constructor|exact Hf].
  - destruct (IH Hs) as [H1 H2]. split; [|exact H2]. constructor; [|exact H1].
    rewrite Forall_forall in Hf. apply Hf. apply in_or_app. right. left. reflexivity.
Qed.

Lemma filter_all {A} (f : A -> bool) l : Forall (fun x => f x = true) l -> filter f l = l.
Proof. induction 1 as [|x l Hx _ IH]; cbn [filter]; [reflexivity|]. rewrite Hx, IH. reflexivity. Qed.
Lemma filter_none {A} (f : A -> bool) l : Forall (fun x => f x = false) l -> filter f l = [].
Proof. induction 1 as [|x l Hx _ IH]; cbn [filter]; [reflexivity|]. rewrite Hx, IH. reflexivity. Qed.

Lemma rank_sorted pre p post : StronglySorted vle (pre ++ p :: post) -> NoDup (pre ++ p :: post) ->
  rank (pre ++ p :: post) p = length pre.
Proof.
  intros HS HN. destruct (sorted_split pre p post HS) as [H1 H2].
  unfold rank. rewrite filter_app. cbn [filter]. rewrite <- vless_before, vless_irrefl.
  apply NoDup_remove_2 in HN.
  rewrite filter_all, filter_none, app_nil_r; [reflexivity| |].
  - rewrite Forall_forall in *. intros q Hq. rewrite <- vless_before.
    destruct (H2 q Hq) as [L|E]; [apply vless_asym; exact L|].
    exfalso. apply HN. apply in_or_app. right. subst q. exact Hq.
  - rewrite Forall_forall in *. intros q Hq. rewrite <- vless_before.
    destruct (H1 q Hq) as [L|E]; [exact L|].
    exfalso. apply HN. apply in_or_app. left. subst q. exact Hq.
Qed.

Lemma mem_pair_In p l : mem_pair p l = true <-> In p l.
Proof.
  unfold mem_pair. rewrite existsb_exists. split.
  - intros [q [Hq E]]. unfold pair_eqb in E. apply andb_true_iff in E. destruct E as [E1 E2].
    apply N.eqb_eq in E1, E2. destruct p, q; cbn [fst snd] in *; subst. exact Hq.
  - intros H. exists p. split; [exact H|]. unfold pair_eqb. rewrite !N.eqb_refl. reflexivity.
Qed.

(* the sorted arrangement of a duplicate-free pair set satisfies the executable specification *)
Lemma canon_from_sorted pairs pre suf :
  Permutation (pre ++ suf) pairs -> StronglySorted vle (pre ++ suf) -> NoDup (pre ++ suf) ->
  canon_from pairs (length pre) suf = true.
Proof.
  revert pre. induction suf as [|p suf IH]; intros pre HP HS HN; cbn [canon_from]; [reflexivity|].
  rewrite !andb_true_iff. split; [split|].
  - apply mem_pair_In. apply (Permutation_in p HP). apply in_or_app. right. left. reflexivity.
  - apply Nat.eqb_eq. rewrite <- (rank_perm _ _ p HP). apply rank_sorted; assumption.
  - specialize (IH (pre ++ [p])). rewrite app_length in IH. cbn [length] in IH.
    rewrite Nat.add_1_r in IH. rewrite <- app_assoc in IH. apply IH; assumption.
Qed.

Lemma canon_ok_sorted pairs arr :
  Permutation arr pairs -> StronglySorted vle arr -> NoDup arr -> canon_ok pairs arr = true.
Proof.
  intros HP HS HN. unfold canon_ok. rewrite andb_true_iff. split.
  - apply Nat.eqb_eq. apply Permutation_length. exact HP.
  - apply (canon_from_sorted pairs [] arr); assumption.
Qed.

(* ---- the executable specification pins the arrangement: only the sorted one passes ---- *)
Lemma nth_error_ext_eq {A} (l1 l2 : list A) : (forall i, nth_error l1 i = nth_error l2 i) -> l1 = l2.
Proof.
  revert l2. induction l1 as [|a l1 IH]; intros [|b l2] H; [reflexivity| | |].
  - specialize (H 0%nat). discriminate.
  - specialize (H 0%nat). discriminate.
  - pose proof (H 0%nat) as H0. cbn [nth_error] in H0. inversion H0; subst. f_equal.
    apply IH. intros i. exact (H (S i)).
Qed.

Lemma canon_from_nth pairs suf : forall i j p, canon_from pairs i suf = true ->
  nth_error suf j = Some p -> In p pairs /\ rank pairs p = (i + j)%nat.
Proof.
  induction suf as [|q suf IH]; intros i j p Hc Hn; [destruct j; discriminate|].
  cbn [canon_from] in Hc. rewrite !andb_true_iff in Hc. destruct Hc as [[Hm Hr] Hc].
  destruct j as [|j]; cbn [nth_error] in Hn.
  - inversion Hn; subst. split; [apply mem_pair_In; exact Hm|]. apply Nat.eqb_eq in Hr. lia.
  - destruct (IH (S i) j p Hc Hn) as [H1 H2]. split; [exact H1|lia].
Qed.

Lemma canon_ok_unique pairs arr : NoDup pairs -> canon_ok pairs arr = true -> arr = vsort pairs.
Proof.
  intros HN Hc. unfold canon_ok in Hc. rewrite andb_true_iff in Hc. destruct Hc as [Hl Hc].
  apply Nat.eqb_eq in Hl.
  set (s := vsort pairs).
  assert (HP : Permutation s pairs) by apply vsort_perm.
  assert (HNs : NoDup s) by (apply (Permutation_NoDup (Permutation_sym HP)); exact HN).
  assert (HSs : StronglySorted vle s) by apply vsort_sorted.
  apply nth_error_ext_eq. intros i. destruct (nth_error arr i) as [p|] eqn:En.
  - destruct (canon_from_nth pairs arr 0%nat i p Hc En) as [Hin Hr]. cbn [Nat.add] in Hr.
    apply (Permutation_in p (Permutation_sym HP)) in Hin.
    destruct (in_split _ _ Hin) as [pre [post Hs]].
    rewrite <- (rank_perm _ _ p HP) in Hr. rewrite Hs in Hr.
    rewrite rank_sorted in Hr; [|rewrite <- Hs; exact HSs|rewrite <- Hs; exact HNs].
    rewrite Hs. subst i. symmetry. clear. induction pre as [|a pre IH]; [reflexivity|exact IH].
  - apply nth_error_None in En. symmetry. apply nth_error_None.
    rewrite (Permutation_length HP). lia.
Qed.
